(* How ParseRemoteSource reads a structured address text
     [type "::"] scheme "://" host path ["//" sub] ["?" query]
   whose parts are free of the characters that URL escaping rewrites: it is
   make_remote applied to exactly these parts.  Both the C06 round trip of
   remote values and the C07 acceptance of the documented grammar are
   instances. *)
From Slug Require Import Base.Str Base.PathAlg Base.PathLemmas Base.Search Addr.Resolve Addr.ResolveProofs
  Addr.Url Addr.UrlProofs Addr.Parse Addr.ParseProofs Addr.RoundTrip Addr.RoundTripFinal.
From Coq Require Import Lia.

(* ---------- strings that escaping leaves alone ---------- *)
Definition plainb (m : emode) (s : str) : bool := forallb (fun c => negb (should_escape c m)) s.

Lemma escape_plain m s : plainb m s = true -> escape m s = s.
Proof.
  induction s as [|c r IH]; [reflexivity|]. cbn [plainb forallb]. intros H. apply andb_true_iff in H as [Hc Hr].
  apply negb_true_iff in Hc. cbn [escape]. rewrite Hc. f_equal. exact (IH Hr).
Qed.

Definition path_char_props (c : ascii) : bool :=
  negb (Ascii.eqb c c_pct) && negb (Ascii.eqb c c_qmark) && negb (Ascii.eqb c c_hash) && negb (is_ctl c)
  && negb (Ascii.eqb c c_nl).
Definition host_char_props (c : ascii) : bool :=
  negb (Ascii.eqb c c_pct) && negb (Ascii.eqb c c_qmark) && negb (Ascii.eqb c c_hash) && negb (is_ctl c)
  && negb (Ascii.eqb c slash) && negb (Ascii.eqb c c_at) && is_ascii_char c
  && negb (Ascii.eqb c c_nl).

Lemma path_char_facts c : should_escape c EPath = false -> path_char_props c = true.
Proof.
  intros H. assert (Hn : negb (should_escape c EPath) = true) by now rewrite H.
  clear H. revert c Hn. apply (sweep_imp (fun c => negb (should_escape c EPath))). vm_compute. reflexivity.
Qed.

Lemma host_char_facts c : should_escape c EHost = false -> host_char_props c = true.
Proof.
  intros H. assert (Hn : negb (should_escape c EHost) = true) by now rewrite H.
  clear H. revert c Hn. apply (sweep_imp (fun c => negb (should_escape c EHost))). vm_compute. reflexivity.
Qed.

Lemma unescape_plain_path s : plainb EPath s = true -> unescape EPath s = Some s.
Proof.
  induction s as [|c r IH]; [reflexivity|]. cbn [plainb forallb]. intros H. apply andb_true_iff in H as [Hc Hr].
  apply negb_true_iff in Hc. pose proof (path_char_facts c Hc) as F. unfold path_char_props in F.
  rewrite !andb_true_iff, !negb_true_iff in F. destruct F as ((((F1 & _) & _) & _) & _).
  cbn [unescape]. rewrite F1.
  destruct (Ascii.eqb_spec c c_plus) as [->|_]; cbn match; now rewrite (IH Hr).
Qed.

Lemma unescape_plain_host s : plainb EHost s = true -> unescape EHost s = Some s.
Proof.
  induction s as [|c r IH]; [reflexivity|]. cbn [plainb forallb]. intros H. apply andb_true_iff in H as [Hc Hr].
  apply negb_true_iff in Hc. pose proof (host_char_facts c Hc) as F. unfold host_char_props in F.
  rewrite !andb_true_iff, !negb_true_iff in F. destruct F as (((((((F1 & _) & _) & _) & _) & _) & _) & _).
  cbn [unescape]. rewrite F1.
  destruct (Ascii.eqb_spec c c_plus) as [->|_].
  - now rewrite (IH Hr).
  - rewrite Hc. replace (true &&& is_ascii_char c &&& false) with false by (destruct (is_ascii_char c); reflexivity).
    now rewrite (IH Hr).
Qed.

Lemma plain_not_in m s c : plainb m s = true -> should_escape c m = true -> ~ In c s.
Proof.
  intros H Hc Hin. unfold plainb in H. rewrite forallb_forall in H. specialize (H c Hin). now rewrite Hc in H.
Qed.

Lemma plain_no_ctl_path s : plainb EPath s = true -> existsb is_ctl s = false.
Proof.
  induction s as [|c r IH]; [reflexivity|]. cbn [plainb forallb existsb]. intros H. apply andb_true_iff in H as [Hc Hr].
  apply negb_true_iff in Hc. pose proof (path_char_facts c Hc) as F. unfold path_char_props in F.
  rewrite !andb_true_iff, !negb_true_iff in F. destruct F as ((((_ & _) & _) & F4) & _). now rewrite F4, (IH Hr).
Qed.

Lemma plain_no_ctl_host s : plainb EHost s = true -> existsb is_ctl s = false.
Proof.
  induction s as [|c r IH]; [reflexivity|]. cbn [plainb forallb existsb]. intros H. apply andb_true_iff in H as [Hc Hr].
  apply negb_true_iff in Hc. pose proof (host_char_facts c Hc) as F. unfold host_char_props in F.
  rewrite !andb_true_iff, !negb_true_iff in F. destruct F as (((((((_ & _) & _) & F4) & _) & _) & _) & _).
  now rewrite F4, (IH Hr).
Qed.

(* ---------- schemes ---------- *)
Definition scheme_char (c : ascii) : bool := is_alpha c ||| is_digit c ||| one_of "+-." c.
Definition scheme_ok (s : str) : bool :=
  match s with c :: r => is_alpha c &&& forallb scheme_char r | [] => false end.

Lemma gs_go_run s : forall pre rest,
  forallb scheme_char s = true -> pre <> [] ->
  gs_go false pre (s ++ c_colon :: rest) = GsAt (rev pre ++ s) rest.
Proof.
  induction s as [|c r IH]; intros pre rest Hs Hne.
  - cbn. now rewrite app_nil_r.
  - cbn [forallb] in Hs. apply andb_true_iff in Hs as [Hc Hr]. cbn [app gs_go].
    unfold scheme_char in Hc. destruct (is_alpha c) eqn:Ea.
    + rewrite (IH (c :: pre) rest Hr ltac:(discriminate)). cbn [rev]. now rewrite <- app_assoc.
    + change ((is_digit c ||| one_of "+-." c) = true) in Hc. rewrite Hc.
      rewrite (IH (c :: pre) rest Hr ltac:(discriminate)). cbn [rev]. now rewrite <- app_assoc.
Qed.

Lemma gs_go_scheme s rest : scheme_ok s = true -> gs_go true [] (s ++ c_colon :: rest) = GsAt s rest.
Proof.
  unfold scheme_ok. destruct s as [|c r]; [discriminate|]. rewrite andl_spec. intros H.
  apply andb_true_iff in H as [Hc Hr]. cbn [app gs_go]. rewrite Hc.
  now rewrite (gs_go_run r [c] rest Hr ltac:(discriminate)).
Qed.

Definition scheme_char_props (c : ascii) : bool :=
  negb (Ascii.eqb c c_colon) && negb (Ascii.eqb c slash) && negb (Ascii.eqb c c_qmark) && negb (Ascii.eqb c c_hash)
  && negb (is_ctl c) && negb (Ascii.eqb c c_nl) && scheme_char (lower_char c).

Lemma scheme_char_facts c : scheme_char c = true -> scheme_char_props c = true.
Proof. revert c. apply sweep_imp. vm_compute. reflexivity. Qed.

Lemma scheme_chars_not_in s c :
  forallb scheme_char s = true -> (c = c_colon \/ c = slash \/ c = c_qmark \/ c = c_hash) -> ~ In c s.
Proof.
  intros H Hc Hin. rewrite forallb_forall in H. pose proof (scheme_char_facts c (H c Hin)) as F.
  unfold scheme_char_props in F. rewrite !andb_true_iff, !negb_true_iff in F.
  destruct F as ((((((F1 & F2) & F3) & F4) & _) & _) & _).
  destruct Hc as [-> | [-> | [-> | ->]]]; rewrite Ascii.eqb_refl in *; discriminate.
Qed.

Lemma scheme_ok_chars s : scheme_ok s = true -> s <> [] /\ forallb scheme_char s = true.
Proof.
  unfold scheme_ok. destruct s as [|c r]; [discriminate|]. rewrite andl_spec. intros H.
  apply andb_true_iff in H as [Hc Hr]. split; [discriminate|]. cbn [forallb]. unfold scheme_char at 1. now rewrite Hc, Hr.
Qed.

Lemma scheme_no_ctl s : forallb scheme_char s = true -> existsb is_ctl s = false.
Proof.
  induction s as [|c r IH]; [reflexivity|]. cbn [forallb existsb]. intros H. apply andb_true_iff in H as [Hc Hr].
  pose proof (scheme_char_facts c Hc) as F. unfold scheme_char_props in F.
  rewrite !andb_true_iff, !negb_true_iff in F. destruct F as ((((((_ & _) & _) & _) & F5) & _) & _).
  now rewrite F5, (IH Hr).
Qed.

(* ---------- url.Parse on scheme "://" host path ["?" query] ---------- *)
Definition host_port_ok (h : str) : bool :=
  match cut_last c_colon h with Some (_, p) => forallb is_digit p | None => true end.
Definition not_bracket (h : str) : bool := match h with c :: _ => negb (Ascii.eqb c c_lbr) | [] => false end.
Definition query_part (q : str) : str := match q with [] => [] | _ => c_qmark :: q end.
Definition path_shape (p : str) : bool := is_empty p ||| is_rooted p.

Lemma has_suffix_app1 a b c : b <> [] -> has_suffix (a ++ b) [c] = has_suffix b [c].
Proof.
  intros Hb. unfold has_suffix. rewrite rev_app_distr. cbn [rev app].
  destruct (rev b) as [|x r] eqn:E.
  - apply (f_equal (@rev ascii)) in E. rewrite rev_involutive in E. cbn in E. congruence.
  - reflexivity.
Qed.

Lemma cut_last_none c s : ~ In c s -> cut_last c s = None.
Proof.
  intros H. unfold cut_last. rewrite cut_char_none; [reflexivity|].
  intros Hin. apply H. now apply in_rev.
Qed.

Lemma existsb_app_false {A} (f : A -> bool) a b : existsb f a = false -> existsb f b = false -> existsb f (a ++ b) = false.
Proof. intros Ha Hb. now rewrite existsb_app, Ha, Hb. Qed.

Lemma host_not_in h c : plainb EHost h = true -> (c = slash \/ c = c_qmark \/ c = c_hash \/ c = c_at) -> ~ In c h.
Proof.
  intros H Hc. apply (plain_not_in EHost); [exact H|]. destruct Hc as [-> | [-> | [-> | ->]]]; reflexivity.
Qed.

Lemma path_not_in p c : plainb EPath p = true -> (c = c_qmark \/ c = c_hash) -> ~ In c p.
Proof.
  intros H Hc. apply (plain_not_in EPath); [exact H|]. destruct Hc as [-> | ->]; reflexivity.
Qed.

Theorem url_parse_structured scheme host path query :
  scheme_ok scheme = true ->
  plainb EHost host = true -> not_bracket host = true -> host_port_ok host = true ->
  plainb EPath path = true -> path_shape path = true ->
  ~ In c_hash query -> existsb is_ctl query = false -> has_suffix query [c_qmark] = false ->
  url_parse (scheme ++ c_colon :: slash :: slash :: host ++ path ++ query_part query)
  = Ok (mkUrl (to_lower scheme) [] false host path [] false false query [] []).
Proof.
  intros Hs Hh Hb Hp Hpa Hps Hq1 Hq2 Hq3.
  destruct (scheme_ok_chars _ Hs) as [Hsne Hsc].
  pose proof (fun c H => scheme_chars_not_in scheme c Hsc H) as NS.
  pose proof (fun c H => host_not_in host c Hh H) as NH.
  pose proof (fun c H => path_not_in path c Hpa H) as NP.
  assert (Hhne : host <> []) by (destruct host; [discriminate|discriminate]).
  set (A := slash :: slash :: host ++ path).
  set (whole := scheme ++ c_colon :: A ++ query_part query).
  assert (Hwhole : scheme ++ c_colon :: slash :: slash :: host ++ path ++ query_part query = whole).
  { unfold whole, A. cbn [app]. now rewrite <- app_assoc. }
  rewrite Hwhole.
  assert (NA : forall c, (c = c_qmark \/ c = c_hash) -> ~ In c A).
  { intros c Hc H. unfold A in H. destruct H as [H|[H|H]]; [destruct Hc; subst; discriminate|destruct Hc; subst; discriminate|].
    apply in_app_or in H as [H|H]; [apply (NH c); [destruct Hc; auto|exact H]|apply (NP c); assumption]. }
  (* no fragment *)
  assert (Hnohash : ~ In c_hash whole).
  { unfold whole. intros H. apply in_app_or in H as [H|[H|H]]; [apply (NS c_hash); auto|discriminate|].
    apply in_app_or in H as [H|H]; [apply (NA c_hash); auto|].
    unfold query_part in H. destruct query; [destruct H|]. destruct H as [H|H]; [discriminate|contradiction]. }
  unfold url_parse. rewrite (cut_char_none _ _ Hnohash). cbn [rbind].
  (* no control character, not "*" *)
  unfold url_parse_nofrag.
  assert (Hctl : existsb is_ctl whole = false).
  { unfold whole. apply existsb_app_false; [now apply scheme_no_ctl|]. cbn [existsb].
    replace (is_ctl c_colon) with false by reflexivity. cbn [orb].
    apply existsb_app_false.
    - unfold A. cbn [existsb]. replace (is_ctl slash) with false by reflexivity. cbn [orb].
      apply existsb_app_false; [now apply plain_no_ctl_host|now apply plain_no_ctl_path].
    - unfold query_part. destruct query; [reflexivity|]. cbn [existsb].
      replace (is_ctl c_qmark) with false by reflexivity. exact Hq2. }
  rewrite Hctl.
  assert (Hstar : str_eqb whole (s2l "*") = false).
  { apply str_eqb_neq. intros H. apply (f_equal (@length ascii)) in H. unfold whole, A in H.
    rewrite app_length in H. cbn in H. lia. }
  rewrite Hstar.
  unfold whole. rewrite (gs_go_scheme scheme _ Hs).
  (* the query *)
  assert (Hfq : (has_suffix (A ++ query_part query) [c_qmark] &&& Nat.eqb (count_char c_qmark (A ++ query_part query)) 1) = false).
  { unfold query_part. destruct query as [|q0 qr].
    - rewrite app_nil_r. destruct (has_suffix A [c_qmark]) eqn:E; [|reflexivity].
      apply has_suffix_spec in E as [r Hr]. exfalso. apply (NA c_qmark); [auto|]. rewrite Hr. apply in_or_app. right. now left.
    - rewrite (has_suffix_app1 A (c_qmark :: q0 :: qr) c_qmark ltac:(discriminate)).
      change (c_qmark :: q0 :: qr) with ([c_qmark] ++ q0 :: qr).
      rewrite (has_suffix_app1 [c_qmark] (q0 :: qr) c_qmark ltac:(discriminate)). now rewrite Hq3. }
  rewrite Hfq.
  assert (Hcut : cut1 c_qmark (A ++ query_part query) = (A, query)).
  { unfold cut1, query_part. destruct query as [|q0 qr].
    - rewrite app_nil_r, (cut_char_none _ _ (NA c_qmark (or_introl eq_refl))). reflexivity.
    - rewrite (cut_char_app _ _ _ (NA c_qmark (or_introl eq_refl))). reflexivity. }
  rewrite Hcut.
  assert (Hsce : is_empty (to_lower scheme) = false) by (destruct scheme; [congruence|reflexivity]).
  replace (has_prefix A [slash]) with true by reflexivity.
  replace (has_prefix A [slash; slash]) with true by reflexivity.
  rewrite Hsce. cbn [negb]. cbn match.
  (* the authority *)
  replace (skipn 2 A) with (host ++ path) by reflexivity.
  assert (Hauth : (match index_byte slash (host ++ path) with
                   | Some i => (firstn i (host ++ path), skipn i (host ++ path))
                   | None => (host ++ path, [])
                   end) = (host, path)).
  { unfold path_shape in Hps. destruct path as [|p0 pr].
    - rewrite app_nil_r, (index_byte_none _ _ (NH slash (or_introl eq_refl))). reflexivity.
    - cbn in Hps. apply Ascii.eqb_eq in Hps. subst p0.
      rewrite (index_byte_app _ _ _ (NH slash (or_introl eq_refl))), firstn_app_exact, skipn_app_exact. reflexivity. }
  rewrite Hauth.
  unfold parse_authority. rewrite (cut_last_none _ _ (NH c_at ltac:(auto))).
  unfold parse_host. destruct host as [|h0 hr]; [congruence|].
  cbn in Hb. apply negb_true_iff in Hb. rewrite Hb.
  unfold host_port_ok in Hp. rewrite Hp. rewrite (unescape_plain_host _ Hh). cbn [of_opt rbind].
  unfold set_path. rewrite (unescape_plain_path _ Hpa), (escape_plain _ _ Hpa), str_eqb_refl. reflexivity.
Qed.

(* ---------- splitSubPath on pre "://" rest ["//" sub] ["?" query] ---------- *)
Definition sub_part (sub : str) : str := match sub with [] => [] | _ => slash :: slash :: sub end.

Lemma firstn_app_len {A} (a b : list A) n : n = length a -> firstn n (a ++ b) = a.
Proof. intros ->. apply firstn_app_exact. Qed.
Lemma skipn_app_len {A} (a b : list A) n : n = length a -> skipn n (a ++ b) = b.
Proof. intros ->. apply skipn_app_exact. Qed.

Lemma split_sub_remote pre h sub query :
  csf pre = true -> ~ In c_qmark pre -> nds h = true -> ~ In c_qmark h ->
  index_of dslash sub = None -> ~ In c_qmark sub ->
  split_sub_path (pre ++ css ++ h ++ sub_part sub ++ query_part query)
  = (pre ++ css ++ h ++ query_part query, sub).
Proof.
  intros Hc Hq1 Hn Hq2 Hs Hq3.
  set (head := pre ++ css ++ h ++ sub_part sub).
  assert (Hw : pre ++ css ++ h ++ sub_part sub ++ query_part query = head ++ query_part query).
  { unfold head. now rewrite <- !app_assoc. }
  rewrite Hw.
  assert (Hqh : ~ In c_qmark head).
  { unfold head. intros H. apply in_app_or in H as [H|H]; [contradiction|].
    apply in_app_or in H as [H|H]; [cbn in H; destruct H as [H|[H|[H|[]]]]; discriminate|].
    apply in_app_or in H as [H|H]; [contradiction|].
    unfold sub_part in H. destruct sub; [destruct H|]. destruct H as [H|[H|H]]; try discriminate. contradiction. }
  assert (Hcss : index_of css head = Some (length pre)).
  { unfold head, css. cbn [app]. apply css_first. exact Hc. }
  assert (Hskip : skipn (length pre + 3) head = h ++ sub_part sub).
  { unfold head. rewrite app_assoc. apply skipn_app_len. rewrite app_length. reflexivity. }
  unfold split_sub_path.
  (* where the query starts *)
  assert (Hstop : firstn (match index_byte c_qmark (head ++ query_part query) with
                          | Some i => i | None => length (head ++ query_part query) end)
                         (head ++ query_part query) = head).
  { unfold query_part. destruct query as [|q0 qr].
    - rewrite app_nil_r, (index_byte_none _ _ Hqh). apply firstn_all.
    - rewrite (index_byte_app _ _ _ Hqh). apply firstn_app_exact. }
  rewrite Hstop. change [c_colon; slash; slash] with css. rewrite Hcss, Hskip.
  change [slash; slash] with dslash.
  destruct sub as [|s0 sr].
  - cbn [sub_part]. rewrite app_nil_r, (dslash_none _ Hn). unfold head. cbn [sub_part]. rewrite app_nil_r.
    now rewrite <- !app_assoc.
  - cbn [sub_part]. rewrite (dslash_first h (s0 :: sr) Hn).
    set (idx := length h + (length pre + 3)).
    assert (Hl3 : length css = 3) by reflexivity.
    assert (Hfirst : firstn idx (head ++ query_part query) = pre ++ css ++ h).
    { replace (head ++ query_part query) with ((pre ++ css ++ h) ++ (slash :: slash :: s0 :: sr) ++ query_part query)
        by (unfold head; cbn [sub_part]; rewrite <- !app_assoc; reflexivity).
      apply firstn_app_len. unfold idx. rewrite !app_length, Hl3. lia. }
    assert (Hrest : skipn (idx + 2) (head ++ query_part query) = (s0 :: sr) ++ query_part query).
    { replace (head ++ query_part query) with ((pre ++ css ++ h ++ [slash; slash]) ++ (s0 :: sr) ++ query_part query)
        by (unfold head; cbn [sub_part]; rewrite <- !app_assoc; reflexivity).
      apply skipn_app_len. unfold idx. rewrite !app_length, Hl3. cbn [length]. lia. }
    rewrite Hfirst, Hrest. unfold query_part. destruct query as [|q0 qr].
    + rewrite app_nil_r, (index_byte_none _ _ Hq3). now rewrite app_nil_r.
    + rewrite (index_byte_app _ _ _ Hq3), firstn_app_exact, skipn_app_exact. now rewrite <- !app_assoc.
Qed.

(* ---------- ParseRemoteSource on a structured text ---------- *)
Definition type_okb (t : str) : bool := forallb is_alnum t.
Definition type_prefix (t : str) : str := match t with [] => [] | _ => t ++ [c_colon; c_colon] end.
Definition remote_text (typ scheme host path sub query : str) : str :=
  type_prefix typ ++ scheme ++ css ++ host ++ path ++ sub_part sub ++ query_part query.

Definition alnum_props (c : ascii) : bool :=
  negb (Ascii.eqb c c_colon) && negb (Ascii.eqb c slash) && negb (Ascii.eqb c c_qmark) && negb (Ascii.eqb c c_nl)
  && scheme_char c.
Lemma alnum_facts c : is_alnum c = true -> alnum_props c = true.
Proof. revert c. apply sweep_imp. vm_compute. reflexivity. Qed.

Lemma alnum_not_in t c : forallb is_alnum t = true -> (c = c_colon \/ c = slash \/ c = c_qmark \/ c = c_nl) -> ~ In c t.
Proof.
  intros H Hc Hin. rewrite forallb_forall in H. pose proof (alnum_facts c (H c Hin)) as F.
  unfold alnum_props in F. rewrite !andb_true_iff, !negb_true_iff in F. destruct F as ((((F1 & F2) & F3) & F4) & _).
  destruct Hc as [-> | [-> | [-> | ->]]]; rewrite Ascii.eqb_refl in *; discriminate.
Qed.

Lemma no_shorthand_prefix x rest hs :
  ~ In slash x -> ~ In slash hs -> ~ In c_colon hs ->
  has_prefix (x ++ c_colon :: slash :: rest) (hs ++ [slash]) = false.
Proof.
  intros Hx Hh Hc. destruct (has_prefix (x ++ c_colon :: slash :: rest) (hs ++ [slash])) eqn:E; [|reflexivity].
  apply has_prefix_spec in E as [r Hr]. exfalso.
  assert (H1 : cut1 slash (x ++ c_colon :: slash :: rest) = (x ++ [c_colon], rest)).
  { unfold cut1. replace (x ++ c_colon :: slash :: rest) with ((x ++ [c_colon]) ++ slash :: rest) by (now rewrite <- app_assoc).
    rewrite cut_char_app; [reflexivity|]. intros H. apply in_app_or in H as [H|[H|[]]]; [contradiction|discriminate]. }
  assert (H2 : cut1 slash ((hs ++ [slash]) ++ r) = (hs, r)).
  { unfold cut1. rewrite <- app_assoc. cbn [app]. now rewrite (cut_char_app _ _ _ Hh). }
  rewrite Hr, H2 in H1. injection H1 as H1 _. apply Hc. rewrite H1. apply in_or_app. right. now left.
Qed.

Lemma csf_type_scheme typ scheme :
  forallb is_alnum typ = true -> scheme_ok scheme = true -> csf (typ ++ c_colon :: c_colon :: scheme) = true.
Proof.
  intros Ht Hs. destruct (scheme_ok_chars _ Hs) as [Hne Hsc].
  assert (Hcs : csf scheme = true) by (apply csf_nocolon, (scheme_chars_not_in scheme c_colon Hsc); auto).
  assert (Hbase : csf (c_colon :: c_colon :: scheme) = true).
  { destruct scheme as [|s0 sr]; [congruence|].
    change (csf (c_colon :: c_colon :: s0 :: sr)) with
      (negb (Ascii.eqb c_colon c_colon && Ascii.eqb c_colon slash) && (negb (Ascii.eqb c_colon c_colon && Ascii.eqb s0 slash) && csf (s0 :: sr))).
    rewrite Hcs. replace (Ascii.eqb c_colon slash) with false by reflexivity.
    assert (Hs0 : Ascii.eqb s0 slash = false).
    { destruct (Ascii.eqb_spec s0 slash) as [->|]; [|reflexivity].
      exfalso. apply (scheme_chars_not_in (slash :: sr) slash Hsc); [auto|now left]. }
    rewrite Hs0. reflexivity. }
  induction typ as [|c r IH]; [exact Hbase|].
  cbn [forallb] in Ht. apply andb_true_iff in Ht as [Hc Hr].
  assert (Hcc : Ascii.eqb c c_colon = false).
  { destruct (Ascii.eqb_spec c c_colon) as [->|]; [discriminate|reflexivity]. }
  cbn [app]. destruct r as [|d r'].
  - cbn [app]. change (csf (c :: c_colon :: c_colon :: scheme)) with
      (negb (Ascii.eqb c colon_c && Ascii.eqb c_colon slash) && csf (c_colon :: c_colon :: scheme)).
    change colon_c with c_colon. rewrite Hcc, Hbase. reflexivity.
  - change (csf (c :: (d :: r') ++ c_colon :: c_colon :: scheme)) with
      (negb (Ascii.eqb c colon_c && Ascii.eqb d slash) && csf ((d :: r') ++ c_colon :: c_colon :: scheme)).
    change colon_c with c_colon. rewrite Hcc, (IH Hr). reflexivity.
Qed.

Lemma span_alnum_scheme scheme rest :
  forallb scheme_char scheme = true ->
  type_split (scheme ++ c_colon :: slash :: rest) = None.
Proof.
  intros Hs. unfold type_split.
  assert (H : exists a r, span is_alnum (scheme ++ c_colon :: slash :: rest) = (a, r) /\
                          match r with c1 :: c2 :: _ => Ascii.eqb c1 c_colon && Ascii.eqb c2 c_colon = false | _ => True end).
  { induction scheme as [|c s IH].
    - exists [], (c_colon :: slash :: rest). split; reflexivity.
    - cbn [forallb] in Hs. apply andb_true_iff in Hs as [Hc Hr]. cbn [app span].
      destruct (is_alnum c) eqn:Ea.
      + destruct (IH Hr) as (a & r & Hsp & Hm). rewrite Hsp. exists (c :: a), r. split; [reflexivity|exact Hm].
      + exists [], (c :: s ++ c_colon :: slash :: rest). split; [reflexivity|].
        assert (Hcc : Ascii.eqb c c_colon = false).
        { pose proof (scheme_char_facts c Hc) as F. unfold scheme_char_props in F.
          rewrite !andb_true_iff, !negb_true_iff in F. tauto. }
        destruct (s ++ c_colon :: slash :: rest); [exact I|now rewrite Hcc]. }
  destruct H as (a & r & Hsp & Hm). rewrite Hsp.
  destruct a as [|a0 ar]; [reflexivity|]. destruct r as [|c1 [|c2 [|c3 r3]]]; try reflexivity.
  rewrite andl_spec. rewrite andl_spec. rewrite Hm. reflexivity.
Qed.

Lemma type_split_typed typ rest :
  typ <> [] -> forallb is_alnum typ = true -> rest <> [] -> ~ In c_nl rest ->
  type_split (typ ++ c_colon :: c_colon :: rest) = Some (typ, rest).
Proof.
  intros Hne Ht Hr Hnl. unfold type_split.
  rewrite (span_app_stop is_alnum typ (c_colon :: c_colon :: rest) Ht eq_refl).
  destruct typ as [|t0 tr]; [congruence|]. destruct rest as [|r0 rr]; [congruence|].
  rewrite !Ascii.eqb_refl. cbn match.
  destruct (mem_char c_nl (r0 :: rr)) eqn:E; [apply mem_char_In in E; contradiction|reflexivity].
Qed.

Record parts_ok (typ scheme host path sub query : str) : Prop := {
  po_typ : type_okb typ = true;
  po_scheme : scheme_ok scheme = true;
  po_host : plainb EHost host = true;
  po_hbr : not_bracket host = true;
  po_hport : host_port_ok host = true;
  po_path : plainb EPath path = true;
  po_pshape : path_shape path = true;
  po_hp : nds (host ++ path) = true;
  po_sub : valid_sub sub;
  po_subp : plainb EPath sub = true;
  po_suba : all_ascii sub = true;
  po_qh : ~ In c_hash query;
  po_qc : existsb is_ctl query = false;
  po_qe : has_suffix query [c_qmark] = false }.

Definition parsed_url (scheme host path query : str) : url :=
  mkUrl (to_lower scheme) [] false host path [] false false query [] [].

Lemma no_ctl_no_nl s : existsb is_ctl s = false -> ~ In c_nl s.
Proof.
  intros H Hin. assert (existsb is_ctl s = true); [|congruence].
  apply existsb_exists. exists c_nl. split; [exact Hin|reflexivity].
Qed.

Theorem parse_remote_structured typ scheme host path sub query :
  parts_ok typ scheme host path sub query ->
  parse_remote (remote_text typ scheme host path sub query) =
    (if negb (is_empty typ) &&& str_eqb (to_lower typ) (to_lower scheme) then Rej
     else if snd (parse_query query) then Rej
     else make_remote (if is_empty typ then to_lower scheme else to_lower typ)
                      (parsed_url scheme host path query) sub).
Proof.
  intros [Ht Hs Hh Hbr Hport Hp Hps Hhp Hv Hsp Hsa Hqh Hqc Hqe].
  destruct (scheme_ok_chars _ Hs) as [Hsne Hsc].
  pose proof (fun c H => scheme_chars_not_in scheme c Hsc H) as NS.
  pose proof (fun c H => alnum_not_in typ c Ht H) as NT.
  pose proof (fun c H => host_not_in host c Hh H) as NH.
  pose proof (fun c H => path_not_in path c Hp H) as NP.
  set (pre := type_prefix typ ++ scheme).
  set (h := host ++ path).
  assert (Htext : remote_text typ scheme host path sub query = pre ++ css ++ h ++ sub_part sub ++ query_part query).
  { unfold remote_text, pre, h. now rewrite <- !app_assoc. }
  assert (NTP : forall c, (c = slash \/ c = c_qmark) -> ~ In c (type_prefix typ)).
  { intros c Hc H. unfold type_prefix in H. destruct typ as [|t0 tr]; [destruct H|].
    apply in_app_or in H as [H|[H|[H|[]]]]; [apply (NT c); [destruct Hc; auto|exact H]|destruct Hc; subst; discriminate|destruct Hc; subst; discriminate]. }
  assert (Npre : forall c, (c = slash \/ c = c_qmark) -> ~ In c pre).
  { intros c Hc H. unfold pre in H. apply in_app_or in H as [H|H]; [exact (NTP c Hc H)|apply (NS c); [destruct Hc; auto|exact H]]. }
  assert (Hcsf : csf pre = true).
  { unfold pre, type_prefix. destruct typ as [|t0 tr]; [apply csf_nocolon, NS; auto|].
    rewrite <- app_assoc. cbn [app]. apply (csf_type_scheme (t0 :: tr) scheme); assumption. }
  assert (Nh : ~ In c_qmark h).
  { unfold h. intros H. apply in_app_or in H as [H|H]; [apply (NH c_qmark); auto|apply (NP c_qmark); auto]. }
  assert (Nsub : ~ In c_qmark sub) by (apply (plain_not_in EPath); [exact Hsp|reflexivity]).
  assert (Hds : index_of dslash sub = None).
  { destruct sub as [|s0 sr]; [reflexivity|]. apply dslash_none, valid_sub_nds; [exact Hv|discriminate]. }
  unfold parse_remote.
  (* 1. no shorthand applies *)
  assert (Hexp : expand_shorthand (remote_text typ scheme host path sub query) = Ok (remote_text typ scheme host path sub query)).
  { unfold expand_shorthand, shorthand_for. rewrite Htext. unfold css. cbn [app].
    rewrite !no_shorthand_prefix; try (apply Npre; auto); try reflexivity;
      intros H; vm_compute in H; repeat (destruct H as [H|H]; [discriminate|]); exact H. }
  rewrite Hexp. cbn [rbind].
  (* 2. the sub-path split *)
  rewrite Htext, (split_sub_remote pre h sub query Hcsf (Npre c_qmark ltac:(auto)) Hhp Nh Hds Nsub).
  (* 3. the sub-path *)
  unfold norm_sub. rewrite Hsa, (valid_sub_normalizes _ Hv). cbn [of_opt rbind].
  (* 4. the type prefix *)
  set (urltext := scheme ++ c_colon :: slash :: slash :: host ++ path ++ query_part query).
  assert (Hpk : pre ++ css ++ h ++ query_part query = type_prefix typ ++ urltext).
  { unfold pre, h, urltext, css. rewrite <- !app_assoc. reflexivity. }
  rewrite Hpk.
  assert (Hurl : url_parse urltext = Ok (parsed_url scheme host path query)).
  { unfold urltext. now apply url_parse_structured. }
  assert (Hnl : ~ In c_nl urltext).
  { unfold urltext. intros H. apply in_app_or in H as [H|H].
    - pose proof (scheme_no_ctl _ Hsc) as Hc. exact (no_ctl_no_nl _ Hc H).
    - destruct H as [H|[H|[H|H]]]; try discriminate.
      apply in_app_or in H as [H|H]; [exact (no_ctl_no_nl _ (plain_no_ctl_host _ Hh) H)|].
      apply in_app_or in H as [H|H]; [exact (no_ctl_no_nl _ (plain_no_ctl_path _ Hp) H)|].
      unfold query_part in H. destruct query; [destruct H|]. destruct H as [H|H]; [discriminate|].
      exact (no_ctl_no_nl _ Hqc H). }
  destruct typ as [|t0 tr].
  - (* implied type *)
    cbn [type_prefix app is_empty negb].
    assert (Hts : type_split urltext = None) by (unfold urltext; now apply span_alnum_scheme).
    rewrite Hts, Hurl. cbn [rbind parsed_url u_scheme u_user u_query to_lower map].
    assert (He : is_empty (to_lower scheme) = false) by (destruct scheme; [congruence|reflexivity]).
    rewrite He. cbn match. reflexivity.
  - (* explicit type *)
    cbn [type_prefix]. rewrite <- app_assoc.
    change ([c_colon; c_colon] ++ urltext) with (c_colon :: c_colon :: urltext).
    assert (Hune : urltext <> []) by (unfold urltext; destruct scheme; [congruence|discriminate]).
    rewrite (type_split_typed (t0 :: tr) urltext ltac:(discriminate) Ht Hune Hnl), Hurl.
    cbn [rbind parsed_url u_scheme u_user u_query].
    assert (He : is_empty (to_lower scheme) = false) by (destruct scheme; [congruence|reflexivity]).
    rewrite He. cbn match.
    assert (Hte : is_empty (to_lower (t0 :: tr)) = false) by reflexivity.
    rewrite Hte. cbn [negb is_empty]. cbn match.
    destruct (str_eqb (to_lower (t0 :: tr)) (to_lower scheme)); reflexivity.
Qed.
