(* C06, "the same kind": the general parsers ParseSource and ParseFinalSource
   send a printed address back to the parser of its own kind.  Classification
   is syntax-directed (source.go:30-63, source_final.go:29-60): local form
   first, then "looks like a registry address" (the registry parser accepts
   it), then remote.  What has to be shown is that a printed registry address
   never has local form, and that a printed remote address has neither local
   form nor is accepted by the registry-address parser. *)
From Slug Require Import Base.Str Base.PathAlg Base.PathLemmas Base.Search Addr.Resolve Addr.ResolveProofs
  Addr.Url Addr.Parse Addr.ParseProofs Addr.RoundTrip Addr.RoundTripFinal Addr.RemoteParse Addr.RemoteTheorems.
From Coq Require Import Lia.

(* ---------- local addresses ---------- *)
Lemma parse_local_form r x : parse_local r = Some x -> is_local_form r = true /\ r <> [].
Proof.
  unfold parse_local. destruct (mem_char colon r || mem_char backslash r); [discriminate|].
  unfold is_local_form. rewrite !orl_spec.
  destruct (looks_like_local r) eqn:E1; [intros _; split; [reflexivity|intros ->; discriminate]|].
  destruct (str_eqb r [dot]) eqn:E2; [intros _; split; [reflexivity|intros ->; discriminate]|].
  destruct (str_eqb r [dot; dot]) eqn:E3; [intros _; split; [reflexivity|intros ->; discriminate]|].
  discriminate.
Qed.

Theorem classify_local r :
  parse_local r = Some r -> outer_ascii r = true -> has_outer_space r = false ->
  parse_source r = Ok (ALocal r) /\ parse_final_source r = Ok (ALocal r).
Proof.
  intros Hp Ha Hs. destruct (parse_local_form r r Hp) as [Hf Hne].
  unfold parse_source, parse_final_source. rewrite Ha, Hs, Hf, Hp.
  destruct r; [congruence|]. split; reflexivity.
Qed.

(* the one thing the general parsers add: no leading or trailing white space *)
Example classify_local_outer_space :
  parse_local (s2l "./a ") = Some (s2l "./a ") /\ parse_source (s2l "./a ") = Rej.
Proof. vm_compute. split; reflexivity. Qed.

(* ---------- registry addresses ---------- *)
Lemma valid_sub_no_dotdot sub : valid_sub sub -> has_prefix sub dotdotslash = false.
Proof.
  intros Hv. destruct (has_prefix sub dotdotslash) eqn:E; [|reflexivity]. exfalso.
  apply has_prefix_spec in E as [r ->].
  pose proof (valid_sub_segs _ Hv) as Hs. unfold sub_segs in Hs.
  change (dotdotslash ++ r) with ([dot; dot] ++ slash :: r) in Hs.
  cbn [app] in Hs.
  change (dot :: dot :: slash :: r) with ([dot; dot] ++ slash :: r) in Hs.
  rewrite split_on_app_sep in Hs by (intros [H|[H|[]]]; discriminate).
  cbn [forallb] in Hs. apply andb_true_iff in Hs as [Hs _]. discriminate.
Qed.

Lemma local_form_head a rest :
  ~ In slash a -> is_local_form (a ++ slash :: rest) = true -> a = [dot] \/ a = [dot; dot].
Proof.
  intros Hn. unfold is_local_form, looks_like_local. rewrite !orl_spec, !orb_true_iff.
  assert (Hgen : forall pre r, pre ++ r = a ++ slash :: rest -> (pre = dotslash \/ pre = dotdotslash) ->
                 a = [dot] \/ a = [dot; dot]).
  { intros pre r E [->| ->]; destruct a as [|c0 [|c1 [|c2 a]]]; cbn in E; try discriminate;
      injection E; intros; subst; try discriminate; try (now left); try (now right);
      exfalso; apply Hn; cbn; tauto. }
  intros [[[H|H]|H]|H].
  - apply has_prefix_spec in H as [r E]. apply (Hgen dotslash r); [now symmetry|now left].
  - apply has_prefix_spec in H as [r E]. apply (Hgen dotdotslash r); [now symmetry|now right].
  - apply str_eqb_eq in H. destruct a as [|c0 [|c1 a]]; cbn in H; try discriminate; destruct a; discriminate.
  - apply str_eqb_eq in H. destruct a as [|c0 [|c1 [|c2 a]]]; cbn in H; try discriminate; destruct a; discriminate.
Qed.

Lemma registry_text_head p sub :
  exists rest, registry_string p sub = m_host p ++ slash :: rest.
Proof.
  unfold registry_string, mpkg_string. destruct sub; eexists; rewrite <- ?app_assoc; cbn [app]; reflexivity.
Qed.

Lemma registry_not_local_form p sub : pkg_facts p -> is_local_form (registry_string p sub) = false.
Proof.
  intros F. destruct (registry_text_head p sub) as [rest ->].
  destruct (is_local_form (m_host p ++ slash :: rest)) eqn:E; [|reflexivity]. exfalso.
  pose proof (pf_host p F) as Hh.
  destruct (local_form_head _ _ (pf_hslash p F) E) as [H|H]; rewrite H in Hh; vm_compute in Hh; discriminate.
Qed.

Lemma parse_module_source_printed_sub p sub :
  pkg_facts p -> valid_sub sub -> ~ In c_qmark sub ->
  parse_module_source (registry_string p sub) = Ok (p, sub).
Proof.
  intros F Hv Hq. destruct sub as [|c s]; [exact (parse_module_source_printed p F)|].
  destruct (mpkg_string_props p F) as (Hpq & Hpc & Hpn & Hsp).
  unfold registry_string.
  change (mpkg_string p ++ [slash; slash] ++ c :: s) with (mpkg_string p ++ slash :: slash :: c :: s).
  unfold parse_module_source.
  rewrite (split_sub_printed _ _ Hpq Hq Hpc Hpn (dslash_none _ (valid_sub_nds _ Hv ltac:(discriminate)))).
  assert (Hcl : clean (c :: s) = c :: s).
  { destruct Hv as [Hv|[Hv _]]; [discriminate|]. apply clean_valid_path; [exact Hv|discriminate]. }
  cbn match. rewrite Hcl, (valid_sub_no_dotdot _ Hv), Hsp. cbn match.
  rewrite (pf_host p F). cbn [rbind]. rewrite (pf_dot p F). cbn [rbind].
  pose proof (pf_res p F) as Hr. unfold reserved_host in Hr. rewrite Hr.
  rewrite (pf_ns p F), (pf_name p F), (pf_sys p F). cbn. now destruct p.
Qed.

Theorem classify_registry p sub :
  wf_mpkgb p = true -> valid_sub sub -> ~ In c_qmark sub -> all_ascii sub = true ->
  outer_ascii (registry_string p sub) = true -> has_outer_space (registry_string p sub) = false ->
  parse_source (registry_string p sub) = Ok (ARegistry p sub).
Proof.
  intros Hw Hv Hq Ha Ho Hs. pose proof (wf_mpkgb_facts p Hw) as F.
  unfold parse_source. rewrite Ho, Hs, (registry_not_local_form p sub F). cbn [negb].
  destruct (registry_text_head p sub) as [rest Hrest].
  assert (Hne : is_empty (registry_string p sub) = false).
  { rewrite Hrest. pose proof (pf_hne p F). destruct (m_host p); [congruence|reflexivity]. }
  rewrite Hne. unfold looks_like_registry.
  rewrite (parse_module_source_printed_sub p sub F Hv Hq). cbn [rbind].
  now rewrite (registry_round_trip p sub Hw Hv Hq Ha).
Qed.

(* ---------- final registry addresses ---------- *)
Lemma parse_module_source_trailing p : pkg_facts p ->
  parse_module_source (mpkg_string p ++ [slash; slash]) = Ok (p, []).
Proof.
  intros F. destruct (mpkg_string_props p F) as (Hpq & Hpc & Hpn & Hsp).
  unfold parse_module_source.
  change (mpkg_string p ++ [slash; slash]) with (mpkg_string p ++ slash :: slash :: []).
  rewrite (split_sub_printed _ [] Hpq (fun H => H) Hpc Hpn eq_refl).
  cbn match. replace (has_prefix [] dotdotslash) with false by reflexivity.
  rewrite Hsp. cbn match. rewrite (pf_host p F). cbn [rbind]. rewrite (pf_dot p F). cbn [rbind].
  pose proof (pf_res p F) as Hr. unfold reserved_host in Hr. rewrite Hr.
  rewrite (pf_ns p F), (pf_name p F), (pf_sys p F). cbn. now destruct p.
Qed.

Theorem classify_final_registry p v sub :
  wf_mpkgb p = true -> ~ In c_nl (m_host p) -> wf_version v = true ->
  valid_sub sub -> ~ In c_qmark sub -> ~ In c_at sub -> ~ In c_nl sub -> all_ascii sub = true ->
  outer_ascii (final_registry_string p v sub) = true -> has_outer_space (final_registry_string p v sub) = false ->
  parse_final_source (final_registry_string p v sub) = Ok (ARegistryFinal p v sub).
Proof.
  intros Hw Hh Hv Hs Hq Ha Hn Hasc Ho Hsp. pose proof (wf_mpkgb_facts p Hw) as F.
  pose proof (final_registry_round_trip p v sub Hw Hh Hv Hs Hq Ha Hn Hasc) as Hrt.
  destruct (version_string_chars v Hv) as (V1 & V2 & V3 & V4).
  destruct (mpkg_string_chars p Hw Hh) as (P1 & P2).
  assert (Hhead : exists rest, final_registry_string p v sub = m_host p ++ slash :: rest).
  { unfold final_registry_string, mpkg_string. eexists. rewrite <- !app_assoc. cbn [app]. reflexivity. }
  unfold parse_final_source. rewrite Ho, Hsp. cbn [negb].
  assert (Hne : is_empty (final_registry_string p v sub) = false).
  { destruct Hhead as [rest ->]. pose proof (pf_hne p F). destruct (m_host p); [congruence|reflexivity]. }
  assert (Hlf : is_local_form (final_registry_string p v sub) = false).
  { destruct Hhead as [rest ->].
    destruct (is_local_form (m_host p ++ slash :: rest)) eqn:E; [|reflexivity]. exfalso.
    pose proof (pf_host p F) as Hhc.
    destruct (local_form_head _ _ (pf_hslash p F) E) as [H|H]; rewrite H in Hhc; vm_compute in Hhc; discriminate. }
  rewrite Hne, Hlf, Hrt. cbn [rbind].
  unfold looks_like_final_registry, final_parts, final_registry_string.
  replace (mpkg_string p ++ [c_at] ++ version_string v ++ match sub with [] => [] | _ :: _ => [slash; slash] ++ sub end)
    with (mpkg_string p ++ c_at :: version_string v ++ match sub with [] => [] | _ => slash :: slash :: sub end)
    by (destruct sub; reflexivity).
  rewrite (final_split_printed _ _ _ P1 P2 V1 V2 V3 Ha Hn). cbn [fst].
  unfold looks_like_registry. destruct sub as [|c s].
  - rewrite app_nil_r, (parse_module_source_trailing p F). reflexivity.
  - pose proof (parse_module_source_printed_sub p (c :: s) F Hs Hq) as Hm. unfold registry_string in Hm.
    rewrite Hm. reflexivity.
Qed.

(* ---------- remote addresses ---------- *)
Lemma forallb_firstn {A} (f : A -> bool) n l : forallb f l = true -> forallb f (firstn n l) = true.
Proof.
  revert l; induction n as [|n IH]; intros [|a l]; cbn; try reflexivity.
  intros H. apply andb_true_iff in H as [-> H]. now apply IH.
Qed.

Lemma existsb_weaken {A} (f g : A -> bool) l :
  (forall a, g a = true -> f a = true) -> existsb f l = false -> existsb g l = false.
Proof.
  intros Himp. induction l as [|a l IH]; cbn; [reflexivity|].
  intros H. apply orb_false_iff in H as [Ha Hl]. rewrite (IH Hl), orb_false_r.
  destruct (g a) eqn:E; [|reflexivity]. rewrite (Himp a E) in Ha. discriminate.
Qed.

(* the model never declines (Out) to judge a lower-case ASCII host *)
Lemma hfc_not_out h : all_ascii h = true -> to_lower h = h -> host_for_comparison h <> Out.
Proof.
  intros Ha Hl. unfold host_for_comparison.
  assert (Hgen : forall name port, all_ascii name = true -> to_lower name = name ->
    match norm_port port with
    | None => Rej
    | Some port' =>
        if is_empty name then Rej
        else if negb (all_ascii name) then Out
        else
          let ls := labels name in
          if existsb (fun l => is_empty l ||| has_prefix l ace) ls then Rej
          else if negb (forallb (fun c => is_alnum c ||| Ascii.eqb c hyphen ||| Ascii.eqb c dot) name) then Rej
          else
            let lower := to_lower name in
            if existsb (fun l => has_prefix l ace) (labels lower) then Out
            else if forallb label_ok (labels lower) then Ok (lower ++ port') else Rej
    end <> Out).
  { intros name port Hna Hnl. destruct (norm_port port); [|discriminate].
    destruct (is_empty name); [discriminate|]. rewrite Hna. cbn [negb]. cbv zeta.
    destruct (existsb (fun l => is_empty l ||| has_prefix l ace) (labels name)) eqn:E; [discriminate|].
    destruct (negb _); [discriminate|]. rewrite Hnl.
    assert (Hw : forall a : str, has_prefix a ace = true -> (is_empty a ||| has_prefix a ace) = true)
      by (intros a Ha'; rewrite Ha'; now destruct (is_empty a)).
    rewrite (existsb_weaken _ (fun l => has_prefix l ace) _ Hw E).
    destruct (forallb label_ok (labels name)); discriminate. }
  destruct (index_byte c_colon h) as [i|].
  - apply Hgen; [apply forallb_firstn, Ha|]. unfold to_lower in *. rewrite <- firstn_map. now rewrite Hl.
  - apply Hgen; assumption.
Qed.

Definition ascii_lower_props (c : ascii) : bool := is_ascii_char c.
Lemma scheme_char_ascii c : scheme_char c = true -> is_ascii_char c = true.
Proof. revert c. apply sweep_imp. vm_compute. reflexivity. Qed.
Lemma alnum_ascii c : is_alnum c = true -> is_ascii_char c = true.
Proof. revert c. apply sweep_imp. vm_compute. reflexivity. Qed.

Lemma forallb_imp {A} (f g : A -> bool) l : (forall a, f a = true -> g a = true) -> forallb f l = true -> forallb g l = true.
Proof. intros Hi. induction l as [|a l IH]; cbn; [reflexivity|]. intros H. apply andb_true_iff in H as [Ha Hl]. now rewrite (Hi a Ha), IH. Qed.

(* the registry-address parser refuses every structured remote text: the "//" after
   the scheme leaves an empty namespace (or name), and the part before it is not a
   host name with a dot unless the package name is refused anyway *)
Lemma module_source_rejects_structured typ scheme host path sub query :
  parts_ok typ scheme host path sub query -> to_lower typ = typ -> to_lower scheme = scheme ->
  parse_module_source (remote_text typ scheme host path sub query) = Rej.
Proof.
  intros [Ht Hs Hh Hbr Hport Hp Hps Hhp Hv Hsp Hsa Hqh Hqc Hqe] Hlt Hls.
  destruct (scheme_ok_chars _ Hs) as [Hsne Hsc].
  pose proof (fun c H => scheme_chars_not_in scheme c Hsc H) as NS.
  pose proof (fun c H => alnum_not_in typ c Ht H) as NT.
  pose proof (fun c H => host_not_in host c Hh H) as NH.
  pose proof (fun c H => path_not_in path c Hp H) as NP.
  set (pre := type_prefix typ ++ scheme).
  set (h := host ++ path).
  assert (Htext : remote_text typ scheme host path sub query = pre ++ css ++ h ++ sub_part sub ++ query_part query).
  { unfold remote_text, pre, h. now rewrite <- !app_assoc. }
  assert (NTP : forall c, (c = slash \/ c = c_qmark) -> ~ In c (type_prefix typ)).
  { intros c Hc H. unfold type_prefix in H. destruct typ as [|t0 tr]; [destruct H|].
    apply in_app_or in H as [H|[H|[H|[]]]]; [apply (NT c); [destruct Hc; auto|exact H]|destruct Hc; subst; discriminate|destruct Hc; subst; discriminate]. }
  assert (Npre : forall c, (c = slash \/ c = c_qmark) -> ~ In c pre).
  { intros c Hc H. unfold pre in H. apply in_app_or in H as [H|H]; [exact (NTP c Hc H)|apply (NS c); [destruct Hc; auto|exact H]]. }
  assert (Hcsf : csf pre = true).
  { unfold pre, type_prefix. destruct typ as [|t0 tr]; [apply csf_nocolon, NS; auto|].
    rewrite <- app_assoc. cbn [app]. apply (csf_type_scheme (t0 :: tr) scheme); assumption. }
  assert (Nh : ~ In c_qmark h).
  { unfold h. intros H. apply in_app_or in H as [H|H]; [apply (NH c_qmark); auto|apply (NP c_qmark); auto]. }
  assert (Nsub : ~ In c_qmark sub) by (apply (plain_not_in EPath); [exact Hsp|reflexivity]).
  assert (Hds : index_of dslash sub = None).
  { destruct sub as [|s0 sr]; [reflexivity|]. apply dslash_none, valid_sub_nds; [exact Hv|discriminate]. }
  unfold parse_module_source.
  rewrite Htext, (split_sub_remote pre h sub query Hcsf (Npre c_qmark ltac:(auto)) Hhp Nh Hds Nsub).
  cbn match.
  destruct (has_prefix _ dotdotslash); [reflexivity|].
  (* the parts between slashes *)
  set (h0 := pre ++ [c_colon]).
  assert (Hparts : split_on slash (pre ++ css ++ h ++ query_part query)
                   = h0 :: [] :: split_on slash (h ++ query_part query)).
  { replace (pre ++ css ++ h ++ query_part query) with (h0 ++ slash :: ([] ++ slash :: (h ++ query_part query)))
      by (unfold h0, css; rewrite <- !app_assoc; reflexivity).
    rewrite split_on_app_sep.
    - rewrite split_on_app_sep by (intros []). reflexivity.
    - unfold h0. intros H. apply in_app_or in H as [H|[H|[]]]; [apply (Npre slash); auto|discriminate]. }
  rewrite Hparts.
  (* the would-be host *)
  assert (Hh0a : all_ascii h0 = true).
  { unfold h0, pre, all_ascii. rewrite !forallb_app. cbn [forallb].
    rewrite (forallb_imp _ _ _ scheme_char_ascii Hsc).
    replace (forallb is_ascii_char (type_prefix typ)) with true; [reflexivity|].
    unfold type_prefix. destruct typ as [|t0 tr]; [reflexivity|]. rewrite forallb_app.
    rewrite (forallb_imp _ _ _ alnum_ascii Ht). reflexivity. }
  assert (Hh0l : to_lower h0 = h0).
  { unfold h0, pre, to_lower in *. rewrite !map_app, Hls. cbn [map].
    replace (map lower_char (type_prefix typ)) with (type_prefix typ); [reflexivity|].
    unfold type_prefix. destruct typ as [|t0 tr]; [reflexivity|]. now rewrite map_app, Hlt. }
  pose proof (hfc_not_out h0 Hh0a Hh0l) as Hno.
  destruct (split_on slash (h ++ query_part query)) as [|t1 [|t2 [|t3 T']]]; try reflexivity.
  - (* three parts: the default host, an empty namespace *)
    cbn [rbind]. replace (str_eqb default_host (s2l "github.com") ||| str_eqb default_host (s2l "bitbucket.org")) with false by reflexivity.
    destruct (registry_name_ok h0); reflexivity.
  - (* four parts *)
    destruct (host_for_comparison h0) as [hc| |]; [|reflexivity|congruence]. cbn [rbind].
    destruct (mem_char dot hc); [|reflexivity]. cbn [rbind].
    destruct (str_eqb hc (s2l "github.com") ||| str_eqb hc (s2l "bitbucket.org")); reflexivity.
Qed.

(* ---------- any text that starts "type::scheme://" ---------- *)
Lemma index_byte_some_split c : forall t j, index_byte c t = Some j ->
  exists t1 t2, t = t1 ++ c :: t2 /\ ~ In c t1.
Proof.
  induction t as [|x r IH]; intros j H; [discriminate|]. cbn [index_byte] in H.
  destruct (Ascii.eqb_spec x c) as [->|Hne].
  - exists [], r. split; [reflexivity|intros []].
  - destruct (index_byte c r) as [k|] eqn:E; [|discriminate].
    destruct (IH k eq_refl) as (t1 & t2 & -> & Hn). exists (x :: t1), t2. split; [reflexivity|].
    intros [H1|H1]; [congruence|contradiction].
Qed.

Lemma index_byte_none_notin c : forall t, index_byte c t = None -> ~ In c t.
Proof.
  induction t as [|x r IH]; intros H; [intros []|]. cbn [index_byte] in H.
  destruct (Ascii.eqb_spec x c) as [->|Hne]; [discriminate|].
  destruct (index_byte c r); [discriminate|]. intros [H1|H1]; [congruence|]. now apply IH.
Qed.

(* splitSubPath leaves the "scheme://" head of such a text in place *)
Lemma split_sub_keeps_scheme pre t :
  csf pre = true -> ~ In c_qmark pre ->
  exists t', fst (split_sub_path (pre ++ css ++ t)) = pre ++ css ++ t'.
Proof.
  intros Hc Hq. unfold split_sub_path.
  assert (Hqh : forall t0, ~ In c_qmark t0 -> ~ In c_qmark (pre ++ css ++ t0)).
  { intros t0 H0 H. apply in_app_or in H as [H|H]; [contradiction|].
    apply in_app_or in H as [H|H]; [cbn in H; destruct H as [H|[H|[H|[]]]]; discriminate|contradiction]. }
  assert (Hhead : exists t0 q, pre ++ css ++ t = (pre ++ css ++ t0) ++ q /\
            firstn (match index_byte c_qmark (pre ++ css ++ t) with Some i => i | None => length (pre ++ css ++ t) end) (pre ++ css ++ t)
            = pre ++ css ++ t0).
  { destruct (index_byte c_qmark t) as [j|] eqn:E.
    - destruct (index_byte_some_split c_qmark t j E) as (t1 & t2 & -> & Hn1).
      exists t1, (c_qmark :: t2). split; [now rewrite <- !app_assoc|].
      replace (pre ++ css ++ t1 ++ c_qmark :: t2) with ((pre ++ css ++ t1) ++ c_qmark :: t2) by (now rewrite <- !app_assoc).
      rewrite (index_byte_app _ _ _ (Hqh t1 Hn1)). apply firstn_app_exact.
    - pose proof (index_byte_none_notin c_qmark t E) as Hn.
      exists t, []. split; [now rewrite app_nil_r|].
      rewrite (index_byte_none _ _ (Hqh t Hn)). apply firstn_all. }
  destruct Hhead as (t0 & q & Hs & Hf). rewrite Hf.
  change [c_colon; slash; slash] with css.
  assert (Hcss : index_of css (pre ++ css ++ t0) = Some (length pre)).
  { unfold css. cbn [app]. apply css_first. exact Hc. }
  rewrite Hcss.
  assert (Hskip : skipn (length pre + 3) (pre ++ css ++ t0) = t0).
  { rewrite app_assoc. apply skipn_app_len. rewrite app_length. reflexivity. }
  rewrite Hskip. change [slash; slash] with dslash.
  destruct (index_of dslash t0) as [i|]; [|exists t; reflexivity].
  assert (Hfi : firstn (i + (length pre + 3)) (pre ++ css ++ t) = pre ++ css ++ firstn i t).
  { rewrite app_assoc, firstn_app, app_length. change (length css) with 3.
    replace (i + (length pre + 3) - (length pre + 3)) with i by lia.
    rewrite firstn_all2 by (rewrite app_length; change (length css) with 3; lia). now rewrite <- app_assoc. }
  rewrite Hfi.
  destruct (index_byte c_qmark (skipn (i + (length pre + 3) + 2) (pre ++ css ++ t))) as [j|].
  - eexists. cbn [fst]. rewrite <- !app_assoc. reflexivity.
  - eexists. cbn [fst]. reflexivity.
Qed.

(* ... and the registry-address parser refuses every such text *)
Lemma module_source_rejects_schemed pre t :
  csf pre = true -> ~ In c_qmark pre -> ~ In slash pre ->
  all_ascii (pre ++ [c_colon]) = true -> to_lower (pre ++ [c_colon]) = pre ++ [c_colon] ->
  parse_module_source (pre ++ css ++ t) = Rej.
Proof.
  intros Hc Hq Hs Ha Hl. unfold parse_module_source.
  destruct (split_sub_keeps_scheme pre t Hc Hq) as [t' Ht'].
  destruct (split_sub_path (pre ++ css ++ t)) as [raw sub]. cbn [fst] in Ht'. subst raw.
  destruct (has_prefix _ dotdotslash); [reflexivity|].
  set (h0 := pre ++ [c_colon]).
  assert (Hparts : split_on slash (pre ++ css ++ t') = h0 :: [] :: split_on slash t').
  { replace (pre ++ css ++ t') with (h0 ++ slash :: ([] ++ slash :: t'))
      by (unfold h0, css; rewrite <- !app_assoc; reflexivity).
    rewrite split_on_app_sep.
    - rewrite split_on_app_sep by (intros []). reflexivity.
    - unfold h0. intros H. apply in_app_or in H as [H|[H|[]]]; [contradiction|discriminate]. }
  rewrite Hparts.
  pose proof (hfc_not_out h0 Ha Hl) as Hno.
  destruct (split_on slash t') as [|t1 [|t2 [|t3 T']]]; try reflexivity.
  - cbn [rbind]. replace (str_eqb default_host (s2l "github.com") ||| str_eqb default_host (s2l "bitbucket.org")) with false by reflexivity.
    destruct (registry_name_ok h0); reflexivity.
  - destruct (host_for_comparison h0) as [hc| |]; [|reflexivity|congruence]. cbn [rbind].
    destruct (mem_char dot hc); [|reflexivity]. cbn [rbind].
    destruct (str_eqb hc (s2l "github.com") ||| str_eqb hc (s2l "bitbucket.org")); reflexivity.
Qed.

Lemma pre_facts typ scheme :
  type_okb typ = true -> scheme_ok scheme = true -> to_lower typ = typ -> to_lower scheme = scheme ->
  let pre := type_prefix typ ++ scheme in
  csf pre = true /\ ~ In c_qmark pre /\ ~ In slash pre /\ ~ In c_at pre /\
  all_ascii (pre ++ [c_colon]) = true /\ to_lower (pre ++ [c_colon]) = pre ++ [c_colon].
Proof.
  intros Ht Hs Hlt Hls pre.
  destruct (scheme_ok_chars _ Hs) as [Hsne Hsc].
  pose proof (fun c H => scheme_chars_not_in scheme c Hsc H) as NS.
  pose proof (fun c H => alnum_not_in typ c Ht H) as NT.
  assert (NTP : forall c, (c = slash \/ c = c_qmark) -> ~ In c (type_prefix typ)).
  { intros c Hc H. unfold type_prefix in H. destruct typ as [|t0 tr]; [destruct H|].
    apply in_app_or in H as [H|[H|[H|[]]]]; [apply (NT c); [destruct Hc; auto|exact H]|destruct Hc; subst; discriminate|destruct Hc; subst; discriminate]. }
  assert (Npre : forall c, (c = slash \/ c = c_qmark) -> ~ In c pre).
  { intros c Hc H. unfold pre in H. apply in_app_or in H as [H|H]; [exact (NTP c Hc H)|apply (NS c); [destruct Hc; auto|exact H]]. }
  split; [|split; [apply Npre; auto|split; [apply Npre; auto|split; [|split]]]].
  - unfold pre, type_prefix. destruct typ as [|t0 tr]; [apply csf_nocolon, NS; auto|].
    rewrite <- app_assoc. cbn [app]. apply (csf_type_scheme (t0 :: tr) scheme); assumption.
  - unfold pre. intros H. apply in_app_or in H as [H|H].
    + unfold type_prefix in H. destruct typ as [|t0 tr]; [destruct H|].
      apply in_app_or in H as [H|[H|[H|[]]]]; try discriminate.
      revert H. apply (forallb_not_in is_alnum); [exact Ht|reflexivity].
    + revert H. apply (forallb_not_in scheme_char); [exact Hsc|reflexivity].
  - unfold pre, all_ascii. rewrite !forallb_app. cbn [forallb].
    rewrite (forallb_imp _ _ _ scheme_char_ascii Hsc).
    replace (forallb is_ascii_char (type_prefix typ)) with true; [reflexivity|].
    unfold type_prefix. destruct typ as [|t0 tr]; [reflexivity|]. rewrite forallb_app.
    rewrite (forallb_imp _ _ _ alnum_ascii Ht). reflexivity.
  - unfold pre, to_lower in *. rewrite !map_app, Hls. cbn [map].
    replace (map lower_char (type_prefix typ)) with (type_prefix typ); [reflexivity|].
    unfold type_prefix. destruct typ as [|t0 tr]; [reflexivity|]. now rewrite map_app, Hlt.
Qed.

Lemma app_prefix_notin {A} (x : A) : forall P a r B, a ++ x :: r = P ++ B -> ~ In x P -> exists a', a = P ++ a'.
Proof.
  induction P as [|p P IH]; intros a r B E Hn; [now exists a|].
  destruct a as [|a0 a]; cbn in E.
  - injection E as -> _. exfalso. apply Hn. now left.
  - injection E as -> E. destruct (IH a r B E) as [a' ->]; [intros H; apply Hn; now right|]. now exists a'.
Qed.

Lemma final_split_go_prefix : forall pre_rev after a v sub,
  final_split_go pre_rev after = Some (a, v, sub) -> exists rest, rev pre_rev ++ after = a ++ c_at :: rest.
Proof.
  induction pre_rev as [|c r IH]; intros after a v sub H; [discriminate|]. cbn [final_split_go] in H.
  assert (Hrec : final_split_go r (c :: after) = Some (a, v, sub) -> exists rest, rev (c :: r) ++ after = a ++ c_at :: rest).
  { intros H'. destruct (IH _ _ _ _ H') as [rest E]. exists rest. cbn [rev]. now rewrite <- app_assoc. }
  destruct (Ascii.eqb_spec c c_at) as [->|Hne]; cbn match in H; [|now apply Hrec].
  destruct (negb (is_empty r) &&& negb (mem_char c_nl r)); [|now apply Hrec].
  destruct (tail_ok after) as [[v' sub']|]; [|now apply Hrec].
  injection H as <- <- <-. exists after. cbn [rev]. now rewrite <- app_assoc.
Qed.

Lemma final_split_prefix s a v sub : final_split s = Some (a, v, sub) -> exists rest, s = a ++ c_at :: rest.
Proof.
  unfold final_split. intros H. destruct (final_split_go_prefix _ _ _ _ _ H) as [rest E].
  exists rest. now rewrite rev_involutive, app_nil_r in E.
Qed.

(* a well-formed remote value prints as a structured text *)
Lemma wf_remote_text p sub : wf_remoteb p sub = true ->
  exists typ' scheme host path query,
    remote_string p sub = remote_text typ' scheme host path sub query /\
    parts_ok typ' scheme host path sub query /\ to_lower typ' = typ' /\ to_lower scheme = scheme.
Proof.
  unfold wf_remoteb. destruct p as [typ u]. destruct u as [scheme opaque user host path rawpath omit forceq query frag rawfrag].
  cbn [p_url p_type u_scheme u_opaque u_user u_host u_path u_rawpath u_omit_host u_forceq u_query u_frag u_rawfrag].
  rewrite !andl_spec, !andb_true_iff, !negb_true_iff.
  intros H. repeat match type of H with _ /\ _ => destruct H as [H ?] end.
  repeat match goal with
         | Hx : is_empty ?x = true |- _ => destruct x; [clear Hx|discriminate Hx]
         end.
  subst.
  set (u := mkUrl scheme [] false host path [] false false query [] []) in *.
  assert (Hsub : valid_sub sub).
  { match goal with Hv : (is_empty sub ||| _) = true |- _ => rename Hv into Hv0 end.
    destruct sub as [|s0 sr]; [now left|]. cbn [is_empty] in Hv0. cbn match in Hv0.
    apply andb_true_iff in Hv0 as [Hv1 Hv2]. apply negb_true_iff, str_eqb_neq in Hv2.
    right. split; assumption. }
  assert (Hlow_s : to_lower scheme = scheme) by (apply str_eqb_eq; assumption).
  assert (Hlow_t : to_lower typ = typ) by (apply str_eqb_eq; assumption).
  assert (Hsne : scheme <> []) by (destruct scheme; [discriminate|discriminate]).
  assert (Hhne : host <> []) by (destruct host; [discriminate|discriminate]).
  set (typ' := if str_eqb scheme typ then [] else typ).
  exists typ', scheme, host, path, query.
  assert (Htext : remote_string (mkPkg typ u) sub = remote_text typ' scheme host path sub query).
  { unfold remote_string, rpkg_string, pkg_string_of, remote_text, typ'. cbn [p_url p_type].
    assert (Hpre : forall body, (if str_eqb scheme typ then body else typ ++ [c_colon; c_colon] ++ body)
                                = type_prefix (if str_eqb scheme typ then [] else typ) ++ body).
    { intros body. destruct (str_eqb scheme typ); [reflexivity|]. unfold type_prefix. destruct typ; [discriminate|].
      now rewrite <- app_assoc. }
    destruct sub as [|s0 sr].
    - cbn [u_scheme]. fold u. rewrite Hpre. unfold u.
      rewrite url_string_plain by assumption. cbn [sub_part app]. reflexivity.
    - unfold with_path, u. cbn [u_scheme u_opaque u_user u_host u_path u_rawpath u_omit_host u_forceq u_query u_frag u_rawfrag].
      rewrite Hpre. rewrite url_string_plain; try assumption.
      + cbn [sub_part]. rewrite <- !app_assoc. reflexivity.
      + unfold plainb in *. rewrite forallb_app. cbn [app forallb].
        replace (negb (should_escape slash EPath)) with true by reflexivity.
        match goal with Hp : forallb _ path = true |- _ => rewrite Hp end.
        match goal with Hp : forallb _ (s0 :: sr) = true |- _ => cbn [forallb] in Hp; rewrite Hp end. reflexivity.
      + unfold path_shape. destruct path; reflexivity || (cbn; match goal with Hs : path_shape _ = true |- _ => exact Hs end). }
  split; [exact Htext|]. split; [|split; [|exact Hlow_s]].
  - constructor; try assumption.
    + unfold typ'. destruct (str_eqb scheme typ); [reflexivity|assumption].
    + intros Hin. apply mem_char_In in Hin. congruence.
  - unfold typ'. destruct (str_eqb scheme typ); [reflexivity|exact Hlow_t].
Qed.

Lemma final_split_go_no_at : forall pre_rev after, ~ In c_at pre_rev -> final_split_go pre_rev after = None.
Proof.
  induction pre_rev as [|c r IH]; intros after Hn; [reflexivity|]. cbn [final_split_go].
  destruct (Ascii.eqb_spec c c_at) as [->|Hne]; [exfalso; apply Hn; now left|].
  cbn match. apply IH. intros H. apply Hn. now right.
Qed.

Lemma final_parts_no_at s : ~ In c_at s -> final_parts s = ([], []).
Proof.
  intros Hn. unfold final_parts, final_split. rewrite final_split_go_no_at; [reflexivity|].
  intros H. apply in_rev in H. contradiction.
Qed.

Theorem classify_remote p sub :
  wf_remoteb p sub = true ->
  outer_ascii (remote_string p sub) = true -> has_outer_space (remote_string p sub) = false ->
  parse_source (remote_string p sub) = Ok (ARemote p sub) /\
  parse_final_source (remote_string p sub) = Ok (ARemote p sub).
Proof.
  intros Hw Ho Hs. pose proof (remote_round_trip p sub Hw) as Hrt.
  destruct (wf_remote_text p sub Hw) as (typ' & scheme & host & path & query & Htext & Hparts & Hlt & Hls).
  pose proof (module_source_rejects_structured _ _ _ _ _ _ Hparts Hlt Hls) as Hrej.
  rewrite <- Htext in Hrej.
  destruct Hparts as [Ht Hsc _ _ _ _ _ _ _ _ _ _ _ _].
  destruct (pre_facts typ' scheme Ht Hsc Hlt Hls) as (Pcsf & Pq & Pslash & Pat & Pascii & Plow).
  set (pre := type_prefix typ' ++ scheme) in *.
  set (body := host ++ path ++ sub_part sub ++ query_part query).
  assert (Hshape : remote_string p sub = pre ++ css ++ body).
  { rewrite Htext. unfold remote_text, pre, body. now rewrite <- !app_assoc. }
  set (h0 := pre ++ [c_colon]).
  assert (Hhead : remote_string p sub = h0 ++ slash :: slash :: body).
  { rewrite Hshape. unfold h0, css. now rewrite <- app_assoc. }
  assert (Hh0 : ~ In slash h0).
  { unfold h0. intros H. apply in_app_or in H as [H|[H|[]]]; [contradiction|discriminate]. }
  assert (Hlf : is_local_form (remote_string p sub) = false).
  { rewrite Hhead. destruct (is_local_form (h0 ++ slash :: slash :: body)) eqn:E; [|reflexivity]. exfalso.
    assert (Hlast : last h0 dot = c_colon) by (unfold h0; apply last_last).
    destruct (local_form_head _ _ Hh0 E) as [H|H]; rewrite H in Hlast; discriminate. }
  assert (Hne : is_empty (remote_string p sub) = false).
  { rewrite Hhead. unfold h0. destruct pre; reflexivity. }
  split.
  - unfold parse_source. rewrite Ho, Hs, Hne, Hlf. cbn [negb]. unfold looks_like_registry. rewrite Hrej. cbn [rbind].
    now rewrite Hrt.
  - unfold parse_final_source. rewrite Ho, Hs, Hne, Hlf. cbn [negb].
    assert (Hlfr : looks_like_final_registry (remote_string p sub) = Ok false).
    { unfold looks_like_final_registry, final_parts.
      destruct (final_split (remote_string p sub)) as [[[a v] sub']|] eqn:Efs.
      - destruct (final_split_prefix _ _ _ _ Efs) as [rest Erest].
        rewrite Hshape, app_assoc in Erest. symmetry in Erest.
        assert (Hnat : ~ In c_at (pre ++ css)).
        { intros H. apply in_app_or in H as [H|H]; [contradiction|]. cbn in H. destruct H as [H|[H|[H|[]]]]; discriminate. }
        destruct (app_prefix_notin c_at (pre ++ css) a rest body Erest Hnat) as [a' ->].
        cbn [fst]. unfold looks_like_registry. rewrite <- !app_assoc.
        now rewrite (module_source_rejects_schemed pre (a' ++ [slash; slash] ++ sub') Pcsf Pq Pslash Pascii Plow).
      - cbn [fst]. vm_compute. reflexivity. }
    rewrite Hlfr. cbn [rbind]. now rewrite Hrt.
Qed.

(* the hypotheses are satisfiable, for each kind *)
Definition classify_example_check : bool :=
  match parse_remote (s2l "git::https://example.com/org/repo.git//modules/vpc?ref=v1.0") with
  | Ok (p, sub) => wf_remoteb p sub &&& outer_ascii (remote_string p sub) &&& negb (has_outer_space (remote_string p sub))
                   &&& negb (mem_char c_at (remote_string p sub))
  | _ => false
  end
  &&&
  match parse_registry (s2l "example.com/ns/name/aws//modules/x") with
  | Ok (p, sub) => wf_mpkgb p &&& outer_ascii (registry_string p sub) &&& negb (has_outer_space (registry_string p sub))
  | _ => false
  end.
Example classify_examples : classify_example_check = true.
Proof. vm_compute. reflexivity. Qed.
