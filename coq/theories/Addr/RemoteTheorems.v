(* C06 for remote addresses (print, then parse, gives the value back - for values
   whose host, path and sub-path are left alone by URL escaping: the other values
   are the known findings KF-C06-1..3) and C07's converse (addresses written in
   the documented grammar are accepted), both as instances of
   parse_remote_structured. *)
From Slug Require Import Base.Str Base.PathAlg Base.PathLemmas Base.Search Addr.Resolve Addr.ResolveProofs
  Addr.Url Addr.UrlProofs Addr.Parse Addr.Policy Addr.ParseProofs Addr.RoundTrip Addr.RoundTripFinal Addr.RemoteParse
  Bundle.Lookup Bundle.LookupProofs.
From Coq Require Import Lia.

(* ---------- printing a URL whose parts escaping leaves alone ---------- *)
Lemma plain_path_not_star p : plainb EPath p = true -> str_eqb p (s2l "*") = false.
Proof.
  intros H. destruct (str_eqb_spec p (s2l "*")) as [->|]; [|reflexivity]. discriminate.
Qed.

Lemma url_string_plain scheme host path query :
  scheme <> [] -> host <> [] -> plainb EHost host = true -> plainb EPath path = true -> path_shape path = true ->
  url_string (mkUrl scheme [] false host path [] false false query [] [])
  = scheme ++ css ++ host ++ path ++ query_part query.
Proof.
  intros Hs Hh Hph Hpp Hsh. unfold url_string. cbn [u_scheme u_opaque u_user u_host u_path u_omit_host u_forceq u_query u_frag].
  destruct scheme as [|s0 sr]; [congruence|]. destruct host as [|h0 hr]; [congruence|].
  cbn [is_empty negb]. cbn match.
  unfold escaped_path. cbn [u_rawpath u_path]. rewrite (plain_path_not_star _ Hpp), (escape_plain _ _ Hpp), (escape_plain _ _ Hph).
  assert (Hsep : (match path with
                  | c :: _ => if negb (Ascii.eqb c slash) &&& true then [slash] else []
                  | [] => [] end) = []).
  { unfold path_shape in Hsh. destruct path as [|c r]; [reflexivity|]. cbn in Hsh. now rewrite Hsh. }
  rewrite Hsep. rewrite app_nil_r.
  replace (is_empty (((s0 :: sr) ++ [c_colon]) ++ [slash; slash] ++ h0 :: hr)) with false by reflexivity.
  cbn match. cbn [app]. unfold query_part, css. destruct query; rewrite <- ?app_assoc; cbn [app]; rewrite ?app_nil_r; reflexivity.
Qed.

(* ---------- well-formed remote values ---------- *)
Definition lowerb (s : str) : bool := str_eqb (to_lower s) s.

(* what the round-trip theorem needs of a value; the last conjunct says that the value is a fixed point
   of makeRemoteSource, which every value built by the parsers or by MakeRemoteSource is.  Evaluated on
   every accepted remote address of the addr stream (values outside it are counted, not hidden). *)
Definition wf_remoteb (p : rpkg) (sub : str) : bool :=
  let u := p_url p in
  is_empty (u_opaque u) &&& negb (u_user u) &&& is_empty (u_rawpath u) &&& negb (u_omit_host u) &&& negb (u_forceq u)
  &&& is_empty (u_frag u) &&& is_empty (u_rawfrag u)
  &&& scheme_ok (u_scheme u) &&& lowerb (u_scheme u)
  &&& negb (is_empty (p_type p)) &&& type_okb (p_type p) &&& lowerb (p_type p)
  &&& plainb EHost (u_host u) &&& not_bracket (u_host u) &&& host_port_ok (u_host u)
  &&& plainb EPath (u_path u) &&& path_shape (u_path u) &&& nds (u_host u ++ u_path u)
  &&& negb (mem_char c_hash (u_query u)) &&& negb (existsb is_ctl (u_query u)) &&& negb (has_suffix (u_query u) [c_qmark])
  &&& negb (snd (parse_query (u_query u)))
  &&& (is_empty sub ||| (valid_path sub &&& negb (str_eqb sub [dot]))) &&& plainb EPath sub &&& all_ascii sub
  &&& match make_remote (p_type p) u sub with
      | Ok (p', s') => rpkg_eqb p' p &&& str_eqb s' sub
      | _ => false
      end.

Theorem remote_round_trip p sub :
  wf_remoteb p sub = true -> parse_remote (remote_string p sub) = Ok (p, sub).
Proof.
  unfold wf_remoteb. destruct p as [typ u]. destruct u as [scheme opaque user host path rawpath omit forceq query frag rawfrag].
  cbn [p_url p_type u_scheme u_opaque u_user u_host u_path u_rawpath u_omit_host u_forceq u_query u_frag u_rawfrag].
  rewrite !andl_spec, !andb_true_iff, !negb_true_iff.
  intros H. repeat match type of H with _ /\ _ => destruct H as [H ?] end.
  repeat match goal with
         | Hx : is_empty ?x = true |- _ => destruct x; [clear Hx|discriminate Hx]
         end.
  subst.
  match goal with Hm : match make_remote _ _ _ with _ => _ end = true |- _ => rename Hm into Hfix end.
  set (u := mkUrl scheme [] false host path [] false false query [] []) in *.
  assert (Hsub : valid_sub sub).
  { match goal with Hv : (is_empty sub ||| _) = true |- _ => rename Hv into Hv0 end.
    destruct sub as [|s0 sr]; [now left|]. cbn [is_empty] in Hv0. cbn match in Hv0.
    apply andb_true_iff in Hv0 as [Hv1 Hv2]. apply negb_true_iff, str_eqb_neq in Hv2.
    right. split; assumption. }
  assert (Hlow_s : to_lower scheme = scheme) by (apply str_eqb_eq; assumption).
  assert (Hlow_t : to_lower typ = typ) by (apply str_eqb_eq; assumption).
  assert (Hsne : scheme <> []) by (destruct scheme; [discriminate|discriminate]).
  assert (Hhne : host <> []) by (destruct host; [discriminate|discriminate]).
  (* the printed text is a structured text *)
  set (typ' := if str_eqb scheme typ then [] else typ).
  assert (Htext : remote_string (mkPkg typ u) sub = remote_text typ' scheme host path sub query).
  { unfold remote_string, rpkg_string, pkg_string_of, remote_text, typ'. cbn [p_url p_type].
    assert (Hpre : forall body, (if str_eqb scheme typ then body else typ ++ [c_colon; c_colon] ++ body)
                                = type_prefix (if str_eqb scheme typ then [] else typ) ++ body).
    { intros body. destruct (str_eqb scheme typ); [reflexivity|]. unfold type_prefix. destruct typ; [discriminate|].
      now rewrite <- app_assoc. }
    destruct sub as [|s0 sr].
    - cbn [u_scheme]. fold u. rewrite Hpre. unfold u.
      rewrite url_string_plain by assumption. cbn [sub_part app]. reflexivity.
    - unfold with_path, u. cbn [u_scheme u_opaque u_user u_host u_path u_rawpath u_omit_host u_forceq u_query u_frag u_rawfrag].
      rewrite Hpre. rewrite url_string_plain; try assumption.
      + cbn [sub_part]. rewrite <- !app_assoc. reflexivity.
      + unfold plainb in *. rewrite forallb_app. cbn [app forallb].
        replace (negb (should_escape slash EPath)) with true by reflexivity.
        match goal with Hp : forallb _ path = true |- _ => rewrite Hp end.
        match goal with Hp : forallb _ (s0 :: sr) = true |- _ => cbn [forallb] in Hp; rewrite Hp end. reflexivity.
      + unfold path_shape. destruct path; reflexivity || (cbn; match goal with Hs : path_shape _ = true |- _ => exact Hs end). }
  rewrite Htext.
  assert (Hparts : parts_ok typ' scheme host path sub query).
  { constructor; try assumption.
    - unfold typ'. destruct (str_eqb scheme typ); [reflexivity|assumption].
    - intros Hin. apply mem_char_In in Hin. congruence. }
  rewrite (parse_remote_structured _ _ _ _ _ _ Hparts).
  fold (parsed_url scheme host path query). unfold parsed_url. rewrite Hlow_s. fold u.
  match goal with Hq : snd (parse_query query) = false |- _ => rewrite Hq end.
  assert (Hmk : make_remote typ u sub = Ok (mkPkg typ u, sub)).
  { destruct (make_remote typ u sub) as [[p' s']| |]; try discriminate.
    rewrite andl_spec in Hfix. apply andb_true_iff in Hfix as [Hf1 Hf2].
    apply rpkg_eqb_spec in Hf1. apply str_eqb_eq in Hf2. now subst. }
  unfold typ'. destruct (str_eqb_spec scheme typ) as [->|Hne].
  - cbn [is_empty negb]. cbn match. exact Hmk.
  - destruct typ as [|t0 tr]; [discriminate|]. cbn [is_empty negb]. cbn match.
    rewrite Hlow_t. destruct (str_eqb_spec (t0 :: tr) scheme) as [E|_]; [congruence|]. exact Hmk.
Qed.

Example wf_remote_examples :
  (forall s, In s [s2l "git::https://example.com/org/repo.git//modules/vpc?ref=v1.0";
                   s2l "https://example.com:8443/dl/x.tar.gz//a/b";
                   s2l "https://example.com/x?archive=tgz&b=1";
                   s2l "git::ssh://git.example.org/r.git";
                   s2l "http::https://example.com/x.tgz//m"] ->
     match parse_remote s with Ok (p, sub) => wf_remoteb p sub = true | _ => False end).
Proof.
  intros s Hs. repeat (destruct Hs as [<-|Hs]; [vm_compute; reflexivity|]). destruct Hs.
Qed.

(* ====================================================================== *)
(* C07, converse direction: the documented grammar is accepted             *)
(* ====================================================================== *)
Definition qplain_char (c : ascii) : bool :=
  negb (one_of "&;=%+#" c) && negb (is_ctl c).
Definition qplain (v : str) : bool := forallb qplain_char v.

Lemma unescape_qplain v : qplain v = true -> unescape EQuery v = Some v.
Proof.
  induction v as [|c r IH]; [reflexivity|]. cbn [qplain forallb]. intros H. apply andb_true_iff in H as [Hc Hr].
  unfold qplain_char in Hc. apply andb_true_iff in Hc as [Hc _]. apply negb_true_iff in Hc.
  cbn [unescape].
  assert (H1 : Ascii.eqb c c_pct = false).
  { destruct (Ascii.eqb_spec c c_pct) as [->|]; [discriminate|reflexivity]. }
  assert (H2 : Ascii.eqb c c_plus = false).
  { destruct (Ascii.eqb_spec c c_plus) as [->|]; [discriminate|reflexivity]. }
  rewrite H1, H2. cbn match. fold (qplain r) in Hr. now rewrite (IH Hr).
Qed.

Lemma qplain_not_in v c : qplain v = true -> one_of "&;=%+#" c = true -> ~ In c v.
Proof.
  intros H Hc Hin. unfold qplain in H. rewrite forallb_forall in H. specialize (H c Hin).
  unfold qplain_char in H. now rewrite Hc in H.
Qed.

Lemma parse_query_single (k v : str) :
  qplain k = true -> k <> [] -> qplain v = true -> parse_query (k ++ c_eq :: v) = ([(k, v)], false).
Proof.
  intros Hk Hne Hv. unfold parse_query.
  destruct (k ++ c_eq :: v) as [|x y] eqn:E; [destruct k; discriminate|]. rewrite <- E.
  assert (Hna : ~ In c_amp (k ++ c_eq :: v)).
  { intros H. apply in_app_or in H as [H|[H|H]]; [revert H; now apply qplain_not_in|discriminate|revert H; now apply qplain_not_in]. }
  rewrite (split_on_no_sep _ _ Hna). cbn [parse_query_segs].
  assert (Hns : mem_char c_semi (k ++ c_eq :: v) = false).
  { destruct (mem_char c_semi (k ++ c_eq :: v)) eqn:Es; [|reflexivity]. apply mem_char_In in Es.
    apply in_app_or in Es as [H|[H|H]]; [exfalso; revert H; now apply qplain_not_in|discriminate|exfalso; revert H; now apply qplain_not_in]. }
  rewrite Hns. replace (is_empty (k ++ c_eq :: v)) with false by (destruct k; reflexivity).
  unfold cut1. rewrite (cut_char_app c_eq k v) by (now apply qplain_not_in).
  now rewrite (unescape_qplain _ Hk), (unescape_qplain _ Hv).
Qed.

(* git over https or ssh, type and scheme in any letter case, optional ref *)
Theorem grammar_git_accepted typ scheme host path sub query :
  parts_ok typ scheme host path sub query ->
  to_lower typ = s_git -> (to_lower scheme = s_https \/ to_lower scheme = s_ssh) ->
  (query = [] \/ exists v, query = s_ref ++ c_eq :: v /\ qplain v = true) ->
  parse_remote (remote_text typ scheme host path sub query)
  = Ok (mkPkg s_git (parsed_url scheme host path query), sub).
Proof.
  intros Hp Ht Hs Hq. rewrite (parse_remote_structured _ _ _ _ _ _ Hp).
  assert (Htne : is_empty typ = false) by (destruct typ; [discriminate|reflexivity]).
  rewrite Htne, Ht. cbn [negb]. cbn match.
  assert (Hne : str_eqb s_git (to_lower scheme) = false) by (destruct Hs as [-> | ->]; reflexivity).
  rewrite Hne.
  assert (Hpq : exists qs, parse_query query = (qs, false) /\ forallb (fun p => str_eqb (fst p) s_ref) qs = true /\ length qs <= 1).
  { destruct Hq as [->|(v & -> & Hv)].
    - exists []. repeat split. cbn. lia.
    - exists [(s_ref, v)]. rewrite (parse_query_single s_ref v eq_refl ltac:(discriminate) Hv).
      split; [reflexivity|]. split; [reflexivity|]. cbn. lia. }
  destruct Hpq as (qs & Hpq & Hall & Hlen). rewrite Hpq. cbn [snd].
  unfold make_remote. rewrite str_eqb_refl. unfold prepare_git, parsed_url.
  cbn [u_scheme u_query]. rewrite Hpq. cbn [fst]. rewrite Hall.
  replace (Nat.leb (length qs) 1) with true by (symmetry; apply Nat.leb_le; exact Hlen).
  destruct Hs as [-> | ->]; reflexivity.
Qed.

(* an https archive named by its suffix *)
Theorem grammar_archive_suffix_accepted scheme host path sub :
  parts_ok [] scheme host path sub [] -> to_lower scheme = s_https ->
  (has_suffix path (s2l ".tgz") = true \/ has_suffix path (s2l ".tar.gz") = true) ->
  parse_remote (remote_text [] scheme host path sub [])
  = Ok (mkPkg s_https (parsed_url scheme host path []), sub).
Proof.
  intros Hp Hs Hsuf. rewrite (parse_remote_structured _ _ _ _ _ _ Hp).
  cbn [is_empty negb]. cbn match. rewrite Hs.
  unfold make_remote. replace (str_eqb s_https s_git) with false by reflexivity.
  replace (str_eqb s_https s_http ||| str_eqb s_https s_https) with true by reflexivity.
  unfold prepare_http, parsed_url. cbn [u_scheme u_query]. rewrite Hs. cbn [negb str_eqb].
  replace (str_eqb s_https s_https) with true by reflexivity. cbn [negb]. cbn match.
  unfold escaped_path. cbn [u_rawpath u_path].
  rewrite (plain_path_not_star _ (po_path _ _ _ _ _ _ Hp)), (escape_plain _ _ (po_path _ _ _ _ _ _ Hp)).
  destruct Hsuf as [H|H]; rewrite H; [destruct (has_suffix path (s2l ".tar.gz"))|]; reflexivity.
Qed.

(* an https archive named by the archive argument: stored normalised to tgz *)
Theorem grammar_archive_argument_accepted scheme host path sub v :
  parts_ok [] scheme host path sub (s_archive ++ c_eq :: v) -> to_lower scheme = s_https ->
  (v = s_tgz \/ v = s_targz) ->
  parse_remote (remote_text [] scheme host path sub (s_archive ++ c_eq :: v))
  = Ok (mkPkg s_https (parsed_url scheme host path (s2l "archive=tgz")), sub).
Proof.
  intros Hp Hs Hv. rewrite (parse_remote_structured _ _ _ _ _ _ Hp).
  cbn [is_empty negb]. cbn match. rewrite Hs.
  assert (Hpq : parse_query (s_archive ++ c_eq :: v) = ([(s_archive, v)], false)).
  { apply parse_query_single; [reflexivity|discriminate|destruct Hv as [-> | ->]; reflexivity]. }
  rewrite Hpq. cbn [snd].
  unfold make_remote. replace (str_eqb s_https s_git) with false by reflexivity.
  replace (str_eqb s_https s_http ||| str_eqb s_https s_https) with true by reflexivity.
  unfold prepare_http, parsed_url. cbn [u_scheme u_query]. rewrite Hs, Hpq.
  destruct Hv as [-> | ->]; vm_compute; reflexivity.
Qed.
