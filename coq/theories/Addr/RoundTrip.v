(* C06 for registry addresses: a printed registry address parses back to the
   value it was printed from, for every well-formed package value and every
   valid sub-path without '?' (the excluded case is known finding KF-C06-5). *)
From Slug Require Import Base.Str Base.PathAlg Base.PathLemmas Base.Search Addr.Resolve Addr.ResolveProofs
  Addr.Url Addr.Parse Addr.ParseProofs.
From Coq Require Import Lia.

(* ---------- splitSubPath on printed forms ---------- *)
Lemma split_sub_none s :
  ~ In c_qmark s -> index_of css s = None -> index_of dslash s = None -> split_sub_path s = (s, []).
Proof.
  intros Hq Hc Hd. unfold split_sub_path.
  rewrite (index_byte_none _ _ Hq), firstn_all.
  change [c_colon; slash; slash] with css. rewrite Hc. cbn [skipn].
  change [slash; slash] with dslash. now rewrite Hd.
Qed.

Lemma split_sub_printed pkg sub :
  ~ In c_qmark pkg -> ~ In c_qmark sub -> csf pkg = true -> nds pkg = true -> index_of dslash sub = None ->
  split_sub_path (pkg ++ slash :: slash :: sub) = (pkg, sub).
Proof.
  intros Hq1 Hq2 Hc Hn Hs. unfold split_sub_path.
  assert (Hq : ~ In c_qmark (pkg ++ slash :: slash :: sub)).
  { intros H. apply in_app_or in H as [H|[H|[H|H]]]; try discriminate; contradiction. }
  rewrite (index_byte_none _ _ Hq), firstn_all.
  change [c_colon; slash; slash] with css. rewrite (css_none_app pkg sub Hc Hs). cbn [skipn].
  change [slash; slash] with dslash. rewrite (dslash_first pkg sub Hn).
  rewrite Nat.add_0_r.
  replace (skipn (length pkg + 2) (pkg ++ slash :: slash :: sub)) with sub.
  - rewrite firstn_app_exact, (index_byte_none _ _ Hq2). reflexivity.
  - rewrite skipn_app. replace (length pkg + 2 - length pkg) with 2 by lia.
    rewrite skipn_all2 by lia. reflexivity.
Qed.

(* ---------- well-formed registry package values ---------- *)
Definition reserved_host (h : str) : bool := str_eqb h (s2l "github.com") ||| str_eqb h (s2l "bitbucket.org").

(* every value ParseRegistrySource returns satisfies this (evaluated on every accepted
   registry address of the addr stream); the default host satisfies it by computation *)
Definition wf_mpkgb (p : mpkg) : bool :=
  (match host_for_comparison (m_host p) with Ok h => str_eqb h (m_host p) | _ => false end)
  &&& mem_char dot (m_host p) &&& negb (reserved_host (m_host p))
  &&& negb (mem_char slash (m_host p)) &&& negb (mem_char c_qmark (m_host p)) &&& csf (m_host p)
  &&& registry_name_ok (m_ns p) &&& registry_name_ok (m_name p) &&& target_system_ok (m_sys p).

Lemma forallb_not_in (f : ascii -> bool) c s : forallb f s = true -> f c = false -> ~ In c s.
Proof. intros H Hc Hin. rewrite forallb_forall in H. rewrite (H c Hin) in Hc. discriminate. Qed.

Lemma in_removelast {A} (x : A) l : In x (removelast l) -> In x l.
Proof.
  induction l as [|y l IH]; [intros []|]. cbn. destruct l as [|z l]; [intros []|].
  intros [->|H]; [now left|right; now apply IH].
Qed.

Lemma last_in {A} (l : list A) d : l <> [] -> In (last l d) l.
Proof.
  induction l as [|y l IH]; [congruence|]. intros _. destruct l as [|z l]; [now left|].
  right. apply IH. discriminate.
Qed.

Lemma removelast_last_in {A} (x : A) l d : In x l -> In x (removelast l) \/ x = last l d.
Proof.
  induction l as [|y l IH]; [intros []|]. destruct l as [|z l].
  - intros [->|[]]. now right.
  - intros [->|H]; [left; now left|]. destruct (IH H) as [H'|H']; [left; now right|now right].
Qed.

(* characters of registry names *)
Definition name_char (c : ascii) : bool := is_alnum c ||| Ascii.eqb c hyphen ||| Ascii.eqb c "_"%char.

Lemma registry_name_chars s : registry_name_ok s = true -> s <> [] /\ forallb name_char s = true.
Proof.
  unfold registry_name_ok. destruct s as [|c r]; [discriminate|]. rewrite andl_spec.
  intros H. apply andb_true_iff in H as [Hc Hr]. split; [discriminate|].
  cbn [forallb]. unfold name_char at 1. rewrite Hc. cbn.
  destruct r as [|d r']; [reflexivity|].
  rewrite !andl_spec in Hr. apply andb_true_iff in Hr as [Hr Hmid]. apply andb_true_iff in Hr as [_ Hlast].
  apply forallb_forall. intros x Hx.
  destruct (removelast_last_in x (d :: r') c_space Hx) as [H| ->].
  - rewrite forallb_forall in Hmid. exact (Hmid x H).
  - unfold name_char. now rewrite Hlast.
Qed.

Lemma target_system_chars s : target_system_ok s = true -> s <> [] /\ forallb name_char s = true.
Proof.
  unfold target_system_ok. rewrite !andl_spec. intros H.
  apply andb_true_iff in H as [H Hall]. apply andb_true_iff in H as [Hne _].
  split; [destruct s; [discriminate|discriminate]|].
  apply forallb_forall. intros x Hx. rewrite forallb_forall in Hall. specialize (Hall x Hx).
  unfold name_char, is_alnum, is_alpha. rewrite !orl_spec in *.
  apply orb_true_iff in Hall as [H1|H1]; rewrite H1; cbn; rewrite ?orb_true_r; reflexivity.
Qed.

Lemma name_char_facts : forall c, name_char c = true ->
  Ascii.eqb c slash = false /\ Ascii.eqb c c_qmark = false /\ Ascii.eqb c colon_c = false.
Proof.
  assert (H : forall c, (negb (name_char c) ||| (negb (Ascii.eqb c slash) &&& negb (Ascii.eqb c c_qmark) &&& negb (Ascii.eqb c colon_c))) = true).
  { apply Addr.UrlProofs.sweep. vm_compute. reflexivity. }
  intros c Hc. specialize (H c). rewrite Hc in H. cbn in H.
  destruct (Ascii.eqb c slash), (Ascii.eqb c c_qmark), (Ascii.eqb c colon_c); try discriminate; auto.
Qed.

Lemma name_chars_not_in s c :
  forallb name_char s = true -> (c = slash \/ c = c_qmark \/ c = colon_c) -> ~ In c s.
Proof.
  intros H Hc Hin. rewrite forallb_forall in H. destruct (name_char_facts c (H c Hin)) as (H1 & H2 & H3).
  destruct Hc as [-> | [-> | ->]]; rewrite Ascii.eqb_refl in *; discriminate.
Qed.

(* ---------- the printed package text ---------- *)
Lemma mpkg_string_join p : mpkg_string p = join_with slash [m_host p; m_ns p; m_name p; m_sys p].
Proof. reflexivity. Qed.

Lemma not_in_app3 c (a b d e : str) :
  ~ In c a -> ~ In c b -> ~ In c d -> ~ In c e -> c <> slash ->
  ~ In c (join_with slash [a; b; d; e]).
Proof.
  intros Ha Hb Hd He Hc H. cbn [join_with] in H.
  repeat (apply in_app_or in H as [H|H]; [contradiction|]; destruct H as [H|H]; [congruence|]).
  contradiction.
Qed.

Record pkg_facts (p : mpkg) : Prop := {
  pf_host : host_for_comparison (m_host p) = Ok (m_host p);
  pf_dot : mem_char dot (m_host p) = true;
  pf_res : reserved_host (m_host p) = false;
  pf_hslash : ~ In slash (m_host p);
  pf_hq : ~ In c_qmark (m_host p);
  pf_hcsf : csf (m_host p) = true;
  pf_hne : m_host p <> [];
  pf_ns : registry_name_ok (m_ns p) = true;
  pf_name : registry_name_ok (m_name p) = true;
  pf_sys : target_system_ok (m_sys p) = true }.

Lemma wf_mpkgb_facts p : wf_mpkgb p = true -> pkg_facts p.
Proof.
  unfold wf_mpkgb. rewrite !andl_spec, !andb_true_iff, !negb_true_iff.
  intros ((((((((H1 & H2) & H3) & H4) & H5) & H6) & H7) & H8) & H9).
  destruct (host_for_comparison (m_host p)) as [h| |] eqn:E; try discriminate.
  apply str_eqb_eq in H1. subst h.
  assert (Hne : m_host p <> []).
  { intros Hn. rewrite Hn in H2. discriminate. }
  constructor; auto.
  - intros Hin. apply mem_char_In in Hin. congruence.
  - intros Hin. apply mem_char_In in Hin. congruence.
Qed.

Lemma starts_slash_notin b : ~ In slash b -> starts_slash b = false.
Proof.
  destruct b as [|c r]; [reflexivity|]. cbn. intros H.
  destruct (Ascii.eqb_spec c slash) as [->|]; [exfalso; apply H; now left|reflexivity].
Qed.

Lemma mpkg_string_props p : pkg_facts p ->
  ~ In c_qmark (mpkg_string p) /\ csf (mpkg_string p) = true /\ nds (mpkg_string p) = true /\
  split_on slash (mpkg_string p) = [m_host p; m_ns p; m_name p; m_sys p].
Proof.
  intros F. destruct (registry_name_chars _ (pf_ns p F)) as [Hn1 Hc1].
  destruct (registry_name_chars _ (pf_name p F)) as [Hn2 Hc2].
  destruct (target_system_chars _ (pf_sys p F)) as [Hn3 Hc3].
  pose proof (fun c H => name_chars_not_in (m_ns p) c Hc1 H) as N1.
  pose proof (fun c H => name_chars_not_in (m_name p) c Hc2 H) as N2.
  pose proof (fun c H => name_chars_not_in (m_sys p) c Hc3 H) as N3.
  rewrite mpkg_string_join. split; [|split; [|split]].
  - apply not_in_app3; [exact (pf_hq p F)|apply N1|apply N2|apply N3|discriminate]; auto.
  - cbn [join_with].
    apply csf_app_slash_nocolon; [exact (pf_hcsf p F)|].
    intros H. apply in_app_or in H as [H|[H|H]]; [revert H; apply N1; auto|discriminate|].
    apply in_app_or in H as [H|[H|H]]; [revert H; apply N2; auto|discriminate|revert H; apply N3; auto].
  - cbn [join_with].
    assert (S3 : nds (m_sys p) = true) by (apply nds_noslash; [exact Hn3|apply N3; auto]).
    assert (S2 : nds (m_name p ++ slash :: m_sys p) = true).
    { apply nds_app_slash; [apply nds_noslash; [exact Hn2|apply N2; auto]|exact S3|exact Hn3|].
      apply starts_slash_notin, N3; auto. }
    assert (S1 : nds (m_ns p ++ slash :: m_name p ++ slash :: m_sys p) = true).
    { apply nds_app_slash; [apply nds_noslash; [exact Hn1|apply N1; auto]|exact S2| |].
      - destruct (m_name p); [congruence|discriminate].
      - destruct (m_name p) as [|c r]; [congruence|]. cbn.
        destruct (Ascii.eqb_spec c slash) as [->|]; [|reflexivity].
        exfalso. apply (N2 slash); [auto|now left]. }
    apply nds_app_slash; [apply nds_noslash; [exact (pf_hne p F)|exact (pf_hslash p F)]|exact S1| |].
    + destruct (m_ns p); [congruence|discriminate].
    + destruct (m_ns p) as [|c r]; [congruence|]. cbn.
      destruct (Ascii.eqb_spec c slash) as [->|]; [|reflexivity].
      exfalso. apply (N1 slash); [auto|now left].
  - apply split_join; [discriminate|].
    intros g [<-|[<-|[<-|[<-|[]]]]]; [exact (pf_hslash p F)|apply N1|apply N2|apply N3]; auto.
Qed.

(* regaddr.ParseModuleSource on a printed package *)
Lemma parse_module_source_printed p : pkg_facts p -> parse_module_source (mpkg_string p) = Ok (p, []).
Proof.
  intros F. destruct (mpkg_string_props p F) as (Hq & Hc & Hn & Hsp).
  unfold parse_module_source.
  rewrite (split_sub_none _ Hq (css_none_of_dslash_none _ (dslash_none _ Hn)) (dslash_none _ Hn)).
  cbn match. replace (has_prefix [] dotdotslash) with false by reflexivity.
  rewrite Hsp. cbn match. rewrite (pf_host p F). cbn [rbind]. rewrite (pf_dot p F). cbn [rbind].
  pose proof (pf_res p F) as Hr. unfold reserved_host in Hr. rewrite Hr.
  rewrite (pf_ns p F), (pf_name p F), (pf_sys p F). cbn. now destruct p.
Qed.

(* ---------- sub-paths ---------- *)
Lemma nds_join_plain segs :
  segs <> [] -> forallb seg_ok segs = true -> nds (join_with slash segs) = true.
Proof.
  induction segs as [|g segs IH]; [congruence|]. intros _ H. cbn in H. apply andb_true_iff in H as [Hg Hs].
  assert (Hgn : nds g = true).
  { apply nds_noslash; [apply plain_not_empty, seg_ok_plain, Hg|apply seg_ok_no_slash, Hg]. }
  destruct segs as [|h segs']; [exact Hgn|].
  change (join_with slash (g :: h :: segs')) with (g ++ slash :: join_with slash (h :: segs')).
  apply nds_app_slash; [exact Hgn|apply IH; [discriminate|exact Hs]| |].
  - cbn [join_with]. cbn in Hs. apply andb_true_iff in Hs as [Hh _].
    pose proof (plain_not_empty _ (seg_ok_plain _ Hh)). destruct segs'; destruct h; try congruence; discriminate.
  - cbn in Hs. apply andb_true_iff in Hs as [Hh _].
    pose proof (plain_not_empty _ (seg_ok_plain _ Hh)) as Hne. pose proof (seg_ok_no_slash _ Hh) as Hns.
    destruct h as [|c r]; [congruence|].
    assert (Hc : Ascii.eqb c slash = false).
    { destruct (Ascii.eqb_spec c slash) as [->|]; [exfalso; apply Hns; now left|reflexivity]. }
    destruct segs'; cbn; exact Hc.
Qed.

Lemma valid_sub_nds sub : valid_sub sub -> sub <> [] -> nds sub = true.
Proof.
  intros Hv Hne. pose proof (valid_sub_segs sub Hv) as Hs. unfold sub_segs in Hs.
  destruct sub as [|c s]; [congruence|]. rewrite <- (join_split slash (c :: s)).
  apply nds_join_plain; [apply split_on_nonempty|exact Hs].
Qed.

Lemma valid_sub_normalizes sub : valid_sub sub -> normalize_subpath sub = Some sub.
Proof.
  intros [->|[Hv Hd]]; [reflexivity|]. unfold normalize_subpath.
  destruct sub as [|c s]; [reflexivity|]. rewrite Hv, clean_valid_path by (assumption || discriminate).
  destruct (str_eqb_spec (c :: s) [dot]); [contradiction|reflexivity].
Qed.

(* ====================================================================== *)
(* C06, registry addresses                                                 *)
(* ====================================================================== *)
Theorem registry_round_trip p sub :
  wf_mpkgb p = true -> valid_sub sub -> ~ In c_qmark sub -> all_ascii sub = true ->
  parse_registry (registry_string p sub) = Ok (p, sub).
Proof.
  intros Hw Hv Hq Ha. pose proof (wf_mpkgb_facts p Hw) as F.
  destruct (mpkg_string_props p F) as (Hpq & Hpc & Hpn & _).
  unfold parse_registry, registry_string. destruct sub as [|c s].
  - rewrite (split_sub_none _ Hpq (css_none_of_dslash_none _ (dslash_none _ Hpn)) (dslash_none _ Hpn)).
    cbn [norm_sub all_ascii forallb normalize_subpath of_opt rbind].
    now rewrite (parse_module_source_printed p F).
  - change (mpkg_string p ++ [slash; slash] ++ c :: s) with (mpkg_string p ++ slash :: slash :: c :: s).
    rewrite (split_sub_printed _ _ Hpq Hq Hpc Hpn (dslash_none _ (valid_sub_nds _ Hv ltac:(discriminate)))).
    unfold norm_sub. rewrite Ha, (valid_sub_normalizes _ Hv). cbn [of_opt rbind].
    now rewrite (parse_module_source_printed p F).
Qed.

Corollary registry_pkg_round_trip p :
  wf_mpkgb p = true -> parse_registry_pkg (mpkg_string p) = Ok p.
Proof.
  intros Hw. unfold parse_registry_pkg.
  pose proof (registry_round_trip p [] Hw (or_introl eq_refl) (fun H => H) eq_refl) as H.
  cbn [registry_string] in H. now rewrite H.
Qed.

(* the default host and typical values are well formed *)
Example wf_examples :
  wf_mpkgb (mkMpkg default_host (s2l "hashicorp") (s2l "subnets") (s2l "cidr")) = true /\
  wf_mpkgb (mkMpkg (s2l "example.com:8080") (s2l "N-s_1") (s2l "n_a-me") (s2l "aws")) = true /\
  wf_mpkgb (mkMpkg (s2l "github.com") (s2l "a") (s2l "b") (s2l "c")) = false.
Proof. vm_compute. repeat split. Qed.
