(* Facts about the net/url model: escaping round trips (by a sweep over all
   256 byte values lifted to all strings by induction), and
   parse_query (encode_query l) = stable sort of l. *)
From Slug Require Import Base.Str Addr.Url.
From Coq Require Import Lia.

(* ---------- all byte values ---------- *)
Definition all_chars : list ascii := map (fun n => ch (N.of_nat n)) (seq 0 256).

Lemma in_all_chars c : In c all_chars.
Proof.
  unfold all_chars. apply in_map_iff. exists (N.to_nat (N_of_ascii c)). split.
  - unfold ch. rewrite N2Nat.id. apply ascii_N_embedding.
  - apply in_seq. pose proof (N_ascii_bounded c). lia.
Qed.

Lemma sweep (P : ascii -> bool) : forallb P all_chars = true -> forall c, P c = true.
Proof. intros H c. rewrite forallb_forall in H. apply H, in_all_chars. Qed.

(* ---------- query escaping ---------- *)
Definition esc1 (m : emode) (c : ascii) : str := escape m [c].

Lemma escape_cons m c r : escape m (c :: r) = esc1 m c ++ escape m r.
Proof.
  unfold esc1. cbn [escape]. destruct (should_escape c m); [|reflexivity].
  destruct (Ascii.eqb c c_space &&& match m with EQuery => true | _ => false end); reflexivity.
Qed.

Lemma escape_app m a b : escape m (a ++ b) = escape m a ++ escape m b.
Proof.
  induction a as [|c a IH]; [reflexivity|].
  cbn [app]. rewrite !escape_cons, IH. now rewrite app_assoc.
Qed.

(* one escaped byte, followed by anything, unescapes to that byte *)
Definition unesc1_ok (c : ascii) : bool :=
  match esc1 EQuery c with
  | [x] => negb (Ascii.eqb x c_pct) &&&
           (if Ascii.eqb x c_plus then Ascii.eqb c c_space else Ascii.eqb x c)
  | [p; h1; h2] => Ascii.eqb p c_pct &&& is_hex h1 &&& is_hex h2
                   &&& Ascii.eqb (ch (unhex h1 * 16 + unhex h2)) c
  | _ => false
  end.

Lemma unesc1_all : forall c, unesc1_ok c = true.
Proof. apply sweep. vm_compute. reflexivity. Qed.

Lemma unescape_esc1 c r :
  unescape EQuery (esc1 EQuery c ++ r) = option_map (cons c) (unescape EQuery r).
Proof.
  pose proof (unesc1_all c) as H. unfold unesc1_ok in H.
  destruct (esc1 EQuery c) as [|x [|h1 [|h2 [|? ?]]]]; try discriminate.
  - cbn [app]. cbn [unescape].
    destruct (Ascii.eqb x c_pct); [discriminate|]. cbn in H.
    destruct (Ascii.eqb x c_plus).
    + apply Ascii.eqb_eq in H. now subst.
    + apply Ascii.eqb_eq in H. now subst.
  - cbn [app]. cbn [unescape].
    destruct (Ascii.eqb x c_pct); [|discriminate].
    destruct (is_hex h1); [|discriminate]. destruct (is_hex h2); [|discriminate].
    cbn in H. apply Ascii.eqb_eq in H. now rewrite H.
Qed.

Theorem unescape_escape_query s : unescape EQuery (escape EQuery s) = Some s.
Proof.
  induction s as [|c s IH]; [reflexivity|].
  rewrite escape_cons, unescape_esc1, IH. reflexivity.
Qed.

(* escaped text contains no separator *)
Definition is_sep (c : ascii) : bool := Ascii.eqb c c_amp ||| Ascii.eqb c c_eq ||| Ascii.eqb c c_semi.

Lemma esc1_no_sep : forall c, forallb (fun x => negb (is_sep x)) (esc1 EQuery c) = true.
Proof. apply sweep. vm_compute. reflexivity. Qed.

Lemma escape_no_sep s : forallb (fun x => negb (is_sep x)) (escape EQuery s) = true.
Proof.
  induction s as [|c s IH]; [reflexivity|].
  rewrite escape_cons, forallb_app, esc1_no_sep, IH. reflexivity.
Qed.

Lemma no_sep_not s c : forallb (fun x => negb (is_sep x)) s = true -> is_sep c = true -> ~ In c s.
Proof.
  intros H Hc Hin. rewrite forallb_forall in H. specialize (H c Hin). now rewrite Hc in H.
Qed.

(* ---------- cutting ---------- *)
Lemma cut_char_app c a b : ~ In c a -> cut_char c (a ++ c :: b) = (a, b, true).
Proof.
  induction a as [|x a IH]; intros Hn; cbn.
  - now rewrite Ascii.eqb_refl.
  - destruct (Ascii.eqb_spec x c) as [->|_]; [exfalso; apply Hn; now left|].
    rewrite IH; [reflexivity|]. intros H. apply Hn. now right.
Qed.

Lemma cut_char_none c a : ~ In c a -> cut_char c a = (a, [], false).
Proof.
  induction a as [|x a IH]; intros Hn; cbn; [reflexivity|].
  destruct (Ascii.eqb_spec x c) as [->|_]; [exfalso; apply Hn; now left|].
  rewrite IH; [reflexivity|]. intros H. apply Hn. now right.
Qed.

(* ---------- parse_query after encode ---------- *)
Definition enc_pair (p : str * str) : str := escape EQuery (fst p) ++ c_eq :: escape EQuery (snd p).

Lemma encode_sorted_cons p r :
  encode_sorted (p :: r) = enc_pair p ++ (match r with [] => [] | _ => c_amp :: encode_sorted r end).
Proof. destruct p as [k v]. unfold enc_pair. cbn [encode_sorted fst snd]. now rewrite <- app_assoc. Qed.

Lemma enc_pair_no_amp p : ~ In c_amp (enc_pair p).
Proof.
  unfold enc_pair. intros H. apply in_app_or in H as [H|[H|H]].
  - revert H. apply no_sep_not; [apply escape_no_sep|reflexivity].
  - discriminate.
  - revert H. apply no_sep_not; [apply escape_no_sep|reflexivity].
Qed.

Lemma enc_pair_no_semi p : mem_char c_semi (enc_pair p) = false.
Proof.
  destruct (mem_char c_semi (enc_pair p)) eqn:E; [|reflexivity].
  apply mem_char_In in E. unfold enc_pair in E. apply in_app_or in E as [H|[H|H]].
  - exfalso. revert H. apply no_sep_not; [apply escape_no_sep|reflexivity].
  - discriminate.
  - exfalso. revert H. apply no_sep_not; [apply escape_no_sep|reflexivity].
Qed.

Lemma split_on_encode l :
  l <> [] -> split_on c_amp (encode_sorted l) = map enc_pair l.
Proof.
  induction l as [|p l IH]; [congruence|]. intros _.
  rewrite encode_sorted_cons. destruct l as [|q l].
  - rewrite app_nil_r. cbn [map]. apply split_on_no_sep, enc_pair_no_amp.
  - rewrite split_on_app_sep by apply enc_pair_no_amp.
    rewrite IH by discriminate. reflexivity.
Qed.

Lemma parse_query_segs_enc l : parse_query_segs (map enc_pair l) = (l, false).
Proof.
  induction l as [|p l IH]; [reflexivity|].
  cbn [map parse_query_segs]. rewrite IH, enc_pair_no_semi.
  assert (Hne : is_empty (enc_pair p) = false).
  { unfold enc_pair. destruct (escape EQuery (fst p)); reflexivity. }
  rewrite Hne. unfold cut1, enc_pair.
  rewrite cut_char_app by (apply no_sep_not; [apply escape_no_sep|reflexivity]).
  rewrite !unescape_escape_query. now destruct p.
Qed.

Theorem parse_encode_sorted l : parse_query (encode_sorted l) = (l, false).
Proof.
  destruct l as [|p l]; [reflexivity|].
  unfold parse_query.
  assert (Hne : encode_sorted (p :: l) <> []).
  { rewrite encode_sorted_cons. unfold enc_pair. destruct (escape EQuery (fst p)); discriminate. }
  destruct (encode_sorted (p :: l)) eqn:E; [congruence|]. rewrite <- E.
  rewrite split_on_encode by discriminate. apply parse_query_segs_enc.
Qed.

Corollary parse_encode_query l : parse_query (encode_query l) = (sort_pairs l, false).
Proof. apply parse_encode_sorted. Qed.

(* ---------- the stable sort keeps each key's values in order ---------- *)
Lemma str_ltb_irrefl a : str_ltb a a = false.
Proof.
  induction a as [|x a IH]; [reflexivity|]. cbn. now rewrite Ascii.eqb_refl.
Qed.

Lemma values_of_cons k p l :
  values_of k (p :: l) = if str_eqb (fst p) k then snd p :: values_of k l else values_of k l.
Proof. unfold values_of. cbn [filter]. now destruct (str_eqb (fst p) k). Qed.

Lemma values_of_ins k p l :
  values_of k (ins_pair p l) = values_of k (p :: l).
Proof.
  induction l as [|q l IH]; [reflexivity|].
  cbn [ins_pair]. destruct (str_ltb (fst q) (fst p)) eqn:E; [|reflexivity].
  rewrite (values_of_cons k q), IH, !values_of_cons.
  destruct (str_eqb (fst q) k) eqn:Eq; [|reflexivity].
  destruct (str_eqb (fst p) k) eqn:Ep; [|reflexivity].
  apply str_eqb_eq in Eq, Ep. rewrite Eq, Ep, str_ltb_irrefl in E. discriminate.
Qed.

Lemma values_of_sort k l : values_of k (sort_pairs l) = values_of k l.
Proof.
  induction l as [|p l IH]; [reflexivity|].
  unfold sort_pairs. cbn [fold_right]. fold (sort_pairs l). rewrite values_of_ins.
  rewrite !values_of_cons, IH. reflexivity.
Qed.

Lemma ins_pair_perm_len p l : length (ins_pair p l) = S (length l).
Proof. induction l as [|q l IH]; [reflexivity|]. cbn. destruct (str_ltb _ _); cbn; now rewrite ?IH. Qed.
