(* Model of the part of Go's net/url (go1.23) that sourceaddrs relies on:
   url.Parse, URL.String, URL.EscapedPath, url.ParseQuery, Values.Encode and
   the escaping functions, over byte strings.  Everything is modelled
   bytewise exactly as the Go code works, with one exclusion: hosts written as
   IP literals ("[...]"), for which the model answers Out (not modelled). *)
From Slug Require Import Base.Str.

Inductive res (A : Type) := Ok (a : A) | Rej | Out.
Arguments Ok {A} a. Arguments Rej {A}. Arguments Out {A}.

Definition rbind {A B} (x : res A) (f : A -> res B) : res B :=
  match x with Ok a => f a | Rej => Rej | Out => Out end.
Notation "'do' x <- e ; f" := (rbind e (fun x => f)) (at level 200, x pattern, e at level 100, f at level 200, right associativity).
Definition of_opt {A} (o : option A) : res A := match o with Some a => Ok a | None => Rej end.

(* ---------- characters ---------- *)
Definition cn (c : ascii) : N := N_of_ascii c.
Definition in_range (lo hi : N) (c : ascii) : bool := N.leb lo (cn c) &&& N.leb (cn c) hi.
Definition is_lower (c : ascii) := in_range 97 122 c.
Definition is_upper (c : ascii) := in_range 65 90 c.
Definition is_alpha (c : ascii) := is_lower c ||| is_upper c.
Definition is_digit (c : ascii) := in_range 48 57 c.
Definition is_alnum (c : ascii) := is_alpha c ||| is_digit c.
Definition is_ctl (c : ascii) : bool := N.ltb (cn c) 32 ||| N.eqb (cn c) 127.
Definition is_ascii_char (c : ascii) : bool := N.ltb (cn c) 128.
Definition one_of (s : string) (c : ascii) : bool := mem_char c (s2l s).

Definition c_colon : ascii := ":"%char.
Definition c_qmark : ascii := "?"%char.
Definition c_hash : ascii := "#"%char.
Definition c_at : ascii := "@"%char.
Definition c_pct : ascii := "%"%char.
Definition c_plus : ascii := "+"%char.
Definition c_amp : ascii := "&"%char.
Definition c_eq : ascii := "="%char.
Definition c_semi : ascii := ";"%char.
Definition c_space : ascii := " "%char.
Definition c_lbr : ascii := "["%char.
Definition c_nl : ascii := ch 10.

(* ---------- cutting strings ---------- *)
(* strings.Cut(s, c) for a one-byte separator: (before, after, found) *)
Fixpoint cut_char (c : ascii) (s : str) : str * str * bool :=
  match s with
  | [] => ([], [], false)
  | x :: r => if Ascii.eqb x c then ([], r, true)
              else let '(a, b, f) := cut_char c r in (x :: a, b, f)
  end.
Definition cut1 (c : ascii) (s : str) : str * str := let '(a, b, _) := cut_char c s in (a, b).

Fixpoint count_char (c : ascii) (s : str) : nat :=
  match s with [] => 0 | x :: r => (if Ascii.eqb x c then 1 else 0) + count_char c r end.

(* strings.LastIndex(s, c): the part before and after the last c *)
Definition cut_last (c : ascii) (s : str) : option (str * str) :=
  let '(b, a, f) := cut_char c (rev s) in
  if f then Some (rev a, rev b) else None.

(* ---------- escaping ---------- *)
Inductive emode := EPath | EHost | EQuery | EFrag | EUser.

Definition should_escape (c : ascii) (m : emode) : bool :=
  if is_alnum c then false
  else if (match m with EHost => one_of "!$&'()*+,;=:[]<>""" c | _ => false end) then false
  else if one_of "-_.~" c then false
  else if one_of "$&+,/:;=?@" c then
    match m with
    | EPath => Ascii.eqb c c_qmark
    | EUser => one_of "@/?:" c
    | EQuery => true
    | EFrag => false
    | EHost => true
    end
  else match m with
       | EFrag => negb (one_of "!()*" c)
       | _ => true
       end.

Definition is_hex (c : ascii) : bool := is_digit c ||| in_range 97 102 c ||| in_range 65 70 c.
Definition unhex (c : ascii) : N :=
  if is_digit c then cn c - 48
  else if in_range 97 102 c then cn c - 97 + 10
  else if in_range 65 70 c then cn c - 65 + 10 else 0.
Definition hex_digit (n : N) : ascii := if N.ltb n 10 then ch (48 + n) else ch (55 + n).

(* url.unescape: None = error *)
Fixpoint unescape (m : emode) (s : str) : option str :=
  match s with
  | [] => Some []
  | c :: r =>
      if Ascii.eqb c c_pct then
        match r with
        | h1 :: h2 :: r' =>
            if is_hex h1 &&& is_hex h2 then
              if (match m with EHost => true | _ => false end)
                 &&& N.ltb (unhex h1) 8
                 &&& negb (Ascii.eqb h1 "2"%char &&& Ascii.eqb h2 "5"%char) then None
              else option_map (cons (ch (unhex h1 * 16 + unhex h2))) (unescape m r')
            else None
        | _ => None
        end
      else if Ascii.eqb c c_plus then
        option_map (cons (match m with EQuery => c_space | _ => c_plus end)) (unescape m r)
      else if (match m with EHost => true | _ => false end) &&& is_ascii_char c &&& should_escape c m then None
      else option_map (cons c) (unescape m r)
  end.

(* url.escape *)
Fixpoint escape (m : emode) (s : str) : str :=
  match s with
  | [] => []
  | c :: r =>
      if should_escape c m then
        if Ascii.eqb c c_space &&& (match m with EQuery => true | _ => false end) then c_plus :: escape m r
        else c_pct :: hex_digit (cn c / 16) :: hex_digit (cn c mod 16) :: escape m r
      else c :: escape m r
  end.

(* url.validEncoded *)
Definition valid_encoded (m : emode) (s : str) : bool :=
  forallb (fun c => one_of "!$&'()*+,;=:@[]%" c ||| negb (should_escape c m)) s.

(* ---------- the URL value ---------- *)
Record url := mkUrl {
  u_scheme : str; u_opaque : str; u_user : bool; u_host : str;
  u_path : str; u_rawpath : str; u_omit_host : bool; u_forceq : bool;
  u_query : str; u_frag : str; u_rawfrag : str }.

Definition empty_url : url := mkUrl [] [] false [] [] [] false false [] [] [].

Definition set_path (u : url) (p : str) : option url :=
  match unescape EPath p with
  | None => None
  | Some path =>
      let raw := if str_eqb (escape EPath path) p then [] else p in
      Some (mkUrl (u_scheme u) (u_opaque u) (u_user u) (u_host u) path raw
                  (u_omit_host u) (u_forceq u) (u_query u) (u_frag u) (u_rawfrag u))
  end.

Definition set_fragment (u : url) (f : str) : option url :=
  match unescape EFrag f with
  | None => None
  | Some frag =>
      let raw := if str_eqb (escape EFrag frag) f then [] else f in
      Some (mkUrl (u_scheme u) (u_opaque u) (u_user u) (u_host u) (u_path u) (u_rawpath u)
                  (u_omit_host u) (u_forceq u) (u_query u) frag raw)
  end.

(* url.getScheme *)
Inductive gs := GsNone | GsErr | GsAt (pre rest : str).
Fixpoint gs_go (first : bool) (pre_rev : str) (s : str) : gs :=
  match s with
  | [] => GsNone
  | c :: r =>
      if is_alpha c then gs_go false (c :: pre_rev) r
      else if is_digit c ||| one_of "+-." c then
        if first then GsNone else gs_go false (c :: pre_rev) r
      else if Ascii.eqb c c_colon then
        if first then GsErr else GsAt (rev pre_rev) r
      else GsNone
  end.

Definition valid_optional_port (p : str) : bool :=
  match p with
  | [] => true
  | c :: r => Ascii.eqb c c_colon &&& forallb is_digit r
  end.

(* url.parseHost (IP literals are not modelled) *)
Definition parse_host (h : str) : res str :=
  match h with
  | c :: _ => if Ascii.eqb c c_lbr then Out else
      let port_ok := match cut_last c_colon h with
                     | Some (_, p) => forallb is_digit p
                     | None => true
                     end in
      if port_ok then of_opt (unescape EHost h) else Rej
  | [] => Ok []
  end.

(* url.validUserinfo *)
Definition valid_userinfo (s : str) : bool :=
  forallb (fun c => is_alnum c ||| one_of "-._:~!$&'()*+,;=%@" c) s.

(* url.parseAuthority: the model keeps only whether user information is present *)
Definition parse_authority (a : str) : res (bool * str) :=
  match cut_last c_at a with
  | None => do h <- parse_host a; Ok (false, h)
  | Some (ui, hp) =>
      do h <- parse_host hp;
      if valid_userinfo ui then
        let '(un, pw, _) := cut_char c_colon ui in
        match unescape EUser un, unescape EUser pw with
        | Some _, Some _ => Ok (true, h)
        | _, _ => Rej
        end
      else Rej
  end.

(* url.parse(rawURL, viaRequest = false) *)
Definition url_parse_nofrag (raw : str) : res url :=
  if existsb is_ctl raw then Rej
  else if str_eqb raw (s2l "*") then Ok (mkUrl [] [] false [] (s2l "*") [] false false [] [] [])
  else
    match gs_go true [] raw with
    | GsErr => Rej
    | g =>
        let '(scheme, rest) := match g with GsAt p r => (to_lower p, r) | _ => ([], raw) end in
        let '(rest, forceq, query) :=
          if has_suffix rest [c_qmark] &&& Nat.eqb (count_char c_qmark rest) 1
          then (removelast rest, true, [])
          else let '(a, b) := cut1 c_qmark rest in (a, false, b) in
        let rooted := has_prefix rest [slash] in
        if negb rooted &&& negb (is_empty scheme) then
          Ok (mkUrl scheme rest false [] [] [] false forceq query [] [])
        else if negb rooted &&& mem_char c_colon (fst (cut1 slash rest)) then Rej
        else
          let with_auth := (negb (is_empty scheme) ||| negb (has_prefix rest [slash; slash; slash]))
                           &&& has_prefix rest [slash; slash] in
          do (user, host, rest, omit) <-
             (if with_auth then
                let a := skipn 2 rest in
                let '(authority, rest') :=
                  match index_byte slash a with
                  | Some i => (firstn i a, skipn i a)
                  | None => (a, [])
                  end in
                do (user, host) <- parse_authority authority; Ok (user, host, rest', false)
              else Ok (false, [], rest, negb (is_empty scheme) &&& rooted));
          of_opt (set_path (mkUrl scheme [] user host [] [] omit forceq query [] []) rest)
    end.

(* url.Parse *)
Definition url_parse (raw : str) : res url :=
  let '(u, frag, _) := cut_char c_hash raw in
  do v <- url_parse_nofrag u;
  match frag with
  | [] => Ok v
  | _ => of_opt (set_fragment v frag)
  end.

(* URL.EscapedPath / EscapedFragment *)
Definition escaped_path (u : url) : str :=
  let via_raw :=
    match u_rawpath u with
    | [] => None
    | rp => if valid_encoded EPath rp then
              match unescape EPath rp with
              | Some p => if str_eqb p (u_path u) then Some rp else None
              | None => None
              end
            else None
    end in
  match via_raw with
  | Some rp => rp
  | None => if str_eqb (u_path u) (s2l "*") then s2l "*" else escape EPath (u_path u)
  end.

Definition escaped_fragment (u : url) : str :=
  let via_raw :=
    match u_rawfrag u with
    | [] => None
    | rf => if valid_encoded EFrag rf then
              match unescape EFrag rf with
              | Some f => if str_eqb f (u_frag u) then Some rf else None
              | None => None
              end
            else None
    end in
  match via_raw with Some rf => rf | None => escape EFrag (u_frag u) end.

(* URL.String; user information never reaches printing in sourceaddrs (values
   with user information are rejected), so the model prints none *)
Definition url_string (u : url) : str :=
  let sch := match u_scheme u with [] => [] | s => s ++ [c_colon] end in
  let body :=
    match u_opaque u with
    | _ :: _ => sch ++ u_opaque u
    | [] =>
        let auth :=
          if negb (is_empty (u_scheme u)) ||| negb (is_empty (u_host u)) ||| u_user u then
            if u_omit_host u &&& is_empty (u_host u) &&& negb (u_user u) then []
            else (if negb (is_empty (u_host u)) ||| negb (is_empty (u_path u)) ||| u_user u
                  then [slash; slash] else [])
                 ++ escape EHost (u_host u)
          else [] in
        let path := escaped_path u in
        let sep := match path with
                   | c :: _ => if negb (Ascii.eqb c slash) &&& negb (is_empty (u_host u)) then [slash] else []
                   | [] => []
                   end in
        let buf := sch ++ auth ++ sep in
        let dotfix := if is_empty buf &&& mem_char c_colon (fst (cut1 slash path)) then [dot; slash] else [] in
        buf ++ dotfix ++ path
    end in
  body
  ++ (if u_forceq u ||| negb (is_empty (u_query u)) then c_qmark :: u_query u else [])
  ++ (match u_frag u with [] => [] | _ => c_hash :: escaped_fragment u end).

(* ---------- query strings ---------- *)
(* url.parseQuery: the pairs in order of appearance, and whether an error was met *)
Fixpoint parse_query_segs (segs : list str) : list (str * str) * bool :=
  match segs with
  | [] => ([], false)
  | seg :: more =>
      let '(ps, e) := parse_query_segs more in
      if mem_char c_semi seg then (ps, true)
      else if is_empty seg then (ps, e)
      else let '(k, v) := cut1 c_eq seg in
           match unescape EQuery k, unescape EQuery v with
           | Some k', Some v' => ((k', v') :: ps, e)
           | _, _ => (ps, true)
           end
  end.
Definition parse_query (q : str) : list (str * str) * bool :=
  match q with [] => ([], false) | _ => parse_query_segs (split_on c_amp q) end.

(* Values.Encode: keys sorted bytewise, the values of one key in order of appearance:
   a stable insertion sort by key *)
Fixpoint ins_pair (p : str * str) (l : list (str * str)) : list (str * str) :=
  match l with
  | [] => [p]
  | q :: r => if str_ltb (fst q) (fst p) then q :: ins_pair p r else p :: l
  end.
Definition sort_pairs (l : list (str * str)) : list (str * str) := fold_right ins_pair [] l.

Fixpoint encode_sorted (l : list (str * str)) : str :=
  match l with
  | [] => []
  | (k, v) :: r =>
      escape EQuery k ++ c_eq :: escape EQuery v ++ (match r with [] => [] | _ => c_amp :: encode_sorted r end)
  end.
Definition encode_query (l : list (str * str)) : str := encode_sorted (sort_pairs l).

Definition values_of (k : str) (l : list (str * str)) : list str :=
  map snd (filter (fun p => str_eqb (fst p) k) l).
