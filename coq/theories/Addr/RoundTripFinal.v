(* C06 for final registry addresses (package @ version [// sub-path]): decimal
   printing and reading of version numbers are inverse, a printed version parses
   back, the "last @" split finds the version that was printed, and the whole
   printed address parses back to the value - for sub-paths without '@', '?' and
   newline (the '@' case is known finding KF-C06-4). *)
From Slug Require Import Base.Str Base.PathAlg Base.PathLemmas Base.Search Addr.Resolve Addr.ResolveProofs
  Addr.Url Addr.UrlProofs Addr.Parse Addr.ParseProofs Addr.RoundTrip.
From Coq Require Import Lia ZArith.

(* ---------- decimal digits ---------- *)
Definition dv_from (a : N) (s : str) : N := fold_left (fun acc c => (acc * 10 + (cn c - 48))%N) s a.

Lemma digits_val_dv s : digits_val s = dv_from 0 s.
Proof. reflexivity. Qed.

Lemma dv_app a s t : dv_from a (s ++ t) = dv_from (dv_from a s) t.
Proof. unfold dv_from. apply fold_left_app. Qed.

Lemma cn_digit k : (k < 10)%N -> cn (ch (48 + k)) = (48 + k)%N.
Proof. intros H. unfold cn, ch. apply N_ascii_embedding. lia. Qed.

Lemma is_digit_ch k : (k < 10)%N -> is_digit (ch (48 + k)) = true.
Proof.
  intros H. unfold is_digit, in_range. rewrite cn_digit by exact H.
  rewrite andl_spec. apply andb_true_iff. split; apply N.leb_le; lia.
Qed.

Lemma dec_digits_S f n acc :
  dec_digits (S f) n acc =
  if N.ltb n 10 then ch (48 + n mod 10) :: acc else dec_digits f (n / 10) (ch (48 + n mod 10) :: acc).
Proof. reflexivity. Qed.

Lemma dec_digits_spec : forall f n acc, (n < 10 ^ N.of_nat (S f))%N ->
  exists ds, dec_digits (S f) n acc = ds ++ acc /\ ds <> [] /\ forallb is_digit ds = true /\
             forall a, dv_from a ds = (a * 10 ^ N.of_nat (length ds) + n)%N.
Proof.
  induction f as [|f IH]; intros n acc Hn.
  - assert (Hlt : (n < 10)%N) by (cbn in Hn; lia).
    exists [ch (48 + n mod 10)]. rewrite dec_digits_S. apply N.ltb_lt in Hlt. rewrite Hlt. apply N.ltb_lt in Hlt.
    rewrite N.mod_small by exact Hlt.
    split; [reflexivity|]. split; [discriminate|]. split; [cbn [forallb]; now rewrite is_digit_ch|].
    intros a. unfold dv_from. cbn [fold_left length]. rewrite cn_digit by exact Hlt.
    change (N.of_nat 1) with 1%N. rewrite N.pow_1_r. lia.
  - rewrite dec_digits_S. destruct (N.ltb_spec n 10) as [Hlt|Hge].
    + exists [ch (48 + n mod 10)]. rewrite N.mod_small by exact Hlt.
      split; [reflexivity|]. split; [discriminate|]. split; [cbn [forallb]; now rewrite is_digit_ch|].
      intros a. unfold dv_from. cbn [fold_left length]. rewrite cn_digit by exact Hlt.
      change (N.of_nat 1) with 1%N. rewrite N.pow_1_r. lia.
    + assert (Hq : (n / 10 < 10 ^ N.of_nat (S f))%N).
      { apply N.div_lt_upper_bound; [lia|].
        replace (N.of_nat (S (S f))) with (N.succ (N.of_nat (S f))) in Hn by lia.
        rewrite N.pow_succ_r' in Hn. exact Hn. }
      set (d := ch (48 + n mod 10)).
      destruct (IH (n / 10)%N (d :: acc) Hq) as (ds & Heq & Hne & Hdig & Hval).
      exists (ds ++ [d]). split; [rewrite Heq, <- app_assoc; reflexivity|].
      split; [destruct ds; discriminate|]. split.
      * rewrite forallb_app, Hdig. cbn [forallb andb]. unfold d. rewrite is_digit_ch; [reflexivity|].
        apply N.mod_lt. lia.
      * intros a. rewrite dv_app, Hval. unfold dv_from at 1. cbn [fold_left]. unfold d. rewrite cn_digit by (apply N.mod_lt; lia).
        rewrite app_length. cbn [length]. replace (N.of_nat (length ds + 1)) with (N.succ (N.of_nat (length ds))) by lia.
        rewrite N.pow_succ_r'. pose proof (N.div_mod n 10 ltac:(lia)) as Hdm.
        set (X := (10 ^ N.of_nat (length ds))%N). replace (a * (10 * X))%N with ((a * X) * 10)%N by ring.
        set (Y := (a * X)%N). clearbody Y. clearbody X.
        set (q := (n / 10)%N) in *. set (r := (n mod 10)%N) in *. clearbody q r. lia.
Qed.

Lemma print_N_spec n :
  print_N n <> [] /\ forallb is_digit (print_N n) = true /\ digits_val (print_N n) = n.
Proof.
  unfold print_N.
  assert (Hn : (n < 10 ^ N.of_nat (S (N.to_nat (N.log2 n))))%N).
  { replace (N.of_nat (S (N.to_nat (N.log2 n)))) with (N.succ (N.log2 n)) by lia.
    destruct (N.eq_dec n 0) as [->|Hz]; [cbn; lia|].
    pose proof (N.log2_spec n ltac:(lia)) as [_ Hs].
    eapply N.lt_le_trans; [exact Hs|]. apply N.pow_le_mono_l. lia. }
  destruct (dec_digits_spec _ n [] Hn) as (ds & Heq & Hne & Hdig & Hval).
  rewrite Heq, app_nil_r. split; [exact Hne|]. split; [exact Hdig|].
  rewrite digits_val_dv, Hval. lia.
Qed.

(* ---------- spans ---------- *)
Lemma span_app_stop (f : ascii -> bool) a b :
  forallb f a = true -> (match b with [] => true | c :: _ => negb (f c) end = true) ->
  span f (a ++ b) = (a, b).
Proof.
  intros Ha Hb. induction a as [|x a IH]; cbn [app].
  - destruct b as [|c b']; [reflexivity|]. cbn. apply negb_true_iff in Hb. now rewrite Hb.
  - cbn in Ha. apply andb_true_iff in Ha as [Hx Ha]. cbn [span]. rewrite Hx, (IH Ha). reflexivity.
Qed.

(* ---------- versions ---------- *)
Definition wf_version (v : version) : bool :=
  N.leb (v_major v) max_u64 &&& N.leb (v_minor v) max_u64 &&& N.leb (v_patch v) max_u64
  &&& forallb is_extra_char (v_pre v) &&& forallb is_extra_char (v_meta v).

Definition num_or_dot (c : ascii) : bool := is_digit c ||| Ascii.eqb c dot.

Lemma sweep_imp (P Q : ascii -> bool) :
  forallb (fun c => implb (P c) (Q c)) all_chars = true -> forall c, P c = true -> Q c = true.
Proof. intros H c Hc. pose proof (sweep _ H c) as Hi. cbn beta in Hi. now rewrite Hc in Hi. Qed.

Definition digit_props (c : ascii) : bool :=
  num_or_dot c && negb (Ascii.eqb c dot) && negb (Ascii.eqb c slash) && negb (Ascii.eqb c c_at)
  && negb (Ascii.eqb c c_nl) && is_extra_char c.

Lemma digit_facts c : is_digit c = true ->
  num_or_dot c = true /\ Ascii.eqb c dot = false /\ Ascii.eqb c slash = false /\ Ascii.eqb c c_at = false
  /\ Ascii.eqb c c_nl = false /\ is_extra_char c = true.
Proof.
  intros Hc. assert (H : digit_props c = true).
  { revert c Hc. apply sweep_imp. vm_compute. reflexivity. }
  unfold digit_props in H. rewrite !andb_true_iff, !negb_true_iff in H. tauto.
Qed.

Definition extra_props (c : ascii) : bool :=
  negb (Ascii.eqb c slash) && negb (Ascii.eqb c c_at) && negb (Ascii.eqb c c_nl) && negb (Ascii.eqb c c_plus).

Lemma extra_facts c : is_extra_char c = true ->
  Ascii.eqb c slash = false /\ Ascii.eqb c c_at = false /\ Ascii.eqb c c_nl = false /\ Ascii.eqb c c_plus = false.
Proof.
  intros Hc. assert (H : extra_props c = true).
  { revert c Hc. apply sweep_imp. vm_compute. reflexivity. }
  unfold extra_props in H. rewrite !andb_true_iff, !negb_true_iff in H. tauto.
Qed.

Lemma forallb_imp (f g : ascii -> bool) s : (forall c, f c = true -> g c = true) -> forallb f s = true -> forallb g s = true.
Proof. intros H. induction s as [|c s IH]; cbn; [auto|]. intros Hs. apply andb_true_iff in Hs as [H1 H2]. now rewrite (H c H1), (IH H2). Qed.

Lemma forallb_notin (f : ascii -> bool) s c : forallb f s = true -> f c = false -> ~ In c s.
Proof. intros H Hc Hin. rewrite forallb_forall in H. rewrite (H c Hin) in Hc. discriminate. Qed.

(* the suffix of a printed version: "-pre" and "+meta" when present *)
Definition ver_tail (v : version) : str :=
  (match v_pre v with [] => [] | e => hyphen :: e end) ++ (match v_meta v with [] => [] | e => c_plus :: e end).

Lemma version_string_eq v :
  version_string v = join_with dot [print_N (v_major v); print_N (v_minor v); print_N (v_patch v)] ++ ver_tail v.
Proof.
  unfold version_string, ver_tail. cbn [join_with]. rewrite <- !app_assoc. cbn [app]. rewrite <- !app_assoc. reflexivity.
Qed.

Theorem parse_version_printed v : wf_version v = true -> parse_version (version_string v) = Some v.
Proof.
  unfold wf_version. rewrite !andl_spec, !andb_true_iff. intros ((((H1 & H2) & H3) & Hpre) & Hmeta).
  apply N.leb_le in H1, H2, H3.
  destruct (print_N_spec (v_major v)) as (A1 & A2 & A3).
  destruct (print_N_spec (v_minor v)) as (B1 & B2 & B3).
  destruct (print_N_spec (v_patch v)) as (C1 & C2 & C3).
  set (M := print_N (v_major v)) in *. set (m := print_N (v_minor v)) in *. set (p := print_N (v_patch v)) in *.
  rewrite version_string_eq. fold M m p. unfold parse_version.
  (* the numeric part *)
  assert (Hnd : forall s, forallb is_digit s = true -> forallb num_or_dot s = true).
  { intros s. apply forallb_imp. intros c Hc. now destruct (digit_facts c Hc). }
  assert (Hnodot : forall s, forallb is_digit s = true -> ~ In dot s).
  { intros s Hs. apply (forallb_notin is_digit); [exact Hs|reflexivity]. }
  assert (Hnums : forallb num_or_dot (join_with dot [M; m; p]) = true).
  { cbn [join_with]. rewrite forallb_app. cbn [forallb]. rewrite forallb_app. cbn [forallb].
    replace (num_or_dot dot) with true by reflexivity.
    now rewrite (Hnd M A2), (Hnd m B2), (Hnd p C2). }
  assert (Htail : match ver_tail v with [] => true | c :: _ => negb (num_or_dot c) end = true).
  { unfold ver_tail. destruct (v_pre v); [destruct (v_meta v)|]; reflexivity. }
  change (fun c : ascii => is_digit c ||| Ascii.eqb c dot) with num_or_dot.
  rewrite (span_app_stop num_or_dot _ _ Hnums Htail).
  assert (Hsplit : split_on dot (join_with dot [M; m; p]) = [M; m; p]).
  { apply split_join; [discriminate|]. intros g [<-|[<-|[<-|[]]]]; auto. }
  rewrite Hsplit. cbn [last length Nat.ltb Nat.leb].
  assert (Hpe : is_empty p = false) by (destruct p; [congruence|reflexivity]).
  assert (HMe : is_empty M = false) by (destruct M; [congruence|reflexivity]).
  assert (Hme : is_empty m = false) by (destruct m; [congruence|reflexivity]).
  rewrite Hpe. replace (is_empty (ver_tail v) &&& false &&& true) with false by (destruct (is_empty (ver_tail v)); reflexivity).
  assert (Hje : is_empty (join_with dot [M; m; p]) = false) by (cbn [join_with]; destruct M; [congruence|reflexivity]).
  rewrite Hje. cbn [existsb]. rewrite HMe, Hme, Hpe. cbn match.
  rewrite A3, B3, C3.
  replace (N.ltb max_u64 (v_major v)) with false by (symmetry; apply N.ltb_ge; exact H1).
  replace (N.ltb max_u64 (v_minor v)) with false by (symmetry; apply N.ltb_ge; exact H2).
  replace (N.ltb max_u64 (v_patch v)) with false by (symmetry; apply N.ltb_ge; exact H3).
  cbn match. cbn [nth]. rewrite A3, B3, C3.
  (* the suffix *)
  assert (Hplus : negb (is_extra_char c_plus) = true) by reflexivity.
  unfold ver_tail. destruct v as [vM vm vp pre meta]. cbn [v_pre v_meta v_major v_minor v_patch] in *.
  destruct pre as [|c0 pre0].
  - cbn [app]. destruct meta as [|d0 meta0]; [reflexivity|].
    cbn match. change (Ascii.eqb c_plus hyphen) with false. cbn match.
    rewrite Ascii.eqb_refl.
    rewrite <- (app_nil_r (d0 :: meta0)) at 1. rewrite (span_app_stop is_extra_char _ [] Hmeta eq_refl).
    reflexivity.
  - cbn [app]. rewrite Ascii.eqb_refl. destruct meta as [|d0 meta0].
    + rewrite app_nil_r. rewrite <- (app_nil_r (c0 :: pre0)) at 1.
      rewrite (span_app_stop is_extra_char _ [] Hpre eq_refl). reflexivity.
    + change (c0 :: pre0 ++ c_plus :: d0 :: meta0) with ((c0 :: pre0) ++ c_plus :: d0 :: meta0).
      rewrite (span_app_stop is_extra_char (c0 :: pre0) (c_plus :: d0 :: meta0) Hpre Hplus).
      cbn match. rewrite Ascii.eqb_refl.
      rewrite <- (app_nil_r (d0 :: meta0)) at 1. rewrite (span_app_stop is_extra_char _ [] Hmeta eq_refl).
      reflexivity.
Qed.

(* ---------- the "last @" split ---------- *)
Lemma final_split_go_skip t : forall rest after,
  ~ In c_at t -> final_split_go (rev t ++ rest) after = final_split_go rest (t ++ after).
Proof.
  induction t as [|c t IH] using rev_ind; intros rest after Hn; [reflexivity|].
  rewrite rev_app_distr. cbn [rev app].
  assert (Hc : Ascii.eqb c c_at = false).
  { destruct (Ascii.eqb_spec c c_at) as [->|]; [exfalso; apply Hn, in_or_app; right; now left|reflexivity]. }
  cbn [final_split_go]. rewrite Hc. cbn match.
  rewrite IH by (intros H; apply Hn, in_or_app; now left).
  now rewrite <- app_assoc.
Qed.

Lemma tail_ok_version ver sub :
  ver <> [] -> ~ In slash ver ->
  ~ In c_nl sub ->
  tail_ok (ver ++ match sub with [] => [] | _ => slash :: slash :: sub end) = Some (ver, sub).
Proof.
  intros Hne Hs Hnl. unfold tail_ok.
  assert (Hall : forallb (fun c => negb (Ascii.eqb c slash)) ver = true).
  { apply forallb_forall. intros x Hx. apply negb_true_iff.
    destruct (Ascii.eqb_spec x slash) as [->|]; [contradiction|reflexivity]. }
  destruct sub as [|c s].
  - rewrite (span_app_stop _ ver [] Hall eq_refl). destruct ver; [congruence|reflexivity].
  - rewrite (span_app_stop _ ver (slash :: slash :: c :: s) Hall eq_refl).
    destruct ver as [|v0 vr]; [congruence|]. rewrite !Ascii.eqb_refl. cbn match.
    destruct (mem_char c_nl (c :: s)) eqn:E; [apply mem_char_In in E; contradiction|reflexivity].
Qed.

Lemma final_split_printed pre ver sub :
  pre <> [] -> ~ In c_nl pre -> ver <> [] -> ~ In slash ver -> ~ In c_at ver ->
  ~ In c_at sub -> ~ In c_nl sub ->
  final_split (pre ++ c_at :: ver ++ match sub with [] => [] | _ => slash :: slash :: sub end) = Some (pre, ver, sub).
Proof.
  intros Hp Hpn Hv Hvs Hva Hsa Hsn. unfold final_split.
  set (tail := ver ++ match sub with [] => [] | _ => slash :: slash :: sub end).
  assert (Hta : ~ In c_at tail).
  { unfold tail. intros H. apply in_app_or in H as [H|H]; [contradiction|].
    destruct sub; [destruct H|]. destruct H as [H|[H|H]]; try discriminate. contradiction. }
  rewrite rev_app_distr. cbn [rev]. rewrite <- app_assoc. cbn [app].
  rewrite (final_split_go_skip tail (c_at :: rev pre) [] Hta). rewrite app_nil_r.
  cbn [final_split_go]. rewrite Ascii.eqb_refl.
  assert (H1 : is_empty (rev pre) = false).
  { destruct pre as [|x pre'] using rev_ind; [congruence|]. rewrite rev_app_distr. reflexivity. }
  assert (H2 : mem_char c_nl (rev pre) = false).
  { destruct (mem_char c_nl (rev pre)) eqn:E; [|reflexivity].
    apply mem_char_In, in_rev in E. contradiction. }
  rewrite H1, H2. cbn match. unfold tail. rewrite (tail_ok_version ver sub Hv Hvs Hsn).
  now rewrite rev_involutive.
Qed.

(* ---------- the printed version text ---------- *)
Lemma version_string_chars v : wf_version v = true ->
  version_string v <> [] /\ ~ In slash (version_string v) /\ ~ In c_at (version_string v) /\ ~ In c_nl (version_string v).
Proof.
  unfold wf_version. rewrite !andl_spec, !andb_true_iff. intros ((_ & Hpre) & Hmeta).
  assert (Hall : forallb (fun c => is_extra_char c ||| Ascii.eqb c c_plus) (version_string v) = true).
  { assert (Hd : forall n, forallb (fun c => is_extra_char c ||| Ascii.eqb c c_plus) (print_N n) = true).
    { intros n. destruct (print_N_spec n) as (_ & Hdig & _). revert Hdig. apply forallb_imp.
      intros c Hc. destruct (digit_facts c Hc) as (_ & _ & _ & _ & _ & He). now rewrite He. }
    assert (He : forall s, forallb is_extra_char s = true -> forallb (fun c => is_extra_char c ||| Ascii.eqb c c_plus) s = true).
    { intros s. apply forallb_imp. intros c Hc. now rewrite Hc. }
    assert (Hcons : forall (g : ascii -> bool) c s, g c = true -> forallb g s = true -> forallb g (c :: s) = true).
    { intros g c s H1 H2. cbn. now rewrite H1, H2. }
    unfold version_string. rewrite !forallb_app, !Hd.
    assert (Hdot : forallb (fun c => is_extra_char c ||| Ascii.eqb c c_plus) [dot] = true) by reflexivity.
    rewrite !Hdot. cbn [andb].
    assert (Hp : forallb (fun c => is_extra_char c ||| Ascii.eqb c c_plus)
                   (match v_pre v with [] => [] | e => hyphen :: e end) = true).
    { destruct (v_pre v) as [|a r]; [reflexivity|]. apply Hcons; [reflexivity|now apply He]. }
    assert (Hm : forallb (fun c => is_extra_char c ||| Ascii.eqb c c_plus)
                   (match v_meta v with [] => [] | e => c_plus :: e end) = true).
    { destruct (v_meta v) as [|a r]; [reflexivity|]. apply Hcons; [reflexivity|now apply He]. }
    now rewrite Hp, Hm. }
  assert (Hnot : forall c, (is_extra_char c ||| Ascii.eqb c c_plus) = false -> ~ In c (version_string v)).
  { intros c Hc. apply (forallb_notin _ _ c Hall). exact Hc. }
  split; [|split; [|split]]; try (apply Hnot; reflexivity).
  unfold version_string. destruct (print_N_spec (v_major v)) as (Hne & _). destruct (print_N (v_major v)); [congruence|discriminate].
Qed.

(* ---------- parse_registry on "pkg//" (what ParseFinalRegistrySource builds for an empty sub-path) ---------- *)
Lemma parse_registry_trailing p : wf_mpkgb p = true ->
  parse_registry (mpkg_string p ++ [slash; slash]) = Ok (p, []).
Proof.
  intros Hw. pose proof (wf_mpkgb_facts p Hw) as F.
  destruct (mpkg_string_props p F) as (Hpq & Hpc & Hpn & _).
  unfold parse_registry. change (mpkg_string p ++ [slash; slash]) with (mpkg_string p ++ slash :: slash :: []).
  rewrite (split_sub_printed _ [] Hpq (fun H => H) Hpc Hpn eq_refl).
  cbn [norm_sub all_ascii forallb normalize_subpath of_opt rbind].
  now rewrite (parse_module_source_printed p F).
Qed.

Lemma mpkg_string_chars p : wf_mpkgb p = true -> ~ In c_nl (m_host p) ->
  mpkg_string p <> [] /\ ~ In c_nl (mpkg_string p).
Proof.
  intros Hw Hh. pose proof (wf_mpkgb_facts p Hw) as F.
  destruct (registry_name_chars _ (pf_ns p F)) as [_ Hc1].
  destruct (registry_name_chars _ (pf_name p F)) as [_ Hc2].
  destruct (target_system_chars _ (pf_sys p F)) as [_ Hc3].
  assert (Hn : forall s, forallb name_char s = true -> ~ In c_nl s).
  { intros s Hs. apply (forallb_notin name_char); [exact Hs|reflexivity]. }
  split.
  - unfold mpkg_string. pose proof (pf_hne p F). destruct (m_host p); [congruence|discriminate].
  - rewrite mpkg_string_join. apply not_in_app3; auto. discriminate.
Qed.

(* ====================================================================== *)
(* C06, final registry addresses                                           *)
(* ====================================================================== *)
Theorem final_registry_round_trip p v sub :
  wf_mpkgb p = true -> ~ In c_nl (m_host p) -> wf_version v = true ->
  valid_sub sub -> ~ In c_qmark sub -> ~ In c_at sub -> ~ In c_nl sub -> all_ascii sub = true ->
  parse_final_registry (final_registry_string p v sub) = Ok (p, v, sub).
Proof.
  intros Hw Hh Hv Hs Hq Ha Hn Hasc.
  destruct (version_string_chars v Hv) as (V1 & V2 & V3 & V4).
  destruct (mpkg_string_chars p Hw Hh) as (P1 & P2).
  unfold parse_final_registry, final_parts, final_registry_string.
  replace (mpkg_string p ++ [c_at] ++ version_string v ++ match sub with [] => [] | _ :: _ => [slash; slash] ++ sub end)
    with (mpkg_string p ++ c_at :: version_string v ++ match sub with [] => [] | _ => slash :: slash :: sub end)
    by (destruct sub; reflexivity).
  rewrite (final_split_printed _ _ _ P1 P2 V1 V2 V3 Ha Hn).
  rewrite (parse_version_printed v Hv).
  destruct sub as [|c s].
  - rewrite app_nil_r. rewrite (parse_registry_trailing p Hw). reflexivity.
  - pose proof (registry_round_trip p (c :: s) Hw Hs Hq Hasc) as Hr. unfold registry_string in Hr.
    rewrite Hr. reflexivity.
Qed.
