(* C07, converse direction, the shorthand forms: "github.com/org/repo[/sub...]" and
   "gitlab.com/org/repo[/sub...]" are accepted, as git over https, ".git" added to
   the repository unless the URL already ends in "git", the rest taken as sub-path. *)
From Slug Require Import Base.Str Base.PathAlg Base.PathLemmas Base.Search Addr.Resolve Addr.ResolveProofs
  Addr.Url Addr.UrlProofs Addr.Parse Addr.ParseProofs Addr.RoundTrip Addr.RemoteParse Addr.RemoteTheorems.
From Coq Require Import Lia.

Definition name_ok (s : str) : Prop := seg_ok s = true /\ plainb EPath s = true.

Definition shorthand_text (host org repo sub : str) : str :=
  host ++ slash :: org ++ slash :: repo ++ (match sub with [] => [] | _ => slash :: sub end).

Definition shorthand_repo (host org repo : str) : str :=
  if has_suffix (s2l "https://" ++ join_with slash [host; org; repo]) git_suffix then repo else repo ++ s2l ".git".

Lemma seg_ok_facts s : seg_ok s = true -> s <> [] /\ ~ In slash s.
Proof. intros H. split; [apply plain_not_empty, seg_ok_plain, H|apply seg_ok_no_slash, H]. Qed.

Lemma shorthand_parts host org repo sub :
  ~ In slash host -> ~ In slash org -> ~ In slash repo ->
  split_on slash (shorthand_text host org repo sub)
  = [host; org; repo] ++ (match sub with [] => [] | _ => split_on slash sub end).
Proof.
  intros Hh Ho Hr. unfold shorthand_text.
  rewrite (split_on_app_sep slash host _ Hh), (split_on_app_sep slash org _ Ho).
  destruct sub as [|c s].
  - rewrite app_nil_r, (split_on_no_sep _ _ Hr). reflexivity.
  - rewrite (split_on_app_sep slash repo _ Hr). reflexivity.
Qed.

Lemma shorthand_for_hit hs host org repo sub :
  host = s2l hs -> ~ In slash host -> ~ In slash org -> ~ In slash repo ->
  shorthand_for hs (shorthand_text host org repo sub)
  = Ok (Some (remote_text s_git s_https host (slash :: org ++ slash :: shorthand_repo host org repo) sub [])).
Proof.
  intros Eh Hh Ho Hr. unfold shorthand_for. rewrite <- Eh.
  assert (Hpre : has_prefix (shorthand_text host org repo sub) (host ++ [slash]) = true).
  { apply has_prefix_spec. eexists. unfold shorthand_text. rewrite <- app_assoc. reflexivity. }
  rewrite Hpre, (shorthand_parts host org repo sub Hh Ho Hr).
  unfold shorthand_repo.
  assert (Hnorm : forall a b : str, a = b -> @Ok (option str) (Some a) = Ok (Some b)) by (intros a b ->; reflexivity).
  destruct sub as [|c s].
  - cbn [length Nat.ltb Nat.leb app firstn].
    destruct (has_suffix _ git_suffix); apply Hnorm; unfold remote_text, type_prefix, s_git, s_https, css, sub_part, query_part;
      cbn [join_with]; rewrite ?app_nil_r; repeat (progress (rewrite <- ?app_assoc; cbn [app s2l])); reflexivity.
  - pose proof (split_on_nonempty slash (c :: s)) as Hne.
    set (T := split_on slash (c :: s)) in *.
    assert (HT : join_with slash T = c :: s) by apply join_split.
    clearbody T. destruct T as [|t T']; [congruence|].
    cbn [length app Nat.ltb Nat.leb firstn skipn]. rewrite HT.
    destruct (has_suffix _ git_suffix); apply Hnorm; unfold remote_text, type_prefix, s_git, s_https, css, sub_part, query_part;
      cbn [join_with]; rewrite ?app_nil_r; repeat (progress (rewrite <- ?app_assoc; cbn [app s2l])); reflexivity.
Qed.

Lemma expand_shorthand_hosted host org repo sub :
  (host = s2l "github.com" \/ host = s2l "gitlab.com") -> ~ In slash org -> ~ In slash repo ->
  expand_shorthand (shorthand_text host org repo sub)
  = Ok (remote_text s_git s_https host (slash :: org ++ slash :: shorthand_repo host org repo) sub []).
Proof.
  intros Hh Ho Hr. unfold expand_shorthand.
  assert (Hns : ~ In slash host) by (destruct Hh as [-> | ->]; intros H; vm_compute in H; repeat (destruct H as [H|H]; [discriminate|]); destruct H).
  destruct Hh as [Hh|Hh].
  - rewrite (shorthand_for_hit "github.com" host org repo sub Hh Hns Ho Hr). cbn [rbind].
    replace (shorthand_for "gitlab.com" (shorthand_text host org repo sub)) with (@Ok (option str) None)
      by (subst host; reflexivity).
    reflexivity.
  - replace (shorthand_for "github.com" (shorthand_text host org repo sub)) with (@Ok (option str) None)
      by (subst host; reflexivity).
    cbn [rbind]. rewrite (shorthand_for_hit "gitlab.com" host org repo sub Hh Hns Ho Hr). reflexivity.
Qed.

Lemma parse_remote_of_expansion given expanded :
  expand_shorthand given = Ok expanded -> expand_shorthand expanded = Ok expanded ->
  parse_remote given = parse_remote expanded.
Proof. intros H1 H2. unfold parse_remote. now rewrite H1, H2. Qed.

(* the shorthand is accepted, with the documented meaning *)
Theorem shorthand_accepted host org repo sub :
  (host = s2l "github.com" \/ host = s2l "gitlab.com") ->
  name_ok org -> name_ok repo ->
  valid_sub sub -> plainb EPath sub = true -> all_ascii sub = true ->
  parse_remote (shorthand_text host org repo sub)
  = Ok (mkPkg s_git (parsed_url s_https host (slash :: org ++ slash :: shorthand_repo host org repo) []), sub).
Proof.
  intros Hh [Ho1 Ho2] [Hr1 Hr2] Hv Hsp Hsa.
  destruct (seg_ok_facts _ Ho1) as [Hone Hons]. destruct (seg_ok_facts _ Hr1) as [Hrne Hrns].
  set (repo' := shorthand_repo host org repo).
  assert (Hr' : seg_ok repo' = true /\ plainb EPath repo' = true).
  { unfold repo', shorthand_repo. destruct (has_suffix _ git_suffix); [split; assumption|]. split.
    - unfold seg_ok. apply andb_true_iff. split.
      + destruct repo as [|r0 [|r1 [|r2 rr]]]; [congruence| | |]; unfold plain, is_dot, is_dotdot; cbn;
          repeat match goal with |- context [Ascii.eqb ?a ?b] => destruct (Ascii.eqb a b) end; reflexivity.
      + apply negb_true_iff. destruct (mem_char slash (repo ++ s2l ".git")) eqn:E; [|reflexivity].
        apply mem_char_In in E. apply in_app_or in E as [E|E]; [contradiction|].
        vm_compute in E. repeat (destruct E as [E|E]; [discriminate|]). destruct E.
    - unfold plainb in *. rewrite forallb_app, Hr2. reflexivity. }
  destruct Hr' as [Hr1' Hr2']. destruct (seg_ok_facts _ Hr1') as [Hrne' Hrns'].
  assert (Hparts : parts_ok s_git s_https host (slash :: org ++ slash :: repo') sub []).
  { constructor; try reflexivity; try assumption.
    - destruct Hh as [-> | ->]; reflexivity.
    - destruct Hh as [-> | ->]; reflexivity.
    - destruct Hh as [-> | ->]; reflexivity.
    - unfold plainb in *. cbn [forallb]. rewrite forallb_app. cbn [forallb]. rewrite Ho2, Hr2'. reflexivity.
    - change (host ++ slash :: org ++ slash :: repo') with (join_with slash [host; org; repo']).
      apply nds_join_plain; [discriminate|]. cbn [forallb]. rewrite Ho1, Hr1'.
      destruct Hh as [-> | ->]; reflexivity.
    - intros []. }
  pose proof (expand_shorthand_hosted host org repo sub Hh Hons Hrns) as Hexp. fold repo' in Hexp.
  assert (Hfix : expand_shorthand (remote_text s_git s_https host (slash :: org ++ slash :: repo') sub [])
                 = Ok (remote_text s_git s_https host (slash :: org ++ slash :: repo') sub [])).
  { unfold expand_shorthand, shorthand_for, remote_text, type_prefix, s_git, s_https. cbn [s2l app]. reflexivity. }
  rewrite (parse_remote_of_expansion _ _ Hexp Hfix).
  apply grammar_git_accepted; [exact Hparts|reflexivity|now left|now left].
Qed.

Definition shorthand_example_check : bool :=
  match parse_remote (s2l "github.com/hashicorp/go-slug/modules/x"), parse_remote (s2l "gitlab.com/a/legit") with
  | Ok (p, sub), Ok (q, sub') =>
      str_eqb (remote_string p sub) (s2l "git::https://github.com/hashicorp/go-slug.git//modules/x")
      &&& str_eqb (remote_string q sub') (s2l "git::https://gitlab.com/a/legit")
  | _, _ => false
  end.
Example shorthand_examples : shorthand_example_check = true.
Proof. vm_compute. reflexivity. Qed.
