(* Theorems about the sourceaddrs model: every route into a remote address
   value enforces the transport policy (C07); printed addresses parse back
   (C06) - see the statements for the exact scope. *)
From Slug Require Import Base.Str Base.PathAlg Base.PathLemmas Addr.Resolve Addr.ResolveProofs
  Addr.Url Addr.UrlProofs Addr.Parse Addr.Policy.
From Coq Require Import Lia.

(* ---------- sub-paths ---------- *)
Lemma clean_valid_path s : valid_path s = true -> s <> [] -> clean s = s.
Proof.
  intros Hv Hne. destruct (str_eq_dec s [dot]) as [->|Hd]; [reflexivity|].
  assert (Hs : valid_sub s) by (right; split; assumption).
  rewrite clean_den; [|assumption|now apply valid_sub_not_rooted].
  rewrite den_valid_sub by assumption.
  unfold print_nf, sub_segs. destruct s as [|c s]; [congruence|].
  cbn [repeat app]. rewrite rev_involutive.
  pose proof (split_on_nonempty slash (c :: s)).
  destruct (split_on slash (c :: s)) eqn:E; [congruence|]. rewrite <- E. apply join_split.
Qed.

Lemma normalize_subpath_valid s c : normalize_subpath s = Some c -> valid_sub c.
Proof.
  unfold normalize_subpath. destruct s as [|x s]; [intros [= <-]; now left|].
  destruct (valid_path (x :: s)) eqn:Hv; [|discriminate].
  rewrite clean_valid_path by (assumption || discriminate).
  destruct (str_eqb_spec (x :: s) [dot]); [discriminate|].
  intros [= <-]. right. split; assumption.
Qed.

Lemma valid_sub_ok c : valid_sub c -> sub_path_ok c = true.
Proof.
  intros [->|[Hv Hd]]; [reflexivity|]. unfold sub_path_ok. rewrite orl_spec.
  apply orb_true_iff. right. apply valid_path_plain; assumption.
Qed.

Lemma norm_sub_ok s c : norm_sub s = Ok c -> sub_path_ok c = true.
Proof.
  unfold norm_sub. destruct (all_ascii s); [|discriminate].
  destruct (normalize_subpath s) eqn:E; [|discriminate]. intros [= <-].
  eapply valid_sub_ok, normalize_subpath_valid; eassumption.
Qed.

(* ---------- the per-type URL rules establish the policy ---------- *)
Lemma prepare_git_policy u u' : prepare_git u = Some u' -> u' = u /\ git_policy u = true.
Proof.
  unfold prepare_git, git_policy.
  destruct (str_eqb (u_scheme u) s_ssh) eqn:E1, (str_eqb (u_scheme u) s_https) eqn:E2; cbn;
    try discriminate;
    destruct (forallb _ _); cbn; try discriminate;
    destruct (Nat.leb _ 1); cbn; try discriminate; intros [= <-]; auto.
Qed.

Lemma values_of_set_archive qs : values_of s_archive (set_archive_tgz qs) = [s_tgz].
Proof.
  unfold set_archive_tgz. rewrite values_of_cons. cbn [fst snd]. rewrite str_eqb_refl.
  f_equal. unfold values_of. induction qs as [|p qs IH]; [reflexivity|].
  cbn [filter]. destruct (str_eqb (fst p) s_archive) eqn:E; cbn [negb]; [exact IH|].
  cbn [filter]. now rewrite E.
Qed.

Lemma values_of_set_archive_other k qs :
  str_eqb s_archive k = false -> values_of k (set_archive_tgz qs) = values_of k qs.
Proof.
  intros Hk. unfold set_archive_tgz. rewrite values_of_cons. cbn [fst]. rewrite Hk.
  unfold values_of. induction qs as [|p qs IH]; [reflexivity|].
  cbn [filter]. destruct (str_eqb (fst p) s_archive) eqn:E; cbn [negb].
  - apply str_eqb_eq in E. rewrite E, Hk. exact IH.
  - cbn [filter]. destruct (str_eqb (fst p) k); cbn [map]; now rewrite IH.
Qed.

Lemma escaped_path_with_query u q : escaped_path (with_query u q) = escaped_path u.
Proof. reflexivity. Qed.

Lemma prepare_http_policy u u' : prepare_http u = Some u' -> archive_policy u' = true /\ u_user u' = u_user u.
Proof.
  unfold prepare_http, archive_policy.
  destruct (str_eqb (u_scheme u) s_https) eqn:Es; cbn [negb]; [|discriminate].
  set (qs := fst (parse_query (u_query u))).
  destruct (values_of s_archive qs) as [|v [|v2 vs]] eqn:Ea.
  - (* by suffix *)
    destruct (has_suffix (escaped_path u) (s2l ".tar.gz") ||| has_suffix (escaped_path u) (s2l ".tgz")) eqn:Ep;
      [|discriminate].
    destruct (values_of s_checksum qs) eqn:Ec; [|discriminate]. intros [= <-].
    fold qs. rewrite Es, Ec, Ea, Ep. auto.
  - destruct (str_eqb_spec v s_targz) as [->|Hn].
    + destruct (values_of s_checksum qs) eqn:Ec; [|discriminate]. intros [= <-].
      cbn [u_query with_query u_scheme u_user]. rewrite Es, parse_encode_query. cbn [fst].
      rewrite !values_of_sort, values_of_set_archive, values_of_set_archive_other, Ec by reflexivity.
      rewrite str_eqb_refl. auto.
    + destruct (str_eqb_spec v s_tgz) as [->|Hn2]; [|discriminate].
      destruct (values_of s_checksum qs) eqn:Ec; [|discriminate]. intros [= <-].
      cbn [u_query with_query u_scheme u_user]. rewrite Es, parse_encode_query. cbn [fst].
      rewrite !values_of_sort, Ea, Ec, str_eqb_refl. auto.
  - discriminate.
Qed.

Theorem make_remote_policy typ u sub p sub' :
  make_remote typ u sub = Ok (p, sub') ->
  u_user u = false -> sub_path_ok sub = true -> policy_ok p sub' = true.
Proof.
  unfold make_remote, policy_ok. intros H Hu Hs.
  destruct (str_eqb typ s_git) eqn:Eg.
  - destruct (prepare_git u) as [u'|] eqn:Ep; [|discriminate]. injection H as <- <-.
    apply prepare_git_policy in Ep as [-> Hg].
    cbn [p_url p_type]. now rewrite Hu, Hs, Eg, Hg.
  - destruct (str_eqb typ s_http ||| str_eqb typ s_https) eqn:Eh; [|discriminate].
    destruct (prepare_http u) as [u'|] eqn:Ep; [|discriminate]. injection H as <- <-.
    apply prepare_http_policy in Ep as [Ha Hu'].
    cbn [p_url p_type]. rewrite Hu', Hu, Hs, Eg, Ha.
    destruct (str_eqb typ s_http), (str_eqb typ s_https); cbn in *; congruence.
Qed.

(* ParseRemoteSource *)
Theorem parse_remote_policy s p sub : parse_remote s = Ok (p, sub) -> policy_ok p sub = true.
Proof.
  unfold parse_remote. destruct (expand_shorthand s) as [e| |]; cbn [rbind]; try discriminate.
  destruct (split_sub_path e) as [pkg_raw sub_raw].
  destruct (norm_sub sub_raw) as [sub0| |] eqn:En; cbn [rbind]; try discriminate.
  destruct (match type_split pkg_raw with Some (t, r) => (t, r) | None => ([], pkg_raw) end) as [typ raw].
  destruct (url_parse raw) as [u| |]; cbn [rbind]; try discriminate.
  destruct (is_empty (u_scheme u)); [discriminate|].
  destruct (u_user u) eqn:Eu; [discriminate|].
  destruct (negb (is_empty (to_lower typ)) &&& str_eqb (to_lower typ) (u_scheme u)); [discriminate|].
  destruct (snd (parse_query (u_query u))); [discriminate|].
  intros H. eapply make_remote_policy; eauto using norm_sub_ok.
Qed.

(* MakeRemoteSource *)
Theorem make_remote_source_policy typ u sub p sub' :
  make_remote_source typ u sub = Ok (p, sub') -> policy_ok p sub' = true.
Proof.
  unfold make_remote_source. destruct (norm_sub sub) as [s0| |] eqn:En; cbn [rbind]; try discriminate.
  destruct (u_user u) eqn:Eu; [discriminate|].
  intros H. eapply make_remote_policy; eauto using norm_sub_ok.
Qed.

Theorem parse_remote_pkg_policy s p : parse_remote_pkg s = Ok p -> policy_ok p [] = true.
Proof.
  unfold parse_remote_pkg. destruct (parse_remote s) as [[p0 sub]| |] eqn:E; cbn [rbind]; try discriminate.
  destruct sub; [|discriminate]. intros [= <-]. now apply parse_remote_policy in E.
Qed.

Theorem parse_source_policy s p sub : parse_source s = Ok (ARemote p sub) -> policy_ok p sub = true.
Proof.
  unfold parse_source.
  destruct (negb (outer_ascii s)); [discriminate|].
  destruct (has_outer_space s); [discriminate|].
  destruct (is_empty s); [discriminate|].
  destruct (is_local_form s); [destruct (parse_local s); discriminate|].
  destruct (looks_like_registry s) as [[|]| |]; cbn [rbind]; try discriminate.
  - destruct (parse_registry s) as [[? ?]| |]; cbn [rbind]; discriminate.
  - destruct (parse_remote s) as [[p0 s0]| |] eqn:E; cbn [rbind]; try discriminate.
    intros [= <- <-]. now apply parse_remote_policy in E.
Qed.

Theorem parse_final_source_policy s p sub : parse_final_source s = Ok (ARemote p sub) -> policy_ok p sub = true.
Proof.
  unfold parse_final_source.
  destruct (negb (outer_ascii s)); [discriminate|].
  destruct (has_outer_space s); [discriminate|].
  destruct (is_empty s); [discriminate|].
  destruct (is_local_form s); [destruct (parse_local s); discriminate|].
  destruct (looks_like_final_registry s) as [[|]| |]; cbn [rbind]; try discriminate.
  - destruct (parse_final_registry s) as [[[? ?] ?]| |]; cbn [rbind]; discriminate.
  - destruct (parse_remote s) as [[p0 s0]| |] eqn:E; cbn [rbind]; try discriminate.
    intros [= <- <-]. now apply parse_remote_policy in E.
Qed.

(* ====================================================================== *)
(* C06, local addresses                                                   *)
(* ====================================================================== *)

(* a parsed local address is its own text: printing returns what was parsed *)
Theorem parse_local_is_text s r : parse_local s = Some r -> r = s.
Proof.
  unfold parse_local. destruct (mem_char colon s || mem_char backslash s); [discriminate|].
  destruct (negb (looks_like_local s) && negb (str_eqb s [dot]) && negb (str_eqb s [dot; dot])); [discriminate|].
  match goal with |- (if str_eqb ?c s then _ else _) = _ -> _ => destruct (str_eqb_spec c s) as [E|]; [|discriminate] end.
  intros [= <-]. exact E.
Qed.

Corollary parse_local_round_trip s r : parse_local s = Some r -> parse_local r = Some r.
Proof. intros H. pose proof (parse_local_is_text _ _ H) as ->. exact H. Qed.

(* characters of a cleaned path come from the path, "." or "/" *)
Section CleanChars.
  Variable P : ascii -> bool.
  Hypothesis Pdot : P dot = true.
  Hypothesis Pslash : P slash = true.

  Definition segsP (l : list str) : Prop := Forall (fun g => forallb P g = true) l.

  Lemma in_join c g segs x : In g segs -> In x g -> In x (join_with c segs).
  Proof.
    induction segs as [|a segs IH]; [intros []|].
    intros [->|Hg] Hx.
    - destruct segs; cbn; [exact Hx|]. apply in_or_app. now left.
    - destruct segs as [|b segs]; [destruct Hg|].
      cbn [join_with]. apply in_or_app. right. right. now apply IH.
  Qed.

  Lemma split_segsP s : forallb P s = true -> segsP (split_on slash s).
  Proof.
    intros H. apply Forall_forall. intros g Hg. apply forallb_forall. intros x Hx.
    rewrite forallb_forall in H. apply H. rewrite <- (join_split slash s).
    eapply in_join; eassumption.
  Qed.

  Lemma join_segsP segs : segsP segs -> forallb P (join_with slash segs) = true.
  Proof.
    induction segs as [|a segs IH]; [reflexivity|]. intros H. inversion H as [|? ? Ha Hs]; subst.
    destruct segs as [|b segs]; [exact Ha|].
    cbn [join_with]. rewrite forallb_app, Ha. cbn [forallb]. rewrite Pslash. now apply IH.
  Qed.

  Lemma nstep_segsP r st g : segsP (snd st) -> forallb P g = true -> segsP (snd (nstep r st g)).
  Proof.
    destruct st as [u rn]. unfold nstep. intros H Hg.
    destruct (is_empty g || is_dot g); [exact H|].
    destruct (is_dotdot g).
    - destruct rn; [destruct r; constructor|]. cbn. now inversion H.
    - cbn. now constructor.
  Qed.

  Lemma nrun_segsP r segs st : segsP (snd st) -> segsP segs -> segsP (snd (nrun r st segs)).
  Proof.
    revert st. induction segs as [|g segs IH]; intros st H Hs; [exact H|].
    inversion Hs; subst. cbn. apply IH; [now apply nstep_segsP|assumption].
  Qed.

  Lemma print_nf_chars r st : segsP (snd st) -> forallb P (print_nf r st) = true.
  Proof.
    destruct st as [u rn]. cbn [snd]. intros H. unfold print_nf.
    assert (Hs : segsP (repeat seg_dotdot u ++ rev rn)).
    { apply Forall_app. split.
      - apply Forall_forall. intros g Hg. apply repeat_spec in Hg as ->. cbn. now rewrite Pdot.
      - apply Forall_rev. exact H. }
    destruct r.
    - cbn [forallb]. rewrite Pslash. now apply join_segsP.
    - destruct (repeat seg_dotdot u ++ rev rn) eqn:E; [cbn; now rewrite Pdot|].
      now apply join_segsP.
  Qed.

  Lemma clean_chars s : forallb P s = true -> forallb P (clean s) = true.
  Proof.
    intros H. unfold clean. destruct s as [|c s]; [cbn; now rewrite Pdot|].
    apply print_nf_chars, nrun_segsP; [constructor|now apply split_segsP].
  Qed.

  Lemma join2_chars a b : forallb P a = true -> forallb P b = true -> forallb P (join2 a b) = true.
  Proof.
    intros Ha Hb. unfold join2. destruct a as [|c a].
    - destruct b; [reflexivity|now apply clean_chars].
    - assert (forallb P ((c :: a) ++ slash :: b) = true).
      { rewrite forallb_app, Ha. cbn. now rewrite Pslash. }
      destruct b; now apply clean_chars.
  Qed.
End CleanChars.

Definition local_char (c : ascii) : bool := negb (Ascii.eqb colon c) && negb (Ascii.eqb backslash c).

Lemma local_chars_spec s :
  forallb local_char s = true <-> mem_char colon s || mem_char backslash s = false.
Proof.
  unfold mem_char. induction s as [|c s IH]; [cbn; tauto|].
  cbn [forallb existsb]. unfold local_char at 1.
  destruct (Ascii.eqb colon c), (Ascii.eqb backslash c); cbn; rewrite ?orb_true_r; try tauto;
    try (split; discriminate).
Qed.

(* the canonical spelling of a cleaned relative path *)
Definition local_fix (n : str) : str :=
  if str_eqb n [dot] || str_eqb n [dot; dot] then n ++ [slash]
  else if looks_like_local n then n else dotslash ++ n.

Lemma parse_local_fix n :
  n <> [] -> is_rooted n = false -> clean n = n -> forallb local_char n = true ->
  parse_local (local_fix n) = Some (local_fix n).
Proof.
  intros Hne Hr Hc Hch. unfold local_fix.
  destruct (str_eqb_spec n [dot]) as [->|Hd]; [reflexivity|].
  destruct (str_eqb_spec n [dot; dot]) as [->|Hdd]; [reflexivity|]. cbn [orb].
  apply local_chars_spec in Hch.
  destruct (looks_like_local n) eqn:El.
  - unfold parse_local. rewrite Hch, El. cbn [negb andb]. rewrite Hc.
    apply str_eqb_neq in Hd, Hdd. now rewrite Hd, Hdd, El, str_eqb_refl.
  - unfold parse_local.
    assert (Hch' : mem_char colon (dotslash ++ n) || mem_char backslash (dotslash ++ n) = false).
    { apply local_chars_spec. cbn. now apply local_chars_spec. }
    rewrite Hch'. assert (Hl : looks_like_local (dotslash ++ n) = true) by reflexivity.
    rewrite Hl. cbn [negb andb].
    assert (Hcl : clean (dotslash ++ n) = n).
    { rewrite clean_den by (discriminate || reflexivity).
      change (dotslash ++ n) with (dot :: slash :: n). rewrite den_dot_slash.
      rewrite <- clean_den by assumption. exact Hc. }
    rewrite Hcl. apply str_eqb_neq in Hd, Hdd. now rewrite Hd, Hdd, El, str_eqb_refl.
Qed.

(* every LocalSource value satisfies this *)
Definition local_ok (a : str) : Prop := parse_local a = Some a.

Lemma local_ok_facts a : local_ok a -> rel_ok a /\ forallb local_char a = true.
Proof.
  unfold local_ok, parse_local. intros H.
  destruct (mem_char colon a || mem_char backslash a) eqn:E; [discriminate|].
  split; [|now apply local_chars_spec].
  destruct (negb (looks_like_local a) && negb (str_eqb a [dot]) && negb (str_eqb a [dot; dot])) eqn:E2; [discriminate|].
  destruct a as [|c a]; [discriminate|]. split; [discriminate|].
  cbn. destruct (Ascii.eqb_spec c slash) as [->|]; [|reflexivity]. discriminate.
Qed.

(* ResolveRelativeSource on two local addresses yields a canonical local address *)
Theorem resolve_local_canonical a b :
  local_ok a -> local_ok b -> local_ok (resolve_local a b).
Proof.
  intros Ha Hb. apply local_ok_facts in Ha as [Hra Hca], Hb as [Hrb Hcb].
  unfold local_ok. change (resolve_local a b) with (local_fix (join2 a b)).
  pose proof (join2_nonrooted a b Hra Hrb) as Hj.
  set (st := nrun false (den a) (split_on slash b)) in *.
  assert (Hok : st_ok st) by (apply nrun_ok; [apply den_ok|apply split_segs_noslash]).
  apply parse_local_fix.
  - rewrite Hj. now apply print_nf_nonempty.
  - rewrite Hj. now apply print_nf_not_rooted.
  - rewrite Hj. rewrite clean_den; [|now apply print_nf_nonempty|now apply print_nf_not_rooted].
    now rewrite den_print.
  - apply join2_chars; (reflexivity || assumption).
Qed.
