(* Proofs about relative resolution (property C11). *)
From Slug Require Import Base.Str Base.PathAlg Base.PathLemmas Addr.Resolve.

(* ---------- the specification: a segment stack machine ---------- *)
(* stack: most recent name first.  None = climbed above the package root. *)
Fixpoint apply_segs (stack : list str) (segs : list str) : option (list str) :=
  match segs with
  | [] => Some stack
  | g :: r =>
      if is_empty g || is_dot g then apply_segs stack r
      else if is_dotdot g then
        match stack with
        | [] => None
        | _ :: st' => apply_segs st' r
        end
      else apply_segs (g :: stack) r
  end.

Definition print_sub (rn : list str) : str := join_with slash (rev rn).

Definition sub_segs (sub : str) : list str :=
  match sub with [] => [] | _ => split_on slash sub end.

(* a valid sub-path: empty (package root) or fs.ValidPath and not "." *)
Definition valid_sub (sub : str) : Prop :=
  sub = [] \/ (valid_path sub = true /\ sub <> [dot]).

(* a well-formed relative path string, as held by every LocalSource *)
Definition rel_ok (b : str) : Prop := b <> [] /\ is_rooted b = false.

(* ---------- nrun vs apply_segs ---------- *)
Lemma nstep_ups_mono st g : fst st <= fst (nstep false st g).
Proof.
  destruct st as [u rn]. unfold nstep.
  destruct (is_empty g || is_dot g); [cbn; lia|].
  destruct (is_dotdot g); [destruct rn; cbn; lia|cbn; lia].
Qed.

Lemma nrun_ups_mono segs st : fst st <= fst (nrun false st segs).
Proof.
  revert st; induction segs as [|g segs IH]; intros st; [cbn; lia|].
  cbn. change (fold_left (nstep false) segs (nstep false st g))
    with (nrun false (nstep false st g) segs).
  pose proof (nstep_ups_mono st g). pose proof (IH (nstep false st g)). lia.
Qed.

Lemma apply_segs_nrun segs : forall u stack,
  apply_segs stack segs =
  (let (u', rn) := nrun false (u, stack) segs in if Nat.eqb u' u then Some rn else None).
Proof.
  induction segs as [|g segs IH]; intros u stack.
  - cbn. now rewrite Nat.eqb_refl.
  - cbn [apply_segs nrun fold_left]. unfold nstep at 2.
    destruct (is_empty g || is_dot g) eqn:E1; [apply IH|].
    destruct (is_dotdot g) eqn:E2.
    + destruct stack as [|x stack]; [|apply IH].
      change (fold_left (nstep false) segs (S u, [])) with (nrun false (S u, []) segs).
      pose proof (nrun_ups_mono segs (S u, [])) as Hm. cbn [fst] in Hm.
      destruct (nrun false (S u, []) segs) as [u' rn]. cbn [fst] in Hm.
      destruct (Nat.eqb_spec u' u); [lia|reflexivity].
    + apply IH.
Qed.

Definition run_rel (stack : list str) (rel : str) : option (list str) :=
  apply_segs stack (split_on slash rel).

(* ---------- classification of a printed normal form ---------- *)
Lemma dot_not_plain : plain [dot] = false.
Proof. reflexivity. Qed.

Lemma print_nf_root : print_nf false (0, []) = [dot].
Proof. reflexivity. Qed.

Lemma print_nf_is_dot st :
  st_ok st -> (str_eqb (print_nf false st) [dot] = true <-> st = (0, [])).
Proof.
  intros Hok. split; [|intros ->; reflexivity].
  intros H%str_eqb_eq.
  assert (Hd : den (print_nf false st) = st) by now apply den_print.
  rewrite H in Hd. now rewrite <- Hd.
Qed.

Lemma valid_path_print_nf u rn :
  st_ok (u, rn) -> (u, rn) <> (0, []) ->
  valid_path (print_nf false (u, rn)) = Nat.eqb u 0.
Proof.
  intros Hok Hne.
  assert (Hnd : str_eqb (print_nf false (u, rn)) [dot] = false).
  { destruct (str_eqb _ _) eqn:E; [|reflexivity]. apply print_nf_is_dot in E; [congruence|exact Hok]. }
  unfold valid_path. rewrite Hnd. cbn [orb].
  assert (Hs : nf_segs (u, rn) <> []).
  { unfold nf_segs; cbn [fst snd]. destruct u; [|discriminate].
    destruct rn; [congruence|]. cbn. intros H. apply app_eq_nil in H as [_ H]. discriminate. }
  rewrite split_print_nf by assumption. unfold nf_segs; cbn [fst snd].
  destruct u as [|u]; cbn [repeat app Nat.eqb].
  - rewrite forallb_forall. intros x Hx%in_rev.
    unfold st_ok in Hok; cbn [snd] in Hok. apply forallb_seg_ok_plain in Hok.
    rewrite forallb_forall in Hok. auto.
  - reflexivity.
Qed.

(* ---------- joinSubPath meets the specification ---------- *)
Lemma valid_sub_segs sub :
  valid_sub sub -> forallb seg_ok (sub_segs sub) = true.
Proof.
  intros [->|[Hv Hn]]; [reflexivity|].
  unfold sub_segs. destruct sub as [|c s]; [reflexivity|].
  pose proof (valid_path_plain _ Hv Hn) as Hp.
  rewrite forallb_forall in *. intros g Hg. unfold seg_ok.
  rewrite (Hp g Hg). cbn. apply negb_true_iff.
  destruct (mem_char slash g) eqn:E; [|reflexivity].
  apply mem_char_In in E. exfalso. eapply split_on_segs_no_sep; eauto.
Qed.

Lemma valid_sub_not_rooted sub : valid_sub sub -> sub <> [] -> is_rooted sub = false.
Proof.
  intros Hv Hne. pose proof (valid_sub_segs sub Hv) as Hs.
  destruct sub as [|c s]; [congruence|]. cbn.
  destruct (Ascii.eqb_spec c slash) as [->|]; [|reflexivity].
  unfold sub_segs in Hs. cbn in Hs. discriminate.
Qed.

Lemma den_valid_sub sub : valid_sub sub -> sub <> [] -> den sub = (0, rev (sub_segs sub)).
Proof.
  intros Hv Hne. pose proof (valid_sub_segs sub Hv) as Hs.
  unfold den, sub_segs in *. destruct sub as [|c s]; [congruence|].
  rewrite nrun_plain by now apply forallb_seg_ok_plain. now rewrite app_nil_r.
Qed.

Lemma forallb_rev {A} (f : A -> bool) l : forallb f (rev l) = forallb f l.
Proof.
  induction l as [|x l IH]; [reflexivity|]. cbn.
  rewrite forallb_app, IH. cbn. rewrite andb_true_r. apply andb_comm.
Qed.

(* the state reached by joining: common to both branches of join2 *)
Lemma join2_print sub rel :
  valid_sub sub -> rel_ok rel ->
  join2 sub rel = print_nf false (nrun false (0, rev (sub_segs sub)) (split_on slash rel)).
Proof.
  intros Hv [Hne Hr]. unfold join2. destruct sub as [|c s] eqn:Es.
  - destruct rel as [|d rel]; [congruence|]. now rewrite clean_den.
  - rewrite <- Es in *. assert (Hsne : sub <> []) by (subst; discriminate).
    replace (match rel with [] => clean (sub ++ slash :: rel) | _ :: _ => clean (sub ++ slash :: rel) end)
      with (clean (sub ++ slash :: rel)) by (destruct rel; reflexivity).
    rewrite clean_den.
    + rewrite den_app, den_valid_sub by assumption. reflexivity.
    + destruct sub; [congruence|discriminate].
    + pose proof (valid_sub_not_rooted sub Hv Hsne). destruct sub; [congruence|exact H].
Qed.

Lemma join_state_ok sub rel :
  valid_sub sub -> st_ok (nrun false (0, rev (sub_segs sub)) (split_on slash rel)).
Proof.
  intros Hv. apply nrun_ok; [|apply split_segs_noslash].
  unfold st_ok; cbn [snd]. rewrite forallb_rev. now apply valid_sub_segs.
Qed.

Theorem join_sub_path_spec sub rel :
  valid_sub sub -> rel_ok rel ->
  join_sub_path sub rel = option_map print_sub (run_rel (rev (sub_segs sub)) rel).
Proof.
  intros Hv Hrel. unfold join_sub_path, run_rel.
  rewrite (join2_print sub rel Hv Hrel).
  rewrite (apply_segs_nrun _ 0).
  pose proof (join_state_ok sub rel Hv) as Hok.
  destruct (nrun false (0, rev (sub_segs sub)) (split_on slash rel)) as [u rn] eqn:E.
  destruct (str_eqb (print_nf false (u, rn)) [dot]) eqn:Ed.
  - apply print_nf_is_dot in Ed; [|exact Hok]. injection Ed as -> ->. reflexivity.
  - assert (Hne : (u, rn) <> (0, [])).
    { intros Heq. rewrite Heq in Ed. discriminate. }
    rewrite valid_path_print_nf by assumption.
    destruct u as [|u]; cbn [Nat.eqb option_map]; [|reflexivity].
    unfold print_nf, print_sub. cbn [repeat app].
    destruct (rev rn) eqn:Er; [|reflexivity].
    exfalso. apply Hne. f_equal. destruct rn; [reflexivity|].
    cbn in Er. apply app_eq_nil in Er as [_ Er]. discriminate.
Qed.

(* ---------- results never escape ---------- *)
Lemma print_sub_valid rn :
  forallb seg_ok rn = true -> valid_sub (print_sub rn) /\ rev (sub_segs (print_sub rn)) = rn.
Proof.
  intros Hok. destruct rn as [|x rn]; [split; [now left|reflexivity]|].
  assert (Hst : st_ok (0, x :: rn)) by exact Hok.
  assert (Hne : (0, x :: rn) <> (0, [])) by congruence.
  assert (Hp : print_sub (x :: rn) = print_nf false (0, x :: rn)).
  { unfold print_sub, print_nf. cbn [repeat app].
    destruct (rev (x :: rn)) eqn:E; [|reflexivity].
    cbn in E. apply app_eq_nil in E as [_ E]. discriminate. }
  split.
  - right. rewrite Hp. split.
    + now rewrite valid_path_print_nf.
    + intros H. apply (f_equal (fun s => str_eqb s [dot])) in H. cbn in H.
      change (str_eqb (print_nf false (0, x :: rn)) [dot] = true) in H.
      apply print_nf_is_dot in H; [congruence|exact Hst].
  - rewrite Hp. unfold sub_segs.
    pose proof (print_nf_nonempty _ Hst) as Hn.
    destruct (print_nf false (0, x :: rn)) eqn:E; [congruence|]. rewrite <- E.
    rewrite split_print_nf.
    + unfold nf_segs; cbn [fst snd repeat app]. apply rev_involutive.
    + exact Hst.
    + unfold nf_segs; cbn [fst snd repeat app]. intros H. cbn in H.
      apply app_eq_nil in H as [_ H]. discriminate.
Qed.

Lemma apply_segs_ok segs : forall stack rn,
  forallb seg_ok stack = true -> segs_noslash segs ->
  apply_segs stack segs = Some rn -> forallb seg_ok rn = true.
Proof.
  intros stack rn Hs Hn. rewrite (apply_segs_nrun segs 0 stack).
  assert (Hok : st_ok (nrun false (0, stack) segs)) by (apply nrun_ok; assumption).
  destruct (nrun false (0, stack) segs) as [u rn']. destruct (Nat.eqb u 0); [|discriminate].
  intros [= <-]. exact Hok.
Qed.

Theorem join_sub_path_valid sub rel n :
  valid_sub sub -> rel_ok rel -> join_sub_path sub rel = Some n -> valid_sub n.
Proof.
  intros Hv Hrel. rewrite join_sub_path_spec by assumption.
  unfold run_rel. destruct (apply_segs _ _) as [rn|] eqn:E; [|discriminate].
  intros [= <-]. apply print_sub_valid.
  eapply apply_segs_ok; [| apply split_segs_noslash | exact E].
  rewrite forallb_rev. now apply valid_sub_segs.
Qed.

(* ---------- local bases ---------- *)
Lemma den_dotslash_app s : den (dotslash ++ s) = den s.
Proof. apply den_dot_slash. Qed.

Lemma den_snoc_slash s : den (s ++ [slash]) = den s.
Proof. rewrite den_app. cbn. now destruct (den s). Qed.

Lemma join2_nonrooted a b :
  rel_ok a -> rel_ok b -> join2 a b = print_nf false (nrun false (den a) (split_on slash b)).
Proof.
  intros [Ha Hra] [Hb Hrb]. unfold join2. destruct a as [|c a]; [congruence|].
  replace (match b with [] => clean ((c :: a) ++ slash :: b) | _ :: _ => clean ((c :: a) ++ slash :: b) end)
    with (clean ((c :: a) ++ slash :: b)) by (destruct b; reflexivity).
  rewrite clean_den; [|discriminate|exact Hra]. now rewrite den_app.
Qed.

Theorem resolve_local_den a b :
  rel_ok a -> rel_ok b ->
  den (resolve_local a b) = nrun false (den a) (split_on slash b).
Proof.
  intros Ha Hb. unfold resolve_local. rewrite (join2_nonrooted a b Ha Hb).
  set (st := nrun false (den a) (split_on slash b)).
  assert (Hok : st_ok st) by (apply nrun_ok; [apply den_ok|apply split_segs_noslash]).
  destruct (str_eqb _ [dot] || str_eqb _ [dot; dot]); [rewrite den_snoc_slash; now apply den_print|].
  destruct (looks_like_local _); [|rewrite den_dotslash_app]; now apply den_print.
Qed.

Lemma resolve_local_rel_ok a b : rel_ok a -> rel_ok b -> rel_ok (resolve_local a b).
Proof.
  intros Ha Hb. unfold resolve_local. rewrite (join2_nonrooted a b Ha Hb).
  set (st := nrun false (den a) (split_on slash b)).
  assert (Hok : st_ok st) by (apply nrun_ok; [apply den_ok|apply split_segs_noslash]).
  destruct (str_eqb _ [dot] || str_eqb _ [dot; dot]).
  { destruct (print_nf_head st Hok) as (c & rest & -> & Hc). split; [discriminate|].
    cbn. now apply Ascii.eqb_neq. }
  destruct (looks_like_local _).
  - split; [now apply print_nf_nonempty|now apply print_nf_not_rooted].
  - split; [discriminate|reflexivity].
Qed.

(* the printed form is a function of the denotation *)
Lemma resolve_local_fun a b a' b' :
  rel_ok a -> rel_ok b -> rel_ok a' -> rel_ok b' ->
  nrun false (den a) (split_on slash b) = nrun false (den a') (split_on slash b') ->
  resolve_local a b = resolve_local a' b'.
Proof.
  intros Ha Hb Ha' Hb' H. unfold resolve_local.
  rewrite (join2_nonrooted a b Ha Hb), (join2_nonrooted a' b' Ha' Hb'), H. reflexivity.
Qed.

Lemma nrun_den st s : nrun false st (split_on slash s) = ncomp st (den s).
Proof. apply nrun_ncomp. Qed.

Lemma ncomp_assoc_den st b c :
  ncomp (ncomp st (den b)) (den c) = ncomp st (nrun false (den b) (split_on slash c)).
Proof.
  rewrite <- !nrun_den. unfold den. rewrite <- nrun_app.
  rewrite (nrun_ncomp st (split_on slash b ++ split_on slash c)).
  now rewrite nrun_app.
Qed.

Theorem resolve_local_assoc a b c :
  rel_ok a -> rel_ok b -> rel_ok c ->
  resolve_local (resolve_local a b) c = resolve_local a (resolve_local b c).
Proof.
  intros Ha Hb Hc. apply resolve_local_fun; auto using resolve_local_rel_ok.
  rewrite (nrun_den (den a) (resolve_local b c)).
  rewrite !resolve_local_den by assumption.
  rewrite <- ncomp_assoc_den. now rewrite !nrun_den.
Qed.

(* ---------- composition for package-rooted bases ---------- *)
Lemma ncomp_ups_mono s1 s2 : fst s1 <= fst (ncomp s1 s2).
Proof.
  destruct s1 as [u1 rn1], s2 as [u2 rn2]. unfold ncomp.
  destruct (Nat.leb u2 (length rn1)); cbn; lia.
Qed.

Lemma run_rel_ncomp stack rel :
  run_rel stack rel =
  (let (u, rn) := ncomp (0, stack) (den rel) in if Nat.eqb u 0 then Some rn else None).
Proof. unfold run_rel. rewrite (apply_segs_nrun _ 0). now rewrite nrun_den. Qed.

Theorem join_sub_path_compose sub b c :
  valid_sub sub -> rel_ok b -> rel_ok c ->
  match join_sub_path sub b with
  | Some n => join_sub_path n c
  | None => None
  end = join_sub_path sub (resolve_local b c).
Proof.
  intros Hv Hb Hc.
  assert (Hbc : rel_ok (resolve_local b c)) by now apply resolve_local_rel_ok.
  rewrite (join_sub_path_spec sub b), (join_sub_path_spec sub (resolve_local b c)) by assumption.
  rewrite !run_rel_ncomp, resolve_local_den by assumption.
  rewrite <- ncomp_assoc_den.
  set (st0 := (0, rev (sub_segs sub))).
  assert (Hok1 : st_ok (ncomp st0 (den b))).
  { rewrite <- nrun_den. apply nrun_ok; [|apply split_segs_noslash].
    unfold st_ok, st0; cbn [snd]. rewrite forallb_rev. now apply valid_sub_segs. }
  destruct (ncomp st0 (den b)) as [u1 rn1] eqn:E1.
  destruct u1 as [|u1]; cbn [Nat.eqb option_map].
  - destruct (print_sub_valid rn1 Hok1) as [Hv1 Hs1].
    rewrite (join_sub_path_spec _ c Hv1 Hc), Hs1, run_rel_ncomp. reflexivity.
  - pose proof (ncomp_ups_mono (S u1, rn1) (den c)) as Hm. cbn [fst] in Hm.
    destruct (ncomp (S u1, rn1) (den c)) as [u2 rn2]. cbn [fst] in Hm.
    destruct u2; [lia|reflexivity].
Qed.

(* ---------- the address-level statements ---------- *)
Definition sub_of (a : src) : str :=
  match a with
  | Local r => r | Registry _ s => s | Remote _ s => s | RegistryFinal _ _ s => s
  end.

(* same kind, package and version *)
Definition same_shape (a r : src) : Prop :=
  match a, r with
  | Local _, Local _ => True
  | Registry p _, Registry p' _ => p = p'
  | Remote p _, Remote p' _ => p = p'
  | RegistryFinal p v _, RegistryFinal p' v' _ => p = p' /\ v = v'
  | _, _ => False
  end.

Definition wf_src (a : src) : Prop :=
  match a with Local r => rel_ok r | _ => valid_sub (sub_of a) end.

Theorem resolve_abs_unchanged a b : is_abs b = true -> resolve a b = Some b.
Proof. destruct b; cbn; congruence. Qed.

Theorem resolve_same_shape a brel r :
  resolve a (Local brel) = Some r -> same_shape a r.
Proof.
  destruct a; cbn; [intros [= <-]; exact I| | |];
    destruct (join_sub_path _ _); cbn; intros [= <-]; cbn; auto.
Qed.

Theorem resolve_wf a brel r :
  wf_src a -> rel_ok brel -> resolve a (Local brel) = Some r -> wf_src r.
Proof.
  intros Ha Hb. destruct a; cbn in *.
  - intros [= <-]. cbn. now apply resolve_local_rel_ok.
  - destruct (join_sub_path sub brel) eqn:E; cbn; intros [= <-]; cbn. eapply join_sub_path_valid; eauto.
  - destruct (join_sub_path sub brel) eqn:E; cbn; intros [= <-]; cbn. eapply join_sub_path_valid; eauto.
  - destruct (join_sub_path sub brel) eqn:E; cbn; intros [= <-]; cbn. eapply join_sub_path_valid; eauto.
Qed.

(* the sub-path of the result is the stack machine's answer; failure iff it underflows *)
Theorem resolve_spec a brel :
  is_abs a = true -> wf_src a -> rel_ok brel ->
  option_map sub_of (resolve a (Local brel)) =
  option_map print_sub (run_rel (rev (sub_segs (sub_of a))) brel).
Proof.
  intros Habs Ha Hb. destruct a; cbn in *; try discriminate;
    rewrite (join_sub_path_spec _ _ Ha Hb); destruct (run_rel _ _); reflexivity.
Qed.

Theorem resolve_compose a b c :
  wf_src a -> rel_ok b -> rel_ok c ->
  match resolve a (Local b) with
  | Some r => resolve r (Local c)
  | None => None
  end = resolve a (Local (resolve_local b c)).
Proof.
  intros Ha Hb Hc. destruct a; cbn in *.
  - f_equal. f_equal. now apply resolve_local_assoc.
  - rewrite <- (join_sub_path_compose sub b c) by assumption.
    destruct (join_sub_path sub b); reflexivity.
  - rewrite <- (join_sub_path_compose sub b c) by assumption.
    destruct (join_sub_path sub b); reflexivity.
  - rewrite <- (join_sub_path_compose sub b c) by assumption.
    destruct (join_sub_path sub b); reflexivity.
Qed.

(* ---------- FinalSourceAddr ---------- *)
Lemma run_rel_plain stack s :
  valid_sub s -> s <> [] -> run_rel stack s = Some (rev (sub_segs s) ++ stack).
Proof.
  intros Hv Hne. unfold run_rel. rewrite (apply_segs_nrun _ 0).
  pose proof (valid_sub_segs s Hv) as Hs. unfold sub_segs in *.
  destruct s as [|c s]; [congruence|].
  rewrite nrun_plain by now apply forallb_seg_ok_plain. reflexivity.
Qed.

Theorem final_source_addr_spec s rpkg rsub :
  valid_sub s -> valid_sub rsub ->
  exists sub', final_source_addr s rpkg rsub = Remote rpkg sub' /\
    valid_sub sub' /\ sub_segs sub' = sub_segs rsub ++ sub_segs s.
Proof.
  intros Hs Hr. unfold final_source_addr.
  destruct (str_eq_dec s []) as [->|Hsne].
  { exists rsub. cbn. now rewrite app_nil_r. }
  destruct (str_eq_dec rsub []) as [->|Hrne].
  { exists s. destruct s; [congruence|]. cbn. auto. }
  exists (join2 rsub s).
  split; [destruct s; [congruence|]; destruct rsub; [congruence|reflexivity]|].
  assert (Hrel : rel_ok s) by (split; [assumption|now apply valid_sub_not_rooted]).
  pose proof (join_sub_path_spec rsub s Hr Hrel) as Hj.
  rewrite run_rel_plain in Hj by assumption. cbn [option_map] in Hj.
  assert (Hok : forallb seg_ok (rev (sub_segs s) ++ rev (sub_segs rsub)) = true).
  { rewrite forallb_app, !forallb_rev, !valid_sub_segs by assumption. reflexivity. }
  destruct (print_sub_valid _ Hok) as [Hv Hsegs].
  unfold join_sub_path in Hj.
  destruct (str_eqb (join2 rsub s) [dot]) eqn:Ed.
  - injection Hj as Hj. exfalso.
    assert (Hx : sub_segs s <> []).
    { unfold sub_segs. destruct s; [congruence|]. apply split_on_nonempty. }
    apply (f_equal sub_segs) in Hj. cbn in Hj.
    apply (f_equal (@rev str)) in Hsegs. rewrite rev_involutive in Hsegs.
    rewrite Hsegs in Hj. rewrite rev_app_distr, !rev_involutive in Hj.
    symmetry in Hj. apply app_eq_nil in Hj as [_ Hj]. contradiction.
  - destruct (valid_path (join2 rsub s)); [|discriminate].
    injection Hj as Hj. rewrite Hj. split; [exact Hv|].
    apply (f_equal (@rev str)) in Hsegs. rewrite rev_involutive in Hsegs.
    rewrite Hsegs, rev_app_distr, !rev_involutive. reflexivity.
Qed.
