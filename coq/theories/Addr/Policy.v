(* The documented transport policy for remote addresses, written against the
   accessors of an accepted value only (source type, URL fields, sub-path) -
   independent of how sourceaddrs enforces it. *)
From Slug Require Import Base.Str Base.PathAlg Addr.Resolve Addr.Url Addr.Parse.

(* a sub-path without empty, "." or ".." segments (or no sub-path at all) *)
Definition sub_path_ok (sub : str) : bool :=
  is_empty sub ||| forallb plain (split_on slash sub).

Definition git_policy (u : url) : bool :=
  let qs := fst (parse_query (u_query u)) in
  (str_eqb (u_scheme u) s_https ||| str_eqb (u_scheme u) s_ssh)
  &&& forallb (fun kv => str_eqb (fst kv) s_ref) qs
  &&& Nat.leb (length qs) 1.

Definition archive_policy (u : url) : bool :=
  let qs := fst (parse_query (u_query u)) in
  str_eqb (u_scheme u) s_https
  &&& (match values_of s_checksum qs with [] => true | _ => false end)
  &&& match values_of s_archive qs with
      | [] => has_suffix (escaped_path u) (s2l ".tar.gz") ||| has_suffix (escaped_path u) (s2l ".tgz")
      | [v] => str_eqb v s_tgz
      | _ => false
      end.

Definition policy_ok (p : rpkg) (sub : str) : bool :=
  negb (u_user (p_url p))
  &&& sub_path_ok sub
  &&& (if str_eqb (p_type p) s_git then git_policy (p_url p)
       else if str_eqb (p_type p) s_https ||| str_eqb (p_type p) s_http then archive_policy (p_url p)
       else false).
