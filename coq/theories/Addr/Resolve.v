(* Model of sourceaddrs: sub-path normalisation, joinSubPath, relative
   resolution (ResolveRelativeSource / ResolveRelativeFinalSource) and
   RegistrySource.FinalSourceAddr.  Package addresses and versions are opaque
   strings here (their syntax is the business of Addr/Parse.v). *)
From Slug Require Import Base.Str Base.PathAlg.

Definition dotslash : str := [dot; slash].
Definition dotdotslash : str := [dot; dot; slash].

(* sourceaddrs.looksLikeLocalSource *)
Definition looks_like_local (s : str) : bool :=
  has_prefix s dotslash || has_prefix s dotdotslash.

(* sourceaddrs.normalizeSubpath *)
Definition normalize_subpath (s : str) : option str :=
  match s with
  | [] => Some []
  | _ => if valid_path s
         then let c := clean s in if str_eqb c [dot] then None else Some c
         else None
  end.

(* sourceaddrs.joinSubPath *)
Definition join_sub_path (sub rel : str) : option str :=
  let n := join2 sub rel in
  if str_eqb n [dot] then Some []
  else if valid_path n then Some n else None.

Inductive src :=
| Local (rel : str)
| Registry (pkg sub : str)
| Remote (pkg sub : str)
| RegistryFinal (pkg ver sub : str).

Definition is_abs (a : src) : bool := match a with Local _ => false | _ => true end.

(* the LocalSource case of both Resolve functions *)
Definition resolve_local (a b : str) : str :=
  let n := join2 a b in
  if str_eqb n [dot] || str_eqb n [dot; dot] then n ++ [slash]
  else if looks_like_local n then n else dotslash ++ n.

(* ResolveRelativeSource and ResolveRelativeFinalSource (the union of the two
   interfaces: Source = Local|Registry|Remote, FinalSource = Local|RegistryFinal|Remote) *)
Definition resolve (a b : src) : option src :=
  match b with
  | Local brel =>
      match a with
      | Local arel => Some (Local (resolve_local arel brel))
      | Registry p s => option_map (Registry p) (join_sub_path s brel)
      | Remote p s => option_map (Remote p) (join_sub_path s brel)
      | RegistryFinal p v s => option_map (RegistryFinal p v) (join_sub_path s brel)
      end
  | _ => Some b
  end.

(* RegistrySource.FinalSourceAddr: s = registry sub-path, real = (pkg, sub) *)
Definition final_source_addr (s : str) (rpkg rsub : str) : src :=
  match s with
  | [] => Remote rpkg rsub
  | _ => match rsub with
         | [] => Remote rpkg s
         | _ => Remote rpkg (join2 rsub s)
         end
  end.

(* ParseLocalSource *)
Definition colon : ascii := ":"%char.
Definition backslash : ascii := "\"%char.

Definition parse_local (given : str) : option str :=
  if mem_char colon given || mem_char backslash given then None
  else if negb (looks_like_local given) && negb (str_eqb given [dot]) && negb (str_eqb given [dot; dot]) then None
  else
    let c := clean given in
    let c := if str_eqb c [dot; dot] then dotdotslash
             else if str_eqb c [dot] then dotslash else c in
    let c := if looks_like_local c then c else dotslash ++ c in
    if str_eqb c given then Some c else None.
