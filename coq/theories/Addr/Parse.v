(* Model of sourceaddrs parsing and printing: ParseSource, ParseFinalSource,
   ParseRemoteSource / ParseRemotePackage / MakeRemoteSource, ParseRegistrySource /
   ParseRegistryPackage / ParseFinalRegistrySource, the github/gitlab shorthands,
   splitSubPath, the per-type URL rules, and the String methods; together with
   the parts of terraform-registry-address (ParseModuleSource), terraform-svchost
   (ForComparison / ForDisplay, for ASCII host names) and go-versions
   (ParseVersion / String) they call.  Out = outside the modelled domain
   (non-ASCII registry hosts and sub-paths, IP-literal hosts, punycode). *)
From Slug Require Import Base.Str Base.PathAlg Addr.Resolve Addr.Url.
From Coq Require Import ZArith.

(* ---------- splitSubPath (also regaddr's sourceDirSubdir) ---------- *)
Definition split_sub_path (src : str) : str * str :=
  let stop := match index_byte c_qmark src with Some i => i | None => length src end in
  let head := firstn stop src in
  let offset := match index_of [c_colon; slash; slash] head with Some i => i + 3 | None => 0 end in
  match index_of [slash; slash] (skipn offset head) with
  | None => (src, [])
  | Some i =>
      let idx := i + offset in
      let subdir := skipn (idx + 2) src in
      let src' := firstn idx src in
      match index_byte c_qmark subdir with
      | Some j => (src' ++ skipn j subdir, firstn j subdir)
      | None => (src', subdir)
      end
  end.

Definition all_ascii (s : str) : bool := forallb is_ascii_char s.

(* normalizeSubpath, with the UTF-8 test of fs.ValidPath outside the model *)
Definition norm_sub (s : str) : res str :=
  if all_ascii s then of_opt (normalize_subpath s) else Out.

(* ---------- remote sources ---------- *)
Record rpkg := mkPkg { p_type : str; p_url : url }.

Definition git_suffix : str := s2l "git".
Definition shorthand_for (host : string) (given : str) : res (option str) :=
  if has_prefix given (s2l host ++ [slash]) then
    let parts := split_on slash given in
    if Nat.ltb (length parts) 3 then Rej
    else
      let u := s2l "https://" ++ join_with slash (firstn 3 parts) in
      let u := if has_suffix u git_suffix then u else u ++ s2l ".git" in
      let u := if Nat.ltb 3 (length parts) then u ++ [slash; slash] ++ join_with slash (skipn 3 parts) else u in
      Ok (Some (s2l "git::" ++ u))
  else Ok None.

Definition expand_shorthand (given : str) : res str :=
  do a <- shorthand_for "github.com" given;
  do b <- shorthand_for "gitlab.com" given;
  Ok (match b with Some r => r | None => match a with Some r => r | None => given end end).

Fixpoint span (f : ascii -> bool) (s : str) : str * str :=
  match s with
  | c :: r => if f c then let '(a, b) := span f r in (c :: a, b) else ([], s)
  | [] => ([], [])
  end.

(* ^([A-Za-z0-9]+)::(.+)$ *)
Definition type_split (s : str) : option (str * str) :=
  let '(a, r) := span is_alnum s in
  match a, r with
  | _ :: _, c1 :: c2 :: ((_ :: _) as rest) =>
      if Ascii.eqb c1 c_colon &&& Ascii.eqb c2 c_colon &&& negb (mem_char c_nl rest)
      then Some (a, rest) else None
  | _, _ => None
  end.

Definition s_git := s2l "git".
Definition s_http := s2l "http".
Definition s_https := s2l "https".
Definition s_ssh := s2l "ssh".
Definition s_ref := s2l "ref".
Definition s_archive := s2l "archive".
Definition s_checksum := s2l "checksum".
Definition s_tgz := s2l "tgz".
Definition s_targz := s2l "tar.gz".

Definition with_query (u : url) (q : str) : url :=
  mkUrl (u_scheme u) (u_opaque u) (u_user u) (u_host u) (u_path u) (u_rawpath u)
        (u_omit_host u) (u_forceq u) q (u_frag u) (u_rawfrag u).
Definition with_path (u : url) (p : str) : url :=
  mkUrl (u_scheme u) (u_opaque u) (u_user u) (u_host u) p (u_rawpath u)
        (u_omit_host u) (u_forceq u) (u_query u) (u_frag u) (u_rawfrag u).

(* gitSourceType.PrepareURL *)
Definition prepare_git (u : url) : option url :=
  if negb (str_eqb (u_scheme u) s_ssh) &&& negb (str_eqb (u_scheme u) s_https) then None
  else
    let qs := fst (parse_query (u_query u)) in
    if forallb (fun p => str_eqb (fst p) s_ref) qs &&& Nat.leb (length qs) 1 then Some u else None.

(* httpSourceType.PrepareURL *)
Definition set_archive_tgz (qs : list (str * str)) : list (str * str) :=
  (* Values.Set("archive", "tgz"): one value replaces all values of that key *)
  (s_archive, s_tgz) :: filter (fun p => negb (str_eqb (fst p) s_archive)) qs.

Definition prepare_http (u : url) : option url :=
  if negb (str_eqb (u_scheme u) s_https) then None
  else
    let qs := fst (parse_query (u_query u)) in
    let step1 :=
      match values_of s_archive qs with
      | [] =>
          let p := escaped_path u in
          if has_suffix p (s2l ".tar.gz") ||| has_suffix p (s2l ".tgz") then Some u else None
      | [v] =>
          if str_eqb v s_targz then Some (with_query u (encode_query (set_archive_tgz qs)))
          else if str_eqb v s_tgz then Some (with_query u (encode_query qs))
          else None
      | _ => None
      end in
    match step1 with
    | None => None
    | Some u' => match values_of s_checksum qs with [] => Some u' | _ => None end
    end.

(* makeRemoteSource *)
Definition make_remote (typ : str) (u : url) (sub : str) : res (rpkg * str) :=
  if str_eqb typ s_git then
    match prepare_git u with Some u' => Ok (mkPkg typ u', sub) | None => Rej end
  else if str_eqb typ s_http ||| str_eqb typ s_https then
    match prepare_http u with Some u' => Ok (mkPkg typ u', sub) | None => Rej end
  else Rej.

(* ParseRemoteSource *)
Definition parse_remote (given : str) : res (rpkg * str) :=
  do expanded <- expand_shorthand given;
  let '(pkg_raw, sub_raw) := split_sub_path expanded in
  do sub <- norm_sub sub_raw;
  let '(typ, pkg_raw) := match type_split pkg_raw with Some (t, r) => (t, r) | None => ([], pkg_raw) end in
  do u <- url_parse pkg_raw;
  if is_empty (u_scheme u) then Rej
  else if u_user u then Rej
  else
    let typ := to_lower typ in
    if negb (is_empty typ) &&& str_eqb typ (u_scheme u) then Rej
    else
      let typ := if is_empty typ then u_scheme u else typ in
      if snd (parse_query (u_query u)) then Rej
      else make_remote typ u sub.

(* MakeRemoteSource(typ, u, sub), the URL having been obtained from url.Parse(raw) *)
Definition make_remote_source (typ : str) (u : url) (sub : str) : res (rpkg * str) :=
  do sub' <- norm_sub sub;
  if u_user u then Rej else make_remote typ u sub'.

(* ParseRemotePackage *)
Definition parse_remote_pkg (given : str) : res rpkg :=
  do (p, sub) <- parse_remote given;
  match sub with [] => Ok p | _ => Rej end.

(* RemotePackage.String / subPathString *)
Definition pkg_string_of (p : rpkg) (u : url) : str :=
  if str_eqb (u_scheme u) (p_type p) then url_string u
  else p_type p ++ [c_colon; c_colon] ++ url_string u.
Definition rpkg_string (p : rpkg) : str := pkg_string_of p (p_url p).
Definition remote_string (p : rpkg) (sub : str) : str :=
  match sub with
  | [] => rpkg_string p
  | _ => pkg_string_of p (with_path (p_url p) (u_path (p_url p) ++ [slash; slash] ++ sub))
  end.

(* ---------- registry sources ---------- *)
Record mpkg := mkMpkg { m_host : str; m_ns : str; m_name : str; m_sys : str }.

(* strconv.Atoi on the text after the colon: optional sign, decimal digits, 64-bit *)
Definition digits_val (s : str) : N := fold_left (fun acc c => (acc * 10 + (cn c - 48))%N) s 0%N.
Definition atoi (s : str) : option Z :=
  let '(neg, ds) := match s with
                    | c :: r => if Ascii.eqb c "-"%char then (true, r)
                                else if Ascii.eqb c c_plus then (false, r) else (false, s)
                    | [] => (false, [])
                    end in
  match ds with
  | [] => None
  | _ => if forallb is_digit ds then
           let n := digits_val ds in
           if neg then (if N.leb n 9223372036854775808 then Some (- Z.of_N n)%Z else None)
           else (if N.leb n 9223372036854775807 then Some (Z.of_N n) else None)
         else None
  end.

(* decimal printing of a Z *)
Fixpoint dec_digits (fuel : nat) (n : N) (acc : str) : str :=
  match fuel with
  | O => acc
  | S f => let acc' := ch (48 + n mod 10) :: acc in
           if N.ltb n 10 then acc' else dec_digits f (n / 10) acc'
  end.
Definition print_N (n : N) : str := dec_digits (S (N.to_nat (N.log2 n))) n [].
Definition print_Z (z : Z) : str :=
  match z with
  | Zneg p => "-"%char :: print_N (Npos p)
  | _ => print_N (Z.to_N z)
  end.

(* svchost normalizePortPortion on ":..." *)
Definition norm_port (s : str) : option str :=
  match s with
  | [] => Some []
  | _ :: num =>
      match atoi num with
      | None => None
      | Some n => if Z.eqb n 443 then Some []
                  else if Z.ltb 65535 n then None
                  else Some (c_colon :: print_Z n)
      end
  end.

(* the label iteration of svchost / idna: labels between dots; one trailing dot
   (even after an empty label at the very end) ends the iteration *)
Fixpoint labels_go (fuel : nat) (s : str) : list str :=
  match fuel with
  | O => []
  | S f =>
      match s with
      | [] => []
      | _ => let '(l, r, found) := cut_char dot s in
             if found then
               match r with
               | [c] => if Ascii.eqb c dot then [l] else l :: labels_go f r
               | _ => l :: labels_go f r
               end
             else [l]
      end
  end.
Definition labels (s : str) : list str := labels_go (S (length s)) s.

Definition ace : str := s2l "xn--".
Definition hyphen : ascii := "-"%char.

Definition label_ok (l : str) : bool :=
  match l with
  | [] => true
  | c :: _ =>
      negb (Nat.ltb 4 (length l) &&& Ascii.eqb (nth 2 l c_space) hyphen &&& Ascii.eqb (nth 3 l c_space) hyphen)
      &&& negb (Ascii.eqb c hyphen) &&& negb (Ascii.eqb (last l c_space) hyphen)
  end.

(* svchost.ForComparison for ASCII host names *)
Definition host_for_comparison (given : str) : res str :=
  let '(name, port) := match index_byte c_colon given with
                       | Some i => (firstn i given, skipn i given)
                       | None => (given, [])
                       end in
  match norm_port port with
  | None => Rej
  | Some port' =>
      if is_empty name then Rej
      else if negb (all_ascii name) then Out
      else
        let ls := labels name in
        if existsb (fun l => is_empty l ||| has_prefix l ace) ls then Rej
        else if negb (forallb (fun c => is_alnum c ||| Ascii.eqb c hyphen ||| Ascii.eqb c dot) name) then Rej
        else
          let lower := to_lower name in
          if existsb (fun l => has_prefix l ace) (labels lower) then Out
          else if forallb label_ok (labels lower) then Ok (lower ++ port') else Rej
  end.

(* ^[0-9A-Za-z](?:[0-9A-Za-z-_]{0,62}[0-9A-Za-z])?$ *)
Definition registry_name_ok (s : str) : bool :=
  match s with
  | [] => false
  | c :: r =>
      is_alnum c &&&
      match r with
      | [] => true
      | _ => Nat.leb (length r) 63 &&& is_alnum (last r c_space)
             &&& forallb (fun x => is_alnum x ||| Ascii.eqb x hyphen ||| Ascii.eqb x "_"%char) (removelast r)
      end
  end.
(* ^[0-9a-z]{1,64}$ *)
Definition target_system_ok (s : str) : bool :=
  negb (is_empty s) &&& Nat.leb (length s) 64 &&& forallb (fun c => is_lower c ||| is_digit c) s.

Definition default_host : str := s2l "registry.terraform.io".

(* regaddr.ParseModuleSource: (package, cleaned sub-directory) *)
Definition parse_module_source (raw : str) : res (mpkg * str) :=
  let '(raw, sub) := split_sub_path raw in
  let sub := match sub with [] => [] | _ => clean sub end in
  if has_prefix sub dotdotslash then Rej
  else
    let parts := split_on slash raw in
    do (host, parts) <-
       (match parts with
        | [a; b; c] => Ok (default_host, parts)
        | [h; a; b; c] =>
            do host <- host_for_comparison h;
            if mem_char dot host then Ok (host, [a; b; c]) else Rej
        | _ => Rej
        end);
    if str_eqb host (s2l "github.com") ||| str_eqb host (s2l "bitbucket.org") then Rej
    else
      match parts with
      | [a; b; c] =>
          if registry_name_ok a &&& registry_name_ok b &&& target_system_ok c
          then Ok (mkMpkg host a b c, sub) else Rej
      | _ => Rej
      end.

Definition looks_like_registry (s : str) : res bool :=
  match parse_module_source s with Ok _ => Ok true | Rej => Ok false | Out => Out end.

(* ParseRegistrySource *)
Definition parse_registry (given : str) : res (mpkg * str) :=
  let '(pkg_raw, sub_raw) := split_sub_path given in
  do sub <- norm_sub sub_raw;
  do (p, _) <- parse_module_source pkg_raw;
  Ok (p, sub).

Definition parse_registry_pkg (given : str) : res mpkg :=
  do (p, sub) <- parse_registry given;
  match sub with [] => Ok p | _ => Rej end.

(* Hostname.ForDisplay is the identity on the ASCII hosts of the model *)
Definition mpkg_string (p : mpkg) : str :=
  m_host p ++ [slash] ++ m_ns p ++ [slash] ++ m_name p ++ [slash] ++ m_sys p.
Definition registry_string (p : mpkg) (sub : str) : str :=
  match sub with [] => mpkg_string p | _ => mpkg_string p ++ [slash; slash] ++ sub end.

(* ---------- versions ---------- *)
Record version := mkVer { v_major : N; v_minor : N; v_patch : N; v_pre : str; v_meta : str }.

Definition is_extra_char (c : ascii) : bool := is_alnum c ||| Ascii.eqb c dot ||| Ascii.eqb c hyphen.
Definition max_u64 : N := 18446744073709551615.

(* versions.ParseVersion, as its generated scanner behaves:
   digits(.digits){0,2}(-extra)?(+extra)? where a token cut short by the end of
   the string is tolerated: a final "." after a number, a final "-" or "+"
   with nothing after it.  A number that does not fit 64 bits is an error
   (sourceaddrs turns the library's panic into one). *)
Definition parse_version (s : str) : option version :=
  let '(nums, rest) := span (fun c => is_digit c ||| Ascii.eqb c dot) s in
  let parts0 := split_on dot nums in
  let parts := if is_empty rest &&& is_empty (last parts0 [dot]) &&& Nat.ltb 1 (length parts0)
               then removelast parts0 else parts0 in
  if is_empty nums ||| existsb is_empty parts ||| Nat.ltb 3 (length parts) then None
  else if existsb (fun p => N.ltb max_u64 (digits_val p)) parts then None
  else
    let '(pre, rest) := match rest with
                        | c :: r => if Ascii.eqb c hyphen then let '(e, r') := span is_extra_char r in (Some e, r')
                                    else (None, rest)
                        | [] => (None, [])
                        end in
    let pre_ok := match pre with Some [] => is_empty rest | _ => true end in
    let '(meta, rest) := match rest with
                         | c :: r => if Ascii.eqb c c_plus then let '(e, r') := span is_extra_char r in (Some e, r')
                                     else (None, rest)
                         | [] => (None, [])
                         end in
    match rest with
    | _ :: _ => None
    | [] =>
        if pre_ok then
          let n i := digits_val (nth i parts [ch 48]) in
          Some (mkVer (n 0) (n 1) (n 2) (match pre with Some e => e | None => [] end)
                      (match meta with Some e => e | None => [] end))
        else None
    end.

Definition version_string (v : version) : str :=
  print_N (v_major v) ++ [dot] ++ print_N (v_minor v) ++ [dot] ++ print_N (v_patch v)
  ++ (match v_pre v with [] => [] | e => hyphen :: e end)
  ++ (match v_meta v with [] => [] | e => c_plus :: e end).

(* ^(.+)@([^/]+)(//(.+))?$ : the last '@' whose remainder is a non-empty run
   without '/', followed by nothing or by "//" and at least one character *)
Definition tail_ok (r : str) : option (str * str) :=
  let '(v, more) := span (fun c => negb (Ascii.eqb c slash)) r in
  match v, more with
  | [], _ => None
  | _, [] => Some (v, [])
  | _, c1 :: c2 :: ((_ :: _) as sub) =>
      if Ascii.eqb c1 slash &&& Ascii.eqb c2 slash &&& negb (mem_char c_nl sub) then Some (v, sub) else None
  | _, _ => None
  end.

(* candidates from the right: pre_rev = reversed text before the '@' under consideration *)
Fixpoint final_split_go (pre_rev : str) (after : str) : option (str * str * str) :=
  match pre_rev with
  | [] => None
  | c :: pre_rev' =>
      if Ascii.eqb c c_at &&& negb (is_empty pre_rev') &&& negb (mem_char c_nl pre_rev') then
        match tail_ok after with
        | Some (v, sub) => Some (rev pre_rev', v, sub)
        | None => final_split_go pre_rev' (c :: after)
        end
      else final_split_go pre_rev' (c :: after)
  end.
Definition final_split (s : str) : option (str * str * str) :=
  final_split_go (rev s) [].

(* the address and version text ParseFinalRegistrySource extracts *)
Definition final_parts (s : str) : str * str :=
  match final_split s with
  | Some (a, v, sub) => (a ++ [slash; slash] ++ sub, v)
  | None => ([], [])
  end.

Definition looks_like_final_registry (s : str) : res bool := looks_like_registry (fst (final_parts s)).

Definition parse_final_registry (given : str) : res (mpkg * version * str) :=
  let '(addr, ver) := final_parts given in
  match parse_version ver with
  | None => Rej
  | Some v => do (p, sub) <- parse_registry addr; Ok (p, v, sub)
  end.

Definition final_registry_string (p : mpkg) (v : version) (sub : str) : str :=
  mpkg_string p ++ [c_at] ++ version_string v ++ (match sub with [] => [] | _ => [slash; slash] ++ sub end).

(* ---------- the address values and the two general parsers ---------- *)
Inductive addr :=
| ALocal (rel : str)
| ARegistry (p : mpkg) (sub : str)
| ARemote (p : rpkg) (sub : str)
| ARegistryFinal (p : mpkg) (v : version) (sub : str).

Definition addr_string (a : addr) : str :=
  match a with
  | ALocal r => r
  | ARegistry p s => registry_string p s
  | ARemote p s => remote_string p s
  | ARegistryFinal p v s => final_registry_string p v s
  end.

(* strings.TrimSpace(given) != given, for strings whose first and last bytes are ASCII *)
Definition has_outer_space (s : str) : bool :=
  match s with
  | [] => false
  | c :: _ => is_space c ||| is_space (last s c)
  end.
Definition outer_ascii (s : str) : bool :=
  match s with [] => true | c :: _ => is_ascii_char c &&& is_ascii_char (last s c) end.

Definition is_local_form (s : str) : bool :=
  looks_like_local s ||| str_eqb s [dot] ||| str_eqb s [dot; dot].

Definition parse_source (given : str) : res addr :=
  if negb (outer_ascii given) then Out
  else if has_outer_space given then Rej
  else if is_empty given then Rej
  else if is_local_form given then
    match parse_local given with Some r => Ok (ALocal r) | None => Rej end
  else
    do reg <- looks_like_registry given;
    if reg then do (p, sub) <- parse_registry given; Ok (ARegistry p sub)
    else do (p, sub) <- parse_remote given; Ok (ARemote p sub).

Definition parse_final_source (given : str) : res addr :=
  if negb (outer_ascii given) then Out
  else if has_outer_space given then Rej
  else if is_empty given then Rej
  else if is_local_form given then
    match parse_local given with Some r => Ok (ALocal r) | None => Rej end
  else
    do reg <- looks_like_final_registry given;
    if reg then do (p, v, sub) <- parse_final_registry given; Ok (ARegistryFinal p v sub)
    else do (p, sub) <- parse_remote given; Ok (ARemote p sub).
