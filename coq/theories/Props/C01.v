(* C01 — Unpack never touches anything outside the destination directory. *)
From Slug Require Import Base.Str Base.PathAlg FS.FS FS.FSProofs Slug.Unpack Slug.UnpackSafe.

(* For every file system, every clean absolute destination that is a real
   directory chain (dst and its ancestors are directories, not links), every
   list of decoded entries - any names, link targets, types, order, repetition -
   every allow list, as root or not, and whatever the result class: the file
   system Unpack leaves is the initial one with only the subtree at dst
   replaced.  Nothing outside it is created, removed, overwritten, chmod-ed or
   re-timed. *)
Theorem C01_unpack_outside_unchanged :
  forall is_root allow fs dst es fs' r,
    dst_ok dst -> is_dir fs = true -> rdir fs (comps_of dst) ->
    unpack is_root allow fs dst es = (fs', r) ->
    exists d, fs' = put fs (comps_of dst) d.
Proof. exact unpack_outside_unchanged. Qed.

(* A stream that fails or is truncated after k complete entries is the run on
   the first k entries: same guarantee at every fault position. *)
Theorem C01_fault_prefix :
  forall is_root allow fs dst es k fs' r,
    dst_ok dst -> is_dir fs = true -> rdir fs (comps_of dst) ->
    unpack is_root allow fs dst (firstn k es) = (fs', r) ->
    exists d, fs' = put fs (comps_of dst) d.
Proof. exact unpack_prefix_outside_unchanged. Qed.

(* The mechanism: resolution of a path none of whose existing components is a
   symlink is lexical (or fails), so every primitive acts at the path it names. *)
Theorem C01_lexical_resolution :
  forall fs fl lp ph, is_dir fs = true -> forallb plainb lp = true ->
    (nolink fs lp \/ (fl = false /\ nolink fs (removelast lp))) ->
    resolve fs fl lp = Ok ph -> ph = lp /\ rdir fs (removelast lp).
Proof. exact resolve_lexical. Qed.

(* Non-vacuity: a hostile archive on a concrete tree (sibling prefix, ".." after
   a missing component, file entry on an accepted link) changes nothing outside. *)
Example C01_nonvacuous :
  let fs := Dir 493 None [(s2l "w", Dir 493 None
              [(s2l "dst", Dir 493 None []); (s2l "dst-evil", Dir 493 None [(s2l "x", File (s2l "e") 420 None)]);
               (s2l "victim", File (s2l "v") 420 None)])] in
  dst_ok (s2l "/w/dst") /\ is_dir fs = true /\ rdir fs (comps_of (s2l "/w/dst")) /\
  forall es, In es
    [ [mkEntry (s2l "../dst-evil/x") 48 [] 420 0 (s2l "pwn")];
      [mkEntry (s2l "l") 50 (s2l ".") 511 0 []; mkEntry (s2l "nx/../l/../../victim") 48 [] 420 0 (s2l "pwn")];
      [mkEntry (s2l "a") 50 (s2l ".") 511 0 []; mkEntry (s2l "b") 50 (s2l "a/../victim") 511 0 []; mkEntry (s2l "b") 48 [] 420 0 (s2l "pwn")] ] ->
    get (fst (unpack true [] fs (s2l "/w/dst") es)) [s2l "w"; s2l "victim"] = Some (File (s2l "v") 420 None) /\
    get (fst (unpack true [] fs (s2l "/w/dst") es)) [s2l "w"; s2l "dst-evil"; s2l "x"] = Some (File (s2l "e") 420 None).
Proof.
  cbn zeta. split; [split; reflexivity|]. split; [reflexivity|]. split; [cbn; exact I|].
  intros es [<-|[<-|[<-|[]]]]; vm_compute; split; reflexivity.
Qed.

Print Assumptions C01_unpack_outside_unchanged.
Print Assumptions C01_fault_prefix.
Print Assumptions C01_lexical_resolution.
