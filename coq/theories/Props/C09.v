(* C09 — A bundle survives being re-opened and archived.
   Only statements, each closed by [exact] of a lemma proved elsewhere.

   Close returns OpenDir of the directory it wrote, so the bundle a caller
   holds is [open_dir root m] for the manifest document m in that directory;
   re-opening evaluates the same function on the same document, and extraction
   evaluates it on the same document under another root (the manifest file is
   carried through the archive like every other file: C02).  What has to be
   shown is therefore that nothing a bundle answers depends on the root other
   than as a prefix, nor on anything but the document. *)
From Coq Require Import Permutation.
From Slug Require Import Base.Str Base.PathAlg Base.PathLemmas Addr.Resolve Addr.ResolveProofs
  Addr.Url Addr.Parse Bundle.Lookup Bundle.LookupProofs Bundle.BestKey Bundle.ManifestRT.

(* the same packages, metadata, registry packages, versions, source addresses and
   deprecation notes, whichever directory the manifest is opened in; and it opens
   in one iff it opens in the other *)
Theorem C09_root_independent :
  forall r1 r2 m,
    match open_dir r1 m, open_dir r2 m with
    | Ok b1, Ok b2 => b_dirs b1 = b_dirs b2 /\ b_meta b1 = b_meta b2 /\ b_reg b1 = b_reg b2 /\ b_depr b1 = b_depr b2
                      /\ b_root b1 = r1 /\ b_root b2 = r2
    | Rej, Rej => True
    | Out, Out => True
    | _, _ => False
    end.
Proof. exact open_dir_root_independent. Qed.
Print Assumptions C09_root_independent.

(* the same answer to every forward lookup relative to the root *)
Theorem C09_forward_lookups_relative :
  forall r1 r2 m b1 b2 p sub, open_dir r1 m = Ok b1 -> open_dir r2 m = Ok b2 ->
    is_rooted r1 = true -> is_rooted r2 = true -> valid_sub sub ->
    match local_path_remote b1 p sub, local_path_remote b2 p sub with
    | Some p1, Some p2 => exists rel, comps p1 = comps r1 ++ rel /\ comps p2 = comps r2 ++ rel
    | None, None => True
    | _, _ => False
    end.
Proof.
  intros r1 r2 m b1 b2 p sub H1 H2 Hr1 Hr2 Hv.
  pose proof (open_dir_root_independent r1 r2 m) as H. rewrite H1, H2 in H.
  destruct H as (Hd & _ & _ & _ & Hb1 & Hb2).
  destruct (open_dir_dirs r1 m b1 H1) as [_ Hinv].
  rewrite <- Hb1, <- Hb2 in *. now apply forward_root_relative.
Qed.
Print Assumptions C09_forward_lookups_relative.

(* the same answer to every reverse lookup of corresponding paths *)
Theorem C09_reverse_lookups_relative :
  forall r1 r2 m b1 b2 p1 p2 rel, open_dir r1 m = Ok b1 -> open_dir r2 m = Ok b2 ->
    comps p1 = comps r1 ++ rel -> comps p2 = comps r2 ++ rel ->
    source_for_local_path b1 p1 = source_for_local_path b2 p2.
Proof.
  intros r1 r2 m b1 b2 p1 p2 rel H1 H2 Hp1 Hp2.
  pose proof (open_dir_root_independent r1 r2 m) as H. rewrite H1, H2 in H.
  destruct H as (Hd & _ & _ & _ & Hb1 & Hb2).
  apply (reverse_root_relative b1 b2 p1 p2 rel Hd); now rewrite ?Hb1, ?Hb2.
Qed.
Print Assumptions C09_reverse_lookups_relative.

(* among aliases sharing a directory the reverse lookup's answer is fixed by the manifest *)
Theorem C09_reverse_choice_is_deterministic :
  forall b path d sub cands, source_for_local_path b path = Some (d, sub, cands) ->
    forall c c', In c cands -> In c' cands -> rpkg_string c = rpkg_string c'.
Proof. exact reverse_choice_deterministic. Qed.
Print Assumptions C09_reverse_choice_is_deterministic.

(* the reverse lookup walks a Go map from package to directory in no fixed order; its choice -
   the minimum of a strict total order on printed addresses - and so its whole answer is the
   same for every order (before the repair fc9a62f equally short aliases were a coin toss) *)
Theorem C09_reverse_lookup_visiting_order_irrelevant :
  forall b b' path, b_root b = b_root b' -> Permutation.Permutation (b_dirs b) (b_dirs b') ->
    match source_for_local_path b path, source_for_local_path b' path with
    | Some (d, sub, cs), Some (d', sub', cs') => d = d' /\ sub = sub' /\ Permutation.Permutation cs cs'
    | None, None => True
    | _, _ => False
    end.
Proof. exact reverse_lookup_order_irrelevant. Qed.
Print Assumptions C09_reverse_lookup_visiting_order_irrelevant.

(* the versions of a registry entry form a JSON object, which Go decodes into a map
   and visits in no particular order: any two visiting orders of the same members
   (no version named twice) give the same source address and deprecation note for
   every version, or are refused alike *)
Theorem C09_version_visiting_order_irrelevant :
  forall vs vs' srcs deprs,
    Permutation.Permutation vs vs' ->
    (forall a b ma mb, In a vs -> In b vs -> member_ok a = Some ma -> member_ok b = Some mb ->
       fst (fst ma) = fst (fst mb) -> ma = mb) ->
    match load_versions vs srcs deprs, load_versions vs' srcs deprs with
    | Ok (s1, d1), Ok (s2, d2) =>
        forall v, alookup version_eqb v s1 = alookup version_eqb v s2 /\ alookup version_eqb v d1 = alookup version_eqb v d2
    | Ok _, _ | _, Ok _ => False
    | _, _ => True
    end.
Proof. exact load_versions_order_irrelevant. Qed.
Print Assumptions C09_version_visiting_order_irrelevant.

(* non-vacuity: equally short aliases of one directory; the bytewise smaller one is chosen under either root *)
Definition tie_manifest : manifest :=
  mkManifest 1
    [mkMPackage (s2l "git::https://example.org/q0.git") (s2l "d") [] [];
     mkMPackage (s2l "git::https://example.com/p0.git") (s2l "d") [] []] [].

Definition tie_check (root : string) : bool :=
  match open_dir (s2l root) tie_manifest with
  | Ok b => match source_for_local_path b (s2l root ++ s2l "/d/x") with
            | Some (_, sub, [c]) => str_eqb sub (s2l "x") && str_eqb (rpkg_string c) (s2l "git::https://example.com/p0.git")
            | _ => false
            end
  | _ => false
  end.
Example C09_tie_example : tie_check "/bundle" = true /\ tie_check "/somewhere/else" = true.
Proof. vm_compute. split; reflexivity. Qed.

(* What Close writes, OpenDir reads back (the package section of the manifest).
   For every directory table of the builder that is a map (one directory per
   package) whose package addresses print to text that parses back to them (C06)
   and whose directory names are plain ASCII names, and every metadata table:
   the document written by writeManifest - one record per package, sorted by the
   printed address - is accepted by OpenDir, and the opened bundle knows exactly
   the builder's packages, each in the builder's directory, with the builder's
   metadata (an entry that carries nothing comes back as none).  The same holds
   for the records in any other order. *)
Theorem C09_what_close_writes_open_reads :
  forall dirs meta,
    NoDup (map fst dirs) ->
    (forall p d, In (p, d) dirs ->
       all_ascii d = true /\ local_dir_ok d = true /\ parse_remote_pkg (rpkg_string p) = Ok p) ->
    exists dirs' meta',
      load_packages (write_packages dirs meta) [] [] = Ok (dirs', meta') /\
      (forall k, alookup rpkg_eqb k dirs' = alookup rpkg_eqb k (load_all rpkg_eqb dirs [])) /\
      (forall k, alookup rpkg_eqb k meta' = expected_meta dirs meta k).
Proof. exact reopen_written. Qed.

(* the hypotheses are satisfiable, and the lookups of the reopened bundle are the builder's *)
Example C09_close_open_instance :
  match parse_remote_pkg (s2l "git::https://example.com/p0.git?ref=v2"), parse_remote_pkg (s2l "https://example.org/dl/p4.tar.gz") with
  | Ok p0, Ok p4 =>
      let dirs := [(p4, s2l "Lz6d5l"); (p0, s2l "IgH0C3")] in
      let meta := [(p0, (s2l "abc123", [])); (p4, ([], []))] in
      parse_remote_pkg (rpkg_string p0) = Ok p0 /\ parse_remote_pkg (rpkg_string p4) = Ok p4 /\
      map mp_source (write_packages dirs meta) = [s2l "git::https://example.com/p0.git?ref=v2"; s2l "https://example.org/dl/p4.tar.gz"] /\
      match open_dir (s2l "/b") (mkManifest 1 (write_packages dirs meta) []) with
      | Ok b => local_path_remote b p0 (s2l "sub") = Some (s2l "/b/IgH0C3/sub") /\
                alookup rpkg_eqb p0 (b_meta b) = Some (s2l "abc123", []) /\ alookup rpkg_eqb p4 (b_meta b) = None
      | _ => False
      end
  | _, _ => False
  end.
Proof. vm_compute. repeat split. Qed.

(* ... and the registry section.  For the builder's two registry tables (resolved
   (package, version) -> source address; -> deprecation note), maps with the
   same keys: every registry section whose records parse and whose bindings
   are exactly the tables' entries - in any order, grouped by package or not,
   OpenDir merging the records of one package - is read back as those tables:
   the same registry packages, versions, source addresses and deprecation
   notes.  A section of that kind exists whenever the printed forms parse back
   (C06): one record per entry ([entry_record]). *)
Theorem C09_registry_section_read_back :
  forall R Dp, NoDup (map fst R) -> NoDup (map fst Dp) ->
  forall regs,
    (forall r, In r regs -> record_parses r) ->
    Permutation R (reg_bindings regs) -> Permutation Dp (depr_bindings regs) ->
    exists reg' depr',
      load_registry regs [] [] = Ok (reg', depr') /\
      (forall p v, lookup2 p v reg' = table_get R p v) /\
      (forall p v, lookup2 p v depr' = table_get Dp p v).
Proof. exact reopen_registry. Qed.

Theorem C09_written_registry_read_back :
  forall R Dp, NoDup (map fst R) -> NoDup (map fst Dp) -> map fst Dp = map fst R ->
    (forall p v rp sub, In ((p, v), (rp, sub)) R ->
       parse_registry_pkg (mpkg_string p) = Ok p /\ parse_version (version_string v) = Some v /\
       parse_remote (remote_string rp sub) = Ok (rp, sub)) ->
    exists reg' depr',
      load_registry (map (entry_record Dp) R) [] [] = Ok (reg', depr') /\
      (forall p v, lookup2 p v reg' = table_get R p v) /\
      (forall p v, lookup2 p v depr' = table_get Dp p v).
Proof. exact reopen_written_registry. Qed.

Print Assumptions C09_what_close_writes_open_reads.
Print Assumptions C09_registry_section_read_back.
Print Assumptions C09_written_registry_read_back.
