(* C10 — Bundle package directories are sanitised.
   Only statements, each closed by [exact] of a lemma proved elsewhere.
   [prepare rules W fuel fs] is what the builder does to the package it has
   just fetched into its working directory W of the file system fs (removal of
   what the rules exclude, validation of every other entry, reading of every
   remaining non-directory for the content hash); WDone fs' = the package is
   accepted and fs' is the file system afterwards; it is then renamed. *)
From Slug Require Import Base.Str Base.PathAlg FS.FS FS.FSProofs Ignore.Rules Slug.Unpack Slug.Pack
  Bundle.Prepare Bundle.PrepareProofs.

(* In an accepted package every entry is a regular file, a directory, or a link
   - with a relative target - that resolves physically to a regular file inside
   the package directory; nothing the rules exclude (as a name, or as a
   directory) is left; and the file system afterwards is the one before with
   subtrees removed (nothing is created or altered). *)
Theorem C10_prepared_package_is_sane :
  forall rules W fuel fs fs', prepare rules W fuel fs = WDone fs' ->
    subfs fs' fs /\
    forall rel n, rel <> [] -> get fs' (W ++ rel) = Some n ->
      not_excl rules rel n /\
      match n with
      | File _ _ _ | Dir _ _ _ => True
      | Special _ => forallb plainb (W ++ rel) = true -> False
      | Link t =>
          is_rooted t = false /\
          exists ph d pm mt, resolve fs' true (W ++ rel) = Ok ph /\
                             get fs' ph = Some (File d pm mt) /\ is_prefix W ph = true
      end.
Proof. exact prepared_sane. Qed.
Print Assumptions C10_prepared_package_is_sane.

(* only what the rules exclude (or what lies below it) is removed *)
Theorem C10_only_excluded_removed :
  forall rules W fuel fs fs' rel n, prepare rules W fuel fs = WDone fs' ->
    get fs (W ++ rel) = Some n -> ~ excluded_above rules rel ->
    exists n', get fs' (W ++ rel) = Some n' /\ same_node n' n.
Proof. exact prepare_keeps. Qed.
Print Assumptions C10_only_excluded_removed.

(* a special file that no rule removes makes the build fail *)
Theorem C10_special_file_fails :
  forall rules W fuel fs rel k, rel <> [] -> forallb plainb (W ++ rel) = true ->
    get fs (W ++ rel) = Some (Special k) -> ~ excluded_above rules rel ->
    forall fs', prepare rules W fuel fs <> WDone fs'.
Proof. exact special_file_fails. Qed.
Print Assumptions C10_special_file_fails.

(* so does a link that no rule removes, unless - in the fetched tree already - it has a relative
   target and resolves to a regular file inside the package: links that leave the package
   (to a sibling package, the manifest, out of the bundle) and dangling links fail the build *)
Theorem C10_link_must_resolve_inside :
  forall rules W fuel fs fs' rel t, rel <> [] -> prepare rules W fuel fs = WDone fs' ->
    get fs (W ++ rel) = Some (Link t) -> ~ excluded_above rules rel ->
    is_rooted t = false /\
    exists ph d pm mt, resolve fs true (W ++ rel) = Ok ph /\ get fs ph = Some (File d pm mt) /\ is_prefix W ph = true.
Proof. exact kept_link_resolves_inside. Qed.
Print Assumptions C10_link_must_resolve_inside.

(* nothing outside the working directory is touched: every path that neither lies
   below W nor leads to it names the same node before and after *)
Theorem C10_outside_untouched :
  forall rules W fuel fs fs', prepare rules W fuel fs = WDone fs' ->
    forall q, is_prefix W q = false -> is_prefix q W = false -> get fs' q = get fs q.
Proof. exact prepare_outside. Qed.
Print Assumptions C10_outside_untouched.

(* path resolution is monotone under deletion: the lemma that makes "validated
   when visited" and "read at the end" add up to "inside at the end" *)
Theorem C10_resolution_monotone_under_deletion :
  forall fs' fs fl, subfs fs' fs -> forall links todo cur ph,
    walk links fs' fl cur todo = Ok ph -> (exists n, get fs' ph = Some n) ->
    walk links fs fl cur todo = Ok ph.
Proof. exact walk_sub. Qed.
Print Assumptions C10_resolution_monotone_under_deletion.

(* non-vacuity: an accepted package with an in-package link and an ignored
   directory holding an escaping link; and rejected ones *)
Definition ex_fs (pkg : list (str * node)) : node :=
  Dir 493 None [(s2l "outside", Dir 493 None [(s2l "secret", File (s2l "s") 420 None)]);
                (s2l "bundle", Dir 493 None [(s2l ".tmp-1", Dir 493 None pkg)])].
Definition ex_W : list str := [s2l "bundle"; s2l ".tmp-1"].
Definition ex_rules (text : string) : list rule :=
  match fst (read_rules pristine_flags (s2l text)) with POk rs => rs | PPanic => [] end.
Definition accepted (r : wres) : bool := match r with WDone _ => true | _ => false end.

Example C10_examples :
  (* accepted: a link to a file of the package; logs/ (with its escaping link) removed *)
  (match prepare (ex_rules "logs/") ex_W 50
           (ex_fs [(s2l "main.tf", File (s2l "m") 420 None); (s2l "ln", Link (s2l "main.tf"));
                   (s2l "logs", Dir 493 None [(s2l "out", Link (s2l "/outside/secret"))])]) with
   | WDone fs' => match get fs' (ex_W ++ [s2l "logs"]), get fs' (ex_W ++ [s2l "ln"]) with
                  | None, Some (Link _) => true | _, _ => false end
   | _ => false end) = true /\
  (* rejected: out of the bundle, absolute, dangling, to a directory, special file, into the temporary directory by name *)
  accepted (prepare (ex_rules "") ex_W 50 (ex_fs [(s2l "out", Link (s2l "../../outside/secret"))])) = false /\
  accepted (prepare (ex_rules "") ex_W 50 (ex_fs [(s2l "abs", Link (s2l "/bundle/.tmp-1/main.tf")); (s2l "main.tf", File [] 420 None)])) = false /\
  accepted (prepare (ex_rules "") ex_W 50 (ex_fs [(s2l "dangling", Link (s2l "nowhere"))])) = false /\
  accepted (prepare (ex_rules "") ex_W 50 (ex_fs [(s2l "d", Dir 493 None []); (s2l "ln", Link (s2l "d"))])) = false /\
  accepted (prepare (ex_rules "") ex_W 50 (ex_fs [(s2l "pipe", Special 1)])) = false /\
  accepted (prepare (ex_rules "") ex_W 50 (ex_fs [(s2l "re", Link (s2l "../.tmp-1/main.tf")); (s2l "main.tf", File [] 420 None)])) = false.
Proof. vm_compute. repeat split. Qed.
