(* C08 — A finished bundle contains everything that was added or discovered. *)
From Slug Require Import Base.Str Base.PathAlg Addr.Resolve Addr.ResolveProofs
  Bundle.Versions Bundle.Builder Bundle.BuilderProofs Bundle.BuilderTrace.
From Slug Require Addr.Url Addr.Parse Bundle.Lookup Bundle.ManifestRT Bundle.ClosedBundle.

(* For every world (fetcher, registry, finders as total functions), every
   sequence of Add calls and Close, with any fuel: if no operation reported an
   error (and none was refused), then at the end
   - every item reachable from the Add calls through reported dependencies,
     registry resolution and relative resolution has been analysed (registry
     requests: resolved by the world-level selection, and the resulting
     artifact analysed);
   - nothing else was analysed;
   - every analysed artifact's package is in the package table with exactly the
     content the fetcher produced;
   - version lists, resolved (package, version) -> source entries and package
     directories in the tables equal what the world's functions return. *)
Theorem C08_build_is_closure :
  forall fuel w ops st outs,
    run_ops fuel w init_state ops = (st, outs) ->
    forallb ok_outcome outs = true ->
    (forall i, reach w (roots_of ops) i -> done w st i) /\
    (forall a, In a (analyzed st) -> reach w (roots_of ops) (IRem a)) /\
    (forall a, In a (analyzed st) ->
       exists c m, assoc str_eqb (fst (fst a)) (dirs st) = Some c /\ w_fetch w (fst (fst a)) = Some (c, m)) /\
    cache_ok w st.
Proof. exact build_is_closure. Qed.

(* Registry lookups with cached tables give the same answer as the world-level
   selection, whatever was resolved before (cache reuse is transparent). *)
Theorem C08_registry_resolution_is_cache_independent :
  forall w st p sub sid, cache_ok w st ->
    snd (find_registry_source w st p sub sid) = resolve_registry w p sub sid.
Proof.
  intros w st p sub sid H. pose proof (find_registry_source_spec w st p sub sid H) as Hs.
  destruct (find_registry_source w st p sub sid). exact (proj1 Hs).
Qed.

(* Metadata supplied by the fetcher is retrievable unchanged: in every run, the
   bundle's metadata table holds, for each fetched package, exactly the metadata
   the fetcher returned with it, and nothing else. *)
Theorem C08_metadata_retrievable :
  forall fuel w ops st outs,
    run_ops fuel w init_state ops = (st, outs) ->
    forall p m, In (p, m) (metas st) <->
      exists c c', In (p, c) (dirs st) /\ w_fetch w p = Some (c', Some m).
Proof.
  intros fuel w ops st outs Hr p m.
  pose proof (metadata_recorded w fuel ops init_state st outs eq_refl Hr) as H.
  unfold meta_inv in H. rewrite H. apply metas_of_in.
Qed.

(* End to end, through the manifest: after an error-free build, take the
   document Close writes for the builder's package table (every package string
   being the printed form of an address value - C06 - and every content having a
   plain directory name, as the hash-derived names are) with any registry
   section that loads.  OpenDir accepts it, and the bundle it returns looks up
   every source that was added or discovered - transitively, through finder
   reports, registry resolution and relative resolution - at
   <root>/<directory of the package's content>/<sub-path>: inside the bundle
   directory, in the directory that holds exactly the fetched content. *)
Theorem C08_closed_bundle_lookups :
  forall (vof : pkg -> Parse.rpkg) (dname : content -> str),
    (forall c, Parse.all_ascii (dname c) = true /\ Lookup.local_dir_ok (dname c) = true) ->
  forall fuel w ops st outs root regs reg depr,
    run_ops fuel w init_state ops = (st, outs) ->
    forallb ok_outcome outs = true ->
    (forall p, In p (map fst (dirs st)) -> Parse.parse_remote_pkg p = Url.Ok (vof p) /\ Parse.rpkg_string (vof p) = p) ->
    Lookup.load_registry regs [] [] = Url.Ok (reg, depr) ->
    exists b,
      Lookup.open_dir root (Lookup.mkManifest 1
          (ManifestRT.write_packages (ClosedBundle.dir_table vof dname st) (ClosedBundle.meta_table vof st)) regs) = Url.Ok b /\
      forall a, reach w (roots_of ops) (IRem a) ->
        exists c, assoc str_eqb (fst (fst a)) (dirs st) = Some c /\
                  Lookup.local_path_remote b (vof (fst (fst a))) (snd (fst a))
                  = Some (Lookup.join3 root (dname c) (snd (fst a))).
Proof. exact ClosedBundle.closed_bundle_lookups. Qed.

(* Relative dependencies resolve inside the declaring package: same package,
   valid sub-path (from C11). *)
Theorem C08_relative_inside_package :
  forall src rel f i, valid_sub (snd src) -> rel_ok rel ->
    dep_item src (DLocal rel f) = Some i ->
    exists n, i = IRem ((fst src, n), f) /\ valid_sub n.
Proof.
  intros src rel f i Hv Hr. cbn. destruct (join_sub_path (snd src) rel) as [n|] eqn:E; [|discriminate].
  intros [= <-]. exists n. split; [reflexivity|]. eapply join_sub_path_valid; eauto.
Qed.

Example C08_nonvacuous :
  let w := {| w_fetch := fun p => Some (0%N, None);
              w_versions := fun _ => None; w_source := fun _ _ => None;
              w_deps := fun c sub f => if is_empty sub then ([DLocal (s2l "./m") f], []) else ([], []);
              w_allowed := fun _ _ => true |} in
  let '(st, outs) := run_ops 50 w init_state [AddRemote (s2l "pkg", []) 0%N; Close] in
  forallb ok_outcome outs = true /\ length (analyzed st) = 2.
Proof. vm_compute. split; reflexivity. Qed.

Print Assumptions C08_build_is_closure.
Print Assumptions C08_registry_resolution_is_cache_independent.
Print Assumptions C08_relative_inside_package.
Print Assumptions C08_metadata_retrievable.
Print Assumptions C08_closed_bundle_lookups.
