(* C14 — The builder does each piece of work once. *)
From Slug Require Import Base.Str Bundle.Versions Bundle.Builder Bundle.BuilderProofs Bundle.BuilderTrace.

(* In every run (error-free or not, any graph shape: diamonds, self references,
   cycles), the log of dependency-analysis calls is exactly the list of analysed
   (source address, finder) pairs and that list has no repetition. *)
Theorem C14_analyse_once :
  forall fuel w ops st outs,
    run_ops fuel w init_state ops = (st, outs) ->
    NoDup (analyzed st) /\ analyze_log st = map CAnalyze (analyzed st).
Proof.
  intros fuel w ops st outs Hr.
  exact (analyse_once fuel w ops init_state st outs once_inv_init Hr).
Qed.

(* Where fetching never fails, the log of fetch calls is exactly the key list
   of the package table, without repetition: one fetch per distinct package. *)
Theorem C14_fetch_once :
  forall fuel w ops st outs,
    (forall q, w_fetch w q <> None) ->
    run_ops fuel w init_state ops = (st, outs) ->
    NoDup (map fst (dirs st)) /\ fetch_log st = map CFetch (map fst (dirs st)).
Proof.
  intros fuel w ops st outs Htot Hr.
  exact (fetch_once fuel w Htot ops init_state st outs fetch_inv_init Hr).
Qed.

(* Where the registry never fails, the version list of each registry package is
   requested exactly once and the source address of each selected version is
   requested exactly once: the logs of those calls are the key lists of the two
   registry tables, which have no repetition. *)
Theorem C14_registry_once :
  forall fuel w ops st outs,
    (forall p, w_versions w p <> None) -> (forall p v, w_source w p v <> None) ->
    run_ops fuel w init_state ops = (st, outs) ->
    NoDup (map fst (vcache st)) /\ versions_log st = map CVersions (map fst (vcache st)) /\
    NoDup (map fst (resolved st)) /\
    source_log st = map (fun k => CSource (fst k) (snd k)) (map fst (resolved st)).
Proof.
  intros fuel w ops st outs Hv Hs Hr.
  exact (registry_once w Hv Hs fuel ops init_state st outs registry_inv_init Hr).
Qed.

(* The trace, in every run (failing fetches and registry calls, errors, any
   graph shape, any sequence of Add calls): read in time order, every 'start'
   event is immediately followed by its own success or failure event and by
   nothing else, and every 'already' event has the success of the same piece of
   work among the events before it. *)
Theorem C14_trace_start_then_outcome :
  forall fuel w ops st outs,
    run_ops fuel w init_state ops = (st, outs) ->
    forall newer older e, trace st = newer ++ e :: older ->
      match e with
      | EVersionsStart p => exists n, newer = n ++ [EVersionsSuccess p] \/ newer = n ++ [EVersionsFailure p]
      | ESourceStart p v => exists n, newer = n ++ [ESourceSuccess p v] \/ newer = n ++ [ESourceFailure p v]
      | EDownloadStart p => exists n, newer = n ++ [EDownloadSuccess p] \/ newer = n ++ [EDownloadFailure p]
      | _ => True
      end.
Proof.
  intros fuel w ops st outs Hr.
  exact (wf_trace_start_followed _ (proj1 (trace_well_formed w fuel ops init_state st outs trace_inv_init Hr))).
Qed.

Theorem C14_trace_already_after_success :
  forall fuel w ops st outs,
    run_ops fuel w init_state ops = (st, outs) ->
    forall newer older e, trace st = newer ++ e :: older ->
      match e with
      | EVersionsAlready p => In (EVersionsSuccess p) older
      | ESourceAlready p v => In (ESourceSuccess p v) older
      | EDownloadAlready p => In (EDownloadSuccess p) older
      | _ => True
      end.
Proof.
  intros fuel w ops st outs Hr.
  exact (wf_trace_already _ (proj1 (trace_well_formed w fuel ops init_state st outs trace_inv_init Hr))).
Qed.

(* success and failure events only ever follow their own start (the converse bracket) *)
Theorem C14_trace_is_bracketed :
  forall fuel w ops st outs,
    run_ops fuel w init_state ops = (st, outs) -> wf_trace (trace st).
Proof.
  intros fuel w ops st outs Hr.
  exact (proj1 (trace_well_formed w fuel ops init_state st outs trace_inv_init Hr)).
Qed.

(* Together with C08_build_is_closure: in an error-free build the analysed set
   is exactly the reachable set, so each reachable pair is analysed exactly once. *)
Theorem C14_exactly_the_reachable_set :
  forall fuel w ops st outs,
    run_ops fuel w init_state ops = (st, outs) -> forallb ok_outcome outs = true ->
    forall a, In a (analyzed st) <-> reach w (roots_of ops) (IRem a).
Proof.
  intros fuel w ops st outs H O a. destruct (build_is_closure _ _ _ _ _ H O) as (C & S & _).
  split; [apply S|apply (C (IRem a))].
Qed.

(* Termination: for a world whose reachable artifacts and registry requests lie
   in a finite universe (U, G) closed under reported dependencies, relative
   resolution and registry resolution - cycles, diamonds and self references
   included - the queue-draining loop returns as soon as its fuel exceeds an
   explicit measure of the state, i.e. it never runs out of fuel. *)
Theorem C14_drain_terminates :
  forall w U G, universe_closed w U G ->
  forall fuel phase st ds, sinv w (uroots U G) st -> mu w U phase st < fuel ->
  exists res, drain fuel w phase st ds = Some res.
Proof. exact drain_terminates. Qed.

(* the measure is bounded by the queue lengths plus a constant of the universe *)
Theorem C14_measure_bound :
  forall w U phase st, mu w U phase st <= 2 * (weight st + total_cost w U) + 1.
Proof.
  intros w U phase st. unfold mu. pose proof (todo_le_total w U (analyzed st)).
  pose proof (switching_le phase st). lia.
Qed.

(* A cyclic world: concrete instance (non-vacuity). *)
Example C14_cycle_terminates :
  let w := {| w_fetch := fun p => Some (0%N, None);
              w_versions := fun _ => None; w_source := fun _ _ => None;
              w_deps := fun c sub f => ([DRemote (s2l "a", []) f; DRemote (s2l "b", []) f; DLocal (s2l "./") f], []);
              w_allowed := fun _ _ => true |} in
  let '(st, outs) := run_ops 40 w init_state [AddRemote (s2l "a", []) 0%N; AddRemote (s2l "b", []) 0%N; Close] in
  forallb ok_outcome outs = true /\ length (analyzed st) = 2 /\ length (fetch_log st) = 2.
Proof. vm_compute. repeat split. Qed.

(* a registry world with a diamond: two sources of one registry package *)
Example C14_registry_instance :
  let w := {| w_fetch := fun p => Some (0%N, None);
              w_versions := fun _ => Some [(mkV 1 0 0 [] [], None)];
              w_source := fun _ _ => Some (s2l "git::https://example.com/r.git", []);
              w_deps := fun c sub f => ([], []);
              w_allowed := fun _ _ => true |} in
  let '(st, outs) := run_ops 40 w init_state
       [AddRegistry (s2l "example.com/a/b/c") [] 0%N 0%N; AddRegistry (s2l "example.com/a/b/c") (s2l "sub") 0%N 0%N; Close] in
  forallb ok_outcome outs = true /\ length (versions_log st) = 1 /\ length (source_log st) = 1 /\ length (trace st) = 9.
Proof. vm_compute. repeat split. Qed.

Print Assumptions C14_drain_terminates.
Print Assumptions C14_measure_bound.
Print Assumptions C14_analyse_once.
Print Assumptions C14_fetch_once.
Print Assumptions C14_exactly_the_reachable_set.
Print Assumptions C14_registry_once.
Print Assumptions C14_trace_start_then_outcome.
Print Assumptions C14_trace_already_after_success.
Print Assumptions C14_trace_is_bracketed.
