(* C20 — The metadata Pack returns describes the slug it wrote. *)
From Slug Require Import Base.Str FS.FS Slug.Unpack Slug.Pack Slug.PackProofs.

(* For every file system, option set (dereferencing, ignore processing, allow
   list), shared-flag state, working directory, spelling of the source and
   fuel: when Pack succeeds, the file list equals the entry names in order, and
   the size equals the content bytes stored for regular-file entries (which is
   the sum of the sizes in their headers) - including dereferenced files and
   directories, ignored subtrees and empty files. *)
Theorem C20_meta_describes_slug :
  forall fuel fs opts flags cwd src es files size fl,
    pack fuel fs opts flags cwd src = (PackOk es files size, fl) ->
    files = map pe_name es /\ size = sum_sizes es.
Proof. exact pack_meta. Qed.

Example C20_nonvacuous :
  let fs := Dir 493 None [(s2l "s", Dir 493 None
              [(s2l "f", File (s2l "hello") 420 None); (s2l "e", File [] 420 None);
               (s2l "d", Dir 493 None [(s2l "g", File (s2l "xy") 384 None)]);
               (s2l "l", Link (s2l "../o")) ]); (s2l "o", File (s2l "outside") 420 None)] in
  match fst (pack 100 fs (mkOpts true false []) [true; false; false] [] (s2l "/s")) with
  | PackOk es files size => map pe_name es = [s2l "d/"; s2l "d/g"; s2l "e"; s2l "f"; s2l "l"] /\ size = 14%N
  | _ => False
  end.
Proof. vm_compute. split; reflexivity. Qed.

Print Assumptions C20_meta_describes_slug.
