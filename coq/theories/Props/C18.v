(* C18 — Bundle path lookups stay inside the bundle and invert each other.
   Only statements, each closed by [exact] of a lemma proved elsewhere.
   [comps p] are the components of the cleaned absolute path p; a path is
   inside package directory d of bundle b when its components are those of the
   root, then d, then plain names ([inside_pkg]). *)
From Slug Require Import Base.Str Base.PathAlg Base.PathLemmas Addr.Resolve Addr.ResolveProofs
  Addr.Url Addr.Parse Bundle.Lookup Bundle.LookupProofs.

(* whatever the manifest contains: an opened bundle stores each package under a
   single plain directory name, once per package address *)
Theorem C18_opened_bundle_directories :
  forall root m b, open_dir root m = Ok b ->
    b_root b = root /\ NoDup (map fst (b_dirs b)) /\
    forall p d, In (p, d) (b_dirs b) -> d <> [] /\ d <> [dot] /\ d <> [dot; dot] /\ ~ In slash d.
Proof.
  intros root m b H. destruct (open_dir_dirs root m b H) as (Hr & Hn & Hd).
  split; [exact Hr|]. split; [exact Hn|]. intros p d Hin. apply local_dir_ok_spec. exact (Hd (p, d) Hin).
Qed.
Print Assumptions C18_opened_bundle_directories.

(* manifests naming a package directory with a separator, '.' or '..' (or an empty name) are refused *)
Theorem C18_bad_directory_refused :
  forall root m p, In p (m_packages m) ->
    (mp_local p = [] \/ mp_local p = [dot] \/ mp_local p = [dot; dot] \/ In slash (mp_local p)) ->
    forall b, open_dir root m <> Ok b.
Proof. exact open_dir_refuses_bad_dir. Qed.
Print Assumptions C18_bad_directory_refused.

(* forward lookup of a remote address: root, then the package's directory, then the sub-path *)
Theorem C18_remote_lookup_inside :
  forall root m b p sub path, open_dir root m = Ok b -> is_rooted root = true -> valid_sub sub ->
    local_path_remote b p sub = Some path ->
    exists d, comps path = comps root ++ d :: sub_segs sub /\ In (p, d) (b_dirs b).
Proof.
  intros root m b p sub path Ho Hr Hv Hl. destruct (open_dir_dirs root m b Ho) as [<- Hinv].
  destruct (local_path_remote_inside b p sub path Hr Hinv Hv Hl) as (d & Hlk & _ & Hc & _).
  exists d. split; [exact Hc|]. eapply alookup_some; [exact rpkg_eqb_spec|exact Hlk].
Qed.
Print Assumptions C18_remote_lookup_inside.

(* forward lookup of a registry address at a version *)
Theorem C18_registry_lookup_inside :
  forall root m b p sub v path, open_dir root m = Ok b -> is_rooted root = true -> valid_sub sub ->
    local_path_registry b p sub v = Some path ->
    exists d rest, inside_pkg b path d rest.
Proof.
  intros root m b p sub v path Ho Hr Hv Hl. destruct (open_dir_dirs root m b Ho) as [Hb Hinv].
  eapply local_path_registry_inside; eauto using open_dir_reg. now rewrite Hb.
Qed.
Print Assumptions C18_registry_lookup_inside.

(* translating a path inside a package directory to an address and back gives the same path,
   whichever of the aliases sharing that directory the reverse lookup picks *)
Theorem C18_reverse_inverts_forward :
  forall root m b p sub path, open_dir root m = Ok b -> is_rooted root = true -> valid_sub sub ->
    local_path_remote b p sub = Some path ->
    exists d cands, source_for_local_path b path = Some (d, sub, cands) /\ cands <> [] /\
      forall c, In c cands -> local_path_remote b c sub = Some path.
Proof.
  intros root m b p sub path Ho Hr Hv Hl. destruct (open_dir_dirs root m b Ho) as [Hb Hinv].
  apply (reverse_of_forward b p sub path); auto. now rewrite Hb.
Qed.
Print Assumptions C18_reverse_inverts_forward.

(* the reverse lookup only ever answers for paths below a package directory of the bundle *)
Theorem C18_reverse_only_inside :
  forall root m b path d sub cands, open_dir root m = Ok b ->
    source_for_local_path b path = Some (d, sub, cands) ->
    exists rest, comps path = comps root ++ d :: rest /\ sub = join_with slash rest /\
      forall c, In c cands -> In (c, d) (b_dirs b).
Proof.
  intros root m b path d sub cands Ho Hs. destruct (open_dir_dirs root m b Ho) as [Hb Hinv].
  destruct (reverse_only_inside b path d sub cands Hinv Hs) as (rest & Hc & Hsub & _ & Hall).
  exists rest. rewrite <- Hb. split; [exact Hc|]. split; [exact Hsub|].
  intros c Hin. eapply alookup_some; [exact rpkg_eqb_spec|exact (Hall c Hin)].
Qed.
Print Assumptions C18_reverse_only_inside.

(* paths not below the root, the root itself, and names that are no package directory *)
Theorem C18_outside_not_in_bundle :
  forall b path,
    (forall rest, comps path <> comps (b_root b) ++ rest) \/ comps path = comps (b_root b) \/
    (exists d rest, comps path = comps (b_root b) ++ d :: rest /\ candidates b d = []) ->
    source_for_local_path b path = None.
Proof. exact reverse_outside. Qed.
Print Assumptions C18_outside_not_in_bundle.

(* non-vacuity: a manifest with two aliases of one directory and a registry entry *)
Definition ex_manifest : manifest :=
  mkManifest 1
    [mkMPackage (s2l "git::https://example.com/r.git") (s2l "d") [] [];
     mkMPackage (s2l "git::https://example.com/other-longer.git") (s2l "d") [] []]
    [mkMRegistry (s2l "hashicorp/subnets/cidr")
       [mkMVersion (s2l "1.0.0") (s2l "git::https://example.com/r.git//modules/m") None]].

Definition opt_path_is (o : option str) (s : string) : bool :=
  match o with Some p => str_eqb p (s2l s) | None => false end.

Definition ex_check : bool :=
  match open_dir (s2l "/bundle") ex_manifest with
  | Ok b =>
      (match parse_remote (s2l "git::https://example.com/other-longer.git//x/y") with
       | Ok (p, sub) => opt_path_is (local_path_remote b p sub) "/bundle/d/x/y"
       | _ => false end)
      && (match parse_final_registry (s2l "hashicorp/subnets/cidr@1.0.0//sub") with
          | Ok (p, v, sub) => opt_path_is (local_path_registry b p sub v) "/bundle/d/modules/m/sub"
          | _ => false end)
      && (match source_for_local_path b (s2l "/bundle/d/x/../x/y") with
          | Some (d, sub, [c]) => str_eqb d (s2l "d") && str_eqb sub (s2l "x/y")
                                  && str_eqb (rpkg_string c) (s2l "git::https://example.com/r.git")
          | _ => false end)
      && (match source_for_local_path b (s2l "/bundle/terraform-sources.json") with None => true | _ => false end)
      && (match source_for_local_path b (s2l "/bundle/../etc/passwd") with None => true | _ => false end)
      && (match source_for_local_path b (s2l "/bundle") with None => true | _ => false end)
  | _ => false
  end.

Example C18_example : ex_check = true.
Proof. vm_compute. reflexivity. Qed.

Example C18_bad_manifest_refused :
  open_dir (s2l "/bundle") (mkManifest 1 [mkMPackage (s2l "git::https://example.com/r.git") (s2l "..") [] []] []) = Rej /\
  open_dir (s2l "/bundle") (mkManifest 1 [mkMPackage (s2l "git::https://example.com/r.git") (s2l "a/b") [] []] []) = Rej /\
  open_dir (s2l "/bundle") (mkManifest 2 [] []) = Rej.
Proof. vm_compute. repeat split. Qed.
