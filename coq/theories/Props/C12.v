(* C12 — Failures are reported, never turned into silently partial results. *)
From Slug Require Import Base.Str Bundle.Versions Bundle.Builder Bundle.BuilderProofs FS.FS Slug.Unpack.

(* Builder: after any operation that returned an error diagnostic, every later
   operation - Close included - is refused: no bundle comes out of a failed build. *)
Theorem C12_error_poisons :
  forall fuel w ops st pre o post,
    snd (run_ops fuel w st ops) = pre ++ o :: post ->
    is_error_outcome o = true ->
    forall o', In o' post -> o' = ORefused.
Proof. exact error_poisons. Qed.

(* A bundle (and its manifest) only ever comes from Close on a builder that is
   neither closed nor poisoned. *)
Theorem C12_bundle_only_from_close :
  forall fuel w st o st', apply_op fuel w st o = (st', OClosed) -> o = Close /\ closed st = false.
Proof. exact closed_only_by_close. Qed.

(* Finder diagnostics are forwarded with severity and text intact; file names
   that are not package-relative paths are left alone. *)
Theorem C12_diagnostics_forwarded :
  forall p d,
    d_sev (in_remote_source_package p d) = d_sev d /\
    d_summary (in_remote_source_package p d) = d_summary d /\
    (forall f, d_file d = Some f -> Addr.Resolve.normalize_subpath f = None ->
       d_file (in_remote_source_package p d) = Some f) /\
    (d_file d = None -> d_file (in_remote_source_package p d) = None).
Proof. exact diag_forwarding_preserves. Qed.

(* Unpack: success means that no entry stopped the loop - every entry of the
   stream was handled - and the deferred directory restores all succeeded. *)
Theorem C12_unpack_success_is_complete :
  forall is_root allow fs dst es fs',
    unpack is_root allow fs dst es = (fs', ROk) ->
    exists fs1 dirs, unpack_entries is_root allow fs dst [] es = (fs1, dirs, None) /\
                     restore_dirs fs1 dirs = (fs', ROk).
Proof.
  intros is_root allow fs dst es fs' H. unfold unpack in H.
  destruct (unpack_entries is_root allow fs dst [] es) as [[fs1 dirs] [r|]] eqn:E.
  - injection H as _ ->.
    exfalso. clear - E. revert fs E. generalize (@nil (list str * entry)) as ds.
    induction es as [|x es IH]; intros ds fs E; cbn in E; [discriminate|].
    destruct (unpack_entry is_root allow fs dst ds x) as [[fs2 ds2] r2] eqn:Ex.
    destruct r2 as [r2|]; [|eapply IH; eauto].
    injection E as _ _ ->. unfold unpack_entry in Ex.
    repeat match type of Ex with
           | context [match ?t with _ => _ end] => destruct t eqn:?; try discriminate
           | context [if ?t then _ else _] => destruct t eqn:?; try discriminate
           end; try (injection Ex; intros; discriminate).
  - eauto.
Qed.

Print Assumptions C12_error_poisons.
Print Assumptions C12_bundle_only_from_close.
Print Assumptions C12_diagnostics_forwarded.
Print Assumptions C12_unpack_success_is_complete.
