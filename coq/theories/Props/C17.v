(* C17 — Registry sources resolve to the newest allowed version. *)
From Coq Require Import Sorting.Permutation.
From Slug Require Import Base.Str Bundle.Versions Bundle.VersionsProofs.

(* The version the builder selects (sorted extraction + NewestInSet) is offered,
   allowed, and no offered allowed version has higher precedence. *)
Theorem C17_selected_is_newest_allowed :
  forall offered allowed v,
    select_version offered allowed = Some v ->
    In v offered /\ allowed v = true /\
    forall w, In w offered -> allowed w = true -> vlt v w = false.
Proof. exact select_version_max. Qed.

(* Whatever order the registry lists versions in: same selection up to build metadata. *)
Theorem C17_listing_order_irrelevant :
  forall offered offered' allowed v v',
    Permutation offered offered' ->
    select_version offered allowed = Some v -> select_version offered' allowed = Some v' ->
    same v v' = true.
Proof. exact select_version_perm. Qed.

Theorem C17_listing_order_irrelevant_some :
  forall offered offered' allowed v,
    Permutation offered offered' ->
    select_version offered allowed = Some v -> exists v', select_version offered' allowed = Some v'.
Proof. exact select_version_perm_some. Qed.

(* An already-versioned source (exact allowed set) resolves to exactly that version. *)
Theorem C17_exact :
  forall offered x v, select_version offered (fun w => same w x) = Some v -> same v x = true.
Proof. exact select_version_exact. Qed.

(* If some offered version above 0.0.0 is allowed, a version is selected (no spurious error). *)
Theorem C17_complete_above_zero :
  forall offered allowed w,
    In w offered -> allowed w = true -> vlt unspecified w = true ->
    exists v, select_version offered allowed = Some v.
Proof. exact select_version_complete. Qed.

(* The full statement "if any offered version is allowed, one is selected" is
   FALSE of the faithful model (and of the code): go-versions uses 0.0.0 both
   as a version and as "none". *)
Definition C17_complete_statement : Prop :=
  forall offered allowed w, In w offered -> allowed w = true ->
    exists v, select_version offered allowed = Some v.

Theorem C17_complete_refuted : ~ C17_complete_statement.
Proof.
  intros H. destruct (H [unspecified] (fun _ => true) unspecified) as [v Hv];
    [now left|reflexivity|]. vm_compute in Hv. discriminate.
Qed.

(* precedence is a strict weak order whose equivalence is Version.Same *)
Theorem C17_precedence_order :
  (forall a, vlt a a = false) /\
  (forall a b c, vlt a b = true -> vlt b c = true -> vlt a c = true) /\
  (forall a b, same a b = false -> vlt a b = true \/ vlt b a = true) /\
  (forall a b, vgt a b = vlt b a).
Proof. exact (conj vlt_irrefl (conj vlt_trans (conj vlt_total vgt_vlt))). Qed.

Example C17_nonvacuous :
  select_version [mkV 1 0 0 [] []; mkV 2 1 0 (s2l "beta.1") []; mkV 2 0 0 [] []; mkV 1 5 0 [] []]
    (fun v => N.ltb (vmaj v) 2) = Some (mkV 1 5 0 [] []).
Proof. reflexivity. Qed.

Print Assumptions C17_selected_is_newest_allowed.
Print Assumptions C17_listing_order_irrelevant.
Print Assumptions C17_listing_order_irrelevant_some.
Print Assumptions C17_exact.
Print Assumptions C17_complete_above_zero.
Print Assumptions C17_complete_refuted.
Print Assumptions C17_precedence_order.
