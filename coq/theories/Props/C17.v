(* C17 — Registry sources resolve to the newest allowed version. *)
From Coq Require Import Sorting.Permutation.
From Slug Require Import Base.Str Bundle.Versions Bundle.VersionsProofs Bundle.Builder Bundle.BuilderProofs Bundle.BuilderTrace.

(* The version the builder selects (sorted extraction + NewestInSet) is offered,
   allowed, and no offered allowed version has higher precedence. *)
Theorem C17_selected_is_newest_allowed :
  forall offered allowed v,
    select_version offered allowed = Some v ->
    In v offered /\ allowed v = true /\
    forall w, In w offered -> allowed w = true -> vlt v w = false.
Proof. exact select_version_max. Qed.

(* Whatever order the registry lists versions in: same selection up to build metadata. *)
Theorem C17_listing_order_irrelevant :
  forall offered offered' allowed v v',
    Permutation offered offered' ->
    select_version offered allowed = Some v -> select_version offered' allowed = Some v' ->
    same v v' = true.
Proof. exact select_version_perm. Qed.

Theorem C17_listing_order_irrelevant_some :
  forall offered offered' allowed v,
    Permutation offered offered' ->
    select_version offered allowed = Some v -> exists v', select_version offered' allowed = Some v'.
Proof. exact select_version_perm_some. Qed.

(* An already-versioned source (exact allowed set) resolves to exactly that version. *)
Theorem C17_exact :
  forall offered x v, select_version offered (fun w => same w x) = Some v -> same v x = true.
Proof. exact select_version_exact. Qed.

(* If some offered version is allowed, a version is selected (no spurious
   error) - version 0.0.0 and its pre-releases included, since the repair of
   KF-C17-1: go-versions' NewestInSet answers 0.0.0 both for "none" and for the
   version, so the builder now does the same scan itself with "none yet" kept
   apart (newestAllowedVersion). *)
Theorem C17_complete :
  forall offered allowed w,
    In w offered -> allowed w = true ->
    exists v, select_version offered allowed = Some v.
Proof. exact select_version_complete. Qed.

(* ... and an error ("no available version matches") is reported only when no
   offered version is allowed *)
Theorem C17_error_only_if_none_allowed :
  forall offered allowed,
    select_version offered allowed = None -> forall w, In w offered -> allowed w = false.
Proof. exact select_version_none. Qed.

(* the witness of the former finding: 0.0.0 as the only offered version *)
Example C17_zero_is_selected :
  select_version [unspecified] (fun _ => true) = Some unspecified /\
  select_version [mkV 0 0 0 (s2l "rc.1") []; unspecified] (fun v => negb (version_eqb v unspecified))
    = Some (mkV 0 0 0 (s2l "rc.1") []) /\
  (* what go-versions' own method answers for the first one *)
  newest_in_set' [unspecified] (fun _ => true) = unspecified.
Proof. vm_compute. repeat split. Qed.

(* precedence is a strict weak order whose equivalence is Version.Same *)
Theorem C17_precedence_order :
  (forall a, vlt a a = false) /\
  (forall a b c, vlt a b = true -> vlt b c = true -> vlt a c = true) /\
  (forall a b, same a b = false -> vlt a b = true \/ vlt b a = true) /\
  (forall a b, vgt a b = vlt b a).
Proof. exact (conj vlt_irrefl (conj vlt_trans (conj vlt_total vgt_vlt))). Qed.

(* At the level of the builder: whatever was added, in whatever order, with
   whatever failures, (a) a registry lookup answers what the world-level
   selection answers - the registry's source address for the newest allowed
   offered version, joined with the caller's sub-path; None, hence an error
   diagnostic, when no offered version is allowed - whatever was resolved
   before, and (b) every deprecation note in the bundle's table is the one the
   registry's listing attaches to exactly that version (first listed entry
   that is that version, build metadata included). *)
Theorem C17_builder_selects_like_the_world :
  forall w st p sub sid, cache_ok w st ->
    snd (find_registry_source w st p sub sid) = resolve_registry w p sub sid.
Proof.
  intros w st p sub sid H. pose proof (find_registry_source_spec w st p sub sid H) as Hs.
  destruct (find_registry_source w st p sub sid). exact (proj1 Hs).
Qed.

Theorem C17_world_selection_is_newest_allowed :
  forall w p sub sid real, resolve_registry w p sub sid = Some real ->
    exists infos v rp rsub,
      w_versions w p = Some infos /\
      select_version (map fst infos) (w_allowed w sid) = Some v /\
      w_source w p v = Some (rp, rsub).
Proof.
  intros w p sub sid real H. unfold resolve_registry in H.
  destruct (w_versions w p) as [infos|]; [|discriminate].
  destruct (select_version (map fst infos) (w_allowed w sid)) as [v|] eqn:Es; [|discriminate].
  destruct (w_source w p v) as [[rp rsub]|] eqn:Ew; [|discriminate].
  exists infos, v, rp, rsub. repeat split; assumption || reflexivity.
Qed.

Theorem C17_deprecation_is_the_registrys :
  forall fuel w ops st outs,
    run_ops fuel w init_state ops = (st, outs) ->
    forall k d, In (k, d) (deprec st) ->
      exists infos, w_versions w (fst k) = Some infos /\ d = first_same (snd k) infos.
Proof.
  intros fuel w ops st outs Hr.
  exact (proj2 (deprecation_recorded w fuel ops init_state st outs (deprec_inv_init w) Hr)).
Qed.

(* two listed versions that differ only in build metadata, each with its own note *)
Example C17_deprecation_instance :
  let v1 := mkV 1 0 0 [] [] in let v2 := mkV 1 0 0 [] (s2l "build1") in
  let infos := [(v1, Some (s2l "old", s2l "l1")); (v2, Some (s2l "newer", s2l "l2"))] in
  first_same v2 infos = Some (s2l "newer", s2l "l2") /\ first_same v1 infos = Some (s2l "old", s2l "l1").
Proof. vm_compute. split; reflexivity. Qed.

Example C17_nonvacuous :
  select_version [mkV 1 0 0 [] []; mkV 2 1 0 (s2l "beta.1") []; mkV 2 0 0 [] []; mkV 1 5 0 [] []]
    (fun v => N.ltb (vmaj v) 2) = Some (mkV 1 5 0 [] []).
Proof. reflexivity. Qed.

Print Assumptions C17_selected_is_newest_allowed.
Print Assumptions C17_listing_order_irrelevant.
Print Assumptions C17_listing_order_irrelevant_some.
Print Assumptions C17_exact.
Print Assumptions C17_complete.
Print Assumptions C17_error_only_if_none_allowed.
Print Assumptions C17_precedence_order.
Print Assumptions C17_builder_selects_like_the_world.
Print Assumptions C17_world_selection_is_newest_allowed.
Print Assumptions C17_deprecation_is_the_registrys.
