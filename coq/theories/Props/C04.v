(* C04 — Every symlink left by Unpack resolves inside the destination. *)
From Slug Require Import Base.Str Base.PathAlg FS.FS FS.FSProofs FS.Confined Slug.Unpack Slug.UnpackSafe Slug.UnpackSpec Slug.UnpackLinks.

(* What holds: a link is only created when its target, joined to the link's
   directory and cleaned, is lexically inside dst (absolute and lexically
   climbing targets are refused with an illegal-slug result). *)
Theorem C04_lexical :
  forall dst p t, valid_symlink [] dst p t = true ->
    within (clean dst)
           (if is_rooted t then clean t
            else fjoin (dir_of (if is_rooted p then p else fjoin (clean dst) p)) t) = true.
Proof. exact valid_symlink_lexical. Qed.

(* The full statement - following any link left under dst, the way the kernel
   follows it, stays inside dst - is FALSE of the faithful model, and of the
   code: two links that are each harmless as text (a -> ".", b -> "a/..")
   resolve together to the parent of dst.  Known finding KF-C04-1. *)
Definition C04_statement : Prop :=
  forall fs dst es fs' r l ph,
    dst_ok dst -> is_dir fs = true -> rdir fs (comps_of dst) ->
    unpack true [] fs dst es = (fs', r) ->
    (exists t, get fs' (comps_of dst ++ l) = Some (Link t)) ->
    resolve fs' true (comps_of dst ++ l) = Ok ph ->
    exists rel, ph = comps_of dst ++ rel.

Theorem C04_refuted : ~ C04_statement.
Proof.
  intros H.
  specialize (H demo_fs (s2l "/w/dst") demo_entries).
  destruct (unpack true [] demo_fs (s2l "/w/dst") demo_entries) as [fs' r] eqn:E.
  specialize (H fs' r [s2l "b"] [s2l "w"]).
  assert (Hd : dst_ok (s2l "/w/dst")) by (split; reflexivity).
  vm_compute in E. injection E as <- <-.
  destruct (H Hd eq_refl) as [rel Hrel].
  - cbn. exact I.
  - reflexivity.
  - eexists. vm_compute. reflexivity.
  - vm_compute. reflexivity.
  - vm_compute in Hrel. discriminate.
Qed.

(* What does hold physically, and exactly where the boundary is: the escape
   above needs a link target with ".." AFTER a name ("a/.." goes up from
   wherever the link a leads, not from where it is written).  For every archive
   whose link targets have no ".." after a name - relative targets of the form
   ../../x/y, plain names, absolute targets, with "." and empty segments
   anywhere - the full statement is a theorem: whatever the entries, their
   order and repetitions, under either privilege, whether Unpack succeeds or
   stops with an error, following any path from inside dst - in particular any
   link left there, through any number of other links (up to the kernel's
   limit), final link followed or not - ends inside dst.  The destination may
   hold links of the same kind beforehand ([confined]; true of an empty or
   link-free destination). *)
Theorem C04_links_resolve_inside :
  forall is_root fs dst es fs' r,
    dst_ok dst -> is_dir fs = true -> rdir fs (comps_of dst) ->
    confined fs (comps_of dst) ->
    (forall e, In e es -> is_sym e = true -> target_updown (e_link e)) ->
    unpack is_root [] fs dst es = (fs', r) ->
    forall fl l ph, no_dd l = true ->
      resolve fs' fl (comps_of dst ++ l) = Ok ph -> exists rel, ph = comps_of dst ++ rel.
Proof. exact unpack_links_resolve_inside. Qed.

(* the underlying fact about the kernel's resolution, for any file system *)
Theorem C04_confined_resolution :
  forall fs D, confined fs D -> rdir fs D -> forallb plainb D = true ->
  forall fl l ph, no_dd l = true -> resolve fs fl (D ++ l) = Ok ph -> exists rel, ph = D ++ rel.
Proof. intros fs D Hc Hr Hp fl l ph. exact (resolve_confined fs D Hc Hr fl l ph Hp). Qed.

(* the hypotheses are satisfiable by an archive with chained, climbing and
   absolute links, all of which then resolve inside; and the witness of the
   refutation is exactly outside them *)
Example C04_links_instance :
  let es := [ mkEntry (s2l "d/") ty_dir [] 493 0 [];
              mkEntry (s2l "d/up") ty_sym (s2l "../f") 511 0 [];
              mkEntry (s2l "f") ty_reg [] 420 0 (s2l "x");
              mkEntry (s2l "chain") ty_sym (s2l "d/up") 511 0 [];
              mkEntry (s2l "abs") ty_sym (s2l "/w/dst/chain") 511 0 [];
              mkEntry (s2l "self") ty_sym (s2l ".") 511 0 [] ] in
  forallb (fun e => negb (is_sym e) || updown (split_on slash (e_link e))) es = true /\
  (let '(fs', r) := unpack true [] demo_fs (s2l "/w/dst") es in
   r = ROk /\
   resolve fs' true [s2l "w"; s2l "dst"; s2l "abs"] = Ok [s2l "w"; s2l "dst"; s2l "f"] /\
   resolve fs' true [s2l "w"; s2l "dst"; s2l "self"; s2l "self"; s2l "d"; s2l "up"] = Ok [s2l "w"; s2l "dst"; s2l "f"]) /\
  forallb (fun e => negb (is_sym e) || updown (split_on slash (e_link e))) demo_entries = false.
Proof. vm_compute. repeat split. Qed.

Lemma C04_empty_destination_is_confined :
  forall fs D pm mt, get fs D = Some (Dir pm mt []) -> confined fs D.
Proof.
  intros fs D pm mt Hg q t Hq. rewrite get_app, Hg in Hq. destruct q; cbn in Hq; discriminate.
Qed.

(* Unpack does keep the links it creates from touching anything outside (C01),
   whatever they resolve to: creation of a link never follows a link. *)
Theorem C04_links_never_written_through :
  forall is_root allow fs dst es fs' r,
    dst_ok dst -> is_dir fs = true -> rdir fs (comps_of dst) ->
    unpack is_root allow fs dst es = (fs', r) -> exists d, fs' = put fs (comps_of dst) d.
Proof. exact unpack_outside_unchanged. Qed.

Print Assumptions C04_lexical.
Print Assumptions C04_refuted.
Print Assumptions C04_links_never_written_through.
Print Assumptions C04_links_resolve_inside.
Print Assumptions C04_confined_resolution.
Print Assumptions C04_empty_destination_is_confined.
