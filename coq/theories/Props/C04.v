(* C04 — Every symlink left by Unpack resolves inside the destination. *)
From Slug Require Import Base.Str Base.PathAlg FS.FS FS.FSProofs Slug.Unpack Slug.UnpackSafe Slug.UnpackSpec.

(* What holds: a link is only created when its target, joined to the link's
   directory and cleaned, is lexically inside dst (absolute and lexically
   climbing targets are refused with an illegal-slug result). *)
Theorem C04_lexical :
  forall dst p t, valid_symlink [] dst p t = true ->
    within (clean dst)
           (if is_rooted t then clean t
            else fjoin (dir_of (if is_rooted p then p else fjoin (clean dst) p)) t) = true.
Proof. exact valid_symlink_lexical. Qed.

(* The full statement - following any link left under dst, the way the kernel
   follows it, stays inside dst - is FALSE of the faithful model, and of the
   code: two links that are each harmless as text (a -> ".", b -> "a/..")
   resolve together to the parent of dst.  Known finding KF-C04-1. *)
Definition C04_statement : Prop :=
  forall fs dst es fs' r l ph,
    dst_ok dst -> is_dir fs = true -> rdir fs (comps_of dst) ->
    unpack true [] fs dst es = (fs', r) ->
    (exists t, get fs' (comps_of dst ++ l) = Some (Link t)) ->
    resolve fs' true (comps_of dst ++ l) = Ok ph ->
    exists rel, ph = comps_of dst ++ rel.

Theorem C04_refuted : ~ C04_statement.
Proof.
  intros H.
  specialize (H demo_fs (s2l "/w/dst") demo_entries).
  destruct (unpack true [] demo_fs (s2l "/w/dst") demo_entries) as [fs' r] eqn:E.
  specialize (H fs' r [s2l "b"] [s2l "w"]).
  assert (Hd : dst_ok (s2l "/w/dst")) by (split; reflexivity).
  vm_compute in E. injection E as <- <-.
  destruct (H Hd eq_refl) as [rel Hrel].
  - cbn. exact I.
  - reflexivity.
  - eexists. vm_compute. reflexivity.
  - vm_compute. reflexivity.
  - vm_compute in Hrel. discriminate.
Qed.

(* Unpack does keep the links it creates from touching anything outside (C01),
   whatever they resolve to: creation of a link never follows a link. *)
Theorem C04_links_never_written_through :
  forall is_root allow fs dst es fs' r,
    dst_ok dst -> is_dir fs = true -> rdir fs (comps_of dst) ->
    unpack is_root allow fs dst es = (fs', r) -> exists d, fs' = put fs (comps_of dst) d.
Proof. exact unpack_outside_unchanged. Qed.

Print Assumptions C04_lexical.
Print Assumptions C04_refuted.
Print Assumptions C04_links_never_written_through.
