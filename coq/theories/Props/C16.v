(* C16 — Pack output depends only on the tree and the options. *)
From Slug Require Import Base.Str Base.PathAlg FS.FS Ignore.Rules Ignore.Glob Ignore.GlobProofs Ignore.RulesProofs
  Ignore.Prune Slug.Unpack Slug.Pack.

(* History: whatever reachable state the shared default-rule flags were in when
   the rule file was parsed (pristine, or all set by an earlier file that began
   with a negation), the ignore-filtered walk ships the same entries: the flags
   only switch pruning off, and pruning never changes what ships. *)
Theorem C16_history_independent :
  forall a b, same_but_flags a b -> flags_sound a -> flags_sound b ->
    (forall r, In r a -> rule_ok r) -> (forall r, In r b -> rule_ok r) ->
    forall t prefix, tree_ok t -> Prune.walk true a prefix t = Prune.walk true b prefix t.
Proof. exact walk_history_independent. Qed.

(* the shared flags only ever move from the pristine state to all-true *)
Theorem C16_flag_states :
  forall flags lines, flags_reachable flags -> flags_reachable (flags_after flags lines).
Proof. exact flags_after_reachable. Qed.

(* Spelling and working directory: Pack uses the source argument in three
   places - the first Lstat, the rule-file lookup and filepath.Abs - and
   everything after that is a function of the absolute clean path.  Two
   invocations that agree on those three observations give the same result. *)
Theorem C16_spelling_independent :
  forall fuel fs opts flags cwd1 src1 cwd2 src2,
    let look := fun cwd src => FS.walk max_links fs false (start_of cwd src) (split_on slash src) in
    let ign := fun cwd src => FS.walk max_links fs true (start_of cwd src) (split_on slash src ++ [dotti]) in
    let absp := fun (cwd : list str) src => if is_rooted src then clean src else clean (join_abs cwd ++ slash :: src) in
    (exists p1 p2 n1 n2, look cwd1 src1 = Ok p1 /\ look cwd2 src2 = Ok p2 /\
        get fs p1 = Some n1 /\ get fs p2 = Some n2 /\ is_link n1 = false /\ is_link n2 = false) ->
    ign cwd1 src1 = ign cwd2 src2 ->
    absp cwd1 src1 = absp cwd2 src2 ->
    pack fuel fs opts flags cwd1 src1 = pack fuel fs opts flags cwd2 src2.
Proof.
  intros fuel fs opts flags cwd1 src1 cwd2 src2 look ign absp
    (p1 & p2 & n1 & n2 & L1 & L2 & G1 & G2 & K1 & K2) Hi Ha.
  unfold pack. fold (look cwd1 src1). fold (look cwd2 src2). rewrite L1, L2, G1, G2.
  assert (E1 : match n1 with Link t => t | _ => src1 end = src1) by (destruct n1; auto; discriminate).
  assert (E2 : match n2 with Link t => t | _ => src2 end = src2) by (destruct n2; auto; discriminate).
  rewrite E1, E2. fold (ign cwd1 src1). fold (ign cwd2 src2). rewrite Hi.
  fold (absp cwd1 src1). fold (absp cwd2 src2). rewrite Ha. reflexivity.
Qed.

(* The full statement is FALSE of model and code for a source given by way of a
   symlink: its target is read with one Readlink and interpreted against the
   working directory (known finding KF-C16-1; the existing test
   TestPack_rootIsSymlink depends on this behaviour). *)
Example C16_symlinked_root_refuted :
  let fs := Dir 493 None [(s2l "w", Dir 493 None
              [(s2l "src", Dir 493 None [(s2l "f", File (s2l "x") 420 None)]); (s2l "lnk", Link (s2l "src"))])] in
  fst (pack 50 fs (mkOpts false false []) [true; false; false] [s2l "w"] (s2l "/w/lnk")) <>
  fst (pack 50 fs (mkOpts false false []) [true; false; false] [] (s2l "/w/lnk")).
Proof. vm_compute. discriminate. Qed.

Print Assumptions C16_history_independent.
Print Assumptions C16_flag_states.
Print Assumptions C16_spelling_independent.
