(* C16 — Pack output depends only on the tree and the options. *)
From Slug Require Import Base.Str Base.PathAlg FS.FS Ignore.Rules Ignore.Glob Ignore.GlobProofs Ignore.RulesProofs
  Ignore.Prune Base.PathLemmas FS.FSProofs Slug.Unpack Slug.Pack Slug.RoundTrip Slug.RoundTripPack Slug.PackIgnore.

(* History: whatever reachable state the shared default-rule flags were in when
   the rule file was parsed (pristine, or all set by an earlier file that began
   with a negation), the ignore-filtered walk ships the same entries: the flags
   only switch pruning off, and pruning never changes what ships. *)
Theorem C16_history_independent :
  forall a b, same_but_flags a b -> flags_sound a -> flags_sound b ->
    (forall r, In r a -> rule_ok r) -> (forall r, In r b -> rule_ok r) ->
    forall t prefix, tree_ok t -> Prune.walk true a prefix t = Prune.walk true b prefix t.
Proof. exact walk_history_independent. Qed.

(* The same on the model of Pack itself: two Pack calls on the same file system,
   tree, options, working directory and source path, started in any two
   reachable states of the shared default-rule flags (i.e. after any history of
   earlier Pack calls and rule-file parsing in the process), both succeed and
   write the same entries, file list and size - for every tree of regular files,
   directories, special files and links that stay inside, with or without a
   .terraformignore, provided the loaded rules that end in "**" compile to a
   trailing ".*" (rule_ok, evaluated per run).  Only the flags handed on to the
   next call may differ. *)
Theorem C16_pack_history_independent :
  forall fs opts f1 f2 cwd fuel pre x pmR mtR ks r1 r2 fl1 fl2,
    flags_reachable f1 -> flags_reachable f2 ->
    is_dir fs = true -> rdir fs pre -> forallb seg_ok (pre ++ [x]) = true ->
    get fs (pre ++ [x]) = Some (to_node (SDir pmR mtR ks)) ->
    sheight (SDir pmR mtR ks) < fuel -> wfs (SDir pmR mtR ks) ->
    wf (SDir pmR mtR ks) -> links_ok [] (SDir pmR mtR ks) ->
    load_rules fs opts f1 cwd (join_abs (pre ++ [x])) = (r1, fl1) ->
    load_rules fs opts f2 cwd (join_abs (pre ++ [x])) = (r2, fl2) ->
    (forall rs r, r1 = Some rs \/ r2 = Some rs -> In r rs -> rule_ok r) ->
    exists es files size,
      pack fuel fs opts f1 cwd (join_abs (pre ++ [x])) = (PackOk es files size, fl1) /\
      pack fuel fs opts f2 cwd (join_abs (pre ++ [x])) = (PackOk es files size, fl2).
Proof. exact pack_history_independent. Qed.

(* a concrete pair of runs: a rule file whose directory rule is dominating from
   the pristine flags and not from the polluted ones - same slug *)
Example C16_pack_history_instance :
  let ign := s2l ("logs/" ++ String (ch 10) "*.tmp") in
  let t := SDir 493 None
             [(s2l ".terraformignore", SFile ign 420 None);
              (s2l "a", SFile (s2l "a") 420 None);
              (s2l "logs", SDir 493 None [(s2l "z.log", SFile (s2l "z") 420 None)]);
              (s2l "x.tmp", SFile (s2l "x") 420 None)] in
  let fs := Dir 493 None [(s2l "s", to_node t)] in
  let opts := mkOpts false true [] in
  fst (pack 10 fs opts pristine_flags [] (s2l "/s")) = fst (pack 10 fs opts [true; true; true] [] (s2l "/s")) /\
  match fst (pack 10 fs opts pristine_flags [] (s2l "/s")) with
  | PackOk es _ _ => map pe_name es = [s2l ".terraformignore"; s2l "a"]
  | _ => False
  end.
Proof. vm_compute. split; reflexivity. Qed.

(* the shared flags only ever move from the pristine state to all-true *)
Theorem C16_flag_states :
  forall flags lines, flags_reachable flags -> flags_reachable (flags_after flags lines).
Proof. exact flags_after_reachable. Qed.

(* Spelling and working directory: Pack uses the source argument in three
   places - the first Lstat, the rule-file lookup and filepath.Abs - and
   everything after that is a function of the absolute clean path.  Two
   invocations that agree on those three observations give the same result. *)
Theorem C16_spelling_independent :
  forall fuel fs opts flags cwd1 src1 cwd2 src2,
    let look := fun cwd src => FS.walk max_links fs false (start_of cwd src) (split_on slash src) in
    let ign := fun cwd src => FS.walk max_links fs true (start_of cwd src) (split_on slash src ++ [dotti]) in
    let absp := fun (cwd : list str) src => if is_rooted src then clean src else clean (join_abs cwd ++ slash :: src) in
    (exists p1 p2 n1 n2, look cwd1 src1 = Ok p1 /\ look cwd2 src2 = Ok p2 /\
        get fs p1 = Some n1 /\ get fs p2 = Some n2 /\ is_link n1 = false /\ is_link n2 = false) ->
    ign cwd1 src1 = ign cwd2 src2 ->
    absp cwd1 src1 = absp cwd2 src2 ->
    pack fuel fs opts flags cwd1 src1 = pack fuel fs opts flags cwd2 src2.
Proof.
  intros fuel fs opts flags cwd1 src1 cwd2 src2 look ign absp
    (p1 & p2 & n1 & n2 & L1 & L2 & G1 & G2 & K1 & K2) Hi Ha.
  unfold pack. fold (look cwd1 src1). fold (look cwd2 src2). rewrite L1, L2, G1, G2.
  assert (E1 : match n1 with Link t => t | _ => src1 end = src1) by (destruct n1; auto; discriminate).
  assert (E2 : match n2 with Link t => t | _ => src2 end = src2) by (destruct n2; auto; discriminate).
  rewrite E1, E2. fold (ign cwd1 src1). fold (ign cwd2 src2). rewrite Hi.
  fold (absp cwd1 src1). fold (absp cwd2 src2). rewrite Ha. reflexivity.
Qed.

(* The full statement is FALSE of model and code for a source given by way of a
   symlink: its target is read with one Readlink and interpreted against the
   working directory (known finding KF-C16-1; the existing test
   TestPack_rootIsSymlink depends on this behaviour). *)
Example C16_symlinked_root_refuted :
  let fs := Dir 493 None [(s2l "w", Dir 493 None
              [(s2l "src", Dir 493 None [(s2l "f", File (s2l "x") 420 None)]); (s2l "lnk", Link (s2l "src"))])] in
  fst (pack 50 fs (mkOpts false false []) [true; false; false] [s2l "w"] (s2l "/w/lnk")) <>
  fst (pack 50 fs (mkOpts false false []) [true; false; false] [] (s2l "/w/lnk")).
Proof. vm_compute. discriminate. Qed.

Print Assumptions C16_history_independent.
Print Assumptions C16_flag_states.
Print Assumptions C16_pack_history_independent.
Print Assumptions C16_spelling_independent.
