(* C03 — What is shipped is decided by .terraformignore semantics on archive paths. *)
From Slug Require Import Base.Str Ignore.Rules Ignore.Glob Ignore.GlobProofs Ignore.RulesProofs
  Ignore.Prune Ignore.Defaults.

(* 1. The pattern-to-regexp translation implements the documented language:
      for every well-formed written pattern and every path without a newline,
      the rule matches iff the segment-wise specification does ('*' and '?'
      stay inside one segment, a "**" segment spans segments: zero or more in
      the middle, one or more at the end; anchoring and directory form are
      the absence of a leading / presence of a trailing "**" segment). *)
Theorem C03_compile_correct :
  forall pat path, pat_ok pat = true -> nonl path ->
    tmatch (tokenize (pat_text pat)) path = gmatch pat (split_on slash path).
Proof. exact compile_correct. Qed.

(* 2. The negations-after flag: from the pristine defaults a rule carries it
      exactly when a later rule is a negation; from any reachable state of the
      shared flags it is carried at least then. *)
Theorem C03_negations_after_exact :
  forall data rules fl, read_rules pristine_flags data = (POk rules, fl) ->
  forall pre r post, rules = pre ++ r :: post ->
    (r_negafter r = true <-> exists x, In x post /\ r_neg x = true).
Proof. exact negations_after_spec. Qed.

Theorem C03_negations_after_over :
  forall flags data rules fl, flags_reachable flags ->
  read_rules flags data = (POk rules, fl) ->
  forall pre r post, rules = pre ++ r :: post ->
    (exists x, In x post /\ r_neg x = true) -> r_negafter r = true.
Proof. exact negations_after_over. Qed.

(* 3. Last match wins; default: included. *)
Theorem C03_last_match_wins :
  forall rules p,
    fst (excludes rules p) =
    match last_match rules p with Some r => negb (r_neg r) | None => false end.
Proof. exact last_match_wins. Qed.

(* 4. A directory reported Excluded and Dominating has every path below it
      excluded (so pruning it is sound). *)
Theorem C03_dominating_sound :
  forall rules d, flags_sound rules -> (forall r, In r rules -> rule_ok r) ->
    excludes rules d = (true, true) ->
    forall t, nonl t -> fst (excludes rules (d ++ t)) = true.
Proof. exact dominating_sound. Qed.

(* 5. Pruning never changes what ships: the walk with SkipDir on dominating
      matches emits exactly the entries of the walk that visits everything,
      for every tree. *)
Theorem C03_prune_eq_filter :
  forall rules, flags_sound rules -> (forall r, In r rules -> rule_ok r) ->
  forall t prefix, tree_ok t -> walk true rules prefix t = walk false rules prefix t.
Proof. exact prune_eq_filter. Qed.

(* 6. The built-in rules. *)
Theorem C03_defaults :
  forall flags path, length flags = 3 -> nonl path ->
    let segs := split_on slash path in
    fst (excludes (default_rules flags) path) = true <->
    (under [name_git] segs \/ (under [name_tf] segs /\ ~ under [name_tf; name_mod] segs)).
Proof. exact defaults_spec. Qed.

(* Without the "**"-suffix condition on Dominating (the code before the fix:
   commit 58cc8ec) statement 4 is false: the rule "/a/*" matches "a/" with an
   empty star and nothing follows it, yet "a/b/c" is not excluded. *)
Example C03_old_dominating_refuted :
  let rules := [mkRule (s2l "a/*") false false] in
  rule_match (hd (mkRule [] false false) rules) (s2l "a/") = true /\
  fst (excludes rules (s2l "a/b/c")) = false.
Proof. vm_compute. split; reflexivity. Qed.

Example C03_nonvacuous :
  match fst (read_rules pristine_flags (s2l ("*.tf" ++ String (ch 10) ("!x.tf" ++ String (ch 10) "/logs/")))) with
  | POk rules =>
      fst (excludes rules (s2l "a/b.tf")) = true /\ fst (excludes rules (s2l "a/x.tf")) = false /\
      excludes rules (s2l "logs/") = (true, true) /\ fst (excludes rules (s2l "a/logs/q")) = false /\
      forallb rule_okb rules = true
  | PPanic => False
  end.
Proof. vm_compute. repeat split. Qed.

Print Assumptions C03_compile_correct.
Print Assumptions C03_negations_after_exact.
Print Assumptions C03_negations_after_over.
Print Assumptions C03_last_match_wins.
Print Assumptions C03_dominating_sound.
Print Assumptions C03_prune_eq_filter.
Print Assumptions C03_defaults.
