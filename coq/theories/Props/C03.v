(* C03 — What is shipped is decided by .terraformignore semantics on archive paths. *)
From Slug Require Import Base.Str Base.PathAlg Base.PathLemmas Ignore.Rules Ignore.Glob Ignore.GlobProofs Ignore.RulesProofs
  Ignore.Prune Ignore.Defaults Ignore.LineProofs FS.FS FS.FSProofs Slug.Unpack Slug.Pack Slug.RoundTrip Slug.RoundTripPack Slug.PackIgnore.

(* 1. The pattern-to-regexp translation implements the documented language:
      for every well-formed written pattern and every path (any bytes: the
      expressions are compiled with the s flag since the repair 257743f),
      the rule matches iff the segment-wise specification does ('*' and '?'
      stay inside one segment, a "**" segment spans segments: zero or more in
      the middle, one or more at the end; anchoring and directory form are
      the absence of a leading / presence of a trailing "**" segment). *)
Theorem C03_compile_correct :
  forall pat path, pat_ok pat = true ->
    tmatch (tokenize (pat_text pat)) path = gmatch pat (split_on slash path).
Proof. exact compile_correct_all. Qed.

(* 1b. What a line of a rule file means.  A line whose trimmed text is an
      optional '!', an optional leading '/', the written form of a well-formed
      pattern, and an optional trailing '/' becomes one rule: negated iff the
      '!' is there, and matching a path exactly when the segment-wise
      specification matches the pattern with a "**" segment in front unless
      the line is anchored by the leading '/' (zero or more directories above:
      C03_unanchored_means_any_depth) and a "**" segment behind when the line
      ends in '/' (one or more segments below: a directory and everything
      under it).  Surrounding white space is ignored; a line that starts with
      '#' is a comment, which is why an unanchored, non-negated pattern may not
      start with '#' or '!'. *)
Theorem C03_line_meaning :
  forall rs line (neg anch dirf : bool) pat,
    pat_ok pat = true -> line <> [] ->
    trim_space line = (if neg then [bang] else []) ++ body anch dirf pat ->
    (neg = false -> anch = false ->
       forall c r, pat_text pat = c :: r -> Ascii.eqb c hash = false /\ Ascii.eqb c bang = false) ->
    read_line rs line
    = POk (mkRule (pat_text (full_pat anch dirf pat)) neg false :: (if neg then mark_back rs else rs)).
Proof. exact read_line_documented. Qed.

Theorem C03_line_rule_matches :
  forall anch dirf pat neg path, pat_ok pat = true ->
    rule_match (mkRule (pat_text (full_pat anch dirf pat)) neg false) path
    = gmatch (full_pat anch dirf pat) (split_on slash path).
Proof. exact line_rule_matches. Qed.

Theorem C03_unanchored_means_any_depth :
  forall pat segs, pat <> [] ->
    gmatch (GDouble :: pat) segs = true <-> exists above rest, segs = above ++ rest /\ gmatch pat rest = true.
Proof. exact gmatch_unanchored. Qed.

(* the line "  !/logs/*.txt/ " *)
Example C03_line_instance :
  let pat := [GSeg (map ALit (s2l "logs")); GSeg (AAnyMany :: map ALit (s2l ".txt"))] in
  pat_ok pat = true /\
  trim_space (s2l "  !/logs/*.txt/ ") = [bang] ++ body true true pat /\
  read_line [] (s2l "  !/logs/*.txt/ ") = POk [mkRule (s2l "logs/*.txt/**") true false] /\
  gmatch (full_pat true true pat) [s2l "logs"; s2l "a.txt"; s2l "x"] = true /\
  gmatch (full_pat true true pat) [s2l "logs"; s2l "a.txt"] = false /\
  gmatch (full_pat true true pat) [s2l "d"; s2l "logs"; s2l "a.txt"; s2l "x"] = false.
Proof. vm_compute. repeat split. Qed.

(* 2. The negations-after flag: from the pristine defaults a rule carries it
      exactly when a later rule is a negation; from any reachable state of the
      shared flags it is carried at least then. *)
Theorem C03_negations_after_exact :
  forall data rules fl, read_rules pristine_flags data = (POk rules, fl) ->
  forall pre r post, rules = pre ++ r :: post ->
    (r_negafter r = true <-> exists x, In x post /\ r_neg x = true).
Proof. exact negations_after_spec. Qed.

Theorem C03_negations_after_over :
  forall flags data rules fl, flags_reachable flags ->
  read_rules flags data = (POk rules, fl) ->
  forall pre r post, rules = pre ++ r :: post ->
    (exists x, In x post /\ r_neg x = true) -> r_negafter r = true.
Proof. exact negations_after_over. Qed.

(* 3. Last match wins; default: included. *)
Theorem C03_last_match_wins :
  forall rules p,
    fst (excludes rules p) =
    match last_match rules p with Some r => negb (r_neg r) | None => false end.
Proof. exact last_match_wins. Qed.

(* 4. A directory reported Excluded and Dominating has every path below it
      excluded (so pruning it is sound). *)
Theorem C03_dominating_sound :
  forall rules d, flags_sound rules -> (forall r, In r rules -> rule_ok r) ->
    excludes rules d = (true, true) ->
    forall t, fst (excludes rules (d ++ t)) = true.
Proof. exact dominating_sound_all. Qed.

(* 5. Pruning never changes what ships: the walk with SkipDir on dominating
      matches emits exactly the entries of the walk that visits everything,
      for every tree. *)
Theorem C03_prune_eq_filter :
  forall rules, flags_sound rules -> (forall r, In r rules -> rule_ok r) ->
  forall t prefix, tree_ok t -> Prune.walk true rules prefix t = Prune.walk false rules prefix t.
Proof. exact prune_eq_filter. Qed.

(* 6. The built-in rules. *)
Theorem C03_defaults :
  forall flags path, length flags = 3 -> nonl path ->
    let segs := split_on slash path in
    fst (excludes (default_rules flags) path) = true <->
    (under [name_git] segs \/ (under [name_tf] segs /\ ~ under [name_tf; name_mod] segs)).
Proof. exact defaults_spec. Qed.

(* 7. The same on the model of Pack itself (not the abstract walk): for every
      file system holding, at the source path, a tree of regular files,
      directories, special files and links that stay inside (sorted listings, any
      names, any depth and width), every option set and
      working directory, and whatever rule set parseIgnoreFile loads (from the
      tree's .terraformignore under the current state of the shared flags, or
      the built-in rules) - provided its rules that end in "**" compile to a
      trailing ".*" (rule_ok; evaluated per run) - Pack succeeds and writes
      exactly those entries of the tree, in order, that [keep] lets through:
      a file, link or directory appears iff its own path is not excluded (for
      a directory: neither "d" nor "d/"), also below an excluded directory.
      Pruning (SkipDir) and the negations-after flags play no part in the
      result.  With ignore processing off [rules] is None and nothing is
      filtered. *)
Theorem C03_pack_ships_exactly_the_unexcluded :
  forall fs opts flags cwd fuel pre x pmR mtR ks rules flags',
    is_dir fs = true -> rdir fs pre -> forallb seg_ok (pre ++ [x]) = true ->
    get fs (pre ++ [x]) = Some (to_node (SDir pmR mtR ks)) ->
    sheight (SDir pmR mtR ks) < fuel -> wfs (SDir pmR mtR ks) ->
    wf (SDir pmR mtR ks) -> links_ok [] (SDir pmR mtR ks) ->
    load_rules fs opts flags cwd (join_abs (pre ++ [x])) = (rules, flags') ->
    (forall rs, rules = Some rs -> flags_sound rs /\ (forall r, In r rs -> rule_ok r)) ->
    exists files size,
      pack fuel fs opts flags cwd (join_abs (pre ++ [x]))
      = (PackOk (map of_entry (filter (keep rules) (kids_entries [] ks))) files size, flags').
Proof. exact pack_ignore_tree. Qed.

(* the flags part of that hypothesis holds for every rule set Pack can load *)
Theorem C03_loaded_rules_have_sound_flags :
  forall fs opts flags cwd src rs fl,
    flags_reachable flags -> load_rules fs opts flags cwd src = (Some rs, fl) -> flags_sound rs.
Proof. exact load_rules_sound. Qed.

(* [keep] spelled out: the entry's own path decides *)
Theorem C03_keep_is_own_path :
  forall rs e,
    keep (Some rs) e =
    if N.eqb (e_type e) ty_dir
    then negb (fst (excludes rs (removelast (e_name e)))) && negb (fst (excludes rs (e_name e)))
    else negb (fst (excludes rs (e_name e))).
Proof. reflexivity. Qed.

Theorem C03_nothing_filtered_without_ignore :
  forall es, filter (keep None) es = es.
Proof.
  induction es as [|e es IH]; [reflexivity|]. cbn [filter]. unfold keep at 1. cbn [excl fst negb andb].
  destruct (N.eqb (e_type e) ty_dir); now rewrite IH.
Qed.

(* a concrete run: rules "*.tf", "!x.tf", "logs/", "!logs/keep" on a tree
   with a re-included file below an excluded directory *)
Example C03_pack_instance :
  let ign := s2l ("*.tf" ++ String (ch 10) ("!x.tf" ++ String (ch 10) ("logs/" ++ String (ch 10) "!logs/keep"))) in
  let t := SDir 493 None
             [(s2l ".terraformignore", SFile ign 420 None);
              (s2l "a.tf", SFile (s2l "a") 420 None);
              (s2l "logs", SDir 493 None [(s2l "keep", SFile (s2l "k") 420 None); (s2l "z.log", SFile (s2l "z") 420 None)]);
              (s2l "x.tf", SFile (s2l "x") 420 None)] in
  let fs := Dir 493 None [(s2l "s", to_node t)] in
  let opts := mkOpts false true [] in
  match load_rules fs opts pristine_flags [] (s2l "/s") with
  | (Some rs, _) =>
      forallb rule_okb rs = true /\
      match fst (pack 10 fs opts pristine_flags [] (s2l "/s")) with
      | PackOk es _ _ => map pe_name es = [s2l ".terraformignore"; s2l "logs/keep"; s2l "x.tf"]
      | _ => False
      end
  | _ => False
  end.
Proof. vm_compute. split; reflexivity. Qed.

(* Without the "**"-suffix condition on Dominating (the code before the fix:
   commit 58cc8ec) statement 4 is false: the rule "/a/*" matches "a/" with an
   empty star and nothing follows it, yet "a/b/c" is not excluded. *)
Example C03_old_dominating_refuted :
  let rules := [mkRule (s2l "a/*") false false] in
  rule_match (hd (mkRule [] false false) rules) (s2l "a/") = true /\
  fst (excludes rules (s2l "a/b/c")) = false.
Proof. vm_compute. split; reflexivity. Qed.

Example C03_nonvacuous :
  match fst (read_rules pristine_flags (s2l ("*.tf" ++ String (ch 10) ("!x.tf" ++ String (ch 10) "/logs/")))) with
  | POk rules =>
      fst (excludes rules (s2l "a/b.tf")) = true /\ fst (excludes rules (s2l "a/x.tf")) = false /\
      excludes rules (s2l "logs/") = (true, true) /\ fst (excludes rules (s2l "a/logs/q")) = false /\
      forallb rule_okb rules = true
  | PPanic => False
  end.
Proof. vm_compute. repeat split. Qed.

Print Assumptions C03_compile_correct.
Print Assumptions C03_negations_after_exact.
Print Assumptions C03_negations_after_over.
Print Assumptions C03_last_match_wins.
Print Assumptions C03_dominating_sound.
Print Assumptions C03_prune_eq_filter.
Print Assumptions C03_defaults.
Print Assumptions C03_line_meaning.
Print Assumptions C03_line_rule_matches.
Print Assumptions C03_unanchored_means_any_depth.
Print Assumptions C03_pack_ships_exactly_the_unexcluded.
Print Assumptions C03_loaded_rules_have_sound_flags.
Print Assumptions C03_keep_is_own_path.
Print Assumptions C03_nothing_filtered_without_ignore.
