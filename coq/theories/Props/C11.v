(* C11 — Relative resolution stays inside the package and follows path algebra.
   Only statements, each closed by [exact] of a lemma proved elsewhere. *)
From Slug Require Import Base.Str Base.PathAlg Base.PathLemmas Addr.Resolve Addr.ResolveProofs.

(* An absolute second argument is returned unchanged. *)
Theorem C11_abs_unchanged : forall a b, is_abs b = true -> resolve a b = Some b.
Proof. exact resolve_abs_unchanged. Qed.

(* A relative second argument yields an address of the same kind, package and version. *)
Theorem C11_same_kind_pkg_version :
  forall a brel r, resolve a (Local brel) = Some r -> same_shape a r.
Proof. exact resolve_same_shape. Qed.

(* Package-rooted bases: the result's sub-path is the base sub-path with the
   relative path's segments applied one by one ('.' and '' skipped, '..' pops),
   and the operation fails exactly when the stack machine underflows, i.e. when
   the path would climb above the package root. *)
Theorem C11_resolve_is_stack_machine :
  forall a brel, is_abs a = true -> wf_src a -> rel_ok brel ->
    option_map sub_of (resolve a (Local brel)) =
    option_map print_sub (run_rel (rev (sub_segs (sub_of a))) brel).
Proof. exact resolve_spec. Qed.

(* It never yields an address whose sub-path has an empty, '.' or '..' segment. *)
Theorem C11_never_escapes :
  forall a brel r, wf_src a -> rel_ok brel -> resolve a (Local brel) = Some r -> wf_src r.
Proof. exact resolve_wf. Qed.

(* Local bases: the result denotes (ups, names) of base followed by rel. *)
Theorem C11_local_denotation :
  forall a b, rel_ok a -> rel_ok b ->
    den (resolve_local a b) = nrun false (den a) (split_on slash b).
Proof. exact resolve_local_den. Qed.

(* Successive resolutions compose, for every kind of base, as results
   (failure on one side iff failure on the other). *)
Theorem C11_compose :
  forall a b c, wf_src a -> rel_ok b -> rel_ok c ->
    match resolve a (Local b) with
    | Some r => resolve r (Local c)
    | None => None
    end = resolve a (Local (resolve_local b c)).
Proof. exact resolve_compose. Qed.

(* Joining a registry sub-path onto the address a registry returned:
   same package, segments concatenated, still a valid sub-path. *)
Theorem C11_final_source_addr :
  forall s rpkg rsub, valid_sub s -> valid_sub rsub ->
    exists sub', final_source_addr s rpkg rsub = Remote rpkg sub' /\
      valid_sub sub' /\ sub_segs sub' = sub_segs rsub ++ sub_segs s.
Proof. exact final_source_addr_spec. Qed.

(* Non-vacuity: concrete well-formed instances, including the boundary
   "exactly as many '..' as the base has segments" and "one more". *)
Example C11_nonvacuous_root :
  wf_src (Remote (s2l "git::https://example.com/r.git") (s2l "a/b")) /\
  rel_ok (s2l "../..") /\
  resolve (Remote (s2l "git::https://example.com/r.git") (s2l "a/b")) (Local (s2l "../.."))
    = Some (Remote (s2l "git::https://example.com/r.git") []).
Proof.
  split; [right; split; [reflexivity|discriminate]|].
  split; [split; [discriminate|reflexivity]|reflexivity].
Qed.

Example C11_nonvacuous_escape :
  resolve (Remote (s2l "p") (s2l "a/b")) (Local (s2l "../../../c")) = None.
Proof. reflexivity. Qed.

Print Assumptions C11_abs_unchanged.
Print Assumptions C11_same_kind_pkg_version.
Print Assumptions C11_resolve_is_stack_machine.
Print Assumptions C11_never_escapes.
Print Assumptions C11_local_denotation.
Print Assumptions C11_compose.
Print Assumptions C11_final_source_addr.
