(* C15 — Unpack materialises exactly what a well-formed archive says. *)
From Slug Require Import Base.Str Base.PathAlg Base.PathLemmas FS.FS FS.FSProofs Slug.Unpack Slug.UnpackSafe Slug.UnpackSpec Slug.RoundTrip Slug.LastWins.

(* An archive that lists a tree of regular files, directories and links that stay inside
   ([links_ok_kids]) - every directory before its
   contents, names as slash-joined plain segments, a trailing slash on directory names, as Pack
   writes them ([kids_entries]) - unpacked into an empty directory materialises exactly that tree:
   each file with its recorded content, permissions and time, each link with its recorded target,
   each directory with its recorded
   permissions and time applied after its contents ([rounded] keeps what the entries record);
   nothing else in the file system changes.  For every such tree, every allow list, every file
   system and destination. *)
Theorem C15_tree_archive_materialised :
  forall allow fs0 dst, dst_ok dst -> is_dir fs0 = true -> rdir fs0 (comps_of dst) ->
    forall pmD mtD ks, get fs0 (comps_of dst) = Some (Dir pmD mtD []) ->
      NoDup (map fst ks) -> wf_kids ks -> links_ok_kids [] ks ->
      unpack true allow fs0 dst (kids_entries [] ks)
      = (put fs0 (comps_of dst) (Dir pmD (match rpk ks with [] => mtD | _ => None end) (rpk ks)), ROk).
Proof. exact unpack_tree_entries. Qed.
Print Assumptions C15_tree_archive_materialised.

(* "The last entry for a path wins even if an earlier one was read-only": a regular-file entry
   whose path already holds a regular file - whatever its content, permission bits (also none
   at all) and time, whoever runs Unpack - leaves exactly the entry's content, permissions and
   time at that path, and nothing else changes; so of any number of entries for one file path,
   read in order, the last one decides. *)
Theorem C15_last_file_entry_wins :
  forall allow fs0 dst, dst_ok dst -> is_dir fs0 = true -> rdir fs0 (comps_of dst) ->
  forall X pre x d0 pm0 mt0,
    is_dir X = true -> rdir X pre -> forallb seg_ok (pre ++ [x]) = true ->
    get X (pre ++ [x]) = Some (File d0 pm0 mt0) ->
    forall is_root dirs e,
      e_name e = entry_name (pre ++ [x]) false -> e_type e = ty_reg ->
      unpack_entry is_root allow (at_dst fs0 (comps_of dst) X) dst dirs e
      = (at_dst fs0 (comps_of dst)
           (put X (pre ++ [x]) (File (e_body e) (e_mode e) (Some (sec_to_ns (e_mtime e))))), dirs, None).
Proof. exact last_file_entry_wins. Qed.
Print Assumptions C15_last_file_entry_wins.

Theorem C15_last_of_many_file_entries :
  forall allow fs0 dst is_root pre x,
    dst_ok dst -> is_dir fs0 = true -> rdir fs0 (comps_of dst) -> forallb seg_ok (pre ++ [x]) = true ->
    forall es X d0 pm0 mt0 dirs e_last,
      is_dir X = true -> rdir X pre -> get X (pre ++ [x]) = Some (File d0 pm0 mt0) ->
      (forall e, In e (es ++ [e_last]) -> e_name e = entry_name (pre ++ [x]) false /\ e_type e = ty_reg) ->
      unpack_entries is_root allow (at_dst fs0 (comps_of dst) X) dst dirs (es ++ [e_last])
      = (at_dst fs0 (comps_of dst)
           (put X (pre ++ [x]) (File (e_body e_last) (e_mode e_last) (Some (sec_to_ns (e_mtime e_last))))), dirs, None).
Proof. exact last_of_many_file_entries. Qed.
Print Assumptions C15_last_of_many_file_entries.

(* "Children before their parent directory" and "the same path several times", for directories:
   a directory entry for a path that already is a directory - made implicitly for a child that
   came first, or by an earlier entry - changes nothing at that moment and queues its permissions
   and time; of the queued restores of one path, applied after everything is in place and in the
   order read, the last one decides, and the directory's contents are untouched. *)
Theorem C15_directory_entry_for_existing_directory :
  forall allow fs0 dst, dst_ok dst -> is_dir fs0 = true -> rdir fs0 (comps_of dst) ->
  forall X pre x pm0 mt0 kids is_root dirs e,
    is_dir X = true -> rdir X pre -> forallb seg_ok (pre ++ [x]) = true ->
    get X (pre ++ [x]) = Some (Dir pm0 mt0 kids) ->
    e_name e = entry_name (pre ++ [x]) true -> e_type e = ty_dir ->
    unpack_entry is_root allow (at_dst fs0 (comps_of dst) X) dst dirs e
    = (at_dst fs0 (comps_of dst) X, dirs ++ [(comps_of dst ++ pre ++ [x], e)], None).
Proof. exact dir_entry_again. Qed.
Print Assumptions C15_directory_entry_for_existing_directory.

Theorem C15_last_directory_entry_wins :
  forall fs0 dst, dst_ok dst -> is_dir fs0 = true -> rdir fs0 (comps_of dst) ->
  forall pre x, forallb seg_ok (pre ++ [x]) = true ->
  forall es X pm0 mt0 kids e_last more,
    is_dir X = true -> rdir X pre -> get X (pre ++ [x]) = Some (Dir pm0 mt0 kids) ->
    restore_dirs (at_dst fs0 (comps_of dst) X) (map (fun e => (comps_of dst ++ pre ++ [x], e)) (es ++ [e_last]) ++ more)
    = restore_dirs (at_dst fs0 (comps_of dst)
        (put X (pre ++ [x]) (Dir (e_mode e_last) (Some (sec_to_ns (e_mtime e_last))) kids))) more.
Proof. exact last_dir_entry_wins. Qed.
Print Assumptions C15_last_directory_entry_wins.

(* An entry of a type that cannot be represented (hard link, device, fifo, ...)
   makes Unpack fail with an illegal-slug result; it is never dropped. *)
Theorem C15_unsupported_fails :
  forall is_root allow fs dst dirs e,
    e_name e <> [] -> supported e = false ->
    snd (unpack_entry is_root allow fs dst dirs e) = Some RIllegal.
Proof. exact unsupported_fails. Qed.

Theorem C15_success_means_all_supported :
  forall is_root allow fs dst es fs',
    unpack is_root allow fs dst es = (fs', ROk) ->
    forall e, In e es -> e_name e <> [] -> supported e = true.
Proof. exact unpack_ok_all_supported. Qed.

(* concrete sequential readings: children before their parent directory, the
   same path twice with an earlier read-only version (as an unprivileged user),
   a leading slash and "./", an empty directory; directory metadata applied
   after the contents *)
Example C15_sequential_reading :
  let fs := Dir 493 None [(s2l "dst", Dir 493 None [])] in
  let es := [ mkEntry (s2l "d/f") 48 [] 292 100 (s2l "one");          (* 0444 *)
              mkEntry (s2l "/d/f") 48 [] 384 200 (s2l "two");         (* same path again, 0600 *)
              mkEntry (s2l "./d/") 53 [] 365 300 [];                  (* the parent, after its child, 0555 *)
              mkEntry (s2l "empty/") 53 [] 448 400 [];
              mkEntry (s2l "d/l") 50 (s2l "f") 511 500 [] ] in
  unpack false [] fs (s2l "/dst") es =
  (Dir 493 None [(s2l "dst", Dir 493 None
      [ (s2l "d", Dir 365 (Some 300000000000%Z) [(s2l "f", File (s2l "two") 384 (Some 200000000000%Z)); (s2l "l", Link (s2l "f"))]);
        (s2l "empty", Dir 448 (Some 400000000000%Z) []) ])], ROk).
Proof. vm_compute. reflexivity. Qed.

Print Assumptions C15_unsupported_fails.
Print Assumptions C15_success_means_all_supported.
