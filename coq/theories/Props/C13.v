(* C13 — The bundle is a function of its inputs, not of order or scheduling. *)
From Slug Require Import Base.Str Bundle.Versions Bundle.Builder Bundle.BuilderProofs.
From Slug Require Addr.Parse Bundle.Lookup Bundle.ManifestRT.
From Coq Require Import Permutation.

(* Two error-free builds over the same world whose Add calls mention the same
   set of items - in any order, with any repetitions, and therefore for every
   order in which dependencies get discovered - analyse the same set of
   artifacts and give every package the same directory content identity.
   (Operations are atomic in the model, which is what the builder's mutex
   provides; see DESIGN.md for what is not covered below that granularity.) *)
Theorem C13_order_independent :
  forall fuel w ops ops' st outs st' outs',
    run_ops fuel w init_state ops = (st, outs) -> forallb ok_outcome outs = true ->
    run_ops fuel w init_state ops' = (st', outs') -> forallb ok_outcome outs' = true ->
    (forall i, In i (roots_of ops) <-> In i (roots_of ops')) ->
    (forall a, In a (analyzed st) <-> In a (analyzed st')) /\
    (forall a c c', In a (analyzed st) ->
       assoc str_eqb (fst (fst a)) (dirs st) = Some c ->
       assoc str_eqb (fst (fst a)) (dirs st') = Some c' -> c = c').
Proof. exact order_independent. Qed.

(* Directory identity is the content identity the world assigns: two packages
   share a directory exactly when their prepared contents are equal. *)
Theorem C13_coalesce_iff_equal_content :
  forall w st p q c c' m m',
    cache_ok w st ->
    assoc str_eqb p (dirs st) = Some c -> assoc str_eqb q (dirs st) = Some c' ->
    w_fetch w p = Some m -> w_fetch w q = Some m' ->
    (c = c' <-> fst m = fst m').
Proof.
  intros w st p q c c' m m' K Hp Hq Fp Fq.
  destruct (co_d _ _ K _ _ Hp) as [x Hx]. destruct (co_d _ _ K _ _ Hq) as [y Hy].
  rewrite Hx in Fp. rewrite Hy in Fq. injection Fp as <-. injection Fq as <-. cbn. tauto.
Qed.

Print Assumptions C13_order_independent.
Print Assumptions C13_coalesce_iff_equal_content.

(* The manifest's package section does not depend on the order in which the
   builder's map of package directories is visited (Go map iteration order):
   for tables whose packages print differently, any two visiting orders write
   the same list of records. *)
Theorem C13_manifest_packages_order_independent :
  forall (dirs dirs' : list (Parse.rpkg * str)) meta,
    NoDup (map (fun pd => Parse.rpkg_string (fst pd)) dirs) -> Permutation dirs dirs' ->
    ManifestRT.write_packages dirs meta = ManifestRT.write_packages dirs' meta.
Proof. exact ManifestRT.write_order_irrelevant. Qed.

Print Assumptions C13_manifest_packages_order_independent.
