(* C02 — Pack followed by Unpack reproduces the source tree. *)
From Slug Require Import Base.Str Base.PathAlg Base.PathLemmas FS.FS FS.FSProofs Slug.Unpack Slug.UnpackSafe Slug.Pack Slug.PackProofs
  Slug.RoundTrip Slug.RoundTripPack Ignore.Rules Ignore.RulesProofs Slug.PackIgnore Slug.RoundTripIgnore.

(* glue between the two models: a Pack entry as the tar entry Unpack reads: RoundTripPack.to_entry *)

Definition round_trip (fuel : nat) (fs : node) (opts : popts) (src dst : str) : option (node * ures) :=
  match fst (pack fuel fs opts [true; false; false] [] src) with
  | PackOk es _ _ => Some (unpack true (o_allow opts) fs dst (map to_entry es))
  | _ => None
  end.

(* ---- the round trip, for every tree of regular files, directories, links that stay inside and
   special files ----
   [stree]: regular files, directories, symbolic links and special files (fifos, sockets, devices),
   any depth and width; [wf]: every name a
   single plain path segment, no name twice in a directory; [wfs]: directory listings sorted (the
   order in which filepath.Walk reads them and in which the model's file system lists a directory);
   [links_ok]: every link target is relative, not empty and, read from the directory the link sits
   in, never climbs above the top of the tree (it may dangle, name another link, or go up and down
   inside the tree) - the sense of "stays inside" that does not depend on what the tree's own
   directory is called, and the one under which Pack's check against the source directory and
   Unpack's check against the destination agree (valid_symlink_stays).  The source
   directory is a real directory below real directories; the destination is an existing empty
   directory given by a clean absolute path; ignore processing is off; any allow list, any cwd,
   any state of the shared flags.  Then Pack succeeds, and unpacking what it wrote puts into the
   destination exactly the source tree without its special files ([rpk] filters them out at every
   level: "the only omissions") - same names, contents and permissions, the same link targets,
   every file and directory time rounded to the nearest second ([rounded]) - and nothing else
   changes. *)
Theorem C02_round_trip :
  forall fs opts flags cwd fuel pre x pmR mtR ks dst pmD mtD,
    is_dir fs = true -> rdir fs pre -> forallb seg_ok (pre ++ [x]) = true ->
    get fs (pre ++ [x]) = Some (to_node (SDir pmR mtR ks)) ->
    o_ignore opts = false -> sheight (SDir pmR mtR ks) < fuel ->
    wf (SDir pmR mtR ks) -> wfs (SDir pmR mtR ks) -> links_ok [] (SDir pmR mtR ks) ->
    dst_ok dst -> rdir fs (comps_of dst) -> get fs (comps_of dst) = Some (Dir pmD mtD []) ->
    exists es files size,
      pack fuel fs opts flags cwd (join_abs (pre ++ [x])) = (PackOk es files size, flags) /\
      unpack true (o_allow opts) fs dst (map to_entry es)
      = (put fs (comps_of dst) (Dir pmD (match rpk ks with [] => mtD | _ => None end) (rpk ks)), ROk).
Proof. exact pack_unpack_round_trip. Qed.
Print Assumptions C02_round_trip.

(* a link that stays inside is accepted by validSymlink under every root: the source directory
   on the Pack side and the destination on the Unpack side *)
Theorem C02_link_check_is_root_independent :
  forall allow root pre x t,
    dst_ok root -> forallb seg_ok (pre ++ [x]) = true -> link_stays pre t = true ->
    valid_symlink allow root (join_abs (comps_of root ++ pre ++ [x])) t = true.
Proof. exact valid_symlink_stays. Qed.
Print Assumptions C02_link_check_is_root_independent.

(* non-vacuity: a tree with an empty directory, an empty file, odd modes, nesting, a dangling link,
   a link to a link, a link that goes up and down inside the tree *)
Definition c02_stree : stree :=
  SDir 493 (Some 1500000000400000000%Z)
    [ (s2l "a", SFile (s2l "alpha") 256 (Some 1400000000500000000%Z));
      (s2l "e", SFile [] 420 (Some 1400000001499999999%Z));
      (s2l "emptydir", SDir 448 (Some 1500000002600000000%Z) []);
      (s2l "fifo", SSpecial 1);
      (s2l "l1", SLink (s2l "nowhere"));
      (s2l "l2", SLink (s2l "l1"));
      (s2l "sub", SDir 493 (Some 1500000003000000000%Z)
         [ (s2l "f", SFile (s2l "data") 384 (Some 1400000004000000001%Z));
           (s2l "up", SLink (s2l "../emptydir/../sub/f")) ]) ].
Example C02_hypotheses_satisfiable :
  wf c02_stree /\ wfs c02_stree /\ links_ok [] c02_stree /\ sheight c02_stree < 10 /\
  forallb seg_ok ([] ++ [s2l "src"]) = true /\ dst_ok (s2l "/dst").
Proof. cbn. repeat split; try reflexivity; try lia; repeat constructor; cbn; intuition discriminate. Qed.

(* Pieces that are proved for all inputs (also for trees outside the theorem above: links that
   leave the tree and re-enter it by name, unsorted listings, ignore rules):
   - Pack stores exactly the content of in-tree regular files and only valid
     links (C05), its metadata describes the entries (C20);
   - Unpack writes nothing outside dst (C01);
   - mtimes are rounded to the nearest second by Pack and restored exactly. *)
Theorem C02_rounding : forall s ns, (0 <= ns < 1000000000)%Z ->
  round_sec (s * 1000000000 + ns) = (if Z.ltb ns 500000000 then s else s + 1)%Z.
Proof.
  intros s ns H. unfold round_sec.
  destruct (Z.ltb_spec ns 500000000).
  - replace (s * 1000000000 + ns + 500000000)%Z with ((ns + 500000000) + s * 1000000000)%Z by lia.
    rewrite Z.div_add by lia. rewrite Z.div_small by lia. lia.
  - replace (s * 1000000000 + ns + 500000000)%Z with ((ns - 500000000) + (s + 1) * 1000000000)%Z by lia.
    rewrite Z.div_add by lia. rewrite Z.div_small by lia. lia.
Qed.

(* The composition on a concrete tree with the shapes the property names: an
   empty directory, an empty file, modes 0400 / 0755 / 0600, half-second mtimes
   on both sides of the rounding boundary, an in-tree relative link, a dangling
   link, a file in a sub-directory, entry names needing no special treatment.
   (For trees with links the general round trip is not proved; there the
   property is decided per run by the correspondence of both models plus the
   tree comparison on the implementation.) *)
Definition c02_src : node :=
  Dir 493 (Some 1500000000400000000%Z)
    [ (s2l "a", File (s2l "alpha") 256 (Some 1400000000500000000%Z));
      (s2l "e", File [] 420 (Some 1400000001499999999%Z));
      (s2l "emptydir", Dir 448 (Some 1500000002600000000%Z) []);
      (s2l "sub", Dir 493 (Some 1500000003000000000%Z)
         [ (s2l "f", File (s2l "data") 384 (Some 1400000004000000001%Z));
           (s2l "up", Link (s2l "../a")) ]);
      (s2l "dangling", Link (s2l "nothing")) ].

Definition c02_expected : node :=
  Dir 493 None
    [ (s2l "a", File (s2l "alpha") 256 (Some 1400000001000000000%Z));
      (s2l "dangling", Link (s2l "nothing"));
      (s2l "e", File [] 420 (Some 1400000001000000000%Z));
      (s2l "emptydir", Dir 448 (Some 1500000003000000000%Z) []);
      (s2l "sub", Dir 493 (Some 1500000003000000000%Z)
         [ (s2l "f", File (s2l "data") 384 (Some 1400000004000000000%Z));
           (s2l "up", Link (s2l "../a")) ]) ].

Example C02_round_trip_instance :
  let fs := Dir 493 None [(s2l "src", c02_src); (s2l "dst", Dir 493 None [])] in
  match round_trip 100 fs (mkOpts false false []) (s2l "/src") (s2l "/dst") with
  | Some (fs', r) => r = ROk /\ get fs' [s2l "dst"] = Some c02_expected /\ get fs' [s2l "src"] = Some c02_src
  | None => False
  end.
Proof. vm_compute. repeat split. Qed.

Print Assumptions C02_rounding.

(* With ignore processing.  When the rule set never re-includes anything below
   an entry it excludes ([closed_kids]: decided by evaluation, [closed_kidsb]),
   the round trip yields exactly the tree with the excluded entries cut out
   ([cut_kids]: an entry stays iff its own path is not excluded) - "the only
   omissions are entries excluded by ignore rules and special files".  Any
   file system, destination, option set, working directory, state of the shared
   flags; rule_ok is evaluated per run.  (Where a rule set does re-include below
   an excluded directory the slug holds entries whose parent has none, and
   Unpack makes those parents with default metadata: outside this statement.) *)
Theorem C02_round_trip_with_ignore :
  forall fs opts flags cwd fuel pre x pmR mtR ks dst pmD mtD rules flags',
    is_dir fs = true -> rdir fs pre -> forallb seg_ok (pre ++ [x]) = true ->
    get fs (pre ++ [x]) = Some (to_node (SDir pmR mtR ks)) ->
    sheight (SDir pmR mtR ks) < fuel ->
    wf (SDir pmR mtR ks) -> wfs (SDir pmR mtR ks) -> links_ok [] (SDir pmR mtR ks) ->
    load_rules fs opts flags cwd (join_abs (pre ++ [x])) = (rules, flags') ->
    (forall rs, rules = Some rs -> flags_sound rs /\ (forall r, In r rs -> rule_ok r)) ->
    closed_kids rules [] ks ->
    dst_ok dst -> rdir fs (comps_of dst) -> get fs (comps_of dst) = Some (Dir pmD mtD []) ->
    exists es files size,
      pack fuel fs opts flags cwd (join_abs (pre ++ [x])) = (PackOk es files size, flags') /\
      unpack true (o_allow opts) fs dst (map to_entry es)
      = (put fs (comps_of dst)
           (Dir pmD (match rpk (cut_kids rules [] ks) with [] => mtD | _ => None end) (rpk (cut_kids rules [] ks))), ROk).
Proof. exact pack_unpack_round_trip_ignore. Qed.

Theorem C02_closedness_is_decidable :
  forall rules (pm : N) (mt : option Z) ks rel, closed_kidsb rules rel ks = true -> closed_kids rules rel ks.
Proof. exact closed_kidsb_sound. Qed.

(* an instance: the built-in rules and "*.log", "build/" on a tree with .git, logs and a build directory *)
Example C02_with_ignore_instance :
  let ign := s2l ("*.log" ++ String (ch 10) "build/") in
  let t := SDir 493 None
             [(s2l ".git", SDir 493 None [(s2l "HEAD", SFile (s2l "ref") 420 None)]);
              (s2l ".terraformignore", SFile ign 420 (Some 1400000001000000000%Z));
              (s2l "a.log", SFile (s2l "l") 420 None);
              (s2l "build", SDir 493 None [(s2l "out", SFile (s2l "o") 420 None)]);
              (s2l "main.tf", SFile (s2l "m") 420 (Some 1400000002000000000%Z))] in
  let fs := Dir 493 None [(s2l "s", to_node t); (s2l "d", Dir 493 None [])] in
  let opts := mkOpts false true [] in
  match load_rules fs opts pristine_flags [] (s2l "/s"), t with
  | (rules, _), SDir _ _ ks =>
      closed_kidsb rules [] ks = true /\
      map fst (cut_kids rules [] ks) = [s2l ".terraformignore"; s2l "main.tf"] /\
      match fst (pack 10 fs opts pristine_flags [] (s2l "/s")) with
      | PackOk es _ _ =>
          match unpack true [] fs (s2l "/d") (map to_entry es) with
          | (fs', r) => r = ROk /\
              get fs' [s2l "d"] = Some (Dir 493 None [(s2l ".terraformignore", File ign 420 (Some 1400000001000000000%Z));
                                                    (s2l "main.tf", File (s2l "m") 420 (Some 1400000002000000000%Z))])
          end
      | _ => False
      end
  | _, _ => False
  end.
Proof. vm_compute. repeat split. Qed.

Print Assumptions C02_round_trip_with_ignore.
Print Assumptions C02_closedness_is_decidable.
