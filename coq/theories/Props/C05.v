(* C05 — Pack never leaks outside content and always emits a slug Unpack accepts. *)
From Slug Require Import Base.Str Base.PathAlg FS.FS Slug.Unpack Slug.Pack Slug.PackProofs.

(* Without dereferencing: every regular-file entry carries the content of a
   regular file inside the source directory, and every link entry passed the
   containment decision (lexically inside the root at its position, or
   allow-listed); an out-of-tree link that is not allow-listed makes Pack fail
   with an illegal-slug result (that is the only other outcome of the link
   branch of the model when dereferencing is off). *)
Theorem C05_no_leak_without_dereference :
  forall fuel fs opts flags cwd src es files size fl,
    o_deref opts = false ->
    pack fuel fs opts flags cwd src = (PackOk es files size, fl) ->
    exists root top, lstat fs root = Ok top /\
      forall e, In e es ->
        (pe_type e = ty_reg -> exists rel pm mt, get top rel = Some (File (pe_body e) pm mt)) /\
        (pe_type e = ty_sym -> exists p, valid_symlink (o_allow opts) (join_abs root) (join_abs p) (pe_link e) = true).
Proof. exact pack_no_leak. Qed.

(* With or without dereferencing: every regular-file entry carries the content of a regular file
   that exists in the file system, at or below something Lstat reaches (the source directory, or
   the end of the chain of an external link that was dereferenced); and whatever is stored as a
   link passed the containment decision against the source directory - lexically inside it, or
   allow-listed.  So an out-of-tree link is never stored as a link unless the caller allow-listed
   its target, dereferencing or not. *)
Theorem C05_entries_accounted_for :
  forall fuel fs opts flags cwd src es files size fl,
    pack fuel fs opts flags cwd src = (PackOk es files size, fl) ->
    exists root,
      forall e, In e es ->
        (pe_type e = ty_reg -> exists ap top' rel pm mt, lstat fs ap = Ok top' /\ get top' rel = Some (File (pe_body e) pm mt)) /\
        (pe_type e = ty_sym -> exists p, valid_symlink (o_allow opts) (join_abs root) (join_abs p) (pe_link e) = true).
Proof. exact pack_entries_accounted. Qed.
Print Assumptions C05_entries_accounted_for.

(* With dereferencing the last sentence of the property - every relative link
   entry, read at its own position in the archive, points inside the archive
   root - is FALSE of the faithful model and of the code: links inside a
   dereferenced directory are judged at their on-disk position (known finding
   KF-C05-1).  Witness: x -> ../o/d is dereferenced; o/d/h/back -> ../../../s/a
   is inside the source on disk, so it is stored as a link x/h/back whose target
   climbs out of the archive root. *)
Definition c05_fs : node :=
  Dir 493 None
    [ (s2l "s", Dir 493 None [(s2l "a", File (s2l "A") 420 None); (s2l "x", Link (s2l "../o/d"))]);
      (s2l "o", Dir 493 None [(s2l "d", Dir 493 None
          [(s2l "h", Dir 493 None [(s2l "back", Link (s2l "../../../s/a"))])])]) ].

Example C05_archive_position_refuted :
  match fst (pack 100 c05_fs (mkOpts true false []) [true; false; false] [] (s2l "/s")) with
  | PackOk es _ _ =>
      exists e, In e es /\ pe_type e = ty_sym /\ pe_name e = s2l "x/h/back" /\
                within (s2l "/R") (fjoin (dir_of (fjoin (s2l "/R") (pe_name e))) (pe_link e)) = false
  | _ => False
  end.
Proof.
  vm_compute. eexists. split; [right; right; left; reflexivity|]. repeat split.
Qed.

(* Without dereferencing the last sentence is FALSE too, of the model and of the code, for a
   relative link that leaves the source directory and comes back in through the directory's own
   name (known finding KF-C05-3): s/a -> ../s/b is inside "/s" as Pack judges it, is stored as a
   link, and at its position in the archive - whose root has no name - points outside: Unpack
   into /dst refuses the slug, Unpack into a directory that happens to be called s accepts it. *)
Definition c05_fs2 : node :=
  Dir 493 None
    [ (s2l "s", Dir 493 None [(s2l "a", Link (s2l "../s/b")); (s2l "b", File (s2l "B") 420 None)]);
      (s2l "dst", Dir 493 None []);
      (s2l "x", Dir 493 None [(s2l "s", Dir 493 None [])]) ].

Definition c05_reenter_check : bool :=
  match fst (pack 100 c05_fs2 (mkOpts false false []) [true; false; false] [] (s2l "/s")) with
  | PackOk es _ _ =>
      let es' := map (fun e => mkEntry (pe_name e) (pe_type e) (pe_link e) (pe_perm e) (pe_mtime e) (pe_body e)) es in
      existsb (fun e => N.eqb (pe_type e) ty_sym && str_eqb (pe_link e) (s2l "../s/b")) es
      && (match snd (unpack true [] c05_fs2 (s2l "/dst") es') with RIllegal => true | _ => false end)
      && (match snd (unpack true [] c05_fs2 (s2l "/x/s") es') with ROk => true | _ => false end)
  | _ => false
  end.
Example C05_reentering_link_refuted : c05_reenter_check = true.
Proof. vm_compute. reflexivity. Qed.

Print Assumptions C05_no_leak_without_dereference.
Print Assumptions C05_archive_position_refuted.
Print Assumptions C05_reentering_link_refuted.
