(* C19 — No entry point panics, crashes or hangs on any input. *)
From Slug Require Import Base.Str Base.PathAlg FS.FS Ignore.Rules Ignore.Glob Ignore.GlobProofs Ignore.RulesProofs
  Slug.Unpack Slug.Pack Slug.PackTerm Slug.UnpackTotal.

(* Parsing any rule file (blank, whitespace-only, lone "!" and degenerate lines
   included) never takes the index-out-of-range branches: the model's Panic
   result is unreachable. *)
Theorem C19_rule_file_never_panics : forall flags data, fst (read_rules flags data) <> PPanic.
Proof. exact read_rules_no_panic. Qed.

(* Packing a tree without dereferencing terminates with fuel equal to the
   height of the tree, whatever the tree holds: symlink cycles, links to special
   files, oddly named entries, any rule file. *)
Theorem C19_pack_terminates_without_dereference :
  forall fs opts rules root, o_deref opts = false ->
  forall fuel src dst chain p n a, height n <= fuel ->
    pack_node fs opts rules root fuel src dst chain p n a <> inr PackFuel.
Proof. exact pack_node_fuel. Qed.

(* Unpacking any entry list into any file system: the result is ok, illegal slug or error; the
   branch of the model that stands for a run-time panic (an empty name reaching NewUnpackInfo) is
   never taken.  (That the decoded entry list is all Unpack sees of the byte stream is validated
   per run; archive/tar and gzip are exercised for real.) *)
Theorem C19_unpack_never_panics :
  forall is_root allow fs dst es, snd (unpack is_root allow fs dst es) <> RPanic.
Proof. exact unpack_never_panics. Qed.

(* Path resolution in the model is total and structurally terminating (at most
   40 link expansions, as in the kernel): [walk] is a Fixpoint, no fuel. *)
Example C19_symlink_cycle_resolves_to_error :
  let fs := Dir 493 None [(s2l "a", Link (s2l "b")); (s2l "b", Link (s2l "a"))] in
  resolve fs true [s2l "a"] = Err ELOOP.
Proof. vm_compute. reflexivity. Qed.

(* With dereferencing (after the repairs 68d539a, 106b563, 3c7f257): a link
   chain cycle, a link to a fifo and an external directory linking back to
   itself all end with an error or are skipped, within small fuel. *)
Example C19_dereference_hazards_terminate :
  let o := Dir 493 None [(s2l "loop", Link (s2l "loop2")); (s2l "loop2", Link (s2l "loop"));
                         (s2l "pipe", Special 1);
                         (s2l "d", Dir 493 None [(s2l "self", Link (s2l "../d")); (s2l "g", File (s2l "g") 420 None)])] in
  let mk := fun t => Dir 493 None [(s2l "s", Dir 493 None [(s2l "l", Link t)]); (s2l "o", o)] in
  fst (pack 60 (mk (s2l "../o/loop")) (mkOpts true false []) [true; false; false] [] (s2l "/s")) = PackErr /\
  fst (pack 60 (mk (s2l "../o/pipe")) (mkOpts true false []) [true; false; false] [] (s2l "/s")) = PackOk [] [] 0 /\
  fst (pack 60 (mk (s2l "../o/d")) (mkOpts true false []) [true; false; false] [] (s2l "/s")) = PackErr.
Proof. vm_compute. repeat split. Qed.

Print Assumptions C19_rule_file_never_panics.
Print Assumptions C19_unpack_never_panics.
Print Assumptions C19_pack_terminates_without_dereference.
