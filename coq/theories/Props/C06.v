(* C06 — Source addresses print to strings that parse back to the same address.
   Only statements, each closed by [exact] of a lemma proved elsewhere. *)
From Slug Require Import Base.Str Base.PathAlg Base.Search Addr.Resolve Addr.ResolveProofs Addr.Url Addr.Parse Addr.ParseProofs Addr.RoundTrip Addr.RoundTripFinal Addr.RemoteParse Addr.RemoteTheorems Addr.Classify.

(* ---- local addresses ---- *)
(* a local address value is the text that was parsed: printing and parsing are inverse *)
Theorem C06_local_round_trip :
  forall s r, parse_local s = Some r -> r = s /\ parse_local r = Some r.
Proof. intros s r H. split; [exact (parse_local_is_text s r H)|exact (parse_local_round_trip s r H)]. Qed.
Print Assumptions C06_local_round_trip.

(* resolving a local address against a local address gives a canonical local address *)
Theorem C06_local_resolve_canonical :
  forall a b, parse_local a = Some a -> parse_local b = Some b ->
    parse_local (resolve_local a b) = Some (resolve_local a b).
Proof. exact resolve_local_canonical. Qed.
Print Assumptions C06_local_resolve_canonical.

Example C06_local_resolve_examples :
  resolve_local (s2l "./") (s2l "./") = s2l "./" /\
  resolve_local (s2l "./a") (s2l "../") = s2l "./" /\
  resolve_local (s2l "./a") (s2l "../../") = s2l "../" /\
  resolve_local (s2l "../a") (s2l "./b/c") = s2l "../a/b/c".
Proof. vm_compute. repeat split. Qed.

(* ---- registry addresses ----
   [wf_mpkgb] is what every package value returned by ParseRegistrySource satisfies
   (canonical host in the sense of svchost, names of the documented shape); the
   addr stream evaluates it on every accepted registry address of a run. *)
Theorem C06_registry_round_trip :
  forall p sub, wf_mpkgb p = true -> valid_sub sub -> ~ In c_qmark sub -> all_ascii sub = true ->
    parse_registry (registry_string p sub) = Ok (p, sub).
Proof. exact registry_round_trip. Qed.
Print Assumptions C06_registry_round_trip.

Theorem C06_registry_package_round_trip :
  forall p, wf_mpkgb p = true -> parse_registry_pkg (mpkg_string p) = Ok p.
Proof. exact registry_pkg_round_trip. Qed.
Print Assumptions C06_registry_package_round_trip.

(* ---- final registry addresses (package @ version [// sub-path]) ----
   [wf_version]: numbers below 2^64, pre-release and build texts over [0-9A-Za-z.-]
   (what ParseVersion returns; evaluated per run like wf_mpkgb).  The sub-path
   must not contain '@' (known finding KF-C06-4), '?' (KF-C06-5) or a newline. *)
Theorem C06_final_registry_round_trip :
  forall p v sub, wf_mpkgb p = true -> ~ In c_nl (m_host p) -> wf_version v = true ->
    valid_sub sub -> ~ In c_qmark sub -> ~ In c_at sub -> ~ In c_nl sub -> all_ascii sub = true ->
    parse_final_registry (final_registry_string p v sub) = Ok (p, v, sub).
Proof. exact final_registry_round_trip. Qed.
Print Assumptions C06_final_registry_round_trip.

(* printing and reading a version are inverse; decimal printing and reading are inverse *)
Theorem C06_version_round_trip :
  forall v, wf_version v = true -> parse_version (version_string v) = Some v.
Proof. exact parse_version_printed. Qed.
Print Assumptions C06_version_round_trip.

Theorem C06_decimal_round_trip :
  forall n, print_N n <> [] /\ forallb is_digit (print_N n) = true /\ digits_val (print_N n) = n.
Proof. exact print_N_spec. Qed.
Print Assumptions C06_decimal_round_trip.

(* ---- remote addresses ----
   [wf_remoteb p sub] (Addr/RemoteTheorems.v): the URL has no opaque part, user information,
   raw-path hint or fragment; scheme and type are lower case; host, path and sub-path contain no
   character that URL escaping rewrites; the path is empty or rooted, without "//" and without a
   trailing "/"; the query has no '#', no control character and does not end in '?'; and the value
   is a fixed point of makeRemoteSource (as every value built by the parsers or the constructor is).
   Values outside it are exactly where the known findings KF-C06-1..3 live. *)
Theorem C06_remote_round_trip :
  forall p sub, wf_remoteb p sub = true -> parse_remote (remote_string p sub) = Ok (p, sub).
Proof. exact remote_round_trip. Qed.
Print Assumptions C06_remote_round_trip.

(* how the parser reads any structured text [type::]scheme://host path [//sub][?query] *)
Theorem C06_parse_remote_structured :
  forall typ scheme host path sub query, parts_ok typ scheme host path sub query ->
    parse_remote (remote_text typ scheme host path sub query) =
      (if negb (is_empty typ) &&& str_eqb (to_lower typ) (to_lower scheme) then Rej
       else if snd (parse_query query) then Rej
       else make_remote (if is_empty typ then to_lower scheme else to_lower typ)
                        (parsed_url scheme host path query) sub).
Proof. exact parse_remote_structured. Qed.
Print Assumptions C06_parse_remote_structured.

(* ---- "of the same kind": the general parsers ----
   ParseSource and ParseFinalSource classify by syntax (local form, then "the registry
   parser accepts it", then remote).  A printed address goes back to the parser of the
   kind it was printed from: a printed registry address never has local form, and a
   printed remote address has neither local form nor is accepted by the registry parser
   (the "//" after the scheme leaves an empty namespace).  The two general parsers add
   one rule of their own, no leading or trailing white space, which is why that is a
   hypothesis here (classify_local_outer_space shows it is needed); [outer_ascii] is the
   model's limit (white-space trimming is modelled for ASCII first and last bytes). *)
Theorem C06_same_kind_local :
  forall r, parse_local r = Some r -> outer_ascii r = true -> has_outer_space r = false ->
    parse_source r = Ok (ALocal r) /\ parse_final_source r = Ok (ALocal r).
Proof. exact classify_local. Qed.
Print Assumptions C06_same_kind_local.

Theorem C06_same_kind_registry :
  forall p sub, wf_mpkgb p = true -> valid_sub sub -> ~ In c_qmark sub -> all_ascii sub = true ->
    outer_ascii (registry_string p sub) = true -> has_outer_space (registry_string p sub) = false ->
    parse_source (registry_string p sub) = Ok (ARegistry p sub).
Proof. exact classify_registry. Qed.
Print Assumptions C06_same_kind_registry.

Theorem C06_same_kind_final_registry :
  forall p v sub, wf_mpkgb p = true -> ~ In c_nl (m_host p) -> wf_version v = true ->
    valid_sub sub -> ~ In c_qmark sub -> ~ In c_at sub -> ~ In c_nl sub -> all_ascii sub = true ->
    outer_ascii (final_registry_string p v sub) = true -> has_outer_space (final_registry_string p v sub) = false ->
    parse_final_source (final_registry_string p v sub) = Ok (ARegistryFinal p v sub).
Proof. exact classify_final_registry. Qed.
Print Assumptions C06_same_kind_final_registry.

(* for ParseFinalSource too, wherever an '@' may occur in the printed text (path, query, sub-path):
   the final parser first offers the text before the last '@' to the registry parser, which
   refuses every text that begins "type::scheme://" (module_source_rejects_schemed) *)
Theorem C06_same_kind_remote :
  forall p sub, wf_remoteb p sub = true ->
    outer_ascii (remote_string p sub) = true -> has_outer_space (remote_string p sub) = false ->
    parse_source (remote_string p sub) = Ok (ARemote p sub) /\
    parse_final_source (remote_string p sub) = Ok (ARemote p sub).
Proof. exact classify_remote. Qed.
Print Assumptions C06_same_kind_remote.

(* the registry parser refuses every text that starts with a lower-case "type::scheme://",
   whatever follows *)
Theorem C06_registry_parser_refuses_remote_text :
  forall typ scheme t,
    type_okb typ = true -> scheme_ok scheme = true -> to_lower typ = typ -> to_lower scheme = scheme ->
    parse_module_source ((type_prefix typ ++ scheme) ++ css ++ t) = Rej.
Proof.
  intros typ scheme t Ht Hs Hlt Hls.
  destruct (pre_facts typ scheme Ht Hs Hlt Hls) as (H1 & H2 & H3 & _ & H5 & H6).
  now apply module_source_rejects_schemed.
Qed.
Print Assumptions C06_registry_parser_refuses_remote_text.

Example C06_same_kind_hypotheses_satisfiable : classify_example_check = true.
Proof. exact classify_examples. Qed.

(* ---- "two addresses are equal exactly when they print the same" ----
   printing is injective on the values the round-trip theorems cover (a corollary: parse the
   common text) *)
Theorem C06_equal_iff_same_print_registry :
  forall p sub p' sub',
    wf_mpkgb p = true -> valid_sub sub -> ~ In c_qmark sub -> all_ascii sub = true ->
    wf_mpkgb p' = true -> valid_sub sub' -> ~ In c_qmark sub' -> all_ascii sub' = true ->
    (registry_string p sub = registry_string p' sub' <-> (p, sub) = (p', sub')).
Proof.
  intros p sub p' sub' H1 H2 H3 H4 H1' H2' H3' H4'. split; [|now intros [= -> ->]].
  intros E. pose proof (registry_round_trip p sub H1 H2 H3 H4) as R.
  rewrite E, (registry_round_trip p' sub' H1' H2' H3' H4') in R. now injection R as -> ->.
Qed.
Print Assumptions C06_equal_iff_same_print_registry.

Theorem C06_equal_iff_same_print_remote :
  forall p sub p' sub', wf_remoteb p sub = true -> wf_remoteb p' sub' = true ->
    (remote_string p sub = remote_string p' sub' <-> (p, sub) = (p', sub')).
Proof.
  intros p sub p' sub' H H'. split; [|now intros [= -> ->]].
  intros E. pose proof (remote_round_trip p sub H) as R.
  rewrite E, (remote_round_trip p' sub' H') in R. now injection R as -> ->.
Qed.
Print Assumptions C06_equal_iff_same_print_remote.

Theorem C06_equal_iff_same_print_final_registry :
  forall p v sub p' v' sub',
    wf_mpkgb p = true -> ~ In c_nl (m_host p) -> wf_version v = true ->
    valid_sub sub -> ~ In c_qmark sub -> ~ In c_at sub -> ~ In c_nl sub -> all_ascii sub = true ->
    wf_mpkgb p' = true -> ~ In c_nl (m_host p') -> wf_version v' = true ->
    valid_sub sub' -> ~ In c_qmark sub' -> ~ In c_at sub' -> ~ In c_nl sub' -> all_ascii sub' = true ->
    (final_registry_string p v sub = final_registry_string p' v' sub' <-> (p, v, sub) = (p', v', sub')).
Proof.
  intros p v sub p' v' sub' A1 A2 A3 A4 A5 A6 A7 A8 B1 B2 B3 B4 B5 B6 B7 B8. split; [|now intros [= -> -> ->]].
  intros E. pose proof (final_registry_round_trip p v sub A1 A2 A3 A4 A5 A6 A7 A8) as R.
  rewrite E, (final_registry_round_trip p' v' sub' B1 B2 B3 B4 B5 B6 B7 B8) in R. now injection R as -> -> ->.
Qed.
Print Assumptions C06_equal_iff_same_print_final_registry.

(* ---- remote, registry and final registry addresses: where the statement fails ----
   The full statement "every value prints to text that parses back to it" is
   FALSE of the model and of the code for sub-paths / URL paths that printing
   rewrites (known findings KF-C06-1..5).  Each witness below is evaluated in
   the model; the same inputs are replayed on the implementation by the addr stream. *)

(* KF-C06-1: a sub-path that URL escaping rewrites; printing is not idempotent either *)
Theorem C06_remote_escaping_refuted :
  exists s p sub p' sub',
    parse_remote s = Ok (p, sub) /\
    parse_remote (remote_string p sub) = Ok (p', sub') /\ str_eqb sub' sub = false /\
    str_eqb (remote_string p' sub') (remote_string p sub) = false.
Proof.
  exists (s2l "git::https://example.com/r.git//a b").
  do 4 eexists. split; [vm_compute; reflexivity|]. split; [vm_compute; reflexivity|].
  split; vm_compute; reflexivity.
Qed.
Print Assumptions C06_remote_escaping_refuted.

(* KF-C06-2: the raw form of the package path is lost once a sub-path is appended *)
Theorem C06_remote_rawpath_refuted :
  exists s p sub p' sub',
    parse_remote s = Ok (p, sub) /\
    parse_remote (remote_string p sub) = Ok (p', sub') /\
    str_eqb (u_path (p_url p')) (u_path (p_url p)) && str_eqb (u_rawpath (p_url p')) (u_rawpath (p_url p)) = false.
Proof.
  exists (s2l "https://example.com/a%2Fb.tgz//m").
  do 4 eexists. split; [vm_compute; reflexivity|]. split; [vm_compute; reflexivity|]. vm_compute; reflexivity.
Qed.

(* KF-C06-3: a fragment is printed after the sub-path *)
Theorem C06_remote_fragment_refuted :
  exists s p sub p' sub',
    parse_remote s = Ok (p, sub) /\
    parse_remote (remote_string p sub) = Ok (p', sub') /\ str_eqb sub' sub = false.
Proof.
  exists (s2l "https://example.com/x.tgz#f//sub").
  do 4 eexists. split; [vm_compute; reflexivity|]. split; [vm_compute; reflexivity|]. vm_compute; reflexivity.
Qed.

(* KF-C06-4: '@' in the sub-path of a final registry address (a value obtained by resolving ./a@b) *)
Theorem C06_final_at_sign_refuted :
  exists s p v sub sub2,
    parse_final_registry s = Ok (p, v, sub) /\
    join_sub_path sub (s2l "./a@b") = Some sub2 /\
    parse_final_registry (final_registry_string p v sub2) = Rej.
Proof.
  exists (s2l "hashicorp/subnets/aws@2.0.0//org").
  do 4 eexists. split; [vm_compute; reflexivity|]. split; [vm_compute; reflexivity|]. vm_compute; reflexivity.
Qed.

(* KF-C06-5: '?' in the sub-path of a registry address (a value obtained by resolving ./a?b) *)
Theorem C06_registry_question_mark_refuted :
  exists s p sub sub2,
    parse_registry s = Ok (p, sub) /\
    join_sub_path sub (s2l "./a?b") = Some sub2 /\
    parse_registry (registry_string p sub2) = Rej.
Proof.
  exists (s2l "hashicorp/subnets/aws//x").
  do 3 eexists. split; [vm_compute; reflexivity|]. split; [vm_compute; reflexivity|]. vm_compute; reflexivity.
Qed.

(* what does hold on concrete values of every kind (instances, not the general theorem) *)
Example C06_round_trip_instances :
  (let s := s2l "Example.COM:443/N-s_1/n_a-me/aws//modules/vpc" in
   exists p sub, parse_registry s = Ok (p, sub) /\ parse_registry (registry_string p sub) = Ok (p, sub)) /\
  (let s := s2l "example.com:8080/ns/name/sys@01.2-rc.1+b//a/b" in
   exists p v sub, parse_final_registry s = Ok (p, v, sub) /\
                   parse_final_registry (final_registry_string p v sub) = Ok (p, v, sub)) /\
  (let s := s2l "GIT::HTTPS://Example.com:8443/org/repo.git//modules/vpc?ref=v1.0" in
   exists p sub, parse_remote s = Ok (p, sub) /\ parse_remote (remote_string p sub) = Ok (p, sub)) /\
  (let s := s2l "https://example.com/x?b=1&archive=tar.gz" in
   exists p sub, parse_remote s = Ok (p, sub) /\ parse_remote (remote_string p sub) = Ok (p, sub)) /\
  (let s := s2l "gitlab.com/org/repo/a/b?ref=main" in
   exists p sub, parse_remote s = Ok (p, sub) /\ parse_remote (remote_string p sub) = Ok (p, sub)).
Proof.
  split; [|split; [|split; [|split]]]; cbv zeta.
  - do 2 eexists. split; [vm_compute; reflexivity|]. vm_compute; reflexivity.
  - do 3 eexists. split; [vm_compute; reflexivity|]. vm_compute; reflexivity.
  - do 2 eexists. split; [vm_compute; reflexivity|]. vm_compute; reflexivity.
  - do 2 eexists. split; [vm_compute; reflexivity|]. vm_compute; reflexivity.
  - do 2 eexists. split; [vm_compute; reflexivity|]. vm_compute; reflexivity.
Qed.
