(* C07 — Accepted remote addresses always satisfy the documented transport policy.
   Only statements, each closed by [exact] of a lemma proved elsewhere.
   [policy_ok] (Addr/Policy.v) is written against the accessors of the accepted
   value only: known source type; https or ssh for git, https for archives; no
   user information; git: only one optional 'ref' argument; archives: no
   'checksum', and a .tar.gz/.tgz path or a single 'archive' argument equal to
   'tgz'; a sub-path without empty, '.' or '..' segments. *)
From Slug Require Import Base.Str Addr.Url Addr.Parse Addr.Policy Addr.ParseProofs Addr.RemoteParse Addr.RemoteTheorems Addr.Shorthand Base.PathLemmas Addr.ResolveProofs.

(* every string accepted by ParseRemoteSource (shorthand, any letter case,
   explicit or implied type) *)
Theorem C07_parse_remote_policy :
  forall s p sub, parse_remote s = Ok (p, sub) -> policy_ok p sub = true.
Proof. exact parse_remote_policy. Qed.
Print Assumptions C07_parse_remote_policy.

(* the constructor route, for every (type, URL, sub-path) triple *)
Theorem C07_make_remote_source_policy :
  forall typ u sub p sub', make_remote_source typ u sub = Ok (p, sub') -> policy_ok p sub' = true.
Proof. exact make_remote_source_policy. Qed.
Print Assumptions C07_make_remote_source_policy.

Theorem C07_parse_remote_package_policy :
  forall s p, parse_remote_pkg s = Ok p -> policy_ok p [] = true.
Proof. exact parse_remote_pkg_policy. Qed.
Print Assumptions C07_parse_remote_package_policy.

(* the general parsers, whenever they classify the string as remote *)
Theorem C07_parse_source_policy :
  forall s p sub, parse_source s = Ok (ARemote p sub) -> policy_ok p sub = true.
Proof. exact parse_source_policy. Qed.
Print Assumptions C07_parse_source_policy.

Theorem C07_parse_final_source_policy :
  forall s p sub, parse_final_source s = Ok (ARemote p sub) -> policy_ok p sub = true.
Proof. exact parse_final_source_policy. Qed.
Print Assumptions C07_parse_final_source_policy.

(* the archive argument is normalised: what is stored parses back to one 'tgz' *)
Theorem C07_query_normal_form :
  forall l, parse_query (encode_query l) = (sort_pairs l, false).
Proof. exact Addr.UrlProofs.parse_encode_query. Qed.
Print Assumptions C07_query_normal_form.

(* ---- conversely: addresses written in the documented grammar are accepted ----
   [parts_ok] (Addr/RemoteParse.v): type alphanumeric, scheme a URL scheme, host / path / sub-path free of
   characters that URL escaping rewrites, path empty or rooted without "//" or trailing "/", valid sub-path,
   query without '#', control characters or a final '?'.  Type and scheme may be written in any letter case. *)
Theorem C07_git_grammar_accepted :
  forall typ scheme host path sub query, parts_ok typ scheme host path sub query ->
    to_lower typ = s_git -> (to_lower scheme = s_https \/ to_lower scheme = s_ssh) ->
    (query = [] \/ exists v, query = s_ref ++ c_eq :: v /\ qplain v = true) ->
    parse_remote (remote_text typ scheme host path sub query)
    = Ok (mkPkg s_git (parsed_url scheme host path query), sub).
Proof. exact grammar_git_accepted. Qed.
Print Assumptions C07_git_grammar_accepted.

Theorem C07_archive_by_suffix_accepted :
  forall scheme host path sub, parts_ok [] scheme host path sub [] -> to_lower scheme = s_https ->
    (has_suffix path (s2l ".tgz") = true \/ has_suffix path (s2l ".tar.gz") = true) ->
    parse_remote (remote_text [] scheme host path sub [])
    = Ok (mkPkg s_https (parsed_url scheme host path []), sub).
Proof. exact grammar_archive_suffix_accepted. Qed.
Print Assumptions C07_archive_by_suffix_accepted.

Theorem C07_archive_by_argument_accepted :
  forall scheme host path sub v, parts_ok [] scheme host path sub (s_archive ++ c_eq :: v) ->
    to_lower scheme = s_https -> (v = s_tgz \/ v = s_targz) ->
    parse_remote (remote_text [] scheme host path sub (s_archive ++ c_eq :: v))
    = Ok (mkPkg s_https (parsed_url scheme host path (s2l "archive=tgz")), sub).
Proof. exact grammar_archive_argument_accepted. Qed.
Print Assumptions C07_archive_by_argument_accepted.

(* the github.com / gitlab.com shorthand: accepted as git over https, ".git" added unless the
   URL already ends in "git", everything after the repository taken as the sub-path *)
Theorem C07_shorthand_accepted :
  forall host org repo sub,
    (host = s2l "github.com" \/ host = s2l "gitlab.com") ->
    name_ok org -> name_ok repo ->
    valid_sub sub -> plainb EPath sub = true -> all_ascii sub = true ->
    parse_remote (shorthand_text host org repo sub)
    = Ok (mkPkg s_git (parsed_url s_https host (slash :: org ++ slash :: shorthand_repo host org repo) []), sub).
Proof. exact shorthand_accepted. Qed.
Print Assumptions C07_shorthand_accepted.

Example C07_shorthand_examples : shorthand_example_check = true.
Proof. exact shorthand_examples. Qed.

(* non-vacuity: accepted addresses of each shape exist, and violations of each rule are rejected *)
Example C07_accepts :
  (exists p sub, parse_remote (s2l "GIT::HTTPS://Example.com/org/repo.git//modules/vpc?ref=v1.0") = Ok (p, sub)) /\
  (exists p sub, parse_remote (s2l "github.com/hashicorp/go-slug/a/b?ref=main") = Ok (p, sub)) /\
  (exists p sub, parse_remote (s2l "https://example.com/x?b=1&archive=tar.gz") = Ok (p, sub)
                 /\ u_query (p_url p) = s2l "archive=tgz&b=1").
Proof. repeat split; repeat eexists; vm_compute; reflexivity. Qed.

Example C07_rejects :
  parse_remote (s2l "git::http://example.com/r.git") = Rej /\
  parse_remote (s2l "git::git://example.com/r.git") = Rej /\
  parse_remote (s2l "http://example.com/x.tgz") = Rej /\
  parse_remote (s2l "git::https://user:pw@example.com/r.git") = Rej /\
  parse_remote (s2l "git::https://example.com/r.git?ref=a&ref=b") = Rej /\
  parse_remote (s2l "git::https://example.com/r.git?depth=1") = Rej /\
  parse_remote (s2l "https://example.com/x.tgz?checksum=md5:abc") = Rej /\
  parse_remote (s2l "https://example.com/x.zip") = Rej /\
  parse_remote (s2l "https://example.com/x?archive=zip") = Rej /\
  parse_remote (s2l "git::https://example.com/r.git//a/../b") = Rej /\
  parse_remote (s2l "hg::https://example.com/r") = Rej /\
  parse_remote (s2l "https::https://example.com/x.tgz") = Rej.
Proof. vm_compute. repeat split. Qed.
