(* C19 on the Unpack model: for every entry list, file system and destination the
   result is one of ok / illegal slug / error; the branch that stands for a run-time
   panic (an empty name reaching NewUnpackInfo) is never taken. *)
From Slug Require Import Base.Str Base.PathAlg FS.FS Slug.Unpack.

Lemma unpack_entry_no_panic is_root allow fs dst dirs e :
  snd (unpack_entry is_root allow fs dst dirs e) <> Some RPanic.
Proof.
  unfold unpack_entry. destruct (e_name e); [discriminate|].
  destruct (new_unpack_info fs dst e); [|discriminate].
  destruct (mkdir_all fs _ 493) as [fs1 [|]]; [|discriminate].
  destruct (is_sym e).
  - destruct (valid_symlink _ _ _ _); [|discriminate].
    destruct (symlink fs1 _ _) as [fs2 [|]]; discriminate.
  - destruct (is_dir_e e).
    + destruct (mkdir_all fs1 _ 493) as [fs2 [|]]; discriminate.
    + destruct (negb (is_reg e)); [discriminate|].
      match goal with |- context [let '(f, r) := ?X in _] => destruct X as [fs2 [|]] end; [|discriminate].
      destruct (chmod fs2 _ _) as [fs3 [|]]; [|discriminate].
      destruct (chtimes fs3 _ _) as [fs4 [|]]; discriminate.
Qed.

Lemma unpack_entries_no_panic is_root allow dst : forall es fs dirs,
  snd (unpack_entries is_root allow fs dst dirs es) <> Some RPanic.
Proof.
  induction es as [|e es IH]; intros fs dirs; [discriminate|]. cbn [unpack_entries].
  pose proof (unpack_entry_no_panic is_root allow fs dst dirs e) as H.
  destruct (unpack_entry is_root allow fs dst dirs e) as [[fs1 dirs1] [r|]]; [exact H|apply IH].
Qed.

Lemma restore_dirs_no_panic : forall dirs fs, snd (restore_dirs fs dirs) <> RPanic.
Proof.
  induction dirs as [|[p e] dirs IH]; intros fs; [discriminate|]. cbn [restore_dirs].
  destruct (chmod fs p (e_mode e)) as [fs1 [|[]]]; cbn [tolerate]; try discriminate;
    (destruct (chtimes fs1 p _) as [fs2 [|[]]]; cbn [tolerate]; try discriminate; apply IH).
Qed.

Theorem unpack_never_panics is_root allow fs dst es : snd (unpack is_root allow fs dst es) <> RPanic.
Proof.
  unfold unpack. pose proof (unpack_entries_no_panic is_root allow dst es fs []) as H.
  destruct (unpack_entries is_root allow fs dst [] es) as [[fs1 dirs] [r|]]; cbn [snd] in *.
  - congruence.
  - apply restore_dirs_no_panic.
Qed.
