(* Model of Packer.Pack: resolution of the source argument, the filepath.Walk
   of the tree with ignore filtering and pruning, header construction,
   classification of links (validSymlink), dereferencing of out-of-tree links
   (bounded chain following, recursion into directories with the chain of
   directories being walked), and the metadata accounting. *)
From Slug Require Import Base.Str Base.PathAlg FS.FS Ignore.Rules Slug.Unpack.

Record popts := mkOpts { o_deref : bool; o_ignore : bool; o_allow : list str }.

Record pentry := mkPE {
  pe_name : str; pe_type : N; pe_link : str; pe_perm : N; pe_mtime : Z; pe_body : str }.

Inductive packres :=
| PackOk (es : list pentry) (files : list str) (size : N)
| PackIllegal
| PackErr
| PackFuel.

(* accumulator: entries and file names most recent first, bytes copied *)
Definition acc := (list pentry * list str * N)%type.

(* tar.Header.ModTime with FormatUnknown: rounded to the nearest second *)
Definition round_sec (ns : Z) : Z := ((ns + 500000000) / 1000000000)%Z.
Definition mtime_of (m : option Z) : Z := match m with Some ns => round_sec ns | None => 0%Z end.

(* meta.Files = append(header.Name); meta.Size += bytes copied: one place *)
Definition emit (a : acc) (e : pentry) : acc :=
  let '(es, files, size) := a in
  (e :: es, pe_name e :: files,
   if N.eqb (pe_type e) ty_reg then (size + N.of_nat (length (pe_body e)))%N else size).

(* ---------- sorted directory listing (filepath.Walk sorts names) ---------- *)
Fixpoint insert_name (x : str) (l : list str) : list str :=
  match l with
  | [] => [x]
  | y :: r => if str_ltb y x then y :: insert_name x r else x :: l
  end.
Definition sort_names (l : list str) : list str := fold_right insert_name [] l.

Definition readdir (n : node) : list str :=
  match n with Dir _ _ ks => sort_names (map fst ks) | _ => [] end.

(* ---------- filepath.Rel on component lists of clean absolute paths ---------- *)
Fixpoint rel_comps (base targ : list str) : list str :=
  match base, targ with
  | b :: base', t :: targ' => if str_eqb b t then rel_comps base' targ' else map (fun _ => seg_dotdot) base ++ targ
  | _, _ => map (fun _ => seg_dotdot) base ++ targ
  end.

Definition join_rel (comps : list str) : str := join_with slash comps.

(* os.Open(path) + read: follows links *)
Definition read_file (fs : node) (p : list str) : option str :=
  match resolve fs true p with
  | Ok ph => match get fs ph with Some (File d _ _) => Some d | _ => None end
  | Err _ => None
  end.

(* ---------- resolveExternalLink ---------- *)
(* returns the absolute target string (as the code builds it) and the node *)
Fixpoint resolve_external (hops : nat) (fs : node) (p : list str) : option (str * node) :=
  match hops with
  | O => None
  | S h =>
      match lstat fs p with
      | Ok (Link t) =>
          (* filepath.Clean of the absolute target (Join cleans the relative one) *)
          let abs := if is_rooted t then clean t else fjoin (join_abs (removelast p)) t in
          match lstat fs (comps_of abs) with
          | Ok (Link _) => resolve_external h fs (comps_of abs)
          | Ok n => Some (abs, n)
          | Err _ => None
          end
      | _ => None
      end
  end.

Inductive fnres := FnContinue (a : acc) | FnSkipDir (a : acc) | FnStop (r : packres).

Definition excl (rules : option (list rule)) (p : str) : bool * bool :=
  match rules with Some rs => excludes rs p | None => (false, false) end.

Section Walk.
Variable fs : node.
Variable opts : popts.
Variable rules : option (list rule).
Variable root : list str.          (* the source directory, absolute, clean *)

(* one directory level of filepath.Walk plus the walk function; [src]/[dst] as in
   packWalkFn: paths below [src] are named as if they were below [dst] *)
Fixpoint pack_node (fuel : nat) (src dst : list str) (chain : list str) (p : list str) (n : node) (a : acc)
  {struct fuel} : acc + packres :=
  match fuel with
  | O => inr PackFuel
  | S fuel' =>
      let walk_kids (a : acc) : acc + packres :=
        match n with
        | Dir _ _ ks =>
            fold_left (fun (r : acc + packres) name =>
                         match r with
                         | inr e => inr e
                         | inl a => match kid name ks with
                                    | Some c => pack_node fuel' src dst chain (p ++ [name]) c a
                                    | None => inl a
                                    end
                         end) (readdir n) (inl a)
        | _ => inl a
        end in
      let sub1 := match strip_prefix src p with Some s => s | None => [] end in
      match sub1 with
      | [] => walk_kids a                       (* the root of this walk: "." *)
      | _ =>
          if fst (excl rules (join_rel sub1)) then walk_kids a
          else
            let '(e2, d2) := if is_dir n then excl rules (join_rel sub1 ++ [slash]) else (false, false) in
            if e2 then (if d2 then inl a else walk_kids a)
            else
              let name := join_rel (rel_comps root (dst ++ sub1)) in
              match n with
              | Dir pm mt _ =>
                  walk_kids (emit a (mkPE (name ++ [slash]) ty_dir [] pm (mtime_of mt) []))
              | File d pm mt => inl (emit a (mkPE name ty_reg [] pm (mtime_of mt) d))
              | Special _ => inl a
              | Link t =>
                  if valid_symlink (o_allow opts) (join_abs root) (join_abs p) t
                  then inl (emit a (mkPE name ty_sym t 511 0 []))   (* Lstat of a link: mode 0777; times not compared *)
                  else if negb (o_deref opts) then inr PackIllegal
                  else
                    match resolve_external max_links fs p with
                    | None => inr PackErr
                    | Some (abs, r) =>
                        match r with
                        | Dir _ _ _ =>
                            if existsb (str_eqb abs) chain then inr PackErr
                            else pack_node fuel' (comps_of abs) (dst ++ sub1) (chain ++ [abs]) (comps_of abs) r a
                        | File d pm mt => inl (emit a (mkPE name ty_reg [] pm (mtime_of mt) d))
                        | _ => inl a
                        end
                    end
              end
      end
  end.
End Walk.

(* ---------- the prologue of Pack ---------- *)
Definition dotti : str := s2l ".terraformignore".

Definition start_of (cwd : list str) (s : str) : list str := if is_rooted s then [] else cwd.

(* Pack(src): cwd = components of the (clean, absolute) working directory;
   flags = state of the shared default-rule flags *)
Definition pack (fuel : nat) (fs : node) (opts : popts) (flags : list bool) (cwd : list str) (src : str)
  : packres * list bool :=
  match walk max_links fs false (start_of cwd src) (split_on slash src) with
  | Err _ => (PackErr, flags)
  | Ok ph =>
      match get fs ph with
      | None => (PackErr, flags)
      | Some n0 =>
          let src1 := match n0 with Link t => t | _ => src end in
          (* parseIgnoreFile(src): relative names are still relative to cwd here *)
          let '(rules, flags') :=
            if o_ignore opts then
              match walk max_links fs true (start_of cwd src1) (split_on slash src1 ++ [dotti]) with
              | Ok iph => match get fs iph with
                          | Some (File d _ _) =>
                              match read_rules flags d with
                              | (POk rs, fl) => (Some rs, fl)
                              | (PPanic, fl) => (Some (default_rules fl), fl)
                              end
                          | _ => (Some (default_rules flags), flags)
                          end
              | Err _ => (Some (default_rules flags), flags)
              end
            else (None, flags) in
          (* filepath.Abs *)
          let abs := if is_rooted src1 then clean src1 else clean (join_abs cwd ++ slash :: src1) in
          let root := comps_of abs in
          match lstat fs root with
          | Err _ => (PackErr, flags')
          | Ok rn =>
              match pack_node fs opts rules root fuel root root [abs] root rn ([], [], 0%N) with
              | inr e => (e, flags')
              | inl (es, files, size) => (PackOk (rev es) (rev files) size, flags')
              end
          end
      end
  end.
