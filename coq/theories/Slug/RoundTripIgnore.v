(* C02 with ignore processing: when the rule set never re-includes anything
   below an entry it excludes (true of the built-in rules and of any rule file
   without effective negations below excluded directories), packing with ignore
   processing and unpacking into an empty directory yields exactly the tree
   with the excluded entries cut out: "the only omissions are entries excluded
   by ignore rules and special files". *)
From Slug Require Import Base.Str Base.PathAlg Base.PathLemmas Base.Rooted FS.FS FS.FSProofs
  Ignore.Rules Ignore.RulesProofs
  Slug.Unpack Slug.UnpackSafe Slug.Pack Slug.PackProofs Slug.RoundTrip Slug.RoundTripPack Slug.PackIgnore.
From Coq Require Import Lia.

Section Cut.
Variable rules : option (list rule).

(* the entry's own path is not excluded *)
Definition keptb (rel : list str) (t : stree) : bool :=
  let p := join_rel rel in
  match t with
  | SDir _ _ _ => negb (fst (excl rules p)) && negb (fst (excl rules (p ++ [slash])))
  | _ => negb (fst (excl rules p))
  end.

(* the tree with the excluded entries cut out *)
Fixpoint cut (rel : list str) (t : stree) : stree :=
  match t with
  | SDir pm mt ks =>
      SDir pm mt ((fix go (l : list (str * stree)) : list (str * stree) :=
                     match l with
                     | [] => []
                     | kc :: r => if keptb (rel ++ [fst kc]) (snd kc)
                                  then (fst kc, cut (rel ++ [fst kc]) (snd kc)) :: go r else go r
                     end) ks)
  | _ => t
  end.

Fixpoint cut_kids (rel : list str) (l : list (str * stree)) : list (str * stree) :=
  match l with
  | [] => []
  | kc :: r => if keptb (rel ++ [fst kc]) (snd kc)
               then (fst kc, cut (rel ++ [fst kc]) (snd kc)) :: cut_kids rel r else cut_kids rel r
  end.

Lemma cut_dir rel pm mt ks : cut rel (SDir pm mt ks) = SDir pm mt (cut_kids rel ks).
Proof. cbn [cut]. f_equal. induction ks as [|kc r IH]; [reflexivity|]. cbn [cut_kids]. now rewrite <- IH. Qed.

(* nothing below an excluded entry ships: the rule set does not re-include there *)
Fixpoint closed (rel : list str) (t : stree) : Prop :=
  match t with
  | SDir _ _ ks =>
      (fix go (l : list (str * stree)) : Prop :=
         match l with
         | [] => True
         | kc :: r => (if keptb (rel ++ [fst kc]) (snd kc) then closed (rel ++ [fst kc]) (snd kc)
                       else fentries false rules (rel ++ [fst kc]) (snd kc) = []) /\ go r
         end) ks
  | _ => True
  end.

Fixpoint closed_kids (rel : list str) (l : list (str * stree)) : Prop :=
  match l with
  | [] => True
  | kc :: r => (if keptb (rel ++ [fst kc]) (snd kc) then closed (rel ++ [fst kc]) (snd kc)
                else fentries false rules (rel ++ [fst kc]) (snd kc) = []) /\ closed_kids rel r
  end.

Lemma closed_dir rel pm mt ks : closed rel (SDir pm mt ks) <-> closed_kids rel ks.
Proof. cbn [closed]. induction ks as [|kc r IH]; [reflexivity|]. cbn [closed_kids]. now rewrite IH. Qed.

(* what ships from a kept entry is the archive of its cut *)
Lemma fentries_cut : forall n t rel,
  sheight t < n -> keptb rel t = true -> closed rel t ->
  fentries false rules rel t = tentries rel (cut rel t).
Proof.
  induction n as [|n IH]; intros t rel Hh Hk Hc; [lia|].
  destruct t as [d pm mt|l|sk|pm mt ks].
  - cbn [fentries cut]. unfold keptb in Hk. apply negb_true_iff in Hk. now rewrite Hk.
  - cbn [fentries cut]. unfold keptb in Hk. apply negb_true_iff in Hk. now rewrite Hk.
  - cbn [fentries cut]. unfold keptb in Hk. apply negb_true_iff in Hk. now rewrite Hk.
  - rewrite fentries_dir, cut_dir, tentries_dir. cbv zeta.
    unfold keptb in Hk. apply andb_true_iff in Hk as [H1 H2]. apply negb_true_iff in H1, H2.
    rewrite H1. destruct (excl rules (join_rel rel ++ [slash])) as [e2 d2]. cbn [fst] in H2. subst e2.
    f_equal. apply closed_dir in Hc.
    pose proof (sheight_kids_lt pm mt ks n Hh) as Hhk. clear Hh H1.
    induction ks as [|kc r IHr]; [reflexivity|].
    cbn [kids_fentries cut_kids]. destruct Hc as [Hc1 Hc2].
    destruct (keptb (rel ++ [fst kc]) (snd kc)) eqn:Ek.
    + cbn [kids_entries fst snd]. rewrite (IH (snd kc) (rel ++ [fst kc])); [|apply Hhk; now left|exact Ek|exact Hc1].
      f_equal. apply IHr; [exact Hc2|]. intros kc' Hin. apply Hhk. now right.
    + rewrite Hc1. cbn [app]. apply IHr; [exact Hc2|]. intros kc' Hin. apply Hhk. now right.
Qed.

Lemma kids_fentries_cut (pm : N) (mt : option Z) ks rel :
  closed_kids rel ks -> kids_fentries false rules rel ks = kids_entries rel (cut_kids rel ks).
Proof.
  intros Hc.
  pose proof (sheight_kids_lt pm mt ks _ (Nat.lt_succ_diag_r _)) as Hhk.
  set (n := sheight (SDir pm mt ks)) in Hhk. clearbody n.
  induction ks as [|kc r IHr]; [reflexivity|].
  cbn [kids_fentries cut_kids]. destruct Hc as [Hc1 Hc2].
  destruct (keptb (rel ++ [fst kc]) (snd kc)) eqn:Ek.
  - cbn [kids_entries fst snd]. rewrite (fentries_cut n (snd kc) (rel ++ [fst kc])); [|apply Hhk; now left|exact Ek|exact Hc1].
    f_equal. apply IHr; [exact Hc2|]. intros kc' Hin. apply Hhk. now right.
  - rewrite Hc1. cbn [app]. apply IHr; [exact Hc2|]. intros kc' Hin. apply Hhk. now right.
Qed.

(* ---------- the cut of a well-formed tree is well formed ---------- *)
Lemma cut_kids_names rel ks : forall x, In x (map fst (cut_kids rel ks)) -> In x (map fst ks).
Proof.
  induction ks as [|kc r IH]; intros x Hx; [contradiction|]. cbn [cut_kids] in Hx.
  destruct (keptb _ _); cbn in *; [destruct Hx as [<-|Hx]; auto|auto].
Qed.

Lemma cut_kids_nodup rel ks : NoDup (map fst ks) -> NoDup (map fst (cut_kids rel ks)).
Proof.
  induction ks as [|kc r IH]; intros H; [constructor|]. cbn [map] in H. inversion H as [|? ? Hni Hnd]; subst.
  cbn [cut_kids]. destruct (keptb _ _); [|now apply IH]. cbn. constructor; [|now apply IH].
  intros Hin. apply Hni. now apply (cut_kids_names rel r).
Qed.

Lemma cut_wf : forall n t rel, sheight t < n -> wf t -> wf (cut rel t).
Proof.
  induction n as [|n IH]; intros t rel Hh Hw; [lia|].
  destruct t as [d pm mt|l|sk|pm mt ks]; try exact Hw.
  rewrite cut_dir. apply wf_dir in Hw as [Hnd Hwk]. apply wf_dir. split; [now apply cut_kids_nodup|].
  pose proof (sheight_kids_lt pm mt ks n Hh) as Hhk. clear Hh Hnd.
  induction ks as [|kc r IHr]; [exact I|]. cbn [wf_kids] in Hwk. destruct Hwk as (Hs & Hw1 & Hw2).
  cbn [cut_kids]. destruct (keptb _ _); [|apply IHr; [exact Hw2|intros kc' Hin; apply Hhk; now right]].
  cbn [wf_kids fst snd]. repeat split; [exact Hs|apply IH; [apply Hhk; now left|exact Hw1]|].
  apply IHr; [exact Hw2|]. intros kc' Hin. apply Hhk. now right.
Qed.

Lemma cut_links_ok : forall n t rel, sheight t < n -> links_ok rel t -> links_ok rel (cut rel t).
Proof.
  induction n as [|n IH]; intros t rel Hh Hl; [lia|].
  destruct t as [d pm mt|l|sk|pm mt ks]; try exact Hl.
  rewrite cut_dir. apply links_ok_dir in Hl. apply links_ok_dir.
  pose proof (sheight_kids_lt pm mt ks n Hh) as Hhk. clear Hh.
  induction ks as [|kc r IHr]; [exact I|]. cbn [links_ok_kids] in Hl. destruct Hl as [Hl1 Hl2].
  cbn [cut_kids]. destruct (keptb _ _); [|apply IHr; [exact Hl2|intros kc' Hin; apply Hhk; now right]].
  cbn [links_ok_kids fst snd]. split; [apply IH; [apply Hhk; now left|exact Hl1]|].
  apply IHr; [exact Hl2|]. intros kc' Hin. apply Hhk. now right.
Qed.
End Cut.

(* ====================================================================== *)
(* C02 with ignore processing                                              *)
(* ====================================================================== *)
Theorem pack_unpack_round_trip_ignore fs opts flags cwd fuel pre x pmR mtR ks dst pmD mtD rules flags' :
  is_dir fs = true -> rdir fs pre -> forallb seg_ok (pre ++ [x]) = true ->
  get fs (pre ++ [x]) = Some (to_node (SDir pmR mtR ks)) ->
  sheight (SDir pmR mtR ks) < fuel ->
  wf (SDir pmR mtR ks) -> wfs (SDir pmR mtR ks) -> links_ok [] (SDir pmR mtR ks) ->
  load_rules fs opts flags cwd (join_abs (pre ++ [x])) = (rules, flags') ->
  (forall rs, rules = Some rs -> flags_sound rs /\ (forall r, In r rs -> rule_ok r)) ->
  (* the rule set does not re-include anything below an entry it excludes *)
  closed_kids rules [] ks ->
  dst_ok dst -> rdir fs (comps_of dst) -> get fs (comps_of dst) = Some (Dir pmD mtD []) ->
  exists es files size,
    pack fuel fs opts flags cwd (join_abs (pre ++ [x])) = (PackOk es files size, flags') /\
    unpack true (o_allow opts) fs dst (map to_entry es)
    = (put fs (comps_of dst)
         (Dir pmD (match rpk (cut_kids rules [] ks) with [] => mtD | _ => None end) (rpk (cut_kids rules [] ks))), ROk).
Proof.
  intros Hd Hr Hs Hg Hh Hwf Hwfs Hlk Hload Hsound Hcl Hdst HrD HgD.
  destruct (pack_ignore_tree fs opts flags cwd fuel pre x pmR mtR ks rules flags' Hd Hr Hs Hg Hh Hwfs Hwf Hlk Hload Hsound)
    as (files & size & Hp).
  exists (map of_entry (filter (keep rules) (kids_entries [] ks))), files, size. split; [exact Hp|].
  rewrite map_map. rewrite (map_ext _ (fun e => e) to_of_entry), map_id.
  rewrite <- kids_fentries_filter. rewrite (kids_fentries_cut rules pmR mtR ks [] Hcl).
  pose proof (cut_wf rules _ (SDir pmR mtR ks) [] (Nat.lt_succ_diag_r _) Hwf) as Hwf'.
  pose proof (cut_links_ok rules _ (SDir pmR mtR ks) [] (Nat.lt_succ_diag_r _) Hlk) as Hlk'.
  rewrite cut_dir in Hwf', Hlk'.
  apply wf_dir in Hwf' as [Hnd Hwk]. apply links_ok_dir in Hlk'.
  exact (unpack_tree_entries (o_allow opts) fs dst Hdst Hd HrD pmD mtD (cut_kids rules [] ks) HgD Hnd Hwk Hlk').
Qed.

(* ---------- the closedness condition, decided by evaluation ---------- *)
Section Closedb.
Variable rules : option (list rule).

Fixpoint closedb (rel : list str) (t : stree) : bool :=
  match t with
  | SDir _ _ ks =>
      (fix go (l : list (str * stree)) : bool :=
         match l with
         | [] => true
         | kc :: r => (if keptb rules (rel ++ [fst kc]) (snd kc) then closedb (rel ++ [fst kc]) (snd kc)
                       else match fentries false rules (rel ++ [fst kc]) (snd kc) with [] => true | _ => false end)
                      && go r
         end) ks
  | _ => true
  end.

Fixpoint closed_kidsb (rel : list str) (l : list (str * stree)) : bool :=
  match l with
  | [] => true
  | kc :: r => (if keptb rules (rel ++ [fst kc]) (snd kc) then closedb (rel ++ [fst kc]) (snd kc)
                else match fentries false rules (rel ++ [fst kc]) (snd kc) with [] => true | _ => false end)
               && closed_kidsb rel r
  end.

Lemma closedb_dir rel pm mt ks : closedb rel (SDir pm mt ks) = closed_kidsb rel ks.
Proof. cbn [closedb]. induction ks as [|kc r IH]; [reflexivity|]. cbn [closed_kidsb]. now rewrite IH. Qed.

Lemma closedb_sound : forall n t rel, sheight t < n -> closedb rel t = true -> closed rules rel t.
Proof.
  induction n as [|n IH]; intros t rel Hh Hb; [lia|].
  destruct t as [d pm mt|l|sk|pm mt ks]; try exact I.
  rewrite closedb_dir in Hb. apply closed_dir.
  pose proof (sheight_kids_lt pm mt ks n Hh) as Hhk. clear Hh.
  induction ks as [|kc r IHr]; [exact I|]. cbn [closed_kidsb] in Hb. apply andb_true_iff in Hb as [H1 H2].
  cbn [closed_kids]. split; [|apply IHr; [exact H2|intros kc' Hin; apply Hhk; now right]].
  destruct (keptb rules (rel ++ [fst kc]) (snd kc)); [apply IH; [apply Hhk; now left|exact H1]|].
  destruct (fentries false rules (rel ++ [fst kc]) (snd kc)); [reflexivity|discriminate].
Qed.

Lemma closed_kidsb_sound (pm : N) (mt : option Z) ks rel : closed_kidsb rel ks = true -> closed_kids rules rel ks.
Proof.
  intros Hb. apply (proj1 (closed_dir rules rel pm mt ks)).
  apply (closedb_sound _ (SDir pm mt ks) rel (Nat.lt_succ_diag_r _)). now rewrite closedb_dir.
Qed.
End Closedb.
