(* C03 / C16 on the Pack model itself: with ignore processing, Pack writes
   exactly those entries of the tree whose own path the rule set does not
   exclude - below an excluded directory too, and whatever the state of the
   shared default-rule flags.  Trees: regular files, directories, special
   files and links that stay inside, sorted listings (as filepath.Walk reads
   them), any depth and width. *)
From Slug Require Import Base.Str Base.PathAlg Base.PathLemmas Base.Rooted FS.FS FS.FSProofs
  Ignore.Rules Ignore.GlobProofs Ignore.RulesProofs Ignore.Prune
  Slug.Unpack Slug.UnpackSafe Slug.Pack Slug.PackProofs Slug.RoundTrip Slug.RoundTripPack Bundle.VersionsProofs.
From Coq Require Import Lia.

(* ---------- the entries the walk writes under a rule set ---------- *)
(* [prune] = honour Dominating with filepath.SkipDir *)
Fixpoint fentries (prune : bool) (rules : option (list rule)) (rel : list str) (t : stree) : list entry :=
  let p := join_rel rel in
  match t with
  | SDir pm mt ks =>
      let kids := (fix go (l : list (str * stree)) : list entry :=
                     match l with [] => [] | kc :: r => fentries prune rules (rel ++ [fst kc]) (snd kc) ++ go r end) ks in
      if fst (excl rules p) then kids
      else
        let '(e2, d2) := excl rules (p ++ [slash]) in
        if e2 then (if prune && d2 then [] else kids)
        else mkEntry (entry_name rel true) ty_dir [] pm (sec_of mt) [] :: kids
  | _ => if fst (excl rules p) then [] else tentries rel t
  end.

Fixpoint kids_fentries (prune : bool) (rules : option (list rule)) (rel : list str) (l : list (str * stree)) : list entry :=
  match l with [] => [] | kc :: r => fentries prune rules (rel ++ [fst kc]) (snd kc) ++ kids_fentries prune rules rel r end.

Lemma fentries_dir prune rules rel pm mt ks :
  fentries prune rules rel (SDir pm mt ks) =
  let p := join_rel rel in
  if fst (excl rules p) then kids_fentries prune rules rel ks
  else
    let '(e2, d2) := excl rules (p ++ [slash]) in
    if e2 then (if prune && d2 then [] else kids_fentries prune rules rel ks)
    else mkEntry (entry_name rel true) ty_dir [] pm (sec_of mt) [] :: kids_fentries prune rules rel ks.
Proof.
  cbn [fentries].
  assert (H : (fix go (l : list (str * stree)) : list entry :=
                 match l with [] => [] | kc :: r => fentries prune rules (rel ++ [fst kc]) (snd kc) ++ go r end) ks
              = kids_fentries prune rules rel ks).
  { induction ks as [|kc r IH]; [reflexivity|]. cbn [kids_fentries]. now rewrite <- IH. }
  now rewrite H.
Qed.

(* ---------- the walk with a rule set ---------- *)
Section PackSide.
Variable fs : node.
Variable opts : popts.
Variable rules : option (list rule).
Variable root : list str.
Hypothesis Hroot_ok : forallb seg_ok root = true.

Lemma kids_loop fuel chain rel ks
  (IH : forall t rel a chain,
      sheight t < fuel -> wfs t -> wf t -> forallb seg_ok rel = true -> links_ok rel t -> rel <> [] ->
      pack_node fs opts rules root fuel root root chain (root ++ rel) (to_node t) a
      = inl (fold_left emit (map of_entry (fentries true rules rel t)) a)) pm mt :
  sheight (SDir pm mt ks) < S fuel -> sorted_strict (map fst ks) = true -> wfs_kids ks -> wf_kids ks ->
  forallb seg_ok rel = true -> links_ok_kids rel ks ->
  forall a1,
  fold_left (fun (r : acc + packres) name =>
               match r with
               | inr e => inr e
               | inl a2 => match kid name (map tnp ks) with
                           | Some c => pack_node fs opts rules root fuel root root chain ((root ++ rel) ++ [name]) c a2
                           | None => inl a2
                           end
               end) (map fst ks) (inl a1)
  = inl (fold_left emit (map of_entry (kids_fentries true rules rel ks)) a1).
Proof.
  intros Hh Hsorted Hwk Hwfk Hsegs Hlk a1.
  pose proof (sorted_nodup _ Hsorted) as Hnd.
  assert (Hloop : forall l done a0, ks = done ++ l ->
            fold_left (fun (r : acc + packres) name =>
                         match r with
                         | inr e => inr e
                         | inl a2 => match kid name (map tnp ks) with
                                     | Some c => pack_node fs opts rules root fuel root root chain ((root ++ rel) ++ [name]) c a2
                                     | None => inl a2
                                     end
                         end) (map fst l) (inl a0)
            = inl (fold_left emit (map of_entry (kids_fentries true rules rel l)) a0)).
  { induction l as [|kc r IHl]; intros done a0 Hks; [reflexivity|].
    cbn [map fold_left kids_fentries].
    assert (Hnin : ~ In (fst kc) (map fst done)).
    { rewrite Hks, map_app in Hnd. cbn [map] in Hnd. apply NoDup_remove_2 in Hnd. intros Hin. apply Hnd. apply in_or_app. now left. }
    rewrite Hks at 1. rewrite (kid_tnp_in done kc r Hnin).
    assert (Hkc : In kc ks) by (rewrite Hks; apply in_or_app; right; now left).
    assert (Hwc : wfs (snd kc)).
    { clear - Hwk Hkc. induction ks as [|x q IHq]; [destruct Hkc|]. cbn in Hwk. destruct Hwk as [H1 H2].
      destruct Hkc as [->|Hin]; [exact H1|now apply IHq]. }
    rewrite <- app_assoc.
    destruct (wf_kids_in ks kc Hwfk Hkc) as [Hsk Hwfc].
    assert (Hsegk : forallb seg_ok (rel ++ [fst kc]) = true) by (rewrite forallb_app, Hsegs; cbn; now rewrite Hsk).
    rewrite (IH (snd kc) (rel ++ [fst kc]) a0 chain (sheight_kid_lt _ _ _ _ _ Hh Hkc) Hwc Hwfc Hsegk
                (links_ok_kids_in rel ks kc Hlk Hkc) ltac:(destruct rel; discriminate)).
    rewrite (IHl (done ++ [kc]) _ ltac:(rewrite Hks, <- app_assoc; reflexivity)).
    now rewrite map_app, fold_left_app. }
  exact (Hloop ks [] a1 eq_refl).
Qed.

Lemma pack_filtered : forall fuel t rel a chain,
  sheight t < fuel -> wfs t -> wf t -> forallb seg_ok rel = true -> links_ok rel t -> rel <> [] ->
  pack_node fs opts rules root fuel root root chain (root ++ rel) (to_node t) a
  = inl (fold_left emit (map of_entry (fentries true rules rel t)) a).
Proof.
  induction fuel as [|fuel IH]; intros t rel a chain Hh Hw Hwf Hsegs Hlk Hne; [lia|].
  destruct rel as [|r0 rr]; [congruence|]. set (rel := r0 :: rr) in *.
  cbn [pack_node]. rewrite strip_prefix_self. unfold rel at 1. cbn match. fold rel.
  rewrite rel_comps_under.
  destruct t as [d pm mt|l|k|pm mt ks].
  - cbn [to_node is_dir fentries]. destruct (fst (excl rules (join_rel rel))); [reflexivity|].
    cbn match. cbn [tentries map fold_left]. unfold of_entry, entry_name. cbn [e_name e_type e_link e_mode e_mtime e_body].
    now rewrite app_nil_r, sec_of_mtime_of.
  - cbn [to_node is_dir fentries]. destruct (fst (excl rules (join_rel rel))); [reflexivity|].
    cbn match. cbn [tentries map fold_left]. unfold of_entry, entry_name. cbn [e_name e_type e_link e_mode e_mtime e_body].
    rewrite app_nil_r.
    destruct (exists_last Hne) as (pre & x & Erel). cbn [links_ok] in Hlk. rewrite Erel in Hlk, Hsegs |- *.
    rewrite removelast_snoc in Hlk.
    destruct (clean_join_abs root Hroot_ok) as [Hcl Hco].
    pose proof (valid_symlink_stays (o_allow opts) (join_abs root) pre x l (conj eq_refl Hcl) Hsegs Hlk) as Hvs.
    rewrite Hco in Hvs. rewrite Hvs. reflexivity.
  - cbn [to_node is_dir fentries]. destruct (fst (excl rules (join_rel rel))); reflexivity.
  - rewrite to_node_dir. cbn [is_dir]. rewrite fentries_dir. cbv zeta.
    apply wfs_dir in Hw as [Hsorted Hwk]. apply wf_dir in Hwf as [_ Hwfk]. apply links_ok_dir in Hlk.
    unfold readdir. rewrite names_tnp, (sort_names_sorted _ Hsorted).
    pose proof (kids_loop fuel chain rel ks IH pm mt Hh Hsorted Hwk Hwfk Hsegs Hlk) as Hkids.
    destruct (fst (excl rules (join_rel rel))); [apply Hkids|].
    destruct (excl rules (join_rel rel ++ [slash])) as [e2 d2].
    destruct e2.
    + destruct d2; cbn [andb]; [reflexivity|apply Hkids].
    + cbn [map fold_left]. unfold of_entry at 1. cbn [e_name e_type e_link e_mode e_mtime e_body].
      unfold entry_name at 1. unfold join_rel. rewrite sec_of_mtime_of. apply Hkids.
Qed.
End PackSide.

(* ---------- pruning does not change what is written ---------- *)
Lemma join_rel_snoc rel k : rel <> [] -> join_rel (rel ++ [k]) = join_rel rel ++ slash :: k.
Proof.
  unfold join_rel. induction rel as [|a r IH]; [congruence|]. intros _.
  destruct r as [|b r']; [reflexivity|].
  change (join_with slash ((a :: b :: r') ++ [k])) with (a ++ slash :: join_with slash ((b :: r') ++ [k])).
  rewrite IH by discriminate.
  change (join_with slash (a :: b :: r')) with (a ++ slash :: join_with slash (b :: r')).
  now rewrite <- app_assoc.
Qed.

Lemma sheight_kids_lt pm mt ks n : sheight (SDir pm mt ks) < S n -> forall kc, In kc ks -> sheight (snd kc) < n.
Proof. intros H kc Hin. exact (sheight_kid_lt pm mt ks kc n H Hin). Qed.

Section Prune.
Variable rules : option (list rule).
Hypothesis Hsound : forall rs, rules = Some rs -> flags_sound rs /\ (forall r, In r rs -> rule_ok r).

Lemma fentries_all_excluded : forall n t rel k,
  sheight t < n -> rel <> [] ->
  (forall q, fst (excl rules (join_rel rel ++ slash :: q)) = true) ->
  fentries false rules (rel ++ [k]) t = [].
Proof.
  induction n as [|n IH]; intros t rel k Hh Hne Hall; [lia|].
  assert (Hex : fst (excl rules (join_rel (rel ++ [k]))) = true) by (rewrite join_rel_snoc by exact Hne; now apply Hall).
  destruct t as [d pm mt|l|sk|pm mt ks]; cbn [fentries]; try (now rewrite Hex).
  change (fentries false rules (rel ++ [k]) (SDir pm mt ks) = []).
  rewrite fentries_dir. cbv zeta. rewrite Hex.
  pose proof (sheight_kids_lt pm mt ks n Hh) as Hhk.
  clear Hh Hex. induction ks as [|kc r IHr]; [reflexivity|].
  cbn [kids_fentries].
  rewrite (IH (snd kc) (rel ++ [k]) (fst kc)); [| apply Hhk; now left | destruct rel; discriminate |].
  - cbn [app]. apply IHr. intros kc' Hin. apply Hhk. now right.
  - intros q. rewrite join_rel_snoc by exact Hne. rewrite <- app_assoc. cbn [app]. apply Hall.
Qed.

Lemma excl_dominating p :
  excl rules (p ++ [slash]) = (true, true) ->
  forall q, fst (excl rules (p ++ slash :: q)) = true.
Proof.
  unfold excl. destruct rules as [rs|]; [|discriminate]. intros H q.
  destruct (Hsound rs eq_refl) as [Hfs Hok].
  change (p ++ slash :: q) with (p ++ [slash] ++ q). rewrite app_assoc.
  now apply (dominating_sound_all rs (p ++ [slash]) Hfs Hok H).
Qed.

Theorem fentries_prune : forall n t rel,
  sheight t < n -> rel <> [] ->
  fentries true rules rel t = fentries false rules rel t.
Proof.
  induction n as [|n IH]; intros t rel Hh Hne; [lia|].
  destruct t as [d pm mt|l|sk|pm mt ks]; try reflexivity.
  rewrite !fentries_dir. cbv zeta.
  pose proof (sheight_kids_lt pm mt ks n Hh) as Hhk.
  assert (Hkids : kids_fentries true rules rel ks = kids_fentries false rules rel ks).
  { clear Hh. induction ks as [|kc r IHr]; [reflexivity|].
    cbn [kids_fentries].
    rewrite (IH (snd kc) (rel ++ [fst kc])); [| apply Hhk; now left | destruct rel; discriminate].
    f_equal. apply IHr. intros kc' Hin. apply Hhk. now right. }
  destruct (fst (excl rules (join_rel rel))); [exact Hkids|].
  destruct (excl rules (join_rel rel ++ [slash])) as [e2 d2] eqn:E.
  destruct e2; [|now rewrite Hkids].
  destruct d2; cbn [andb]; [|exact Hkids].
  pose proof (excl_dominating _ E) as Hall.
  symmetry. clear Hkids Hh. induction ks as [|kc r IHr]; [reflexivity|].
  cbn [kids_fentries].
  rewrite (fentries_all_excluded n (snd kc) rel (fst kc)); [| apply Hhk; now left | exact Hne | exact Hall].
  cbn [app]. apply IHr. intros kc' Hin. apply Hhk. now right.
Qed.

Lemma kids_fentries_prune (pm : N) (mt : option Z) ks rel :
  kids_fentries true rules rel ks = kids_fentries false rules rel ks.
Proof.
  pose proof (sheight_kids_lt pm mt ks _ (Nat.lt_succ_diag_r _)) as Hhk.
  set (n := sheight (SDir pm mt ks)) in Hhk. clearbody n.
  induction ks as [|kc r IHr]; [reflexivity|].
  cbn [kids_fentries].
  rewrite (fentries_prune n (snd kc) (rel ++ [fst kc])); [| apply Hhk; now left | destruct rel; discriminate].
  f_equal. apply IHr. intros kc' Hin. apply Hhk. now right.
Qed.
End Prune.

(* ---------- the unpruned walk is a filter by the entry's own path ---------- *)
Definition keep (rules : option (list rule)) (e : entry) : bool :=
  if N.eqb (e_type e) ty_dir
  then negb (fst (excl rules (removelast (e_name e)))) && negb (fst (excl rules (e_name e)))
  else negb (fst (excl rules (e_name e))).

Lemma fentries_filter rules : forall n t rel,
  sheight t < n -> fentries false rules rel t = filter (keep rules) (tentries rel t).
Proof.
  induction n as [|n IH]; intros t rel Hh; [lia|].
  destruct t as [d pm mt|l|sk|pm mt ks].
  - cbn [fentries tentries filter]. unfold keep. cbn [e_type e_name]. unfold entry_name. rewrite app_nil_r.
    change (N.eqb ty_reg ty_dir) with false. cbv iota. unfold join_rel. now destruct (fst (excl rules _)).
  - cbn [fentries tentries filter]. unfold keep. cbn [e_type e_name]. unfold entry_name. rewrite app_nil_r.
    change (N.eqb ty_sym ty_dir) with false. cbv iota. unfold join_rel. now destruct (fst (excl rules _)).
  - cbn [fentries tentries filter]. now destruct (fst (excl rules _)).
  - rewrite fentries_dir, tentries_dir. cbv zeta. cbn [filter].
    pose proof (sheight_kids_lt pm mt ks n Hh) as Hhk.
    assert (Hkids : kids_fentries false rules rel ks = filter (keep rules) (kids_entries rel ks)).
    { clear Hh. induction ks as [|kc r IHr]; [reflexivity|].
      cbn [kids_fentries kids_entries]. rewrite filter_app.
      rewrite (IH (snd kc) (rel ++ [fst kc])) by (apply Hhk; now left).
      f_equal. apply IHr. intros kc' Hin. apply Hhk. now right. }
    unfold keep at 1. cbn [e_type e_name]. unfold entry_name. rewrite removelast_snoc.
    change (N.eqb ty_dir ty_dir) with true. cbv iota. unfold join_rel in *.
    destruct (fst (excl rules (join_with slash rel))); cbn [negb andb]; [exact Hkids|].
    destruct (excl rules (join_with slash rel ++ [slash])) as [e2 d2]. cbn [fst].
    destruct e2; cbn [negb andb]; [exact Hkids|now rewrite Hkids].
Qed.

Lemma kids_fentries_filter rules rel ks :
  kids_fentries false rules rel ks = filter (keep rules) (kids_entries rel ks).
Proof.
  induction ks as [|kc r IHr]; [reflexivity|].
  cbn [kids_fentries kids_entries]. rewrite filter_app, IHr.
  now rewrite (fentries_filter rules (S (sheight (snd kc))) (snd kc) _ (Nat.lt_succ_diag_r _)).
Qed.

(* ---------- the whole of Pack with ignore processing ---------- *)
(* parseIgnoreFile, as the prologue of [pack] has it *)
Definition load_rules (fs : node) (opts : popts) (flags : list bool) (cwd : list str) (src1 : str)
  : option (list rule) * list bool :=
  if o_ignore opts then
    match FS.walk max_links fs true (start_of cwd src1) (split_on slash src1 ++ [dotti]) with
    | Ok iph => match get fs iph with
                | Some (File d _ _) =>
                    match read_rules flags d with
                    | (POk rs, fl) => (Some rs, fl)
                    | (PPanic, fl) => (Some (default_rules fl), fl)
                    end
                | _ => (Some (default_rules flags), flags)
                end
    | Err _ => (Some (default_rules flags), flags)
    end
  else (None, flags).

Lemma default_rules_sound flags : flags_reachable flags -> flags_sound (default_rules flags).
Proof.
  intros [-> | ->]; intros pre r post Hd (x & Hx & Hn).
  - destruct (split3 _ _ _ _ _ _ Hd) as [(-> & -> & ->)|[(-> & -> & ->)|(-> & -> & ->)]]; cbn in *.
    + reflexivity.
    + destruct Hx as [<-|[]]. discriminate.
    + destruct Hx.
  - destruct (split3 _ _ _ _ _ _ Hd) as [(-> & -> & ->)|[(-> & -> & ->)|(-> & -> & ->)]]; reflexivity.
Qed.

(* whatever reachable state the shared flags are in, the loaded rule set carries sound flags *)
Lemma load_rules_sound fs opts flags cwd src1 rs fl :
  flags_reachable flags -> load_rules fs opts flags cwd src1 = (Some rs, fl) -> flags_sound rs.
Proof.
  intros Hf. unfold load_rules. destruct (o_ignore opts); [|discriminate].
  destruct (FS.walk _ _ _ _ _) as [iph|]; [|intros [= <- _]; now apply default_rules_sound].
  destruct (get fs iph) as [[d pm mt|? ? ?|?|?]|]; try (intros [= <- _]; now apply default_rules_sound).
  destruct (read_rules flags d) as [[rs'|] fl'] eqn:E.
  - intros [= <- _]. intros pre r post Hd Hx. exact (negations_after_over flags d rs' fl' Hf E pre r post Hd Hx).
  - exfalso. apply (read_rules_no_panic flags d). now rewrite E.
Qed.

Lemma pack_root_kids_filtered fs opts rules root (Hroot_ok : forallb seg_ok root = true) : forall fuel pmR mtR ks a chain,
  sheight (SDir pmR mtR ks) < fuel -> wfs (SDir pmR mtR ks) -> wf (SDir pmR mtR ks) -> links_ok [] (SDir pmR mtR ks) ->
  pack_node fs opts rules root fuel root root chain root (to_node (SDir pmR mtR ks)) a
  = inl (fold_left emit (map of_entry (kids_fentries true rules [] ks)) a).
Proof.
  intros fuel pmR mtR ks a chain Hh Hw Hwf Hlk. destruct fuel as [|fuel]; [lia|].
  cbn [pack_node]. rewrite <- (app_nil_r root) at 2. rewrite strip_prefix_self. cbn match.
  rewrite to_node_dir. apply wfs_dir in Hw as [Hsorted Hwk]. apply wf_dir in Hwf as [_ Hwfk]. apply links_ok_dir in Hlk.
  unfold readdir. rewrite names_tnp, (sort_names_sorted _ Hsorted).
  pose proof (kids_loop fs opts rules root fuel chain [] ks
                (fun t rel a chain => pack_filtered fs opts rules root Hroot_ok fuel t rel a chain)
                pmR mtR Hh Hsorted Hwk Hwfk eq_refl Hlk a) as Hk.
  rewrite app_nil_r in Hk. exact Hk.
Qed.

Theorem pack_ignore_tree fs opts flags cwd fuel pre x pmR mtR ks rules flags' :
  is_dir fs = true -> rdir fs pre -> forallb seg_ok (pre ++ [x]) = true ->
  get fs (pre ++ [x]) = Some (to_node (SDir pmR mtR ks)) ->
  sheight (SDir pmR mtR ks) < fuel -> wfs (SDir pmR mtR ks) ->
  wf (SDir pmR mtR ks) -> links_ok [] (SDir pmR mtR ks) ->
  load_rules fs opts flags cwd (join_abs (pre ++ [x])) = (rules, flags') ->
  (forall rs, rules = Some rs -> flags_sound rs /\ (forall r, In r rs -> rule_ok r)) ->
  exists files size,
    pack fuel fs opts flags cwd (join_abs (pre ++ [x]))
    = (PackOk (map of_entry (filter (keep rules) (kids_entries [] ks))) files size, flags').
Proof.
  intros Hd Hr Hs Hg Hh Hw Hwf Hlk Hload Hsound. set (R := pre ++ [x]) in *.
  destruct (clean_join_abs R Hs) as [Hcl Hco].
  assert (Hpl : forallb plainb pre = true /\ plain x = true).
  { pose proof (seg_ok_plainb _ Hs) as Hp. unfold R in Hp. rewrite forallb_app in Hp. apply andb_true_iff in Hp as [H1 H2].
    cbn in H2. apply andb_true_iff in H2 as [H2 _]. auto. }
  unfold pack.
  assert (Hroot : is_rooted (join_abs R) = true) by reflexivity.
  unfold start_of at 1. rewrite Hroot.
  assert (Hwalk : FS.walk max_links fs false [] (split_on slash (join_abs R)) = Ok R).
  { unfold join_abs. cbn [split_on]. rewrite Ascii.eqb_refl.
    rewrite split_join; [|unfold R; destruct pre; discriminate|intros g Hgi; apply seg_ok_no_slash; rewrite forallb_forall in Hs; now apply Hs].
    rewrite walk_cons. cbn [is_empty orb]. unfold R.
    apply (walk_real fs false pre max_links [] fs x eq_refl Hr (proj1 Hpl) (proj2 Hpl)). now left. }
  rewrite Hwalk, Hg. rewrite to_node_dir.
  change (if o_ignore opts then _ else (None, flags)) with (load_rules fs opts flags cwd (join_abs R)).
  rewrite Hload.
  rewrite Hroot, Hcl, Hco.
  assert (Hls : lstat fs R = Ok (Dir pmR mtR (map tnp ks))).
  { unfold R. apply (lstat_nonlink fs pre x Hr (proj1 Hpl) (proj2 Hpl)); [now rewrite <- to_node_dir|reflexivity]. }
  rewrite Hls. rewrite <- to_node_dir.
  rewrite (pack_root_kids_filtered fs opts rules R Hs fuel pmR mtR ks _ _ Hh Hw Hwf Hlk).
  rewrite (kids_fentries_prune rules Hsound pmR mtR ks []), kids_fentries_filter.
  destruct (fold_left emit (map of_entry (filter (keep rules) (kids_entries [] ks))) ([], [], 0%N)) as [[es files] size] eqn:E.
  exists (rev files), size. f_equal. f_equal.
  pose proof (fold_emit_es (map of_entry (filter (keep rules) (kids_entries [] ks))) [] [] 0%N) as Hes. rewrite E in Hes. cbn [fst] in Hes.
  rewrite Hes, app_nil_r, rev_involutive. reflexivity.
Qed.

(* C16 at the level of Pack: two packs of the same tree whose rule sets differ
   only in the negations-after flags (what the shared default-rule flags can
   change) write the same entries *)
Lemma keep_same_but_flags a b :
  Prune.same_but_flags a b -> forall e, keep (Some a) e = keep (Some b) e.
Proof.
  intros Hs e. unfold keep, excl, excludes.
  rewrite (Prune.excludes_fst_flags a b (e_name e) (false, false) (false, false) Hs eq_refl).
  now rewrite (Prune.excludes_fst_flags a b (removelast (e_name e)) (false, false) (false, false) Hs eq_refl).
Qed.

(* ---------- the rule values do not depend on the shared flags ---------- *)
Lemma sbf_refl a : same_but_flags a a.
Proof. split; reflexivity. Qed.

Lemma sbf_rev a b : same_but_flags a b -> same_but_flags (rev a) (rev b).
Proof. intros [H1 H2]. split; rewrite !map_rev; congruence. Qed.

Lemma sbf_mark_back a b : same_but_flags a b -> same_but_flags (mark_back a) (mark_back b).
Proof.
  intros [H1 H2]. destruct (mark_back_same a) as [A1 A2], (mark_back_same b) as [B1 B2].
  split; congruence.
Qed.

Lemma sbf_cons v n f1 f2 a b : same_but_flags a b -> same_but_flags (mkRule v n f1 :: a) (mkRule v n f2 :: b).
Proof. intros [H1 H2]. split; cbn; congruence. Qed.

Definition pres_sbf (x y : pres (list rule)) : Prop :=
  match x, y with POk a, POk b => same_but_flags a b | PPanic, PPanic => True | _, _ => False end.

Lemma read_line_sbf a b line : same_but_flags a b -> pres_sbf (read_line a line) (read_line b line).
Proof.
  intros H. unfold read_line. destruct line as [|c0 l0]; [exact H|].
  destruct (trim_space (c0 :: l0)) as [|c rest]; [exact H|].
  destruct (Ascii.eqb c hash); [exact H|].
  destruct (Ascii.eqb c bang && is_empty rest); [exact H|].
  destruct (Ascii.eqb c bang).
  - destruct (last_char rest) as [lc|]; [|exact I]. cbn [pres_sbf]. apply sbf_cons. now apply sbf_mark_back.
  - destruct (last_char (c :: rest)) as [lc|]; [|exact I]. cbn [pres_sbf]. now apply sbf_cons.
Qed.

Lemma read_lines_sbf lines : forall a b, same_but_flags a b -> pres_sbf (read_lines a lines) (read_lines b lines).
Proof.
  induction lines as [|l lines IH]; intros a b H; [exact H|].
  cbn [read_lines]. pose proof (read_line_sbf a b l H) as Hl.
  destruct (read_line a l) as [a'|], (read_line b l) as [b'|]; cbn in Hl; try contradiction; [now apply IH|exact I].
Qed.

Lemma default_rules_sbf f1 f2 : length f1 = 3 -> length f2 = 3 -> same_but_flags (default_rules f1) (default_rules f2).
Proof.
  destruct f1 as [|a1 [|a2 [|a3 [|]]]]; try discriminate. destruct f2 as [|b1 [|b2 [|b3 [|]]]]; try discriminate.
  intros _ _. split; reflexivity.
Qed.

Lemma reachable_len flags : flags_reachable flags -> length flags = 3.
Proof. intros [-> | ->]; reflexivity. Qed.

Lemma load_rules_sbf fs opts f1 f2 cwd src1 r1 r2 fl1 fl2 :
  flags_reachable f1 -> flags_reachable f2 ->
  load_rules fs opts f1 cwd src1 = (r1, fl1) -> load_rules fs opts f2 cwd src1 = (r2, fl2) ->
  match r1, r2 with Some a, Some b => same_but_flags a b | None, None => True | _, _ => False end.
Proof.
  intros H1 H2. pose proof (default_rules_sbf f1 f2 (reachable_len _ H1) (reachable_len _ H2)) as Hd.
  unfold load_rules. destruct (o_ignore opts); [|intros [= <- _] [= <- _]; exact I].
  destruct (FS.walk _ _ _ _ _) as [iph|]; [|intros [= <- _] [= <- _]; exact Hd].
  destruct (get fs iph) as [[d pm mt|? ? ?|?|?]|]; try (intros [= <- _] [= <- _]; exact Hd).
  unfold read_rules.
  pose proof (read_lines_sbf (scan_lines d) _ _ (sbf_rev _ _ Hd)) as Hr.
  destruct (read_lines (rev (default_rules f1)) (scan_lines d)) as [a|],
           (read_lines (rev (default_rules f2)) (scan_lines d)) as [b|]; cbn in Hr; try contradiction.
  - intros [= <- _] [= <- _]. now apply sbf_rev.
  - intros [= <- _] [= <- _]. apply default_rules_sbf.
    + apply reachable_len. now apply flags_after_reachable.
    + apply reachable_len. now apply flags_after_reachable.
Qed.

Theorem pack_history_independent fs opts f1 f2 cwd fuel pre x pmR mtR ks r1 r2 fl1 fl2 :
  flags_reachable f1 -> flags_reachable f2 ->
  is_dir fs = true -> rdir fs pre -> forallb seg_ok (pre ++ [x]) = true ->
  get fs (pre ++ [x]) = Some (to_node (SDir pmR mtR ks)) ->
  sheight (SDir pmR mtR ks) < fuel -> wfs (SDir pmR mtR ks) ->
  wf (SDir pmR mtR ks) -> links_ok [] (SDir pmR mtR ks) ->
  load_rules fs opts f1 cwd (join_abs (pre ++ [x])) = (r1, fl1) ->
  load_rules fs opts f2 cwd (join_abs (pre ++ [x])) = (r2, fl2) ->
  (forall rs r, r1 = Some rs \/ r2 = Some rs -> In r rs -> rule_ok r) ->
  exists es files size,
    pack fuel fs opts f1 cwd (join_abs (pre ++ [x])) = (PackOk es files size, fl1) /\
    pack fuel fs opts f2 cwd (join_abs (pre ++ [x])) = (PackOk es files size, fl2).
Proof.
  intros H1 H2 Hd Hr Hs Hg Hh Hw Hwf Hlk L1 L2 Hok.
  assert (S1 : forall rs, r1 = Some rs -> flags_sound rs /\ (forall r, In r rs -> rule_ok r)).
  { intros rs ->. split; [exact (load_rules_sound _ _ _ _ _ _ _ H1 L1)|intros r; apply (Hok rs); now left]. }
  assert (S2 : forall rs, r2 = Some rs -> flags_sound rs /\ (forall r, In r rs -> rule_ok r)).
  { intros rs ->. split; [exact (load_rules_sound _ _ _ _ _ _ _ H2 L2)|intros r; apply (Hok rs); now right]. }
  destruct (pack_ignore_tree fs opts f1 cwd fuel pre x pmR mtR ks r1 fl1 Hd Hr Hs Hg Hh Hw Hwf Hlk L1 S1) as (files1 & size1 & P1).
  destruct (pack_ignore_tree fs opts f2 cwd fuel pre x pmR mtR ks r2 fl2 Hd Hr Hs Hg Hh Hw Hwf Hlk L2 S2) as (files2 & size2 & P2).
  assert (Hk : filter (keep r1) (kids_entries [] ks) = filter (keep r2) (kids_entries [] ks)).
  { pose proof (load_rules_sbf fs opts f1 f2 cwd _ r1 r2 fl1 fl2 H1 H2 L1 L2) as Hsb.
    destruct r1 as [a|], r2 as [b|]; try contradiction; [|reflexivity].
    apply filter_ext. now apply keep_same_but_flags. }
  rewrite Hk in P1.
  destruct (pack_meta _ _ _ _ _ _ _ _ _ _ P1) as [F1 Z1].
  destruct (pack_meta _ _ _ _ _ _ _ _ _ _ P2) as [F2 Z2].
  exists (map of_entry (filter (keep r2) (kids_entries [] ks))), files2, size2.
  split; [|exact P2]. rewrite P1. now rewrite F1, Z1, F2, Z2.
Qed.
