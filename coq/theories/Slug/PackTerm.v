(* C19 on the Pack model: without dereferencing the walk needs no more fuel
   than the height of the tree, whatever it contains (links of any kind - also
   cyclic ones -, special files, any rule file). *)
From Slug Require Import Base.Str Base.PathAlg FS.FS Ignore.Rules Slug.Unpack Slug.Pack.

Fixpoint height (n : node) : nat :=
  match n with
  | Dir _ _ ks => S ((fix hs (ks : list (str * node)) : nat :=
                        match ks with [] => 0 | (_, c) :: r => Nat.max (height c) (hs r) end) ks)
  | _ => 1
  end.

Fixpoint heights (ks : list (str * node)) : nat :=
  match ks with [] => 0 | (_, c) :: r => Nat.max (height c) (heights r) end.

Lemma height_dir pm mt ks : height (Dir pm mt ks) = S (heights ks).
Proof.
  reflexivity.
Qed.

Lemma kid_height x ks c : kid x ks = Some c -> height c <= heights ks.
Proof.
  induction ks as [|[k c0] r IH]; cbn; [discriminate|].
  destruct (str_eqb k x); [intros [= ->]; lia|intros H; specialize (IH H); lia].
Qed.

Definition is_fuel (r : acc + packres) : Prop := r = inr PackFuel.

Section T.
Variable fs : node.
Variable opts : popts.
Variable rules : option (list rule).
Variable root : list str.
Hypothesis Hnd : o_deref opts = false.

Lemma pack_node_fuel : forall fuel src dst chain p n a,
  height n <= fuel -> pack_node fs opts rules root fuel src dst chain p n a <> inr PackFuel.
Proof.
  induction fuel as [|fuel IH]; intros src dst chain p n a Hh.
  - destruct n; cbn in Hh; lia.
  - cbn [pack_node].
    assert (Hkids : forall pm mt ks names a0, n = Dir pm mt ks ->
      fold_left (fun (r : acc + packres) name =>
             match r with
             | inr e => inr e
             | inl a1 => match kid name ks with
                         | Some c => pack_node fs opts rules root fuel src dst chain (p ++ [name]) c a1
                         | None => inl a1
                         end
             end) names (inl a0) <> inr PackFuel).
    { intros pm mt ks names a0 En. revert a0. induction names as [|nm names IHn]; intros a0; [discriminate|].
      cbn [fold_left]. destruct (kid nm ks) as [c|] eqn:Ek; [|apply IHn].
      assert (Hc : height c <= fuel).
      { apply kid_height in Ek. rewrite En, height_dir in Hh. lia. }
      pose proof (IH src dst chain (p ++ [nm]) c a0 Hc) as Hne.
      destruct (pack_node fs opts rules root fuel src dst chain (p ++ [nm]) c a0) as [a1|e]; [apply IHn|].
      assert (He : e <> PackFuel) by congruence.
      clear - He. induction names as [|x names IHx]; cbn [fold_left]; [congruence|exact IHx]. }
    assert (Hwk : forall a0,
      (match n with
       | Dir _ _ ks => fold_left (fun (r : acc + packres) name =>
           match r with
           | inr e => inr e
           | inl a1 => match kid name ks with
                       | Some c => pack_node fs opts rules root fuel src dst chain (p ++ [name]) c a1
                       | None => inl a1
                       end
           end) (readdir n) (inl a0)
       | _ => inl a0 end) <> inr PackFuel).
    { intros a0. destruct n as [| pm mt ks | |] eqn:En; try discriminate. now apply (Hkids pm mt ks). }
    destruct (match strip_prefix src p with Some s => s | None => [] end) as [|s0 sub1]; [apply Hwk|].
    destruct (fst (excl rules (join_rel (s0 :: sub1)))); [apply Hwk|].
    destruct (if is_dir n then excl rules (join_rel (s0 :: sub1) ++ [slash]) else (false, false)) as [e2 d2].
    destruct e2; [destruct d2; [discriminate|apply Hwk]|].
    destruct n as [d pm mt | pm mt ks | t | k]; try discriminate.
    + apply Hwk.
    + destruct (valid_symlink _ _ _ _); [discriminate|]. rewrite Hnd. discriminate.
Qed.
End T.
