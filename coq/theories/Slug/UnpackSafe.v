(* C01 on the model: Unpack only ever writes below the destination. *)
From Coq Require Import Relations.Relation_Operators.
From Slug Require Import Base.Str Base.PathAlg Base.PathLemmas FS.FS FS.FSProofs Slug.Unpack.

(* ====================================================================== *)
(* positive resolution: real parents                                       *)
(* ====================================================================== *)
Lemma walk_real fs fl : forall pre links cur c0 x,
  get fs cur = Some c0 -> rdir c0 pre -> forallb plainb pre = true -> plain x = true ->
  (fl = false \/ match get fs (cur ++ pre ++ [x]) with Some n => is_link n = false | None => True end) ->
  walk links fs fl cur (pre ++ [x]) = Ok (cur ++ pre ++ [x]).
Proof.
  induction pre as [|y pre IH]; intros links cur c0 x Hg Hr Hp Hx Hl.
  - cbn [app]. destruct (plain_flags x Hx) as [F1 F2]. rewrite walk_cons, F1, F2. cbn zeta.
    cbn [app] in Hl. destruct (get fs (cur ++ [x])) as [n|]; [|reflexivity].
    destruct n as [| | t |]; cbn [is_nil andb]; try reflexivity.
    + now rewrite walk_nil.
    + destruct Hl as [-> | Hl]; [reflexivity|discriminate].
  - cbn in Hp. apply andb_true_iff in Hp as [Hy Hp]. destruct (plain_flags y Hy) as [F1 F2].
    cbn [app]. rewrite walk_cons, F1, F2. cbn zeta.
    destruct c0 as [| pm mt ks | |]; cbn in Hr; try contradiction.
    destruct (kid y ks) as [k|] eqn:Ek; [|contradiction].
    assert (Hg' : get fs (cur ++ [y]) = Some k) by (rewrite get_app, Hg; cbn; now rewrite Ek).
    rewrite Hg'. destruct k as [| pm' mt' ks' | |]; try (destruct pre; cbn in Hr; contradiction).
    rewrite (IH links (cur ++ [y]) _ x Hg' Hr Hp Hx).
    + now rewrite <- !app_assoc.
    + rewrite <- !app_assoc. exact Hl.
Qed.

Lemma resolve_real fs fl lp x :
  rdir fs lp -> forallb plainb lp = true -> plain x = true ->
  (fl = false \/ match get fs (lp ++ [x]) with Some n => is_link n = false | None => True end) ->
  resolve fs fl (lp ++ [x]) = Ok (lp ++ [x]).
Proof. intros. unfold resolve. now apply (walk_real fs fl lp max_links [] fs x). Qed.

Lemma resolve_lexical fs fl lp ph :
  is_dir fs = true -> forallb plainb lp = true ->
  (nolink fs lp \/ (fl = false /\ nolink fs (removelast lp))) ->
  resolve fs fl lp = Ok ph -> ph = lp /\ rdir fs (removelast lp).
Proof. intros Hd Hp Hn Hr. unfold resolve in Hr. now apply (walk_lexical fs fl lp max_links [] fs eq_refl Hd Hp Hn). Qed.

(* ====================================================================== *)
(* writes                                                                  *)
(* ====================================================================== *)
(* one primitive applied at the logical path lp either leaves the file system
   alone or replaces / creates the node at exactly lp, compatibly *)
(* [Q lp t]: what is known of a symbolic link with target t written at lp (a
   parameter: True for C01, the acceptance test of Unpack for C04) *)
Section Writes.
Variable Q : path -> str -> Prop.

Definition wr (fs : node) (lp : path) (fs' : node) : Prop :=
  fs' = fs \/ exists v, fs' = put fs lp v /\ rdir fs (removelast lp) /\ compat (get fs lp) v /\
                         (forall t, v = Link t -> Q lp t).
(* ... and what is written is not a symlink *)
Definition wrn (fs : node) (lp : path) (fs' : node) : Prop :=
  fs' = fs \/ exists v, fs' = put fs lp v /\ rdir fs (removelast lp) /\ compat (get fs lp) v /\ is_link v = false.

Lemma wrn_wr fs lp fs' : wrn fs lp fs' -> wr fs lp fs'.
Proof. intros [->|(v & -> & A & B & Hv)]; [now left|right; exists v; repeat split; auto]. intros t ->. discriminate. Qed.

Lemma removelast_snoc {A} (l : list A) x : removelast (l ++ [x]) = l.
Proof. apply removelast_last. Qed.

Lemma plain_split (lp : path) : lp <> [] -> exists pre x, lp = pre ++ [x].
Proof. intros H. exists (removelast lp), (last lp (@nil ascii)). now apply app_removelast_last. Qed.

Lemma forallb_snoc {A} (f : A -> bool) l x : forallb f (l ++ [x]) = forallb f l && f x.
Proof. rewrite forallb_app. cbn. now rewrite andb_true_r. Qed.

Lemma put_keeps_root (fs : node) (lp : path) v : is_dir fs = true -> lp <> [] -> is_dir (put fs lp v) = true.
Proof. intros Hd. destruct lp; [congruence|]. intros _. destruct fs; try discriminate. reflexivity. Qed.

Section Ops.
Variable fs : node.
Variable lp : path.
Hypothesis Hroot : is_dir fs = true.
Hypothesis Hplain : forallb plainb lp = true.

Lemma mkdir_wr perm fs' r :
  nolink fs (removelast lp) -> mkdir fs lp perm = (fs', r) ->
  wrn fs lp fs' /\ (r = Ok tt -> rdir fs' lp) /\ (is_dir fs' = true).
Proof.
  intros Hn H. unfold mkdir in H.
  destruct (resolve fs false lp) as [ph|e] eqn:Er; [|injection H as <- <-; repeat split; [now left|discriminate|exact Hroot]].
  destruct (resolve_lexical fs false lp ph Hroot Hplain (or_intror (conj eq_refl Hn)) Er) as [-> Hrd].
  destruct lp as [|x0 l0] eqn:El; [injection H as <- <-; repeat split; [now left|discriminate|exact Hroot]|].
  rewrite <- El in *.
  destruct (get fs lp) as [n|] eqn:Eg; injection H as <- <-.
  - repeat split; [now left|discriminate|exact Hroot].
  - split; [right; eexists; repeat split; [exact Hrd|rewrite Eg; reflexivity]|]. split.
    + intros _. destruct (plain_split lp) as (pre & x & E); [subst; discriminate|].
      rewrite E in *. rewrite removelast_snoc in Hrd.
      eapply rdir_snoc; [apply rdir_put; [exact Hrd|rewrite Eg; reflexivity]|].
      apply get_put_same. left. rewrite removelast_snoc. exact Hrd.
    + subst lp. destruct fs; try discriminate. reflexivity.
Qed.

Lemma create_write_wr is_root data fs' r :
  nolink fs lp -> create_write is_root fs lp data = (fs', r) ->
  wrn fs lp fs' /\ is_dir fs' = true /\
  (r = Ok tt -> exists d pm mt, get fs' lp = Some (File d pm mt)).
Proof.
  intros Hn H. unfold create_write in H.
  destruct (resolve fs true lp) as [ph|e] eqn:Er; [|injection H as <- <-; repeat split; [now left|exact Hroot|discriminate]].
  destruct (resolve_lexical fs true lp ph Hroot Hplain (or_introl Hn) Er) as [-> Hrd].
  destruct (get fs lp) as [n|] eqn:Eg.
  - destruct n as [d pm mt | | |]; try (injection H as <- <-; repeat split; [now left|exact Hroot|discriminate]).
    destruct (is_root || owner_writable pm); injection H as <- <-; [|repeat split; [now left|exact Hroot|discriminate]].
    assert (Hne : lp <> []) by (intros ->; cbn in Eg; injection Eg as ->; discriminate).
    split; [right; eexists; repeat split; [exact Hrd|rewrite Eg; exact I]|]. split; [now apply put_keeps_root|].
    intros _. do 3 eexists. apply get_put_same. now left.
  - destruct lp as [|x0 l0] eqn:El; [injection H as <- <-; repeat split; [now left|exact Hroot|discriminate]|].
    rewrite <- El in *. injection H as <- <-.
    split; [right; eexists; repeat split; [exact Hrd|rewrite Eg; exact I]|]. split; [apply put_keeps_root; [exact Hroot|rewrite El; discriminate]|].
    intros _. do 3 eexists. apply get_put_same. now left.
Qed.

Lemma symlink_wr target fs' r :
  Q lp target ->
  nolink fs (removelast lp) -> symlink fs target lp = (fs', r) ->
  wr fs lp fs' /\ is_dir fs' = true.
Proof.
  intros HQt Hn H. unfold symlink in H.
  destruct (resolve fs false lp) as [ph|e] eqn:Er; [|injection H as <- <-; split; [now left|exact Hroot]].
  destruct (resolve_lexical fs false lp ph Hroot Hplain (or_intror (conj eq_refl Hn)) Er) as [-> Hrd].
  destruct lp as [|x0 l0] eqn:El; [injection H as <- <-; split; [now left|exact Hroot]|].
  rewrite <- El in *.
  destruct (get fs lp) as [n|] eqn:Eg; [injection H as <- <-; split; [now left|exact Hroot]|].
  destruct target; injection H as <- <-; [split; [now left|exact Hroot]|].
  split; [right; eexists; repeat split; [exact Hrd|rewrite Eg; exact I|intros t0 [= <-]; exact HQt]|apply put_keeps_root; [exact Hroot|rewrite El; discriminate]].
Qed.

Lemma chmod_wr perm fs' r :
  nolink fs lp -> chmod fs lp perm = (fs', r) -> wrn fs lp fs' /\ is_dir fs' = true.
Proof.
  intros Hn H. unfold chmod in H.
  destruct (resolve fs true lp) as [ph|e] eqn:Er; [|injection H as <- <-; split; [now left|exact Hroot]].
  destruct (resolve_lexical fs true lp ph Hroot Hplain (or_introl Hn) Er) as [-> Hrd].
  destruct (get fs lp) as [n|] eqn:Eg; [|injection H as <- <-; split; [now left|exact Hroot]].
  destruct n as [d pm mt | pm mt ks | |]; injection H as <- <-; try (split; [now left|exact Hroot]).
  - split; [right; eexists; repeat split; [exact Hrd|rewrite Eg; exact I]|].
    destruct lp; [cbn in Eg; injection Eg as ->; discriminate|]. apply put_keeps_root; [exact Hroot|discriminate].
  - split; [right; eexists; repeat split; [exact Hrd|rewrite Eg; reflexivity]|].
    destruct lp; [reflexivity|]. apply put_keeps_root; [exact Hroot|discriminate].
Qed.

Lemma chtimes_wr mt0 fs' r :
  nolink fs lp -> chtimes fs lp mt0 = (fs', r) -> wrn fs lp fs' /\ is_dir fs' = true.
Proof.
  intros Hn H. unfold chtimes in H.
  destruct (resolve fs true lp) as [ph|e] eqn:Er; [|injection H as <- <-; split; [now left|exact Hroot]].
  destruct (resolve_lexical fs true lp ph Hroot Hplain (or_introl Hn) Er) as [-> Hrd].
  destruct (get fs lp) as [n|] eqn:Eg; [|injection H as <- <-; split; [now left|exact Hroot]].
  destruct n as [d pm mt | pm mt ks | |]; injection H as <- <-; try (split; [now left|exact Hroot]).
  - split; [right; eexists; repeat split; [exact Hrd|rewrite Eg; exact I]|].
    destruct lp; [cbn in Eg; injection Eg as ->; discriminate|]. apply put_keeps_root; [exact Hroot|discriminate].
  - split; [right; eexists; repeat split; [exact Hrd|rewrite Eg; reflexivity]|].
    destruct lp; [reflexivity|]. apply put_keeps_root; [exact Hroot|discriminate].
Qed.

End Ops.

(* ---------- what every write preserves ---------- *)
Lemma wr_rdir fs lp fs' q : wr fs lp fs' -> rdir fs q -> rdir fs' q.
Proof. intros [->|(v & -> & Hr & Hc & _)] H; [exact H|now apply rdir_put]. Qed.

Lemma wrn_nolink fs lp fs' q : wrn fs lp fs' -> nolink fs q -> nolink fs' q.
Proof. intros [->|(v & -> & Hr & Hc & Hv)] H; [exact H|now apply nolink_put]. Qed.

(* ====================================================================== *)
(* sequences of writes below a base directory                              *)
(* ====================================================================== *)
Definition step_under (base : path) (a b : node) : Prop := exists rel, wr a (base ++ rel) b.
Definition steps (base : path) : node -> node -> Prop := clos_refl_trans node (step_under base).

Lemma steps_refl base fs : steps base fs fs.
Proof. apply rt_refl. Qed.
Lemma steps_trans base a b c : steps base a b -> steps base b c -> steps base a c.
Proof. apply rt_trans. Qed.
Lemma steps_one base a b rel : wr a (base ++ rel) b -> steps base a b.
Proof. intros H. apply rt_step. now exists rel. Qed.

Record inv (base : path) (fs : node) : Prop := { i_root : is_dir fs = true; i_base : rdir fs base }.

Lemma nolink_nondir n p : is_dir n = false -> nolink n p.
Proof. destruct p; [intros; exact I|]. destruct n; cbn; auto; discriminate. Qed.

Lemma nolink_app_real : forall done n c0 q,
  rdir n done -> get n done = Some c0 -> nolink c0 q -> nolink n (done ++ q).
Proof.
  induction done as [|x r IH]; intros n c0 q Hr Hg Hn.
  - cbn in *. now injection Hg as ->.
  - destruct n as [| pm mt ks | |]; cbn in Hr; try contradiction. cbn in Hg |- *.
    destruct (kid x ks) as [k|]; [|contradiction]. split; [|eapply IH; eauto].
    destruct k; try reflexivity. destruct r; cbn in Hr; contradiction.
Qed.

Lemma stat_real_dir fs p : is_dir fs = true -> rdir fs p -> forallb plainb p = true ->
  exists n, stat fs p = Ok n /\ is_dir n = true.
Proof.
  intros Hd Hr Hp. destruct (rdir_get fs p Hr) as (pm & mt & ks & Hg). unfold stat.
  destruct (list_eq_dec str_eq_dec p []) as [->|Hne].
  - unfold resolve. rewrite walk_nil. cbn. eauto.
  - destruct (plain_split p Hne) as (pre & x & ->). rewrite forallb_snoc in Hp. apply andb_true_iff in Hp as [Hp Hx].
    rewrite resolve_real; [rewrite Hg; eauto|eapply rdir_prefix; eauto|exact Hp|exact Hx|].
    right. now rewrite Hg.
Qed.

Lemma mkdir_all_r_cons fs x parent perm :
  mkdir_all_r fs (x :: parent) perm =
  let p := rev (x :: parent) in
  match stat fs p with
  | Ok n => if is_dir n then (fs, Ok tt) else (fs, Err ENOTDIR)
  | Err _ =>
      match mkdir_all_r fs parent perm with
      | (fs1, Err e) => (fs1, Err e)
      | (fs1, Ok _) =>
          match mkdir fs1 p perm with
          | (fs2, Ok _) => (fs2, Ok tt)
          | (fs2, Err e) =>
              match lstat fs2 p with
              | Ok n => if is_dir n then (fs2, Ok tt) else (fs2, Err e)
              | Err _ => (fs2, Err e)
              end
          end
      end
  end.
Proof. reflexivity. Qed.

Lemma mkdir_all_r_nil fs perm :
  mkdir_all_r fs [] perm =
  match stat fs [] with
  | Ok n => if is_dir n then (fs, Ok tt) else (fs, Err ENOTDIR)
  | Err _ => (fs, Err EOTHER)
  end.
Proof. reflexivity. Qed.

Definition preserves (fs fs' : node) : Prop :=
  (forall q, rdir fs q -> rdir fs' q) /\ (forall q, nolink fs q -> nolink fs' q).

Lemma preserves_refl fs : preserves fs fs.
Proof. split; auto. Qed.
Lemma preserves_trans a b c : preserves a b -> preserves b c -> preserves a c.
Proof. intros [A1 A2] [B1 B2]. split; auto. Qed.
Lemma wrn_preserves fs lp fs' : wrn fs lp fs' -> preserves fs fs'.
Proof. clear Q. intros [->|(v & -> & Hr & Hc & Hv)]; split; intros q Hq; auto; [now apply rdir_put|now apply nolink_put]. Qed.

Lemma stat_dir_rdir fs p n :
  is_dir fs = true -> forallb plainb p = true -> nolink fs p ->
  stat fs p = Ok n -> is_dir n = true -> rdir fs p.
Proof.
  intros Hd Hp Hn Hs Hdn. unfold stat in Hs.
  destruct (resolve fs true p) as [ph|] eqn:Er; [|discriminate].
  destruct (resolve_lexical fs true p ph Hd Hp (or_introl Hn) Er) as [-> Hr].
  destruct (get fs p) as [m|] eqn:Eg; [|discriminate]. injection Hs as ->.
  destruct (list_eq_dec str_eq_dec p []) as [->|Hne].
  - cbn in Eg. injection Eg as ->. destruct n; try discriminate. exact I.
  - destruct (plain_split p Hne) as (pre & x & ->). rewrite removelast_snoc in Hr.
    destruct n; try discriminate. eapply rdir_snoc; eauto.
Qed.

Lemma lstat_dir_rdir fs pre x n :
  is_dir fs = true -> forallb plainb (pre ++ [x]) = true -> rdir fs pre ->
  lstat fs (pre ++ [x]) = Ok n -> is_dir n = true -> rdir fs (pre ++ [x]).
Proof.
  intros Hd Hp Hr Hs Hdn. unfold lstat in Hs.
  rewrite forallb_snoc in Hp. apply andb_true_iff in Hp as [Hp Hx].
  rewrite resolve_real in Hs by (auto). destruct (get fs (pre ++ [x])) as [m|] eqn:Eg; [|discriminate].
  injection Hs as ->. destruct n; try discriminate. eapply rdir_snoc; eauto.
Qed.

Ltac fin4 S I P T := split; [exact S|split; [exact I|split; [exact P|T]]].

Lemma mkdir_all_r_safe base : forall rcomps fs perm fs' r,
  inv base fs -> (exists rel, rev rcomps = base ++ rel) ->
  forallb plainb (rev rcomps) = true -> nolink fs (rev rcomps) ->
  mkdir_all_r fs rcomps perm = (fs', r) ->
  steps base fs fs' /\ inv base fs' /\ preserves fs fs' /\ (r = Ok tt -> rdir fs' (rev rcomps)).
Proof.
  induction rcomps as [|x parent IH]; intros fs perm fs' r Hinv Hrel Hp Hn H.
  - rewrite mkdir_all_r_nil in H. destruct Hinv as [Hd Hb].
    destruct (stat fs []) as [n|e] eqn:Es.
    + destruct (is_dir n) eqn:En; injection H as <- <-;
        (split; [apply steps_refl|split; [now constructor|split; [apply preserves_refl|]]]).
      * intros _. cbn. destruct fs; try discriminate. exact I.
      * discriminate.
    + injection H as <- <-. split; [apply steps_refl|split; [now constructor|split; [apply preserves_refl|discriminate]]].
  - rewrite mkdir_all_r_cons in H. cbn zeta in H. set (p := rev (x :: parent)) in *.
    pose proof Hinv as [Hd Hb].
    destruct (stat fs p) as [n|e] eqn:Es.
    + destruct (is_dir n) eqn:En; injection H as <- <-;
        (split; [apply steps_refl|split; [exact Hinv|split; [apply preserves_refl|]]]); [|discriminate].
      intros _. eapply stat_dir_rdir; eauto.
    + (* the path does not resolve to anything yet: base is a proper prefix *)
      destruct Hrel as [rel Hrel].
      assert (Hrelne : rel <> []).
      { intros ->. rewrite app_nil_r in Hrel. fold p in Hrel.
        assert (Hpb : forallb plainb base = true) by (rewrite <- Hrel; exact Hp).
        destruct (stat_real_dir fs base Hd Hb Hpb) as (n & Hs & _). rewrite <- Hrel in Hs. congruence. }
      destruct (plain_split rel Hrelne) as (rel' & y & ->).
      assert (Hpar : rev parent = base ++ rel' /\ y = x).
      { change (rev (x :: parent)) with (rev parent ++ [x]) in Hrel. rewrite app_assoc in Hrel.
        apply app_inj_tail in Hrel as [A B]. auto. }
      destruct Hpar as [Hpar ->].
      assert (Hpp : p = rev parent ++ [x]) by reflexivity.
      assert (Hp' : forallb plainb (rev parent) = true /\ plain x = true).
      { rewrite Hpp, forallb_snoc in Hp. now apply andb_true_iff in Hp. }
      destruct Hp' as [Hp' Hx].
      assert (Hn' : nolink fs (rev parent)) by (rewrite Hpp in Hn; eapply nolink_prefix; eauto).
      destruct (mkdir_all_r fs parent perm) as [fs1 r1] eqn:Em.
      destruct (IH fs perm fs1 r1 Hinv (ex_intro _ rel' Hpar) Hp' Hn' Em) as (S1 & I1 & P1 & R1).
      destruct r1 as [[]|e1]; [|injection H as <- <-; fin4 S1 I1 P1 discriminate].
      specialize (R1 eq_refl). pose proof I1 as [Hd1 Hb1].
      destruct (mkdir fs1 p perm) as [fs2 r2] eqn:Ek.
      assert (Hmk := mkdir_wr fs1 p Hd1 Hp perm fs2 r2).
      rewrite Hpp, removelast_snoc in Hmk. specialize (Hmk (rdir_nolink _ _ R1)). rewrite <- Hpp in Hmk.
      destruct (Hmk Ek) as (W & Rk & Hd2).
      assert (S2 : steps base fs fs2).
      { eapply steps_trans; [exact S1|]. apply (steps_one base fs1 fs2 (rel' ++ [x])).
        rewrite app_assoc, <- Hpar, <- Hpp. now apply wrn_wr. }
      assert (P2 : preserves fs fs2) by (eapply preserves_trans; [exact P1|now apply wrn_preserves in W]).
      assert (I2 : inv base fs2) by (constructor; [exact Hd2|apply P2, Hb]).
      destruct r2 as [[]|e2].
      * injection H as <- <-. fin4 S2 I2 P2 ltac:(intros _; exact (Rk eq_refl)).
      * assert (R2 : rdir fs2 (rev parent)) by (apply (wrn_preserves _ _ _ W), R1).
        destruct (lstat fs2 p) as [m|e3] eqn:El.
        -- destruct (is_dir m) eqn:Em2; injection H as <- <-; [|fin4 S2 I2 P2 discriminate].
           fin4 S2 I2 P2 ltac:(intros _; rewrite Hpp; eapply lstat_dir_rdir; eauto; rewrite <- Hpp; auto).
        -- injection H as <- <-. fin4 S2 I2 P2 discriminate.
Qed.

(* ====================================================================== *)
(* NewUnpackInfo's walk                                                    *)
(* ====================================================================== *)
Lemma lstat_real fs done x :
  is_dir fs = true -> rdir fs done -> forallb plainb done = true -> plain x = true ->
  lstat fs (done ++ [x]) = match get fs (done ++ [x]) with Some n => Ok n | None => Err ENOENT end.
Proof.
  intros Hd Hr Hp Hx. unfold lstat. rewrite resolve_real by auto. reflexivity.
Qed.

Lemma lstat_walk_nolink fs : forall comps done n c0,
  is_dir fs = true -> rdir fs done -> forallb plainb done = true -> forallb plainb comps = true ->
  get fs done = Some c0 -> lstat_walk fs done comps n = CkOk -> nolink c0 (firstn n comps).
Proof.
  induction comps as [|c rest IH]; intros done n c0 Hd Hr Hpd Hpc Hg Hw.
  - destruct n; exact I.
  - destruct n as [|n']; [exact I|]. cbn in Hpc. apply andb_true_iff in Hpc as [Hc Hrest].
    cbn [lstat_walk firstn] in *. rewrite lstat_real in Hw by auto.
    destruct (rdir_get fs done Hr) as (pm & mt & ks & Hg'). rewrite Hg in Hg'. injection Hg' as ->.
    rewrite get_app, Hg in Hw. cbn [get] in Hw. cbn [nolink].
    destruct (kid c ks) as [k|] eqn:Ek; [|exact I].
    destruct (is_link k) eqn:El; [discriminate|]. split; [reflexivity|].
    destruct (is_dir k) eqn:Edk; [|now apply nolink_nondir].
    assert (Hgk : get fs (done ++ [c]) = Some k) by (rewrite get_app, Hg; cbn; now rewrite Ek).
    apply (IH (done ++ [c]) n' k); auto.
    + destruct k; try discriminate. eapply rdir_snoc; eauto.
    + rewrite forallb_snoc. now rewrite Hpd, Hc.
Qed.

(* ---------- components of cleaned absolute paths are plain names ---------- *)
Lemma plain_seg_ok g : seg_ok g = true -> plain g = true.
Proof. apply seg_ok_plain. Qed.

Lemma filter_nonempty_plain l : forallb seg_ok l = true ->
  filter (fun c => negb (is_empty c)) l = l.
Proof. clear Q.
  induction l as [|g l IH]; cbn; [reflexivity|]. intros H. apply andb_true_iff in H as [Hg Hl].
  assert (is_empty g = false).
  { apply seg_ok_plain in Hg. unfold plain in Hg. rewrite !andb_true_iff, !negb_true_iff in Hg. tauto. }
  rewrite H. cbn. now rewrite IH.
Qed.

Lemma comps_of_clean_plain s : is_rooted s = true -> forallb plainb (comps_of (clean s)) = true.
Proof. clear Q.
  intros Hr. unfold clean. destruct s as [|c s']; [discriminate|]. rewrite Hr.
  set (st := nrun true (0, []) (split_on slash (c :: s'))).
  assert (Hok : st_ok st) by (apply nrun_ok; [reflexivity|apply split_segs_noslash]).
  assert (Hu : fst st = 0) by (unfold st; now rewrite nrun_rooted_ups).
  destruct st as [u rn]. cbn in Hu. subst u. unfold print_nf. cbn [repeat app].
  unfold st_ok in Hok. cbn [snd] in Hok.
  assert (Hrev : forallb seg_ok (rev rn) = true).
  { rewrite forallb_forall in *. intros x Hx. apply Hok. now apply in_rev. }
  unfold comps_of. destruct (rev rn) as [|g l] eqn:E.
  - reflexivity.
  - rewrite <- E in *.
    assert (Hsp : split_on slash (slash :: join_with slash (rev rn)) = [] :: rev rn).
    { cbn [split_on]. rewrite Ascii.eqb_refl. f_equal. apply split_join; [rewrite E; discriminate|].
      intros x Hx. rewrite forallb_forall in Hrev. now apply seg_ok_no_slash, Hrev. }
    rewrite Hsp. cbn [filter is_empty negb]. rewrite filter_nonempty_plain by exact Hrev.
    rewrite forallb_forall in *. intros x Hx. now apply plain_seg_ok, Hrev.
Qed.

Lemma strip_prefix_app pre l r : strip_prefix pre l = Some r -> l = pre ++ r.
Proof.
  revert l; induction pre as [|x pre IH]; intros l H; cbn in H.
  - now injection H as ->.
  - destruct l as [|y l]; [discriminate|]. destruct (str_eqb_spec x y) as [->|]; [|discriminate].
    cbn. f_equal. now apply IH.
Qed.

Definition dst_ok (dst : str) : Prop := is_rooted dst = true /\ clean dst = dst.

Lemma fjoin_rooted dst name : is_rooted dst = true -> name <> [] ->
  exists s, fjoin dst name = clean s /\ is_rooted s = true.
Proof.
  intros Hr Hn. unfold fjoin, join2. destruct dst as [|c d]; [discriminate|].
  exists ((c :: d) ++ slash :: name). split; [destruct name; [congruence|reflexivity]|exact Hr].
Qed.

Lemma rdir_removelast fs (p : path) : rdir fs p -> rdir fs (removelast p).
Proof.
  intros H. destruct (list_eq_dec str_eq_dec p []) as [->|Hne]; [exact H|].
  destruct (plain_split p Hne) as (pre & x & ->). rewrite removelast_snoc. eapply rdir_prefix; eauto.
Qed.

Lemma comps_of_seg_ok s : forallb plainb (comps_of s) = true -> forallb seg_ok (comps_of s) = true.
Proof.
  intros Hp. apply forallb_forall. intros g Hg. rewrite forallb_forall in Hp.
  unfold seg_ok. pose proof (Hp g Hg) as Hpg. unfold plainb in Hpg. rewrite Hpg. cbn. apply negb_true_iff.
  destruct (mem_char slash g) eqn:E; [|reflexivity]. apply mem_char_In in E.
  unfold comps_of in Hg. apply filter_In in Hg as [Hg _]. now apply (split_segs_noslash s) in Hg.
Qed.

(* what NewUnpackInfo guarantees about the path it returns *)
Lemma new_unpack_info_spec fs dst e lp :
  dst_ok dst -> is_dir fs = true -> rdir fs (comps_of dst) ->
  new_unpack_info fs dst e = Some lp ->
  exists comps, lp = comps_of dst ++ comps /\ forallb plainb lp = true /\
    (if is_sym e then nolink fs (removelast lp) else nolink fs lp) /\ forallb seg_ok lp = true.
Proof.
  intros [Hdr Hdc] Hd Hb H. unfold new_unpack_info in H.
  destruct (e_name e) as [|c r]; [discriminate|].
  set (name := if Ascii.eqb c slash then r else c :: r) in *.
  set (p := match name with [] => clean dst | _ => fjoin dst name end) in *.
  assert (Hpp : forallb plainb (comps_of p) = true).
  { unfold p. destruct name as [|n0 nm] eqn:En; [now apply comps_of_clean_plain|].
    destruct (fjoin_rooted dst (n0 :: nm) Hdr) as (s & -> & Hs); [discriminate|].
    now apply comps_of_clean_plain. }
  assert (Hbp : forallb plainb (comps_of dst) = true) by (rewrite <- Hdc; now apply comps_of_clean_plain).
  unfold rel_inside in H. destruct (strip_prefix (comps_of dst) (comps_of p)) as [comps|] eqn:Es; [|discriminate].
  apply strip_prefix_app in Es.
  destruct (lstat_walk fs (comps_of dst) comps _) eqn:Ew; [|discriminate].
  destruct (is_dir_e e || is_sym e || is_reg e || is_typex e); [|discriminate].
  injection H as <-. exists comps. split; [reflexivity|]. rewrite <- Es. split; [exact Hpp|].
  split; [|now apply comps_of_seg_ok].
  assert (Hpc : forallb plainb comps = true) by (rewrite Es, forallb_app in Hpp; now apply andb_true_iff in Hpp).
  destruct (rdir_get fs _ Hb) as (pm & mt & ks & Hg).
  pose proof (lstat_walk_nolink fs comps (comps_of dst) _ _ Hd Hb Hbp Hpc Hg Ew) as Hn.
  destruct (is_sym e).
  - rewrite Es. destruct (list_eq_dec str_eq_dec comps []) as [->|Hne].
    + rewrite app_nil_r. apply rdir_nolink. now apply rdir_removelast.
    + destruct (plain_split comps Hne) as (pre & x & ->).
      rewrite app_assoc, removelast_snoc.
      rewrite app_length in Hn. cbn [length] in Hn.
      replace (length pre + 1 - 1) with (length pre) in Hn by lia.
      rewrite firstn_app, firstn_all, Nat.sub_diag in Hn. cbn [firstn] in Hn. rewrite app_nil_r in Hn.
      eapply nolink_app_real; eauto.
  - rewrite firstn_all in Hn. rewrite Es. eapply nolink_app_real; eauto.
Qed.

(* ====================================================================== *)
(* one entry, all entries, the deferred directory restores                 *)
(* ====================================================================== *)
Definition dirs_ok (base : path) (fs : node) (dirs : list (list str * entry)) : Prop :=
  forall p e, In (p, e) dirs -> rdir fs p /\ forallb plainb p = true /\ exists rel, p = base ++ rel.

Lemma dirs_ok_preserved base fs fs' dirs : preserves fs fs' -> dirs_ok base fs dirs -> dirs_ok base fs' dirs.
Proof. intros [P _] H p e Hin. destruct (H p e Hin) as (A & B & C). repeat split; auto. Qed.

Lemma wrn_step base fs rel fs' : wrn fs (base ++ rel) fs' -> steps base fs fs' /\ preserves fs fs'.
Proof. intros H. split; [eapply steps_one, wrn_wr; eauto|eapply wrn_preserves; eauto]. Qed.

Lemma inv_preserved base fs fs' : preserves fs fs' -> is_dir fs' = true -> inv base fs -> inv base fs'.
Proof. intros [P _] Hd [_ Hb]. constructor; auto. Qed.

Lemma removelast_app_ne {A} (a b : list A) : b <> [] -> removelast (a ++ b) = a ++ removelast b.
Proof. intros H. now apply removelast_app. Qed.

Definition rpres (fs fs' : node) : Prop := forall q, rdir fs q -> rdir fs' q.

Lemma dirs_ok_rpres base fs fs' dirs : rpres fs fs' -> dirs_ok base fs dirs -> dirs_ok base fs' dirs.
Proof. intros P H p e Hin. destruct (H p e Hin) as (A & B & C). split; [now apply P|split; assumption]. Qed.

Lemma preserves_rpres a b : preserves a b -> rpres a b.
Proof. intros [P _]. exact P. Qed.

Ltac fin3 S I D := split; [exact S|split; [exact I|exact D]].

Section Entry.
Variable is_root : bool.
Variable allow : list str.
Variable dst : str.
Hypothesis Hdst : dst_ok dst.
Let base := comps_of dst.
(* [T t]: what is known of the link targets in the archive *)
Variable T : str -> Prop.
Hypothesis HQ : forall lp t, forallb seg_ok lp = true ->
  valid_symlink allow dst (join_abs lp) t = true -> T t -> Q lp t.

Lemma unpack_entry_safe fs dirs e fs' dirs' r :
  (is_sym e = true -> T (e_link e)) ->
  inv base fs -> dirs_ok base fs dirs ->
  unpack_entry is_root allow fs dst dirs e = (fs', dirs', r) ->
  steps base fs fs' /\ inv base fs' /\ dirs_ok base fs' dirs'.
Proof.
  intros HT Hinv Hdirs H. pose proof Hinv as [Hd Hb]. unfold unpack_entry in H.
  assert (Hsame : steps base fs fs /\ inv base fs /\ dirs_ok base fs dirs)
    by (fin3 (steps_refl base fs) Hinv Hdirs).
  destruct (e_name e) as [|c0 nm] eqn:En; [injection H as <- <- <-; exact Hsame|].
  destruct (new_unpack_info fs dst e) as [lp|] eqn:Ei; [|injection H as <- <- <-; exact Hsame].
  destruct (new_unpack_info_spec fs dst e lp Hdst Hd Hb Ei) as (comps & Hlp & Hpl & Hnl & Hsok).
  fold base in Hlp.
  assert (Hnlpar : nolink fs (removelast lp)).
  { destruct (is_sym e); [exact Hnl|].
    destruct (list_eq_dec str_eq_dec lp []) as [->|Hne]; [exact I|].
    destruct (plain_split lp Hne) as (pre & x & ->). rewrite removelast_snoc. eapply nolink_prefix; eauto. }
  assert (Hplpar : forallb plainb (removelast lp) = true).
  { destruct (list_eq_dec str_eq_dec lp []) as [->|Hne]; [reflexivity|].
    destruct (plain_split lp Hne) as (pre & x & E). rewrite E in *. rewrite removelast_snoc.
    rewrite forallb_snoc in Hpl. now apply andb_true_iff in Hpl. }
  (* MkdirAll(filepath.Dir(path)) *)
  destruct (mkdir_all fs (removelast lp) 493) as [fs1 r1] eqn:Em. unfold mkdir_all in Em.
  assert (M : steps base fs fs1 /\ inv base fs1 /\ preserves fs fs1 /\ (r1 = Ok tt -> rdir fs1 (removelast lp))).
  { destruct (list_eq_dec str_eq_dec comps []) as [->|Hcne].
    - (* lp = base: its parent is a real directory already *)
      rewrite app_nil_r in Hlp. subst lp.
      assert (Hr : rdir fs (removelast base)) by now apply rdir_removelast.
      destruct (stat_real_dir fs (removelast base) Hd Hr Hplpar) as (n & Hs & Hn).
      destruct (rev (removelast base)) as [|x par] eqn:Er.
      + rewrite mkdir_all_r_nil in Em.
        assert (E0 : removelast base = []) by (apply (f_equal (@rev str)) in Er; now rewrite rev_involutive in Er).
        rewrite E0 in Hs. rewrite Hs, Hn in Em. injection Em as <- <-.
        fin4 (steps_refl base fs) Hinv (preserves_refl fs) ltac:(intros _; exact Hr).
      + rewrite mkdir_all_r_cons in Em. cbn zeta in Em. rewrite <- Er, rev_involutive, Hs, Hn in Em.
        injection Em as <- <-. fin4 (steps_refl base fs) Hinv (preserves_refl fs) ltac:(intros _; exact Hr).
    - assert (Hrl : removelast lp = base ++ removelast comps) by (rewrite Hlp; now apply removelast_app_ne).
      assert (Hrel : exists rel, rev (rev (removelast lp)) = base ++ rel) by (rewrite rev_involutive; eauto).
      rewrite <- (rev_involutive (removelast lp)) in Hplpar, Hnlpar.
      destruct (mkdir_all_r_safe base _ fs 493 fs1 r1 Hinv Hrel Hplpar Hnlpar Em) as (A & B & C & D).
      rewrite rev_involutive in D. auto. }
  destruct M as (S1 & I1 & P1 & R1).
  assert (D1 : dirs_ok base fs1 dirs) by (apply (dirs_ok_rpres base fs); [exact (preserves_rpres _ _ P1)|exact Hdirs]).
  destruct r1 as [[]|e1]; [|injection H as <- <- <-; fin3 S1 I1 D1].
  specialize (R1 eq_refl). pose proof I1 as [Hd1 Hb1].
  assert (Hnl1 : if is_sym e then nolink fs1 (removelast lp) else nolink fs1 lp).
  { destruct P1 as [_ P1]. destruct (is_sym e); now apply P1. }
  destruct (is_sym e) eqn:Esym.
  { (* symlink entry *)
    destruct (valid_symlink allow dst (join_abs lp) (e_link e)) eqn:Ev; [|injection H as <- <- <-; fin3 S1 I1 D1].
    destruct (symlink fs1 (e_link e) lp) as [fs2 r2] eqn:Es.
    destruct (symlink_wr fs1 lp Hd1 Hpl (e_link e) fs2 r2 (HQ lp (e_link e) Hsok Ev (HT eq_refl)) Hnl1 Es) as [W Hd2].
    assert (S2 : steps base fs fs2) by (eapply steps_trans; [exact S1|rewrite Hlp in W; eapply steps_one; eauto]).
    assert (P2 : rpres fs1 fs2) by (intros q Hq; eapply wr_rdir; eauto).
    assert (I2 : inv base fs2) by (constructor; [exact Hd2|now apply P2]).
    assert (D2 : dirs_ok base fs2 dirs) by (now apply (dirs_ok_rpres base fs1)).
    destruct r2; injection H as <- <- <-; fin3 S2 I2 D2. }
  destruct (is_dir_e e) eqn:Edir.
  { (* directory entry: MkdirAll(path) *)
    destruct (mkdir_all fs1 lp 493) as [fs2 r2] eqn:Em2. unfold mkdir_all in Em2.
    assert (Hrel : exists rel, rev (rev lp) = base ++ rel) by (rewrite rev_involutive; eauto).
    pose proof Hpl as Hpl'. pose proof Hnl1 as Hnl1'.
    rewrite <- (rev_involutive lp) in Hpl', Hnl1'.
    destruct (mkdir_all_r_safe base _ fs1 493 fs2 r2 I1 Hrel Hpl' Hnl1' Em2) as (S2 & I2 & P2 & R2).
    rewrite rev_involutive in R2.
    assert (S3 : steps base fs fs2) by (eapply steps_trans; eauto).
    assert (D2 : dirs_ok base fs2 dirs) by (apply (dirs_ok_rpres base fs1); [exact (preserves_rpres _ _ P2)|exact D1]).
    destruct r2 as [[]|e2]; injection H as <- <- <-; [|fin3 S3 I2 D2].
    split; [exact S3|split; [exact I2|]].
    intros p0 e0 Hin. apply in_app_or in Hin as [Hin|[[= <- <-]|[]]]; [exact (D2 p0 e0 Hin)|].
    split; [now apply R2|split; [exact Hpl|eauto]]. }
  destruct (is_reg e) eqn:Ereg; cbn [negb] in H; [|injection H as <- <- <-; fin3 S1 I1 D1].
  (* regular file: Create (with the permission retry), Chmod, Chtimes *)
  set (cw := match create_write is_root fs1 lp (e_body e) with
             | (fsx, Err EACCES) => let '(fsy, _) := chmod fsx lp 384 in create_write is_root fsy lp (e_body e)
             | other => other
             end) in *.
  assert (C : exists fs2 r2, cw = (fs2, r2) /\ steps base fs fs2 /\ inv base fs2 /\ preserves fs1 fs2).
  { unfold cw. destruct (create_write is_root fs1 lp (e_body e)) as [fsx rx] eqn:Ec.
    destruct (create_write_wr fs1 lp Hd1 Hpl is_root (e_body e) fsx rx Hnl1 Ec) as (W & Hdx & _).
    rewrite Hlp in W. destruct (wrn_step base fs1 comps fsx W) as [Sx Px].
    assert (Ix : inv base fsx) by (constructor; [exact Hdx|now apply Px]).
    assert (Base : exists fs2 r2, (fsx, rx) = (fs2, r2) /\ steps base fs fs2 /\ inv base fs2 /\ preserves fs1 fs2).
    { exists fsx, rx. split; [reflexivity|]. split; [eapply steps_trans; eauto|]. split; assumption. }
    destruct rx as [[]|ex]; [exact Base|]. destruct ex; try exact Base.
    (* EACCES: chmod 0600 and retry *)
    destruct (chmod fsx lp 384) as [fsy ry] eqn:Eh.
    assert (Hnlx : nolink fsx lp) by (apply Px, Hnl1).
    destruct (chmod_wr fsx lp Hdx Hpl 384 fsy ry Hnlx Eh) as (Wy & Hdy).
    rewrite Hlp in Wy. destruct (wrn_step base fsx comps fsy Wy) as [Sy Py].
    destruct (create_write is_root fsy lp (e_body e)) as [fsz rz] eqn:Ec2.
    assert (Hnly : nolink fsy lp) by (apply Py, Hnlx).
    destruct (create_write_wr fsy lp Hdy Hpl is_root (e_body e) fsz rz Hnly Ec2) as (Wz & Hdz & _).
    rewrite Hlp in Wz. destruct (wrn_step base fsy comps fsz Wz) as [Sz Pz].
    exists fsz, rz. split; [reflexivity|]. split.
    - eapply steps_trans; [exact S1|]. eapply steps_trans; [exact Sx|]. eapply steps_trans; eauto.
    - split; [constructor; [exact Hdz|apply Pz, Py, Px, Hb1]|].
      eapply preserves_trans; [exact Px|]. eapply preserves_trans; eauto. }
  destruct C as (fs2 & r2 & Ecw & S2 & I2 & P2). rewrite Ecw in H.
  assert (D2 : dirs_ok base fs2 dirs) by (apply (dirs_ok_rpres base fs1); [exact (preserves_rpres _ _ P2)|exact D1]).
  destruct r2 as [[]|e2]; [|injection H as <- <- <-; fin3 S2 I2 D2].
  pose proof I2 as [Hd2 Hb2]. assert (Hnl2 : nolink fs2 lp) by (apply P2, Hnl1).
  destruct (chmod fs2 lp (e_mode e)) as [fs3 r3] eqn:Eh.
  destruct (chmod_wr fs2 lp Hd2 Hpl (e_mode e) fs3 r3 Hnl2 Eh) as (W3 & Hd3).
  rewrite Hlp in W3. destruct (wrn_step base fs2 comps fs3 W3) as [S3 P3].
  assert (S3' : steps base fs fs3) by (eapply steps_trans; eauto).
  assert (I3 : inv base fs3) by (constructor; [exact Hd3|apply P3, Hb2]).
  assert (D3 : dirs_ok base fs3 dirs) by (apply (dirs_ok_rpres base fs2); [exact (preserves_rpres _ _ P3)|exact D2]).
  destruct r3 as [[]|e3]; [|injection H as <- <- <-; fin3 S3' I3 D3].
  assert (Hnl3 : nolink fs3 lp) by (apply P3, Hnl2).
  destruct (chtimes fs3 lp (sec_to_ns (e_mtime e))) as [fs4 r4] eqn:Et.
  destruct (chtimes_wr fs3 lp Hd3 Hpl (sec_to_ns (e_mtime e)) fs4 r4 Hnl3 Et) as (W4 & Hd4).
  rewrite Hlp in W4. destruct (wrn_step base fs3 comps fs4 W4) as [S4 P4].
  assert (S4' : steps base fs fs4) by (eapply steps_trans; eauto).
  assert (I4 : inv base fs4) by (constructor; [exact Hd4|apply P4, (i_base _ _ I3)]).
  assert (D4 : dirs_ok base fs4 dirs) by (apply (dirs_ok_rpres base fs3); [exact (preserves_rpres _ _ P4)|exact D3]).
  destruct r4; injection H as <- <- <-; fin3 S4' I4 D4.
Qed.

Lemma unpack_entries_safe : forall es fs dirs fs' dirs' r,
  (forall e, In e es -> is_sym e = true -> T (e_link e)) ->
  inv base fs -> dirs_ok base fs dirs ->
  unpack_entries is_root allow fs dst dirs es = (fs', dirs', r) ->
  steps base fs fs' /\ inv base fs' /\ dirs_ok base fs' dirs'.
Proof.
  induction es as [|e es IH]; intros fs dirs fs' dirs' r HT Hinv Hd H.
  - cbn in H. injection H as <- <- <-. fin3 (steps_refl base fs) Hinv Hd.
  - cbn in H. destruct (unpack_entry is_root allow fs dst dirs e) as [[fs1 dirs1] r1] eqn:Ee.
    destruct (unpack_entry_safe fs dirs e fs1 dirs1 r1 (HT e (or_introl eq_refl)) Hinv Hd Ee) as (S1 & I1 & D1).
    destruct r1; [injection H as <- <- <-; fin3 S1 I1 D1|].
    destruct (IH _ _ _ _ _ (fun e0 Hin => HT e0 (or_intror Hin)) I1 D1 H) as (S2 & I2 & D2).
    split; [eapply steps_trans; eauto|split; assumption].
Qed.

Lemma restore_dirs_safe : forall dirs fs fs' r,
  inv base fs -> dirs_ok base fs dirs -> restore_dirs fs dirs = (fs', r) ->
  steps base fs fs'.
Proof.
  induction dirs as [|[p e] dirs IH]; intros fs fs' r Hinv Hd H.
  - cbn in H. injection H as <- <-. apply steps_refl.
  - cbn [restore_dirs] in H. pose proof Hinv as [Hdr Hb].
    destruct (Hd p e (or_introl eq_refl)) as (Hrp & Hpl & rel & Hrel).
    destruct (chmod fs p (e_mode e)) as [fs1 r1] eqn:Eh.
    destruct (chmod_wr fs p Hdr Hpl (e_mode e) fs1 r1 (rdir_nolink _ _ Hrp) Eh) as (W1 & Hd1).
    rewrite Hrel in W1. destruct (wrn_step base fs rel fs1 W1) as [S1 P1].
    assert (I1 : inv base fs1) by (constructor; [exact Hd1|apply P1, Hb]).
    assert (D1 : dirs_ok base fs1 ((p, e) :: dirs)) by (apply (dirs_ok_rpres base fs); [exact (preserves_rpres _ _ P1)|exact Hd]).
    destruct (tolerate (fs1, r1)) as [fsa oa] eqn:Ta.
    assert (fsa = fs1) by (destruct r1 as [[]|[]]; cbn in Ta; congruence). subst fsa.
    destruct oa; [injection H as <- <-; exact S1|].
    destruct (chtimes fs1 p (sec_to_ns (e_mtime e))) as [fs2 r2] eqn:Et.
    assert (Hrp1 : rdir fs1 p) by (apply P1, Hrp).
    destruct (chtimes_wr fs1 p Hd1 Hpl (sec_to_ns (e_mtime e)) fs2 r2 (rdir_nolink _ _ Hrp1) Et) as (W2 & Hd2).
    rewrite Hrel in W2. destruct (wrn_step base fs1 rel fs2 W2) as [S2 P2].
    assert (I2 : inv base fs2) by (constructor; [exact Hd2|apply P2, (i_base _ _ I1)]).
    destruct (tolerate (fs2, r2)) as [fsb ob] eqn:Tb.
    assert (fsb = fs2) by (destruct r2 as [[]|[]]; cbn in Tb; congruence). subst fsb.
    destruct ob; [injection H as <- <-; eapply steps_trans; eauto|].
    eapply steps_trans; [exact S1|]. eapply steps_trans; [exact S2|].
    apply (IH fs2 fs' r I2); [|exact H].
    intros p0 e0 Hin.
    exact (dirs_ok_rpres base fs1 fs2 ((p, e) :: dirs) (preserves_rpres _ _ P2) D1 p0 e0 (or_intror Hin)).
Qed.

(* every step rewrites the subtree at base, nothing else *)
Lemma steps_put fs fs' :
  steps base fs fs' -> rdir fs base ->
  rdir fs' base /\ exists d, fs' = put fs base d.
Proof.
  intros H. induction H as [a b [rel W]| a | a b c H1 IH1 H2 IH2]; intros Hb.
  - destruct W as [->|(v & -> & Hr & Hc & _)].
    + split; [exact Hb|]. destruct (rdir_get a base Hb) as (pm & mt & ks & Hg).
      exists (Dir pm mt ks). symmetry. now apply put_get_same.
    + split; [now apply rdir_put|].
      destruct (list_eq_dec str_eq_dec rel []) as [->|Hne].
      * rewrite app_nil_r. eauto.
      * destruct (rdir_get a base Hb) as (pm & mt & ks & Hg).
        exists (put (Dir pm mt ks) rel v). now apply put_app.
  - split; [exact Hb|]. destruct (rdir_get a base Hb) as (pm & mt & ks & Hg).
    exists (Dir pm mt ks). symmetry. now apply put_get_same.
  - destruct (IH1 Hb) as (Hb1 & d1 & ->). destruct (IH2 Hb1) as (Hb2 & d2 & ->).
    split; [exact Hb2|]. exists d2. apply put_put_same.
    destruct (rdir_get a base Hb) as (pm & mt & ks & Hg). congruence.
Qed.
End Entry.
End Writes.

(* ====================================================================== *)
(* C01 on the model                                                        *)
(* ====================================================================== *)
(* Whatever the entries (names, targets, order, repetitions), whatever the
   result (success, illegal slug, I/O error), Unpack returns a file system that
   is the initial one with only the subtree at the destination replaced. *)
Theorem unpack_outside_unchanged is_root allow fs dst es fs' r :
  dst_ok dst -> is_dir fs = true -> rdir fs (comps_of dst) ->
  unpack is_root allow fs dst es = (fs', r) ->
  exists d, fs' = put fs (comps_of dst) d.
Proof.
  intros Hdst Hd Hb H. unfold unpack in H.
  assert (Hinv : inv (comps_of dst) fs) by (constructor; assumption).
  assert (Hd0 : dirs_ok (comps_of dst) fs []) by (intros p e []).
  destruct (unpack_entries is_root allow fs dst [] es) as [[fs1 dirs1] r1] eqn:Ee.
  set (Q := fun (_ : path) (_ : str) => True).
  destruct (unpack_entries_safe Q is_root allow dst Hdst (fun _ => True) (fun _ _ _ _ _ => I) es fs [] fs1 dirs1 r1
              (fun _ _ _ => I) Hinv Hd0 Ee) as (S1 & I1 & D1).
  destruct r1 as [r1|].
  - injection H as <- <-. now destruct (steps_put Q dst fs fs1 S1 Hb) as [_ ?].
  - pose proof (restore_dirs_safe Q dst dirs1 fs1 fs' r I1 D1 H) as S2.
    now destruct (steps_put Q dst fs fs' (steps_trans Q _ _ _ _ S1 S2) Hb) as [_ ?].
Qed.

(* a prefix of the entry list is a run interrupted by a reader fault: same guarantee *)
Corollary unpack_prefix_outside_unchanged is_root allow fs dst es k fs' r :
  dst_ok dst -> is_dir fs = true -> rdir fs (comps_of dst) ->
  unpack is_root allow fs dst (firstn k es) = (fs', r) ->
  exists d, fs' = put fs (comps_of dst) d.
Proof. apply unpack_outside_unchanged. Qed.
