(* Properties of the Pack model: metadata accounting (C20), content and link
   containment without dereferencing (C05). *)
From Slug Require Import Base.Str Base.PathAlg FS.FS FS.FSProofs Ignore.Rules Slug.Unpack Slug.Pack.

(* ====================================================================== *)
(* C20: the metadata describes the entries                                 *)
(* ====================================================================== *)
Definition body_len (e : pentry) : N :=
  if N.eqb (pe_type e) ty_reg then N.of_nat (length (pe_body e)) else 0%N.
Definition sum_sizes (es : list pentry) : N := fold_right (fun e s => (body_len e + s)%N) 0%N es.

Definition acc_ok (a : acc) : Prop :=
  let '(es, files, size) := a in files = map pe_name es /\ size = sum_sizes es.

Lemma emit_ok a e : acc_ok a -> acc_ok (emit a e).
Proof.
  destruct a as [[es files] size]. unfold acc_ok, emit. intros [-> ->]. split; [reflexivity|].
  cbn [sum_sizes fold_right]. fold (sum_sizes es). unfold body_len.
  destruct (N.eqb (pe_type e) ty_reg); lia.
Qed.

Definition not_ok (r : packres) : Prop := match r with PackOk _ _ _ => False | _ => True end.

Section W.
Variable fs : node.
Variable opts : popts.
Variable rules : option (list rule).
Variable root : list str.

(* a generic invariant of the accumulator that every emit preserves is
   preserved by the whole walk *)
Variable P : acc -> Prop.
Variable Q : pentry -> Prop.     (* what is known about every emitted entry *)
Hypothesis P_emit : forall a e, P a -> Q e -> P (emit a e).

(* the facts about emitted entries that hold in every walk *)
Definition emitted_ok (deref : bool) (top : node) : Prop := True.

Lemma pack_node_acc : forall fuel src dst chain p n a,
  (forall e, Q e) ->
  P a ->
  match pack_node fs opts rules root fuel src dst chain p n a with
  | inl a' => P a'
  | inr r => not_ok r
  end.
Proof.
  induction fuel as [|fuel IH]; intros src dst chain p n a HQ Ha; [exact I|].
  cbn [pack_node].
  (* the fold over the children *)
  assert (Hkids : forall ks names a0, P a0 ->
    match fold_left (fun (r : acc + packres) name =>
             match r with
             | inr e => inr e
             | inl a1 => match kid name ks with
                         | Some c => pack_node fs opts rules root fuel src dst chain (p ++ [name]) c a1
                         | None => inl a1
                         end
             end) names (inl a0) with
    | inl a' => P a' | inr r => not_ok r end).
  { intros ks names. induction names as [|nm names IHn]; intros a0 Ha0; [exact Ha0|].
    cbn [fold_left]. destruct (kid nm ks) as [c|]; [|now apply IHn].
    pose proof (IH src dst chain (p ++ [nm]) c a0 HQ Ha0) as Hc.
    destruct (pack_node fs opts rules root fuel src dst chain (p ++ [nm]) c a0) as [a1|e]; [now apply IHn|].
    clear IHn. induction names as [|x names IHx]; cbn [fold_left]; [exact Hc|exact IHx]. }
  assert (Hwk : forall a0, P a0 ->
    match (match n with
           | Dir _ _ ks => fold_left (fun (r : acc + packres) name =>
               match r with
               | inr e => inr e
               | inl a1 => match kid name ks with
                           | Some c => pack_node fs opts rules root fuel src dst chain (p ++ [name]) c a1
                           | None => inl a1
                           end
               end) (readdir n) (inl a0)
           | _ => inl a0 end) with inl a' => P a' | inr r => not_ok r end).
  { intros a0 Ha0. destruct n as [| pm mt ks | |]; try exact Ha0. now apply Hkids. }
  destruct (match strip_prefix src p with Some s => s | None => [] end) as [|s0 sub1]; [now apply Hwk|].
  destruct (fst (excl rules (join_rel (s0 :: sub1)))); [now apply Hwk|].
  destruct (if is_dir n then excl rules (join_rel (s0 :: sub1) ++ [slash]) else (false, false)) as [e2 d2].
  destruct e2; [destruct d2; [exact Ha|now apply Hwk]|].
  destruct n as [d pm mt | pm mt ks | t | k].
  - apply P_emit; auto.
  - apply (Hwk (emit a _)). apply P_emit; auto.
  - destruct (valid_symlink _ _ _ _); [apply P_emit; auto|].
    destruct (negb (o_deref opts)); [exact I|].
    destruct (resolve_external max_links fs p) as [[abs r]|]; [|exact I].
    destruct r as [d pm mt | pm mt ks | t' | k]; try exact Ha.
    + apply P_emit; auto.
    + destruct (existsb (str_eqb abs) chain); [exact I|]. now apply IH.
  - exact Ha.
Qed.
End W.

Lemma sum_sizes_app a b : sum_sizes (a ++ b) = (sum_sizes a + sum_sizes b)%N.
Proof.
  induction a as [|e a IH]; [reflexivity|].
  change (sum_sizes ((e :: a) ++ b)) with (body_len e + sum_sizes (a ++ b))%N.
  change (sum_sizes (e :: a)) with (body_len e + sum_sizes a)%N. rewrite IH. lia.
Qed.

Lemma sum_sizes_rev es : sum_sizes (rev es) = sum_sizes es.
Proof.
  induction es as [|e es IH]; [reflexivity|]. cbn [rev]. rewrite sum_sizes_app, IH.
  change (sum_sizes [e]) with (body_len e + 0)%N.
  change (sum_sizes (e :: es)) with (body_len e + sum_sizes es)%N. lia.
Qed.

(* For every tree, option set, working directory, spelling and flag state: the
   file list Pack returns is the list of entry names in order, and the size is
   the number of content bytes stored for regular files (= sum of header sizes). *)
Theorem pack_meta fuel fs opts flags cwd src es files size fl :
  pack fuel fs opts flags cwd src = (PackOk es files size, fl) ->
  files = map pe_name es /\ size = sum_sizes es.
Proof.
  unfold pack.
  destruct (walk max_links fs false (start_of cwd src) (split_on slash src)) as [ph|]; [|discriminate].
  destruct (get fs ph) as [n0|]; [|discriminate].
  match goal with |- context [let '(r, f) := ?X in _] => destruct X as [rules flags'] end.
  set (abs := if is_rooted _ then _ else _).
  destruct (lstat fs (comps_of abs)) as [rn|]; [|discriminate].
  pose proof (pack_node_acc fs opts rules (comps_of abs) acc_ok (fun _ => True)
                (fun a e Ha _ => emit_ok a e Ha) fuel (comps_of abs) (comps_of abs) [abs] (comps_of abs) rn
                ([], [], 0%N) (fun _ => I) (conj eq_refl eq_refl)) as H.
  destruct (pack_node fs opts rules (comps_of abs) fuel (comps_of abs) (comps_of abs) [abs] (comps_of abs) rn ([], [], 0%N))
    as [[[es0 files0] size0]|e]; [|intros [= -> _]; contradiction].
  cbn in H. destruct H as [-> ->]. intros [= <- <- <- _].
  split; [now rewrite map_rev|now rewrite sum_sizes_rev].
Qed.

(* ====================================================================== *)
(* C05: without dereferencing, content comes from inside; links are valid  *)
(* ====================================================================== *)
Section NoDeref.
Variable fs : node.
Variable opts : popts.
Variable rules : option (list rule).
Variable root : list str.
Variable top : node.                 (* the node the source directory resolves to *)
Hypothesis Hnd : o_deref opts = false.

Definition good (e : pentry) : Prop :=
  (pe_type e = ty_reg -> exists rel pm mt, get top rel = Some (File (pe_body e) pm mt)) /\
  (pe_type e = ty_sym -> exists p, valid_symlink (o_allow opts) (join_abs root) (join_abs p) (pe_link e) = true).

Definition all_good (a : acc) : Prop := forall e, In e (fst (fst a)) -> good e.

Lemma emit_good a e : all_good a -> good e -> all_good (emit a e).
Proof.
  destruct a as [[es files] size]. unfold all_good, emit. cbn [fst]. intros H He x [<-|Hx]; auto.
Qed.

Lemma pack_node_good : forall fuel src dst chain p relp n a,
  get top relp = Some n -> all_good a ->
  match pack_node fs opts rules root fuel src dst chain p n a with
  | inl a' => all_good a'
  | inr _ => True
  end.
Proof.
  induction fuel as [|fuel IH]; intros src dst chain p relp n a Hg Ha; [exact I|].
  cbn [pack_node].
  assert (Hkids : forall pm mt ks names a0, n = Dir pm mt ks -> all_good a0 ->
    match fold_left (fun (r : acc + packres) name =>
             match r with
             | inr e => inr e
             | inl a1 => match kid name ks with
                         | Some c => pack_node fs opts rules root fuel src dst chain (p ++ [name]) c a1
                         | None => inl a1
                         end
             end) names (inl a0) with
    | inl a' => all_good a' | inr _ => True end).
  { intros pm mt ks names. induction names as [|nm names IHn]; intros a0 H0 Ha0; [exact Ha0|].
    cbn [fold_left]. destruct (kid nm ks) as [c|] eqn:Ek; [|now apply IHn].
    assert (Hgc : get top (relp ++ [nm]) = Some c).
    { rewrite get_app, Hg, H0. cbn. now rewrite Ek. }
    pose proof (IH src dst chain (p ++ [nm]) (relp ++ [nm]) c a0 Hgc Ha0) as Hc.
    destruct (pack_node fs opts rules root fuel src dst chain (p ++ [nm]) c a0) as [a1|e]; [now apply IHn|].
    clear. induction names as [|x names IHx]; cbn [fold_left]; [exact I|exact IHx]. }
  assert (Hwk : forall a0, all_good a0 ->
    match (match n with
           | Dir _ _ ks => fold_left (fun (r : acc + packres) name =>
               match r with
               | inr e => inr e
               | inl a1 => match kid name ks with
                           | Some c => pack_node fs opts rules root fuel src dst chain (p ++ [name]) c a1
                           | None => inl a1
                           end
               end) (readdir n) (inl a0)
           | _ => inl a0 end) with inl a' => all_good a' | inr _ => True end).
  { intros a0 Ha0. destruct n as [| pm mt ks | |] eqn:En; try exact Ha0. now apply (Hkids pm mt ks). }
  destruct (match strip_prefix src p with Some s => s | None => [] end) as [|s0 sub1]; [now apply Hwk|].
  destruct (fst (excl rules (join_rel (s0 :: sub1)))); [now apply Hwk|].
  destruct (if is_dir n then excl rules (join_rel (s0 :: sub1) ++ [slash]) else (false, false)) as [e2 d2].
  destruct e2; [destruct d2; [exact Ha|now apply Hwk]|].
  destruct n as [d pm mt | pm mt ks | t | k].
  - apply emit_good; [exact Ha|]. split; cbn; [intros _; eauto|discriminate].
  - apply (Hwk (emit a _)). apply emit_good; [exact Ha|]. split; cbn; discriminate.
  - destruct (valid_symlink _ _ _ _) eqn:Ev.
    + apply emit_good; [exact Ha|]. split; cbn; [discriminate|intros _; eauto].
    + rewrite Hnd. exact I.
  - exact Ha.
Qed.
End NoDeref.

(* ---------- with or without dereferencing ---------- *)
Lemma resolve_external_lstat fs : forall hops p abs r,
  resolve_external hops fs p = Some (abs, r) -> lstat fs (comps_of abs) = Ok r /\ is_link r = false.
Proof.
  induction hops as [|h IH]; intros p abs r H; [discriminate|]. cbn [resolve_external] in H.
  destruct (lstat fs p) as [n|]; [|discriminate]. destruct n as [| | t |]; try discriminate.
  set (abs0 := if is_rooted t then clean t else fjoin (join_abs (removelast p)) t) in *.
  destruct (lstat fs (comps_of abs0)) as [n1|] eqn:E; [|discriminate].
  destruct n1 as [d pm mt | pm mt ks | t1 | k]; try (injection H as <- <-; split; [exact E|reflexivity]).
  now apply IH in H.
Qed.

Section AnyDeref.
Variable fs : node.
Variable opts : popts.
Variable rules : option (list rule).
Variable root : list str.

Definition good2 (e : pentry) : Prop :=
  (pe_type e = ty_reg -> exists ap top' rel pm mt, lstat fs ap = Ok top' /\ get top' rel = Some (File (pe_body e) pm mt)) /\
  (pe_type e = ty_sym -> exists p, valid_symlink (o_allow opts) (join_abs root) (join_abs p) (pe_link e) = true).

Definition all_good2 (a : acc) : Prop := forall e, In e (fst (fst a)) -> good2 e.

Lemma emit_good2 a e : all_good2 a -> good2 e -> all_good2 (emit a e).
Proof.
  destruct a as [[es files] size]. unfold all_good2, emit. cbn [fst]. intros H He x [<-|Hx]; auto.
Qed.

Lemma pack_node_good2 : forall fuel src dst chain p ap top' relp n a,
  lstat fs ap = Ok top' -> get top' relp = Some n -> all_good2 a ->
  match pack_node fs opts rules root fuel src dst chain p n a with
  | inl a' => all_good2 a'
  | inr _ => True
  end.
Proof.
  induction fuel as [|fuel IH]; intros src dst chain p ap top' relp n a Hl Hg Ha; [exact I|].
  cbn [pack_node].
  assert (Hkids : forall pm mt ks names a0, n = Dir pm mt ks -> all_good2 a0 ->
    match fold_left (fun (r : acc + packres) name =>
             match r with
             | inr e => inr e
             | inl a1 => match kid name ks with
                         | Some c => pack_node fs opts rules root fuel src dst chain (p ++ [name]) c a1
                         | None => inl a1
                         end
             end) names (inl a0) with
    | inl a' => all_good2 a' | inr _ => True end).
  { intros pm mt ks names. induction names as [|nm names IHn]; intros a0 H0 Ha0; [exact Ha0|].
    cbn [fold_left]. destruct (kid nm ks) as [c|] eqn:Ek; [|now apply IHn].
    assert (Hgc : get top' (relp ++ [nm]) = Some c).
    { rewrite get_app, Hg, H0. cbn. now rewrite Ek. }
    pose proof (IH src dst chain (p ++ [nm]) ap top' (relp ++ [nm]) c a0 Hl Hgc Ha0) as Hc.
    destruct (pack_node fs opts rules root fuel src dst chain (p ++ [nm]) c a0) as [a1|e]; [now apply IHn|].
    clear. induction names as [|x names IHx]; cbn [fold_left]; [exact I|exact IHx]. }
  assert (Hwk : forall a0, all_good2 a0 ->
    match (match n with
           | Dir _ _ ks => fold_left (fun (r : acc + packres) name =>
               match r with
               | inr e => inr e
               | inl a1 => match kid name ks with
                           | Some c => pack_node fs opts rules root fuel src dst chain (p ++ [name]) c a1
                           | None => inl a1
                           end
               end) (readdir n) (inl a0)
           | _ => inl a0 end) with inl a' => all_good2 a' | inr _ => True end).
  { intros a0 Ha0. destruct n as [| pm mt ks | |] eqn:En; try exact Ha0. now apply (Hkids pm mt ks). }
  destruct (match strip_prefix src p with Some s => s | None => [] end) as [|s0 sub1]; [now apply Hwk|].
  destruct (fst (excl rules (join_rel (s0 :: sub1)))); [now apply Hwk|].
  destruct (if is_dir n then excl rules (join_rel (s0 :: sub1) ++ [slash]) else (false, false)) as [e2 d2].
  destruct e2; [destruct d2; [exact Ha|now apply Hwk]|].
  destruct n as [d pm mt | pm mt ks | t | k].
  - apply emit_good2; [exact Ha|]. split; cbn; [intros _; exists ap, top', relp, pm, mt; auto|discriminate].
  - apply (Hwk (emit a _)). apply emit_good2; [exact Ha|]. split; cbn; discriminate.
  - destruct (valid_symlink _ _ _ _) eqn:Ev.
    + apply emit_good2; [exact Ha|]. split; cbn; [discriminate|intros _; eauto].
    + destruct (negb (o_deref opts)); [exact I|].
      destruct (resolve_external max_links fs p) as [[abs r]|] eqn:Er; [|exact I].
      destruct (resolve_external_lstat fs _ _ _ _ Er) as [Hlr _].
      destruct r as [d pm mt | pm mt ks | t1 | k]; try exact Ha.
      * apply emit_good2; [exact Ha|]. split; cbn; [intros _; exists (comps_of abs), (File d pm mt), [], pm, mt; auto|discriminate].
      * destruct (existsb (str_eqb abs) chain); [exact I|].
        apply (IH (comps_of abs) (dst ++ s0 :: sub1) (chain ++ [abs]) (comps_of abs) (comps_of abs) (Dir pm mt ks) [] (Dir pm mt ks) a Hlr eq_refl Ha).
  - exact Ha.
Qed.
End AnyDeref.

Lemma pack_node_err_not_ok fs opts rules root fuel src dst chain p n a r :
  pack_node fs opts rules root fuel src dst chain p n a = inr r -> not_ok r.
Proof.
  intros H. pose proof (pack_node_acc fs opts rules root (fun _ => True) (fun _ => True)
    (fun _ _ _ _ => I) fuel src dst chain p n a (fun _ => I) I) as Hn. now rewrite H in Hn.
Qed.

(* Without dereferencing, every regular-file entry of a slug carries the
   content of a regular file inside the source directory, and every link entry
   passed the containment decision (lexically inside the root at its position,
   or allow-listed) - otherwise Pack fails with an illegal-slug result. *)
Theorem pack_no_leak fuel fs opts flags cwd src es files size fl :
  o_deref opts = false ->
  pack fuel fs opts flags cwd src = (PackOk es files size, fl) ->
  exists root top, lstat fs root = Ok top /\
    forall e, In e es ->
      (pe_type e = ty_reg -> exists rel pm mt, get top rel = Some (File (pe_body e) pm mt)) /\
      (pe_type e = ty_sym -> exists p, valid_symlink (o_allow opts) (join_abs root) (join_abs p) (pe_link e) = true).
Proof.
  intros Hnd. unfold pack.
  destruct (walk max_links fs false (start_of cwd src) (split_on slash src)) as [ph|]; [|discriminate].
  destruct (get fs ph) as [n0|]; [|discriminate].
  match goal with |- context [let '(r, f) := ?X in _] => destruct X as [rules flags'] end.
  set (abs := if is_rooted _ then _ else _).
  destruct (lstat fs (comps_of abs)) as [rn|] eqn:El; [|discriminate].
  pose proof (pack_node_good fs opts rules (comps_of abs) rn Hnd fuel (comps_of abs) (comps_of abs) [abs] (comps_of abs) [] rn
                ([], [], 0%N) eq_refl (fun e (H : In e []) => match H with end)) as H.
  destruct (pack_node fs opts rules (comps_of abs) fuel (comps_of abs) (comps_of abs) [abs] (comps_of abs) rn ([], [], 0%N))
    as [[[es0 files0] size0]|e] eqn:Ep; [|intros [= -> _]; now apply pack_node_err_not_ok in Ep].
  intros [= <- <- <- _]. exists (comps_of abs), rn. split; [exact El|].
  intros e He. apply H. cbn. now apply in_rev.
Qed.

(* With or without dereferencing: every regular-file entry carries the content of a regular file
   that exists in the file system (at or below something Lstat reaches: the source directory, or
   the end of an external link's chain), and every entry stored as a link passed the containment
   decision against the source directory (lexically inside, or allow-listed): an out-of-tree link
   is never stored as a link unless its target is allow-listed. *)
Theorem pack_entries_accounted fuel fs opts flags cwd src es files size fl :
  pack fuel fs opts flags cwd src = (PackOk es files size, fl) ->
  exists root,
    forall e, In e es ->
      (pe_type e = ty_reg -> exists ap top' rel pm mt, lstat fs ap = Ok top' /\ get top' rel = Some (File (pe_body e) pm mt)) /\
      (pe_type e = ty_sym -> exists p, valid_symlink (o_allow opts) (join_abs root) (join_abs p) (pe_link e) = true).
Proof.
  unfold pack.
  destruct (walk max_links fs false (start_of cwd src) (split_on slash src)) as [ph|]; [|discriminate].
  destruct (get fs ph) as [n0|]; [|discriminate].
  match goal with |- context [let '(r, f) := ?X in _] => destruct X as [rules flags'] end.
  set (abs := if is_rooted _ then _ else _).
  destruct (lstat fs (comps_of abs)) as [rn|] eqn:El; [|discriminate].
  pose proof (pack_node_good2 fs opts rules (comps_of abs) fuel (comps_of abs) (comps_of abs) [abs] (comps_of abs) (comps_of abs) rn [] rn
                ([], [], 0%N) El eq_refl (fun e (H : In e []) => match H with end)) as H.
  destruct (pack_node fs opts rules (comps_of abs) fuel (comps_of abs) (comps_of abs) [abs] (comps_of abs) rn ([], [], 0%N))
    as [[[es0 files0] size0]|e] eqn:Ep; [|intros [= -> _]; now apply pack_node_err_not_ok in Ep].
  intros [= <- <- <- _]. exists (comps_of abs).
  intros e He. apply H. cbn. now apply in_rev.
Qed.
