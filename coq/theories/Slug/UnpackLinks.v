(* C04, the positive half on the model of Unpack: for every archive whose link
   targets never have ".." after a name, following any link left below the
   destination - the way the kernel follows it, through any other links -
   ends inside the destination.  (With ".." after a name the statement is
   false: KF-C04-1.) *)
From Slug Require Import Base.Str Base.PathAlg Base.PathLemmas Base.Rooted FS.FS FS.FSProofs FS.Confined
  Slug.Unpack Slug.UnpackSafe Slug.RoundTrip.
From Coq Require Import Lia Relations.

(* ---------- what validSymlink (no allow list) says, as a lexical position ---------- *)
Lemma valid_symlink_lexpos dst lp t :
  dst_ok dst -> lp <> [] -> forallb seg_ok lp = true ->
  valid_symlink [] dst (join_abs lp) t = true ->
  exists rel, lexpos (if is_rooted t then [] else removelast lp) (split_on slash t) = comps_of dst ++ rel.
Proof.
  intros [Hr Hc] Hne Hs Hv. unfold valid_symlink in Hv. rewrite Hc in Hv.
  replace (is_rooted (join_abs lp)) with true in Hv by reflexivity.
  cbn [existsb] in Hv. rewrite orb_false_r in Hv.
  unfold within, rel_inside in Hv.
  assert (Hpar : forallb seg_ok (removelast lp) = true).
  { destruct (exists_last Hne) as (pre & x & ->). rewrite removelast_last.
    rewrite forallb_app in Hs. now apply andb_true_iff in Hs. }
  destruct (is_rooted t) eqn:Et.
  - (* an absolute target *)
    destruct (strip_prefix (comps_of dst) (comps_of (clean t))) as [rel|] eqn:Es; [|discriminate].
    apply strip_prefix_app in Es. exists rel. rewrite <- Es.
    rewrite comps_of_clean, (rcomps_rooted t Et). unfold lexpos, rstack. reflexivity.
  - unfold dir_of in Hv. rewrite (proj2 (clean_join_abs lp Hs)) in Hv.
    change (fjoin (join_abs (removelast lp)) t) with (clean (join_abs (removelast lp) ++ slash :: t)) in Hv.
    destruct (strip_prefix (comps_of dst) (comps_of (clean (join_abs (removelast lp) ++ slash :: t)))) as [rel|] eqn:Es; [|discriminate].
    apply strip_prefix_app in Es. exists rel. rewrite <- Es.
    rewrite comps_of_clean, rcomps_rooted by reflexivity.
    rewrite rstack_app, (rstack_join_abs _ Hpar). reflexivity.
Qed.

(* ---------- the links a run of Unpack can leave ---------- *)
Section Links.
Variable dst : str.
Hypothesis Hdst : dst_ok dst.
Let D := comps_of dst.
Variable T : str -> Prop.

(* what is recorded of a link written at lp *)
Definition Qlink (lp : path) (t : str) : Prop :=
  forallb seg_ok lp = true /\ valid_symlink [] dst (join_abs lp) t = true /\ T t.

Lemma steps_links fs fs' :
  steps Qlink D fs fs' ->
  forall p t, get fs' p = Some (Link t) -> get fs p = Some (Link t) \/ Qlink p t.
Proof.
  intros H. induction H as [a b [rel W]| a | a b c H1 IH1 H2 IH2]; intros p t Hg.
  - destruct W as [->|(v & -> & Hr & Hc & Hq)]; [now left|].
    destruct (links_put p a (D ++ rel) v t (or_introl Hr) Hc Hg) as [H|[-> ->]]; [now left|right; now apply Hq].
  - now left.
  - destruct (IH2 p t Hg) as [Hb|Hq]; [|now right]. exact (IH1 p t Hb).
Qed.

Theorem unpack_links is_root fs es fs' r :
  is_dir fs = true -> rdir fs D ->
  (forall e, In e es -> is_sym e = true -> T (e_link e)) ->
  unpack is_root [] fs dst es = (fs', r) ->
  rdir fs' D /\
  forall p t, get fs' p = Some (Link t) -> get fs p = Some (Link t) \/ Qlink p t.
Proof.
  intros Hd Hb HT H. unfold unpack in H.
  assert (Hinv : inv D fs) by (constructor; assumption).
  assert (Hd0 : dirs_ok D fs []) by (intros p e []).
  destruct (unpack_entries is_root [] fs dst [] es) as [[fs1 dirs1] r1] eqn:Ee.
  destruct (unpack_entries_safe Qlink is_root [] dst Hdst T (fun lp t A B C => conj A (conj B C)) es fs [] fs1 dirs1 r1
              HT Hinv Hd0 Ee) as (S1 & I1 & D1).
  destruct r1 as [r1|].
  - injection H as <- <-. split; [exact (i_base _ _ I1)|]. now apply steps_links.
  - pose proof (restore_dirs_safe Qlink dst dirs1 fs1 fs' r I1 D1 H) as S2.
    pose proof (steps_trans Qlink _ _ _ _ S1 S2) as S3.
    split; [|now apply steps_links].
    now destruct (steps_put Qlink dst fs fs' S3 Hb) as [? _].
Qed.
End Links.

(* ====================================================================== *)
(* C04 on the model                                                        *)
(* ====================================================================== *)
Definition target_updown (t : str) : Prop := updown (split_on slash t) = true.

Theorem unpack_links_resolve_inside is_root fs dst es fs' r :
  dst_ok dst -> is_dir fs = true -> rdir fs (comps_of dst) ->
  (* the links already below dst, if any, are of the same kind *)
  confined fs (comps_of dst) ->
  (forall e, In e es -> is_sym e = true -> target_updown (e_link e)) ->
  unpack is_root [] fs dst es = (fs', r) ->
  forall fl l ph, no_dd l = true ->
    resolve fs' fl (comps_of dst ++ l) = Ok ph -> exists rel, ph = comps_of dst ++ rel.
Proof.
  intros Hdst Hd Hb Hconf HT H fl l ph Hl Hr. set (D := comps_of dst) in *.
  destruct (unpack_links dst Hdst target_updown is_root fs es fs' r Hd Hb HT H) as [Hb' Hlinks].
  assert (HpD : forallb plainb D = true).
  { apply seg_ok_plainb. now apply dst_comps_ok. }
  eapply (resolve_confined fs' D); [|exact Hb'|exact HpD|exact Hl|exact Hr].
  intros q t Hg. destruct (Hlinks _ _ Hg) as [Hold|(Hs & Hv & Hu)]; [now apply Hconf|].
  split; [exact Hu|].
  assert (Hq : q <> []).
  { intros ->. rewrite app_nil_r in Hg. destruct (rdir_get fs' D Hb') as (a & b & c & Hg'). congruence. }
  assert (Hne : D ++ q <> []) by (destruct D; [exact Hq|discriminate]).
  destruct (valid_symlink_lexpos dst (D ++ q) t Hdst Hne Hs Hv) as (rel & E).
  rewrite removelast_app in E by exact Hq. exists rel. exact E.
Qed.
