(* C02 on the model: packing a tree of regular files and directories and
   unpacking the result into an empty directory reproduces the tree (contents,
   permissions, times rounded to the second), for every such tree.
   Part 1: what each file-system primitive does at a fresh or existing path
   whose parents are real directories. *)
From Slug Require Import Base.Str Base.PathAlg Base.PathLemmas Base.Rooted FS.FS FS.FSProofs Slug.Unpack Slug.UnpackSafe.
From Coq Require Import Lia.

Section Prims.
Variable fs : node.
Variable lp : path.
Variable x : str.
Hypothesis Hroot : is_dir fs = true.
Hypothesis Hr : rdir fs lp.
Hypothesis Hp : forallb plainb lp = true.
Hypothesis Hx : plain x = true.

Lemma resolve_fresh fl : get fs (lp ++ [x]) = None -> resolve fs fl (lp ++ [x]) = Ok (lp ++ [x]).
Proof. intros Hg. apply resolve_real; auto. right. now rewrite Hg. Qed.

Lemma resolve_nonlink fl n : get fs (lp ++ [x]) = Some n -> is_link n = false -> resolve fs fl (lp ++ [x]) = Ok (lp ++ [x]).
Proof. intros Hg Hl. apply resolve_real; auto. right. now rewrite Hg. Qed.

Lemma stat_fresh : get fs (lp ++ [x]) = None -> stat fs (lp ++ [x]) = Err ENOENT.
Proof. intros Hg. unfold stat. now rewrite (resolve_fresh true Hg), Hg. Qed.

Lemma lstat_fresh : get fs (lp ++ [x]) = None -> lstat fs (lp ++ [x]) = Err ENOENT.
Proof. intros Hg. unfold lstat. now rewrite (resolve_fresh false Hg), Hg. Qed.

Lemma lstat_nonlink n : get fs (lp ++ [x]) = Some n -> is_link n = false -> lstat fs (lp ++ [x]) = Ok n.
Proof. intros Hg Hl. unfold lstat. now rewrite (resolve_nonlink false n Hg Hl), Hg. Qed.

Lemma mkdir_fresh perm : get fs (lp ++ [x]) = None ->
  mkdir fs (lp ++ [x]) perm = (put fs (lp ++ [x]) (Dir (umask_perm perm) None []), Ok tt).
Proof.
  intros Hg. unfold mkdir. rewrite (resolve_fresh false Hg), Hg.
  destruct (lp ++ [x]) eqn:E; [destruct lp; discriminate|]. reflexivity.
Qed.

Lemma create_write_fresh data : get fs (lp ++ [x]) = None ->
  create_write true fs (lp ++ [x]) data = (put fs (lp ++ [x]) (File data (umask_perm 438) None), Ok tt).
Proof.
  intros Hg. unfold create_write. rewrite (resolve_fresh true Hg), Hg.
  destruct (lp ++ [x]) eqn:E; [destruct lp; discriminate|]. reflexivity.
Qed.

Lemma symlink_fresh t : get fs (lp ++ [x]) = None -> t <> [] ->
  symlink fs t (lp ++ [x]) = (put fs (lp ++ [x]) (Link t), Ok tt).
Proof.
  intros Hg Ht. unfold symlink. rewrite (resolve_fresh false Hg), Hg.
  destruct (lp ++ [x]) eqn:E; [destruct lp; discriminate|]. destruct t; [congruence|reflexivity].
Qed.

Lemma chmod_file d pm mt perm : get fs (lp ++ [x]) = Some (File d pm mt) ->
  chmod fs (lp ++ [x]) perm = (put fs (lp ++ [x]) (File d perm mt), Ok tt).
Proof. intros Hg. unfold chmod. now rewrite (resolve_nonlink true _ Hg eq_refl), Hg. Qed.

Lemma chtimes_file d pm mt t : get fs (lp ++ [x]) = Some (File d pm mt) ->
  chtimes fs (lp ++ [x]) t = (put fs (lp ++ [x]) (File d pm (Some t)), Ok tt).
Proof. intros Hg. unfold chtimes. now rewrite (resolve_nonlink true _ Hg eq_refl), Hg. Qed.

Lemma chmod_dir pm mt ks perm : get fs (lp ++ [x]) = Some (Dir pm mt ks) ->
  chmod fs (lp ++ [x]) perm = (put fs (lp ++ [x]) (Dir perm mt ks), Ok tt).
Proof. intros Hg. unfold chmod. now rewrite (resolve_nonlink true _ Hg eq_refl), Hg. Qed.

Lemma chtimes_dir pm mt ks t : get fs (lp ++ [x]) = Some (Dir pm mt ks) ->
  chtimes fs (lp ++ [x]) t = (put fs (lp ++ [x]) (Dir pm (Some t) ks), Ok tt).
Proof. intros Hg. unfold chtimes. now rewrite (resolve_nonlink true _ Hg eq_refl), Hg. Qed.
End Prims.

(* os.MkdirAll on a path that is already a chain of real directories: nothing happens *)
Lemma mkdir_all_existing fs p perm :
  is_dir fs = true -> rdir fs p -> forallb plainb p = true -> mkdir_all fs p perm = (fs, Ok tt).
Proof.
  intros Hd Hr Hp. unfold mkdir_all.
  destruct (stat_real_dir fs p Hd Hr Hp) as (n & Hs & Hn).
  destruct (list_eq_dec str_eq_dec p []) as [->|Hne].
  - cbn [rev]. rewrite mkdir_all_r_nil, Hs, Hn. reflexivity.
  - destruct (plain_split p Hne) as (pre & y & ->). rewrite rev_app_distr. cbn [rev app].
    rewrite mkdir_all_r_cons. cbn zeta. cbn [rev]. rewrite rev_involutive, Hs, Hn. reflexivity.
Qed.

(* ... and on a fresh name below such a chain: exactly that directory is created *)
Lemma mkdir_all_fresh fs lp x perm :
  is_dir fs = true -> rdir fs lp -> forallb plainb lp = true -> plain x = true -> get fs (lp ++ [x]) = None ->
  mkdir_all fs (lp ++ [x]) perm = (put fs (lp ++ [x]) (Dir (umask_perm perm) None []), Ok tt).
Proof.
  intros Hd Hr Hp Hx Hg. unfold mkdir_all. rewrite rev_app_distr. cbn [rev app].
  rewrite mkdir_all_r_cons. cbn zeta. cbn [rev]. rewrite rev_involutive.
  rewrite (stat_fresh fs lp x Hr Hp Hx Hg).
  pose proof (mkdir_all_existing fs lp perm Hd Hr Hp) as He. unfold mkdir_all in He. rewrite He.
  rewrite (mkdir_fresh fs lp x Hr Hp Hx perm Hg). reflexivity.
Qed.

(* ---------- Part 2: the destination directory as a tree of its own ---------- *)
Lemma rdir_put_under : forall p n v q,
  (rdir n (removelast p) \/ p = []) -> rdir v q -> rdir (put n p v) (p ++ q).
Proof.
  induction p as [|x r IH]; intros n v q H Hq; [exact Hq|].
  destruct H as [H|H]; [|discriminate].
  destruct n as [| pm mt ks | |]; try (destruct r; cbn in H; contradiction).
  rewrite put_cons. cbn [app rdir]. rewrite kid_set_kid_same.
  destruct r as [|y r'].
  - destruct (kid x ks); exact Hq.
  - change (removelast (x :: y :: r')) with (x :: removelast (y :: r')) in H. cbn in H.
    destruct (kid x ks) as [c|]; [|contradiction]. apply IH; [now left|exact Hq].
Qed.

Lemma rdir_dir_nil v : is_dir v = true -> rdir v [].
Proof. destruct v; try discriminate. intros _. exact I. Qed.

(* adding a fresh child to a directory node, replacing an existing one *)
Lemma kid_app_fresh x (ks : list (str * node)) k v : kid x (ks ++ [(k, v)]) = match kid x ks with Some c => Some c | None => if str_eqb k x then Some v else None end.
Proof.
  induction ks as [|[k0 c0] ks IH]; cbn; [reflexivity|]. destruct (str_eqb k0 x); [reflexivity|exact IH].
Qed.

Lemma set_kid_fresh x f (ks : list (str * node)) v : kid x ks = None -> f None = Some v -> set_kid x f ks = ks ++ [(x, v)].
Proof.
  intros Hk Hf. induction ks as [|[k c] ks IH]; cbn in *; [now rewrite Hf|].
  destruct (str_eqb k x); [discriminate|]. f_equal. exact (IH Hk).
Qed.

Lemma put_child_fresh pm mt ks k v : kid k ks = None -> put (Dir pm mt ks) [k] v = Dir pm None (ks ++ [(k, v)]).
Proof.
  intros Hk. rewrite put_cons, Hk. f_equal. apply set_kid_fresh; [exact Hk|reflexivity].
Qed.

Lemma set_kid_replace x f k1 c k2 v :
  kid x k1 = None -> f (Some c) = Some v -> set_kid x f (k1 ++ (x, c) :: k2) = k1 ++ (x, v) :: k2.
Proof.
  intros Hk Hf. induction k1 as [|[k0 c0] k1 IH]; cbn in *.
  - now rewrite str_eqb_refl, Hf.
  - destruct (str_eqb k0 x); [discriminate|]. f_equal. exact (IH Hk).
Qed.

Lemma kid_middle x (k1 : list (str * node)) c k2 : kid x k1 = None -> kid x (k1 ++ (x, c) :: k2) = Some c.
Proof.
  intros Hk. induction k1 as [|[k0 c0] k1 IH]; cbn in *; [now rewrite str_eqb_refl|].
  destruct (str_eqb k0 x); [discriminate|exact (IH Hk)].
Qed.

Lemma put_child_replace pm mt k1 k c k2 v :
  kid k k1 = None -> put (Dir pm mt (k1 ++ (k, c) :: k2)) [k] v = Dir pm mt (k1 ++ (k, v) :: k2).
Proof.
  intros Hk. rewrite put_cons, (kid_middle k k1 c k2 Hk). f_equal.
  apply (set_kid_replace k _ k1 c k2 v Hk). reflexivity.
Qed.

(* the file system is fs0 with the node X put at the destination's path D *)
Section Dest.
Variable fs0 : node.
Variable D : path.
Hypothesis Hroot0 : is_dir fs0 = true.
Hypothesis HD : rdir fs0 D.
Hypothesis HDp : forallb plainb D = true.

Definition at_dst (X : node) : node := put fs0 D X.

Lemma rdir_parent_D : rdir fs0 (removelast D) \/ D = [].
Proof. left. now apply rdir_removelast. Qed.

Lemma get_at_dst X q : get (at_dst X) (D ++ q) = get X q.
Proof. unfold at_dst. apply get_put_under. apply rdir_parent_D. Qed.

Lemma at_dst_root X : is_dir X = true -> is_dir (at_dst X) = true.
Proof.
  intros HX. unfold at_dst. destruct D as [|d0 dr]; [exact HX|]. now apply put_keeps_root.
Qed.

Lemma get_fs0_D : exists pm mt ks, get fs0 D = Some (Dir pm mt ks).
Proof. now apply rdir_get. Qed.

Lemma put_at_dst X q v : put (at_dst X) (D ++ q) v = at_dst (put X q v).
Proof.
  unfold at_dst. rewrite (put_app _ D q v X).
  - apply put_put_same. destruct get_fs0_D as (pm & mt & ks & Hg). now rewrite Hg.
  - apply get_put_same, rdir_parent_D.
Qed.

Lemma rdir_at_dst X q : rdir X q -> rdir (at_dst X) (D ++ q).
Proof. intros Hq. unfold at_dst. apply rdir_put_under; [apply rdir_parent_D|exact Hq]. Qed.
End Dest.

(* ---------- Part 3: entry names and the paths they denote ---------- *)
Definition entry_name (rel : list str) (is_dir_entry : bool) : str :=
  join_with slash rel ++ (if is_dir_entry then [slash] else []).

Lemma comps_of_clean X : comps_of (clean X) = rcomps X.
Proof. reflexivity. Qed.

Lemma dst_comps dst : dst_ok dst -> comps_of dst = rev (rstack dst).
Proof. intros [Hr Hc]. rewrite <- Hc at 1. rewrite comps_of_clean. now apply rcomps_rooted. Qed.

Lemma fjoin_comps dst rel tr :
  dst_ok dst -> rel <> [] -> forallb seg_ok rel = true ->
  comps_of (fjoin dst (entry_name rel tr)) = comps_of dst ++ rel.
Proof.
  intros Hd Hne Hs. pose proof Hd as [Hr Hc]. unfold fjoin, join2.
  destruct dst as [|c d]; [discriminate|].
  assert (Hn : entry_name rel tr <> []).
  { unfold entry_name. destruct rel as [|g rel']; [congruence|].
    cbn in Hs. apply andb_true_iff in Hs as [Hg _]. pose proof (plain_not_empty _ (seg_ok_plain _ Hg)).
    destruct g; [congruence|]. destruct rel'; discriminate. }
  destruct (entry_name rel tr) as [|n0 nr] eqn:En; [congruence|]. rewrite <- En.
  rewrite comps_of_clean, rcomps_rooted by exact Hr.
  rewrite (dst_comps _ Hd). rewrite <- rev_involutive with (l := rel) at 2. rewrite <- rev_app_distr. f_equal.
  rewrite rstack_app. unfold entry_name.
  assert (Hns : forall g, In g rel -> ~ In slash g).
  { intros g Hg. apply seg_ok_no_slash. rewrite forallb_forall in Hs. now apply Hs. }
  destruct tr.
  - rewrite split_on_app. cbn [split_on]. rewrite (split_join slash rel Hne Hns), nrun_app.
    rewrite nrun_plain by now apply forallb_seg_ok_plain. reflexivity.
  - rewrite app_nil_r, (split_join slash rel Hne Hns).
    rewrite nrun_plain by now apply forallb_seg_ok_plain. reflexivity.
Qed.

Lemma strip_prefix_self pre l : Unpack.strip_prefix pre (pre ++ l) = Some l.
Proof. induction pre as [|a pre IH]; [reflexivity|]. cbn. now rewrite str_eqb_refl. Qed.

Lemma seg_ok_plainb rel : forallb seg_ok rel = true -> forallb plainb rel = true.
Proof. apply forallb_seg_ok_plain. Qed.

(* the per-component Lstat walk passes when everything but the last component is a real directory
   and the last one does not exist yet *)
Lemma lstat_walk_fresh fs : forall pre done x n,
  is_dir fs = true -> rdir fs (done ++ pre) -> forallb plainb (done ++ pre) = true -> plain x = true ->
  get fs (done ++ pre ++ [x]) = None ->
  lstat_walk fs done (pre ++ [x]) n = CkOk.
Proof.
  induction pre as [|y pre IH]; intros done x n Hd Hr Hp Hx Hg; destruct n as [|n]; try reflexivity.
  - cbn [app lstat_walk]. rewrite app_nil_r in Hr, Hp.
    now rewrite (lstat_fresh fs done x Hr Hp Hx Hg).
  - cbn [app lstat_walk].
    assert (Hry : rdir fs (done ++ [y])).
    { replace (done ++ y :: pre) with ((done ++ [y]) ++ pre) in Hr by (now rewrite <- app_assoc). eapply rdir_prefix; exact Hr. }
    destruct (rdir_get _ _ Hry) as (pm & mt & ks & Hgy).
    assert (Hpd : forallb plainb done = true /\ plain y = true).
    { rewrite forallb_app in Hp. apply andb_true_iff in Hp as [H1 H2]. cbn in H2. apply andb_true_iff in H2 as [H2 _]. auto. }
    rewrite (lstat_nonlink fs done y (rdir_prefix _ _ _ Hry) (proj1 Hpd) (proj2 Hpd) _ Hgy eq_refl). cbn [is_link].
    apply IH; auto.
    + now rewrite <- app_assoc.
    + now rewrite <- app_assoc.
    + now rewrite <- !app_assoc.
Qed.

(* for a link entry only the parents are walked *)
Lemma lstat_walk_parents fs : forall pre done x,
  is_dir fs = true -> rdir fs (done ++ pre) -> forallb plainb (done ++ pre) = true ->
  lstat_walk fs done (pre ++ [x]) (length pre) = CkOk.
Proof.
  induction pre as [|y pre IH]; intros done x Hd Hr Hp; [reflexivity|].
  cbn [app length lstat_walk].
  assert (Hry : rdir fs (done ++ [y])).
  { replace (done ++ y :: pre) with ((done ++ [y]) ++ pre) in Hr by (now rewrite <- app_assoc). eapply rdir_prefix; exact Hr. }
  destruct (rdir_get _ _ Hry) as (pm & mt & ks & Hgy).
  assert (Hpd : forallb plainb done = true /\ plain y = true).
  { rewrite forallb_app in Hp. apply andb_true_iff in Hp as [H1 H2]. cbn in H2. apply andb_true_iff in H2 as [H2 _]. auto. }
  rewrite (lstat_nonlink fs done y (rdir_prefix _ _ _ Hry) (proj1 Hpd) (proj2 Hpd) _ Hgy eq_refl). cbn [is_link].
  apply IH; auto; now rewrite <- app_assoc.
Qed.

(* ---------- Part 3b: links that stay inside ---------- *)
Lemma clean_join_abs R : forallb seg_ok R = true -> clean (join_abs R) = join_abs R /\ comps_of (join_abs R) = R.
Proof.
  intros Hs. unfold join_abs. split.
  - rewrite clean_rooted by reflexivity. f_equal. f_equal.
    unfold rstack. cbn [split_on]. rewrite Ascii.eqb_refl. cbn [nrun fold_left nstep is_empty orb].
    destruct R as [|g R']; [reflexivity|].
    rewrite split_join.
    + change (fold_left (nstep true) ?l ?s) with (nrun true s l).
      rewrite nrun_plain by now apply forallb_seg_ok_plain. cbn [snd]. now rewrite app_nil_r, rev_involutive.
    + discriminate.
    + intros x Hx. apply seg_ok_no_slash. rewrite forallb_forall in Hs. now apply Hs.
  - unfold comps_of. cbn [split_on]. rewrite Ascii.eqb_refl. cbn [filter is_empty negb].
    destruct R as [|g R']; [reflexivity|].
    rewrite split_join.
    + now apply filter_nonempty_ok.
    + discriminate.
    + intros x Hx. apply seg_ok_no_slash. rewrite forallb_forall in Hs. now apply Hs.
Qed.

Lemma rstack_join_abs R : forallb seg_ok R = true -> rstack (join_abs R) = rev R.
Proof.
  intros Hs. destruct (clean_join_abs R Hs) as [Hc Ho].
  pose proof (rcomps_rooted (join_abs R) eq_refl) as H. unfold rcomps in H. rewrite Hc in H.
  change (filter (fun g => negb (is_empty g)) (split_on slash (join_abs R))) with (comps_of (join_abs R)) in H.
  rewrite Ho in H. apply (f_equal (@rev str)) in H. rewrite rev_involutive in H. now symmetry.
Qed.

Lemma dst_comps_ok dst : dst_ok dst -> forallb seg_ok (comps_of dst) = true.
Proof. intros Hd. rewrite (dst_comps _ Hd), forallb_seg_ok_rev. exact (rstack_ok dst). Qed.

(* a relative link target that, read from the directory [pre] of the link, never climbs above the
   top of the tree: the normalisation machine started on the reversed directory never underflows *)
Definition link_stays (pre : list str) (t : str) : bool :=
  negb (is_rooted t) && negb (is_empty t) && Nat.eqb (fst (nrun false (0, rev pre) (split_on slash t))) 0.

(* such a link passes validSymlink whatever the root is: Pack's (the source directory) and
   Unpack's (the destination) alike *)
Lemma valid_symlink_stays allow root pre x t :
  dst_ok root -> forallb seg_ok (pre ++ [x]) = true -> link_stays pre t = true ->
  valid_symlink allow root (join_abs (comps_of root ++ pre ++ [x])) t = true.
Proof.
  intros Hd Hs Hl. pose proof Hd as [Hr Hc]. set (R := comps_of root).
  pose proof (dst_comps_ok root Hd) as HR. fold R in HR.
  unfold link_stays in Hl. rewrite !andb_true_iff, !negb_true_iff in Hl. destruct Hl as [[Hnr Hne] Hst]. apply Nat.eqb_eq in Hst.
  assert (Hall : forallb seg_ok (R ++ pre ++ [x]) = true) by (now rewrite forallb_app, HR, Hs).
  assert (Hpar : forallb seg_ok (R ++ pre) = true).
  { rewrite forallb_app in Hs |- *. apply andb_true_iff in Hs as [Hs _]. now rewrite HR, Hs. }
  unfold valid_symlink. rewrite Hc.
  replace (is_rooted (join_abs (R ++ pre ++ [x]))) with true by reflexivity.
  rewrite Hnr.
  unfold dir_of. rewrite (proj2 (clean_join_abs _ Hall)).
  replace (removelast (R ++ pre ++ [x])) with (R ++ pre) by (rewrite app_assoc; symmetry; apply removelast_snoc).
  apply orb_true_iff. left.
  unfold within, rel_inside. fold R.
  change (fjoin (join_abs (R ++ pre)) t) with (clean (join_abs (R ++ pre) ++ slash :: t)).
  rewrite comps_of_clean, rcomps_rooted by reflexivity.
  rewrite rstack_app, (rstack_join_abs _ Hpar), rev_app_distr.
  rewrite (nrun_base _ _ _ Hst). cbn [snd]. rewrite rev_app_distr, rev_involutive.
  now rewrite strip_prefix_self.
Qed.

Section Entries.
Variable dst : str.
Hypothesis Hdst : dst_ok dst.
Let D := comps_of dst.

Lemma D_plain : forallb plainb D = true.
Proof. unfold D. destruct Hdst as [Hr Hc]. rewrite <- Hc. now apply comps_of_clean_plain. Qed.

(* NewUnpackInfo on a fresh name below real directories *)
Lemma new_unpack_info_fresh fs pre x e tr :
  is_dir fs = true -> rdir fs (D ++ pre) -> forallb seg_ok (pre ++ [x]) = true ->
  get fs (D ++ pre ++ [x]) = None ->
  e_name e = entry_name (pre ++ [x]) tr -> is_sym e = false ->
  (is_dir_e e || is_reg e) = true ->
  new_unpack_info fs dst e = Some (D ++ pre ++ [x]).
Proof.
  intros Hd Hr Hs Hg Hn Hsym Hty. unfold new_unpack_info. rewrite Hn.
  assert (Hne : pre ++ [x] <> []) by (destruct pre; discriminate).
  assert (Hfirst : exists c r, entry_name (pre ++ [x]) tr = c :: r /\ Ascii.eqb c slash = false).
  { unfold entry_name. destruct (pre ++ [x]) as [|g rest] eqn:E; [congruence|].
    cbn in Hs. apply andb_true_iff in Hs as [Hg0 _].
    pose proof (plain_not_empty _ (seg_ok_plain _ Hg0)) as Hgn. pose proof (seg_ok_no_slash _ Hg0) as Hgs.
    destruct g as [|c g']; [congruence|]. exists c.
    assert (Hc : Ascii.eqb c slash = false).
    { destruct (Ascii.eqb_spec c slash) as [->|]; [exfalso; apply Hgs; now left|reflexivity]. }
    destruct rest as [|s1 rest'].
    - exists (g' ++ (if tr then [slash] else [])). split; [reflexivity|exact Hc].
    - exists ((g' ++ slash :: join_with slash (s1 :: rest')) ++ (if tr then [slash] else [])). split; [reflexivity|exact Hc]. }
  destruct Hfirst as (c & r & Hcr & Hc). rewrite Hcr, Hc. rewrite <- Hcr.
  unfold rel_inside. rewrite (fjoin_comps dst (pre ++ [x]) tr Hdst Hne Hs). fold D.
  rewrite strip_prefix_self.
  assert (Hlen : (if is_sym e then length (pre ++ [x]) - 1 else length (pre ++ [x])) = length (pre ++ [x])) by now rewrite Hsym.
  rewrite Hlen.
  assert (Hpl : forallb plainb (D ++ pre) = true /\ plain x = true).
  { apply seg_ok_plainb in Hs. rewrite forallb_app in Hs. apply andb_true_iff in Hs as [H1 H2].
    cbn in H2. apply andb_true_iff in H2 as [H2 _]. split; [|exact H2]. now rewrite forallb_app, D_plain, H1. }
  rewrite (lstat_walk_fresh fs pre D x _ Hd Hr (proj1 Hpl) (proj2 Hpl) Hg).
  replace (is_dir_e e || is_sym e || is_reg e || is_typex e) with true; [reflexivity|].
  rewrite Hsym. destruct (is_dir_e e), (is_reg e); cbn in *; try reflexivity; discriminate.
Qed.

(* ... and for a link entry, whose own name is not looked at *)
Lemma new_unpack_info_fresh_sym fs pre x e :
  is_dir fs = true -> rdir fs (D ++ pre) -> forallb seg_ok (pre ++ [x]) = true ->
  e_name e = entry_name (pre ++ [x]) false -> is_sym e = true ->
  new_unpack_info fs dst e = Some (D ++ pre ++ [x]).
Proof.
  intros Hd Hr Hs Hn Hsym. unfold new_unpack_info. rewrite Hn.
  assert (Hne : pre ++ [x] <> []) by (destruct pre; discriminate).
  assert (Hfirst : exists c r, entry_name (pre ++ [x]) false = c :: r /\ Ascii.eqb c slash = false).
  { unfold entry_name. destruct (pre ++ [x]) as [|g rest] eqn:E; [congruence|].
    cbn in Hs. apply andb_true_iff in Hs as [Hg0 _].
    pose proof (plain_not_empty _ (seg_ok_plain _ Hg0)) as Hgn. pose proof (seg_ok_no_slash _ Hg0) as Hgs.
    destruct g as [|c g']; [congruence|]. exists c.
    assert (Hc : Ascii.eqb c slash = false).
    { destruct (Ascii.eqb_spec c slash) as [->|]; [exfalso; apply Hgs; now left|reflexivity]. }
    destruct rest as [|s1 rest'].
    - exists (g' ++ []). split; [reflexivity|exact Hc].
    - exists ((g' ++ slash :: join_with slash (s1 :: rest')) ++ []). split; [reflexivity|exact Hc]. }
  destruct Hfirst as (c & r & Hcr & Hc). rewrite Hcr, Hc. rewrite <- Hcr.
  unfold rel_inside. rewrite (fjoin_comps dst (pre ++ [x]) false Hdst Hne Hs). fold D.
  rewrite strip_prefix_self.
  assert (Hlen : (if is_sym e then length (pre ++ [x]) - 1 else length (pre ++ [x])) = length pre)
    by (rewrite Hsym, app_length; cbn; lia).
  rewrite Hlen.
  assert (Hpl : forallb plainb (D ++ pre) = true).
  { apply seg_ok_plainb in Hs. rewrite forallb_app in Hs. apply andb_true_iff in Hs as [H1 _].
    now rewrite forallb_app, D_plain, H1. }
  rewrite (lstat_walk_parents fs pre D x Hd Hr Hpl).
  rewrite Hsym. destruct (is_dir_e e); reflexivity.
Qed.
End Entries.

(* ---------- Part 4: writing twice at a fresh path ---------- *)
Lemma set_kid_twice_fresh x (a b : node) (ks : list (str * node)) :
  kid x ks = None ->
  set_kid x (fun oc => match oc with Some c => Some (put c [] b) | None => Some b end)
          (set_kid x (fun oc => match oc with Some c => Some (put c [] a) | None => Some a end) ks)
  = set_kid x (fun oc => match oc with Some c => Some (put c [] b) | None => Some b end) ks.
Proof.
  induction ks as [|[k c] ks IH]; cbn; intros Hk.
  - now rewrite str_eqb_refl.
  - destruct (str_eqb k x) eqn:E; [discriminate|]. cbn. rewrite E. f_equal. exact (IH Hk).
Qed.

Lemma put_put_fresh1 pm mt ks x a b :
  kid x ks = None -> put (put (Dir pm mt ks) [x] a) [x] b = put (Dir pm mt ks) [x] b.
Proof.
  intros Hk. rewrite !put_cons, Hk. rewrite kid_set_kid_same, Hk. cbn match.
  f_equal. now apply set_kid_twice_fresh.
Qed.

(* a fresh last component below an existing directory: the second write wins *)
Lemma put_put_fresh n pre x a b pm mt ks :
  get n pre = Some (Dir pm mt ks) -> kid x ks = None ->
  put (put n (pre ++ [x]) a) (pre ++ [x]) b = put n (pre ++ [x]) b.
Proof.
  intros Hg Hk.
  rewrite (put_app n pre [x] a _ Hg), (put_app n pre [x] b _ Hg).
  assert (Hrd : rdir n (removelast pre) \/ pre = []).
  { left. clear - Hg. revert n Hg. induction pre as [|y r IH]; intros n Hg; [destruct n; try discriminate; exact I|].
    destruct n as [| pm' mt' ks' | |]; try discriminate. cbn in Hg.
    destruct (kid y ks') as [c|] eqn:E; [|discriminate].
    destruct r as [|z r']; [exact I|].
    change (removelast (y :: z :: r')) with (y :: removelast (z :: r')). cbn. rewrite E. now apply IH. }
  rewrite (put_app (put n pre (put (Dir pm mt ks) [x] a)) pre [x] b (put (Dir pm mt ks) [x] a)) by (now apply get_put_same).
  rewrite put_put_same by (rewrite Hg; discriminate).
  now rewrite put_put_fresh1.
Qed.

Lemma rdir_of_get_dir : forall p n pm mt ks, get n p = Some (Dir pm mt ks) -> rdir n p.
Proof.
  induction p as [|y r IH]; intros n pm mt ks Hg.
  - cbn in Hg. injection Hg as ->. exact I.
  - destruct n as [| pm' mt' ks' | |]; try discriminate. cbn in *.
    destruct (kid y ks') as [c|]; [|discriminate]. eapply IH; exact Hg.
Qed.

(* ---------- Part 5: one archive entry ---------- *)
Section OneEntry.
Variable allow : list str.
Variable fs0 : node.
Variable dst : str.
Hypothesis Hdst : dst_ok dst.
Hypothesis Hroot0 : is_dir fs0 = true.
Hypothesis HD : rdir fs0 (comps_of dst).
Let D := comps_of dst.
Let HDp : forallb plainb D = true := D_plain dst Hdst.
Notation atd := (at_dst fs0 D).

Variable X : node.
Variable pre : list str.
Variable x : str.
Variable pmP : N. Variable mtP : option Z. Variable ks : list (str * node).
Hypothesis HX : is_dir X = true.
Hypothesis Hpar : get X pre = Some (Dir pmP mtP ks).
Hypothesis Hfresh : kid x ks = None.
Hypothesis Hsegs : forallb seg_ok (pre ++ [x]) = true.

Let rel := pre ++ [x].

Lemma rel_facts : rdir X pre /\ get X rel = None /\ forallb plainb (D ++ pre) = true /\ plain x = true.
Proof.
  split; [eapply rdir_of_get_dir; exact Hpar|]. split.
  - unfold rel. rewrite get_app, Hpar. cbn. now rewrite Hfresh.
  - pose proof (seg_ok_plainb _ Hsegs) as Hp. rewrite forallb_app in Hp. apply andb_true_iff in Hp as [H1 H2].
    cbn in H2. apply andb_true_iff in H2 as [H2 _]. split; [|exact H2]. now rewrite forallb_app, HDp, H1.
Qed.

Lemma fs_facts : is_dir (atd X) = true /\ rdir (atd X) (D ++ pre) /\ get (atd X) (D ++ pre ++ [x]) = None.
Proof.
  destruct rel_facts as (Hr & Hg & _). split; [now apply at_dst_root|]. split.
  - now apply rdir_at_dst.
  - rewrite (get_at_dst fs0 D HD). exact Hg.
Qed.

Lemma removelast_rel : removelast (D ++ pre ++ [x]) = D ++ pre.
Proof. rewrite app_assoc. apply removelast_snoc. Qed.

Lemma unpack_dir_entry dirs e :
  e_name e = entry_name rel true -> e_type e = ty_dir ->
  unpack_entry true allow (atd X) dst dirs e
  = (atd (put X rel (Dir 493 None [])), dirs ++ [(D ++ rel, e)], None).
Proof.
  intros Hn Hty. destruct fs_facts as (Hd & Hr & Hg). destruct rel_facts as (_ & _ & Hp & Hx).
  assert (Hsym : is_sym e = false) by (unfold is_sym; now rewrite Hty).
  assert (Hdir : is_dir_e e = true) by (unfold is_dir_e; now rewrite Hty).
  unfold unpack_entry.
  assert (Hnn : e_name e <> []).
  { rewrite Hn. unfold entry_name. destruct (join_with slash rel); discriminate. }
  destruct (e_name e) as [|n0 nr] eqn:En; [congruence|]. rewrite <- En in *.
  rewrite (new_unpack_info_fresh dst Hdst (atd X) pre x e true Hd Hr Hsegs Hg Hn Hsym ltac:(now rewrite Hdir)).
  fold D. rewrite removelast_rel.
  rewrite (mkdir_all_existing (atd X) (D ++ pre) 493 Hd Hr Hp).
  rewrite Hsym, Hdir.
  replace (D ++ pre ++ [x]) with ((D ++ pre) ++ [x]) by (now rewrite <- app_assoc).
  rewrite (mkdir_all_fresh (atd X) (D ++ pre) x 493 Hd Hr Hp Hx) by (now rewrite <- app_assoc).
  replace ((D ++ pre) ++ [x]) with (D ++ rel) by (unfold rel; now rewrite <- app_assoc).
  rewrite (put_at_dst fs0 D HD). reflexivity.
Qed.

Lemma unpack_file_entry dirs e :
  e_name e = entry_name rel false -> e_type e = ty_reg ->
  unpack_entry true allow (atd X) dst dirs e
  = (atd (put X rel (File (e_body e) (e_mode e) (Some (sec_to_ns (e_mtime e))))), dirs, None).
Proof.
  intros Hn Hty. destruct fs_facts as (Hd & Hr & Hg). destruct rel_facts as (HrX & HgX & Hp & Hx).
  assert (Hsym : is_sym e = false) by (unfold is_sym; now rewrite Hty).
  assert (Hdir : is_dir_e e = false) by (unfold is_dir_e; now rewrite Hty).
  assert (Hreg : is_reg e = true) by (unfold is_reg; now rewrite Hty).
  unfold unpack_entry.
  assert (Hnn : e_name e <> []).
  { rewrite Hn. unfold entry_name. rewrite app_nil_r. unfold rel.
    pose proof Hsegs as Hs. destruct pre as [|p0 pr]; cbn in Hs |- *.
    - apply andb_true_iff in Hs as [Hs _]. apply (plain_not_empty _ (seg_ok_plain _ Hs)).
    - apply andb_true_iff in Hs as [Hs _]. pose proof (plain_not_empty _ (seg_ok_plain _ Hs)).
      destruct p0; [congruence|]. destruct (pr ++ [x]); discriminate. }
  destruct (e_name e) as [|n0 nr] eqn:En; [congruence|]. rewrite <- En in *.
  rewrite (new_unpack_info_fresh dst Hdst (atd X) pre x e false Hd Hr Hsegs Hg Hn Hsym ltac:(now rewrite Hreg, orb_true_r)).
  fold D. rewrite removelast_rel.
  rewrite (mkdir_all_existing (atd X) (D ++ pre) 493 Hd Hr Hp).
  rewrite Hsym, Hdir, Hreg. cbn [negb].
  (* create *)
  replace (D ++ pre ++ [x]) with ((D ++ pre) ++ [x]) in * by (now rewrite <- app_assoc).
  rewrite (create_write_fresh (atd X) (D ++ pre) x Hr Hp Hx (e_body e) Hg).
  set (F1 := File (e_body e) (umask_perm 438) None).
  replace ((D ++ pre) ++ [x]) with (D ++ rel) by (unfold rel; now rewrite <- app_assoc).
  rewrite (put_at_dst fs0 D HD).
  (* chmod *)
  set (X1 := put X rel F1).
  assert (HX1 : is_dir X1 = true).
  { unfold X1, rel. destruct X; try discriminate. destruct pre; reflexivity. }
  assert (Hr1 : rdir (atd X1) (D ++ pre)).
  { apply rdir_at_dst; [exact HD|]. unfold X1. apply rdir_put; [exact HrX|]. rewrite HgX. exact I. }
  assert (Hg1 : get (atd X1) ((D ++ pre) ++ [x]) = Some F1).
  { rewrite <- app_assoc, (get_at_dst fs0 D HD). unfold X1, rel. apply get_put_same. left. now rewrite removelast_snoc. }
  replace (D ++ rel) with ((D ++ pre) ++ [x]) by (unfold rel; now rewrite <- app_assoc).
  rewrite (chmod_file (atd X1) (D ++ pre) x Hr1 Hp Hx _ _ _ (e_mode e) Hg1).
  replace ((D ++ pre) ++ [x]) with (D ++ rel) by (unfold rel; now rewrite <- app_assoc).
  rewrite (put_at_dst fs0 D HD). unfold X1. unfold rel at 2 3.
  rewrite (put_put_fresh X pre x F1 _ _ _ _ Hpar Hfresh). fold rel.
  (* chtimes *)
  set (F2 := File (e_body e) (e_mode e) None). set (X2 := put X rel F2).
  assert (Hr2 : rdir (atd X2) (D ++ pre)).
  { apply rdir_at_dst; [exact HD|]. unfold X2. apply rdir_put; [exact HrX|]. rewrite HgX. exact I. }
  assert (Hg2 : get (atd X2) ((D ++ pre) ++ [x]) = Some F2).
  { rewrite <- app_assoc, (get_at_dst fs0 D HD). unfold X2, rel. apply get_put_same. left. now rewrite removelast_snoc. }
  replace (D ++ rel) with ((D ++ pre) ++ [x]) by (unfold rel; now rewrite <- app_assoc).
  rewrite (chtimes_file (atd X2) (D ++ pre) x Hr2 Hp Hx _ _ _ (sec_to_ns (e_mtime e)) Hg2).
  replace ((D ++ pre) ++ [x]) with (D ++ rel) by (unfold rel; now rewrite <- app_assoc).
  rewrite (put_at_dst fs0 D HD). unfold X2. unfold rel at 2 3.
  rewrite (put_put_fresh X pre x F2 _ _ _ _ Hpar Hfresh). reflexivity.
Qed.

Lemma unpack_link_entry dirs e :
  e_name e = entry_name rel false -> e_type e = ty_sym -> link_stays pre (e_link e) = true ->
  unpack_entry true allow (atd X) dst dirs e = (atd (put X rel (Link (e_link e))), dirs, None).
Proof.
  intros Hn Hty Hl. destruct fs_facts as (Hd & Hr & Hg). destruct rel_facts as (HrX & HgX & Hp & Hx).
  assert (Hsym : is_sym e = true) by (unfold is_sym; now rewrite Hty).
  assert (Hlne : e_link e <> []).
  { unfold link_stays in Hl. rewrite !andb_true_iff, !negb_true_iff in Hl. destruct Hl as [[_ Hl] _].
    destruct (e_link e); [discriminate|discriminate]. }
  unfold unpack_entry.
  assert (Hnn : e_name e <> []).
  { rewrite Hn. unfold entry_name. rewrite app_nil_r. unfold rel.
    pose proof Hsegs as Hs. destruct pre as [|p0 pr]; cbn in Hs |- *.
    - apply andb_true_iff in Hs as [Hs _]. apply (plain_not_empty _ (seg_ok_plain _ Hs)).
    - apply andb_true_iff in Hs as [Hs _]. pose proof (plain_not_empty _ (seg_ok_plain _ Hs)).
      destruct p0; [congruence|]. destruct (pr ++ [x]); discriminate. }
  destruct (e_name e) as [|n0 nr] eqn:En; [congruence|]. rewrite <- En in *.
  rewrite (new_unpack_info_fresh_sym dst Hdst (atd X) pre x e Hd Hr Hsegs Hn Hsym).
  fold D. rewrite removelast_rel.
  rewrite (mkdir_all_existing (atd X) (D ++ pre) 493 Hd Hr Hp).
  rewrite Hsym.
  unfold D at 1. rewrite (valid_symlink_stays allow dst pre x (e_link e) Hdst Hsegs Hl). fold D.
  replace (D ++ pre ++ [x]) with ((D ++ pre) ++ [x]) by (now rewrite <- app_assoc).
  rewrite (symlink_fresh (atd X) (D ++ pre) x Hr Hp Hx (e_link e)) by (rewrite <- ?app_assoc; assumption).
  replace ((D ++ pre) ++ [x]) with (D ++ rel) by (unfold rel; now rewrite <- app_assoc).
  rewrite (put_at_dst fs0 D HD). reflexivity.
Qed.
End OneEntry.

(* ---------- Part 6: trees of regular files and directories ---------- *)
Inductive stree :=
| SFile (d : str) (pm : N) (mt : option Z)
| SLink (target : str)
| SSpecial (kind : N)
| SDir (pm : N) (mt : option Z) (ks : list (str * stree)).

Definition round_ns (m : option Z) : Z := sec_to_ns (match m with Some ns => ((ns + 500000000) / 1000000000)%Z | None => 0%Z end).

Fixpoint to_node (t : stree) : node :=
  match t with
  | SFile d pm mt => File d pm mt
  | SLink l => Link l
  | SSpecial k => Special k
  | SDir pm mt ks => Dir pm mt (map (fun kc => (fst kc, to_node (snd kc))) ks)
  end.

(* special files (fifos, sockets, devices) are skipped by Pack: they do not come back *)
Definition nsp (kn : str * node) : bool := match snd kn with Special _ => false | _ => true end.
Definition is_special (t : stree) : bool := match t with SSpecial _ => true | _ => false end.

(* what Unpack has made of the tree before the deferred directory restores *)
Fixpoint built (t : stree) : node :=
  match t with
  | SFile d pm mt => File d pm (Some (round_ns mt))
  | SLink l => Link l
  | SSpecial k => Special k   (* marker only: filtered out of every directory *)
  | SDir pm mt ks => Dir 493 None (filter nsp (map (fun kc => (fst kc, built (snd kc))) ks))
  end.

(* ... and at the end: the tree itself, with times rounded to the second *)
Fixpoint rounded (t : stree) : node :=
  match t with
  | SFile d pm mt => File d pm (Some (round_ns mt))
  | SLink l => Link l
  | SSpecial k => Special k
  | SDir pm mt ks => Dir pm (Some (round_ns mt)) (filter nsp (map (fun kc => (fst kc, rounded (snd kc))) ks))
  end.

Definition sec_of (m : option Z) : Z := match m with Some ns => ((ns + 500000000) / 1000000000)%Z | None => 0%Z end.

(* the archive entries of the tree, in the order Pack writes them *)
Fixpoint tentries (rel : list str) (t : stree) : list entry :=
  match t with
  | SFile d pm mt => [mkEntry (entry_name rel false) ty_reg [] pm (sec_of mt) d]
  | SLink l => [mkEntry (entry_name rel false) ty_sym l 511 0 []]
  | SSpecial _ => []
  | SDir pm mt ks =>
      mkEntry (entry_name rel true) ty_dir [] pm (sec_of mt) [] ::
      (fix go (l : list (str * stree)) : list entry :=
         match l with [] => [] | kc :: r => tentries (rel ++ [fst kc]) (snd kc) ++ go r end) ks
  end.

Fixpoint kids_entries (rel : list str) (l : list (str * stree)) : list entry :=
  match l with [] => [] | kc :: r => tentries (rel ++ [fst kc]) (snd kc) ++ kids_entries rel r end.

Lemma tentries_dir rel pm mt ks :
  tentries rel (SDir pm mt ks) = mkEntry (entry_name rel true) ty_dir [] pm (sec_of mt) [] :: kids_entries rel ks.
Proof. cbn [tentries]. f_equal. induction ks as [|kc r IH]; [reflexivity|]. cbn [kids_entries]. now rewrite <- IH. Qed.

(* the directory entries, with the paths Unpack queues them under *)
Fixpoint tdirs (D rel : list str) (t : stree) : list (list str * entry) :=
  match t with
  | SFile _ _ _ => []
  | SLink _ => []
  | SSpecial _ => []
  | SDir pm mt ks =>
      (D ++ rel, mkEntry (entry_name rel true) ty_dir [] pm (sec_of mt) []) ::
      (fix go (l : list (str * stree)) : list (list str * entry) :=
         match l with [] => [] | kc :: r => tdirs D (rel ++ [fst kc]) (snd kc) ++ go r end) ks
  end.

Fixpoint kids_dirs (D rel : list str) (l : list (str * stree)) : list (list str * entry) :=
  match l with [] => [] | kc :: r => tdirs D (rel ++ [fst kc]) (snd kc) ++ kids_dirs D rel r end.

Lemma tdirs_dir D rel pm mt ks :
  tdirs D rel (SDir pm mt ks) = (D ++ rel, mkEntry (entry_name rel true) ty_dir [] pm (sec_of mt) []) :: kids_dirs D rel ks.
Proof. cbn [tdirs]. f_equal. induction ks as [|kc r IH]; [reflexivity|]. cbn [kids_dirs]. now rewrite <- IH. Qed.

(* well-formed: names are single plain path segments, no name twice in one directory *)
Fixpoint sheight (t : stree) : nat :=
  match t with
  | SFile _ _ _ => 0
  | SLink _ => 0
  | SSpecial _ => 0
  | SDir _ _ ks => S (fold_right (fun kc acc => Nat.max (sheight (snd kc)) acc) 0 ks)
  end.

Fixpoint wf (t : stree) : Prop :=
  match t with
  | SFile _ _ _ => True
  | SLink _ => True
  | SSpecial _ => True
  | SDir _ _ ks =>
      NoDup (map fst ks) /\
      (fix go (l : list (str * stree)) : Prop :=
         match l with [] => True | kc :: r => seg_ok (fst kc) = true /\ wf (snd kc) /\ go r end) ks
  end.

Fixpoint wf_kids (l : list (str * stree)) : Prop :=
  match l with [] => True | kc :: r => seg_ok (fst kc) = true /\ wf (snd kc) /\ wf_kids r end.

Lemma wf_dir pm mt ks : wf (SDir pm mt ks) <-> NoDup (map fst ks) /\ wf_kids ks.
Proof.
  cbn [wf]. assert (H : forall l, (fix go (l : list (str * stree)) : Prop :=
         match l with [] => True | kc :: r => seg_ok (fst kc) = true /\ wf (snd kc) /\ go r end) l <-> wf_kids l).
  { induction l as [|kc r IH]; [reflexivity|]. cbn [wf_kids]. now rewrite IH. }
  now rewrite H.
Qed.

(* every link stays inside the tree, read from the directory it sits in *)
Fixpoint links_ok (rel : list str) (t : stree) : Prop :=
  match t with
  | SFile _ _ _ => True
  | SLink l => link_stays (removelast rel) l = true
  | SSpecial _ => True
  | SDir _ _ ks =>
      (fix go (l : list (str * stree)) : Prop :=
         match l with [] => True | kc :: r => links_ok (rel ++ [fst kc]) (snd kc) /\ go r end) ks
  end.

Fixpoint links_ok_kids (rel : list str) (l : list (str * stree)) : Prop :=
  match l with [] => True | kc :: r => links_ok (rel ++ [fst kc]) (snd kc) /\ links_ok_kids rel r end.

Lemma links_ok_dir rel pm mt ks : links_ok rel (SDir pm mt ks) <-> links_ok_kids rel ks.
Proof.
  cbn [links_ok]. induction ks as [|kc r IH]; [reflexivity|]. cbn [links_ok_kids]. now rewrite IH.
Qed.

Lemma links_ok_kids_in rel ks kc : links_ok_kids rel ks -> In kc ks -> links_ok (rel ++ [fst kc]) (snd kc).
Proof.
  induction ks as [|a q IH]; [intros _ []|]. cbn. intros (H1 & H2) [->|Hin]; [auto|now apply IH].
Qed.

Lemma unpack_entries_app is_root allow dst : forall es1 es2 fs dirs fs1 dirs1,
  unpack_entries is_root allow fs dst dirs es1 = (fs1, dirs1, None) ->
  unpack_entries is_root allow fs dst dirs (es1 ++ es2) = unpack_entries is_root allow fs1 dst dirs1 es2.
Proof.
  induction es1 as [|e es1 IH]; intros es2 fs dirs fs1 dirs1 H.
  - cbn in H. now injection H as <- <-.
  - cbn [app unpack_entries] in *. destruct (unpack_entry is_root allow fs dst dirs e) as [[f d] [r|]]; [discriminate|].
    now apply IH.
Qed.

Definition bp (kc : str * stree) : str * node := (fst kc, built (snd kc)).
Definition rp (kc : str * stree) : str * node := (fst kc, rounded (snd kc)).

Definition bpk (ks : list (str * stree)) : list (str * node) := filter nsp (map bp ks).
Definition rpk (ks : list (str * stree)) : list (str * node) := filter nsp (map rp ks).

Lemma built_dir pm mt ks : built (SDir pm mt ks) = Dir 493 None (bpk ks).
Proof. reflexivity. Qed.
Lemma rounded_dir pm mt ks : rounded (SDir pm mt ks) = Dir pm (Some (round_ns mt)) (rpk ks).
Proof. reflexivity. Qed.

Lemma nsp_bp kc : nsp (bp kc) = negb (is_special (snd kc)).
Proof. destruct kc as [k t]. destruct t; reflexivity. Qed.
Lemma nsp_rp kc : nsp (rp kc) = negb (is_special (snd kc)).
Proof. destruct kc as [k t]. destruct t; reflexivity. Qed.

Lemma filter_app_ {A} (f : A -> bool) a b : filter f (a ++ b) = filter f a ++ filter f b.
Proof. induction a as [|x a IH]; cbn; [reflexivity|]. destruct (f x); cbn; now rewrite IH. Qed.

Lemma bpk_app a b : bpk (a ++ b) = bpk a ++ bpk b.
Proof. unfold bpk. now rewrite map_app, filter_app_. Qed.
Lemma rpk_app a b : rpk (a ++ b) = rpk a ++ rpk b.
Proof. unfold rpk. now rewrite map_app, filter_app_. Qed.
Lemma bpk_cons kc r : bpk (kc :: r) = if is_special (snd kc) then bpk r else bp kc :: bpk r.
Proof. unfold bpk. cbn [map filter]. rewrite nsp_bp. now destruct (is_special (snd kc)). Qed.
Lemma rpk_cons kc r : rpk (kc :: r) = if is_special (snd kc) then rpk r else rp kc :: rpk r.
Proof. unfold rpk. cbn [map filter]. rewrite nsp_rp. now destruct (is_special (snd kc)). Qed.
Lemma bpk_snoc done kc : bpk (done ++ [kc]) = bpk done ++ (if is_special (snd kc) then [] else [bp kc]).
Proof. rewrite bpk_app, bpk_cons. now destruct (is_special (snd kc)). Qed.
Lemma rpk_snoc done kc : rpk (done ++ [kc]) = rpk done ++ (if is_special (snd kc) then [] else [rp kc]).
Proof. rewrite rpk_app, rpk_cons. now destruct (is_special (snd kc)). Qed.

Lemma kid_filter_none (f : str * node -> bool) k l : kid k l = None -> kid k (filter f l) = None.
Proof.
  induction l as [|[k0 c0] l IH]; cbn; [reflexivity|]. destruct (str_eqb k0 k) eqn:E; [discriminate|].
  intros H. destruct (f (k0, c0)); cbn; [rewrite E|]; now apply IH.
Qed.

Lemma kid_map_none (f : str * stree -> str * node) (Hf : forall kc, fst (f kc) = fst kc) k l :
  ~ In k (map fst l) -> kid k (map f l) = None.
Proof.
  induction l as [|kc r IH]; [reflexivity|]. cbn [map]. intros Hn.
  destruct (f kc) as [k' v] eqn:E. cbn [kid]. pose proof (Hf kc) as Hk. rewrite E in Hk. cbn in Hk.
  destruct (str_eqb_spec k' k) as [Heq|_]; [exfalso; apply Hn; left; congruence|].
  apply IH. intros H. apply Hn. now right.
Qed.

Lemma sheight_kid pm mt ks kc h : sheight (SDir pm mt ks) <= S h -> In kc ks -> sheight (snd kc) <= h.
Proof.
  cbn [sheight]. intros H Hin. apply le_S_n in H.
  induction ks as [|a r IH]; [destruct Hin|]. cbn [fold_right] in H.
  destruct Hin as [->|Hin]; [lia|]. apply IH; [lia|exact Hin].
Qed.

Section Trees.
Variable allow : list str.
Variable fs0 : node.
Variable dst : str.
Hypothesis Hdst : dst_ok dst.
Hypothesis Hroot0 : is_dir fs0 = true.
Hypothesis HD : rdir fs0 (comps_of dst).
Notation D := (comps_of dst).
Notation atd := (at_dst fs0 (comps_of dst)).

Lemma kid_bpk_none k done : ~ In k (map fst done) -> kid k (bpk done) = None.
Proof. intros H. apply kid_filter_none. now apply (kid_map_none bp (fun _ => eq_refl)). Qed.
Lemma kid_rpk_none k done : ~ In k (map fst done) -> kid k (rpk done) = None.
Proof. intros H. apply kid_filter_none. now apply (kid_map_none rp (fun _ => eq_refl)). Qed.

(* phase 1: the entries of a tree, unpacked at a fresh name below an existing directory
   (nothing at all for a special file) *)
Lemma unpack_tree : forall h t, sheight t <= h -> wf t ->
  forall X pre x pmP mtP ks dirs,
    is_dir X = true -> get X pre = Some (Dir pmP mtP ks) -> kid x ks = None ->
    forallb seg_ok (pre ++ [x]) = true -> links_ok (pre ++ [x]) t ->
    unpack_entries true allow (atd X) dst dirs (tentries (pre ++ [x]) t)
    = (atd (if is_special t then X else put X (pre ++ [x]) (built t)), dirs ++ tdirs D (pre ++ [x]) t, None).
Proof.
  assert (Hleaf : forall t X pre x pmP mtP ks dirs, (forall pm mt ks', t <> SDir pm mt ks') ->
            is_dir X = true -> get X pre = Some (Dir pmP mtP ks) -> kid x ks = None ->
            forallb seg_ok (pre ++ [x]) = true -> links_ok (pre ++ [x]) t ->
            unpack_entries true allow (atd X) dst dirs (tentries (pre ++ [x]) t)
            = (atd (if is_special t then X else put X (pre ++ [x]) (built t)), dirs ++ tdirs D (pre ++ [x]) t, None)).
  { intros t X pre x pmP mtP ks dirs Hnd HX Hpar Hfresh Hsegs Hlk.
    destruct t as [d pm mt|l|k|pm mt ks']; [| | |exfalso; now apply (Hnd pm mt ks')].
    - cbn [tentries unpack_entries is_special].
      rewrite (unpack_file_entry allow fs0 dst Hdst Hroot0 HD X pre x pmP mtP ks HX Hpar Hfresh Hsegs dirs
                 (mkEntry (entry_name (pre ++ [x]) false) ty_reg [] pm (sec_of mt) d) eq_refl eq_refl).
      cbn [tdirs]. now rewrite app_nil_r.
    - cbn [tentries unpack_entries is_special]. cbn [links_ok] in Hlk. rewrite removelast_snoc in Hlk.
      rewrite (unpack_link_entry allow fs0 dst Hdst Hroot0 HD X pre x pmP mtP ks HX Hpar Hfresh Hsegs dirs
                 (mkEntry (entry_name (pre ++ [x]) false) ty_sym l 511 0 []) eq_refl eq_refl Hlk).
      cbn [tdirs]. now rewrite app_nil_r.
    - cbn [tentries unpack_entries is_special tdirs]. now rewrite app_nil_r. }
  induction h as [|h IH]; intros t Hh Hwf X pre x pmP mtP ks dirs HX Hpar Hfresh Hsegs Hlk.
  - apply (Hleaf t X pre x pmP mtP ks dirs); auto. intros pm mt ks' ->. cbn in Hh. lia.
  - destruct t as [d pm mt|l|k|pm mt ks'].
    + apply (Hleaf _ X pre x pmP mtP ks dirs); auto. discriminate.
    + apply (Hleaf _ X pre x pmP mtP ks dirs); auto. discriminate.
    + apply (Hleaf _ X pre x pmP mtP ks dirs); auto. discriminate.
    + apply wf_dir in Hwf as [Hnd Hwk]. apply links_ok_dir in Hlk. cbn [is_special].
      set (rel := pre ++ [x]) in *.
      rewrite tentries_dir, tdirs_dir. cbn [unpack_entries].
      set (e := mkEntry (entry_name rel true) ty_dir [] pm (sec_of mt) []).
      rewrite (unpack_dir_entry allow fs0 dst Hdst Hroot0 HD X pre x pmP mtP ks HX Hpar Hfresh Hsegs dirs e eq_refl eq_refl).
      fold rel.
      (* the children, one after the other *)
      assert (HrX : rdir X pre) by (eapply rdir_of_get_dir; exact Hpar).
      assert (Hloop : forall l done dirs0,
                 ks' = done ++ l ->
                 unpack_entries true allow (atd (put X rel (Dir 493 None (bpk done)))) dst dirs0 (kids_entries rel l)
                 = (atd (put X rel (Dir 493 None (bpk (done ++ l)))), dirs0 ++ kids_dirs (comps_of dst) rel l, None)).
      { induction l as [|kc r IHl]; intros done dirs0 Hks.
        - cbn [kids_entries unpack_entries kids_dirs]. now rewrite !app_nil_r.
        - cbn [kids_entries kids_dirs].
          set (V := Dir 493 None (bpk done)).
          assert (HXc : is_dir (put X rel V) = true).
          { unfold rel. destruct X; try discriminate. destruct pre; reflexivity. }
          assert (Hgc : get (put X rel V) rel = Some V).
          { apply get_put_same. left. unfold rel. now rewrite removelast_snoc. }
          assert (Hkc : In kc ks') by (rewrite Hks; apply in_or_app; right; now left).
          assert (Hfr : kid (fst kc) (bpk done) = None).
          { apply kid_bpk_none. rewrite Hks, map_app in Hnd.
            apply NoDup_remove_2 in Hnd. intros Hin. apply Hnd. apply in_or_app. now left. }
          assert (Hwkc : seg_ok (fst kc) = true /\ wf (snd kc)).
          { clear - Hwk Hkc. induction ks' as [|a q IHq]; [destruct Hkc|]. cbn in Hwk. destruct Hwk as (H1 & H2 & H3).
            destruct Hkc as [->|Hin]; [auto|now apply IHq]. }
          assert (Hsk : forallb seg_ok (rel ++ [fst kc]) = true).
          { rewrite forallb_app, Hsegs. cbn. now rewrite (proj1 Hwkc). }
          rewrite (unpack_entries_app true allow dst _ (kids_entries rel r) _ _ _ _
                     (IH (snd kc) (sheight_kid _ _ _ _ _ Hh Hkc) (proj2 Hwkc) (put X rel V) rel (fst kc) 493%N None (bpk done) dirs0 HXc Hgc Hfr Hsk
                         (links_ok_kids_in rel ks' kc Hlk Hkc))).
          assert (Hput : (if is_special (snd kc) then put X rel V else put (put X rel V) (rel ++ [fst kc]) (built (snd kc)))
                         = put X rel (Dir 493 None (bpk (done ++ [kc])))).
          { rewrite bpk_snoc. destruct (is_special (snd kc)); [now rewrite app_nil_r|].
            rewrite (put_app _ rel [fst kc] _ V Hgc).
            unfold rel at 1 2. rewrite (put_put_fresh X pre x V _ _ _ _ Hpar Hfresh). fold rel.
            unfold V. rewrite (put_child_fresh _ _ _ _ _ Hfr). reflexivity. }
          rewrite Hput.
          rewrite (IHl (done ++ [kc]) _ ltac:(rewrite Hks, <- app_assoc; reflexivity)).
          rewrite <- !app_assoc. reflexivity. }
      rewrite (Hloop ks' [] _ eq_refl). cbn [app]. rewrite built_dir. rewrite <- app_assoc. reflexivity.
Qed.
End Trees.

Lemma rdir_put_prefix : forall pre n x v, rdir n pre -> rdir (put n (pre ++ [x]) v) pre.
Proof.
  induction pre as [|y r IH]; intros n x v H.
  - destruct n as [| pm mt ks | |]; cbn in H; try contradiction. cbn [app]. rewrite put_cons. exact I.
  - destruct n as [| pm mt ks | |]; cbn in H; try contradiction.
    destruct (kid y ks) as [c|] eqn:Ek; [|contradiction].
    cbn [app]. rewrite put_cons. cbn [rdir]. rewrite kid_set_kid_same, Ek. now apply IH.
Qed.

Section Restore.
Variable fs0 : node.
Variable dst : str.
Hypothesis Hdst : dst_ok dst.
Hypothesis Hroot0 : is_dir fs0 = true.
Hypothesis HD : rdir fs0 (comps_of dst).
Notation D := (comps_of dst).
Notation atd := (at_dst fs0 (comps_of dst)).

(* the deferred restore of one directory: its recorded mode and time, its content untouched *)
Lemma restore_one X pre x pm0 mt0 kids e more :
  is_dir X = true -> rdir X pre -> forallb seg_ok (pre ++ [x]) = true ->
  get X (pre ++ [x]) = Some (Dir pm0 mt0 kids) ->
  restore_dirs (atd X) ((D ++ pre ++ [x], e) :: more)
  = restore_dirs (atd (put X (pre ++ [x]) (Dir (e_mode e) (Some (sec_to_ns (e_mtime e))) kids))) more.
Proof.
  intros HX HrX Hsegs Hg.
  assert (Hpl : forallb plainb (D ++ pre) = true /\ plain x = true).
  { pose proof (seg_ok_plainb _ Hsegs) as Hp. rewrite forallb_app in Hp. apply andb_true_iff in Hp as [H1 H2].
    cbn in H2. apply andb_true_iff in H2 as [H2 _]. split; [|exact H2]. now rewrite forallb_app, (D_plain dst Hdst), H1. }
  destruct Hpl as [Hp Hx].
  assert (Hput : forall V W, put (put X (pre ++ [x]) V) (pre ++ [x]) W = put X (pre ++ [x]) W).
  { intros V W. apply put_put_same. rewrite Hg. discriminate. }
  assert (Hfacts : forall Y V, is_dir Y = true -> rdir Y pre -> get Y (pre ++ [x]) = Some V ->
            is_dir (atd Y) = true /\ rdir (atd Y) (D ++ pre) /\ get (atd Y) ((D ++ pre) ++ [x]) = Some V).
  { intros Y V HY HrY HgY. pose proof (D_plain dst Hdst) as HDp.
    split; [apply at_dst_root; auto|]. split; [apply rdir_at_dst; auto|].
    rewrite <- app_assoc, (get_at_dst fs0 D HD). exact HgY. }
  cbn [restore_dirs].
  replace (D ++ pre ++ [x]) with ((D ++ pre) ++ [x]) by (now rewrite <- app_assoc).
  destruct (Hfacts X _ HX HrX Hg) as (_ & Hr0 & Hg0).
  rewrite (chmod_dir (atd X) (D ++ pre) x Hr0 Hp Hx _ _ _ (e_mode e) Hg0). cbn [tolerate].
  replace ((D ++ pre) ++ [x]) with (D ++ pre ++ [x]) by (now rewrite <- app_assoc).
  rewrite (put_at_dst fs0 D HD).
  set (X1 := put X (pre ++ [x]) (Dir (e_mode e) mt0 kids)).
  assert (HX1 : is_dir X1 = true) by (unfold X1; destruct X; try discriminate; destruct pre; reflexivity).
  assert (Hr1 : rdir X1 pre) by (unfold X1; now apply rdir_put_prefix).
  assert (Hg1 : get X1 (pre ++ [x]) = Some (Dir (e_mode e) mt0 kids)).
  { unfold X1. apply get_put_same. left. now rewrite removelast_snoc. }
  destruct (Hfacts X1 _ HX1 Hr1 Hg1) as (_ & Hr1' & Hg1').
  replace (D ++ pre ++ [x]) with ((D ++ pre) ++ [x]) by (now rewrite <- app_assoc).
  rewrite (chtimes_dir (atd X1) (D ++ pre) x Hr1' Hp Hx _ _ _ (sec_to_ns (e_mtime e)) Hg1'). cbn [tolerate].
  replace ((D ++ pre) ++ [x]) with (D ++ pre ++ [x]) by (now rewrite <- app_assoc).
  rewrite (put_at_dst fs0 D HD). unfold X1. now rewrite Hput.
Qed.

Lemma kid_mixed (done : list (str * stree)) kc (r : list (str * stree)) :
  ~ In (fst kc) (map fst done) -> is_special (snd kc) = false ->
  kid (fst kc) (rpk done ++ bpk (kc :: r)) = Some (built (snd kc)).
Proof.
  intros Hn Hs. rewrite bpk_cons, Hs. apply (kid_middle (fst kc) (rpk done) (built (snd kc)) (bpk r)).
  now apply kid_rpk_none.
Qed.

(* phase 2: the deferred restores of the directories of a tree turn [built] into [rounded] *)
Lemma restore_tree : forall h t, sheight t <= h -> wf t -> is_special t = false ->
  forall X pre x more,
    is_dir X = true -> rdir X pre -> forallb seg_ok (pre ++ [x]) = true ->
    get X (pre ++ [x]) = Some (built t) ->
    restore_dirs (atd X) (tdirs D (pre ++ [x]) t ++ more)
    = restore_dirs (atd (put X (pre ++ [x]) (rounded t))) more.
Proof.
  induction h as [|h IH]; intros t Hh Hwf Hns X pre x more HX HrX Hsegs Hg.
  - destruct t as [d pm mt|l|k|pm mt ks']; [| |discriminate|cbn in Hh; lia].
    + cbn [tdirs app]. change (rounded (SFile d pm mt)) with (built (SFile d pm mt)).
      now rewrite (put_get_same _ _ _ Hg).
    + cbn [tdirs app]. change (rounded (SLink l)) with (built (SLink l)).
      now rewrite (put_get_same _ _ _ Hg).
  - destruct t as [d pm mt|l|k|pm mt ks']; [| |discriminate|].
    + cbn [tdirs app]. change (rounded (SFile d pm mt)) with (built (SFile d pm mt)).
      now rewrite (put_get_same _ _ _ Hg).
    + cbn [tdirs app]. change (rounded (SLink l)) with (built (SLink l)).
      now rewrite (put_get_same _ _ _ Hg).
    + apply wf_dir in Hwf as [Hnd Hwk].
      set (rel := pre ++ [x]) in *.
      rewrite tdirs_dir. cbn [app]. rewrite built_dir in Hg.
      unfold rel at 1. rewrite (restore_one X pre x _ _ _ _ _ HX HrX Hsegs Hg).
      cbn [e_mode e_mtime]. fold rel. change (sec_to_ns (sec_of mt)) with (round_ns mt).
      assert (Hpp : forall V W, put (put X rel V) rel W = put X rel W).
      { intros V W. apply put_put_same. rewrite Hg. discriminate. }
      assert (Hloop : forall l done,
                 ks' = done ++ l ->
                 restore_dirs (atd (put X rel (Dir pm (Some (round_ns mt)) (rpk done ++ bpk l)))) (kids_dirs D rel l ++ more)
                 = restore_dirs (atd (put X rel (Dir pm (Some (round_ns mt)) (rpk (done ++ l))))) more).
      { induction l as [|kc r IHl]; intros done Hks.
        - cbn [kids_dirs app]. unfold bpk at 1. cbn [map filter]. now rewrite !app_nil_r.
        - cbn [kids_dirs]. rewrite <- app_assoc.
          assert (Hkc : In kc ks') by (rewrite Hks; apply in_or_app; right; now left).
          assert (Hnin : ~ In (fst kc) (map fst done)).
          { rewrite Hks, map_app in Hnd. apply NoDup_remove_2 in Hnd. intros Hin. apply Hnd. apply in_or_app. now left. }
          assert (Hwkc : seg_ok (fst kc) = true /\ wf (snd kc)).
          { clear - Hwk Hkc. induction ks' as [|a q IHq]; [destruct Hkc|]. cbn in Hwk. destruct Hwk as (H1 & H2 & H3).
            destruct Hkc as [->|Hin]; [auto|now apply IHq]. }
          destruct (is_special (snd kc)) eqn:Esp.
          { (* a special file: not there, nothing queued *)
            assert (Htd : tdirs D (rel ++ [fst kc]) (snd kc) = []) by (destruct (snd kc); try discriminate; reflexivity).
            rewrite Htd. cbn [app]. rewrite bpk_cons, Esp.
            assert (E1 : rpk (done ++ [kc]) = rpk done) by (now rewrite rpk_snoc, Esp, app_nil_r).
            rewrite <- E1. rewrite (IHl (done ++ [kc]) ltac:(rewrite Hks, <- app_assoc; reflexivity)).
            now rewrite <- app_assoc. }
          set (V := Dir pm (Some (round_ns mt)) (rpk done ++ bpk (kc :: r))).
          assert (HXc : is_dir (put X rel V) = true).
          { unfold rel. destruct X; try discriminate. destruct pre; reflexivity. }
          assert (Hgc : get (put X rel V) rel = Some V).
          { apply get_put_same. left. unfold rel. now rewrite removelast_snoc. }
          assert (Hrc : rdir (put X rel V) rel).
          { eapply rdir_of_get_dir. exact Hgc. }
          assert (Hsk : forallb seg_ok (rel ++ [fst kc]) = true).
          { rewrite forallb_app, Hsegs. cbn. now rewrite (proj1 Hwkc). }
          assert (Hgk : get (put X rel V) (rel ++ [fst kc]) = Some (built (snd kc))).
          { rewrite get_app, Hgc. unfold V. cbn [get]. now rewrite (kid_mixed done kc r Hnin Esp). }
          rewrite (IH (snd kc) (sheight_kid _ _ _ _ _ Hh Hkc) (proj2 Hwkc) Esp (put X rel V) rel (fst kc) _ HXc Hrc Hsk Hgk).
          assert (Hput : put (put X rel V) (rel ++ [fst kc]) (rounded (snd kc))
                         = put X rel (Dir pm (Some (round_ns mt)) (rpk (done ++ [kc]) ++ bpk r))).
          { rewrite (put_app _ rel [fst kc] _ V Hgc), Hpp. unfold V. rewrite bpk_cons, Esp.
            rewrite (put_child_replace _ _ (rpk done) (fst kc) (built (snd kc)) (bpk r) (rounded (snd kc)))
              by (now apply kid_rpk_none).
            rewrite rpk_snoc, Esp, <- app_assoc. reflexivity. }
          rewrite Hput. rewrite (IHl (done ++ [kc]) ltac:(rewrite Hks, <- app_assoc; reflexivity)).
          now rewrite <- app_assoc. }
      pose proof (Hloop ks' [] eq_refl) as HL. cbn [app] in HL. unfold rpk at 1 in HL. cbn [map filter app] in HL.
      rewrite HL. now rewrite rounded_dir.
Qed.
End Restore.

(* ---------- Part 7: a whole archive into an empty destination ---------- *)
Section Whole.
Variable allow : list str.
Variable fs0 : node.
Variable dst : str.
Hypothesis Hdst : dst_ok dst.
Hypothesis Hroot0 : is_dir fs0 = true.
Hypothesis HD : rdir fs0 (comps_of dst).
Notation D := (comps_of dst).
Notation atd := (at_dst fs0 (comps_of dst)).
Variable pmD : N.

Lemma wf_kids_in ks kc : wf_kids ks -> In kc ks -> seg_ok (fst kc) = true /\ wf (snd kc).
Proof.
  induction ks as [|a q IH]; [intros _ []|]. cbn. intros (H1 & H2 & H3) [->|Hin]; [auto|now apply IH].
Qed.

Lemma root_loop1 : forall l done mtc dirs0,
  NoDup (map fst (done ++ l)) -> wf_kids l -> links_ok_kids [] l ->
  unpack_entries true allow (atd (Dir pmD mtc (bpk done))) dst dirs0 (kids_entries [] l)
  = (atd (Dir pmD (match bpk l with [] => mtc | _ => None end) (bpk (done ++ l))), dirs0 ++ kids_dirs D [] l, None).
Proof.
  induction l as [|kc r IH]; intros done mtc dirs0 Hnd Hwk Hlk.
  - cbn [kids_entries unpack_entries kids_dirs]. now rewrite !app_nil_r.
  - cbn [kids_entries kids_dirs]. cbn in Hwk. destruct Hwk as (Hs & Hw & Hwr). cbn in Hlk. destruct Hlk as (Hl1 & Hlr).
    set (X := Dir pmD mtc (bpk done)).
    assert (Hfr : kid (fst kc) (bpk done) = None).
    { apply kid_bpk_none. rewrite map_app in Hnd. apply NoDup_remove_2 in Hnd.
      intros Hin. apply Hnd. apply in_or_app. now left. }
    assert (Hsk : forallb seg_ok ([] ++ [fst kc]) = true) by (cbn; now rewrite Hs).
    rewrite (unpack_entries_app true allow dst _ (kids_entries [] r) _ _ _ _
               (unpack_tree allow fs0 dst Hdst Hroot0 HD (sheight (snd kc)) (snd kc) (le_n _) Hw X [] (fst kc) pmD mtc (bpk done) dirs0 eq_refl eq_refl Hfr Hsk Hl1)).
    cbn [app]. rewrite bpk_cons. destruct (is_special (snd kc)) eqn:Esp.
    + unfold X. assert (E1 : bpk (done ++ [kc]) = bpk done) by (now rewrite bpk_snoc, Esp, app_nil_r).
      rewrite <- E1. rewrite (IH (done ++ [kc]) mtc _ ltac:(now rewrite <- app_assoc) Hwr Hlr).
      rewrite <- !app_assoc. reflexivity.
    + unfold X. rewrite (put_child_fresh _ _ _ _ _ Hfr).
      replace (bpk done ++ [(fst kc, built (snd kc))]) with (bpk (done ++ [kc])) by (now rewrite bpk_snoc, Esp).
      rewrite (IH (done ++ [kc]) None _ ltac:(now rewrite <- app_assoc) Hwr Hlr).
      rewrite <- !app_assoc. cbn [app]. destruct (bpk r); reflexivity.
Qed.

Lemma root_loop2 : forall l done mtc more,
  NoDup (map fst (done ++ l)) -> wf_kids l ->
  restore_dirs (atd (Dir pmD mtc (rpk done ++ bpk l))) (kids_dirs D [] l ++ more)
  = restore_dirs (atd (Dir pmD mtc (rpk (done ++ l)))) more.
Proof.
  induction l as [|kc r IH]; intros done mtc more Hnd Hwk.
  - cbn [kids_dirs app]. unfold bpk at 1. cbn [map filter]. now rewrite !app_nil_r.
  - cbn [kids_dirs]. rewrite <- app_assoc. cbn in Hwk. destruct Hwk as (Hs & Hw & Hwr).
    assert (Hnin : ~ In (fst kc) (map fst done)).
    { rewrite map_app in Hnd. apply NoDup_remove_2 in Hnd. intros Hin. apply Hnd. apply in_or_app. now left. }
    destruct (is_special (snd kc)) eqn:Esp.
    { assert (Htd : tdirs D ([] ++ [fst kc]) (snd kc) = []) by (destruct (snd kc); try discriminate; reflexivity).
      rewrite Htd. cbn [app]. rewrite bpk_cons, Esp.
      assert (E1 : rpk (done ++ [kc]) = rpk done) by (now rewrite rpk_snoc, Esp, app_nil_r).
      rewrite <- E1. rewrite (IH (done ++ [kc]) mtc more ltac:(now rewrite <- app_assoc) Hwr).
      now rewrite <- app_assoc. }
    set (X := Dir pmD mtc (rpk done ++ bpk (kc :: r))).
    assert (Hsk : forallb seg_ok ([] ++ [fst kc]) = true) by (cbn; now rewrite Hs).
    assert (Hgk : get X ([] ++ [fst kc]) = Some (built (snd kc))).
    { unfold X. cbn [app get]. now rewrite (kid_mixed done kc r Hnin Esp). }
    rewrite (restore_tree fs0 dst Hdst Hroot0 HD (sheight (snd kc)) (snd kc) (le_n _) Hw Esp X [] (fst kc) _ eq_refl I Hsk Hgk).
    cbn [app]. unfold X. rewrite bpk_cons, Esp.
    rewrite (put_child_replace _ _ (rpk done) (fst kc) (built (snd kc)) (bpk r) (rounded (snd kc)))
      by (now apply kid_rpk_none).
    replace (rpk done ++ (fst kc, rounded (snd kc)) :: bpk r) with (rpk (done ++ [kc]) ++ bpk r)
      by (rewrite rpk_snoc, Esp, <- app_assoc; reflexivity).
    rewrite (IH (done ++ [kc]) mtc more ltac:(now rewrite <- app_assoc) Hwr).
    now rewrite <- app_assoc.
Qed.

(* Unpacking the archive of a tree into an empty directory yields the tree, times rounded,
   special files left out *)
Theorem unpack_tree_entries mtD ks :
  get fs0 D = Some (Dir pmD mtD []) -> NoDup (map fst ks) -> wf_kids ks -> links_ok_kids [] ks ->
  unpack true allow fs0 dst (kids_entries [] ks)
  = (put fs0 D (Dir pmD (match rpk ks with [] => mtD | _ => None end) (rpk ks)), ROk).
Proof.
  intros Hg Hnd Hwk Hlk. unfold unpack.
  assert (Hfs : fs0 = atd (Dir pmD mtD (bpk []))).
  { unfold at_dst. cbn. symmetry. now apply put_get_same. }
  rewrite Hfs at 1. rewrite (root_loop1 ks [] mtD [] Hnd Hwk Hlk). cbn [app].
  pose proof (root_loop2 ks [] (match bpk ks with [] => mtD | _ => None end) [] Hnd Hwk) as H2.
  unfold rpk at 1 in H2. cbn [map filter app] in H2. rewrite app_nil_r in H2. rewrite H2.
  assert (He : (match bpk ks with [] => mtD | _ => None end) = (match rpk ks with [] => mtD | _ => None end)).
  { clear. induction ks as [|kc r IH]; [reflexivity|]. rewrite bpk_cons, rpk_cons. destruct (is_special (snd kc)); [exact IH|reflexivity]. }
  now rewrite He.
Qed.
End Whole.
