(* C15, "the last entry for a path wins even if an earlier one was read-only":
   a regular-file entry whose path already holds a regular file - whatever its
   content, permission bits and time, and whoever runs Unpack - leaves exactly
   the entry's content, permissions and time there, and nothing else changes.
   With Unpack reading entries one after the other, the last entry for a file
   path therefore decides what the path holds. *)
From Slug Require Import Base.Str Base.PathAlg Base.PathLemmas Base.Rooted FS.FS FS.FSProofs Slug.Unpack Slug.UnpackSafe Slug.RoundTrip.
From Coq Require Import Lia.

Lemma lstat_walk_existing fs : forall pre done x n nd,
  is_dir fs = true -> rdir fs (done ++ pre) -> forallb plainb (done ++ pre) = true -> plain x = true ->
  get fs (done ++ pre ++ [x]) = Some nd -> is_link nd = false ->
  lstat_walk fs done (pre ++ [x]) n = CkOk.
Proof.
  induction pre as [|y pre IH]; intros done x n nd Hd Hr Hp Hx Hg Hl; destruct n as [|n]; try reflexivity.
  - cbn [app lstat_walk]. rewrite app_nil_r in Hr, Hp.
    rewrite (lstat_nonlink fs done x Hr Hp Hx nd Hg Hl), Hl. destruct n; reflexivity.
  - cbn [app lstat_walk].
    assert (Hry : rdir fs (done ++ [y])).
    { replace (done ++ y :: pre) with ((done ++ [y]) ++ pre) in Hr by (now rewrite <- app_assoc). eapply rdir_prefix; exact Hr. }
    destruct (rdir_get _ _ Hry) as (pm & mt & ks & Hgy).
    assert (Hpd : forallb plainb done = true /\ plain y = true).
    { rewrite forallb_app in Hp. apply andb_true_iff in Hp as [H1 H2]. cbn in H2. apply andb_true_iff in H2 as [H2 _]. auto. }
    rewrite (lstat_nonlink fs done y (rdir_prefix _ _ _ Hry) (proj1 Hpd) (proj2 Hpd) _ Hgy eq_refl). cbn [is_link].
    apply (IH (done ++ [y]) x n nd); auto.
    + now rewrite <- app_assoc.
    + now rewrite <- app_assoc.
    + now rewrite <- !app_assoc.
Qed.

Lemma create_write_file is_root fs lp x d perm mt data :
  rdir fs lp -> forallb plainb lp = true -> plain x = true ->
  get fs (lp ++ [x]) = Some (File d perm mt) ->
  create_write is_root fs (lp ++ [x]) data
  = if is_root || owner_writable perm then (put fs (lp ++ [x]) (File data perm None), Ok tt) else (fs, Err EACCES).
Proof.
  intros Hr Hp Hx Hg. unfold create_write.
  rewrite (resolve_nonlink fs lp x Hr Hp Hx true _ Hg eq_refl), Hg. reflexivity.
Qed.

(* NewUnpackInfo on a path that already holds something that is not a link *)
Section Existing.
Variable fs0 : node.
Variable dst : str.
Hypothesis Hdst : dst_ok dst.
Hypothesis Hroot0 : is_dir fs0 = true.
Hypothesis HD : rdir fs0 (comps_of dst).
Notation D := (comps_of dst).
Notation atd := (at_dst fs0 (comps_of dst)).
Variable X : node.
Variable pre : list str.
Variable x : str.
Variable nd : node.
Hypothesis HX : is_dir X = true.
Hypothesis HrX : rdir X pre.
Hypothesis Hsegs : forallb seg_ok (pre ++ [x]) = true.
Hypothesis Hg0 : get X (pre ++ [x]) = Some nd.
Hypothesis Hnl : is_link nd = false.
Notation rel := (pre ++ [x]).

Lemma ex_plain : forallb plainb (D ++ pre) = true /\ plain x = true.
Proof.
  pose proof (seg_ok_plainb _ Hsegs) as Hp. rewrite forallb_app in Hp. apply andb_true_iff in Hp as [H1 H2].
  cbn in H2. apply andb_true_iff in H2 as [H2 _]. split; [|exact H2]. now rewrite forallb_app, (D_plain dst Hdst), H1.
Qed.

Lemma ex_atd_facts : is_dir (atd X) = true /\ rdir (atd X) (D ++ pre) /\ get (atd X) ((D ++ pre) ++ [x]) = Some nd.
Proof.
  pose proof (D_plain dst Hdst) as HDp.
  split; [apply at_dst_root; auto|]. split; [apply rdir_at_dst; auto|].
  rewrite <- app_assoc, (get_at_dst fs0 D HD). exact Hg0.
Qed.

Lemma new_unpack_info_existing_any e tr :
  e_name e = entry_name rel tr -> is_sym e = false -> (is_dir_e e || is_reg e) = true ->
  new_unpack_info (atd X) dst e = Some (D ++ pre ++ [x]).
Proof.
  intros Hn Hsym Hty. destruct ex_atd_facts as (Hd & Hr & Hg). destruct ex_plain as [Hp Hx].
  unfold new_unpack_info. rewrite Hn.
  assert (Hne : rel <> []) by (destruct pre; discriminate).
  assert (Hfirst : exists c r, entry_name rel tr = c :: r /\ Ascii.eqb c slash = false).
  { unfold entry_name. destruct rel as [|g rest] eqn:E; [congruence|].
    pose proof Hsegs as Hs. rewrite ?E in Hs. cbn in Hs. apply andb_true_iff in Hs as [Hg1 _].
    pose proof (plain_not_empty _ (seg_ok_plain _ Hg1)) as Hgn. pose proof (seg_ok_no_slash _ Hg1) as Hgs.
    destruct g as [|c g']; [congruence|]. exists c.
    assert (Hc : Ascii.eqb c slash = false).
    { destruct (Ascii.eqb_spec c slash) as [->|]; [exfalso; apply Hgs; now left|reflexivity]. }
    destruct rest as [|s1 rest'].
    - exists (g' ++ (if tr then [slash] else [])). split; [reflexivity|exact Hc].
    - exists ((g' ++ slash :: join_with slash (s1 :: rest')) ++ (if tr then [slash] else [])). split; [reflexivity|exact Hc]. }
  destruct Hfirst as (c & r & Hcr & Hc). rewrite Hcr, Hc. rewrite <- Hcr.
  unfold rel_inside. rewrite (fjoin_comps dst rel tr Hdst Hne Hsegs).
  rewrite strip_prefix_self, Hsym.
  rewrite (lstat_walk_existing (atd X) pre D x _ _ Hd Hr Hp Hx ltac:(rewrite app_assoc; exact Hg) Hnl).
  destruct (is_dir_e e), (is_reg e); cbn in *; try reflexivity; discriminate.
Qed.
End Existing.

Section LastWins.
Variable allow : list str.
Variable fs0 : node.
Variable dst : str.
Hypothesis Hdst : dst_ok dst.
Hypothesis Hroot0 : is_dir fs0 = true.
Hypothesis HD : rdir fs0 (comps_of dst).
Notation D := (comps_of dst).
Notation atd := (at_dst fs0 (comps_of dst)).

Variable X : node.
Variable pre : list str.
Variable x : str.
Variable d0 : str. Variable pm0 : N. Variable mt0 : option Z.
Hypothesis HX : is_dir X = true.
Hypothesis HrX : rdir X pre.
Hypothesis Hsegs : forallb seg_ok (pre ++ [x]) = true.
Hypothesis Hg0 : get X (pre ++ [x]) = Some (File d0 pm0 mt0).
Notation rel := (pre ++ [x]).

Lemma lw_plain : forallb plainb (D ++ pre) = true /\ plain x = true.
Proof.
  pose proof (seg_ok_plainb _ Hsegs) as Hp. rewrite forallb_app in Hp. apply andb_true_iff in Hp as [H1 H2].
  cbn in H2. apply andb_true_iff in H2 as [H2 _]. split; [|exact H2]. now rewrite forallb_app, (D_plain dst Hdst), H1.
Qed.

Lemma lw_put_facts F : is_dir (put X rel F) = true /\ rdir (put X rel F) pre /\ get (put X rel F) rel = Some F.
Proof.
  split; [destruct X; try discriminate; destruct pre; reflexivity|]. split; [now apply rdir_put_prefix|].
  apply get_put_same. left. now rewrite removelast_snoc.
Qed.

Lemma lw_atd_facts Y F : is_dir Y = true -> rdir Y pre -> get Y rel = Some F ->
  is_dir (atd Y) = true /\ rdir (atd Y) (D ++ pre) /\ get (atd Y) ((D ++ pre) ++ [x]) = Some F.
Proof.
  intros HY HrY HgY. pose proof (D_plain dst Hdst) as HDp.
  split; [apply at_dst_root; auto|]. split; [apply rdir_at_dst; auto|].
  rewrite <- app_assoc, (get_at_dst fs0 D HD). exact HgY.
Qed.

Lemma lw_collapse A B : put (put X rel A) rel B = put X rel B.
Proof. apply put_put_same. rewrite Hg0. discriminate. Qed.

Lemma new_unpack_info_existing e :
  e_name e = entry_name rel false -> is_sym e = false -> is_reg e = true ->
  new_unpack_info (atd X) dst e = Some (D ++ pre ++ [x]).
Proof.
  intros Hn Hsym Hreg.
  apply (new_unpack_info_existing_any fs0 dst Hdst Hroot0 HD X pre x _ HX HrX Hsegs Hg0 eq_refl e false Hn Hsym).
  rewrite Hreg. apply orb_true_r.
Qed.

Theorem last_file_entry_wins is_root dirs e :
  e_name e = entry_name rel false -> e_type e = ty_reg ->
  unpack_entry is_root allow (atd X) dst dirs e
  = (atd (put X rel (File (e_body e) (e_mode e) (Some (sec_to_ns (e_mtime e))))), dirs, None).
Proof.
  intros Hn Hty.
  assert (Hsym : is_sym e = false) by (unfold is_sym; now rewrite Hty).
  assert (Hdir : is_dir_e e = false) by (unfold is_dir_e; now rewrite Hty).
  assert (Hreg : is_reg e = true) by (unfold is_reg; now rewrite Hty).
  destruct (lw_atd_facts X _ HX HrX Hg0) as (Hd & Hr & Hg). destruct lw_plain as [Hp Hx].
  unfold unpack_entry.
  assert (Hnn : e_name e <> []).
  { rewrite Hn. unfold entry_name. rewrite app_nil_r.
    pose proof Hsegs as Hs. destruct pre as [|p0 pr]; cbn in Hs |- *.
    - apply andb_true_iff in Hs as [Hs _]. apply (plain_not_empty _ (seg_ok_plain _ Hs)).
    - apply andb_true_iff in Hs as [Hs _]. pose proof (plain_not_empty _ (seg_ok_plain _ Hs)).
      destruct p0; [congruence|]. destruct (pr ++ [x]); discriminate. }
  destruct (e_name e) as [|n0 nr] eqn:En; [congruence|]. rewrite <- En in *.
  rewrite (new_unpack_info_existing e Hn Hsym Hreg).
  replace (removelast (D ++ pre ++ [x])) with (D ++ pre) by (rewrite app_assoc; symmetry; apply removelast_snoc).
  rewrite (mkdir_all_existing (atd X) (D ++ pre) 493 Hd Hr Hp).
  rewrite Hsym, Hdir, Hreg. cbn [negb].
  replace (D ++ pre ++ [x]) with ((D ++ pre) ++ [x]) by (now rewrite <- app_assoc).
  (* the state after each step is X with some file at rel *)
  assert (Hstep_chmod : forall F perm d pm mt, F = File d pm mt ->
            chmod (atd (put X rel F)) ((D ++ pre) ++ [x]) perm = (atd (put X rel (File d perm mt)), Ok tt)).
  { intros F perm d pm mt ->. destruct (lw_put_facts (File d pm mt)) as (H1 & H2 & H3).
    destruct (lw_atd_facts _ _ H1 H2 H3) as (_ & Hr' & Hg').
    rewrite (chmod_file _ (D ++ pre) x Hr' Hp Hx _ _ _ perm Hg').
    rewrite <- app_assoc, (put_at_dst fs0 D HD), lw_collapse. reflexivity. }
  assert (Hstep_times : forall d pm mt t,
            chtimes (atd (put X rel (File d pm mt))) ((D ++ pre) ++ [x]) t = (atd (put X rel (File d pm (Some t))), Ok tt)).
  { intros d pm mt t. destruct (lw_put_facts (File d pm mt)) as (H1 & H2 & H3).
    destruct (lw_atd_facts _ _ H1 H2 H3) as (_ & Hr' & Hg').
    rewrite (chtimes_file _ (D ++ pre) x Hr' Hp Hx _ _ _ t Hg').
    rewrite <- app_assoc, (put_at_dst fs0 D HD), lw_collapse. reflexivity. }
  assert (Hstep_write : forall d pm mt data, (is_root || owner_writable pm) = true ->
            create_write is_root (atd (put X rel (File d pm mt))) ((D ++ pre) ++ [x]) data
            = (atd (put X rel (File data pm None)), Ok tt)).
  { intros d pm mt data Hw. destruct (lw_put_facts (File d pm mt)) as (H1 & H2 & H3).
    destruct (lw_atd_facts _ _ H1 H2 H3) as (_ & Hr' & Hg').
    rewrite (create_write_file is_root _ (D ++ pre) x _ _ _ data Hr' Hp Hx Hg'), Hw.
    rewrite <- app_assoc, (put_at_dst fs0 D HD), lw_collapse. reflexivity. }
  assert (HX0 : X = put X rel (File d0 pm0 mt0)) by (symmetry; now apply put_get_same).
  rewrite HX0 at 1.
  destruct (is_root || owner_writable pm0) eqn:Ew.
  - rewrite (Hstep_write d0 pm0 mt0 (e_body e) Ew).
    rewrite (Hstep_chmod _ (e_mode e) _ _ _ eq_refl), Hstep_times. reflexivity.
  - destruct (lw_put_facts (File d0 pm0 mt0)) as (H1 & H2 & H3).
    destruct (lw_atd_facts _ _ H1 H2 H3) as (_ & Hr' & Hg').
    rewrite (create_write_file is_root _ (D ++ pre) x _ _ _ (e_body e) Hr' Hp Hx Hg'), Ew.
    rewrite (Hstep_chmod _ 384%N _ _ _ eq_refl).
    rewrite (Hstep_write d0 384%N mt0 (e_body e)) by (apply orb_true_iff; right; reflexivity).
    rewrite (Hstep_chmod _ (e_mode e) _ _ _ eq_refl), Hstep_times. reflexivity.
Qed.
End LastWins.

(* any number of entries for one file path, read in order: the last one decides *)
Theorem last_of_many_file_entries allow fs0 dst is_root pre x :
  dst_ok dst -> is_dir fs0 = true -> rdir fs0 (comps_of dst) -> forallb seg_ok (pre ++ [x]) = true ->
  forall es X d0 pm0 mt0 dirs e_last,
    is_dir X = true -> rdir X pre -> get X (pre ++ [x]) = Some (File d0 pm0 mt0) ->
    (forall e, In e (es ++ [e_last]) -> e_name e = entry_name (pre ++ [x]) false /\ e_type e = ty_reg) ->
    unpack_entries is_root allow (at_dst fs0 (comps_of dst) X) dst dirs (es ++ [e_last])
    = (at_dst fs0 (comps_of dst)
         (put X (pre ++ [x]) (File (e_body e_last) (e_mode e_last) (Some (sec_to_ns (e_mtime e_last))))), dirs, None).
Proof.
  intros Hdst Hroot0 HD Hsegs. induction es as [|e es IH]; intros X d0 pm0 mt0 dirs e_last HX HrX Hg0 Hall.
  - cbn [app unpack_entries]. destruct (Hall e_last (or_introl eq_refl)) as [Hn Hty].
    now rewrite (last_file_entry_wins allow fs0 dst Hdst Hroot0 HD X pre x d0 pm0 mt0 HX HrX Hsegs Hg0 is_root dirs e_last Hn Hty).
  - cbn [app unpack_entries]. destruct (Hall e (or_introl eq_refl)) as [Hn Hty].
    rewrite (last_file_entry_wins allow fs0 dst Hdst Hroot0 HD X pre x d0 pm0 mt0 HX HrX Hsegs Hg0 is_root dirs e Hn Hty).
    set (F1 := File (e_body e) (e_mode e) (Some (sec_to_ns (e_mtime e)))).
    destruct (lw_put_facts X pre x d0 pm0 mt0 HX HrX Hsegs Hg0 F1) as (H1 & H2 & H3).
    rewrite (IH (put X (pre ++ [x]) F1) _ _ _ dirs e_last H1 H2 H3 (fun e' He' => Hall e' (or_intror He'))).
    now rewrite (lw_collapse X pre x d0 pm0 mt0 Hg0).
Qed.

(* ---------- the same directory path again ---------- *)
Section DirAgain.
Variable allow : list str.
Variable fs0 : node.
Variable dst : str.
Hypothesis Hdst : dst_ok dst.
Hypothesis Hroot0 : is_dir fs0 = true.
Hypothesis HD : rdir fs0 (comps_of dst).
Notation D := (comps_of dst).
Notation atd := (at_dst fs0 (comps_of dst)).

(* a directory entry for a path that already is a directory (made for a child that came first, or
   by an earlier entry): nothing changes now, the entry's permissions and time are queued *)
Lemma dir_entry_again X pre x pm0 mt0 kids is_root dirs e :
  is_dir X = true -> rdir X pre -> forallb seg_ok (pre ++ [x]) = true ->
  get X (pre ++ [x]) = Some (Dir pm0 mt0 kids) ->
  e_name e = entry_name (pre ++ [x]) true -> e_type e = ty_dir ->
  unpack_entry is_root allow (atd X) dst dirs e = (atd X, dirs ++ [(D ++ pre ++ [x], e)], None).
Proof.
  intros HX HrX Hsegs Hg0 Hn Hty.
  assert (Hsym : is_sym e = false) by (unfold is_sym; now rewrite Hty).
  assert (Hdir : is_dir_e e = true) by (unfold is_dir_e; now rewrite Hty).
  destruct (ex_atd_facts fs0 dst Hdst Hroot0 HD X pre x _ HX HrX Hg0) as (Hd & Hr & Hg).
  destruct (ex_plain dst Hdst pre x Hsegs) as [Hp Hx].
  unfold unpack_entry.
  assert (Hnn : e_name e <> []).
  { rewrite Hn. unfold entry_name. destruct (join_with slash (pre ++ [x])); discriminate. }
  destruct (e_name e) as [|n0 nr] eqn:En; [congruence|]. rewrite <- En in *.
  rewrite (new_unpack_info_existing_any fs0 dst Hdst Hroot0 HD X pre x _ HX HrX Hsegs Hg0 eq_refl e true Hn Hsym ltac:(now rewrite Hdir)).
  replace (removelast (D ++ pre ++ [x])) with (D ++ pre) by (rewrite app_assoc; symmetry; apply removelast_snoc).
  rewrite (mkdir_all_existing (atd X) (D ++ pre) 493 Hd Hr Hp).
  rewrite Hsym, Hdir.
  assert (Hrfull : rdir (atd X) (D ++ pre ++ [x])).
  { apply rdir_at_dst; [exact HD|]. eapply rdir_of_get_dir. exact Hg0. }
  assert (Hpfull : forallb plainb (D ++ pre ++ [x]) = true).
  { rewrite app_assoc, forallb_app, Hp. cbn. unfold plainb. now rewrite Hx. }
  rewrite (mkdir_all_existing (atd X) (D ++ pre ++ [x]) 493 Hd Hrfull Hpfull). reflexivity.
Qed.

(* the deferred restores of one directory path, in the order the entries were read: the last one
   decides permissions and time, the contents are untouched *)
Theorem last_dir_entry_wins pre x : forallb seg_ok (pre ++ [x]) = true ->
  forall es X pm0 mt0 kids e_last more,
    is_dir X = true -> rdir X pre -> get X (pre ++ [x]) = Some (Dir pm0 mt0 kids) ->
    restore_dirs (atd X) (map (fun e => (D ++ pre ++ [x], e)) (es ++ [e_last]) ++ more)
    = restore_dirs (atd (put X (pre ++ [x]) (Dir (e_mode e_last) (Some (sec_to_ns (e_mtime e_last))) kids))) more.
Proof.
  intros Hsegs. induction es as [|e es IH]; intros X pm0 mt0 kids e_last more HX HrX Hg.
  - cbn [app map]. now rewrite (restore_one fs0 dst Hdst Hroot0 HD X pre x _ _ _ e_last more HX HrX Hsegs Hg).
  - cbn [app map]. rewrite (restore_one fs0 dst Hdst Hroot0 HD X pre x _ _ _ e _ HX HrX Hsegs Hg).
    set (V := Dir (e_mode e) (Some (sec_to_ns (e_mtime e))) kids).
    assert (HX1 : is_dir (put X (pre ++ [x]) V) = true) by (destruct X; try discriminate; destruct pre; reflexivity).
    assert (Hr1 : rdir (put X (pre ++ [x]) V) pre) by (now apply rdir_put_prefix).
    assert (Hg1 : get (put X (pre ++ [x]) V) (pre ++ [x]) = Some V).
    { apply get_put_same. left. now rewrite removelast_snoc. }
    rewrite (IH _ _ _ _ e_last more HX1 Hr1 Hg1).
    rewrite put_put_same by (rewrite Hg; discriminate). reflexivity.
Qed.
End DirAgain.
