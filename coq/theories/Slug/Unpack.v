(* Model of slug.Unpack, unpackinfo.NewUnpackInfo, UnpackInfo.RestoreInfo and
   Packer.validSymlink, over the abstract file system of FS/FS.v and an
   abstract list of decoded tar entries (the tar/gzip codec is Go's and is
   exercised for real by the correspondence). *)
From Slug Require Import Base.Str Base.PathAlg FS.FS.

Record entry := mkEntry {
  e_name : str; e_type : N; e_link : str; e_mode : N; e_mtime : Z; e_body : str }.

Definition ty_reg : N := 48.      (* '0' *)
Definition ty_rega : N := 0.      (* '\x00' *)
Definition ty_sym : N := 50.      (* '2' *)
Definition ty_dir : N := 53.      (* '5' *)
Definition ty_xhdr : N := 120.    (* 'x' *)
Definition ty_xglobal : N := 103. (* 'g' *)

Definition is_sym (e : entry) : bool := N.eqb (e_type e) ty_sym.
Definition is_dir_e (e : entry) : bool := N.eqb (e_type e) ty_dir.
Definition is_reg (e : entry) : bool := N.eqb (e_type e) ty_reg || N.eqb (e_type e) ty_rega.
Definition is_typex (e : entry) : bool := N.eqb (e_type e) ty_xhdr || N.eqb (e_type e) ty_xglobal.

Inductive ures := ROk | RIllegal | RError | RPanic.

(* file-system times are in nanoseconds, tar header times in whole seconds *)
Definition sec_to_ns (s : Z) : Z := (s * 1000000000)%Z.

(* components of a clean absolute path *)
Fixpoint strip_prefix (pre l : list str) : option (list str) :=
  match pre, l with
  | [], _ => Some l
  | x :: pre', y :: l' => if str_eqb x y then strip_prefix pre' l' else None
  | _ :: _, [] => None
  end.

(* filepath.Rel(root, target) does not start with "..": the components of
   target below root *)
Definition rel_inside (root target : str) : option (list str) :=
  strip_prefix (comps_of root) (comps_of target).

(* filepath.Dir of a clean absolute path, as a string (for validSymlink) *)
Definition dir_of (p : str) : str := join_abs (removelast (comps_of p)).

(* filepath.Join(dst, name) *)
Definition fjoin (a b : str) : str := join2 a b.

Inductive check_res := CkOk | CkIllegal.

(* the per-component Lstat walk of NewUnpackInfo: [done] are the components
   already joined onto dst, [comps] those still to check, at most [n] of them *)
Fixpoint lstat_walk (fs : node) (done comps : list str) (n : nat) : check_res :=
  match n, comps with
  | O, _ => CkOk
  | _, [] => CkOk
  | S n', c :: rest =>
      let cur := done ++ [c] in
      match lstat fs cur with
      | Err ENOENT => CkOk
      | Err _ => CkIllegal
      | Ok nd => if is_link nd then CkIllegal else lstat_walk fs cur rest n'
      end
  end.

(* NewUnpackInfo: the (clean, absolute) path the entry will be created at, as
   the components of dst followed by the components below it; or a rejection *)
Definition new_unpack_info (fs : node) (dst : str) (e : entry) : option (list str) :=
  match e_name e with
  | [] => None   (* unreachable from Unpack: empty names are skipped; the code would panic *)
  | c :: r =>
      let name := if Ascii.eqb c slash then r else e_name e in
      let p := match name with [] => clean dst | _ => fjoin dst name end in
      match rel_inside dst p with
      | None => None
      | Some comps =>
          let checked := if is_sym e then length comps - 1 else length comps in
          match lstat_walk fs (comps_of dst) comps checked with
          | CkIllegal => None
          | CkOk =>
              if is_dir_e e || is_sym e || is_reg e || is_typex e
              then Some (comps_of dst ++ comps) else None
          end
      end
  end.

(* Packer.validSymlink with the fixed containment test (purely lexical) *)
Definition within (root target : str) : bool :=
  match rel_inside root target with Some _ => true | None => false end.

Definition valid_symlink (allow : list str) (root path target : str) : bool :=
  let abs_root := clean root in
  let abs_path := if is_rooted path then path else fjoin abs_root path in
  let abs_target := if is_rooted target then clean target else fjoin (dir_of abs_path) target in
  within abs_root abs_target ||
  existsb (fun prefix =>
     let prefix := if is_rooted prefix then prefix else fjoin abs_root prefix in
     str_eqb abs_target prefix ||
     has_prefix abs_target (if has_suffix prefix [slash] then prefix else prefix ++ [slash])) allow.

(* one entry; [dirs] collects directory entries for the deferred restore *)
Definition unpack_entry (is_root : bool) (allow : list str) (fs : node) (dst : str)
           (dirs : list (list str * entry)) (e : entry)
  : node * list (list str * entry) * option ures :=   (* None = continue *)
  match e_name e with
  | [] => (fs, dirs, None)
  | _ =>
      match new_unpack_info fs dst e with
      | None => (fs, dirs, Some RIllegal)
      | Some p =>
          match mkdir_all fs (removelast p) 493 with
          | (fs, Err _) => (fs, dirs, Some RError)
          | (fs, Ok _) =>
              if is_sym e then
                if valid_symlink allow dst (join_abs p) (e_link e) then
                  match symlink fs (e_link e) p with
                  | (fs, Err _) => (fs, dirs, Some RError)
                  | (fs, Ok _) => (fs, dirs, None)
                  end
                else (fs, dirs, Some RIllegal)
              else if is_dir_e e then
                match mkdir_all fs p 493 with
                | (fs, Err _) => (fs, dirs, Some RError)
                | (fs, Ok _) => (fs, dirs ++ [(p, e)], None)
                end
              else if negb (is_reg e) then (fs, dirs, None)
              else
                let '(fs, r) :=
                  match create_write is_root fs p (e_body e) with
                  | (fs, Err EACCES) =>
                      let '(fs, _) := chmod fs p 384 in create_write is_root fs p (e_body e)
                  | other => other
                  end in
                match r with
                | Err _ => (fs, dirs, Some RError)
                | Ok _ =>
                    match chmod fs p (e_mode e) with
                    | (fs, Err _) => (fs, dirs, Some RError)
                    | (fs, Ok _) =>
                        match chtimes fs p (sec_to_ns (e_mtime e)) with
                        | (fs, Err _) => (fs, dirs, Some RError)
                        | (fs, Ok _) => (fs, dirs, None)
                        end
                    end
                end
          end
      end
  end.

Fixpoint unpack_entries (is_root : bool) (allow : list str) (fs : node) (dst : str)
         (dirs : list (list str * entry)) (es : list entry) : node * list (list str * entry) * option ures :=
  match es with
  | [] => (fs, dirs, None)
  | e :: rest =>
      match unpack_entry is_root allow fs dst dirs e with
      | (fs', dirs', None) => unpack_entries is_root allow fs' dst dirs' rest
      | stop => stop
      end
  end.

(* restoreDirectory: ENOENT is tolerated *)
Definition tolerate (r : node * res unit) : node * option ures :=
  match r with
  | (fs, Ok _) => (fs, None)
  | (fs, Err ENOENT) => (fs, None)
  | (fs, Err _) => (fs, Some RError)
  end.

Fixpoint restore_dirs (fs : node) (dirs : list (list str * entry)) : node * ures :=
  match dirs with
  | [] => (fs, ROk)
  | (p, e) :: rest =>
      match tolerate (chmod fs p (e_mode e)) with
      | (fs, Some r) => (fs, r)
      | (fs, None) =>
          match tolerate (chtimes fs p (sec_to_ns (e_mtime e))) with
          | (fs, Some r) => (fs, r)
          | (fs, None) => restore_dirs fs rest
          end
      end
  end.

Definition unpack (is_root : bool) (allow : list str) (fs : node) (dst : str) (es : list entry) : node * ures :=
  match unpack_entries is_root allow fs dst [] es with
  | (fs', _, Some r) => (fs', r)
  | (fs', dirs, None) => restore_dirs fs' dirs
  end.
