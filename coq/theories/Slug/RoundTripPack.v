(* C02 on the model, the Pack side: on a tree of regular files, directories and links that stay inside
   whose directory listings are sorted (as filepath.Walk reads them), Pack
   without ignore processing writes exactly the entries [kids_entries] - and
   with RoundTrip.unpack_tree_entries the round trip follows. *)
From Slug Require Import Base.Str Base.PathAlg Base.PathLemmas Base.Rooted FS.FS FS.FSProofs Ignore.Rules
  Slug.Unpack Slug.UnpackSafe Slug.Pack Slug.RoundTrip Bundle.VersionsProofs.
From Coq Require Import Lia.

Definition of_entry (e : entry) : pentry :=
  mkPE (e_name e) (e_type e) (e_link e) (e_mode e) (e_mtime e) (e_body e).
Definition to_entry (e : pentry) : entry :=
  mkEntry (pe_name e) (pe_type e) (pe_link e) (pe_perm e) (pe_mtime e) (pe_body e).

Lemma to_of_entry e : to_entry (of_entry e) = e.
Proof. now destruct e. Qed.

(* ---------- sorted listings ---------- *)
Fixpoint sorted_strict (l : list str) : bool :=
  match l with
  | a :: r => match r with b :: _ => str_ltb a b && sorted_strict r | [] => true end
  | [] => true
  end.

Lemma str_ltb_char_asym x y : str_ltb_char x y = true -> str_ltb_char y x = false.
Proof. unfold str_ltb_char. intros H. apply N.ltb_lt in H. apply N.ltb_ge. lia. Qed.

Lemma str_ltb_asym : forall a b, str_ltb a b = true -> str_ltb b a = false.
Proof.
  induction a as [|x a IH]; intros [|y b] H; cbn in *; try reflexivity; try discriminate.
  destruct (Ascii.eqb_spec x y) as [->|Hne].
  - rewrite Ascii.eqb_refl. now apply IH.
  - destruct (Ascii.eqb_spec y x) as [->|_]; [congruence|]. now apply str_ltb_char_asym.
Qed.

Lemma sort_names_sorted l : sorted_strict l = true -> sort_names l = l.
Proof.
  induction l as [|a r IH]; [reflexivity|]. intros H. unfold sort_names in *. cbn [fold_right].
  destruct r as [|b r'].
  - reflexivity.
  - cbn [sorted_strict] in H. apply andb_true_iff in H as [Hab Hr]. rewrite (IH Hr).
    cbn [insert_name]. now rewrite (str_ltb_asym a b Hab).
Qed.

(* ---------- relative names ---------- *)
Lemma rel_comps_under root rel : rel_comps root (root ++ rel) = rel.
Proof. induction root as [|x root IH]; [destruct rel; reflexivity|]. cbn. now rewrite str_eqb_refl. Qed.

(* ---------- the walk ---------- *)
Fixpoint wfs (t : stree) : Prop :=
  match t with
  | SFile _ _ _ => True
  | SLink _ => True
  | SSpecial _ => True
  | SDir _ _ ks =>
      sorted_strict (map fst ks) = true /\
      (fix go (l : list (str * stree)) : Prop := match l with [] => True | kc :: r => wfs (snd kc) /\ go r end) ks
  end.
Fixpoint wfs_kids (l : list (str * stree)) : Prop :=
  match l with [] => True | kc :: r => wfs (snd kc) /\ wfs_kids r end.
Lemma wfs_dir pm mt ks : wfs (SDir pm mt ks) <-> sorted_strict (map fst ks) = true /\ wfs_kids ks.
Proof.
  cbn [wfs]. assert (H : forall l, (fix go (l : list (str * stree)) : Prop :=
      match l with [] => True | kc :: r => wfs (snd kc) /\ go r end) l <-> wfs_kids l).
  { induction l as [|kc r IH]; [reflexivity|]. cbn [wfs_kids]. now rewrite IH. }
  now rewrite H.
Qed.

Definition tnp (kc : str * stree) : str * node := (fst kc, to_node (snd kc)).

Lemma to_node_dir pm mt ks : to_node (SDir pm mt ks) = Dir pm mt (map tnp ks).
Proof. reflexivity. Qed.

Lemma names_tnp ks : map fst (map tnp ks) = map fst ks.
Proof. induction ks as [|kc r IH]; [reflexivity|]. cbn. now rewrite IH. Qed.

Lemma kid_tnp_in (done : list (str * stree)) kc r :
  ~ In (fst kc) (map fst done) -> kid (fst kc) (map tnp (done ++ kc :: r)) = Some (to_node (snd kc)).
Proof.
  intros Hn. rewrite map_app. cbn [map]. apply (kid_middle (fst kc) (map tnp done) (to_node (snd kc)) (map tnp r)).
  now apply (kid_map_none tnp (fun _ => eq_refl)).
Qed.

Lemma sorted_head_lt : forall l a, sorted_strict (a :: l) = true -> forall b, In b l -> str_ltb a b = true.
Proof.
  induction l as [|c r IH]; intros a H b Hin; [destruct Hin|].
  cbn [sorted_strict] in H. apply andb_true_iff in H as [Hac Hr].
  destruct Hin as [<-|Hin]; [exact Hac|].
  eapply str_ltb_trans; [exact Hac|]. now apply IH.
Qed.

Lemma sorted_tail a l : sorted_strict (a :: l) = true -> sorted_strict l = true.
Proof. cbn [sorted_strict]. destruct l; [reflexivity|]. intros H. now apply andb_true_iff in H as [_ H]. Qed.

Lemma sorted_nodup l : sorted_strict l = true -> NoDup l.
Proof.
  induction l as [|a r IH]; intros H; constructor.
  - intros Hin. pose proof (sorted_head_lt r a H a Hin) as Hlt. rewrite str_ltb_irrefl in Hlt. discriminate.
  - apply IH. eapply sorted_tail; exact H.
Qed.

Lemma sec_of_mtime_of m : mtime_of m = sec_of m.
Proof. destruct m; reflexivity. Qed.

Lemma sheight_kid_lt pm mt ks kc fuel : sheight (SDir pm mt ks) < S fuel -> In kc ks -> sheight (snd kc) < fuel.
Proof.
  cbn [sheight]. intros H Hin. apply Nat.succ_lt_mono in H. rename H into H'.
  induction ks as [|a r IH]; [destruct Hin|]. cbn [fold_right] in H'.
  destruct Hin as [->|Hin]; [lia|]. apply IH; [lia|exact Hin].
Qed.

Section PackSide.
Variable fs : node.
Variable opts : popts.
Variable root : list str.
Hypothesis Hroot_ok : forallb seg_ok root = true.

Lemma pack_simple : forall fuel t rel a chain,
  sheight t < fuel -> wfs t -> wf t -> forallb seg_ok rel = true -> links_ok rel t -> rel <> [] ->
  pack_node fs opts None root fuel root root chain (root ++ rel) (to_node t) a
  = inl (fold_left emit (map of_entry (tentries rel t)) a).
Proof.
  induction fuel as [|fuel IH]; intros t rel a chain Hh Hw Hwf Hsegs Hlk Hne; [lia|].
  destruct rel as [|r0 rr]; [congruence|]. set (rel := r0 :: rr) in *.
  cbn [pack_node]. rewrite strip_prefix_self. unfold rel at 1. cbn match. fold rel.
  cbn [excl fst]. rewrite rel_comps_under.
  destruct t as [d pm mt|l|k|pm mt ks].
  - cbn [to_node is_dir]. cbn match. cbn [tentries map fold_left]. unfold of_entry, entry_name. cbn [e_name e_type e_link e_mode e_mtime e_body].
    now rewrite app_nil_r, sec_of_mtime_of.
  - cbn [to_node is_dir]. cbn match. cbn [tentries map fold_left]. unfold of_entry, entry_name. cbn [e_name e_type e_link e_mode e_mtime e_body].
    rewrite app_nil_r.
    destruct (exists_last Hne) as (pre & x & Erel). cbn [links_ok] in Hlk. rewrite Erel in Hlk, Hsegs |- *.
    rewrite removelast_snoc in Hlk.
    destruct (clean_join_abs root Hroot_ok) as [Hcl Hco].
    pose proof (valid_symlink_stays (o_allow opts) (join_abs root) pre x l (conj eq_refl Hcl) Hsegs Hlk) as Hvs.
    rewrite Hco in Hvs. rewrite Hvs. reflexivity.
  - reflexivity.
  - rewrite to_node_dir. cbn [is_dir]. cbn match.
    apply wfs_dir in Hw as [Hsorted Hwk]. apply wf_dir in Hwf as [_ Hwfk]. apply links_ok_dir in Hlk.
    rewrite tentries_dir. cbn [map fold_left]. unfold of_entry at 1. cbn [e_name e_type e_link e_mode e_mtime e_body].
    unfold entry_name at 1. unfold join_rel. rewrite sec_of_mtime_of.
    set (a1 := emit a _).
    unfold readdir. rewrite names_tnp, (sort_names_sorted _ Hsorted).
    pose proof (sorted_nodup _ Hsorted) as Hnd.
    (* the children in order *)
    assert (Hloop : forall l done a0, ks = done ++ l ->
              fold_left (fun (r : acc + packres) name =>
                           match r with
                           | inr e => inr e
                           | inl a2 => match kid name (map tnp ks) with
                                       | Some c => pack_node fs opts None root fuel root root chain ((root ++ rel) ++ [name]) c a2
                                       | None => inl a2
                                       end
                           end) (map fst l) (inl a0)
              = inl (fold_left emit (map of_entry (kids_entries rel l)) a0)).
    { induction l as [|kc r IHl]; intros done a0 Hks; [reflexivity|].
      cbn [map fold_left kids_entries].
      assert (Hnin : ~ In (fst kc) (map fst done)).
      { rewrite Hks, map_app in Hnd. cbn [map] in Hnd. apply NoDup_remove_2 in Hnd. intros Hin. apply Hnd. apply in_or_app. now left. }
      rewrite Hks at 1. rewrite (kid_tnp_in done kc r Hnin).
      assert (Hkc : In kc ks) by (rewrite Hks; apply in_or_app; right; now left).
      assert (Hwc : wfs (snd kc)).
      { clear - Hwk Hkc. induction ks as [|x q IHq]; [destruct Hkc|]. cbn in Hwk. destruct Hwk as [H1 H2].
        destruct Hkc as [->|Hin]; [exact H1|now apply IHq]. }
      rewrite <- app_assoc.
      destruct (wf_kids_in ks kc Hwfk Hkc) as [Hsk Hwfc].
      assert (Hsegk : forallb seg_ok (rel ++ [fst kc]) = true) by (rewrite forallb_app, Hsegs; cbn; now rewrite Hsk).
      rewrite (IH (snd kc) (rel ++ [fst kc]) a0 chain (sheight_kid_lt _ _ _ _ _ Hh Hkc) Hwc Hwfc Hsegk
                  (links_ok_kids_in rel ks kc Hlk Hkc) ltac:(destruct rel; discriminate)).
      rewrite (IHl (done ++ [kc]) _ ltac:(rewrite Hks, <- app_assoc; reflexivity)).
      now rewrite map_app, fold_left_app. }
    exact (Hloop ks [] a1 eq_refl).
Qed.
End PackSide.

(* ---------- the whole of Pack on such a tree ---------- *)
Lemma fold_emit_es L : forall es0 f0 s0,
  fst (fst (fold_left emit L (es0, f0, s0))) = rev L ++ es0.
Proof.
  induction L as [|e L IH]; intros es0 f0 s0; [reflexivity|].
  cbn [fold_left]. unfold emit at 2. rewrite IH. cbn [rev]. now rewrite <- app_assoc.
Qed.

Lemma pack_root_kids fs opts root (Hroot_ok : forallb seg_ok root = true) : forall fuel pmR mtR ks a chain,
  sheight (SDir pmR mtR ks) < fuel -> wfs (SDir pmR mtR ks) -> wf (SDir pmR mtR ks) -> links_ok [] (SDir pmR mtR ks) ->
  pack_node fs opts None root fuel root root chain root (to_node (SDir pmR mtR ks)) a
  = inl (fold_left emit (map of_entry (kids_entries [] ks)) a).
Proof.
  intros fuel pmR mtR ks a chain Hh Hw Hwf Hlk. destruct fuel as [|fuel]; [lia|].
  cbn [pack_node]. rewrite <- (app_nil_r root) at 2. rewrite strip_prefix_self. cbn match.
  rewrite to_node_dir. apply wfs_dir in Hw as [Hsorted Hwk]. apply wf_dir in Hwf as [_ Hwfk]. apply links_ok_dir in Hlk.
  unfold readdir. rewrite names_tnp, (sort_names_sorted _ Hsorted).
  pose proof (sorted_nodup _ Hsorted) as Hnd.
  assert (Hloop : forall l done a0, ks = done ++ l ->
            fold_left (fun (r : acc + packres) name =>
                         match r with
                         | inr e => inr e
                         | inl a2 => match kid name (map tnp ks) with
                                     | Some c => pack_node fs opts None root fuel root root chain (root ++ [name]) c a2
                                     | None => inl a2
                                     end
                         end) (map fst l) (inl a0)
            = inl (fold_left emit (map of_entry (kids_entries [] l)) a0)).
  { induction l as [|kc r IHl]; intros done a0 Hks; [reflexivity|].
    cbn [map fold_left kids_entries].
    assert (Hnin : ~ In (fst kc) (map fst done)).
    { rewrite Hks, map_app in Hnd. cbn [map] in Hnd. apply NoDup_remove_2 in Hnd. intros Hin. apply Hnd. apply in_or_app. now left. }
    rewrite Hks at 1. rewrite (kid_tnp_in done kc r Hnin).
    assert (Hkc : In kc ks) by (rewrite Hks; apply in_or_app; right; now left).
    assert (Hwc : wfs (snd kc)).
    { clear - Hwk Hkc. induction ks as [|x q IHq]; [destruct Hkc|]. cbn in Hwk. destruct Hwk as [H1 H2].
      destruct Hkc as [->|Hin]; [exact H1|now apply IHq]. }
    destruct (wf_kids_in ks kc Hwfk Hkc) as [Hsk Hwfc].
    rewrite (pack_simple fs opts root Hroot_ok fuel (snd kc) [fst kc] a0 chain (sheight_kid_lt _ _ _ _ _ Hh Hkc) Hwc Hwfc
               ltac:(cbn; now rewrite Hsk) (links_ok_kids_in [] ks kc Hlk Hkc) ltac:(discriminate)).
    rewrite (IHl (done ++ [kc]) _ ltac:(rewrite Hks, <- app_assoc; reflexivity)).
    now rewrite map_app, fold_left_app. }
  exact (Hloop ks [] a eq_refl).
Qed.

Theorem pack_simple_tree fs opts flags cwd fuel pre x pmR mtR ks :
  is_dir fs = true -> rdir fs pre -> forallb seg_ok (pre ++ [x]) = true ->
  get fs (pre ++ [x]) = Some (to_node (SDir pmR mtR ks)) ->
  o_ignore opts = false -> sheight (SDir pmR mtR ks) < fuel -> wfs (SDir pmR mtR ks) ->
  wf (SDir pmR mtR ks) -> links_ok [] (SDir pmR mtR ks) ->
  exists files size,
    pack fuel fs opts flags cwd (join_abs (pre ++ [x]))
    = (PackOk (map of_entry (kids_entries [] ks)) files size, flags).
Proof.
  intros Hd Hr Hs Hg Hig Hh Hw Hwf Hlk. set (R := pre ++ [x]) in *.
  destruct (clean_join_abs R Hs) as [Hcl Hco].
  assert (Hpl : forallb plainb pre = true /\ plain x = true).
  { pose proof (seg_ok_plainb _ Hs) as Hp. unfold R in Hp. rewrite forallb_app in Hp. apply andb_true_iff in Hp as [H1 H2].
    cbn in H2. apply andb_true_iff in H2 as [H2 _]. auto. }
  unfold pack.
  assert (Hroot : is_rooted (join_abs R) = true) by reflexivity.
  unfold start_of. rewrite Hroot.
  assert (Hwalk : walk max_links fs false [] (split_on slash (join_abs R)) = Ok R).
  { unfold join_abs. cbn [split_on]. rewrite Ascii.eqb_refl.
    rewrite split_join; [|unfold R; destruct pre; discriminate|intros g Hgi; apply seg_ok_no_slash; rewrite forallb_forall in Hs; now apply Hs].
    rewrite walk_cons. cbn [is_empty orb]. unfold R.
    apply (walk_real fs false pre max_links [] fs x eq_refl Hr (proj1 Hpl) (proj2 Hpl)). now left. }
  rewrite Hwalk, Hg. rewrite to_node_dir. rewrite Hig.
  rewrite Hroot, Hcl, Hco.
  assert (Hls : lstat fs R = Ok (Dir pmR mtR (map tnp ks))).
  { unfold R. apply (lstat_nonlink fs pre x Hr (proj1 Hpl) (proj2 Hpl)); [now rewrite <- to_node_dir|reflexivity]. }
  rewrite Hls. rewrite <- to_node_dir.
  rewrite (pack_root_kids fs opts R Hs fuel pmR mtR ks _ _ Hh Hw Hwf Hlk).
  destruct (fold_left emit (map of_entry (kids_entries [] ks)) ([], [], 0%N)) as [[es files] size] eqn:E.
  exists (rev files), size. f_equal. f_equal.
  pose proof (fold_emit_es (map of_entry (kids_entries [] ks)) [] [] 0%N) as Hes. rewrite E in Hes. cbn [fst] in Hes.
  rewrite Hes, app_nil_r, rev_involutive. reflexivity.
Qed.

(* ====================================================================== *)
(* C02: Pack, then Unpack into an empty directory                          *)
(* ====================================================================== *)
Theorem pack_unpack_round_trip fs opts flags cwd fuel pre x pmR mtR ks dst pmD mtD :
  is_dir fs = true -> rdir fs pre -> forallb seg_ok (pre ++ [x]) = true ->
  get fs (pre ++ [x]) = Some (to_node (SDir pmR mtR ks)) ->
  o_ignore opts = false -> sheight (SDir pmR mtR ks) < fuel ->
  wf (SDir pmR mtR ks) -> wfs (SDir pmR mtR ks) -> links_ok [] (SDir pmR mtR ks) ->
  dst_ok dst -> rdir fs (comps_of dst) -> get fs (comps_of dst) = Some (Dir pmD mtD []) ->
  exists es files size,
    pack fuel fs opts flags cwd (join_abs (pre ++ [x])) = (PackOk es files size, flags) /\
    unpack true (o_allow opts) fs dst (map to_entry es)
    = (put fs (comps_of dst) (Dir pmD (match rpk ks with [] => mtD | _ => None end) (rpk ks)), ROk).
Proof.
  intros Hd Hr Hs Hg Hig Hh Hwf Hwfs Hlk Hdst HrD HgD.
  destruct (pack_simple_tree fs opts flags cwd fuel pre x pmR mtR ks Hd Hr Hs Hg Hig Hh Hwfs Hwf Hlk) as (files & size & Hp).
  exists (map of_entry (kids_entries [] ks)), files, size. split; [exact Hp|].
  rewrite map_map. rewrite (map_ext _ (fun e => e) to_of_entry), map_id.
  apply wf_dir in Hwf as [Hnd Hwk]. apply links_ok_dir in Hlk.
  exact (unpack_tree_entries (o_allow opts) fs dst Hdst Hd HrD pmD mtD ks HgD Hnd Hwk Hlk).
Qed.
