(* Functional facts about Unpack on the model (C15, C04). *)
From Slug Require Import Base.Str Base.PathAlg Base.PathLemmas FS.FS FS.FSProofs Slug.Unpack Slug.UnpackSafe.

(* ---------- an entry of a type that cannot be represented is rejected ---------- *)
Definition supported (e : entry) : bool := is_dir_e e || is_sym e || is_reg e || is_typex e.

Lemma new_unpack_info_unsupported fs dst e : supported e = false -> new_unpack_info fs dst e = None.
Proof.
  intros H. unfold new_unpack_info, supported in *.
  destruct (e_name e) as [|c r]; [reflexivity|].
  destruct (rel_inside dst _) as [comps|]; [|reflexivity].
  destruct (lstat_walk fs (comps_of dst) comps _); [|reflexivity]. now rewrite H.
Qed.

Theorem unsupported_fails is_root allow fs dst dirs e :
  e_name e <> [] -> supported e = false ->
  snd (unpack_entry is_root allow fs dst dirs e) = Some RIllegal.
Proof.
  intros Hn Hs. unfold unpack_entry. destruct (e_name e) eqn:E; [congruence|].
  now rewrite (new_unpack_info_unsupported fs dst e Hs).
Qed.

Lemma unpack_entries_stop is_root allow dst : forall es fs dirs e r fs1 dirs1,
  In e es ->
  (forall fs dirs, snd (unpack_entry is_root allow fs dst dirs e) = Some r) ->
  unpack_entries is_root allow fs dst dirs es = (fs1, dirs1, None) -> False.
Proof.
  induction es as [|x es IH]; intros fs dirs e r fs1 dirs1 Hin He H; [contradiction|].
  cbn in H. destruct (unpack_entry is_root allow fs dst dirs x) as [[fs2 dirs2] r2] eqn:Ex.
  destruct Hin as [->|Hin].
  - specialize (He fs dirs). rewrite Ex in He. cbn in He. subst r2. discriminate.
  - destruct r2; [discriminate|]. eapply IH; eauto.
Qed.

(* A successful Unpack saw no entry of an unsupported type: such an entry makes
   Unpack fail rather than be dropped. *)
Theorem unpack_ok_all_supported is_root allow fs dst es fs' :
  unpack is_root allow fs dst es = (fs', ROk) ->
  forall e, In e es -> e_name e <> [] -> supported e = true.
Proof.
  intros H e Hin Hn. destruct (supported e) eqn:Es; [reflexivity|exfalso].
  unfold unpack in H. destruct (unpack_entries is_root allow fs dst [] es) as [[fs1 dirs1] r1] eqn:Ee.
  destruct r1 as [r1|].
  - injection H as _ ->.
    (* the run stopped with ROk as a stop reason: impossible, stops carry an error *)
    clear - Ee. revert fs Ee. generalize (@nil (list str * entry)) as dirs.
    induction es as [|x es IH]; intros dirs fs Ee; cbn in Ee; [discriminate|].
    destruct (unpack_entry is_root allow fs dst dirs x) as [[fs2 dirs2] r2] eqn:Ex.
    destruct r2 as [r2|]; [|eapply IH; eauto].
    injection Ee as _ _ ->. unfold unpack_entry in Ex.
    repeat match type of Ex with
           | context [match ?t with _ => _ end] => destruct t eqn:?; try discriminate
           | context [if ?t then _ else _] => destruct t eqn:?; try discriminate
           end; try (injection Ex; intros; discriminate).
  - eapply (unpack_entries_stop is_root allow dst es fs [] e RIllegal); eauto.
    intros fs0 dirs0. now apply unsupported_fails.
Qed.

(* ---------- C04: accepted link targets are lexically inside ---------- *)
Theorem valid_symlink_lexical dst p t :
  valid_symlink [] dst p t = true ->
  within (clean dst)
         (if is_rooted t then clean t
          else fjoin (dir_of (if is_rooted p then p else fjoin (clean dst) p)) t) = true.
Proof. unfold valid_symlink. cbn [existsb]. now rewrite orb_false_r. Qed.

(* ... but lexical containment is not physical containment: two links, each
   fine as text, together leave the destination (known finding KF-C04-1) *)
Definition demo_fs : node :=
  Dir 493 None [(s2l "w", Dir 493 None [(s2l "dst", Dir 493 None []); (s2l "victim", File (s2l "v") 420 None)])].
Definition demo_entries : list entry :=
  [ mkEntry (s2l "a") ty_sym (s2l ".") 511 0 [];
    mkEntry (s2l "b") ty_sym (s2l "a/..") 511 0 [] ].

Example physical_escape_witness :
  let '(fs', r) := unpack true [] demo_fs (s2l "/w/dst") demo_entries in
  r = ROk /\ resolve fs' true [s2l "w"; s2l "dst"; s2l "b"] = Ok [s2l "w"].
Proof. vm_compute. split; reflexivity. Qed.
