(* Theorems about the bundle lookups (C18): directory names of an opened
   bundle are single plain names; forward lookups land inside the root, under
   the directory of a stored package; the reverse lookup inverts them and
   reports everything else as not belonging to the bundle. *)
From Slug Require Import Base.Str Base.PathAlg Base.PathLemmas Base.Rooted Addr.Resolve Addr.ResolveProofs
  Addr.Url Addr.Parse Addr.Policy Addr.ParseProofs Bundle.Lookup.
From Coq Require Import Lia.

(* ---------- components of rooted paths (Base/Rooted.v) ---------- *)
Theorem comps_rooted p : is_rooted p = true -> comps p = rev (rstack p).
Proof. exact (rcomps_rooted p). Qed.

(* ---------- directory names ---------- *)
Lemma local_dir_seg_ok d : local_dir_ok d = true -> seg_ok d = true.
Proof.
  unfold local_dir_ok. rewrite !andl_spec. intros H.
  apply andb_true_iff in H as [H Hs]. apply andb_true_iff in H as [Hv Hd].
  apply negb_true_iff in Hd. apply str_eqb_neq in Hd.
  pose proof (valid_path_plain d Hv Hd) as Hp.
  apply negb_true_iff in Hs. unfold seg_ok. rewrite Hs. cbn. rewrite andb_true_r.
  rewrite split_on_no_sep in Hp.
  - cbn in Hp. now rewrite andb_true_r in Hp.
  - intros Hin. apply mem_char_In in Hin. congruence.
Qed.

(* a single name: not empty, ".", ".." and without separator *)
Theorem local_dir_ok_spec d :
  local_dir_ok d = true -> d <> [] /\ d <> [dot] /\ d <> [dot; dot] /\ ~ In slash d.
Proof.
  intros H. apply local_dir_seg_ok in H. pose proof (seg_ok_no_slash _ H) as Hs.
  apply seg_ok_plain, plain_cases in H as (H1 & H2 & H3).
  repeat split; try exact Hs; intros ->; discriminate.
Qed.

(* ---------- forward lookups land under root/dir ---------- *)
Definition rel_segs (d sub : str) : list str := d :: sub_segs sub.

Lemma join3_arg root d sub :
  valid_sub sub ->
  root ++ slash :: d ++ (match sub with [] => [] | _ => slash :: sub end)
  = root ++ slash :: join_with slash (rel_segs d sub).
Proof.
  intros Hv. unfold rel_segs, sub_segs. destruct sub as [|c s]; [cbn; now rewrite app_nil_r|].
  pose proof (split_on_nonempty slash (c :: s)) as Hne.
  destruct (split_on slash (c :: s)) as [|g gs] eqn:E; [congruence|].
  change (join_with slash (d :: g :: gs)) with (d ++ slash :: join_with slash (g :: gs)).
  rewrite <- E, join_split. reflexivity.
Qed.

Theorem join3_comps root d sub :
  is_rooted root = true -> local_dir_ok d = true -> valid_sub sub ->
  comps (join3 root d sub) = comps root ++ d :: sub_segs sub.
Proof.
  intros Hr Hd Hv. unfold join3. rewrite join3_arg by exact Hv.
  set (X := root ++ slash :: join_with slash (rel_segs d sub)).
  assert (HrX : is_rooted X = true) by (destruct root; [discriminate|exact Hr]).
  assert (Hsegs : forallb seg_ok (rel_segs d sub) = true).
  { unfold rel_segs. cbn. now rewrite (local_dir_seg_ok _ Hd), (valid_sub_segs _ Hv). }
  assert (Hst : rstack X = rev (rel_segs d sub) ++ rstack root)
    by (apply rstack_app_plain; [discriminate|exact Hsegs]).
  (* the cleaned path is rooted and has the same stack *)
  rewrite (clean_rooted X HrX). unfold comps.
  assert (Hc : clean (slash :: join_with slash (rev (rstack X))) = slash :: join_with slash (rev (rstack X))).
  { rewrite clean_rooted by reflexivity. f_equal. f_equal. f_equal.
    unfold rstack at 1. cbn [split_on]. rewrite Ascii.eqb_refl.
    cbn [nrun fold_left nstep is_empty orb].
    pose proof (rstack_ok X) as Hok. unfold st_ok in Hok. cbn [snd] in Hok.
    destruct (rstack X) as [|g rn] eqn:E; [reflexivity|].
    rewrite split_join.
    - change (fold_left (nstep true) ?l ?s) with (nrun true s l).
      rewrite nrun_plain by (apply forallb_seg_ok_plain; now rewrite forallb_seg_ok_rev).
      cbn [snd]. now rewrite rev_involutive, app_nil_r.
    - cbn. destruct (rev rn); discriminate.
    - intros x Hx. apply seg_ok_no_slash. rewrite <- forallb_seg_ok_rev in Hok.
      rewrite forallb_forall in Hok. now apply Hok. }
  rewrite Hc, split_rooted_print by apply (rstack_ok X).
  rewrite Hst, rev_app_distr, rev_involutive, <- comps_rooted by exact Hr. reflexivity.
Qed.

(* ---------- maps ---------- *)
Lemma url_eqb_spec a b : url_eqb a b = true <-> a = b.
Proof.
  destruct a, b. unfold url_eqb. cbn. rewrite !andl_spec, !andb_true_iff, !str_eqb_eq, !Bool.eqb_true_iff.
  split; [intros H; decompose [and] H; now subst|intros [= -> -> -> -> -> -> -> -> -> -> ->]; tauto].
Qed.

Lemma rpkg_eqb_spec a b : rpkg_eqb a b = true <-> a = b.
Proof.
  destruct a, b. unfold rpkg_eqb. cbn. rewrite andl_spec, andb_true_iff, str_eqb_eq, url_eqb_spec.
  split; [intros [-> ->]; reflexivity|intros [= -> ->]; tauto].
Qed.

Section AssocFacts.
  Context {K V : Type} (eqb : K -> K -> bool).
  Hypothesis eqb_spec : forall a b, eqb a b = true <-> a = b.

  Definition keys_nodup (l : list (K * V)) : Prop := NoDup (map fst l).

  Lemma eqb_refl k : eqb k k = true. Proof. now apply eqb_spec. Qed.

  Lemma aset_keys k (v : V) l : forall x, In x (map fst (aset eqb k v l)) <-> x = k \/ In x (map fst l).
  Proof.
    induction l as [|[k' v'] l IH]; intros x; cbn.
    - split; [intros [H|[]]; now left|intros [H|[]]; now left].
    - destruct (eqb k k') eqn:E.
      + apply eqb_spec in E. subst. cbn. split; [intros [H|H]; auto|intros [H|[H|H]]; auto].
      + cbn. rewrite IH. split; [intros [H|[H|H]]; auto|intros [H|[H|H]]; auto].
  Qed.

  Lemma aset_nodup k (v : V) l : keys_nodup l -> keys_nodup (aset eqb k v l).
  Proof.
    unfold keys_nodup. induction l as [|[k' v'] l IH]; intros H; cbn.
    - constructor; [tauto|constructor].
    - destruct (eqb k k') eqn:E.
      + apply eqb_spec in E. subst. exact H.
      + cbn. inversion H as [|? ? Hn Hl]; subst. constructor; [|now apply IH].
        rewrite aset_keys. intros [->|Hin]; [|contradiction].
        rewrite eqb_refl in E. discriminate.
  Qed.

  Lemma aset_values (P : V -> Prop) k v l :
    P v -> (forall e, In e l -> P (snd e)) -> forall e, In e (aset eqb k v l) -> P (snd e).
  Proof.
    intros Hv. induction l as [|[k' v'] l IH]; intros Hl e; cbn.
    - intros [<-|[]]. exact Hv.
    - destruct (eqb k k').
      + intros [<-|Hin]; [exact Hv|]. apply Hl. now right.
      + intros [<-|Hin]; [apply (Hl (k', v')); now left|].
        apply IH; [|exact Hin]. intros e' He'. apply Hl. now right.
  Qed.

  Lemma alookup_in k (v : V) (l : list (K * V)) : keys_nodup l -> In (k, v) l -> alookup eqb k l = Some v.
  Proof.
    unfold keys_nodup. induction l as [|[k' v'] l IH]; intros Hn Hin; [destruct Hin|].
    cbn. inversion Hn as [|? ? Hnot Hl]; subst. destruct Hin as [[= -> ->]|Hin].
    - now rewrite eqb_refl.
    - destruct (eqb k k') eqn:E; [|now apply IH].
      apply eqb_spec in E. subst. exfalso. apply Hnot. apply in_map_iff. now exists (k', v).
  Qed.

  Lemma alookup_some k (v : V) (l : list (K * V)) : alookup eqb k l = Some v -> In (k, v) l.
  Proof.
    induction l as [|[k' v'] l IH]; [discriminate|]. cbn.
    destruct (eqb k k') eqn:E.
    - apply eqb_spec in E. subst. intros [= ->]. now left.
    - intros H. right. now apply IH.
  Qed.
End AssocFacts.

(* ---------- what OpenDir establishes ---------- *)
Definition dirs_inv (dirs : list (rpkg * str)) : Prop :=
  keys_nodup dirs /\ forall e, In e dirs -> local_dir_ok (snd e) = true.

Lemma load_packages_inv ps : forall dirs meta dirs' meta',
  dirs_inv dirs -> load_packages ps dirs meta = Ok (dirs', meta') -> dirs_inv dirs'.
Proof.
  induction ps as [|p ps IH]; intros dirs meta dirs' meta' Hinv; cbn.
  - intros [= <- <-]. exact Hinv.
  - destruct (negb (all_ascii (mp_local p))); [discriminate|].
    destruct (local_dir_ok (mp_local p)) eqn:Ed; [|discriminate].
    destruct (parse_remote_pkg (mp_source p)) as [pkg| |]; cbn [rbind]; try discriminate.
    apply IH. destruct Hinv as [Hn Hd]. split.
    + apply aset_nodup; [exact rpkg_eqb_spec|exact Hn].
    + apply (aset_values rpkg_eqb (fun d => local_dir_ok d = true)); assumption.
Qed.

Theorem open_dir_dirs root m b : open_dir root m = Ok b -> b_root b = root /\ dirs_inv (b_dirs b).
Proof.
  unfold open_dir. destruct (negb (N.eqb (m_format m) 1)); [discriminate|].
  destruct (load_packages (m_packages m) [] []) as [[dirs meta]| |] eqn:E; cbn [rbind]; try discriminate.
  destruct (load_registry (m_registry m) [] []) as [[reg depr]| |]; cbn [rbind]; try discriminate.
  intros [= <-]. cbn. split; [reflexivity|].
  eapply load_packages_inv; [|exact E]. split; [constructor|intros e []].
Qed.

(* manifests naming a package directory with a separator, "." or ".." (or nothing) are refused *)
Theorem open_dir_refuses_bad_dir root m p :
  In p (m_packages m) ->
  (mp_local p = [] \/ mp_local p = [dot] \/ mp_local p = [dot; dot] \/ In slash (mp_local p)) ->
  forall b, open_dir root m <> Ok b.
Proof.
  intros Hin Hbad b Hopen.
  assert (Hno : local_dir_ok (mp_local p) = false).
  { destruct (local_dir_ok (mp_local p)) eqn:E; [|reflexivity].
    apply local_dir_ok_spec in E as (H1 & H2 & H3 & H4). destruct Hbad as [H|[H|[H|H]]]; contradiction. }
  unfold open_dir in Hopen. destruct (negb (N.eqb (m_format m) 1)); [discriminate|].
  assert (Hl : forall ps dirs meta, In p ps -> forall r, load_packages ps dirs meta <> Ok r).
  { induction ps as [|q ps IH]; intros dirs meta Hp r; [destruct Hp|]. cbn.
    destruct Hp as [->|Hp].
    - rewrite Hno. destruct (negb (all_ascii (mp_local p))); discriminate.
    - destruct (negb (all_ascii (mp_local q))); [discriminate|].
      destruct (local_dir_ok (mp_local q)); [|discriminate].
      destruct (parse_remote_pkg (mp_source q)); cbn [rbind]; try discriminate. now apply IH. }
  destruct (load_packages (m_packages m) [] []) as [r| |] eqn:E; cbn [rbind] in Hopen; try discriminate.
  exact (Hl _ _ _ Hin r E).
Qed.

(* ---------- C18: forward lookups stay inside, the reverse lookup inverts them ---------- *)
Definition inside_pkg (b : bundle) (path : str) (d : str) (rest : list str) : Prop :=
  comps path = comps (b_root b) ++ d :: rest /\ local_dir_ok d = true /\ forallb seg_ok rest = true.

Theorem local_path_remote_inside b p sub path :
  is_rooted (b_root b) = true -> dirs_inv (b_dirs b) -> valid_sub sub ->
  local_path_remote b p sub = Some path ->
  exists d, alookup rpkg_eqb p (b_dirs b) = Some d /\ path = join3 (b_root b) d sub /\
            inside_pkg b path d (sub_segs sub).
Proof.
  intros Hr [Hn Hd] Hv. unfold local_path_remote.
  destruct (alookup rpkg_eqb p (b_dirs b)) as [d|] eqn:E; [|discriminate]. intros [= <-].
  exists d. split; [reflexivity|]. split; [reflexivity|].
  assert (Hok : local_dir_ok d = true).
  { apply (Hd (p, d)). eapply alookup_some; [exact rpkg_eqb_spec|exact E]. }
  split; [now apply join3_comps|]. split; [exact Hok|now apply valid_sub_segs].
Qed.

Lemma strip_prefix_app pre l : strip_prefix pre (pre ++ l) = Some l.
Proof. induction pre as [|a pre IH]; [reflexivity|]. cbn. now rewrite str_eqb_refl. Qed.

Lemma strip_prefix_some pre l r : strip_prefix pre l = Some r -> l = pre ++ r.
Proof.
  revert l; induction pre as [|a pre IH]; intros l; [now intros [= ->]|].
  destruct l as [|x l]; [discriminate|]. cbn.
  destruct (str_eqb_spec a x) as [->|]; [|discriminate]. intros H. now rewrite (IH _ H).
Qed.

Lemma join_sub_segs sub : join_with slash (sub_segs sub) = sub.
Proof. unfold sub_segs. destruct sub; [reflexivity|apply join_split]. Qed.

Lemma best_key_attained (l : list rpkg) first :
  best_key first l = first \/ exists c, In c l /\ rpkg_string c = best_key first l.
Proof.
  induction l as [|x l IH]; cbn; [now left|].
  fold (best_key first l). destruct (better (rpkg_string x) (best_key first l)).
  - right. exists x. split; [now left|reflexivity].
  - destruct IH as [IH|(c & Hin & Hc)]; [now left|]. right. exists c. split; [now right|exact Hc].
Qed.

Lemma best_attained c l : exists c', In c' (c :: l) /\ rpkg_string c' = best_key (rpkg_string c) (c :: l).
Proof.
  destruct (best_key_attained (c :: l) (rpkg_string c)) as [H|H]; [|exact H].
  exists c. split; [now left|now rewrite H].
Qed.

(* the reverse lookup on a path obtained by a forward lookup gives back the
   directory and sub-path, and only packages stored in that directory *)
Theorem reverse_of_forward b p sub path :
  is_rooted (b_root b) = true -> dirs_inv (b_dirs b) -> valid_sub sub ->
  local_path_remote b p sub = Some path ->
  exists d cands,
    source_for_local_path b path = Some (d, sub, cands) /\ cands <> [] /\
    forall c, In c cands -> local_path_remote b c sub = Some path.
Proof.
  intros Hr Hinv Hv Hf.
  destruct (local_path_remote_inside b p sub path Hr Hinv Hv Hf) as (d & Hl & -> & Hc & Hd & Hs).
  destruct Hinv as [Hn Hdirs].
  unfold source_for_local_path. rewrite Hc, strip_prefix_app.
  assert (Hp : In p (candidates b d)).
  { unfold candidates. apply in_map_iff. exists (p, d). split; [reflexivity|].
    apply filter_In. split; [eapply alookup_some; [exact rpkg_eqb_spec|exact Hl]|apply str_eqb_refl]. }
  destruct (candidates b d) as [|c0 cs] eqn:Ec; [destruct Hp|].
  exists d. eexists. rewrite join_sub_segs. split; [reflexivity|]. rewrite <- Ec in *. split.
  - (* the winning text is printed by some candidate *)
    rewrite Ec. destruct (best_attained c0 cs) as (c & Hin & Hk).
    intros Hnil.
    assert (Hf' : In c (filter (fun c => str_eqb (rpkg_string c) (best_key (rpkg_string c0) (c0 :: cs))) (c0 :: cs))).
    { apply filter_In. split; [exact Hin|]. rewrite Hk. apply str_eqb_refl. }
    rewrite Hnil in Hf'. destruct Hf'.
  - intros c Hc'. apply filter_In in Hc' as [Hc' _]. unfold candidates in Hc'.
    apply in_map_iff in Hc' as ([c' d'] & <- & Hin). apply filter_In in Hin as [Hin Heq].
    cbn in Heq. apply str_eqb_eq in Heq. subst d'. cbn [fst].
    unfold local_path_remote. rewrite (alookup_in rpkg_eqb rpkg_eqb_spec c' d _ Hn Hin). reflexivity.
Qed.

(* whatever the reverse lookup attributes to the bundle lies inside a package directory *)
Theorem reverse_only_inside b path d sub cands :
  dirs_inv (b_dirs b) ->
  source_for_local_path b path = Some (d, sub, cands) ->
  exists rest, comps path = comps (b_root b) ++ d :: rest /\ sub = join_with slash rest /\
    local_dir_ok d = true /\
    forall c, In c cands -> alookup rpkg_eqb c (b_dirs b) = Some d.
Proof.
  intros [Hn Hdirs]. unfold source_for_local_path.
  destruct (strip_prefix (comps (b_root b)) (comps path)) as [[|d' rest]|] eqn:E; try discriminate.
  destruct (candidates b d') as [|c0 cs] eqn:Ec; [discriminate|]. intros [= <- <- <-].
  exists rest. split; [now apply strip_prefix_some|]. split; [reflexivity|].
  assert (Hc : forall c, In c (candidates b d') -> In (c, d') (b_dirs b)).
  { intros c Hc. unfold candidates in Hc. apply in_map_iff in Hc as ([c' d''] & <- & Hin).
    apply filter_In in Hin as [Hin Heq]. cbn in Heq. apply str_eqb_eq in Heq. now subst. }
  split.
  - apply (Hdirs (c0, d')). apply Hc. rewrite Ec. now left.
  - intros c Hin.
    pose proof (proj1 (filter_In (fun c => str_eqb (rpkg_string c) (best_key (rpkg_string c0) (c0 :: cs))) c (c0 :: cs)) Hin) as [Hin' _].
    rewrite <- Ec in Hin'.
    apply (alookup_in rpkg_eqb rpkg_eqb_spec); [exact Hn|now apply Hc].
Qed.

(* paths that are not below the root, the root itself, and first components
   that are no package directory do not belong to the bundle *)
Theorem reverse_outside b path :
  (forall rest, comps path <> comps (b_root b) ++ rest) \/ comps path = comps (b_root b) \/
  (exists d rest, comps path = comps (b_root b) ++ d :: rest /\ candidates b d = []) ->
  source_for_local_path b path = None.
Proof.
  unfold source_for_local_path. intros [H|[H|(d & rest & H & Hc)]].
  - destruct (strip_prefix (comps (b_root b)) (comps path)) as [r|] eqn:E; [|reflexivity].
    apply strip_prefix_some in E. exfalso. exact (H _ E).
  - rewrite H. rewrite <- (app_nil_r (comps (b_root b))) at 2. now rewrite strip_prefix_app.
  - rewrite H, strip_prefix_app, Hc. reflexivity.
Qed.

(* ---------- registry lookups ---------- *)
Lemma parse_remote_sub_valid s p sub : parse_remote s = Ok (p, sub) -> valid_sub sub.
Proof.
  unfold parse_remote. destruct (expand_shorthand s) as [e| |]; cbn [rbind]; try discriminate.
  destruct (split_sub_path e) as [pkg_raw sub_raw].
  unfold norm_sub. destruct (all_ascii sub_raw); cbn [rbind]; [|discriminate].
  destruct (normalize_subpath sub_raw) as [sub0|] eqn:En; cbn [of_opt rbind]; [|discriminate].
  destruct (match type_split pkg_raw with Some (t, r) => (t, r) | None => ([], pkg_raw) end) as [typ raw].
  destruct (url_parse raw) as [u| |]; cbn [rbind]; try discriminate.
  destruct (is_empty (u_scheme u)); [discriminate|].
  destruct (u_user u); [discriminate|].
  destruct (negb (is_empty (to_lower typ)) &&& str_eqb (to_lower typ) (u_scheme u)); [discriminate|].
  destruct (snd (parse_query (u_query u))); [discriminate|].
  unfold make_remote.
  destruct (str_eqb _ s_git).
  - destruct (prepare_git u); [|discriminate]. intros [= <- <-]. eapply normalize_subpath_valid; eassumption.
  - destruct (str_eqb _ s_http ||| str_eqb _ s_https); [|discriminate].
    destruct (prepare_http u); [|discriminate]. intros [= <- <-]. eapply normalize_subpath_valid; eassumption.
Qed.

Definition vers_inv (vs : list (version * (rpkg * str))) : Prop :=
  forall e, In e vs -> valid_sub (snd (snd e)).
Definition reg_inv (reg : list (mpkg * list (version * (rpkg * str)))) : Prop :=
  forall e, In e reg -> vers_inv (snd e).

Lemma aset_values' {K V} (eqb : K -> K -> bool) (P : V -> Prop) k v (l : list (K * V)) :
  P v -> (forall e, In e l -> P (snd e)) -> forall e, In e (aset eqb k v l) -> P (snd e).
Proof.
  intros Hv. induction l as [|[k' v'] l IH]; intros Hl e; cbn.
  - intros [<-|[]]. exact Hv.
  - destruct (eqb k k').
    + intros [<-|Hin]; [exact Hv|]. apply Hl. now right.
    + intros [<-|Hin]; [apply (Hl (k', v')); now left|].
      apply IH; [|exact Hin]. intros e' He'. apply Hl. now right.
Qed.

Lemma alookup_some' {K V} (eqb : K -> K -> bool) k (v : V) (l : list (K * V)) :
  alookup eqb k l = Some v -> exists k', In (k', v) l.
Proof.
  induction l as [|[k' v'] l IH]; [discriminate|]. cbn.
  destruct (eqb k k').
  - intros [= ->]. exists k'. now left.
  - intros H. destruct (IH H) as [k'' Hin]. exists k''. now right.
Qed.

Lemma load_versions_inv vs : forall srcs deprs srcs' deprs',
  vers_inv srcs -> load_versions vs srcs deprs = Ok (srcs', deprs') -> vers_inv srcs'.
Proof.
  induction vs as [|v vs IH]; intros srcs deprs srcs' deprs' Hinv; cbn.
  - intros [= <- <-]. exact Hinv.
  - destruct (parse_version (mv_version v)) as [ver|]; [|discriminate].
    destruct (parse_remote (mv_source v)) as [[rp rsub]| |] eqn:E; cbn [rbind]; try discriminate.
    apply IH. unfold vers_inv.
    apply (aset_values' version_eqb (fun x => valid_sub (snd x))); [|exact Hinv].
    cbn. eapply parse_remote_sub_valid; exact E.
Qed.

Lemma load_registry_inv rs : forall reg depr reg' depr',
  reg_inv reg -> load_registry rs reg depr = Ok (reg', depr') -> reg_inv reg'.
Proof.
  induction rs as [|r rs IH]; intros reg depr reg' depr' Hinv; cbn.
  - intros [= <- <-]. exact Hinv.
  - destruct (parse_registry_pkg (mr_source r)) as [pkg| |]; cbn [rbind]; try discriminate.
    destruct (load_versions (mr_versions r) (or_nil (alookup mpkg_eqb pkg reg)) (or_nil (alookup mpkg_eqb pkg depr)))
      as [[srcs deprs]| |] eqn:E; cbn [rbind]; try discriminate.
    apply IH. unfold reg_inv.
    apply (aset_values' mpkg_eqb vers_inv); [|exact Hinv].
    eapply load_versions_inv; [|exact E].
    destruct (alookup mpkg_eqb pkg reg) as [l|] eqn:El; cbn [or_nil]; [|intros e []].
    destruct (alookup_some' _ _ _ _ El) as [k' Hin]. exact (Hinv (k', l) Hin).
Qed.

Theorem open_dir_reg root m b : open_dir root m = Ok b -> reg_inv (b_reg b).
Proof.
  unfold open_dir. destruct (negb (N.eqb (m_format m) 1)); [discriminate|].
  destruct (load_packages (m_packages m) [] []) as [[dirs meta]| |]; cbn [rbind]; try discriminate.
  destruct (load_registry (m_registry m) [] []) as [[reg depr]| |] eqn:E; cbn [rbind]; try discriminate.
  intros [= <-]. cbn. eapply load_registry_inv; [|exact E]. intros e [].
Qed.

Lemma final_addr_valid s real :
  valid_sub s -> valid_sub (snd real) -> valid_sub (snd (final_addr s real)).
Proof.
  intros Hs Hr. destruct real as [rp rsub]. cbn [snd] in Hr.
  destruct (final_source_addr_spec s [] rsub Hs Hr) as (sub' & Heq & Hv & _).
  unfold final_addr, final_source_addr in *. cbn [fst snd].
  destruct s as [|c s']; [exact Hr|].
  destruct rsub as [|c' r']; cbn [snd]; [exact Hs|].
  injection Heq as <-. exact Hv.
Qed.

Theorem local_path_registry_inside b p sub v path :
  is_rooted (b_root b) = true -> dirs_inv (b_dirs b) -> reg_inv (b_reg b) -> valid_sub sub ->
  local_path_registry b p sub v = Some path ->
  exists d rest, inside_pkg b path d rest.
Proof.
  intros Hr Hd Hreg Hv. unfold local_path_registry.
  destruct (alookup mpkg_eqb p (b_reg b)) as [vs|] eqn:E1; [|discriminate].
  destruct (alookup version_eqb v vs) as [real|] eqn:E2; [|discriminate].
  destruct (alookup_some' _ _ _ _ E1) as [k1 Hin1]. destruct (alookup_some' _ _ _ _ E2) as [k2 Hin2].
  pose proof (Hreg _ Hin1 _ Hin2) as Hvr. cbn [snd] in Hvr.
  pose proof (final_addr_valid sub real Hv Hvr) as Hf.
  destruct (final_addr sub real) as [rp rsub]. cbn [snd] in Hf. intros Hl.
  destruct (local_path_remote_inside b rp rsub path Hr Hd Hf Hl) as (d & _ & _ & Hi).
  now exists d, (sub_segs rsub).
Qed.

(* ====================================================================== *)
(* C09: what a bundle answers depends on the manifest, not on where it is  *)
(* ====================================================================== *)

(* everything but the root is the same whichever directory the manifest is opened in *)
Theorem open_dir_root_independent r1 r2 m :
  match open_dir r1 m, open_dir r2 m with
  | Ok b1, Ok b2 => b_dirs b1 = b_dirs b2 /\ b_meta b1 = b_meta b2 /\ b_reg b1 = b_reg b2 /\ b_depr b1 = b_depr b2
                    /\ b_root b1 = r1 /\ b_root b2 = r2
  | Rej, Rej => True
  | Out, Out => True
  | _, _ => False
  end.
Proof.
  unfold open_dir. destruct (negb (N.eqb (m_format m) 1)); [exact I|].
  destruct (load_packages (m_packages m) [] []) as [[dirs meta]| |]; cbn [rbind]; try exact I.
  destruct (load_registry (m_registry m) [] []) as [[reg depr]| |]; cbn [rbind]; try exact I.
  cbn. repeat split.
Qed.

(* forward lookups: the root, then the same relative components *)
Theorem forward_root_relative b1 b2 p sub :
  b_dirs b1 = b_dirs b2 -> is_rooted (b_root b1) = true -> is_rooted (b_root b2) = true ->
  dirs_inv (b_dirs b1) -> valid_sub sub ->
  match local_path_remote b1 p sub, local_path_remote b2 p sub with
  | Some p1, Some p2 => exists rel, comps p1 = comps (b_root b1) ++ rel /\ comps p2 = comps (b_root b2) ++ rel
  | None, None => True
  | _, _ => False
  end.
Proof.
  intros Hd Hr1 Hr2 Hinv Hv. unfold local_path_remote. rewrite <- Hd.
  destruct (alookup rpkg_eqb p (b_dirs b1)) as [d|] eqn:E; [|exact I].
  assert (Hok : local_dir_ok d = true).
  { destruct Hinv as [_ Hall]. apply (Hall (p, d)). eapply alookup_some; [exact rpkg_eqb_spec|exact E]. }
  exists (d :: sub_segs sub). split; now apply join3_comps.
Qed.

(* reverse lookups of corresponding paths agree *)
Theorem reverse_root_relative b1 b2 p1 p2 rel :
  b_dirs b1 = b_dirs b2 ->
  comps p1 = comps (b_root b1) ++ rel -> comps p2 = comps (b_root b2) ++ rel ->
  source_for_local_path b1 p1 = source_for_local_path b2 p2.
Proof.
  intros Hd H1 H2. unfold source_for_local_path, candidates.
  now rewrite H1, H2, !strip_prefix_app, Hd.
Qed.

(* the reverse lookup's choice does not depend on anything but the manifest:
   all packages it may return print the same text *)
Theorem reverse_choice_deterministic b path d sub cands :
  source_for_local_path b path = Some (d, sub, cands) ->
  forall c c', In c cands -> In c' cands -> rpkg_string c = rpkg_string c'.
Proof.
  unfold source_for_local_path.
  destruct (strip_prefix (comps (b_root b)) (comps path)) as [[|d' rest]|]; try discriminate.
  destruct (candidates b d') as [|c0 cs]; [discriminate|]. intros [= <- <- <-] c c' Hc Hc'.
  pose proof (proj1 (filter_In (fun c => str_eqb (rpkg_string c) (best_key (rpkg_string c0) (c0 :: cs))) c (c0 :: cs)) Hc) as [_ H1].
  pose proof (proj1 (filter_In (fun c => str_eqb (rpkg_string c) (best_key (rpkg_string c0) (c0 :: cs))) c' (c0 :: cs)) Hc') as [_ H2].
  apply str_eqb_eq in H1, H2. congruence.
Qed.

(* ====================================================================== *)
(* C09: the versions of a registry entry are a JSON object, i.e. a Go map: *)
(* the order in which its members are visited does not matter              *)
(* ====================================================================== *)
From Coq Require Import Permutation.

Lemma version_eqb_spec a b : version_eqb a b = true <-> a = b.
Proof.
  destruct a, b. unfold version_eqb. cbn. rewrite !andl_spec, !andb_true_iff, !N.eqb_eq, !str_eqb_eq.
  split; [intros ((((-> & ->) & ->) & ->) & ->); reflexivity|intros [= -> -> -> -> ->]; tauto].
Qed.

Section AssocMore.
  Context {K V : Type} (eqb : K -> K -> bool).
  Hypothesis eqb_spec : forall a b, eqb a b = true <-> a = b.

  Lemma alookup_aset k' k (v : V) l :
    alookup eqb k' (aset eqb k v l) = if eqb k' k then Some v else alookup eqb k' l.
  Proof.
    induction l as [|[k0 v0] l IH]; cbn.
    - reflexivity.
    - destruct (eqb k k0) eqn:E.
      + apply eqb_spec in E. subst k0. cbn. destruct (eqb k' k); reflexivity.
      + cbn. rewrite IH. destruct (eqb k' k0) eqn:E0; [|reflexivity].
        destruct (eqb k' k) eqn:E1; [|reflexivity].
        apply eqb_spec in E0, E1. subst. rewrite (proj2 (eqb_spec k0 k0) eq_refl) in E. discriminate.
  Qed.
End AssocMore.

(* what one member of the object contributes, when it is well formed *)
Definition member_ok (mv : mversion) : option (version * (rpkg * str) * option deprecation) :=
  match parse_version (mv_version mv) with
  | None => None
  | Some v => match parse_remote (mv_source mv) with
              | Ok src => Some (v, src, mv_depr mv)
              | _ => None
              end
  end.

Definition later_wins (ms : list (version * (rpkg * str) * option deprecation)) (v : version)
  : option ((rpkg * str) * option deprecation) :=
  match find (fun m => version_eqb v (fst (fst m))) (rev ms) with
  | Some m => Some (snd (fst m), snd m)
  | None => None
  end.

Lemma find_app_ {A} (f : A -> bool) l1 l2 :
  find f (l1 ++ l2) = match find f l1 with Some x => Some x | None => find f l2 end.
Proof. induction l1 as [|a l1 IH]; cbn; [reflexivity|]. destruct (f a); [reflexivity|exact IH]. Qed.

Lemma load_versions_ok : forall vs srcs deprs ms,
  map member_ok vs = map Some ms ->
  exists s d, load_versions vs srcs deprs = Ok (s, d) /\
    forall v, alookup version_eqb v s = match later_wins ms v with Some x => Some (fst x) | None => alookup version_eqb v srcs end
              /\ alookup version_eqb v d = match later_wins ms v with Some x => Some (snd x) | None => alookup version_eqb v deprs end.
Proof.
  induction vs as [|mv vs IH]; intros srcs deprs ms Hm.
  - destruct ms; [|discriminate]. exists srcs, deprs. split; [reflexivity|]. intros v. split; reflexivity.
  - destruct ms as [|m ms]; [discriminate|]. cbn [map] in Hm. injection Hm as Hm1 Hm2.
    unfold member_ok in Hm1. cbn [load_versions].
    destruct (parse_version (mv_version mv)) as [ver|]; [|discriminate].
    destruct (parse_remote (mv_source mv)) as [src| |]; try discriminate. injection Hm1 as <-. cbn [rbind].
    destruct (IH (aset version_eqb ver src srcs) (aset version_eqb ver (mv_depr mv) deprs) ms Hm2) as (s & d & Hl & Hq).
    exists s, d. split; [exact Hl|]. intros v. destruct (Hq v) as [Hq1 Hq2].
    unfold later_wins in *. cbn [rev]. rewrite find_app_.
    destruct (find (fun m => version_eqb v (fst (fst m))) (rev ms)) as [m0|].
    + split; assumption.
    + cbn [find fst snd]. rewrite Hq1, Hq2, !(alookup_aset version_eqb version_eqb_spec).
      destruct (version_eqb v ver); split; reflexivity.
Qed.

Lemma load_versions_bad : forall vs srcs deprs,
  (exists mv, In mv vs /\ member_ok mv = None) -> forall r, load_versions vs srcs deprs <> Ok r.
Proof.
  induction vs as [|mv vs IH]; intros srcs deprs (bad & Hin & Hb) r; [destruct Hin|].
  cbn [load_versions]. destruct Hin as [->|Hin].
  - unfold member_ok in Hb. destruct (parse_version (mv_version bad)); [|discriminate].
    destruct (parse_remote (mv_source bad)); try discriminate; cbn [rbind]; discriminate.
  - destruct (parse_version (mv_version mv)); [|discriminate].
    destruct (parse_remote (mv_source mv)); cbn [rbind]; try discriminate.
    apply IH. eauto.
Qed.

Lemma all_members_ok vs : (forall mv, In mv vs -> member_ok mv <> None) -> exists ms, map member_ok vs = map Some ms.
Proof.
  induction vs as [|mv vs IH]; intros H; [now exists []|].
  destruct (member_ok mv) as [m|] eqn:E; [|exfalso; apply (H mv); [now left|exact E]].
  destruct IH as [ms Hms]; [intros x Hx; apply H; now right|]. exists (m :: ms). cbn. now rewrite E, Hms.
Qed.

Lemma find_unique_perm {A} (f : A -> bool) (l l' : list A) :
  Permutation l l' -> (forall a b, In a l -> In b l -> f a = true -> f b = true -> a = b) -> find f l = find f l'.
Proof.
  intros Hp. induction Hp as [|x l l' Hp IH|x y l|l l' l'' Hp1 IH1 Hp2 IH2]; intros Hu.
  - reflexivity.
  - cbn. destruct (f x); [reflexivity|]. apply IH. intros a b Ha Hb. apply Hu; now right.
  - cbn. destruct (f y) eqn:Ey, (f x) eqn:Ex; try reflexivity.
    f_equal. apply Hu; [now left|right; now left|exact Ey|exact Ex].
  - rewrite IH1 by exact Hu. apply IH2. intros a b Ha Hb. apply Hu; eapply Permutation_in; try eassumption; now apply Permutation_sym.
Qed.

Lemma members_decide vs :
  (forall mv, In mv vs -> member_ok mv <> None) \/ (exists mv, In mv vs /\ member_ok mv = None).
Proof.
  induction vs as [|mv vs [IH|(bad & Hin & Hb)]].
  - left. intros mv [].
  - destruct (member_ok mv) eqn:E.
    + left. intros x [<-|Hx]; [rewrite E; discriminate|now apply IH].
    + right. exists mv. split; [now left|exact E].
  - right. exists bad. split; [now right|exact Hb].
Qed.

Lemma later_wins_perm ms ms' v :
  Permutation ms ms' ->
  (forall a b, In a ms -> In b ms -> fst (fst a) = fst (fst b) -> a = b) ->
  later_wins ms v = later_wins ms' v.
Proof.
  intros Hp Hu. unfold later_wins.
  rewrite (find_unique_perm (fun m => version_eqb v (fst (fst m))) (rev ms) (rev ms')).
  - reflexivity.
  - now apply Permutation_rev'.
  - intros a b Ha Hb Ea Eb. apply in_rev in Ha, Hb. apply version_eqb_spec in Ea, Eb.
    apply Hu; [assumption|assumption|congruence].
Qed.

(* two visiting orders of the same members, no version named twice: the same map of
   source addresses and deprecation notes, or a refusal in both cases *)
Theorem load_versions_order_irrelevant vs vs' srcs deprs :
  Permutation vs vs' ->
  (forall a b ma mb, In a vs -> In b vs -> member_ok a = Some ma -> member_ok b = Some mb ->
     fst (fst ma) = fst (fst mb) -> ma = mb) ->
  match load_versions vs srcs deprs, load_versions vs' srcs deprs with
  | Ok (s1, d1), Ok (s2, d2) =>
      forall v, alookup version_eqb v s1 = alookup version_eqb v s2 /\ alookup version_eqb v d1 = alookup version_eqb v d2
  | Ok _, _ | _, Ok _ => False
  | _, _ => True
  end.
Proof.
  intros Hp Hu.
  destruct (members_decide vs) as [Hall|(bad & Hin & Hb)].
  2:{ pose proof (load_versions_bad vs srcs deprs (ex_intro _ bad (conj Hin Hb))) as H1.
      pose proof (load_versions_bad vs' srcs deprs (ex_intro _ bad (conj (Permutation_in _ Hp Hin) Hb))) as H2.
      destruct (load_versions vs srcs deprs) as [r1| |]; [exfalso; now apply (H1 r1)| |];
        (destruct (load_versions vs' srcs deprs) as [r2| |]; [exfalso; now apply (H2 r2)|exact I|exact I]). }
  destruct (all_members_ok vs Hall) as [ms Hms].
  assert (Hall' : forall mv, In mv vs' -> member_ok mv <> None).
  { intros mv Hmv. apply Hall. eapply Permutation_in; [apply Permutation_sym; exact Hp|exact Hmv]. }
  destruct (all_members_ok vs' Hall') as [ms' Hms'].
  assert (Hpm : Permutation ms ms').
  { apply (Permutation_map member_ok) in Hp. rewrite Hms, Hms' in Hp.
    apply Permutation_map_inv in Hp. destruct Hp as (l3 & E3 & Hp3).
    assert (l3 = ms) as ->.
    { clear -E3. revert l3 E3. induction ms as [|m ms IH]; intros [|x l3] E; try discriminate; [reflexivity|].
      cbn in E. injection E as E1 E2. subst x. f_equal. now apply IH. }
    now apply Permutation_sym. }
  assert (Hum : forall a b, In a ms -> In b ms -> fst (fst a) = fst (fst b) -> a = b).
  { intros a b Ha Hb E.
    assert (Hsa : In (Some a) (map member_ok vs)) by (rewrite Hms; now apply in_map).
    assert (Hsb : In (Some b) (map member_ok vs)) by (rewrite Hms; now apply in_map).
    apply in_map_iff in Hsa, Hsb. destruct Hsa as (xa & Exa & Hxa), Hsb as (xb & Exb & Hxb).
    exact (Hu xa xb a b Hxa Hxb Exa Exb E). }
  destruct (load_versions_ok vs srcs deprs ms Hms) as (s1 & d1 & -> & Hq1).
  destruct (load_versions_ok vs' srcs deprs ms' Hms') as (s2 & d2 & -> & Hq2).
  intros v. destruct (Hq1 v) as [A1 B1], (Hq2 v) as [A2 B2].
  rewrite A1, B1, A2, B2, (later_wins_perm ms ms' v Hpm Hum). split; reflexivity.
Qed.

Example order_irrelevant_applies :
  let a := {| mv_version := s2l "1.0.0"; mv_source := s2l "https://example.com/a.tgz"; mv_depr := None |} in
  let b := {| mv_version := s2l "2.1.0"; mv_source := s2l "https://example.com/b.tgz"; mv_depr := None |} in
  match load_versions [a; b] [] [], load_versions [b; a] [] [] with
  | Ok (s1, _), Ok (s2, _) => length s1 = 2 /\ length s2 = 2 /\ s1 <> s2
  | _, _ => False
  end.
Proof. vm_compute. split; [reflexivity|split; [reflexivity|discriminate]]. Qed.
