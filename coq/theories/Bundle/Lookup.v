(* Model of sourcebundle.OpenDir (from the decoded manifest document on) and of
   the Bundle path lookups: LocalPathForRemoteSource, LocalPathForRegistrySource,
   LocalPathForSource, SourceForLocalPath.  JSON decoding itself, reading the
   file and the checksum are outside the model.  Paths are Unix paths; the root
   directory and the paths given to SourceForLocalPath are absolute. *)
From Slug Require Import Base.Str Base.PathAlg Addr.Resolve Addr.Url Addr.Parse.

(* ---------- the manifest document ---------- *)
Record mpackage := mkMPackage { mp_source : str; mp_local : str; mp_commit : str; mp_message : str }.
Record deprecation := mkDepr { d_version : str; d_reason : str; d_link : str }.
Record mversion := mkMVersion { mv_version : str; mv_source : str; mv_depr : option deprecation }.
Record mregistry := mkMRegistry { mr_source : str; mr_versions : list mversion }.
Record manifest := mkManifest { m_format : N; m_packages : list mpackage; m_registry : list mregistry }.

(* ---------- equality of address values (Go's == on the structs) ---------- *)
Definition url_eqb (a b : url) : bool :=
  str_eqb (u_scheme a) (u_scheme b) &&& str_eqb (u_opaque a) (u_opaque b) &&& Bool.eqb (u_user a) (u_user b)
  &&& str_eqb (u_host a) (u_host b) &&& str_eqb (u_path a) (u_path b) &&& str_eqb (u_rawpath a) (u_rawpath b)
  &&& Bool.eqb (u_omit_host a) (u_omit_host b) &&& Bool.eqb (u_forceq a) (u_forceq b)
  &&& str_eqb (u_query a) (u_query b) &&& str_eqb (u_frag a) (u_frag b) &&& str_eqb (u_rawfrag a) (u_rawfrag b).
Definition rpkg_eqb (a b : rpkg) : bool := str_eqb (p_type a) (p_type b) &&& url_eqb (p_url a) (p_url b).
Definition mpkg_eqb (a b : mpkg) : bool :=
  str_eqb (m_host a) (m_host b) &&& str_eqb (m_ns a) (m_ns b) &&& str_eqb (m_name a) (m_name b) &&& str_eqb (m_sys a) (m_sys b).
Definition version_eqb (a b : version) : bool :=
  N.eqb (v_major a) (v_major b) &&& N.eqb (v_minor a) (v_minor b) &&& N.eqb (v_patch a) (v_patch b)
  &&& str_eqb (v_pre a) (v_pre b) &&& str_eqb (v_meta a) (v_meta b).

(* ---------- Go maps as association lists (later assignments override) ---------- *)
Section Assoc.
  Context {K V : Type} (eqb : K -> K -> bool).
  Fixpoint alookup (k : K) (l : list (K * V)) : option V :=
    match l with
    | [] => None
    | (k', v) :: r => if eqb k k' then Some v else alookup k r
    end.
  Fixpoint aset (k : K) (v : V) (l : list (K * V)) : list (K * V) :=
    match l with
    | [] => [(k, v)]
    | (k', v') :: r => if eqb k k' then (k, v) :: r else (k', v') :: aset k v r
    end.
End Assoc.

Record bundle := mkBundle {
  b_root : str;
  b_dirs : list (rpkg * str);
  b_meta : list (rpkg * (str * str));
  b_reg : list (mpkg * list (version * (rpkg * str)));
  b_depr : list (mpkg * list (version * option deprecation)) }.

(* the directory-name test of OpenDir: fs.ValidPath, not ".", no separator *)
Definition local_dir_ok (d : str) : bool :=
  valid_path d &&& negb (str_eqb d [dot]) &&& negb (mem_char slash d).

Fixpoint load_packages (ps : list mpackage) (dirs : list (rpkg * str)) (meta : list (rpkg * (str * str)))
  : res (list (rpkg * str) * list (rpkg * (str * str))) :=
  match ps with
  | [] => Ok (dirs, meta)
  | p :: r =>
      if negb (all_ascii (mp_local p)) then Out
      else if local_dir_ok (mp_local p) then
        do pkg <- parse_remote_pkg (mp_source p);
        let dirs' := aset rpkg_eqb pkg (mp_local p) dirs in
        let meta' := if is_empty (mp_commit p) &&& is_empty (mp_message p) then meta
                     else aset rpkg_eqb pkg (mp_commit p, mp_message p) meta in
        load_packages r dirs' meta'
      else Rej
  end.

Fixpoint load_versions (vs : list mversion) (srcs : list (version * (rpkg * str)))
    (deprs : list (version * option deprecation))
  : res (list (version * (rpkg * str)) * list (version * option deprecation)) :=
  match vs with
  | [] => Ok (srcs, deprs)
  | v :: r =>
      match parse_version (mv_version v) with
      | None => Rej
      | Some ver =>
          do src <- parse_remote (mv_source v);
          load_versions r (aset version_eqb ver src srcs) (aset version_eqb ver (mv_depr v) deprs)
      end
  end.

Definition or_nil {A} (o : option (list A)) : list A := match o with Some l => l | None => [] end.

Fixpoint load_registry (rs : list mregistry) (reg : list (mpkg * list (version * (rpkg * str))))
    (depr : list (mpkg * list (version * option deprecation)))
  : res (list (mpkg * list (version * (rpkg * str))) * list (mpkg * list (version * option deprecation))) :=
  match rs with
  | [] => Ok (reg, depr)
  | r :: more =>
      do pkg <- parse_registry_pkg (mr_source r);
      do (srcs, deprs) <- load_versions (mr_versions r) (or_nil (alookup mpkg_eqb pkg reg)) (or_nil (alookup mpkg_eqb pkg depr));
      load_registry more (aset mpkg_eqb pkg srcs reg) (aset mpkg_eqb pkg deprs depr)
  end.

(* OpenDir, after the manifest has been read and decoded *)
Definition open_dir (root : str) (m : manifest) : res bundle :=
  if negb (N.eqb (m_format m) 1) then Rej
  else
    do (dirs, meta) <- load_packages (m_packages m) [] [];
    do (reg, depr) <- load_registry (m_registry m) [] [];
    Ok (mkBundle root dirs meta reg depr).

(* ---------- forward lookups ---------- *)
(* filepath.Join(root, name, sub) for a clean absolute root *)
Definition join3 (root name sub : str) : str :=
  clean (root ++ slash :: name ++ (match sub with [] => [] | _ => slash :: sub end)).

Definition local_path_remote (b : bundle) (p : rpkg) (sub : str) : option str :=
  match alookup rpkg_eqb p (b_dirs b) with
  | Some d => Some (join3 (b_root b) d sub)
  | None => None
  end.

Definition final_addr (s : str) (real : rpkg * str) : rpkg * str :=
  match s, snd real with
  | [], _ => real
  | _, [] => (fst real, s)
  | _, rs => (fst real, join2 rs s)
  end.

Definition local_path_registry (b : bundle) (p : mpkg) (sub : str) (v : version) : option str :=
  match alookup mpkg_eqb p (b_reg b) with
  | None => None
  | Some vs =>
      match alookup version_eqb v vs with
      | None => None
      | Some real => let '(rp, rsub) := final_addr sub real in local_path_remote b rp rsub
      end
  end.

Definition local_path_for (b : bundle) (a : addr) : option str :=
  match a with
  | ARemote p sub => local_path_remote b p sub
  | ARegistryFinal p v sub => local_path_registry b p sub v
  | ALocal r => Some r
  | ARegistry _ _ => None
  end.

(* ---------- the reverse lookup ---------- *)
(* the components of a cleaned absolute path *)
Definition comps (p : str) : list str :=
  filter (fun g => negb (is_empty g)) (split_on slash (clean p)).

Fixpoint strip_prefix (pre l : list str) : option (list str) :=
  match pre, l with
  | [], _ => Some l
  | a :: pre', b :: l' => if str_eqb a b then strip_prefix pre' l' else None
  | _ :: _, [] => None
  end.

(* among the packages stored in directory d: the shortest printed address wins,
   equally short ones are ordered bytewise *)
Definition candidates (b : bundle) (d : str) : list rpkg :=
  map fst (filter (fun e => str_eqb (snd e) d) (b_dirs b)).
Definition better (a b : str) : bool :=
  Nat.ltb (length a) (length b) ||| (Nat.eqb (length a) (length b) &&& str_ltb a b).
Definition best_key (first : str) (l : list rpkg) : str :=
  fold_right (fun p acc => if better (rpkg_string p) acc then rpkg_string p else acc) first l.

(* SourceForLocalPath: which directory, which sub-path, and the chosen package
   (all packages of that directory printing as the winning text; more than one
   only if two different package values print alike) *)
Definition source_for_local_path (b : bundle) (p : str) : option (str * str * list rpkg) :=
  match strip_prefix (comps (b_root b)) (comps p) with
  | Some (d :: rest) =>
      let cs := candidates b d in
      match cs with
      | [] => None
      | c0 :: _ => let k := best_key (rpkg_string c0) cs in
                   Some (d, join_with slash rest, filter (fun c => str_eqb (rpkg_string c) k) cs)
      end
  | _ => None
  end.
