(* C09 / C13 on the model: what Close writes (writeManifest: one entry per
   remote package, sorted by the printed address) is read back by OpenDir as the
   same tables - the same directory for every package, the same metadata - and
   the document does not depend on the order in which the builder's maps are
   visited. *)
From Slug Require Import Base.Str Base.PathAlg Addr.Resolve Addr.Url Addr.Parse
  Bundle.Lookup Bundle.LookupProofs Bundle.VersionsProofs.
From Coq Require Import Permutation Lia.

(* ---------- maps as association lists ---------- *)
Section Maps.
Context {K V : Type} (eqb : K -> K -> bool).
Hypothesis eqb_spec : forall a b, eqb a b = true <-> a = b.

Lemma alookup_aset_same k v (l : list (K * V)) : alookup eqb k (aset eqb k v l) = Some v.
Proof.
  assert (R : eqb k k = true) by now apply eqb_spec.
  induction l as [|[k' v'] l IH]; cbn; [now rewrite R|].
  destruct (eqb k k') eqn:E; cbn; [now rewrite R|]. now rewrite E.
Qed.

Lemma alookup_aset_other k k' v (l : list (K * V)) : k' <> k -> alookup eqb k' (aset eqb k v l) = alookup eqb k' l.
Proof.
  intros Hne.
  assert (F : eqb k' k = false).
  { destruct (eqb k' k) eqn:E; [|reflexivity]. apply eqb_spec in E. congruence. }
  induction l as [|[k2 v2] l IH]; cbn; [now rewrite F|].
  destruct (eqb k k2) eqn:E.
  - apply eqb_spec in E. subst k2. cbn. now rewrite F.
  - cbn. destruct (eqb k' k2); [reflexivity|exact IH].
Qed.

Lemma key_dec (a b : K) : {a = b} + {a <> b}.
Proof.
  destruct (eqb a b) eqn:E; [left; now apply eqb_spec|right].
  intros H. apply eqb_spec in H. congruence.
Qed.

(* loading a list of bindings, later ones overriding *)
Definition load_all (l : list (K * V)) (m : list (K * V)) : list (K * V) :=
  fold_left (fun m kv => aset eqb (fst kv) (snd kv) m) l m.

Lemma load_all_not_in l : forall m k, ~ In k (map fst l) -> alookup eqb k (load_all l m) = alookup eqb k m.
Proof.
  induction l as [|[k' v'] l IH]; intros m k Hn; [reflexivity|].
  cbn [load_all fold_left fst snd]. cbn in Hn.
  change (fold_left _ l ?x) with (load_all l x). rewrite IH by tauto.
  apply alookup_aset_other. intros ->. tauto.
Qed.

Lemma load_all_in l : forall m k v, NoDup (map fst l) -> In (k, v) l -> alookup eqb k (load_all l m) = Some v.
Proof.
  induction l as [|[k' v'] l IH]; intros m k v Hnd Hin; [contradiction|].
  cbn [map fst] in Hnd. inversion Hnd as [|? ? Hni Hnd']; subst.
  cbn [load_all fold_left fst snd]. change (fold_left _ l ?x) with (load_all l x).
  destruct Hin as [[= -> ->]|Hin].
  - rewrite load_all_not_in by exact Hni. apply alookup_aset_same.
  - now apply IH.
Qed.

(* so the result, as a finite map, is independent of the order of the bindings *)
Lemma load_all_perm l l' m k :
  NoDup (map fst l) -> Permutation l l' -> alookup eqb k (load_all l m) = alookup eqb k (load_all l' m).
Proof.
  intros Hnd Hp.
  assert (Hnd' : NoDup (map fst l')) by (eapply Permutation_NoDup; [apply Permutation_map; exact Hp|exact Hnd]).
  destruct (in_dec key_dec k (map fst l)) as [Hin|Hni].
  - apply in_map_iff in Hin as ([k0 v] & Hk & Hin). cbn in Hk. subst k0.
    rewrite (load_all_in l m k v Hnd Hin).
    symmetry. apply load_all_in; [exact Hnd'|]. eapply Permutation_in; eauto.
  - rewrite load_all_not_in by exact Hni. symmetry. apply load_all_not_in.
    intros Hin. apply Hni. eapply Permutation_in; [apply Permutation_sym, Permutation_map; exact Hp|exact Hin].
Qed.
End Maps.

(* ---------- writeManifest, the package section ---------- *)
(* one record per package of the builder's directory table, with the metadata
   the builder holds for it (both fields empty when it holds none) *)
Definition package_record (meta : list (rpkg * (str * str))) (pd : rpkg * str) : mpackage :=
  let '(c, msg) := match alookup rpkg_eqb (fst pd) meta with Some cm => cm | None => ([], []) end in
  mkMPackage (rpkg_string (fst pd)) (snd pd) c msg.

(* sort.Slice by the printed address (insertion sort: any sorting algorithm
   gives the same list when the printed addresses are pairwise different) *)
Fixpoint insert_pkg (x : mpackage) (l : list mpackage) : list mpackage :=
  match l with
  | [] => [x]
  | y :: r => if str_ltb (mp_source y) (mp_source x) then y :: insert_pkg x r else x :: l
  end.
Definition sort_pkgs (l : list mpackage) : list mpackage := fold_right insert_pkg [] l.

Definition write_packages (dirs : list (rpkg * str)) (meta : list (rpkg * (str * str))) : list mpackage :=
  sort_pkgs (map (package_record meta) dirs).

Lemma insert_pkg_perm x l : Permutation (x :: l) (insert_pkg x l).
Proof.
  induction l as [|y l IH]; cbn; [apply Permutation_refl|].
  destruct (str_ltb (mp_source y) (mp_source x)); [|apply Permutation_refl].
  eapply perm_trans; [apply perm_swap|]. now apply perm_skip.
Qed.

Lemma sort_pkgs_perm l : Permutation l (sort_pkgs l).
Proof.
  induction l as [|x l IH]; cbn; [constructor|].
  eapply perm_trans; [|apply insert_pkg_perm]. now constructor.
Qed.

(* sorted output, and therefore one output for all input orders *)
Fixpoint sorted_src (l : list mpackage) : Prop :=
  match l with
  | a :: r => match r with b :: _ => str_ltb (mp_source b) (mp_source a) = false /\ sorted_src r | [] => True end
  | [] => True
  end.

(* ---------- OpenDir on what was written ---------- *)
(* load_packages as a fold over bindings, when every record is acceptable *)
Definition record_ok (p : mpackage) (pkg : rpkg) : Prop :=
  all_ascii (mp_local p) = true /\ local_dir_ok (mp_local p) = true /\ parse_remote_pkg (mp_source p) = Ok pkg.

Lemma load_packages_fold : forall ps pkgs dirs meta,
  Forall2 record_ok ps pkgs ->
  exists dirs' meta',
    load_packages ps dirs meta = Ok (dirs', meta') /\
    dirs' = load_all rpkg_eqb (combine pkgs (map mp_local ps)) dirs /\
    (forall k, alookup rpkg_eqb k meta' =
               alookup rpkg_eqb k
                 (fold_left (fun m pp => if is_empty (mp_commit (fst pp)) &&& is_empty (mp_message (fst pp)) then m
                                         else aset rpkg_eqb (snd pp) (mp_commit (fst pp), mp_message (fst pp)) m)
                            (combine ps pkgs) meta)).
Proof.
  induction ps as [|p ps IH]; intros pkgs dirs meta HF.
  - inversion HF; subst. exists dirs, meta. repeat split; reflexivity.
  - inversion HF as [|? pkg ? pkgs' (Ha & Hl & Hp) HF']; subst.
    cbn [load_packages]. rewrite Ha, Hl. cbn [negb]. rewrite Hp. cbn [rbind].
    destruct (IH pkgs' (aset rpkg_eqb pkg (mp_local p) dirs)
                 (if is_empty (mp_commit p) &&& is_empty (mp_message p) then meta
                  else aset rpkg_eqb pkg (mp_commit p, mp_message p) meta) HF') as (d' & m' & E & Ed & Em).
    exists d', m'. split; [exact E|]. split; [exact Ed|]. exact Em.
Qed.

Lemma nodup_fst_unique {A B} (l : list (A * B)) k v1 v2 :
  NoDup (map fst l) -> In (k, v1) l -> In (k, v2) l -> v1 = v2.
Proof.
  induction l as [|[a b] l IH]; [contradiction|]. cbn. intros Hnd H1 H2.
  inversion Hnd as [|? ? Hni Hnd']; subst.
  destruct H1 as [E1|H1], H2 as [E2|H2].
  - congruence.
  - exfalso. injection E1 as -> ->. apply Hni. apply in_map_iff. exists (k, v2). auto.
  - exfalso. injection E2 as -> ->. apply Hni. apply in_map_iff. exists (k, v1). auto.
  - now apply IH.
Qed.

(* ---------- the round trip ---------- *)
Definition pkg_of (p : mpackage) : rpkg :=
  match parse_remote_pkg (mp_source p) with Ok k => k | _ => mkPkg [] empty_url end.

Definition binding_of (p : mpackage) : rpkg * str := (pkg_of p, mp_local p).

Definition has_meta (p : mpackage) : bool := negb (is_empty (mp_commit p) &&& is_empty (mp_message p)).
Definition meta_binding_of (p : mpackage) : rpkg * (str * str) := (pkg_of p, (mp_commit p, mp_message p)).

(* the conditional fold of load_packages is a load of the records that carry metadata *)
Lemma meta_fold_as_load : forall ps m,
  fold_left (fun m pp => if is_empty (mp_commit (fst pp)) &&& is_empty (mp_message (fst pp)) then m
                         else aset rpkg_eqb (snd pp) (mp_commit (fst pp), mp_message (fst pp)) m)
            (combine ps (map pkg_of ps)) m
  = load_all rpkg_eqb (map meta_binding_of (filter has_meta ps)) m.
Proof.
  induction ps as [|p ps IH]; intros m; [reflexivity|].
  cbn [map combine fold_left fst snd filter]. unfold has_meta at 1.
  destruct (is_empty (mp_commit p) &&& is_empty (mp_message p)); cbn [negb]; [apply IH|].
  cbn [map load_all fold_left]. unfold meta_binding_of at 1. cbn [fst snd]. apply IH.
Qed.

Section RoundTrip.
Variable dirs : list (rpkg * str).
Variable meta : list (rpkg * (str * str)).
(* the builder's table is a map: one directory per package *)
Hypothesis Hnodup : NoDup (map fst dirs).
(* every package address prints to text that parses back to it (C06), and the
   directory names are what the builder makes: plain ASCII names *)
Hypothesis Hok : forall p d, In (p, d) dirs ->
  all_ascii d = true /\ local_dir_ok d = true /\ parse_remote_pkg (rpkg_string p) = Ok p.

Let recs := map (package_record meta) dirs.

Lemma pkg_of_record pd : In pd dirs -> pkg_of (package_record meta pd) = fst pd.
Proof.
  destruct pd as [p d]. intros Hin. destruct (Hok p d Hin) as (_ & _ & Hp).
  unfold pkg_of, package_record. cbn [fst snd].
  destruct (match alookup rpkg_eqb p meta with Some cm => cm | None => ([], []) end) as [c msg].
  cbn [mp_source]. now rewrite Hp.
Qed.

Lemma bindings_of_recs : map binding_of recs = dirs.
Proof.
  unfold recs. rewrite map_map. rewrite <- (map_id dirs) at 2. apply map_ext_in.
  intros [p d] Hin. unfold binding_of. rewrite (pkg_of_record (p, d) Hin).
  unfold package_record. cbn [fst snd].
  destruct (match alookup rpkg_eqb p meta with Some cm => cm | None => ([], []) end) as [c msg]. reflexivity.
Qed.

Lemma recs_ok ps : Permutation recs ps -> Forall2 record_ok ps (map pkg_of ps).
Proof.
  intros Hp.
  assert (H : forall p, In p ps -> record_ok p (pkg_of p)).
  { intros p Hin. apply (Permutation_in _ (Permutation_sym Hp)) in Hin.
    unfold recs in Hin. apply in_map_iff in Hin as ([q d] & <- & Hin).
    rewrite (pkg_of_record (q, d) Hin). destruct (Hok q d Hin) as (Ha & Hl & Hpq).
    unfold record_ok, package_record. cbn [fst snd].
    destruct (match alookup rpkg_eqb q meta with Some cm => cm | None => ([], []) end) as [c msg].
    cbn [mp_local mp_source]. auto. }
  clear Hp. induction ps as [|p ps IH]; [constructor|].
  cbn [map]. constructor; [apply H; now left|apply IH; intros q Hq; apply H; now right].
Qed.

(* what the metadata table must come back as: the builder's entry, unless it carries nothing *)
Definition expected_meta (k : rpkg) : option (str * str) :=
  match alookup rpkg_eqb k (load_all rpkg_eqb dirs []) with
  | None => None
  | Some _ =>
      match alookup rpkg_eqb k meta with
      | Some (c, msg) => if is_empty c &&& is_empty msg then None else Some (c, msg)
      | None => None
      end
  end.

Theorem reopen_any_order ps :
  Permutation recs ps ->
  exists dirs' meta',
    load_packages ps [] [] = Ok (dirs', meta') /\
    (forall k, alookup rpkg_eqb k dirs' = alookup rpkg_eqb k (load_all rpkg_eqb dirs [])) /\
    (forall k, alookup rpkg_eqb k meta' = expected_meta k).
Proof.
  intros Hp.
  destruct (load_packages_fold ps (map pkg_of ps) [] [] (recs_ok ps Hp)) as (d' & m' & E & Ed & Em).
  exists d', m'. split; [exact E|].
  assert (Hb : Permutation dirs (map binding_of ps)).
  { rewrite <- bindings_of_recs. now apply Permutation_map. }
  assert (Hcomb : combine (map pkg_of ps) (map mp_local ps) = map binding_of ps).
  { clear. induction ps as [|p ps IH]; [reflexivity|]. cbn. now rewrite IH. }
  split.
  - intros k. rewrite Ed, Hcomb. symmetry.
    apply (load_all_perm rpkg_eqb rpkg_eqb_spec); [exact Hnodup|exact Hb].
  - intros k. rewrite Em, meta_fold_as_load.
    (* the records with metadata, as bindings: a permutation of those of [recs] *)
    assert (Hpm : Permutation (map meta_binding_of (filter has_meta recs)) (map meta_binding_of (filter has_meta ps))).
    { apply Permutation_map. clear - Hp. induction Hp; cbn.
      - constructor.
      - destruct (has_meta x); [now constructor|assumption].
      - destruct (has_meta x), (has_meta y); try apply Permutation_refl. apply perm_swap.
      - eapply perm_trans; eauto. }
    assert (Hnd : NoDup (map fst (map meta_binding_of (filter has_meta recs)))).
    { assert (Hsub : forall l, NoDup (map fst (map binding_of l)) -> NoDup (map fst (map meta_binding_of (filter has_meta l)))).
      { induction l as [|p l IH]; cbn; [constructor|]. intros H. inversion H as [|? ? Hni Hnd']; subst.
        destruct (has_meta p); cbn; [|now apply IH]. constructor; [|now apply IH].
        intros Hin. apply Hni. clear - Hin. induction l as [|q l IH]; [contradiction|].
        cbn in *. destruct (has_meta q); cbn in Hin; [destruct Hin as [<-|Hin]; [now left|right; now apply IH]|right; now apply IH]. }
      apply Hsub. rewrite bindings_of_recs. exact Hnodup. }
    rewrite <- (load_all_perm rpkg_eqb rpkg_eqb_spec _ _ [] k Hnd Hpm).
    unfold expected_meta.
    (* look k up among the packages *)
    destruct (in_dec (key_dec rpkg_eqb rpkg_eqb_spec) k (map fst dirs)) as [Hin|Hni].
    + apply in_map_iff in Hin as ([p d] & Hk & Hin). cbn in Hk. subst p.
      rewrite (load_all_in rpkg_eqb rpkg_eqb_spec dirs [] k d Hnodup Hin).
      set (r := package_record meta (k, d)).
      assert (Hr : In r recs) by (unfold recs; apply in_map; exact Hin).
      assert (Hrk : pkg_of r = k) by (apply (pkg_of_record (k, d) Hin)).
      assert (Hcm : (mp_commit r, mp_message r) = match alookup rpkg_eqb k meta with Some cm => cm | None => ([], []) end).
      { unfold r, package_record. cbn [fst snd].
        destruct (match alookup rpkg_eqb k meta with Some cm => cm | None => ([], []) end) as [c msg]. reflexivity. }
      destruct (has_meta r) eqn:Hm.
      * rewrite (load_all_in rpkg_eqb rpkg_eqb_spec _ [] k (mp_commit r, mp_message r) Hnd).
        -- rewrite Hcm. unfold has_meta in Hm. apply negb_true_iff in Hm.
           destruct (alookup rpkg_eqb k meta) as [[c msg]|].
           ++ injection Hcm as Hc Hmsg. rewrite Hc, Hmsg in Hm. now rewrite Hm.
           ++ injection Hcm as Hc Hmsg. rewrite Hc, Hmsg in Hm. discriminate.
        -- apply in_map_iff. exists r. split; [unfold meta_binding_of; now rewrite Hrk|].
           apply filter_In. auto.
      * rewrite load_all_not_in; [|exact rpkg_eqb_spec|].
        -- cbn. unfold has_meta in Hm. apply negb_false_iff in Hm.
           destruct (alookup rpkg_eqb k meta) as [[c msg]|]; [|reflexivity].
           injection Hcm as Hc Hmsg. rewrite Hc, Hmsg in Hm. now rewrite Hm.
        -- (* no other record has the key k *)
           intros Hin2. apply in_map_iff in Hin2 as ([k2 cm] & Hk2 & Hin2). cbn in Hk2. subst k2.
           apply in_map_iff in Hin2 as (r2 & E2 & Hin2). apply filter_In in Hin2 as [Hin2 Hm2].
           unfold recs in Hin2. apply in_map_iff in Hin2 as ([p2 d2] & <- & Hin2).
           unfold meta_binding_of in E2. injection E2 as Hk2 _.
           rewrite (pkg_of_record (p2, d2) Hin2) in Hk2. cbn in Hk2. subst p2.
           assert (d2 = d).
           { exact (nodup_fst_unique dirs k d2 d Hnodup Hin2 Hin). }
           subst d2. fold r in Hm2. congruence.
    + rewrite (load_all_not_in rpkg_eqb rpkg_eqb_spec dirs [] k Hni). cbn.
      rewrite load_all_not_in; [reflexivity|exact rpkg_eqb_spec|].
      intros Hin2. apply Hni. apply in_map_iff in Hin2 as ([k2 cm] & Hk2 & Hin2). cbn in Hk2. subst k2.
      apply in_map_iff in Hin2 as (r2 & E2 & Hin2). apply filter_In in Hin2 as [Hin2 _].
      unfold recs in Hin2. apply in_map_iff in Hin2 as ([p2 d2] & <- & Hin2).
      unfold meta_binding_of in E2. injection E2 as Hk2 _.
      rewrite (pkg_of_record (p2, d2) Hin2) in Hk2. cbn in Hk2. subst p2.
      apply in_map_iff. exists (k, d2). auto.
Qed.

(* Close = writeManifest, then OpenDir: the package tables come back *)
Corollary reopen_written :
  exists dirs' meta',
    load_packages (write_packages dirs meta) [] [] = Ok (dirs', meta') /\
    (forall k, alookup rpkg_eqb k dirs' = alookup rpkg_eqb k (load_all rpkg_eqb dirs [])) /\
    (forall k, alookup rpkg_eqb k meta' = expected_meta k).
Proof. apply reopen_any_order. unfold write_packages. apply sort_pkgs_perm. Qed.
End RoundTrip.

(* ---------- the written list does not depend on the order the builder's map is visited in ---------- *)
Definition src_lt (a b : mpackage) : bool := str_ltb (mp_source a) (mp_source b).

Fixpoint strictly_sorted (l : list mpackage) : Prop :=
  match l with
  | a :: r => (forall b, In b r -> src_lt a b = true) /\ strictly_sorted r
  | [] => True
  end.

Lemma insert_pkg_in x l y : In y (insert_pkg x l) <-> y = x \/ In y l.
Proof.
  split.
  - intros H. apply (Permutation_in _ (Permutation_sym (insert_pkg_perm x l))) in H. destruct H; auto.
  - intros H. apply (Permutation_in _ (insert_pkg_perm x l)). destruct H; [left; auto|right; auto].
Qed.

Lemma insert_pkg_sorted x l :
  strictly_sorted l -> (forall y, In y l -> mp_source y <> mp_source x) -> strictly_sorted (insert_pkg x l).
Proof.
  induction l as [|y l IH]; intros Hs Hd; [cbn; auto|].
  cbn [insert_pkg]. destruct Hs as [Hy Hs].
  destruct (str_ltb (mp_source y) (mp_source x)) eqn:E.
  - cbn [strictly_sorted]. split.
    + intros b Hb. apply insert_pkg_in in Hb as [->|Hb]; [exact E|now apply Hy].
    + apply IH; [exact Hs|]. intros z Hz. apply Hd. now right.
  - cbn [strictly_sorted]. split; [|split; assumption].
    assert (Hxy : src_lt x y = true).
    { unfold src_lt. destruct (str_ltb_total (mp_source x) (mp_source y)) as [H|H]; [|exact H|congruence].
      intros Heq. apply (Hd y); [now left|auto]. }
    intros b [<-|Hb]; [exact Hxy|].
    unfold src_lt in *. eapply str_ltb_trans; [exact Hxy|]. now apply Hy.
Qed.

Lemma sort_pkgs_sorted l : NoDup (map mp_source l) -> strictly_sorted (sort_pkgs l).
Proof.
  induction l as [|x l IH]; [cbn; auto|]. cbn [map]. intros Hnd. inversion Hnd as [|? ? Hni Hnd']; subst.
  cbn [sort_pkgs fold_right]. apply insert_pkg_sorted; [now apply IH|].
  intros y Hy Heq. apply Hni. apply (Permutation_in _ (Permutation_sym (sort_pkgs_perm l))) in Hy.
  rewrite <- Heq. now apply in_map.
Qed.

Lemma sorted_perm_eq : forall l l', strictly_sorted l -> strictly_sorted l' -> Permutation l l' -> l = l'.
Proof.
  induction l as [|a l IH]; intros l' Hs Hs' Hp.
  - apply Permutation_nil in Hp. now subst.
  - destruct l' as [|b l']; [apply Permutation_sym, Permutation_nil in Hp; discriminate|].
    destruct Hs as [Ha Hs], Hs' as [Hb Hs'].
    assert (a = b).
    { assert (Hina : In a (b :: l')) by (eapply Permutation_in; [exact Hp|now left]).
      assert (Hinb : In b (a :: l)) by (eapply Permutation_in; [apply Permutation_sym; exact Hp|now left]).
      destruct Hina as [->|Hina]; [reflexivity|]. destruct Hinb as [->|Hinb]; [reflexivity|].
      pose proof (Ha b Hinb) as H1. pose proof (Hb a Hina) as H2. unfold src_lt in *.
      pose proof (str_ltb_asym _ _ H1). congruence. }
    subst b. f_equal. apply IH; [exact Hs|exact Hs'|]. now apply Permutation_cons_inv in Hp.
Qed.

Theorem write_order_irrelevant dirs dirs' meta :
  NoDup (map (fun pd => rpkg_string (fst pd)) dirs) -> Permutation dirs dirs' ->
  write_packages dirs meta = write_packages dirs' meta.
Proof.
  intros Hnd Hp. unfold write_packages.
  assert (Hsrc : forall l, map mp_source (map (package_record meta) l) = map (fun pd => rpkg_string (fst pd)) l).
  { intros l. rewrite map_map. apply map_ext. intros [p d]. unfold package_record. cbn [fst snd].
    destruct (match alookup rpkg_eqb p meta with Some cm => cm | None => ([], []) end). reflexivity. }
  apply sorted_perm_eq.
  - apply sort_pkgs_sorted. now rewrite Hsrc.
  - apply sort_pkgs_sorted. rewrite Hsrc. eapply Permutation_NoDup; [apply Permutation_map; exact Hp|exact Hnd].
  - eapply perm_trans; [apply Permutation_sym, sort_pkgs_perm|].
    eapply perm_trans; [|apply sort_pkgs_perm]. now apply Permutation_map.
Qed.
