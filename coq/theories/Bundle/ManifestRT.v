(* C09 / C13 on the model: what Close writes (writeManifest: one entry per
   remote package, sorted by the printed address) is read back by OpenDir as the
   same tables - the same directory for every package, the same metadata - and
   the document does not depend on the order in which the builder's maps are
   visited. *)
From Slug Require Import Base.Str Base.PathAlg Addr.Resolve Addr.Url Addr.Parse
  Bundle.Lookup Bundle.LookupProofs Bundle.VersionsProofs.
From Coq Require Import Permutation Lia.

(* ---------- maps as association lists ---------- *)
Section Maps.
Context {K V : Type} (eqb : K -> K -> bool).
Hypothesis eqb_spec : forall a b, eqb a b = true <-> a = b.

Lemma alookup_aset_same k v (l : list (K * V)) : alookup eqb k (aset eqb k v l) = Some v.
Proof.
  assert (R : eqb k k = true) by now apply eqb_spec.
  induction l as [|[k' v'] l IH]; cbn; [now rewrite R|].
  destruct (eqb k k') eqn:E; cbn; [now rewrite R|]. now rewrite E.
Qed.

Lemma alookup_aset_other k k' v (l : list (K * V)) : k' <> k -> alookup eqb k' (aset eqb k v l) = alookup eqb k' l.
Proof.
  intros Hne.
  assert (F : eqb k' k = false).
  { destruct (eqb k' k) eqn:E; [|reflexivity]. apply eqb_spec in E. congruence. }
  induction l as [|[k2 v2] l IH]; cbn; [now rewrite F|].
  destruct (eqb k k2) eqn:E.
  - apply eqb_spec in E. subst k2. cbn. now rewrite F.
  - cbn. destruct (eqb k' k2); [reflexivity|exact IH].
Qed.

Lemma key_dec (a b : K) : {a = b} + {a <> b}.
Proof.
  destruct (eqb a b) eqn:E; [left; now apply eqb_spec|right].
  intros H. apply eqb_spec in H. congruence.
Qed.

(* loading a list of bindings, later ones overriding *)
Definition load_all (l : list (K * V)) (m : list (K * V)) : list (K * V) :=
  fold_left (fun m kv => aset eqb (fst kv) (snd kv) m) l m.

Lemma load_all_not_in l : forall m k, ~ In k (map fst l) -> alookup eqb k (load_all l m) = alookup eqb k m.
Proof.
  induction l as [|[k' v'] l IH]; intros m k Hn; [reflexivity|].
  cbn [load_all fold_left fst snd]. cbn in Hn.
  change (fold_left _ l ?x) with (load_all l x). rewrite IH by tauto.
  apply alookup_aset_other. intros ->. tauto.
Qed.

Lemma load_all_in l : forall m k v, NoDup (map fst l) -> In (k, v) l -> alookup eqb k (load_all l m) = Some v.
Proof.
  induction l as [|[k' v'] l IH]; intros m k v Hnd Hin; [contradiction|].
  cbn [map fst] in Hnd. inversion Hnd as [|? ? Hni Hnd']; subst.
  cbn [load_all fold_left fst snd]. change (fold_left _ l ?x) with (load_all l x).
  destruct Hin as [[= -> ->]|Hin].
  - rewrite load_all_not_in by exact Hni. apply alookup_aset_same.
  - now apply IH.
Qed.

(* so the result, as a finite map, is independent of the order of the bindings *)
Lemma load_all_perm l l' m k :
  NoDup (map fst l) -> Permutation l l' -> alookup eqb k (load_all l m) = alookup eqb k (load_all l' m).
Proof.
  intros Hnd Hp.
  assert (Hnd' : NoDup (map fst l')) by (eapply Permutation_NoDup; [apply Permutation_map; exact Hp|exact Hnd]).
  destruct (in_dec key_dec k (map fst l)) as [Hin|Hni].
  - apply in_map_iff in Hin as ([k0 v] & Hk & Hin). cbn in Hk. subst k0.
    rewrite (load_all_in l m k v Hnd Hin).
    symmetry. apply load_all_in; [exact Hnd'|]. eapply Permutation_in; eauto.
  - rewrite load_all_not_in by exact Hni. symmetry. apply load_all_not_in.
    intros Hin. apply Hni. eapply Permutation_in; [apply Permutation_sym, Permutation_map; exact Hp|exact Hin].
Qed.
End Maps.

(* ---------- writeManifest, the package section ---------- *)
(* one record per package of the builder's directory table, with the metadata
   the builder holds for it (both fields empty when it holds none) *)
Definition package_record (meta : list (rpkg * (str * str))) (pd : rpkg * str) : mpackage :=
  let '(c, msg) := match alookup rpkg_eqb (fst pd) meta with Some cm => cm | None => ([], []) end in
  mkMPackage (rpkg_string (fst pd)) (snd pd) c msg.

(* sort.Slice by the printed address (insertion sort: any sorting algorithm
   gives the same list when the printed addresses are pairwise different) *)
Fixpoint insert_pkg (x : mpackage) (l : list mpackage) : list mpackage :=
  match l with
  | [] => [x]
  | y :: r => if str_ltb (mp_source y) (mp_source x) then y :: insert_pkg x r else x :: l
  end.
Definition sort_pkgs (l : list mpackage) : list mpackage := fold_right insert_pkg [] l.

Definition write_packages (dirs : list (rpkg * str)) (meta : list (rpkg * (str * str))) : list mpackage :=
  sort_pkgs (map (package_record meta) dirs).

Lemma insert_pkg_perm x l : Permutation (x :: l) (insert_pkg x l).
Proof.
  induction l as [|y l IH]; cbn; [apply Permutation_refl|].
  destruct (str_ltb (mp_source y) (mp_source x)); [|apply Permutation_refl].
  eapply perm_trans; [apply perm_swap|]. now apply perm_skip.
Qed.

Lemma sort_pkgs_perm l : Permutation l (sort_pkgs l).
Proof.
  induction l as [|x l IH]; cbn; [constructor|].
  eapply perm_trans; [|apply insert_pkg_perm]. now constructor.
Qed.

(* sorted output, and therefore one output for all input orders *)
Fixpoint sorted_src (l : list mpackage) : Prop :=
  match l with
  | a :: r => match r with b :: _ => str_ltb (mp_source b) (mp_source a) = false /\ sorted_src r | [] => True end
  | [] => True
  end.

(* ---------- OpenDir on what was written ---------- *)
(* load_packages as a fold over bindings, when every record is acceptable *)
Definition record_ok (p : mpackage) (pkg : rpkg) : Prop :=
  all_ascii (mp_local p) = true /\ local_dir_ok (mp_local p) = true /\ parse_remote_pkg (mp_source p) = Ok pkg.

Lemma load_packages_fold : forall ps pkgs dirs meta,
  Forall2 record_ok ps pkgs ->
  exists dirs' meta',
    load_packages ps dirs meta = Ok (dirs', meta') /\
    dirs' = load_all rpkg_eqb (combine pkgs (map mp_local ps)) dirs /\
    (forall k, alookup rpkg_eqb k meta' =
               alookup rpkg_eqb k
                 (fold_left (fun m pp => if is_empty (mp_commit (fst pp)) &&& is_empty (mp_message (fst pp)) then m
                                         else aset rpkg_eqb (snd pp) (mp_commit (fst pp), mp_message (fst pp)) m)
                            (combine ps pkgs) meta)).
Proof.
  induction ps as [|p ps IH]; intros pkgs dirs meta HF.
  - inversion HF; subst. exists dirs, meta. repeat split; reflexivity.
  - inversion HF as [|? pkg ? pkgs' (Ha & Hl & Hp) HF']; subst.
    cbn [load_packages]. rewrite Ha, Hl. cbn [negb]. rewrite Hp. cbn [rbind].
    destruct (IH pkgs' (aset rpkg_eqb pkg (mp_local p) dirs)
                 (if is_empty (mp_commit p) &&& is_empty (mp_message p) then meta
                  else aset rpkg_eqb pkg (mp_commit p, mp_message p) meta) HF') as (d' & m' & E & Ed & Em).
    exists d', m'. split; [exact E|]. split; [exact Ed|]. exact Em.
Qed.

Lemma nodup_fst_unique {A B} (l : list (A * B)) k v1 v2 :
  NoDup (map fst l) -> In (k, v1) l -> In (k, v2) l -> v1 = v2.
Proof.
  induction l as [|[a b] l IH]; [contradiction|]. cbn. intros Hnd H1 H2.
  inversion Hnd as [|? ? Hni Hnd']; subst.
  destruct H1 as [E1|H1], H2 as [E2|H2].
  - congruence.
  - exfalso. injection E1 as -> ->. apply Hni. apply in_map_iff. exists (k, v2). auto.
  - exfalso. injection E2 as -> ->. apply Hni. apply in_map_iff. exists (k, v1). auto.
  - now apply IH.
Qed.

(* ---------- the round trip ---------- *)
Definition pkg_of (p : mpackage) : rpkg :=
  match parse_remote_pkg (mp_source p) with Ok k => k | _ => mkPkg [] empty_url end.

Definition binding_of (p : mpackage) : rpkg * str := (pkg_of p, mp_local p).

Definition has_meta (p : mpackage) : bool := negb (is_empty (mp_commit p) &&& is_empty (mp_message p)).
Definition meta_binding_of (p : mpackage) : rpkg * (str * str) := (pkg_of p, (mp_commit p, mp_message p)).

(* the conditional fold of load_packages is a load of the records that carry metadata *)
Lemma meta_fold_as_load : forall ps m,
  fold_left (fun m pp => if is_empty (mp_commit (fst pp)) &&& is_empty (mp_message (fst pp)) then m
                         else aset rpkg_eqb (snd pp) (mp_commit (fst pp), mp_message (fst pp)) m)
            (combine ps (map pkg_of ps)) m
  = load_all rpkg_eqb (map meta_binding_of (filter has_meta ps)) m.
Proof.
  induction ps as [|p ps IH]; intros m; [reflexivity|].
  cbn [map combine fold_left fst snd filter]. unfold has_meta at 1.
  destruct (is_empty (mp_commit p) &&& is_empty (mp_message p)); cbn [negb]; [apply IH|].
  cbn [map load_all fold_left]. unfold meta_binding_of at 1. cbn [fst snd]. apply IH.
Qed.

Section RoundTrip.
Variable dirs : list (rpkg * str).
Variable meta : list (rpkg * (str * str)).
(* the builder's table is a map: one directory per package *)
Hypothesis Hnodup : NoDup (map fst dirs).
(* every package address prints to text that parses back to it (C06), and the
   directory names are what the builder makes: plain ASCII names *)
Hypothesis Hok : forall p d, In (p, d) dirs ->
  all_ascii d = true /\ local_dir_ok d = true /\ parse_remote_pkg (rpkg_string p) = Ok p.

Let recs := map (package_record meta) dirs.

Lemma pkg_of_record pd : In pd dirs -> pkg_of (package_record meta pd) = fst pd.
Proof.
  destruct pd as [p d]. intros Hin. destruct (Hok p d Hin) as (_ & _ & Hp).
  unfold pkg_of, package_record. cbn [fst snd].
  destruct (match alookup rpkg_eqb p meta with Some cm => cm | None => ([], []) end) as [c msg].
  cbn [mp_source]. now rewrite Hp.
Qed.

Lemma bindings_of_recs : map binding_of recs = dirs.
Proof.
  unfold recs. rewrite map_map. rewrite <- (map_id dirs) at 2. apply map_ext_in.
  intros [p d] Hin. unfold binding_of. rewrite (pkg_of_record (p, d) Hin).
  unfold package_record. cbn [fst snd].
  destruct (match alookup rpkg_eqb p meta with Some cm => cm | None => ([], []) end) as [c msg]. reflexivity.
Qed.

Lemma recs_ok ps : Permutation recs ps -> Forall2 record_ok ps (map pkg_of ps).
Proof.
  intros Hp.
  assert (H : forall p, In p ps -> record_ok p (pkg_of p)).
  { intros p Hin. apply (Permutation_in _ (Permutation_sym Hp)) in Hin.
    unfold recs in Hin. apply in_map_iff in Hin as ([q d] & <- & Hin).
    rewrite (pkg_of_record (q, d) Hin). destruct (Hok q d Hin) as (Ha & Hl & Hpq).
    unfold record_ok, package_record. cbn [fst snd].
    destruct (match alookup rpkg_eqb q meta with Some cm => cm | None => ([], []) end) as [c msg].
    cbn [mp_local mp_source]. auto. }
  clear Hp. induction ps as [|p ps IH]; [constructor|].
  cbn [map]. constructor; [apply H; now left|apply IH; intros q Hq; apply H; now right].
Qed.

(* what the metadata table must come back as: the builder's entry, unless it carries nothing *)
Definition expected_meta (k : rpkg) : option (str * str) :=
  match alookup rpkg_eqb k (load_all rpkg_eqb dirs []) with
  | None => None
  | Some _ =>
      match alookup rpkg_eqb k meta with
      | Some (c, msg) => if is_empty c &&& is_empty msg then None else Some (c, msg)
      | None => None
      end
  end.

Theorem reopen_any_order ps :
  Permutation recs ps ->
  exists dirs' meta',
    load_packages ps [] [] = Ok (dirs', meta') /\
    (forall k, alookup rpkg_eqb k dirs' = alookup rpkg_eqb k (load_all rpkg_eqb dirs [])) /\
    (forall k, alookup rpkg_eqb k meta' = expected_meta k).
Proof.
  intros Hp.
  destruct (load_packages_fold ps (map pkg_of ps) [] [] (recs_ok ps Hp)) as (d' & m' & E & Ed & Em).
  exists d', m'. split; [exact E|].
  assert (Hb : Permutation dirs (map binding_of ps)).
  { rewrite <- bindings_of_recs. now apply Permutation_map. }
  assert (Hcomb : combine (map pkg_of ps) (map mp_local ps) = map binding_of ps).
  { clear. induction ps as [|p ps IH]; [reflexivity|]. cbn. now rewrite IH. }
  split.
  - intros k. rewrite Ed, Hcomb. symmetry.
    apply (load_all_perm rpkg_eqb rpkg_eqb_spec); [exact Hnodup|exact Hb].
  - intros k. rewrite Em, meta_fold_as_load.
    (* the records with metadata, as bindings: a permutation of those of [recs] *)
    assert (Hpm : Permutation (map meta_binding_of (filter has_meta recs)) (map meta_binding_of (filter has_meta ps))).
    { apply Permutation_map. clear - Hp. induction Hp; cbn.
      - constructor.
      - destruct (has_meta x); [now constructor|assumption].
      - destruct (has_meta x), (has_meta y); try apply Permutation_refl. apply perm_swap.
      - eapply perm_trans; eauto. }
    assert (Hnd : NoDup (map fst (map meta_binding_of (filter has_meta recs)))).
    { assert (Hsub : forall l, NoDup (map fst (map binding_of l)) -> NoDup (map fst (map meta_binding_of (filter has_meta l)))).
      { induction l as [|p l IH]; cbn; [constructor|]. intros H. inversion H as [|? ? Hni Hnd']; subst.
        destruct (has_meta p); cbn; [|now apply IH]. constructor; [|now apply IH].
        intros Hin. apply Hni. clear - Hin. induction l as [|q l IH]; [contradiction|].
        cbn in *. destruct (has_meta q); cbn in Hin; [destruct Hin as [<-|Hin]; [now left|right; now apply IH]|right; now apply IH]. }
      apply Hsub. rewrite bindings_of_recs. exact Hnodup. }
    rewrite <- (load_all_perm rpkg_eqb rpkg_eqb_spec _ _ [] k Hnd Hpm).
    unfold expected_meta.
    (* look k up among the packages *)
    destruct (in_dec (key_dec rpkg_eqb rpkg_eqb_spec) k (map fst dirs)) as [Hin|Hni].
    + apply in_map_iff in Hin as ([p d] & Hk & Hin). cbn in Hk. subst p.
      rewrite (load_all_in rpkg_eqb rpkg_eqb_spec dirs [] k d Hnodup Hin).
      set (r := package_record meta (k, d)).
      assert (Hr : In r recs) by (unfold recs; apply in_map; exact Hin).
      assert (Hrk : pkg_of r = k) by (apply (pkg_of_record (k, d) Hin)).
      assert (Hcm : (mp_commit r, mp_message r) = match alookup rpkg_eqb k meta with Some cm => cm | None => ([], []) end).
      { unfold r, package_record. cbn [fst snd].
        destruct (match alookup rpkg_eqb k meta with Some cm => cm | None => ([], []) end) as [c msg]. reflexivity. }
      destruct (has_meta r) eqn:Hm.
      * rewrite (load_all_in rpkg_eqb rpkg_eqb_spec _ [] k (mp_commit r, mp_message r) Hnd).
        -- rewrite Hcm. unfold has_meta in Hm. apply negb_true_iff in Hm.
           destruct (alookup rpkg_eqb k meta) as [[c msg]|].
           ++ injection Hcm as Hc Hmsg. rewrite Hc, Hmsg in Hm. now rewrite Hm.
           ++ injection Hcm as Hc Hmsg. rewrite Hc, Hmsg in Hm. discriminate.
        -- apply in_map_iff. exists r. split; [unfold meta_binding_of; now rewrite Hrk|].
           apply filter_In. auto.
      * rewrite load_all_not_in; [|exact rpkg_eqb_spec|].
        -- cbn. unfold has_meta in Hm. apply negb_false_iff in Hm.
           destruct (alookup rpkg_eqb k meta) as [[c msg]|]; [|reflexivity].
           injection Hcm as Hc Hmsg. rewrite Hc, Hmsg in Hm. now rewrite Hm.
        -- (* no other record has the key k *)
           intros Hin2. apply in_map_iff in Hin2 as ([k2 cm] & Hk2 & Hin2). cbn in Hk2. subst k2.
           apply in_map_iff in Hin2 as (r2 & E2 & Hin2). apply filter_In in Hin2 as [Hin2 Hm2].
           unfold recs in Hin2. apply in_map_iff in Hin2 as ([p2 d2] & <- & Hin2).
           unfold meta_binding_of in E2. injection E2 as Hk2 _.
           rewrite (pkg_of_record (p2, d2) Hin2) in Hk2. cbn in Hk2. subst p2.
           assert (d2 = d).
           { exact (nodup_fst_unique dirs k d2 d Hnodup Hin2 Hin). }
           subst d2. fold r in Hm2. congruence.
    + rewrite (load_all_not_in rpkg_eqb rpkg_eqb_spec dirs [] k Hni). cbn.
      rewrite load_all_not_in; [reflexivity|exact rpkg_eqb_spec|].
      intros Hin2. apply Hni. apply in_map_iff in Hin2 as ([k2 cm] & Hk2 & Hin2). cbn in Hk2. subst k2.
      apply in_map_iff in Hin2 as (r2 & E2 & Hin2). apply filter_In in Hin2 as [Hin2 _].
      unfold recs in Hin2. apply in_map_iff in Hin2 as ([p2 d2] & <- & Hin2).
      unfold meta_binding_of in E2. injection E2 as Hk2 _.
      rewrite (pkg_of_record (p2, d2) Hin2) in Hk2. cbn in Hk2. subst p2.
      apply in_map_iff. exists (k, d2). auto.
Qed.

(* Close = writeManifest, then OpenDir: the package tables come back *)
Corollary reopen_written :
  exists dirs' meta',
    load_packages (write_packages dirs meta) [] [] = Ok (dirs', meta') /\
    (forall k, alookup rpkg_eqb k dirs' = alookup rpkg_eqb k (load_all rpkg_eqb dirs [])) /\
    (forall k, alookup rpkg_eqb k meta' = expected_meta k).
Proof. apply reopen_any_order. unfold write_packages. apply sort_pkgs_perm. Qed.
End RoundTrip.

(* ---------- the written list does not depend on the order the builder's map is visited in ---------- *)
Definition src_lt (a b : mpackage) : bool := str_ltb (mp_source a) (mp_source b).

Fixpoint strictly_sorted (l : list mpackage) : Prop :=
  match l with
  | a :: r => (forall b, In b r -> src_lt a b = true) /\ strictly_sorted r
  | [] => True
  end.

Lemma insert_pkg_in x l y : In y (insert_pkg x l) <-> y = x \/ In y l.
Proof.
  split.
  - intros H. apply (Permutation_in _ (Permutation_sym (insert_pkg_perm x l))) in H. destruct H; auto.
  - intros H. apply (Permutation_in _ (insert_pkg_perm x l)). destruct H; [left; auto|right; auto].
Qed.

Lemma insert_pkg_sorted x l :
  strictly_sorted l -> (forall y, In y l -> mp_source y <> mp_source x) -> strictly_sorted (insert_pkg x l).
Proof.
  induction l as [|y l IH]; intros Hs Hd; [cbn; auto|].
  cbn [insert_pkg]. destruct Hs as [Hy Hs].
  destruct (str_ltb (mp_source y) (mp_source x)) eqn:E.
  - cbn [strictly_sorted]. split.
    + intros b Hb. apply insert_pkg_in in Hb as [->|Hb]; [exact E|now apply Hy].
    + apply IH; [exact Hs|]. intros z Hz. apply Hd. now right.
  - cbn [strictly_sorted]. split; [|split; assumption].
    assert (Hxy : src_lt x y = true).
    { unfold src_lt. destruct (str_ltb_total (mp_source x) (mp_source y)) as [H|H]; [|exact H|congruence].
      intros Heq. apply (Hd y); [now left|auto]. }
    intros b [<-|Hb]; [exact Hxy|].
    unfold src_lt in *. eapply str_ltb_trans; [exact Hxy|]. now apply Hy.
Qed.

Lemma sort_pkgs_sorted l : NoDup (map mp_source l) -> strictly_sorted (sort_pkgs l).
Proof.
  induction l as [|x l IH]; [cbn; auto|]. cbn [map]. intros Hnd. inversion Hnd as [|? ? Hni Hnd']; subst.
  cbn [sort_pkgs fold_right]. apply insert_pkg_sorted; [now apply IH|].
  intros y Hy Heq. apply Hni. apply (Permutation_in _ (Permutation_sym (sort_pkgs_perm l))) in Hy.
  rewrite <- Heq. now apply in_map.
Qed.

Lemma sorted_perm_eq : forall l l', strictly_sorted l -> strictly_sorted l' -> Permutation l l' -> l = l'.
Proof.
  induction l as [|a l IH]; intros l' Hs Hs' Hp.
  - apply Permutation_nil in Hp. now subst.
  - destruct l' as [|b l']; [apply Permutation_sym, Permutation_nil in Hp; discriminate|].
    destruct Hs as [Ha Hs], Hs' as [Hb Hs'].
    assert (a = b).
    { assert (Hina : In a (b :: l')) by (eapply Permutation_in; [exact Hp|now left]).
      assert (Hinb : In b (a :: l)) by (eapply Permutation_in; [apply Permutation_sym; exact Hp|now left]).
      destruct Hina as [->|Hina]; [reflexivity|]. destruct Hinb as [->|Hinb]; [reflexivity|].
      pose proof (Ha b Hinb) as H1. pose proof (Hb a Hina) as H2. unfold src_lt in *.
      pose proof (str_ltb_asym _ _ H1). congruence. }
    subst b. f_equal. apply IH; [exact Hs|exact Hs'|]. now apply Permutation_cons_inv in Hp.
Qed.

Theorem write_order_irrelevant dirs dirs' meta :
  NoDup (map (fun pd => rpkg_string (fst pd)) dirs) -> Permutation dirs dirs' ->
  write_packages dirs meta = write_packages dirs' meta.
Proof.
  intros Hnd Hp. unfold write_packages.
  assert (Hsrc : forall l, map mp_source (map (package_record meta) l) = map (fun pd => rpkg_string (fst pd)) l).
  { intros l. rewrite map_map. apply map_ext. intros [p d]. unfold package_record. cbn [fst snd].
    destruct (match alookup rpkg_eqb p meta with Some cm => cm | None => ([], []) end). reflexivity. }
  apply sorted_perm_eq.
  - apply sort_pkgs_sorted. now rewrite Hsrc.
  - apply sort_pkgs_sorted. rewrite Hsrc. eapply Permutation_NoDup; [apply Permutation_map; exact Hp|exact Hnd].
  - eapply perm_trans; [apply Permutation_sym, sort_pkgs_perm|].
    eapply perm_trans; [|apply sort_pkgs_perm]. now apply Permutation_map.
Qed.

(* ====================================================================== *)
(* the registry section                                                    *)
(* ====================================================================== *)
(* maps of maps: registry package -> version -> value *)
Section Nested.
Context {V : Type}.
Definition lookup2 (p : mpkg) (v : version) (m : list (mpkg * list (version * V))) : option V :=
  match alookup mpkg_eqb p m with Some vs => alookup version_eqb v vs | None => None end.
Definition set2 (p : mpkg) (v : version) (x : V) (m : list (mpkg * list (version * V))) :=
  aset mpkg_eqb p (aset version_eqb v x (or_nil (alookup mpkg_eqb p m))) m.

Lemma mpkg_eqb_spec a b : mpkg_eqb a b = true <-> a = b.
Proof.
  unfold mpkg_eqb. rewrite !andl_spec, !andb_true_iff, !str_eqb_eq.
  destruct a, b; cbn. split; [intros [[[-> ->] ->] ->]; reflexivity|intros [= -> -> -> ->]; auto].
Qed.

Lemma lookup2_set2_same p v x m : lookup2 p v (set2 p v x m) = Some x.
Proof.
  unfold lookup2, set2. rewrite (alookup_aset_same mpkg_eqb mpkg_eqb_spec).
  apply (alookup_aset_same version_eqb LookupProofs.version_eqb_spec).
Qed.

Lemma lookup2_set2_other p v p' v' x m : (p', v') <> (p, v) -> lookup2 p' v' (set2 p v x m) = lookup2 p' v' m.
Proof.
  intros Hne. unfold lookup2, set2.
  destruct (key_dec mpkg_eqb mpkg_eqb_spec p' p) as [->|Hp].
  - rewrite (alookup_aset_same mpkg_eqb mpkg_eqb_spec).
    rewrite (alookup_aset_other version_eqb LookupProofs.version_eqb_spec) by congruence.
    destruct (alookup mpkg_eqb p m); reflexivity.
  - now rewrite (alookup_aset_other mpkg_eqb mpkg_eqb_spec) by exact Hp.
Qed.

(* loading a list of (package, version, value) bindings *)
Definition load2 (l : list ((mpkg * version) * V)) (m : list (mpkg * list (version * V))) :=
  fold_left (fun m kv => set2 (fst (fst kv)) (snd (fst kv)) (snd kv) m) l m.

Lemma load2_not_in l : forall m p v, ~ In (p, v) (map fst l) -> lookup2 p v (load2 l m) = lookup2 p v m.
Proof.
  induction l as [|[[p' v'] x] l IH]; intros m p v Hn; [reflexivity|].
  cbn [load2 fold_left fst snd]. change (fold_left _ l ?y) with (load2 l y). cbn in Hn.
  rewrite IH by tauto. apply lookup2_set2_other. intros E. apply Hn. left. now symmetry.
Qed.

Lemma load2_in l : forall m p v x, NoDup (map fst l) -> In ((p, v), x) l -> lookup2 p v (load2 l m) = Some x.
Proof.
  induction l as [|[[p' v'] x'] l IH]; intros m p v x Hnd Hin; [contradiction|].
  cbn [map fst] in Hnd. inversion Hnd as [|? ? Hni Hnd']; subst.
  cbn [load2 fold_left fst snd]. change (fold_left _ l ?y) with (load2 l y).
  destruct Hin as [[= -> -> ->]|Hin].
  - rewrite load2_not_in by exact Hni. apply lookup2_set2_same.
  - now apply IH.
Qed.
End Nested.

(* the printed form of one table entry, and the flat view of a registry section *)
Definition flat_registry (regs : list mregistry) : list (str * mversion) :=
  flat_map (fun r => map (fun mv => (mr_source r, mv)) (mr_versions r)) regs.

Definition print_entry (depr : list ((mpkg * version) * option deprecation))
    (e : (mpkg * version) * (rpkg * str)) : str * mversion :=
  (mpkg_string (fst (fst e)),
   mkMVersion (version_string (snd (fst e))) (remote_string (fst (snd e)) (snd (snd e)))
              (match alookup (fun a b => mpkg_eqb (fst a) (fst b) &&& version_eqb (snd a) (snd b)) (fst e) depr with
               | Some d => d | None => None end)).

(* ---------- load_versions is a load of bindings ---------- *)
Definition vkey_of (mv : mversion) : version :=
  match parse_version (mv_version mv) with Some v => v | None => mkVer 0 0 0 [] [] end.
Definition vsrc_of (mv : mversion) : rpkg * str :=
  match parse_remote (mv_source mv) with Ok x => x | _ => (mkPkg [] empty_url, []) end.
Definition mpkg_of (s : str) : mpkg :=
  match parse_registry_pkg s with Ok p => p | _ => mkMpkg [] [] [] [] end.

Definition mv_parses (mv : mversion) : Prop :=
  (exists v, parse_version (mv_version mv) = Some v) /\ (exists x, parse_remote (mv_source mv) = Ok x).

Lemma load_versions_as_load : forall vs srcs deprs,
  (forall mv, In mv vs -> mv_parses mv) ->
  load_versions vs srcs deprs
  = Ok (load_all version_eqb (map (fun mv => (vkey_of mv, vsrc_of mv)) vs) srcs,
        load_all version_eqb (map (fun mv => (vkey_of mv, mv_depr mv)) vs) deprs).
Proof.
  induction vs as [|mv vs IH]; intros srcs deprs Hp; [reflexivity|].
  destruct (Hp mv (or_introl eq_refl)) as [[v Hv] [x Hx]].
  assert (Ek : vkey_of mv = v) by (unfold vkey_of; now rewrite Hv).
  assert (Es : vsrc_of mv = x) by (unfold vsrc_of; now rewrite Hx).
  cbn [load_versions]. rewrite Hv, Hx. cbn [rbind].
  rewrite IH by (intros mv' Hin; apply Hp; now right).
  cbn [map load_all fold_left fst snd]. now rewrite Ek, Es.
Qed.

(* maps of maps, compared through lookup2 *)
Definition same2 {V} (a b : list (mpkg * list (version * V))) : Prop := forall q v, lookup2 q v a = lookup2 q v b.

Lemma record_step {V} (p : mpkg) (bs : list (version * V)) (reg m : list (mpkg * list (version * V))) :
  NoDup (map fst bs) -> same2 reg m ->
  same2 (aset mpkg_eqb p (load_all version_eqb bs (or_nil (alookup mpkg_eqb p reg))) reg)
        (load2 (map (fun b => ((p, fst b), snd b)) bs) m).
Proof.
  intros Hnd Hs q v.
  assert (Hkeys : map fst (map (fun b : version * V => ((p, fst b), snd b)) bs) = map (fun k => (p, k)) (map fst bs))
    by (rewrite !map_map; reflexivity).
  destruct (key_dec mpkg_eqb mpkg_eqb_spec q p) as [->|Hq].
  - unfold lookup2 at 1. rewrite (alookup_aset_same mpkg_eqb mpkg_eqb_spec).
    destruct (in_dec (key_dec version_eqb LookupProofs.version_eqb_spec) v (map fst bs)) as [Hin|Hni].
    + apply in_map_iff in Hin as ([v0 x] & E & Hin). cbn in E. subst v0.
      rewrite (load_all_in version_eqb LookupProofs.version_eqb_spec bs _ v x Hnd Hin).
      symmetry. apply load2_in.
      * rewrite Hkeys. clear - Hnd. induction (map fst bs) as [|k l IH]; [constructor|].
        inversion Hnd as [|? ? Hni Hnd']; subst. cbn. constructor; [|now apply IH].
        intros Hin. apply Hni. apply in_map_iff in Hin as (k' & [= <-] & Hk). exact Hk.
      * apply in_map_iff. exists (v, x). auto.
    + rewrite (load_all_not_in version_eqb LookupProofs.version_eqb_spec bs _ v Hni).
      rewrite load2_not_in.
      * rewrite <- Hs. unfold lookup2. destruct (alookup mpkg_eqb p reg); reflexivity.
      * rewrite Hkeys. intros Hin. apply in_map_iff in Hin as (k' & [= <-] & Hk). contradiction.
  - unfold lookup2 at 1. rewrite (alookup_aset_other mpkg_eqb mpkg_eqb_spec) by exact Hq.
    fold (lookup2 q v reg). rewrite Hs. symmetry. apply load2_not_in.
    rewrite Hkeys. intros Hin. apply in_map_iff in Hin as (k' & [= E] & _). congruence.
Qed.

Lemma load2_app {V} (a b : list ((mpkg * version) * V)) m : load2 (a ++ b) m = load2 b (load2 a m).
Proof. unfold load2. apply fold_left_app. Qed.

(* the bindings a registry section holds, in document order *)
Definition reg_bindings (regs : list mregistry) : list ((mpkg * version) * (rpkg * str)) :=
  flat_map (fun r => map (fun mv => ((mpkg_of (mr_source r), vkey_of mv), vsrc_of mv)) (mr_versions r)) regs.
Definition depr_bindings (regs : list mregistry) : list ((mpkg * version) * option deprecation) :=
  flat_map (fun r => map (fun mv => ((mpkg_of (mr_source r), vkey_of mv), mv_depr mv)) (mr_versions r)) regs.

Definition record_parses (r : mregistry) : Prop :=
  (exists p, parse_registry_pkg (mr_source r) = Ok p) /\ (forall mv, In mv (mr_versions r) -> mv_parses mv) /\
  NoDup (map vkey_of (mr_versions r)).

Theorem load_registry_as_load : forall regs reg depr mreg mdepr,
  (forall r, In r regs -> record_parses r) -> same2 reg mreg -> same2 depr mdepr ->
  exists reg' depr',
    load_registry regs reg depr = Ok (reg', depr') /\
    same2 reg' (load2 (reg_bindings regs) mreg) /\ same2 depr' (load2 (depr_bindings regs) mdepr).
Proof.
  induction regs as [|r regs IH]; intros reg depr mreg mdepr Hp Hr Hd.
  - exists reg, depr. repeat split; assumption.
  - destruct (Hp r (or_introl eq_refl)) as ([p Hpp] & Hvs & Hnd).
    cbn [load_registry]. rewrite Hpp. cbn [rbind].
    rewrite (load_versions_as_load (mr_versions r) _ _ Hvs). cbn [rbind].
    assert (Hmp : mpkg_of (mr_source r) = p) by (unfold mpkg_of; now rewrite Hpp).
    cbn [reg_bindings depr_bindings flat_map]. rewrite !load2_app. rewrite Hmp.
    apply IH; [intros r' Hin; apply Hp; now right| |].
    + pose proof (record_step p (map (fun mv => (vkey_of mv, vsrc_of mv)) (mr_versions r)) reg mreg) as H.
      rewrite !map_map in H. cbn [fst snd] in H. apply H; [exact Hnd|exact Hr].
    + pose proof (record_step p (map (fun mv => (vkey_of mv, mv_depr mv)) (mr_versions r)) depr mdepr) as H.
      rewrite !map_map in H. cbn [fst snd] in H. apply H; [exact Hnd|exact Hd].
Qed.

(* ---------- reading back the builder's registry tables ---------- *)
Section RegistryRT.
Variable R : list ((mpkg * version) * (rpkg * str)).          (* resolved (package, version) -> source *)
Variable Dp : list ((mpkg * version) * option deprecation).   (* ... -> deprecation note *)
Hypothesis HndR : NoDup (map fst R).
Hypothesis HndD : NoDup (map fst Dp).

Definition pv_eqb (a b : mpkg * version) : bool := mpkg_eqb (fst a) (fst b) &&& version_eqb (snd a) (snd b).

Lemma pv_dec (a b : mpkg * version) : {a = b} + {a <> b}.
Proof.
  destruct a as [p v], b as [q w].
  destruct (key_dec mpkg_eqb mpkg_eqb_spec p q) as [->|Hp]; [|right; congruence].
  destruct (key_dec version_eqb LookupProofs.version_eqb_spec v w) as [->|Hv]; [left; reflexivity|right; congruence].
Qed.

Definition table_get {V} (T : list ((mpkg * version) * V)) (p : mpkg) (v : version) : option V :=
  match find (fun e => if pv_dec (fst e) (p, v) then true else false) T with Some e => Some (snd e) | None => None end.

Lemma table_get_in {V} (T : list ((mpkg * version) * V)) p v x :
  NoDup (map fst T) -> In ((p, v), x) T -> table_get T p v = Some x.
Proof.
  unfold table_get. induction T as [|[k y] T IH]; intros Hnd Hin; [contradiction|].
  cbn [map fst] in Hnd. inversion Hnd as [|? ? Hni Hnd']; subst. cbn [find fst].
  destruct (pv_dec k (p, v)) as [->|Hne].
  - destruct Hin as [[= ->]|Hin]; [reflexivity|]. exfalso. apply Hni. apply in_map_iff. exists ((p, v), x). auto.
  - destruct Hin as [[= E _]|Hin]; [congruence|]. now apply IH.
Qed.

Lemma table_get_not_in {V} (T : list ((mpkg * version) * V)) p v :
  ~ In (p, v) (map fst T) -> table_get T p v = None.
Proof.
  unfold table_get. induction T as [|[k y] T IH]; intros Hn; [reflexivity|]. cbn [find fst]. cbn in Hn.
  destruct (pv_dec k (p, v)) as [->|Hne]; [tauto|]. apply IH. tauto.
Qed.

Lemma load2_is_table {V} (T B : list ((mpkg * version) * V)) :
  NoDup (map fst T) -> Permutation T B -> forall p v, lookup2 p v (load2 B []) = table_get T p v.
Proof.
  intros Hnd Hp p v.
  assert (HndB : NoDup (map fst B)) by (eapply Permutation_NoDup; [apply Permutation_map; exact Hp|exact Hnd]).
  destruct (in_dec pv_dec (p, v) (map fst T)) as [Hin|Hni].
  - apply in_map_iff in Hin as ([k x] & E & Hin). cbn in E. subst k.
    rewrite (table_get_in T p v x Hnd Hin). apply load2_in; [exact HndB|]. eapply Permutation_in; eauto.
  - rewrite (table_get_not_in T p v Hni). rewrite load2_not_in; [reflexivity|].
    intros Hin. apply Hni. eapply Permutation_in; [apply Permutation_sym, Permutation_map; exact Hp|exact Hin].
Qed.

(* any registry section whose records parse and whose bindings are the tables' entries, in any
   order and grouping, is read back as the tables *)
Theorem reopen_registry regs :
  (forall r, In r regs -> record_parses r) ->
  Permutation R (reg_bindings regs) -> Permutation Dp (depr_bindings regs) ->
  exists reg' depr',
    load_registry regs [] [] = Ok (reg', depr') /\
    (forall p v, lookup2 p v reg' = table_get R p v) /\
    (forall p v, lookup2 p v depr' = table_get Dp p v).
Proof.
  intros Hp HR HD.
  destruct (load_registry_as_load regs [] [] [] [] Hp (fun _ _ => eq_refl) (fun _ _ => eq_refl)) as (reg' & depr' & E & Sr & Sd).
  exists reg', depr'. split; [exact E|]. split.
  - intros p v. rewrite Sr. now apply load2_is_table.
  - intros p v. rewrite Sd. now apply load2_is_table.
Qed.
End RegistryRT.

(* one record per table entry: a document of that kind exists whenever the
   printed forms parse back (C06), and OpenDir merges the records of one package *)
Definition entry_record (Dp : list ((mpkg * version) * option deprecation)) (e : (mpkg * version) * (rpkg * str)) : mregistry :=
  mkMRegistry (mpkg_string (fst (fst e)))
    [mkMVersion (version_string (snd (fst e))) (remote_string (fst (snd e)) (snd (snd e)))
                (match table_get Dp (fst (fst e)) (snd (fst e)) with Some d => d | None => None end)].

Lemma entry_bindings Dp p v rp sub :
  parse_registry_pkg (mpkg_string p) = Ok p -> parse_version (version_string v) = Some v ->
  parse_remote (remote_string rp sub) = Ok (rp, sub) ->
  map (fun mv => ((mpkg_of (mr_source (entry_record Dp ((p, v), (rp, sub)))), vkey_of mv), vsrc_of mv))
      (mr_versions (entry_record Dp ((p, v), (rp, sub)))) = [((p, v), (rp, sub))].
Proof.
  intros A B C. unfold entry_record. cbn [fst snd mr_source mr_versions map].
  unfold mpkg_of, vkey_of, vsrc_of. cbn [mv_version mv_source]. now rewrite A, B, C.
Qed.

Lemma entry_depr_bindings Dp p v rp sub :
  parse_registry_pkg (mpkg_string p) = Ok p -> parse_version (version_string v) = Some v ->
  map (fun mv => ((mpkg_of (mr_source (entry_record Dp ((p, v), (rp, sub)))), vkey_of mv), mv_depr mv))
      (mr_versions (entry_record Dp ((p, v), (rp, sub))))
  = [((p, v), match table_get Dp p v with Some d => d | None => None end)].
Proof.
  intros A B. unfold entry_record. cbn [fst snd mr_source mr_versions map].
  unfold mpkg_of, vkey_of. cbn [mv_version mv_depr]. now rewrite A, B.
Qed.

Theorem reopen_written_registry R Dp :
  NoDup (map fst R) -> NoDup (map fst Dp) -> map fst Dp = map fst R ->
  (forall p v rp sub, In ((p, v), (rp, sub)) R ->
     parse_registry_pkg (mpkg_string p) = Ok p /\ parse_version (version_string v) = Some v /\
     parse_remote (remote_string rp sub) = Ok (rp, sub)) ->
  exists reg' depr',
    load_registry (map (entry_record Dp) R) [] [] = Ok (reg', depr') /\
    (forall p v, lookup2 p v reg' = table_get R p v) /\
    (forall p v, lookup2 p v depr' = table_get Dp p v).
Proof.
  intros HndR HndD Hkeys Hrt.
  assert (Hb : forall R0, (forall e, In e R0 -> In e R) -> reg_bindings (map (entry_record Dp) R0) = R0).
  { induction R0 as [|[[p v] [rp sub]] R0 IH]; intros Hin; [reflexivity|].
    cbn [map]. unfold reg_bindings in *. cbn [flat_map].
    destruct (Hrt p v rp sub (Hin _ (or_introl eq_refl))) as (A & B & C).
    rewrite (entry_bindings Dp p v rp sub A B C). cbn [app]. f_equal. apply IH. intros e He. apply Hin. now right. }
  assert (Hd : forall R0 D0, map fst D0 = map fst R0 -> (forall e, In e R0 -> In e R) -> (forall e, In e D0 -> In e Dp) ->
              depr_bindings (map (entry_record Dp) R0) = D0).
  { induction R0 as [|[[p v] [rp sub]] R0 IH]; intros D0 Hk HinR HinD.
    - destruct D0; [reflexivity|discriminate].
    - destruct D0 as [|[k d] D0]; [discriminate|]. cbn [map fst] in Hk. injection Hk as Hk1 Hk2. subst k.
      cbn [map]. unfold depr_bindings in *. cbn [flat_map].
      destruct (Hrt p v rp sub (HinR _ (or_introl eq_refl))) as (A & B & C).
      rewrite (entry_depr_bindings Dp p v rp sub A B).
      rewrite (table_get_in Dp p v d HndD (HinD _ (or_introl eq_refl))). cbn [app]. f_equal.
      apply IH; [exact Hk2|intros e He; apply HinR; now right|intros e He; apply HinD; now right]. }
  apply (reopen_registry R Dp HndR HndD (map (entry_record Dp) R)).
  - intros r Hin. apply in_map_iff in Hin as ([[p v] [rp sub]] & <- & Hin).
    destruct (Hrt p v rp sub Hin) as (A & B & C).
    unfold record_parses, entry_record. cbn [fst snd mr_source mr_versions].
    split; [eauto|]. split.
    + intros mv [<-|[]]. unfold mv_parses. cbn [mv_version mv_source]. eauto.
    + cbn. constructor; [intros []|constructor].
  - rewrite Hb by auto. apply Permutation_refl.
  - rewrite (Hd R Dp Hkeys) by auto. apply Permutation_refl.
Qed.
