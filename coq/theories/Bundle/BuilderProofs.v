(* Invariants of the builder's work-list state machine. *)
From Slug Require Import Base.Str Base.PathAlg Addr.Resolve Bundle.Versions Bundle.VersionsProofs Bundle.Builder.

(* ---------- reflection of the equality tests ---------- *)
Lemma rsrc_eqb_eq a b : rsrc_eqb a b = true <-> a = b.
Proof.
  destruct a, b. unfold rsrc_eqb; cbn. rewrite andb_true_iff, !str_eqb_eq.
  split; [intros [-> ->]; reflexivity|intros [= -> ->]; auto].
Qed.
Lemma rart_eqb_eq a b : rart_eqb a b = true <-> a = b.
Proof.
  destruct a as [s f], b as [s' f']. unfold rart_eqb; cbn. rewrite andb_true_iff, rsrc_eqb_eq, N.eqb_eq.
  split; [intros [-> ->]; reflexivity|intros [= -> ->]; auto].
Qed.
Lemma pv_eqb_eq a b : pv_eqb a b = true <-> a = b.
Proof.
  destruct a, b. unfold pv_eqb; cbn. rewrite andb_true_iff, str_eqb_eq, version_eqb_spec.
  split; [intros [-> ->]; reflexivity|intros [= -> ->]; auto].
Qed.

Lemma mem_In {K} (eqb : K -> K -> bool) (Heq : forall a b, eqb a b = true <-> a = b) k l :
  mem eqb k l = true <-> In k l.
Proof.
  unfold mem. rewrite existsb_exists. split.
  - intros [x [Hin He]]. apply Heq in He. now subst.
  - intros H. exists k. split; [exact H|now apply Heq].
Qed.

Lemma assoc_cons_eq {K V} (eqb : K -> K -> bool) (Heq : forall a b, eqb a b = true <-> a = b) k (v : V) l :
  assoc eqb k ((k, v) :: l) = Some v.
Proof. cbn. replace (eqb k k) with true; [reflexivity|]. symmetry. now apply Heq. Qed.

Lemma assoc_cons_neq {K V} (eqb : K -> K -> bool) (Heq : forall a b, eqb a b = true <-> a = b) k k' (v : V) l :
  k <> k' -> assoc eqb k ((k', v) :: l) = assoc eqb k l.
Proof.
  intros Hne. cbn. destruct (eqb k k') eqn:E; [|reflexivity]. apply Heq in E. contradiction.
Qed.

(* ====================================================================== *)
(* C12: an error diagnostic poisons the builder                           *)
(* ====================================================================== *)

Lemma apply_op_closed fuel w st o : closed st = true -> apply_op fuel w st o = (st, ORefused).
Proof. intros H. unfold apply_op. now rewrite H. Qed.

Lemma run_ops_closed fuel w ops : forall st, closed st = true ->
  forall o, In o (snd (run_ops fuel w st ops)) -> o = ORefused.
Proof.
  induction ops as [|op ops IH]; intros st Hc o Hin; [contradiction|].
  cbn in Hin. rewrite (apply_op_closed _ _ _ _ Hc) in Hin.
  destruct (run_ops fuel w st ops) as [st'' outs] eqn:E. cbn in Hin.
  destruct Hin as [<-|Hin]; [reflexivity|].
  apply (IH st Hc). now rewrite E.
Qed.

Lemma resolve_pending_poisons fuel w st st' ds :
  resolve_pending fuel w st = Some (st', ds) -> has_errors ds = true -> closed st' = true.
Proof.
  unfold resolve_pending. destruct (drain fuel w true st []) as [[s d]|]; [|discriminate].
  intros [= <- <-] H. now rewrite H.
Qed.

Definition is_error_outcome (o : outcome) : bool :=
  match o with ODiags ds => has_errors ds | _ => false end.

(* After any operation that returned an error diagnostic, every later
   operation (including Close) is refused: no bundle comes out of a failed build. *)
Theorem error_poisons fuel w : forall ops st pre o post,
  snd (run_ops fuel w st ops) = pre ++ o :: post ->
  is_error_outcome o = true ->
  forall o', In o' post -> o' = ORefused.
Proof.
  induction ops as [|op ops IH]; intros st pre o post Hrun Herr o' Hin.
  - cbn in Hrun. destruct pre; discriminate.
  - cbn in Hrun. destruct (apply_op fuel w st op) as [st1 out] eqn:Ea.
    destruct (run_ops fuel w st1 ops) as [st2 outs] eqn:Er. cbn in Hrun.
    destruct pre as [|p pre].
    + cbn in Hrun. injection Hrun as <- <-.
      assert (Hc : closed st1 = true).
      { unfold apply_op in Ea. destruct (closed st) eqn:Ec; [injection Ea as <- <-; discriminate|].
        destruct op as [s f|p sub sid f|].
        - destruct (mem rart_eqb (s, f) (analyzed st)); [injection Ea as <- <-; discriminate|].
          destruct (resolve_pending _ _ _) as [[s' d]|] eqn:Erp; injection Ea as <- <-; [|discriminate].
          eapply resolve_pending_poisons; eauto.
        - destruct (resolve_pending _ _ _) as [[s' d]|] eqn:Erp; injection Ea as <- <-; [|discriminate].
          eapply resolve_pending_poisons; eauto.
        - injection Ea as <- <-. discriminate. }
      apply (run_ops_closed fuel w ops st1 Hc). now rewrite Er.
    + cbn in Hrun. injection Hrun as -> Hrun.
      apply (IH st1 pre o post); [now rewrite Er|exact Herr|exact Hin].
Qed.

(* A bundle (OClosed) is only ever produced by Close on a builder that is not
   closed or poisoned; the model has no other way to write the manifest. *)
Theorem closed_only_by_close fuel w st o st' :
  apply_op fuel w st o = (st', OClosed) -> o = Close /\ closed st = false.
Proof.
  unfold apply_op. destruct (closed st); [intros [= _ H]; discriminate|].
  destruct o as [s f|p sub sid f|].
  - destruct (mem _ _ _); [intros [= _ H]; discriminate|].
    destruct (resolve_pending _ _ _) as [[? ?]|]; intros [= _ H]; discriminate.
  - destruct (resolve_pending _ _ _) as [[? ?]|]; intros [= _ H]; discriminate.
  - auto.
Qed.

(* finder diagnostics are forwarded with severity and text intact; a file name
   that is not a valid sub-path is left alone *)
Theorem diag_forwarding_preserves p d :
  d_sev (in_remote_source_package p d) = d_sev d /\
  d_summary (in_remote_source_package p d) = d_summary d /\
  (forall f, d_file d = Some f -> normalize_subpath f = None ->
     d_file (in_remote_source_package p d) = Some f) /\
  (d_file d = None -> d_file (in_remote_source_package p d) = None).
Proof.
  unfold in_remote_source_package. destruct d as [s m [f|]]; cbn.
  - destruct (normalize_subpath f) eqn:E; cbn; repeat split; auto; intros; congruence.
  - repeat split; auto; intros; congruence.
Qed.

(* ====================================================================== *)
(* frame lemmas for the two lookup operations                             *)
(* ====================================================================== *)

(* world-level (cache-free) registry resolution *)
Definition resolve_registry (w : world) (p : rpkg) (sub : str) (sid : setid) : option rsrc :=
  match w_versions w p with
  | None => None
  | Some infos =>
      match select_version (map fst infos) (w_allowed w sid) with
      | None => None
      | Some v =>
          match w_source w p v with
          | None => None
          | Some (rp, rsub) =>
              match final_source_addr sub rp rsub with
              | Remote fp fsub => Some (fp, fsub)
              | _ => None
              end
          end
      end
  end.

Record cache_ok (w : world) (st : bstate) : Prop := {
  co_v : forall p infos, assoc str_eqb p (vcache st) = Some infos -> w_versions w p = Some infos;
  co_r : forall k s, assoc pv_eqb k (resolved st) = Some s -> w_source w (fst k) (snd k) = Some s;
  co_d : forall p c, assoc str_eqb p (dirs st) = Some c -> exists m, w_fetch w p = Some (c, m) }.

Lemma cache_ok_init w : cache_ok w init_state.
Proof. constructor; cbn; intros; discriminate. Qed.

(* fields not touched by find_registry_source / ensure_remote_package *)
Definition same_queues (a b : bstate) : Prop :=
  pend_remote a = pend_remote b /\ pend_registry a = pend_registry b /\
  analyzed a = analyzed b /\ closed a = closed b.

Ltac frs_done Hv Hr Hd :=
  split; [reflexivity|];
  split; [constructor; cbn; solve [exact Hv | exact Hr | exact Hd | auto]|];
  split; [repeat split; reflexivity|split; reflexivity].

Lemma find_registry_source_spec w st p sub sid :
  cache_ok w st ->
  let '(st', r) := find_registry_source w st p sub sid in
  r = resolve_registry w p sub sid /\ cache_ok w st' /\ same_queues st st' /\
  dirs st' = dirs st /\ metas st' = metas st.
Proof.
  intros [Hv Hr Hd]. unfold find_registry_source, resolve_registry.
  destruct (assoc str_eqb p (vcache st)) as [infos|] eqn:Ev.
  - (* cached version list *)
    rewrite (Hv _ _ Ev).
    destruct (select_version (map fst infos) (w_allowed w sid)) as [v|]; cbn.
    2:{ frs_done Hv Hr Hd. }
    destruct (assoc pv_eqb (p, v) (resolved st)) as [real|] eqn:Er.
    + pose proof (Hr _ _ Er) as Hs. cbn [fst snd] in Hs. rewrite Hs. cbn. destruct real as [rp rsub].
      destruct (final_source_addr sub rp rsub); cbn; frs_done Hv Hr Hd.
    + cbn. destruct (w_source w p v) as [[rp rsub]|] eqn:Es; cbn.
      * assert (Hr' : forall k s, assoc pv_eqb k (((p, v), (rp, rsub)) :: resolved st) = Some s -> w_source w (fst k) (snd k) = Some s).
        { intros k s. cbn. destruct (pv_eqb k (p, v)) eqn:Ek.
          - apply pv_eqb_eq in Ek. subst k. intros [= <-]. exact Es.
          - apply Hr. }
        destruct (final_source_addr sub rp rsub); cbn; frs_done Hv Hr' Hd.
      * frs_done Hv Hr Hd.
  - (* version list requested *)
    destruct (w_versions w p) as [infos|] eqn:Ew; cbn.
    2:{ frs_done Hv Hr Hd. }
    assert (Hv' : forall q i, assoc str_eqb q ((p, infos) :: vcache st) = Some i -> w_versions w q = Some i).
    { intros q i. cbn. destruct (str_eqb q p) eqn:Eq.
      - apply str_eqb_eq in Eq. subst q. intros [= <-]. exact Ew.
      - apply Hv. }
    destruct (select_version (map fst infos) (w_allowed w sid)) as [v|]; cbn.
    2:{ frs_done Hv' Hr Hd. }
    destruct (assoc pv_eqb (p, v) (resolved st)) as [real|] eqn:Er.
    + pose proof (Hr _ _ Er) as Hs. cbn [fst snd] in Hs. rewrite Hs. cbn. destruct real as [rp rsub].
      destruct (final_source_addr sub rp rsub); cbn; frs_done Hv' Hr Hd.
    + cbn. destruct (w_source w p v) as [[rp rsub]|] eqn:Es; cbn.
      * assert (Hr' : forall k s, assoc pv_eqb k (((p, v), (rp, rsub)) :: resolved st) = Some s -> w_source w (fst k) (snd k) = Some s).
        { intros k s. cbn. destruct (pv_eqb k (p, v)) eqn:Ek.
          - apply pv_eqb_eq in Ek. subst k. intros [= <-]. exact Es.
          - apply Hr. }
        destruct (final_source_addr sub rp rsub); cbn; frs_done Hv' Hr' Hd.
      * frs_done Hv' Hr Hd.
Qed.

Lemma ensure_remote_package_spec w st p :
  cache_ok w st ->
  let '(st', r) := ensure_remote_package w st p in
  r = option_map fst (w_fetch w p) /\ cache_ok w st' /\ same_queues st st' /\
  (forall c, r = Some c -> assoc str_eqb p (dirs st') = Some c) /\
  (forall q c, assoc str_eqb q (dirs st) = Some c -> assoc str_eqb q (dirs st') = Some c) /\
  resolved st' = resolved st /\ vcache st' = vcache st.
Proof.
  intros [Hv Hr Hd]. unfold ensure_remote_package.
  destruct (assoc str_eqb p (dirs st)) as [c|] eqn:Ed.
  - destruct (Hd _ _ Ed) as [m Hm]. rewrite Hm. cbn.
    split; [reflexivity|]. split; [constructor; cbn; auto|].
    split; [repeat split; reflexivity|].
    split; [intros c' [= <-]; exact Ed|]. split; [auto|split; reflexivity].
  - destruct (w_fetch w p) as [[c m]|] eqn:Ef; cbn.
    + split; [reflexivity|]. split.
      { constructor; cbn; auto. intros q c'. destruct (str_eqb q p) eqn:Eq.
        - apply str_eqb_eq in Eq. subst q. intros [= <-]. eauto.
        - apply Hd. }
      split; [repeat split; reflexivity|].
      split; [intros c' [= <-]; now rewrite str_eqb_refl|].
      split; [|split; reflexivity].
      intros q c' Hq. destruct (str_eqb q p) eqn:Eq; [|exact Hq].
      apply str_eqb_eq in Eq. subst q. congruence.
    + split; [reflexivity|]. split; [constructor; cbn; auto|].
      split; [repeat split; reflexivity|].
      split; [discriminate|]. split; [auto|split; reflexivity].
Qed.

(* ====================================================================== *)
(* reachability, soundness and completeness of the work list              *)
(* ====================================================================== *)

Inductive item := IRem (a : rart) | IReg (g : gart).

Definition dep_item (src : rsrc) (d : dep) : option item :=
  match d with
  | DRemote s f => Some (IRem (s, f))
  | DRegistry p sub sid f => Some (IReg (p, sub, sid, f))
  | DLocal rel f => option_map (fun n => IRem ((fst src, n), f)) (join_sub_path (snd src) rel)
  end.

Lemma has_errors_app a b : has_errors (a ++ b) = has_errors a || has_errors b.
Proof. unfold has_errors. apply existsb_app. Qed.

Section World.
Variable w : world.

(* what the dependency finder reports for an artifact, given the world *)
Definition deps_of (a : rart) : list dep :=
  match w_fetch w (fst (fst a)) with
  | Some (c, _) => fst (w_deps w c (snd (fst a)) (snd a))
  | None => []
  end.

Inductive reach (roots : list item) : item -> Prop :=
| r_root i : In i roots -> reach roots i
| r_reg p sub sid f real :
    reach roots (IReg (p, sub, sid, f)) -> resolve_registry w p sub sid = Some real ->
    reach roots (IRem (real, f))
| r_dep a d i :
    reach roots (IRem a) -> In d (deps_of a) -> dep_item (fst a) d = Some i -> reach roots i.

Lemma reach_mono roots roots' i :
  (forall x, In x roots -> In x roots') -> reach roots i -> reach roots' i.
Proof.
  intros Hsub H. induction H.
  - apply r_root. auto.
  - eapply r_reg; eauto.
  - eapply r_dep; eauto.
Qed.

Definition in_remote (st : bstate) (a : rart) : Prop := In a (analyzed st) \/ In a (pend_remote st).

Definition covered (st : bstate) (i : item) : Prop :=
  match i with
  | IRem a => in_remote st a
  | IReg (p, sub, sid, f) =>
      In (p, sub, sid, f) (pend_registry st) \/
      exists real, resolve_registry w p sub sid = Some real /\ in_remote st (real, f)
  end.

(* unconditional part *)
Record sinv (roots : list item) (st : bstate) : Prop := {
  s_cache : cache_ok w st;
  s_an : forall a, In a (analyzed st) -> reach roots (IRem a);
  s_pr : forall a, In a (pend_remote st) -> reach roots (IRem a);
  s_pg : forall g, In g (pend_registry st) -> reach roots (IReg g);
  s_fetched : forall a, In a (analyzed st) -> exists c, assoc str_eqb (fst (fst a)) (dirs st) = Some c }.

(* part that holds as long as no error diagnostic has been produced *)
Record cinv (roots : list item) (st : bstate) : Prop := {
  c_roots : forall i, In i roots -> covered st i;
  c_deps : forall a d, In a (analyzed st) -> In d (deps_of a) ->
             exists i, dep_item (fst a) d = Some i /\ covered st i }.

Definition item_pending (st : bstate) (i : item) : Prop :=
  match i with IRem a => In a (pend_remote st) | IReg g => In g (pend_registry st) end.

(* ---------- the fold that pushes the dependencies of one artifact ---------- *)
Lemma push_deps_spec src deps : forall st ds st' ds',
  fold_left (push_dep src) deps (st, ds) = (st', ds') ->
  analyzed st' = analyzed st /\ dirs st' = dirs st /\ metas st' = metas st /\
  resolved st' = resolved st /\ vcache st' = vcache st /\ deprec st' = deprec st /\
  closed st' = closed st /\ calls st' = calls st /\ trace st' = trace st /\
  (forall a, In a (pend_remote st) -> In a (pend_remote st')) /\
  (forall g, In g (pend_registry st) -> In g (pend_registry st')) /\
  (forall i, item_pending st' i -> item_pending st i \/ exists d, In d deps /\ dep_item src d = Some i) /\
  (exists extra, ds' = ds ++ extra /\
     (has_errors extra = false ->
        forall d, In d deps -> exists i, dep_item src d = Some i /\ item_pending st' i)).
Proof.
  induction deps as [|d deps IH]; intros st ds st' ds' H.
  - cbn in H. injection H as <- <-. repeat split; auto.
    exists []. split; [now rewrite app_nil_r|]. intros _ d [].
  - cbn [fold_left] in H.
    destruct (push_dep src (st, ds) d) as [st1 ds1] eqn:E1.
    specialize (IH _ _ _ _ H).
    destruct IH as (Ha & Hd & Hm & Hr & Hv & Hdp & Hc & Hcl & Htr & Hpr & Hpg & Hnew & extra & Hds & Hok).
    assert (Hstep :
      analyzed st1 = analyzed st /\ dirs st1 = dirs st /\ metas st1 = metas st /\
      resolved st1 = resolved st /\ vcache st1 = vcache st /\ deprec st1 = deprec st /\
      closed st1 = closed st /\ calls st1 = calls st /\ trace st1 = trace st /\
      (forall a, In a (pend_remote st) -> In a (pend_remote st1)) /\
      (forall g, In g (pend_registry st) -> In g (pend_registry st1)) /\
      (forall i, item_pending st1 i -> item_pending st i \/ dep_item src d = Some i) /\
      exists e1, ds1 = ds ++ e1 /\
        (has_errors e1 = false -> exists i, dep_item src d = Some i /\ item_pending st1 i)).
    { unfold push_dep in E1. destruct d as [s f|p sub sid f|rel f].
      - injection E1 as <- <-. cbn. repeat split; auto.
        + intros [a|g]; cbn; [intros [<-|Hi]; auto|auto].
        + exists []. split; [now rewrite app_nil_r|]. intros _. eexists; split; [reflexivity|]. cbn. now left.
      - injection E1 as <- <-. cbn. repeat split; auto.
        + intros [a|g]; cbn; [auto|intros [<-|Hi]; auto].
        + exists []. split; [now rewrite app_nil_r|]. intros _. eexists; split; [reflexivity|]. cbn. now left.
      - cbn [dep_item]. destruct (join_sub_path (snd src) rel) as [n|] eqn:Ej.
        + injection E1 as <- <-. cbn. repeat split; auto.
          * intros [a|g]; cbn; [intros [<-|Hi]; auto|auto].
          * exists []. split; [now rewrite app_nil_r|]. intros _. eexists; split; [reflexivity|]. cbn. now left.
        + injection E1 as <- <-. repeat split; auto.
          exists [err_relative]. split; [reflexivity|]. cbn. discriminate. }
    destruct Hstep as (Ha1 & Hd1 & Hm1 & Hr1 & Hv1 & Hdp1 & Hc1 & Hcl1 & Htr1 & Hpr1 & Hpg1 & Hnew1 & e1 & Hds1 & Hok1).
    repeat split; try congruence; auto.
    + intros i Hi. destruct (Hnew i Hi) as [Hi1|(d' & Hd' & Hdi)].
      * destruct (Hnew1 i Hi1) as [Hi0|Hdi]; [now left|]. right. exists d. split; [now left|exact Hdi].
      * right. exists d'. split; [now right|exact Hdi].
    + exists (e1 ++ extra). split; [subst; now rewrite app_assoc|].
      rewrite has_errors_app. intros He. apply orb_false_iff in He as [He1 He2].
      intros d' [<-|Hd'].
      * destruct (Hok1 He1) as (i & Hi & Hp). exists i. split; [exact Hi|].
        destruct i as [a|g]; cbn in *; auto.
      * now apply Hok.
Qed.

(* ---------- one step ---------- *)
Lemma in_remote_mono st st' a :
  (forall x, In x (analyzed st) -> In x (analyzed st')) ->
  (forall x, In x (pend_remote st) -> In x (pend_remote st') \/ In x (analyzed st')) ->
  in_remote st a -> in_remote st' a.
Proof. intros Ha Hp [H|H]; [left; auto|destruct (Hp _ H); [now right|now left]]. Qed.

Lemma covered_mono st st' i :
  (forall a, in_remote st a -> in_remote st' a) ->
  (forall g, In g (pend_registry st) -> covered st' (IReg g)) ->
  covered st i -> covered st' i.
Proof.
  intros Hr Hg. destruct i as [a|[[[p sub] sid] f]]; cbn; [apply Hr|].
  intros [H|(real & Hres & Hin)].
  - apply (Hg _ H).
  - right. exists real. split; [exact Hres|now apply Hr].
Qed.

Lemma step_sinv roots phase st ds ph st' ds' :
  sinv roots st -> step w phase st ds = Next ph st' ds' -> sinv roots st'.
Proof.
  intros [Hc Han Hpr Hpg Hf] Hstep. unfold step in Hstep. destruct phase.
  - destruct (pend_registry st) as [|[[[p sub] sid] f] remain] eqn:Eg.
    + injection Hstep as <- <- <-. constructor; rewrite ?Eg; auto.
    + set (st0 := set_pend_registry st remain) in *.
      assert (Hc0 : cache_ok w st0) by (destruct Hc; constructor; auto).
      pose proof (find_registry_source_spec w st0 p sub sid Hc0) as Hs.
      destruct (find_registry_source w st0 p sub sid) as [st1 r].
      destruct Hs as (Hr & Hc1 & (Q1 & Q2 & Q3 & Q4) & Hd1 & Hm1).
      assert (Hg0 : reach roots (IReg (p, sub, sid, f))) by (apply Hpg; now left).
      destruct r as [real|]; injection Hstep as <- <- <-.
      * constructor; cbn.
        -- destruct Hc1; constructor; auto.
        -- rewrite <- Q3. exact Han.
        -- rewrite <- Q1. intros a [<-|Ha]; [eapply r_reg; eauto|now apply Hpr].
        -- rewrite <- Q2. cbn. intros g Hg. apply Hpg. now right.
        -- rewrite <- Q3. intros a Ha. cbn in Hd1. rewrite Hd1. now apply Hf.
      * constructor; cbn; auto.
        -- rewrite <- Q3. exact Han.
        -- rewrite <- Q1. exact Hpr.
        -- rewrite <- Q2. cbn. intros g Hg. apply Hpg. now right.
        -- rewrite <- Q3. intros a Ha. cbn in Hd1. rewrite Hd1. now apply Hf.
  - destruct (pend_remote st) as [|[src f] remain] eqn:Er.
    + destruct (pend_registry st) eqn:Eg; [discriminate|]. injection Hstep as <- <- <-. constructor; rewrite ?Eg, ?Er; auto.
    + set (st0 := set_pend_remote st remain) in *.
      assert (Hc0 : cache_ok w st0) by (destruct Hc; constructor; auto).
      pose proof (ensure_remote_package_spec w st0 (fst src) Hc0) as Hs.
      destruct (ensure_remote_package w st0 (fst src)) as [st1 r].
      destruct Hs as (Hr & Hc1 & (Q1 & Q2 & Q3 & Q4) & Hnewdir & Hkeep & Hres & Hvc).
      assert (Ha0 : reach roots (IRem (src, f))) by (apply Hpr; now left).
      assert (Hbase : sinv roots st1).
      { constructor; auto.
        - rewrite <- Q3. exact Han.
        - rewrite <- Q1. cbn. intros a Ha. apply Hpr. now right.
        - rewrite <- Q2. exact Hpg.
        - rewrite <- Q3. intros a Ha. destruct (Hf a Ha) as [c Hc']. exists c. now apply Hkeep. }
      destruct r as [c|]; [|injection Hstep as <- <- <-; exact Hbase].
      destruct (mem rart_eqb (src, f) (analyzed st1)) eqn:Em; [injection Hstep as <- <- <-; exact Hbase|].
      destruct (w_deps w c (snd src) f) as [deps more] eqn:Ed.
      destruct (fold_left (push_dep src) deps (st1, ds)) as [st2 ds2] eqn:Efold.
      injection Hstep as <- <- <-.
      pose proof (push_deps_spec src deps _ _ _ _ Efold) as
        (Ha2 & Hd2 & Hm2 & Hr2 & Hv2 & Hdp2 & Hcl2 & Hca2 & Htr2 & Hpr2 & Hpg2 & Hnew & _).
      destruct Hbase as [Bc Ban Bpr Bpg Bf].
      assert (Hfetch : exists m, w_fetch w (fst src) = Some (c, m)).
      { destruct (w_fetch w (fst src)) as [[c' m]|]; cbn in Hr; [|discriminate].
        injection Hr as ->. eauto. }
      destruct Hfetch as [m Hm].
      assert (Hdeps : deps_of (src, f) = deps).
      { unfold deps_of. cbn. rewrite Hm, Ed. reflexivity. }
      assert (Hsinv2 : sinv roots (add_analyzed st2 (src, f))).
      { constructor; cbn.
        - destruct Bc as [X1 X2 X3]. constructor; cbn; [rewrite Hv2|rewrite Hr2|rewrite Hd2]; auto.
        - rewrite Ha2. intros a [<-|Ha]; [exact Ha0|now apply Ban].
        - intros a Ha. destruct (Hnew (IRem a) Ha) as [Hp|(d & Hdin & Hdi)]; [now apply Bpr|].
          eapply r_dep; [exact Ha0| |exact Hdi]. now rewrite Hdeps.
        - intros g Hg. destruct (Hnew (IReg g) Hg) as [Hp|(d & Hdin & Hdi)]; [now apply Bpg|].
          eapply r_dep; [exact Ha0| |exact Hdi]. now rewrite Hdeps.
        - rewrite Ha2, Hd2. intros a [<-|Ha]; [exists c; now apply Hnewdir|now apply Bf]. }
      destruct more; [exact Hsinv2|].
      destruct Hsinv2 as [[Y1 Y2 Y3] X2 X3 X4 X5]. constructor; auto. constructor; auto.
Qed.

Lemma item_pending_covered st i : item_pending st i -> covered st i.
Proof.
  destruct i as [a|[[[p sub] sid] f]]; cbn; intros H; [now right|now left].
Qed.

Lemma has_errors_snoc_err ds e : d_sev e = SevError -> has_errors (ds ++ [e]) = true.
Proof. intros H. rewrite has_errors_app. cbn. rewrite H. apply orb_true_r. Qed.

Lemma step_cinv roots phase st ds ph st' ds' :
  sinv roots st -> cinv roots st ->
  step w phase st ds = Next ph st' ds' -> has_errors ds' = false -> cinv roots st'.
Proof.
  intros [Hc Han Hpr Hpg Hf] [Croots Cdeps] Hstep Hne. unfold step in Hstep. destruct phase.
  - destruct (pend_registry st) as [|[[[p sub] sid] f] remain] eqn:Eg.
    + injection Hstep as <- <- <-. constructor; auto.
    + set (st0 := set_pend_registry st remain) in *.
      assert (Hc0 : cache_ok w st0) by (destruct Hc; constructor; auto).
      pose proof (find_registry_source_spec w st0 p sub sid Hc0) as Hs.
      destruct (find_registry_source w st0 p sub sid) as [st1 r].
      destruct Hs as (Hr & Hc1 & (Q1 & Q2 & Q3 & Q4) & Hd1 & Hm1).
      destruct r as [real|]; injection Hstep as <- <- <-.
      2:{ rewrite has_errors_snoc_err in Hne by reflexivity. discriminate. }
      set (st2 := set_pend_remote st1 ((real, f) :: pend_remote st1)).
      assert (Hrem : forall a, in_remote st a -> in_remote st2 a).
      { intros a [H|H]; [left|right]; cbn.
        - now rewrite <- Q3.
        - right. now rewrite <- Q1. }
      assert (Hcov : forall i, covered st i -> covered st2 i).
      { intros i0; apply covered_mono; [exact Hrem|].
        intros g Hg. rewrite Eg in Hg. destruct Hg as [<-|Hg].
        - cbn. right. exists real. split; [now symmetry|]. right. cbn. now left.
        - destruct g as [[[p' sub'] sid'] f']. cbn. left. rewrite <- Q2. exact Hg. }
      constructor.
      * intros i Hi. apply Hcov, Croots, Hi.
      * intros a d Ha Hd. cbn in Ha. rewrite <- Q3 in Ha.
        destruct (Cdeps a d Ha Hd) as (i & Hi & Hci). exists i. split; [exact Hi|now apply Hcov].
  - destruct (pend_remote st) as [|[src f] remain] eqn:Er.
    + destruct (pend_registry st) eqn:Eg; [discriminate|]. injection Hstep as <- <- <-. constructor; auto.
    + set (st0 := set_pend_remote st remain) in *.
      assert (Hc0 : cache_ok w st0) by (destruct Hc; constructor; auto).
      pose proof (ensure_remote_package_spec w st0 (fst src) Hc0) as Hs.
      destruct (ensure_remote_package w st0 (fst src)) as [st1 r].
      destruct Hs as (Hr & Hc1 & (Q1 & Q2 & Q3 & Q4) & Hnewdir & Hkeep & Hres & Hvc).
      destruct r as [c|].
      2:{ injection Hstep as <- <- <-. rewrite has_errors_snoc_err in Hne by reflexivity. discriminate. }
      destruct (mem rart_eqb (src, f) (analyzed st1)) eqn:Em.
      * (* already analysed *)
        injection Hstep as <- <- <-.
        apply (mem_In rart_eqb rart_eqb_eq) in Em.
        assert (Hrem : forall a, in_remote st a -> in_remote st1 a).
        { intros a [H|H]; [left; now rewrite <- Q3|].
          rewrite Er in H. destruct H as [<-|H]; [left; exact Em|right; now rewrite <- Q1]. }
        assert (Hcov : forall i, covered st i -> covered st1 i).
        { intros i0; apply covered_mono; [exact Hrem|].
          intros [[[p' sub'] sid'] f'] Hg. cbn. left. now rewrite <- Q2. }
        constructor.
        -- intros i Hi. apply Hcov, Croots, Hi.
        -- intros a d Ha Hd. rewrite <- Q3 in Ha.
           destruct (Cdeps a d Ha Hd) as (i & Hi & Hci). exists i. split; [exact Hi|now apply Hcov].
      * (* analysis *)
        destruct (w_deps w c (snd src) f) as [deps more] eqn:Ed.
        destruct (fold_left (push_dep src) deps (st1, ds)) as [st2 ds2] eqn:Efold.
        pose proof (push_deps_spec src deps _ _ _ _ Efold) as
          (Ha2 & Hd2 & Hm2 & Hr2 & Hv2 & Hdp2 & Hcl2 & Hca2 & Htr2 & Hpr2 & Hpg2 & Hnew & extra & Hds & Hok).
        assert (Hfinal : st' = match more with [] => add_analyzed st2 (src, f)
                                | _ => log_ev (add_analyzed st2 (src, f)) (EDiagnostics (length more)) end
                         /\ ds' = ds2 ++ map (in_remote_source_package (fst src)) more).
        { destruct more; injection Hstep as <- <- <-; auto. }
        destruct Hfinal as [-> ->].
        rewrite Hds, !has_errors_app in Hne.
        apply orb_false_iff in Hne as [Hne _]. apply orb_false_iff in Hne as [_ Hextra].
        specialize (Hok Hextra).
        set (st3 := add_analyzed st2 (src, f)).
        assert (Hfetch : exists m, w_fetch w (fst src) = Some (c, m)).
        { destruct (w_fetch w (fst src)) as [[c' m]|]; cbn in Hr; [|discriminate].
          injection Hr as ->. eauto. }
        destruct Hfetch as [m Hm].
        assert (Hdeps : deps_of (src, f) = deps).
        { unfold deps_of. cbn. rewrite Hm, Ed. reflexivity. }
        assert (Hrem : forall a, in_remote st a -> in_remote st3 a).
        { intros a [H|H].
          - left. cbn. right. rewrite Ha2, <- Q3. exact H.
          - rewrite Er in H. destruct H as [<-|H]; [left; cbn; now left|].
            right. cbn. apply Hpr2. rewrite <- Q1. exact H. }
        assert (Hcov : forall i, covered st i -> covered st3 i).
        { intros i0; apply covered_mono; [exact Hrem|].
          intros [[[p' sub'] sid'] f'] Hg. cbn. left. apply Hpg2. now rewrite <- Q2. }
        assert (Hc3 : cinv roots st3).
        { constructor.
          - intros i Hi. apply Hcov, Croots, Hi.
          - intros a d Ha Hd. cbn in Ha. destruct Ha as [<-|Ha].
            + rewrite Hdeps in Hd. destruct (Hok d Hd) as (i & Hi & Hp). exists i. split; [exact Hi|].
              apply item_pending_covered. destruct i; exact Hp.
            + rewrite Ha2, <- Q3 in Ha.
              destruct (Cdeps a d Ha Hd) as (i & Hi & Hci). exists i. split; [exact Hi|now apply Hcov]. }
        destruct more; [exact Hc3|]. destruct Hc3 as [X1 X2]. constructor; auto.
Qed.

(* ---------- draining ---------- *)
Lemma step_errors_mono phase st ds ph st' ds' :
  step w phase st ds = Next ph st' ds' -> exists extra, ds' = ds ++ extra.
Proof.
  unfold step. destruct phase.
  - destruct (pend_registry st) as [|[[[p sub] sid] f] remain].
    + intros [= <- <- <-]. exists []. now rewrite app_nil_r.
    + destruct (find_registry_source _ _ _ _ _) as [st1 [real|]]; intros [= <- <- <-]; eauto.
      exists []. now rewrite app_nil_r.
  - destruct (pend_remote st) as [|[src f] remain].
    + destruct (pend_registry st); [discriminate|]. intros [= <- <- <-]. exists []. now rewrite app_nil_r.
    + destruct (ensure_remote_package _ _ _) as [st1 [c|]]; [|intros [= <- <- <-]; eauto].
      destruct (mem _ _ _); [intros [= <- <- <-]; exists []; now rewrite app_nil_r|].
      destruct (w_deps w c (snd src) f) as [deps more].
      destruct (fold_left _ _ _) as [st2 ds2] eqn:Efold.
      pose proof (push_deps_spec src deps _ _ _ _ Efold) as (_ & _ & _ & _ & _ & _ & _ & _ & _ & _ & _ & _ & extra & Hds & _).
      intros H. exists (extra ++ map (in_remote_source_package (fst src)) more).
      destruct more; injection H as <- <- <-; subst ds2; now rewrite app_assoc.
Qed.

Lemma step_done phase st ds st' ds' :
  step w phase st ds = Done st' ds' ->
  st' = st /\ ds' = ds /\ pend_remote st = [] /\ pend_registry st = [].
Proof.
  unfold step. destruct phase.
  - destruct (pend_registry st) as [|[[[p sub] sid] f] remain]; [discriminate|].
    destruct (find_registry_source _ _ _ _ _) as [st1 [real|]]; discriminate.
  - destruct (pend_remote st) as [|[src f] remain].
    + destruct (pend_registry st); [|discriminate]. intros [= <- <-]. auto.
    + destruct (ensure_remote_package _ _ _) as [st1 [c|]]; [|discriminate].
      destruct (mem _ _ _); [discriminate|].
      destruct (w_deps w c (snd src) f) as [deps more].
      destruct (fold_left _ _ _) as [st2 ds2]. destruct more; discriminate.
Qed.

Lemma drain_inv roots fuel : forall phase st ds st' ds',
  sinv roots st -> (has_errors ds = false -> cinv roots st) ->
  drain fuel w phase st ds = Some (st', ds') ->
  sinv roots st' /\ (has_errors ds' = false -> cinv roots st') /\
  pend_remote st' = [] /\ pend_registry st' = [] /\ exists extra, ds' = ds ++ extra.
Proof.
  induction fuel as [|fuel IH]; intros phase st ds st' ds' Hs Hcv Hd; [discriminate|].
  cbn in Hd. destruct (step w phase st ds) as [st1 ds1|ph st1 ds1] eqn:Es.
  - injection Hd as <- <-. destruct (step_done _ _ _ _ _ Es) as (Ea & Eb & E1 & E2). subst st1 ds1.
    split; [exact Hs|]. split; [exact Hcv|]. split; [exact E1|]. split; [exact E2|].
    exists []. now rewrite app_nil_r.
  - destruct (step_errors_mono _ _ _ _ _ _ Es) as [e1 He1].
    assert (Hs1 : sinv roots st1) by (eapply step_sinv; eauto).
    assert (Hc1 : has_errors ds1 = false -> cinv roots st1).
    { intros Hne.
      assert (Hds0 : has_errors ds = false).
      { rewrite He1, has_errors_app in Hne. now apply orb_false_iff in Hne as [-> _]. }
      exact (step_cinv roots phase st ds ph st1 ds1 Hs (Hcv Hds0) Es Hne). }
    destruct (IH _ _ _ _ _ Hs1 Hc1 Hd) as (A & B & C & D & extra & E).
    split; [exact A|]. split; [exact B|]. split; [exact C|]. split; [exact D|].
    exists (e1 ++ extra). subst. now rewrite app_assoc.
Qed.

(* At the end of an error-free drain every reachable item has been dealt with:
   reachable artifacts are analysed, reachable registry requests are resolved
   and their artifact analysed. *)
Definition done (st : bstate) (i : item) : Prop :=
  match i with
  | IRem a => In a (analyzed st)
  | IReg (p, sub, sid, f) =>
      exists real, resolve_registry w p sub sid = Some real /\ In (real, f) (analyzed st)
  end.

Lemma closure_complete roots st :
  cinv roots st -> pend_remote st = [] -> pend_registry st = [] ->
  forall i, reach roots i -> done st i.
Proof.
  intros [Croots Cdeps] E1 E2.
  assert (Hcd : forall i, covered st i -> done st i).
  { intros [a|[[[p sub] sid] f]]; cbn; unfold in_remote; rewrite ?E1, ?E2.
    - intros [H|[]]. exact H.
    - intros [[]|(real & Hr & [H|[]])]. eauto. }
  intros i Hreach. induction Hreach as [i Hi|p sub sid f real Hr IH Hres|a d i Hr IH Hd Hdi].
  - apply Hcd, Croots, Hi.
  - cbn in IH. destruct IH as (real' & Hres' & Hin). cbn.
    assert (real = real') by congruence. now subst.
  - cbn in IH. destruct (Cdeps a d IH Hd) as (i' & Hi' & Hc). apply Hcd.
    assert (i = i') by congruence. now subst.
Qed.

End World.

(* ====================================================================== *)
(* whole runs: sequences of Add calls followed by Close                   *)
(* ====================================================================== *)

Definition op_item (o : op) : list item :=
  match o with
  | AddRemote s f => [IRem (s, f)]
  | AddRegistry p sub sid f => [IReg (p, sub, sid, f)]
  | Close => []
  end.
Definition roots_of (ops : list op) : list item := flat_map op_item ops.

Definition ok_outcome (o : outcome) : bool :=
  match o with ODiags ds => negb (has_errors ds) | OClosed => true | _ => false end.

Record good (w : world) (roots : list item) (st : bstate) : Prop := {
  g_s : sinv w roots st;
  g_c : cinv w roots st;
  g_r : pend_remote st = [];
  g_g : pend_registry st = [] }.

Lemma sinv_roots_mono w roots roots' st :
  (forall x, In x roots -> In x roots') -> sinv w roots st -> sinv w roots' st.
Proof.
  intros Hsub [A B C D E]. constructor; auto; intros; eapply reach_mono; eauto.
Qed.

Lemma good_init w : good w [] init_state.
Proof.
  constructor; [constructor; cbn; try tauto; apply cache_ok_init|constructor; cbn; tauto|reflexivity|reflexivity].
Qed.

Lemma sinv_set_closed w roots st : sinv w roots st -> sinv w roots (set_closed st).
Proof. intros [[X1 X2 X3] B C D E]. constructor; auto. constructor; auto. Qed.
Lemma cinv_set_closed w roots st : cinv w roots st -> cinv w roots (set_closed st).
Proof. intros [A B]. constructor; auto. Qed.

Lemma apply_op_good fuel w roots st o st' out :
  good w roots st -> apply_op fuel w st o = (st', out) -> ok_outcome out = true ->
  good w (roots ++ op_item o) st'.
Proof.
  intros [Gs Gc Gr Gg] Ha Hok. unfold apply_op in Ha.
  destruct (closed st); [injection Ha as <- <-; discriminate|].
  assert (Hsub : forall x, In x roots -> In x (roots ++ op_item o)) by (intros; apply in_or_app; now left).
  destruct o as [s f|p sub sid f|].
  - (* AddRemoteSource *)
    destruct (mem rart_eqb (s, f) (analyzed st)) eqn:Em.
    + injection Ha as <- <-. apply (mem_In rart_eqb rart_eqb_eq) in Em.
      constructor; auto; [eapply sinv_roots_mono; eauto|].
      destruct Gc as [C1 C2]. constructor; auto.
      intros i Hi. apply in_app_or in Hi as [Hi|[<-|[]]]; [now apply C1|]. cbn. now left.
    + set (st0 := set_pend_remote st ((s, f) :: pend_remote st)) in *.
      destruct (resolve_pending fuel w st0) as [[st1 ds]|] eqn:Erp; injection Ha as <- <-; [|discriminate].
      cbn in Hok. apply negb_true_iff in Hok.
      unfold resolve_pending in Erp.
      destruct (drain fuel w true st0 []) as [[st2 ds2]|] eqn:Ed; [|discriminate].
      injection Erp as <- <-. rewrite Hok.
      assert (S0 : sinv w (roots ++ [IRem (s, f)]) st0).
      { destruct Gs as [[X1 X2 X3] B C D E]. constructor; cbn; auto.
        - constructor; auto.
        - intros a Ha. eapply reach_mono; [exact Hsub|auto].
        - rewrite Gr. intros a [<-|[]]. apply r_root, in_or_app. right. now left.
        - intros g Hg. eapply reach_mono; [exact Hsub|auto]. }
      assert (C0 : cinv w (roots ++ [IRem (s, f)]) st0).
      { destruct Gc as [C1 C2].
        assert (Hcov : forall i, covered w st i -> covered w st0 i).
        { intros i. apply covered_mono.
          - intros a [H|H]; [now left|right; cbn; now right].
          - intros [[[p' sub'] sid'] f'] Hg. cbn. now left. }
        constructor.
        - intros i Hi. apply in_app_or in Hi as [Hi|[<-|[]]]; [apply Hcov, C1, Hi|].
          cbn. right. cbn. now left.
        - intros a d Ha Hd. destruct (C2 a d Ha Hd) as (i & Hi & Hc). eauto. }
      destruct (drain_inv w _ fuel true st0 [] st2 ds2 S0 (fun _ => C0) Ed) as (A & B & C & D & _).
      constructor; auto.
  - (* AddRegistrySource *)
    set (st0 := set_pend_registry st ((p, sub, sid, f) :: pend_registry st)) in *.
    destruct (resolve_pending fuel w st0) as [[st1 ds]|] eqn:Erp; injection Ha as <- <-; [|discriminate].
    cbn in Hok. apply negb_true_iff in Hok.
    unfold resolve_pending in Erp.
    destruct (drain fuel w true st0 []) as [[st2 ds2]|] eqn:Ed; [|discriminate].
    injection Erp as <- <-. rewrite Hok.
    assert (S0 : sinv w (roots ++ [IReg (p, sub, sid, f)]) st0).
    { destruct Gs as [[X1 X2 X3] B C D E]. constructor; cbn; auto.
      - constructor; auto.
      - intros a Ha. eapply reach_mono; [exact Hsub|auto].
      - intros a Ha. eapply reach_mono; [exact Hsub|auto].
      - rewrite Gg. intros g [<-|[]]. apply r_root, in_or_app. right. now left. }
    assert (C0 : cinv w (roots ++ [IReg (p, sub, sid, f)]) st0).
    { destruct Gc as [C1 C2].
      assert (Hcov : forall i, covered w st i -> covered w st0 i).
      { intros i. apply covered_mono.
        - intros a [H|H]; [now left|now right].
        - intros [[[p' sub'] sid'] f'] Hg. cbn. left. now right. }
      constructor.
      - intros i Hi. apply in_app_or in Hi as [Hi|[<-|[]]]; [apply Hcov, C1, Hi|].
        cbn. left. now left.
      - intros a d Ha Hd. destruct (C2 a d Ha Hd) as (i & Hi & Hc). eauto. }
    destruct (drain_inv w _ fuel true st0 [] st2 ds2 S0 (fun _ => C0) Ed) as (A & B & C & D & _).
    constructor; auto.
  - (* Close *)
    injection Ha as <- <-. cbn [op_item]. rewrite app_nil_r.
    constructor; auto using sinv_set_closed, cinv_set_closed.
Qed.

Lemma run_ops_good fuel w : forall ops roots st st' outs,
  good w roots st -> run_ops fuel w st ops = (st', outs) -> forallb ok_outcome outs = true ->
  good w (roots ++ roots_of ops) st'.
Proof.
  induction ops as [|o ops IH]; intros roots st st' outs G Hr Hok.
  - cbn in Hr. injection Hr as <- <-. cbn. now rewrite app_nil_r.
  - cbn in Hr. destruct (apply_op fuel w st o) as [st1 out] eqn:Ea.
    destruct (run_ops fuel w st1 ops) as [st2 outs2] eqn:Er. injection Hr as <- <-.
    cbn in Hok. apply andb_true_iff in Hok as [Ho Hos].
    pose proof (apply_op_good _ _ _ _ _ _ _ G Ea Ho) as G1.
    specialize (IH _ _ _ _ G1 Er Hos). cbn [roots_of flat_map].
    change (flat_map op_item ops) with (roots_of ops). now rewrite app_assoc.
Qed.

(* The set analysed by an error-free build is exactly what is reachable from
   the Add calls: everything reachable is analysed / resolved (completeness),
   nothing else is (soundness), every analysed package was fetched, and all
   memo tables agree with what the world's functions return. *)
Theorem build_is_closure fuel w ops st outs :
  run_ops fuel w init_state ops = (st, outs) ->
  forallb ok_outcome outs = true ->
  (forall i, reach w (roots_of ops) i -> done w st i) /\
  (forall a, In a (analyzed st) -> reach w (roots_of ops) (IRem a)) /\
  (forall a, In a (analyzed st) ->
     exists c m, assoc str_eqb (fst (fst a)) (dirs st) = Some c /\ w_fetch w (fst (fst a)) = Some (c, m)) /\
  cache_ok w st.
Proof.
  intros Hr Hok.
  pose proof (run_ops_good fuel w ops [] init_state st outs (good_init w) Hr Hok) as [Gs Gc Gr Gg].
  cbn [app] in *. split; [|split; [|split]].
  - intros i Hi. eapply closure_complete; eauto.
  - apply Gs.
  - intros a Ha. destruct (s_fetched _ _ _ Gs a Ha) as [c Hc].
    destruct (co_d _ _ (s_cache _ _ _ Gs) _ _ Hc) as [m Hm]. eauto.
  - apply Gs.
Qed.

(* Order independence: two error-free builds whose Add calls mention the same
   items (in any order, with any repetitions) analyse the same set of
   artifacts, and agree on the directory content of every package. *)
Theorem order_independent fuel w ops ops' st outs st' outs' :
  run_ops fuel w init_state ops = (st, outs) -> forallb ok_outcome outs = true ->
  run_ops fuel w init_state ops' = (st', outs') -> forallb ok_outcome outs' = true ->
  (forall i, In i (roots_of ops) <-> In i (roots_of ops')) ->
  (forall a, In a (analyzed st) <-> In a (analyzed st')) /\
  (forall a c c', In a (analyzed st) ->
     assoc str_eqb (fst (fst a)) (dirs st) = Some c ->
     assoc str_eqb (fst (fst a)) (dirs st') = Some c' -> c = c').
Proof.
  intros H1 O1 H2 O2 Hroots.
  destruct (build_is_closure _ _ _ _ _ H1 O1) as (C1 & S1 & F1 & K1).
  destruct (build_is_closure _ _ _ _ _ H2 O2) as (C2 & S2 & F2 & K2).
  split.
  - intros a; split; intros Ha.
    + apply (C2 (IRem a)). eapply reach_mono; [|apply S1, Ha]. intros x; apply Hroots.
    + apply (C1 (IRem a)). eapply reach_mono; [|apply S2, Ha]. intros x; apply Hroots.
  - intros a c c' Ha Hc Hc'.
    destruct (co_d _ _ K1 _ _ Hc) as [m Hm]. destruct (co_d _ _ K2 _ _ Hc') as [m' Hm']. congruence.
Qed.

(* ====================================================================== *)
(* C14: every (source, finder) pair is analysed at most once               *)
(* ====================================================================== *)

Definition is_analyze (c : call) : bool := match c with CAnalyze _ => true | _ => false end.
Definition analyze_log (st : bstate) : list call := filter is_analyze (calls st).

Lemma find_registry_source_analyze w st p sub sid :
  analyze_log (fst (find_registry_source w st p sub sid)) = analyze_log st /\
  analyzed (fst (find_registry_source w st p sub sid)) = analyzed st.
Proof.
  unfold find_registry_source, analyze_log.
  destruct (assoc str_eqb p (vcache st)) as [infos|].
  - destruct (select_version _ _) as [v|]; cbn; [|auto].
    destruct (assoc pv_eqb (p, v) (resolved st)) as [[rp rsub]|]; cbn.
    + destruct (final_source_addr sub rp rsub); cbn; auto.
    + destruct (w_source w p v) as [[rp rsub]|]; cbn; [|auto].
      destruct (final_source_addr sub rp rsub); cbn; auto.
  - destruct (w_versions w p) as [infos|]; cbn; [|auto].
    destruct (select_version _ _) as [v|]; cbn; [|auto].
    destruct (assoc pv_eqb (p, v) (resolved st)) as [[rp rsub]|]; cbn.
    + destruct (final_source_addr sub rp rsub); cbn; auto.
    + destruct (w_source w p v) as [[rp rsub]|]; cbn; [|auto].
      destruct (final_source_addr sub rp rsub); cbn; auto.
Qed.

Lemma ensure_remote_package_analyze w st p :
  analyze_log (fst (ensure_remote_package w st p)) = analyze_log st /\
  analyzed (fst (ensure_remote_package w st p)) = analyzed st.
Proof.
  unfold ensure_remote_package, analyze_log.
  destruct (assoc str_eqb p (dirs st)); cbn; [auto|].
  destruct (w_fetch w p) as [[c m]|]; cbn; auto.
Qed.

Definition once_inv (st : bstate) : Prop :=
  NoDup (analyzed st) /\ analyze_log st = map CAnalyze (analyzed st).

Lemma step_once w phase st ds ph st' ds' :
  once_inv st -> step w phase st ds = Next ph st' ds' -> once_inv st'.
Proof.
  intros [Hnd Hlog] Hstep. unfold step in Hstep. destruct phase.
  - destruct (pend_registry st) as [|[[[p sub] sid] f] remain].
    + injection Hstep as <- <- <-. split; auto.
    + pose proof (find_registry_source_analyze w (set_pend_registry st remain) p sub sid) as [A B].
      destruct (find_registry_source w (set_pend_registry st remain) p sub sid) as [st1 r].
      cbn [fst] in A, B. unfold analyze_log in *. cbn in A, B.
      destruct r; injection Hstep as <- <- <-; unfold once_inv, analyze_log; cbn; rewrite A, B; auto.
  - destruct (pend_remote st) as [|[src f] remain].
    + destruct (pend_registry st); [discriminate|]. injection Hstep as <- <- <-. split; auto.
    + pose proof (ensure_remote_package_analyze w (set_pend_remote st remain) (fst src)) as [A B].
      destruct (ensure_remote_package w (set_pend_remote st remain) (fst src)) as [st1 r].
      cbn [fst] in A, B. unfold analyze_log in *. cbn in A, B.
      destruct r as [c|]; [|injection Hstep as <- <- <-; unfold once_inv, analyze_log; rewrite A, B; auto].
      destruct (mem rart_eqb (src, f) (analyzed st1)) eqn:Em;
        [injection Hstep as <- <- <-; unfold once_inv, analyze_log; rewrite A, B; auto|].
      destruct (w_deps w c (snd src) f) as [deps more].
      destruct (fold_left (push_dep src) deps (st1, ds)) as [st2 ds2] eqn:Efold.
      pose proof (push_deps_spec src deps _ _ _ _ Efold) as
        (Ha2 & _ & _ & _ & _ & _ & _ & Hca2 & _).
      assert (Hnot : ~ In (src, f) (analyzed st1)).
      { intros Hin. apply (mem_In rart_eqb rart_eqb_eq) in Hin. congruence. }
      assert (Hgoal : once_inv (add_analyzed st2 (src, f))).
      { unfold once_inv, analyze_log. cbn. rewrite Ha2, Hca2, A, B. split.
        - constructor; [now rewrite <- B|exact Hnd].
        - now rewrite Hlog. }
      destruct more; injection Hstep as <- <- <-; exact Hgoal.
Qed.

Lemma drain_once w fuel : forall phase st ds st' ds',
  once_inv st -> drain fuel w phase st ds = Some (st', ds') -> once_inv st'.
Proof.
  induction fuel as [|fuel IH]; intros phase st ds st' ds' H Hd; [discriminate|].
  cbn in Hd. destruct (step w phase st ds) as [st1 ds1|ph st1 ds1] eqn:Es.
  - injection Hd as <- <-. destruct (step_done _ _ _ _ _ _ Es) as (-> & _). exact H.
  - eapply IH; [eapply step_once; eauto|exact Hd].
Qed.

Lemma apply_op_once fuel w st o st' out :
  once_inv st -> apply_op fuel w st o = (st', out) -> once_inv st'.
Proof.
  intros H Ha. unfold apply_op in Ha. destruct (closed st); [injection Ha as <- <-; exact H|].
  destruct o as [s f|p sub sid f|].
  - destruct (mem _ _ _); [injection Ha as <- <-; exact H|].
    unfold resolve_pending in Ha.
    destruct (drain _ _ _ _ _) as [[st2 ds2]|] eqn:Ed; injection Ha as <- <-; [|exact H].
    assert (once_inv st2) by (eapply drain_once; [|exact Ed]; exact H).
    destruct (has_errors ds2); exact H0.
  - unfold resolve_pending in Ha.
    destruct (drain _ _ _ _ _) as [[st2 ds2]|] eqn:Ed; injection Ha as <- <-; [|exact H].
    assert (once_inv st2) by (eapply drain_once; [|exact Ed]; exact H).
    destruct (has_errors ds2); exact H0.
  - injection Ha as <- <-. exact H.
Qed.

(* In every run - error-free or not - the log of analysis calls is exactly the
   list of analysed artifacts, and that list has no repetition: each (source
   address, finder) pair is analysed at most once. *)
Theorem analyse_once fuel w : forall ops st st' outs,
  once_inv st -> run_ops fuel w st ops = (st', outs) -> once_inv st'.
Proof.
  induction ops as [|o ops IH]; intros st st' outs H Hr.
  - cbn in Hr. injection Hr as <- <-. exact H.
  - cbn in Hr. destruct (apply_op fuel w st o) as [st1 out] eqn:Ea.
    destruct (run_ops fuel w st1 ops) as [st2 outs2] eqn:Er. injection Hr as <- <-.
    eapply IH; [eapply apply_op_once; eauto|exact Er].
Qed.

Lemma once_inv_init : once_inv init_state.
Proof. split; [constructor|reflexivity]. Qed.

(* ====================================================================== *)
(* C14: each package is fetched once (in a world where fetching never fails) *)
(* ====================================================================== *)

Definition is_fetch (c : call) : bool := match c with CFetch _ => true | _ => false end.
Definition fetch_log (st : bstate) : list call := filter is_fetch (calls st).

Definition fetch_inv (st : bstate) : Prop :=
  NoDup (map fst (dirs st)) /\ fetch_log st = map CFetch (map fst (dirs st)).

Lemma assoc_none_not_in {V} p (l : list (str * V)) : assoc str_eqb p l = None -> ~ In p (map fst l).
Proof.
  induction l as [|[k v] l IH]; cbn; [tauto|].
  destruct (str_eqb_spec p k) as [->|Hne]; [discriminate|].
  intros H [Hk|Hin]; [congruence|]. now apply IH.
Qed.

Lemma find_registry_source_fetch w st p sub sid :
  fetch_log (fst (find_registry_source w st p sub sid)) = fetch_log st /\
  dirs (fst (find_registry_source w st p sub sid)) = dirs st.
Proof.
  unfold find_registry_source, fetch_log.
  destruct (assoc str_eqb p (vcache st)) as [infos|].
  - destruct (select_version _ _) as [v|]; cbn; [|auto].
    destruct (assoc pv_eqb (p, v) (resolved st)) as [[rp rsub]|]; cbn.
    + destruct (final_source_addr sub rp rsub); cbn; auto.
    + destruct (w_source w p v) as [[rp rsub]|]; cbn; [|auto].
      destruct (final_source_addr sub rp rsub); cbn; auto.
  - destruct (w_versions w p) as [infos|]; cbn; [|auto].
    destruct (select_version _ _) as [v|]; cbn; [|auto].
    destruct (assoc pv_eqb (p, v) (resolved st)) as [[rp rsub]|]; cbn.
    + destruct (final_source_addr sub rp rsub); cbn; auto.
    + destruct (w_source w p v) as [[rp rsub]|]; cbn; [|auto].
      destruct (final_source_addr sub rp rsub); cbn; auto.
Qed.

Lemma ensure_remote_package_fetch w st p :
  (forall q, w_fetch w q <> None) ->
  fetch_inv st -> fetch_inv (fst (ensure_remote_package w st p)).
Proof.
  intros Htot [Hnd Hlog]. unfold ensure_remote_package, fetch_inv, fetch_log in *.
  destruct (assoc str_eqb p (dirs st)) eqn:Ea; cbn; [auto|].
  destruct (w_fetch w p) as [[c m]|] eqn:Ef; [|exfalso; eapply Htot; eauto].
  cbn. split.
  - constructor; [now apply assoc_none_not_in|exact Hnd].
  - now rewrite Hlog.
Qed.

Lemma step_fetch w phase st ds ph st' ds' :
  (forall q, w_fetch w q <> None) ->
  fetch_inv st -> step w phase st ds = Next ph st' ds' -> fetch_inv st'.
Proof.
  intros Htot H Hstep. unfold step in Hstep. destruct phase.
  - destruct (pend_registry st) as [|[[[p sub] sid] f] remain].
    + injection Hstep as <- <- <-. exact H.
    + pose proof (find_registry_source_fetch w (set_pend_registry st remain) p sub sid) as [A B].
      destruct (find_registry_source w (set_pend_registry st remain) p sub sid) as [st1 r].
      cbn [fst] in A, B. unfold fetch_inv, fetch_log in *. cbn in A, B.
      destruct r; injection Hstep as <- <- <-; cbn; rewrite A, B; exact H.
  - destruct (pend_remote st) as [|[src f] remain].
    + destruct (pend_registry st); [discriminate|]. injection Hstep as <- <- <-. exact H.
    + assert (H0 : fetch_inv (set_pend_remote st remain)) by exact H.
      pose proof (ensure_remote_package_fetch w _ (fst src) Htot H0) as H1.
      destruct (ensure_remote_package w (set_pend_remote st remain) (fst src)) as [st1 r].
      cbn [fst] in H1.
      destruct r as [c|]; [|injection Hstep as <- <- <-; exact H1].
      destruct (mem rart_eqb (src, f) (analyzed st1)); [injection Hstep as <- <- <-; exact H1|].
      destruct (w_deps w c (snd src) f) as [deps more].
      destruct (fold_left (push_dep src) deps (st1, ds)) as [st2 ds2] eqn:Efold.
      pose proof (push_deps_spec src deps _ _ _ _ Efold) as
        (_ & Hd2 & _ & _ & _ & _ & _ & Hca2 & _).
      assert (Hgoal : fetch_inv (add_analyzed st2 (src, f))).
      { unfold fetch_inv, fetch_log in *. cbn. rewrite Hd2, Hca2. exact H1. }
      destruct more; injection Hstep as <- <- <-; exact Hgoal.
Qed.

Lemma drain_fetch w fuel : (forall q, w_fetch w q <> None) -> forall phase st ds st' ds',
  fetch_inv st -> drain fuel w phase st ds = Some (st', ds') -> fetch_inv st'.
Proof.
  intros Htot. induction fuel as [|fuel IH]; intros phase st ds st' ds' H Hd; [discriminate|].
  cbn in Hd. destruct (step w phase st ds) as [st1 ds1|ph st1 ds1] eqn:Es.
  - injection Hd as <- <-. destruct (step_done _ _ _ _ _ _ Es) as (-> & _). exact H.
  - eapply IH; [eapply step_fetch; eauto|exact Hd].
Qed.

(* Where fetching never fails, the log of fetch calls is exactly the key list
   of the package table, which has no repetition: every distinct remote
   package is fetched exactly once, however often it is mentioned. *)
Theorem fetch_once fuel w : (forall q, w_fetch w q <> None) -> forall ops st st' outs,
  fetch_inv st -> run_ops fuel w st ops = (st', outs) -> fetch_inv st'.
Proof.
  intros Htot. induction ops as [|o ops IH]; intros st st' outs H Hr.
  - cbn in Hr. injection Hr as <- <-. exact H.
  - cbn in Hr. destruct (apply_op fuel w st o) as [st1 out] eqn:Ea.
    destruct (run_ops fuel w st1 ops) as [st2 outs2] eqn:Er. injection Hr as <- <-.
    eapply IH; [|exact Er].
    unfold apply_op in Ea. destruct (closed st); [injection Ea as <- <-; exact H|].
    destruct o as [s f|p sub sid f|].
    + destruct (mem _ _ _); [injection Ea as <- <-; exact H|].
      unfold resolve_pending in Ea.
      destruct (drain _ _ _ _ _) as [[st3 ds3]|] eqn:Ed; injection Ea as <- <-; [|exact H].
      assert (fetch_inv st3) by (eapply drain_fetch; [exact Htot| |exact Ed]; exact H).
      destruct (has_errors ds3); exact H0.
    + unfold resolve_pending in Ea.
      destruct (drain _ _ _ _ _) as [[st3 ds3]|] eqn:Ed; injection Ea as <- <-; [|exact H].
      assert (fetch_inv st3) by (eapply drain_fetch; [exact Htot| |exact Ed]; exact H).
      destruct (has_errors ds3); exact H0.
    + injection Ea as <- <-. exact H.
Qed.

Lemma fetch_inv_init : fetch_inv init_state.
Proof. split; [constructor|reflexivity]. Qed.

(* ====================================================================== *)
(* C14: termination of the queue-draining loop                             *)
(* ====================================================================== *)

Section Termination.
Variable w : world.
(* a finite universe of artifacts and registry requests, closed under reported
   dependencies, relative resolution and registry resolution *)
Variable U : list rart.
Variable G : list gart.

Definition in_universe (i : item) : Prop :=
  match i with IRem a => In a U | IReg g => In g G end.

Definition universe_closed : Prop :=
  (forall a d i, In a U -> In d (deps_of w a) -> dep_item (fst a) d = Some i -> in_universe i) /\
  (forall p sub sid f real, In (p, sub, sid, f) G ->
     resolve_registry w p sub sid = Some real -> In (real, f) U).

Definition uroots : list item := map IRem U ++ map IReg G.

Lemma reach_in_universe : universe_closed -> forall i, reach w uroots i -> in_universe i.
Proof.
  intros [Hd Hr] i H. induction H as [i Hi|p sub sid f real _ IH Hres|a d i _ IH Hin Hdi].
  - unfold uroots in Hi. apply in_app_or in Hi as [Hi|Hi]; apply in_map_iff in Hi as (x & <- & Hx); exact Hx.
  - cbn in *. eapply Hr; eauto.
  - cbn in IH. eapply Hd; eauto.
Qed.

Definition cost (an : list rart) (a : rart) : nat :=
  if mem rart_eqb a an then 0 else 1 + 2 * length (deps_of w a).
Definition todo (an : list rart) : nat := list_sum (map (cost an) U).
Definition weight (st : bstate) : nat := length (pend_remote st) + 2 * length (pend_registry st).

(* 1 exactly in the two configurations whose next step only switches loops *)
Definition switching (phase : bool) (st : bstate) : nat :=
  match phase, pend_registry st, pend_remote st with
  | true, [], _ => 1
  | false, _ :: _, [] => 1
  | _, _, _ => 0
  end.

Definition mu (phase : bool) (st : bstate) : nat :=
  2 * (weight st + todo (analyzed st)) + switching phase st.

Lemma lsc (a : nat) l : list_sum (a :: l) = a + list_sum l.
Proof. reflexivity. Qed.

Lemma cost_mono an x a : cost (x :: an) a <= cost an a.
Proof.
  unfold cost, mem. cbn [existsb]. destruct (rart_eqb a x); cbn [orb]; [lia|].
  destruct (existsb (rart_eqb a) an); lia.
Qed.

Lemma todo_cons_le_gen (l : list rart) an x :
  list_sum (map (cost (x :: an)) l) <= list_sum (map (cost an) l).
Proof.
  induction l as [|a l IH]; cbn [map]; rewrite ?lsc; [cbn; lia|]. pose proof (cost_mono an x a). lia.
Qed.

Lemma todo_decrease_gen (l : list rart) an x :
  In x l -> mem rart_eqb x an = false ->
  list_sum (map (cost (x :: an)) l) + (1 + 2 * length (deps_of w x)) <= list_sum (map (cost an) l).
Proof.
  induction l as [|a l IH]; intros Hin Hm; [contradiction|]. cbn [map]. rewrite !lsc.
  destruct Hin as [->|Hin].
  - pose proof (todo_cons_le_gen l an x).
    assert (cost (x :: an) x = 0).
    { unfold cost, mem. cbn [existsb]. replace (rart_eqb x x) with true; [reflexivity|]. symmetry. now apply rart_eqb_eq. }
    assert (cost an x = 1 + 2 * length (deps_of w x)) by (unfold cost; now rewrite Hm).
    lia.
  - specialize (IH Hin Hm). pose proof (cost_mono an x a). lia.
Qed.

Lemma push_dep_weight src d st ds st' ds' :
  push_dep src (st, ds) d = (st', ds') -> weight st' <= weight st + 2.
Proof.
  unfold push_dep, weight. destruct d as [s f|p sub sid f|rel f].
  - intros [= <- <-]. cbn. lia.
  - intros [= <- <-]. cbn. lia.
  - destruct (join_sub_path _ _); intros [= <- <-]; cbn; lia.
Qed.

Lemma push_deps_weight src deps : forall st ds st' ds',
  fold_left (push_dep src) deps (st, ds) = (st', ds') -> weight st' <= weight st + 2 * length deps.
Proof.
  induction deps as [|d deps IH]; intros st ds st' ds' H.
  - cbn in H. injection H as <- <-. lia.
  - cbn [fold_left] in H. destruct (push_dep src (st, ds) d) as [st1 ds1] eqn:E1.
    pose proof (push_dep_weight _ _ _ _ _ _ E1). specialize (IH _ _ _ _ H). cbn [length]. lia.
Qed.

Lemma switching_le phase st : switching phase st <= 1.
Proof. unfold switching. destruct phase, (pend_registry st), (pend_remote st); lia. Qed.

Lemma step_measure phase st ds ph st' ds' :
  universe_closed -> sinv w uroots st ->
  step w phase st ds = Next ph st' ds' -> mu ph st' < mu phase st.
Proof.
  intros Hclosed Hs Hstep. pose proof Hs as [Hc Han Hpr Hpg Hf].
  unfold step in Hstep. destruct phase.
  - destruct (pend_registry st) as [|[[[p sub] sid] f] remain] eqn:Eg.
    + (* switch to the remote loop *)
      injection Hstep as <- <- <-. unfold mu, switching. rewrite Eg.
      destruct (pend_remote st); lia.
    + set (st0 := set_pend_registry st remain) in *.
      assert (Hc0 : cache_ok w st0) by (destruct Hc; constructor; auto).
      pose proof (find_registry_source_spec w st0 p sub sid Hc0) as Hspec.
      destruct (find_registry_source w st0 p sub sid) as [st1 r].
      destruct Hspec as (_ & _ & (Q1 & Q2 & Q3 & _) & _).
      cbn in Q1, Q2, Q3.
      destruct r as [real|]; injection Hstep as <- <- <-.
      * pose proof (switching_le true (set_pend_remote st1 ((real, f) :: pend_remote st1))).
        unfold mu, weight, switching in *. cbn [pend_remote pend_registry analyzed set_pend_remote] in *.
        rewrite Eg, <- Q1, <- Q2, <- Q3. cbn [length]. destruct remain; cbn [length]; lia.
      * pose proof (switching_le true st1).
        unfold mu, weight, switching in *. rewrite Eg, <- Q1, <- Q2, <- Q3. cbn [length]. destruct remain; cbn [length]; lia.
  - destruct (pend_remote st) as [|[src f] remain] eqn:Er.
    + destruct (pend_registry st) eqn:Eg; [discriminate|]. injection Hstep as <- <- <-.
      unfold mu, switching. rewrite Eg, Er. lia.
    + set (st0 := set_pend_remote st remain) in *.
      assert (Hc0 : cache_ok w st0) by (destruct Hc; constructor; auto).
      pose proof (ensure_remote_package_spec w st0 (fst src) Hc0) as Hspec.
      destruct (ensure_remote_package w st0 (fst src)) as [st1 r].
      destruct Hspec as (Hr & _ & (Q1 & Q2 & Q3 & _) & _).
      cbn in Q1, Q2, Q3.
      assert (Hbase : forall phx, mu phx st1 < mu false st).
      { intros phx. pose proof (switching_le phx st1). unfold mu.
        remember (switching phx st1) as s1 eqn:Es1. clear Es1.
        unfold weight in *. rewrite <- Q1, <- Q2, <- Q3, Er. cbn [length].
        unfold switching. rewrite Er. destruct (pend_registry st); lia. }
      destruct r as [c|]; [|injection Hstep as <- <- <-; apply Hbase].
      destruct (mem rart_eqb (src, f) (analyzed st1)) eqn:Em; [injection Hstep as <- <- <-; apply Hbase|].
      destruct (w_deps w c (snd src) f) as [deps more] eqn:Ed.
      destruct (fold_left (push_dep src) deps (st1, ds)) as [st2 ds2] eqn:Efold.
      pose proof (push_deps_spec src deps _ _ _ _ Efold) as (Ha2 & _).
      pose proof (push_deps_weight _ _ _ _ _ _ Efold) as Hw.
      assert (Hfetch : exists m, w_fetch w (fst src) = Some (c, m)).
      { destruct (w_fetch w (fst src)) as [[c' m]|]; cbn in Hr; [|discriminate].
        injection Hr as ->. eauto. }
      destruct Hfetch as [m Hm].
      assert (Hdeps : deps_of w (src, f) = deps).
      { unfold deps_of. cbn. rewrite Hm, Ed. reflexivity. }
      assert (HinU : In (src, f) U).
      { apply (reach_in_universe Hclosed (IRem (src, f))). apply Hpr. now left. }
      pose proof (todo_decrease_gen U (analyzed st1) (src, f) HinU Em) as Htd.
      rewrite Hdeps in Htd.
      assert (Hgoal : forall phx, mu phx (add_analyzed st2 (src, f)) < mu false st).
      { intros phx. pose proof (switching_le phx (add_analyzed st2 (src, f))). unfold mu.
        remember (switching phx (add_analyzed st2 (src, f))) as s1 eqn:Es1. clear Es1.
        unfold todo in *. cbn [analyzed add_analyzed]. rewrite Ha2, <- Q3.
        change (weight (add_analyzed st2 (src, f))) with (weight st2).
        unfold weight in *. rewrite <- Q1, <- Q2 in Hw. rewrite <- Q3 in Htd. rewrite Er. cbn [length].
        unfold switching. rewrite Er. cbn in Hw.
        destruct (pend_registry st); cbn [length] in *; lia. }
      destruct more; injection Hstep as <- <- <-; [apply Hgoal|].
      pose proof (Hgoal false) as Hg. unfold mu, weight, switching in *. exact Hg.
Qed.

(* the drain loop terminates whenever its fuel exceeds the measure *)
Theorem drain_terminates : universe_closed ->
  forall fuel phase st ds, sinv w uroots st -> mu phase st < fuel ->
  exists res, drain fuel w phase st ds = Some res.
Proof.
  intros Hclosed. induction fuel as [|fuel IH]; intros phase st ds Hs Hlt; [lia|].
  cbn. destruct (step w phase st ds) as [st1 ds1|ph st1 ds1] eqn:Es; [eauto|].
  apply IH.
  - eapply step_sinv; eauto.
  - pose proof (step_measure _ _ _ _ _ _ Hclosed Hs Es). lia.
Qed.

(* a bound that does not depend on the state: for states whose queues hold at
   most [k] items in all *)
Definition total_cost : nat := list_sum (map (fun a => 1 + 2 * length (deps_of w a)) U).

Lemma todo_le_total an : todo an <= total_cost.
Proof.
  unfold todo, total_cost. induction U as [|a l IH]; cbn [map]; rewrite ?lsc; [cbn; lia|].
  assert (cost an a <= 1 + 2 * length (deps_of w a)) by (unfold cost; destruct (mem _ _ _); lia).
  lia.
Qed.

End Termination.
