(* C10: what a successfully prepared package directory contains.
   Key facts: the preparation only ever deletes (so every later file system is
   a sub-file-system of every earlier one), path resolution is monotone under
   deletion (a resolution that succeeds after deletions is the resolution
   before them), and every surviving entry was validated at some earlier
   moment and read successfully at the end. *)
From Slug Require Import Base.Str Base.PathAlg FS.FS FS.FSProofs Ignore.Rules Slug.Unpack Slug.Pack Bundle.Prepare.
From Coq Require Import Lia.

(* ---------- nodes that differ at most in what lies below them ---------- *)
Definition same_node (a b : node) : Prop :=
  match a, b with
  | File d _ _, File d' _ _ => d = d'
  | Link t, Link t' => t = t'
  | Dir _ _ _, Dir _ _ _ => True
  | Special _, Special _ => True
  | _, _ => False
  end.

Lemma same_node_refl a : same_node a a.
Proof. destruct a; cbn; auto. Qed.

Lemma same_node_trans a b c : same_node a b -> same_node b c -> same_node a c.
Proof. destruct a, b, c; cbn; try tauto; congruence. Qed.

(* fs' is fs with some subtrees removed *)
Definition subfs (fs' fs : node) : Prop :=
  forall p n', get fs' p = Some n' -> exists n, get fs p = Some n /\ same_node n' n.

Lemma subfs_refl fs : subfs fs fs.
Proof. intros p n H. exists n. split; [exact H|apply same_node_refl]. Qed.

Lemma subfs_trans a b c : subfs a b -> subfs b c -> subfs a c.
Proof.
  intros H1 H2 p n Hg. destruct (H1 p n Hg) as (n1 & Hg1 & S1). destruct (H2 p n1 Hg1) as (n2 & Hg2 & S2).
  exists n2. split; [exact Hg2|eapply same_node_trans; eassumption].
Qed.

(* ---------- deletion ---------- *)
Lemma kid_filter_ne x y (ks : list (str * node)) :
  kid y (filter (fun kv => negb (str_eqb (fst kv) x)) ks) = if str_eqb y x then None else kid y ks.
Proof.
  induction ks as [|[k c] ks IH]; cbn; [now destruct (str_eqb y x)|].
  destruct (str_eqb_spec k x) as [->|Hkx]; cbn.
  - rewrite IH. destruct (str_eqb_spec y x) as [->|Hyx]; [reflexivity|].
    destruct (str_eqb_spec x y) as [->|]; [congruence|reflexivity].
  - destruct (str_eqb_spec k y) as [->|Hky].
    + destruct (str_eqb_spec y x); [congruence|reflexivity].
    + exact IH.
Qed.

Lemma kid_map_del x r y (ks : list (str * node)) :
  kid y (map (fun kv => if str_eqb (fst kv) x then (fst kv, del (snd kv) r) else kv) ks)
  = if str_eqb y x then option_map (fun c => del c r) (kid y ks) else kid y ks.
Proof.
  induction ks as [|[k c] ks IH]; cbn; [now destruct (str_eqb y x)|].
  destruct (str_eqb_spec k x) as [->|Hkx]; cbn.
  - destruct (str_eqb_spec x y) as [->|Hxy].
    + now rewrite str_eqb_refl.
    + rewrite IH. reflexivity.
  - destruct (str_eqb_spec k y) as [->|Hky].
    + destruct (str_eqb_spec y x); [congruence|reflexivity].
    + exact IH.
Qed.

Lemma del_subfs : forall p fs, subfs (del fs p) fs.
Proof.
  induction p as [|x r IH]; intros fs; [destruct fs; apply subfs_refl|].
  intros q n' Hg. destruct fs as [| pm mt ks | |]; try (exists n'; split; [exact Hg|apply same_node_refl]).
  cbn [del] in Hg. destruct r as [|y r'].
  - destruct q as [|z q']; cbn [get] in *.
    + injection Hg as <-. eexists. split; [reflexivity|exact I].
    + rewrite kid_filter_ne in Hg. destruct (str_eqb z x); [discriminate|].
      exists n'. split; [exact Hg|apply same_node_refl].
  - destruct q as [|z q']; cbn [get] in *.
    + injection Hg as <-. eexists. split; [reflexivity|exact I].
    + rewrite kid_map_del in Hg. destruct (str_eqb z x).
      * destruct (kid z ks) as [c|]; cbn [option_map] in Hg; [|discriminate].
        exact (IH c q' n' Hg).
      * exists n'. split; [exact Hg|apply same_node_refl].
Qed.

(* the deleted entry is gone, with everything below it *)
Lemma get_del_gone : forall p fs q, p <> [] -> get (del fs p) (p ++ q) = None.
Proof.
  induction p as [|x r IH]; intros fs q Hne; [congruence|].
  destruct fs as [| pm mt ks | |]; try reflexivity.
  cbn [del]. destruct r as [|y r'].
  - cbn [app get]. rewrite kid_filter_ne, str_eqb_refl. reflexivity.
  - cbn [app get]. rewrite kid_map_del, str_eqb_refl.
    destruct (kid x ks) as [c|]; cbn [option_map]; [|reflexivity].
    apply (IH c q). discriminate.
Qed.

(* paths that neither pass through the parent of the deleted entry nor lead to it are untouched *)
Lemma get_del_other : forall p fs q,
  is_prefix (removelast p) q = false -> is_prefix q p = false -> get (del fs p) q = get fs q.
Proof.
  induction p as [|x r IH]; intros fs q Hq Hq2; [reflexivity|].
  destruct fs as [| pm mt ks | |]; try reflexivity.
  destruct q as [|z q']; [destruct r; discriminate|].
  cbn [del]. destruct r as [|y r']; [discriminate|].
  change (removelast (x :: y :: r')) with (x :: removelast (y :: r')) in Hq. cbn [is_prefix] in Hq, Hq2.
  cbn [get]. rewrite kid_map_del. destruct (str_eqb_spec z x) as [->|Hzx].
  - rewrite str_eqb_refl in *.
    destruct (kid x ks) as [c|]; cbn [option_map]; [|reflexivity].
    apply IH; assumption.
  - reflexivity.
Qed.

(* ---------- resolution is monotone under deletion ---------- *)
Lemma walk_sub fs' fs fl : subfs fs' fs ->
  forall links todo cur ph,
    walk links fs' fl cur todo = Ok ph -> (exists n, get fs' ph = Some n) ->
    walk links fs fl cur todo = Ok ph.
Proof.
  intros Hsub. induction links as [|l IHl].
  - induction todo as [|c rest IH]; intros cur ph Hw Hex.
    + now rewrite walk_nil in *.
    + rewrite walk_cons in *.
      destruct (is_empty c || is_dot c); [now apply IH|].
      destruct (is_dotdot c); [now apply IH|]. cbn zeta in *.
      destruct (get fs' (cur ++ [c])) as [n'|] eqn:Eg.
      * destruct (Hsub _ _ Eg) as (n & Hg & Hs). rewrite Hg.
        destruct n' as [| | t |], n as [| | t0 |]; cbn in Hs; try contradiction; subst; try exact Hw.
        now apply IH.
      * destruct (is_nil rest); [|discriminate]. injection Hw as <-.
        destruct Hex as [n Hn]. congruence.
  - induction todo as [|c rest IH]; intros cur ph Hw Hex.
    + now rewrite walk_nil in *.
    + rewrite walk_cons in *.
      destruct (is_empty c || is_dot c); [now apply IH|].
      destruct (is_dotdot c); [now apply IH|]. cbn zeta in *.
      destruct (get fs' (cur ++ [c])) as [n'|] eqn:Eg.
      * destruct (Hsub _ _ Eg) as (n & Hg & Hs). rewrite Hg.
        destruct n' as [| | t |], n as [| | t0 |]; cbn in Hs; try contradiction; subst; try exact Hw.
        -- now apply IH.
        -- destruct (is_nil rest && negb fl); [exact Hw|].
           destruct t0; [exact Hw|]. now apply IHl.
      * destruct (is_nil rest); [|discriminate]. injection Hw as <-.
        destruct Hex as [n Hn]. congruence.
Qed.

(* ---------- small facts ---------- *)
Lemma is_prefix_split a : forall b, is_prefix a b = true -> exists c, b = a ++ c.
Proof.
  induction a as [|x a IH]; intros b H; [now exists b|].
  destruct b as [|y b]; [discriminate|]. cbn in H.
  destruct (str_eqb_spec x y) as [->|]; [|discriminate].
  destruct (IH b H) as [c ->]. now exists c.
Qed.

Lemma is_prefix_app a c : is_prefix a (a ++ c) = true.
Proof. induction a as [|x a IH]; [reflexivity|]. cbn. now rewrite str_eqb_refl. Qed.

Lemma is_prefix_refl a : is_prefix a a = true.
Proof. rewrite <- (app_nil_r a) at 2. apply is_prefix_app. Qed.

Lemma get_prefix_some n p q m : get n (p ++ q) = Some m -> exists c, get n p = Some c.
Proof. rewrite get_app. destruct (get n p) as [c|]; [eauto|discriminate]. Qed.

Lemma get_nondir_below n p c q m : get n p = Some c -> is_dir c = false -> get n (p ++ q) = Some m -> q = [].
Proof.
  intros Hp Hd. rewrite get_app, Hp. destruct q as [|x q]; [reflexivity|].
  destruct c; try discriminate; cbn; discriminate.
Qed.

Lemma same_node_is_dir a b : same_node a b -> is_dir a = is_dir b.
Proof. destruct a, b; cbn; tauto. Qed.

Lemma in_insert_name x y l : In x (insert_name y l) <-> x = y \/ In x l.
Proof.
  induction l as [|z l IH]; cbn; [split; [intros [H|[]]; now left|intros [H|[]]; now left]|].
  destruct (str_ltb z y); cbn; [rewrite IH|]; intuition.
Qed.

Lemma in_sort_names x l : In x (sort_names l) <-> In x l.
Proof.
  induction l as [|y l IH]; [reflexivity|]. unfold sort_names in *. cbn [fold_right].
  rewrite in_insert_name, IH. cbn. intuition.
Qed.

Lemma kid_in_names x ks c : kid x ks = Some c -> In x (map fst ks).
Proof.
  induction ks as [|[k v] ks IH]; [discriminate|]. cbn.
  destruct (str_eqb_spec k x) as [->|]; [now left|]. intros H. right. now apply IH.
Qed.

Lemma child_in_readdir n x c : get n [x] = Some c -> In x (readdir n).
Proof.
  destruct n as [| pm mt ks | |]; try discriminate. cbn.
  destruct (kid x ks) as [k|] eqn:E; [|discriminate]. intros _.
  apply in_sort_names. eapply kid_in_names; exact E.
Qed.

(* ---------- the invariant of the preparation walk ---------- *)
Section Inv.
Variable rules : list rule.
Variable W : list str.

Definition not_excl (rel : list str) (n : node) : Prop :=
  fst (excludes rules (join_rel rel)) = false /\
  (is_dir n = true -> fst (excludes rules (join_rel rel ++ [slash])) = false).

(* what is known of an entry that survives: the rules do not exclude it, its own
   text stays inside the package, and at some earlier moment (a file system of
   which the present one is a part) it resolved inside W to a file or directory *)
Definition P (fs1 : node) (rel : list str) (n : node) : Prop :=
  not_excl rel n /\ link_text_ok rel n = true /\
  exists fs_t, subfs fs1 fs_t /\ validate W fs_t rel = true.

Lemma link_text_ok_same rel a b : same_node a b -> link_text_ok rel a = link_text_ok rel b.
Proof. destruct a, b; cbn; try tauto. now intros ->. Qed.

Lemma P_transfer fs2 fs1 rel n2 n1 :
  subfs fs2 fs1 -> same_node n2 n1 -> P fs1 rel n1 -> P fs2 rel n2.
Proof.
  intros Hs Hn ((He1 & He2) & Hl & fs_t & Ht & Hv). split; [|split].
  - split; [exact He1|]. rewrite (same_node_is_dir _ _ Hn). exact He2.
  - now rewrite (link_text_ok_same rel _ _ Hn).
  - exists fs_t. split; [eapply subfs_trans; eassumption|exact Hv].
Qed.

Definition step (fuel : nat) (rel0 : list str) (acc : wres) (name : str) : wres :=
  match acc with
  | WDone f => pwalk rules W fuel f (rel0 ++ [name])
  | other => other
  end.

Lemma fold_step_fail fuel rel0 names : fold_left (step fuel rel0) names WFail = WFail.
Proof. induction names; [reflexivity|exact IHnames]. Qed.
Lemma fold_step_fuel fuel rel0 names : fold_left (step fuel rel0) names WFuel = WFuel.
Proof. induction names; [reflexivity|exact IHnames]. Qed.

Definition walk_post (rel0 : list str) (fs fs1 : node) : Prop :=
  subfs fs1 fs /\
  forall rel n', is_prefix rel0 rel = true -> rel <> [] -> get fs1 (W ++ rel) = Some n' -> P fs1 rel n'.

Lemma fold_inv fuel rel0 :
  (forall fs r fs1, pwalk rules W fuel fs r = WDone fs1 -> walk_post r fs fs1) ->
  forall names fs_k fs_end,
    fold_left (step fuel rel0) names (WDone fs_k) = WDone fs_end ->
    subfs fs_end fs_k /\
    forall x, In x names -> forall rel n', is_prefix (rel0 ++ [x]) rel = true ->
      get fs_end (W ++ rel) = Some n' -> P fs_end rel n'.
Proof.
  intros IH. induction names as [|x names IHn]; intros fs_k fs_end Hf.
  - injection Hf as <-. split; [apply subfs_refl|intros x []].
  - cbn [fold_left step] in Hf.
    destruct (pwalk rules W fuel fs_k (rel0 ++ [x])) as [| |fs_k1] eqn:Ew.
    + now rewrite fold_step_fail in Hf.
    + now rewrite fold_step_fuel in Hf.
    + destruct (IHn _ _ Hf) as [Hs1 Hrest]. destruct (IH _ _ _ Ew) as [Hs2 Hx].
      split; [eapply subfs_trans; eassumption|].
      intros y [<-|Hy] rel n' Hp Hg; [|now apply (Hrest y Hy)].
      destruct (Hs1 _ _ Hg) as (n1 & Hg1 & Hsame).
      apply (P_transfer fs_end fs_k1 rel n' n1 Hs1 Hsame).
      apply Hx; [exact Hp| |exact Hg1].
      apply is_prefix_split in Hp as [c ->]. destruct rel0; discriminate.
Qed.

Lemma pwalk_inv : forall fuel fs rel0 fs1,
  pwalk rules W fuel fs rel0 = WDone fs1 -> walk_post rel0 fs fs1.
Proof.
  induction fuel as [|fuel IH]; intros fs rel0 fs1 Hw; [discriminate|].
  cbn [pwalk] in Hw. destruct (get fs (W ++ rel0)) as [n|] eqn:Eg; [|discriminate].
  (* what the walk function did with this entry *)
  set (r := match rel0 with [] => FnOk fs | _ :: _ => entry_fn rules W fs rel0 n end) in Hw.
  assert (Hr : (r = FnOk fs /\ (rel0 = [] \/ (not_excl rel0 n /\ link_text_ok rel0 n = true /\ validate W fs rel0 = true)))
               \/ (rel0 <> [] /\ (r = FnOk (del fs (W ++ rel0)) \/ r = FnSkip (del fs (W ++ rel0))))
               \/ r = FnErr).
  { subst r. destruct rel0 as [|x0 rel0']; [left; split; [reflexivity|now left]|].
    unfold entry_fn. set (rel0 := x0 :: rel0') in *.
    destruct (fst (excludes rules (join_rel rel0))) eqn:E1; [right; left; split; [subst rel0; discriminate|now left]|].
    destruct (is_dir n) eqn:Ed; cbn match.
    - destruct (fst (excludes rules (join_rel rel0 ++ [slash]))) eqn:E2; [right; left; split; [subst rel0; discriminate|now right]|].
      destruct (link_text_ok rel0 n) eqn:El; cbn match; [|now right; right].
      destruct (validate W fs rel0) eqn:Ev; [|now right; right].
      left. split; [reflexivity|]. right. repeat split; auto.
    - destruct (link_text_ok rel0 n) eqn:El; cbn match; [|now right; right].
      destruct (validate W fs rel0) eqn:Ev; [|now right; right].
      left. split; [reflexivity|]. right. repeat split; auto. intros Hd. congruence. }
  clearbody r.
  (* nothing at or below a deleted entry survives *)
  assert (Hgone : forall fsx, rel0 <> [] -> subfs fsx (del fs (W ++ rel0)) ->
            forall rel n', is_prefix rel0 rel = true -> get fsx (W ++ rel) = Some n' -> False).
  { intros fsx Hne Hs rel n' Hp Hg. apply is_prefix_split in Hp as [c ->].
    destruct (Hs _ _ Hg) as (m & Hm & _). rewrite app_assoc, get_del_gone in Hm; [discriminate|].
    destruct W; [exact Hne|discriminate]. }
  destruct Hr as [[-> Hok]|[[Hne [->| ->]]| ->]]; [| | |discriminate].
  - (* the entry is kept *)
    assert (Hself : forall fsx nx, subfs fsx fs -> get fsx (W ++ rel0) = Some nx -> rel0 <> [] -> P fsx rel0 nx).
    { intros fsx nx Hs Hg Hne. destruct Hok as [->|(He & Hl & Hv)]; [congruence|].
      destruct (Hs _ _ Hg) as (m & Hm & Hsame). rewrite Eg in Hm. injection Hm as <-.
      apply (P_transfer fsx fs rel0 nx n Hs Hsame). split; [exact He|]. split; [exact Hl|].
      exists fs. split; [apply subfs_refl|exact Hv]. }
    destruct (is_dir n) eqn:Ed.
    + destruct (fold_inv fuel rel0 (fun f r f1 H => IH f r f1 H) _ _ _ Hw) as [Hs Hkids].
      split; [exact Hs|]. intros rel n' Hp Hne Hg.
      destruct (is_prefix_split _ _ Hp) as [c ->]. destruct c as [|x c].
      * rewrite app_nil_r in *. now apply Hself.
      * apply (Hkids x).
        -- (* x was among the names read *)
           assert (Hx : exists cx, get fs1 (W ++ rel0 ++ [x]) = Some cx).
           { replace (W ++ rel0 ++ x :: c) with ((W ++ rel0 ++ [x]) ++ c) in Hg
               by (now rewrite <- !app_assoc). eapply get_prefix_some; exact Hg. }
           destruct Hx as [cx Hcx]. destruct (Hs _ _ Hcx) as (m & Hm & _).
           rewrite app_assoc, get_app, Eg in Hm. eapply child_in_readdir; exact Hm.
        -- replace (rel0 ++ x :: c) with ((rel0 ++ [x]) ++ c) by (now rewrite <- app_assoc).
           apply is_prefix_app.
        -- exact Hg.
    + injection Hw as <-. split; [apply subfs_refl|]. intros rel n' Hp Hne Hg.
      destruct (is_prefix_split _ _ Hp) as [c ->].
      rewrite app_assoc in Hg. pose proof (get_nondir_below _ _ _ _ _ Eg Ed Hg) as ->.
      rewrite app_nil_r in *. apply Hself; [apply subfs_refl|exact Hg|exact Hne].
  - (* excluded: removed, and the walk goes on (it fails on the first name it had read) *)
    assert (Hsub : subfs fs1 (del fs (W ++ rel0))).
    { destruct (is_dir n).
      - exact (proj1 (fold_inv fuel rel0 (fun f r f1 H => IH f r f1 H) _ _ _ Hw)).
      - injection Hw as <-. apply subfs_refl. }
    split; [eapply subfs_trans; [exact Hsub|apply del_subfs]|].
    intros rel n' Hp _ Hg. exfalso. exact (Hgone fs1 Hne Hsub rel n' Hp Hg).
  - (* an excluded directory: removed and skipped *)
    injection Hw as <-. split; [apply del_subfs|].
    intros rel n' Hp _ Hg. exfalso. exact (Hgone _ Hne (subfs_refl _) rel n' Hp Hg).
Qed.
End Inv.

(* ---------- the final reading of every non-directory ---------- *)
Lemma hash_ok_reads : forall fuel fs p n, hash_ok fuel fs p n = true ->
  forall q m, get n q = Some m -> is_dir m = false -> exists d, read_file fs (p ++ q) = Some d.
Proof.
  induction fuel as [|fuel IH]; intros fs p n H q m Hg Hd; [discriminate|].
  cbn [hash_ok] in H. destruct n as [d pm mt | pm mt ks | t | k].
  - destruct q; [|discriminate]. rewrite app_nil_r. destruct (read_file fs p) as [x|]; [eauto|discriminate].
  - destruct q as [|x q']; [injection Hg as <-; discriminate|].
    cbn [get] in Hg. destruct (kid x ks) as [c|] eqn:Ek; [|discriminate].
    rewrite forallb_forall in H.
    assert (Hin : In x (readdir (Dir pm mt ks))).
    { cbn. apply in_sort_names. eapply kid_in_names; exact Ek. }
    specialize (H x Hin). rewrite Ek in H. rewrite andl_spec in H. apply andb_true_iff in H as [_ H].
    destruct (IH fs (p ++ [x]) c H q' m Hg Hd) as [d Hr]. exists d. now rewrite <- app_assoc in Hr.
  - destruct q; [|discriminate]. rewrite app_nil_r. destruct (read_file fs p) as [x|]; [eauto|discriminate].
  - destruct q; [|discriminate]. rewrite app_nil_r. destruct (read_file fs p) as [x|]; [eauto|discriminate].
Qed.

Lemma get_nolink : forall p n m, get n p = Some m -> is_link m = false -> nolink n p.
Proof.
  induction p as [|x r IH]; intros n m Hg Hl; [exact I|].
  destruct n as [| pm mt ks | |]; try exact I. cbn [get] in Hg. cbn [nolink].
  destruct (kid x ks) as [c|]; [|exact I]. split; [|eapply IH; eassumption].
  destruct r as [|y r'].
  - injection Hg as <-. exact Hl.
  - destruct c; try discriminate; reflexivity.
Qed.

(* ====================================================================== *)
(* C10: the contents of a successfully prepared package directory          *)
(* ====================================================================== *)
Theorem prepared_sane rules W fuel fs fs' :
  prepare rules W fuel fs = WDone fs' ->
  subfs fs' fs /\
  forall rel n, rel <> [] -> get fs' (W ++ rel) = Some n ->
    not_excl rules rel n /\
    match n with
    | File _ _ _ | Dir _ _ _ => True
    | Special _ => forallb plainb (W ++ rel) = true -> False
    | Link t =>
        is_rooted t = false /\
        exists ph d pm mt, resolve fs' true (W ++ rel) = Ok ph /\ get fs' ph = Some (File d pm mt) /\ is_prefix W ph = true
    end.
Proof.
  unfold prepare. destruct (pwalk rules W fuel fs []) as [| |fs1] eqn:Ew; try discriminate.
  destruct (get fs1 W) as [nw|] eqn:Egw; [|discriminate].
  destruct (hash_ok fuel fs1 W nw) eqn:Eh; [|discriminate]. intros [= <-].
  destruct (pwalk_inv rules W fuel fs [] fs1 Ew) as [Hsub Hall]. split; [exact Hsub|].
  intros rel n Hne Hg. destruct (Hall rel n eq_refl Hne Hg) as (Hex & Hl & fs_t & Ht & Hv).
  split; [exact Hex|].
  assert (Hread : is_dir n = false -> exists ph d pm mt, resolve fs1 true (W ++ rel) = Ok ph /\ get fs1 ph = Some (File d pm mt)).
  { intros Hd. assert (Hgn : get nw rel = Some n) by (now rewrite get_app, Egw in Hg).
    destruct (hash_ok_reads fuel fs1 W nw Eh rel n Hgn Hd) as [d Hr].
    unfold read_file in Hr. destruct (resolve fs1 true (W ++ rel)) as [ph|]; [|discriminate].
    destruct (get fs1 ph) as [[d' pm mt| | |]|] eqn:E; try discriminate. exists ph, d', pm, mt. auto. }
  destruct n as [d pm mt | pm mt ks | t | k]; [exact I|exact I| |].
  - (* a link: it reads as a regular file, and that file is where the validation found it *)
    destruct (Hread eq_refl) as (ph & d & pm & mt & Hres & Hfile).
    split. { cbn in Hl. rewrite andl_spec in Hl. apply andb_true_iff in Hl as [Hl _]. now apply negb_true_iff in Hl. }
    exists ph, d, pm, mt. split; [exact Hres|]. split; [exact Hfile|].
    unfold validate in Hv. unfold resolve in *.
    rewrite (walk_sub fs1 fs_t true Ht _ _ _ _ Hres (ex_intro _ _ Hfile)) in Hv.
    destruct (get fs_t ph); [|discriminate]. rewrite andl_spec in Hv. now apply andb_true_iff in Hv as [Hv _].
  - (* a special file cannot be read as a regular file *)
    intros Hplain. destruct (Hread eq_refl) as (ph & d & pm & mt & Hres & Hfile).
    assert (Hroot : is_dir fs1 = true).
    { destruct fs1; try reflexivity; destruct W, rel; try congruence; discriminate. }
    destruct (walk_lexical fs1 true (W ++ rel) max_links [] fs1 eq_refl Hroot Hplain
                (or_introl (get_nolink _ _ _ Hg eq_refl)) ph Hres) as [-> _].
    cbn [app] in Hfile. congruence.
Qed.

(* the preparation changes nothing outside W: paths that neither lie below W nor lead to it *)
Section Outside.
Variable rules : list rule.
Variable W : list str.

Definition outside_same (fs1 fs : node) : Prop :=
  forall q, is_prefix W q = false -> is_prefix q W = false -> get fs1 q = get fs q.

Lemma is_prefix_app_l a b q : is_prefix (a ++ b) q = true -> is_prefix a q = true.
Proof.
  revert q; induction a as [|x a IH]; intros q H; [reflexivity|].
  destruct q as [|y q]; [discriminate|]. cbn in *.
  destruct (str_eqb x y); [now apply IH|discriminate].
Qed.

Lemma is_prefix_of_app q a b : is_prefix q (a ++ b) = true -> is_prefix q a = true \/ is_prefix a q = true.
Proof.
  revert a; induction q as [|y q IH]; intros a H; [now left|].
  destruct a as [|x a]; [now right|]. cbn in *.
  destruct (str_eqb_spec y x) as [->|]; [|discriminate].
  rewrite str_eqb_refl. now apply IH.
Qed.

Lemma del_outside fs rel : rel <> [] -> outside_same (del fs (W ++ rel)) fs.
Proof.
  intros Hne q H1 H2. apply get_del_other.
  - destruct (is_prefix (removelast (W ++ rel)) q) eqn:E; [|reflexivity].
    rewrite removelast_app in E by exact Hne. apply is_prefix_app_l in E. congruence.
  - destruct (is_prefix q (W ++ rel)) eqn:E; [|reflexivity].
    apply is_prefix_of_app in E as [E|E]; congruence.
Qed.

Lemma outside_trans a b c : outside_same a b -> outside_same b c -> outside_same a c.
Proof. intros H1 H2 q Ha Hb. now rewrite H1, H2. Qed.

Lemma pwalk_outside : forall fuel fs rel0 fs1,
  pwalk rules W fuel fs rel0 = WDone fs1 -> outside_same fs1 fs.
Proof.
  induction fuel as [|fuel IH]; intros fs rel0 fs1 Hw; [discriminate|].
  cbn [pwalk] in Hw. destruct (get fs (W ++ rel0)) as [n|]; [|discriminate].
  assert (Hfold : forall names f0 f1, fold_left (step rules W fuel rel0) names (WDone f0) = WDone f1 -> outside_same f1 f0).
  { induction names as [|x names IHn]; intros f0 f1 Hf.
    - injection Hf as <-. intros q _ _. reflexivity.
    - cbn [fold_left step] in Hf. destruct (pwalk rules W fuel f0 (rel0 ++ [x])) as [| |f01] eqn:E.
      + now rewrite fold_step_fail in Hf.
      + now rewrite fold_step_fuel in Hf.
      + eapply outside_trans; [exact (IHn _ _ Hf)|exact (IH _ _ _ E)]. }
  assert (Hr : forall r, match r with
                         | FnOk f | FnSkip f => outside_same f fs
                         | FnErr => True
                         end ->
               match r with
               | FnErr => WFail
               | FnSkip fs' => WDone fs'
               | FnOk fs' => if is_dir n then fold_left (step rules W fuel rel0) (readdir n) (WDone fs') else WDone fs'
               end = WDone fs1 -> outside_same fs1 fs).
  { intros [f|f|] Hf Hres; [|injection Hres as <-; exact Hf|discriminate].
    destruct (is_dir n); [|injection Hres as <-; exact Hf].
    eapply outside_trans; [exact (Hfold _ _ _ Hres)|exact Hf]. }
  apply (Hr _) in Hw; [exact Hw|].
  destruct rel0 as [|x0 r0]; [intros q _ _; reflexivity|].
  unfold entry_fn.
  destruct (fst (excludes rules (join_rel (x0 :: r0)))); [apply del_outside; discriminate|].
  destruct (is_dir n &&& fst (excludes rules (join_rel (x0 :: r0) ++ [slash]))); [apply del_outside; discriminate|].
  destruct (link_text_ok (x0 :: r0) n &&& validate W fs (x0 :: r0)); [intros q _ _; reflexivity|exact I].
Qed.

Theorem prepare_outside fuel fs fs' :
  prepare rules W fuel fs = WDone fs' -> outside_same fs' fs.
Proof.
  unfold prepare. destruct (pwalk rules W fuel fs []) as [| |fs1] eqn:Ew; try discriminate.
  destruct (get fs1 W); [|discriminate]. destruct (hash_ok fuel fs1 W n); [|discriminate].
  intros [= <-]. eapply pwalk_outside; exact Ew.
Qed.
End Outside.

(* ---------- only what the rules exclude is removed ---------- *)
Lemma get_del_keeps : forall p fs q n, is_prefix p q = false -> get fs q = Some n ->
  exists n', get (del fs p) q = Some n' /\ same_node n' n.
Proof.
  induction p as [|x r IH]; intros fs q n Hp Hg; [discriminate|].
  destruct fs as [| pm mt ks | |]; try (exists n; split; [exact Hg|apply same_node_refl]).
  destruct q as [|z q'].
  - injection Hg as <-. cbn [del]. destruct r; eexists; (split; [reflexivity|exact I]).
  - cbn [is_prefix] in Hp. cbn [get] in Hg. cbn [del]. destruct r as [|y r'].
    + cbn [get]. rewrite kid_filter_ne.
      destruct (str_eqb_spec x z) as [->|Hxz].
      * cbn in Hp. discriminate.
      * destruct (str_eqb_spec z x) as [->|_]; [congruence|].
        exists n. split; [exact Hg|apply same_node_refl].
    + cbn [get]. rewrite kid_map_del.
      destruct (str_eqb_spec x z) as [->|Hxz].
      * rewrite str_eqb_refl. destruct (kid z ks) as [c|]; [|discriminate]. cbn [option_map].
        apply IH; assumption.
      * destruct (str_eqb_spec z x) as [->|_]; [congruence|].
        exists n. split; [exact Hg|apply same_node_refl].
Qed.

Section Removed.
Variable rules : list rule.
Variable W : list str.

(* some non-empty prefix of rel is excluded, as a name or as a directory *)
Definition excluded_above (rel : list str) : Prop :=
  exists r, r <> [] /\ is_prefix r rel = true /\
    (fst (excludes rules (join_rel r)) = true \/ fst (excludes rules (join_rel r ++ [slash])) = true).

Definition removed_ok (fs fs1 : node) : Prop :=
  forall rel n, get fs (W ++ rel) = Some n -> get fs1 (W ++ rel) = None -> excluded_above rel.

Lemma removed_trans a b c : subfs b a -> removed_ok a b -> removed_ok b c -> removed_ok a c.
Proof.
  intros Hs H1 H2 rel n Hg Hn. destruct (get b (W ++ rel)) as [m|] eqn:E.
  - exact (H2 rel m E Hn).
  - exact (H1 rel n Hg E).
Qed.

Lemma is_prefix_app_inv a b q : is_prefix (a ++ b) (a ++ q) = is_prefix b q.
Proof. induction a as [|x a IH]; [reflexivity|]. cbn. now rewrite str_eqb_refl. Qed.

Lemma del_removed fs rel0 : rel0 <> [] ->
  (fst (excludes rules (join_rel rel0)) = true \/ fst (excludes rules (join_rel rel0 ++ [slash])) = true) ->
  removed_ok fs (del fs (W ++ rel0)).
Proof.
  intros Hne Hex rel n Hg Hn.
  destruct (is_prefix rel0 rel) eqn:E.
  - exists rel0. auto.
  - destruct (get_del_keeps (W ++ rel0) fs (W ++ rel) n) as (n' & Hn' & _); [now rewrite is_prefix_app_inv|exact Hg|].
    congruence.
Qed.

Lemma pwalk_removed : forall fuel fs rel0 fs1,
  pwalk rules W fuel fs rel0 = WDone fs1 -> removed_ok fs fs1.
Proof.
  induction fuel as [|fuel IH]; intros fs rel0 fs1 Hw; [discriminate|].
  pose proof (pwalk_inv rules W (S fuel) fs rel0 fs1 Hw) as [Hsub _].
  cbn [pwalk] in Hw. destruct (get fs (W ++ rel0)) as [n|]; [|discriminate].
  assert (Hfold : forall names f0 f1, fold_left (step rules W fuel rel0) names (WDone f0) = WDone f1 ->
            subfs f1 f0 /\ removed_ok f0 f1).
  { induction names as [|x names IHn]; intros f0 f1 Hf.
    - injection Hf as <-. split; [apply subfs_refl|]. intros rel m Hg Hn. congruence.
    - cbn [fold_left step] in Hf. destruct (pwalk rules W fuel f0 (rel0 ++ [x])) as [| |f01] eqn:E.
      + now rewrite fold_step_fail in Hf.
      + now rewrite fold_step_fuel in Hf.
      + destruct (IHn _ _ Hf) as [Hs2 Hr2]. destruct (pwalk_inv rules W fuel f0 _ f01 E) as [Hs1 _].
        split; [eapply subfs_trans; eassumption|].
        eapply removed_trans; [exact Hs1|exact (IH _ _ _ E)|exact Hr2]. }
  assert (Hr : forall r, match r with
                         | FnOk f | FnSkip f => subfs f fs /\ removed_ok fs f
                         | FnErr => True
                         end ->
               match r with
               | FnErr => WFail
               | FnSkip fs' => WDone fs'
               | FnOk fs' => if is_dir n then fold_left (step rules W fuel rel0) (readdir n) (WDone fs') else WDone fs'
               end = WDone fs1 -> removed_ok fs fs1).
  { intros [f|f|] Hf Hres; [|injection Hres as <-; exact (proj2 Hf)|discriminate].
    destruct Hf as [Hsf Hrf]. destruct (is_dir n); [|injection Hres as <-; exact Hrf].
    destruct (Hfold _ _ _ Hres) as [Hs2 Hr2]. eapply removed_trans; [exact Hsf|exact Hrf|exact Hr2]. }
  apply (Hr _) in Hw; [exact Hw|].
  assert (Hid : subfs fs fs /\ removed_ok fs fs).
  { split; [apply subfs_refl|]. intros rel m Hg Hn. congruence. }
  destruct rel0 as [|x0 r0]; [exact Hid|].
  unfold entry_fn.
  destruct (fst (excludes rules (join_rel (x0 :: r0)))) eqn:E1.
  { split; [apply del_subfs|apply del_removed; [discriminate|now left]]. }
  destruct (is_dir n); cbn match.
  - destruct (fst (excludes rules (join_rel (x0 :: r0) ++ [slash]))) eqn:E2.
    { split; [apply del_subfs|apply del_removed; [discriminate|now right]]. }
    destruct (link_text_ok (x0 :: r0) n &&& validate W fs (x0 :: r0)); [exact Hid|exact I].
  - destruct (link_text_ok (x0 :: r0) n &&& validate W fs (x0 :: r0)); [exact Hid|exact I].
Qed.

(* an entry no rule excludes (nor any directory above it) is still there after a successful preparation *)
Theorem prepare_keeps fuel fs fs' rel n :
  prepare rules W fuel fs = WDone fs' ->
  get fs (W ++ rel) = Some n -> ~ excluded_above rel ->
  exists n', get fs' (W ++ rel) = Some n' /\ same_node n' n.
Proof.
  intros Hp Hg Hne. pose proof (proj1 (prepared_sane rules W fuel fs fs' Hp)) as Hsub.
  unfold prepare in Hp. destruct (pwalk rules W fuel fs []) as [| |fs1] eqn:Ew; try discriminate.
  destruct (get fs1 W); [|discriminate]. destruct (hash_ok fuel fs1 W n0); [|discriminate].
  injection Hp as <-.
  destruct (get fs1 (W ++ rel)) as [n'|] eqn:E.
  - exists n'. split; [reflexivity|]. destruct (Hsub _ _ E) as (m & Hm & Hs). congruence.
  - exfalso. apply Hne. exact (pwalk_removed fuel fs [] fs1 Ew rel n Hg E).
Qed.

(* hence: a special file that no rule removes makes the preparation fail *)
Theorem special_file_fails fuel fs rel k :
  rel <> [] -> forallb plainb (W ++ rel) = true ->
  get fs (W ++ rel) = Some (Special k) -> ~ excluded_above rel ->
  forall fs', prepare rules W fuel fs <> WDone fs'.
Proof.
  intros Hne Hpl Hg Hex fs' Hp.
  destruct (prepare_keeps fuel fs fs' rel _ Hp Hg Hex) as (n' & Hg' & Hs).
  destruct n'; cbn in Hs; try contradiction.
  destruct (proj2 (prepared_sane rules W fuel fs fs' Hp) rel _ Hne Hg') as [_ Hf]. exact (Hf Hpl).
Qed.

(* and a link that no rule removes must resolve, in the fetched tree already, to a
   regular file inside the package: escaping and dangling links make the preparation fail *)
Theorem kept_link_resolves_inside fuel fs fs' rel t :
  rel <> [] -> prepare rules W fuel fs = WDone fs' ->
  get fs (W ++ rel) = Some (Link t) -> ~ excluded_above rel ->
  is_rooted t = false /\
  exists ph d pm mt, resolve fs true (W ++ rel) = Ok ph /\ get fs ph = Some (File d pm mt) /\ is_prefix W ph = true.
Proof.
  intros Hne Hp Hg Hex.
  destruct (prepare_keeps fuel fs fs' rel _ Hp Hg Hex) as (n' & Hg' & Hs).
  destruct n'; cbn in Hs; try contradiction. subst target.
  destruct (prepared_sane rules W fuel fs fs' Hp) as [Hsub Hall].
  destruct (Hall rel _ Hne Hg') as [_ (Hr & ph & d & pm & mt & Hres & Hfile & Hin)].
  split; [exact Hr|]. exists ph. destruct (Hsub _ _ Hfile) as (m & Hm & Hsm).
  destruct m; cbn in Hsm; try contradiction. subst.
  eexists _, _, _. split; [|split; [exact Hm|exact Hin]].
  unfold resolve in *. exact (walk_sub fs' fs true Hsub _ _ _ _ Hres (ex_intro _ _ Hfile)).
Qed.
End Removed.
