(* Order theory of go-versions precedence and the maximality of NewestInSet. *)
From Coq Require Import Sorting.Permutation.
From Slug Require Import Base.Str Bundle.Versions.

(* ---------- bytes ---------- *)
Lemma N_of_ascii_inj x y : N_of_ascii x = N_of_ascii y -> x = y.
Proof. intros H. rewrite <- (ascii_N_embedding x), <- (ascii_N_embedding y). now f_equal. Qed.

Lemma char_lt_irrefl x : str_ltb_char x x = false.
Proof. unfold str_ltb_char. apply N.ltb_irrefl. Qed.
Lemma char_lt_trans x y z : str_ltb_char x y = true -> str_ltb_char y z = true -> str_ltb_char x z = true.
Proof. unfold str_ltb_char. rewrite !N.ltb_lt. lia. Qed.
Lemma char_lt_total x y : x <> y -> str_ltb_char x y = true \/ str_ltb_char y x = true.
Proof.
  intros H. unfold str_ltb_char. rewrite !N.ltb_lt.
  assert (N_of_ascii x <> N_of_ascii y) by (intros E; apply H, N_of_ascii_inj, E). lia.
Qed.
Lemma char_lt_asym x y : str_ltb_char x y = true -> str_ltb_char y x = false.
Proof. unfold str_ltb_char. rewrite N.ltb_lt, N.ltb_ge. lia. Qed.

(* ---------- bytewise lexicographic order ---------- *)
Lemma str_ltb_irrefl a : str_ltb a a = false.
Proof. induction a as [|x a IH]; cbn; [reflexivity|]. now rewrite Ascii.eqb_refl. Qed.

Lemma str_ltb_trans a : forall b c, str_ltb a b = true -> str_ltb b c = true -> str_ltb a c = true.
Proof.
  induction a as [|x a IH]; intros [|y b] [|z c]; cbn; try discriminate; auto.
  destruct (Ascii.eqb_spec x y) as [->|Hxy], (Ascii.eqb_spec y z) as [->|Hyz].
  - rewrite ?Ascii.eqb_refl. apply IH.
  - destruct (Ascii.eqb_spec y z); [contradiction|]. auto.
  - destruct (Ascii.eqb_spec x z); [contradiction|]. auto.
  - intros H1 H2. pose proof (char_lt_trans _ _ _ H1 H2) as H3.
    destruct (Ascii.eqb_spec x z) as [->|]; [|exact H3].
    rewrite char_lt_irrefl in H3. discriminate.
Qed.

Lemma str_ltb_total a : forall b, a <> b -> str_ltb a b = true \/ str_ltb b a = true.
Proof.
  induction a as [|x a IH]; intros [|y b] Hne; cbn; auto; try congruence.
  destruct (Ascii.eqb_spec x y) as [->|Hxy].
  - rewrite Ascii.eqb_refl. apply IH. congruence.
  - destruct (Ascii.eqb_spec y x) as [->|]; [contradiction|]. now apply char_lt_total.
Qed.

Lemma str_ltb_asym a : forall b, str_ltb a b = true -> str_ltb b a = false.
Proof.
  intros b H. destruct (str_ltb b a) eqn:E; [|reflexivity].
  pose proof (str_ltb_trans _ _ _ H E) as H2. rewrite str_ltb_irrefl in H2. discriminate.
Qed.

(* ---------- a generic notion: strict total order given by a boolean ---------- *)
Record sto {A} (lt : A -> A -> bool) : Prop := {
  sto_irrefl : forall a, lt a a = false;
  sto_trans : forall a b c, lt a b = true -> lt b c = true -> lt a c = true;
  sto_total : forall a b, a <> b -> lt a b = true \/ lt b a = true }.

Lemma sto_asym {A} (lt : A -> A -> bool) : sto lt -> forall a b, lt a b = true -> lt b a = false.
Proof.
  intros [Hi Ht _] a b H. destruct (lt b a) eqn:E; [|reflexivity].
  pose proof (Ht _ _ _ H E). rewrite Hi in *. discriminate.
Qed.

Lemma sto_str_ltb : sto str_ltb.
Proof. constructor; [apply str_ltb_irrefl|apply str_ltb_trans|apply str_ltb_total]. Qed.

(* lessThanStr *)
Lemma sto_lt_str : sto lt_str.
Proof.
  constructor.
  - intros a. unfold lt_str. destruct (numeric a); rewrite ?Nat.ltb_irrefl; apply str_ltb_irrefl.
  - intros a b c. unfold lt_str.
    destruct (numeric a), (numeric b), (numeric c); try discriminate; auto; try apply str_ltb_trans.
    destruct (Nat.ltb_spec (length a) (length b)), (Nat.ltb_spec (length b) (length a)),
      (Nat.ltb_spec (length b) (length c)), (Nat.ltb_spec (length c) (length b)),
      (Nat.ltb_spec (length a) (length c)), (Nat.ltb_spec (length c) (length a));
      try discriminate; try lia; auto. apply str_ltb_trans.
  - intros a b Hne. unfold lt_str.
    destruct (numeric a), (numeric b); auto; try now apply str_ltb_total.
    destruct (Nat.ltb_spec (length a) (length b)), (Nat.ltb_spec (length b) (length a)); auto; try lia.
    now apply str_ltb_total.
Qed.

(* ---------- pre-release part lists ---------- *)
Lemma PE1 a b : parts_lt [a] [b] = lt_str a b. Proof. reflexivity. Qed.
Lemma PE2 a b b' q : parts_lt [a] (b :: b' :: q) = true. Proof. reflexivity. Qed.
Lemma PE3 a a' p b : parts_lt (a :: a' :: p) [b] = false. Proof. reflexivity. Qed.
Lemma PE4 a a' p b b' q : parts_lt (a :: a' :: p) (b :: b' :: q) =
  if str_eqb a b then parts_lt (a' :: p) (b' :: q) else lt_str a b.
Proof. reflexivity. Qed.

Lemma parts_lt_irrefl p : parts_lt p p = false.
Proof.
  induction p as [|a p IH]; [reflexivity|]. cbn.
  destruct p as [|b p]; [apply (sto_irrefl _ sto_lt_str)|]. now rewrite str_eqb_refl.
Qed.

Lemma parts_lt_trans p : forall q r, p <> [] -> q <> [] -> r <> [] ->
  parts_lt p q = true -> parts_lt q r = true -> parts_lt p r = true.
Proof.
  pose proof sto_lt_str as [Li Lt Ltot].
  induction p as [|a p IH]; intros q r Hp Hq Hr; [congruence|].
  destruct q as [|b q]; [congruence|]. destruct r as [|c r]; [congruence|].
  destruct p as [|a' p], q as [|b' q], r as [|c' r]; rewrite ?PE1, ?PE2, ?PE3, ?PE4; try discriminate; auto.
  - apply Lt.
  - destruct (str_eqb_spec a b) as [->|Hab], (str_eqb_spec b c) as [->|Hbc].
    + rewrite ?str_eqb_refl. apply IH; discriminate.
    + destruct (str_eqb_spec b c); [contradiction|]. auto.
    + destruct (str_eqb_spec a c); [contradiction|]. auto.
    + intros H1 H2. pose proof (Lt _ _ _ H1 H2) as H3.
      destruct (str_eqb_spec a c) as [->|]; [|exact H3]. rewrite Li in H3. discriminate.
Qed.

Lemma parts_lt_total p : forall q, p <> [] -> q <> [] -> p <> q ->
  parts_lt p q = true \/ parts_lt q p = true.
Proof.
  pose proof sto_lt_str as [Li Lt Ltot].
  induction p as [|a p IH]; intros q Hp Hq Hne; [congruence|].
  destruct q as [|b q]; [congruence|].
  destruct p as [|a' p], q as [|b' q]; rewrite ?PE1, ?PE2, ?PE3, ?PE4; auto.
  - apply Ltot. congruence.
  - destruct (str_eqb_spec a b) as [->|Hab].
    + rewrite ?str_eqb_refl. apply IH; try discriminate. congruence.
    + destruct (str_eqb_spec b a) as [->|]; [contradiction|]. now apply Ltot.
Qed.

Lemma split_on_inj c a b : split_on c a = split_on c b -> a = b.
Proof. intros H. rewrite <- (join_split c a), <- (join_split c b). now f_equal. Qed.

Lemma sto_extra_lt : sto extra_lt.
Proof.
  constructor.
  - intros a. unfold extra_lt. now rewrite str_eqb_refl.
  - intros a b c. unfold extra_lt.
    destruct (str_eqb_spec a b) as [->|Hab]; [discriminate|].
    destruct (str_eqb_spec b c) as [->|Hbc]; [discriminate|].
    intros H1 H2.
    pose proof (parts_lt_trans _ _ _ (split_on_nonempty _ a) (split_on_nonempty _ b) (split_on_nonempty _ c) H1 H2) as H3.
    destruct (str_eqb_spec a c) as [->|]; [|exact H3].
    rewrite parts_lt_irrefl in H3. discriminate.
  - intros a b Hne. unfold extra_lt.
    destruct (str_eqb_spec a b); [contradiction|]. destruct (str_eqb_spec b a) as [->|]; [contradiction|].
    apply parts_lt_total; try apply split_on_nonempty.
    intros H. apply Hne. eapply split_on_inj; eauto.
Qed.

(* pre-release field: the empty one (a release) is greatest *)
Definition pre_lt (p q : str) : bool :=
  match p, q with
  | [], _ => false
  | _, [] => true
  | _, _ => extra_lt p q
  end.

Lemma sto_pre_lt : sto pre_lt.
Proof.
  pose proof sto_extra_lt as [Ei Et Etot].
  constructor.
  - intros [|x a]; [reflexivity|]. apply Ei.
  - intros [|x a] [|y b] [|z c]; unfold pre_lt; try discriminate; auto. apply Et.
  - intros [|x a] [|y b] Hne; unfold pre_lt.
    + congruence.
    + now right.
    + now left.
    + now apply Etot.
Qed.

(* ---------- versions: lexicographic on (major, minor, patch, pre) ---------- *)
Definition vkey (v : version) := (vmaj v, vmin v, vpat v, vpre v).

Lemma vlt_unfold v o :
  vlt v o =
  if negb (N.eqb (vmaj v) (vmaj o)) then N.ltb (vmaj v) (vmaj o)
  else if negb (N.eqb (vmin v) (vmin o)) then N.ltb (vmin v) (vmin o)
  else if negb (N.eqb (vpat v) (vpat o)) then N.ltb (vpat v) (vpat o)
  else pre_lt (vpre v) (vpre o).
Proof.
  unfold vlt, pre_lt.
  destruct (N.eqb (vmaj v) (vmaj o)); [|reflexivity].
  destruct (N.eqb (vmin v) (vmin o)); [|reflexivity].
  destruct (N.eqb (vpat v) (vpat o)); [|reflexivity]. cbn [negb].
  destruct (str_eqb_spec (vpre v) (vpre o)) as [E|E]; cbn [negb]; [|reflexivity].
  rewrite E. destruct (vpre o); [reflexivity|]. symmetry. apply (sto_irrefl _ sto_extra_lt).
Qed.

Lemma vgt_vlt v o : vgt v o = vlt o v.
Proof.
  rewrite vlt_unfold. unfold vgt, pre_lt.
  rewrite (N.eqb_sym (vmaj o)), (N.eqb_sym (vmin o)), (N.eqb_sym (vpat o)).
  destruct (N.eqb (vmaj v) (vmaj o)); [|reflexivity].
  destruct (N.eqb (vmin v) (vmin o)); [|reflexivity].
  destruct (N.eqb (vpat v) (vpat o)); [|reflexivity]. cbn [negb].
  destruct (str_eqb_spec (vpre v) (vpre o)) as [E|E]; cbn [negb].
  - rewrite E. destruct (vpre o); [reflexivity|]. symmetry. apply (sto_irrefl _ sto_extra_lt).
  - destruct (vpre v) as [|x a] eqn:Ev, (vpre o) as [|y b] eqn:Eo; try reflexivity; [congruence|].
    pose proof sto_extra_lt as S.
    destruct (sto_total _ S (x :: a) (y :: b) E) as [H|H].
    + rewrite H. cbn. symmetry. now apply (sto_asym _ S).
    + rewrite H. rewrite (sto_asym _ S _ _ H). reflexivity.
Qed.

Lemma same_spec a b : same a b = true <-> vkey a = vkey b.
Proof.
  unfold same, vkey. rewrite !andb_true_iff, !N.eqb_eq, str_eqb_eq. split.
  - intros [[[-> ->] ->] ->]. reflexivity.
  - intros [= -> -> -> ->]. auto.
Qed.

Lemma vlt_irrefl a : vlt a a = false.
Proof.
  rewrite vlt_unfold, !N.eqb_refl. cbn. apply (sto_irrefl _ sto_pre_lt).
Qed.

Lemma vlt_trans a b c : vlt a b = true -> vlt b c = true -> vlt a c = true.
Proof.
  rewrite !vlt_unfold. pose proof sto_pre_lt as [Pi Pt Ptot].
  destruct (N.eqb_spec (vmaj a) (vmaj b)) as [E1|N1], (N.eqb_spec (vmaj b) (vmaj c)) as [E1'|N1'];
    cbn [negb]; rewrite ?N.ltb_lt.
  2:{ rewrite E1. destruct (N.eqb_spec (vmaj b) (vmaj c)); [contradiction|]. cbn. now rewrite N.ltb_lt. }
  2:{ rewrite <- E1'. destruct (N.eqb_spec (vmaj a) (vmaj b)); [contradiction|]. cbn. rewrite N.ltb_lt. auto. }
  2:{ intros H1 H2. destruct (N.eqb_spec (vmaj a) (vmaj c)); cbn; [lia|rewrite N.ltb_lt; lia]. }
  rewrite <- E1', <- E1, N.eqb_refl. cbn [negb].
  destruct (N.eqb_spec (vmin a) (vmin b)) as [E2|N2], (N.eqb_spec (vmin b) (vmin c)) as [E2'|N2'];
    cbn [negb]; rewrite ?N.ltb_lt.
  2:{ rewrite E2. destruct (N.eqb_spec (vmin b) (vmin c)); [contradiction|]. cbn. now rewrite N.ltb_lt. }
  2:{ rewrite <- E2'. destruct (N.eqb_spec (vmin a) (vmin b)); [contradiction|]. cbn. rewrite N.ltb_lt. auto. }
  2:{ intros H1 H2. destruct (N.eqb_spec (vmin a) (vmin c)); cbn; [lia|rewrite N.ltb_lt; lia]. }
  rewrite <- E2', <- E2, N.eqb_refl. cbn [negb].
  destruct (N.eqb_spec (vpat a) (vpat b)) as [E3|N3], (N.eqb_spec (vpat b) (vpat c)) as [E3'|N3'];
    cbn [negb]; rewrite ?N.ltb_lt.
  2:{ rewrite E3. destruct (N.eqb_spec (vpat b) (vpat c)); [contradiction|]. cbn. now rewrite N.ltb_lt. }
  2:{ rewrite <- E3'. destruct (N.eqb_spec (vpat a) (vpat b)); [contradiction|]. cbn. rewrite N.ltb_lt. auto. }
  2:{ intros H1 H2. destruct (N.eqb_spec (vpat a) (vpat c)); cbn; [lia|rewrite N.ltb_lt; lia]. }
  rewrite <- E3', <- E3, N.eqb_refl. cbn [negb]. apply Pt.
Qed.

Lemma vlt_total a b : same a b = false -> vlt a b = true \/ vlt b a = true.
Proof.
  intros Hs. rewrite !vlt_unfold. pose proof sto_pre_lt as [Pi Pt Ptot].
  rewrite (N.eqb_sym (vmaj b)), (N.eqb_sym (vmin b)), (N.eqb_sym (vpat b)).
  unfold same in Hs.
  destruct (N.eqb_spec (vmaj a) (vmaj b)) as [E1|N1]; cbn [negb]; [|rewrite !N.ltb_lt; lia].
  destruct (N.eqb_spec (vmin a) (vmin b)) as [E2|N2]; cbn [negb]; [|rewrite !N.ltb_lt; lia].
  destruct (N.eqb_spec (vpat a) (vpat b)) as [E3|N3]; cbn [negb]; [|rewrite !N.ltb_lt; lia].
  cbn in Hs. apply str_eqb_neq in Hs. now apply Ptot.
Qed.

Lemma vlt_same_l a a' b : same a a' = true -> vlt a b = vlt a' b.
Proof. intros H%same_spec. rewrite !vlt_unfold. unfold vkey in H. injection H as -> -> -> ->. reflexivity. Qed.
Lemma vlt_same_r a b b' : same b b' = true -> vlt a b = vlt a b'.
Proof. intros H%same_spec. rewrite !vlt_unfold. unfold vkey in H. injection H as -> -> -> ->. reflexivity. Qed.

Lemma vlt_asym a b : vlt a b = true -> vlt b a = false.
Proof.
  intros H. destruct (vlt b a) eqn:E; [|reflexivity].
  pose proof (vlt_trans _ _ _ H E) as H2. rewrite vlt_irrefl in H2. discriminate.
Qed.

Lemma same_refl a : same a a = true.
Proof. apply same_spec. reflexivity. Qed.

Lemma not_lt_both_same a b : vlt a b = false -> vlt b a = false -> same a b = true.
Proof.
  intros H1 H2. destruct (same a b) eqn:E; [reflexivity|].
  destruct (vlt_total a b E); congruence.
Qed.

(* negative transitivity: a <= b (not b < a) and b < c give a < c *)
Lemma vle_lt_trans a b c : vlt b a = false -> vlt b c = true -> vlt a c = true.
Proof.
  intros H1 H2. destruct (vlt a b) eqn:E; [eapply vlt_trans; eauto|].
  pose proof (not_lt_both_same _ _ E H1) as Hs. now rewrite (vlt_same_l a b c Hs).
Qed.

(* ---------- NewestInSet picks a maximum of the allowed offered versions ---------- *)
Section Newest.
  Variable allowed : version -> bool.

  Definition scan (l : list version) (ret : option version) : option version :=
    fold_left (fun ret v => allowed_step allowed v ret) l ret.

  Lemma scan_cons v l ret : scan (v :: l) ret = scan l (allowed_step allowed v ret).
  Proof. reflexivity. Qed.

  (* "ret is below v", with "none yet" below everything *)
  Definition below (ret : option version) (v : version) : bool :=
    match ret with None => true | Some r => vlt r v end.

  Lemma step_cases v ret :
    (allowed_step allowed v ret = Some v /\ below ret v = true /\ allowed v = true) \/
    (allowed_step allowed v ret = ret /\ (below ret v = false \/ allowed v = false)).
  Proof.
    unfold allowed_step, below. destruct ret as [r|]; [rewrite vgt_vlt|];
      destruct (allowed v); cbn; try destruct (vlt r v); cbn; auto.
  Qed.

  (* invariant of the scan: once there is a value there is one, and it never decreases *)
  Lemma scan_some l : forall r, exists r', scan l (Some r) = Some r' /\ vlt r' r = false.
  Proof.
    induction l as [|v l IH]; intros r; [exists r; split; [reflexivity|apply vlt_irrefl]|].
    rewrite scan_cons.
    destruct (step_cases v (Some r)) as [(-> & E & _)|(-> & _)]; [|apply IH].
    cbn [below] in E. destruct (IH v) as (r' & Hs & Hge). exists r'. split; [exact Hs|].
    destruct (vlt r' r) eqn:E2; [|reflexivity].
    pose proof (vlt_trans _ _ _ E2 E) as H. congruence.
  Qed.

  Lemma scan_max l : forall ret w, In w l -> allowed w = true ->
    exists r', scan l ret = Some r' /\ vlt r' w = false.
  Proof.
    induction l as [|v l IH]; intros ret w Hin Hw; [contradiction|].
    rewrite scan_cons. destruct Hin as [<-|Hin]; [|now apply IH].
    destruct (step_cases v ret) as [(-> & E & _)|(-> & [E|E])]; [apply scan_some| |congruence].
    destruct ret as [r|]; [|discriminate]. cbn [below] in E.
    destruct (scan_some l r) as (r' & Hs & Hge). exists r'. split; [exact Hs|].
    destruct (vlt r' v) eqn:E2; [|reflexivity].
    pose proof (vle_lt_trans _ _ _ Hge E2). congruence.
  Qed.

  Lemma scan_result l : forall ret r', scan l ret = Some r' ->
    ret = Some r' \/ (In r' l /\ allowed r' = true).
  Proof.
    induction l as [|v l IH]; intros ret r' H; [now left|].
    rewrite scan_cons in H.
    destruct (step_cases v ret) as [(E0 & E1 & E2)|(E0 & _)]; rewrite E0 in H.
    - right. destruct (IH _ _ H) as [[= <-]|(Hin & Ha)]; [split; [now left|exact E2]|split; [now right|exact Ha]].
    - destruct (IH _ _ H) as [->|(Hin & Ha)]; [now left|right; split; [now right|exact Ha]].
  Qed.
End Newest.

Lemma insert_stable_perm x l : Permutation (x :: l) (insert_stable x l).
Proof.
  induction l as [|y l IH]; cbn; [apply Permutation_refl|].
  destruct (vlt y x); [|apply Permutation_refl].
  eapply perm_trans; [apply perm_swap|]. now apply perm_skip.
Qed.

Lemma sort_versions_perm l : Permutation l (sort_versions l).
Proof.
  induction l as [|x l IH]; cbn; [constructor|].
  eapply perm_trans; [|apply insert_stable_perm]. now constructor.
Qed.

Lemma sort_versions_In l v : In v (sort_versions l) <-> In v l.
Proof.
  split; apply Permutation_in;
    [apply Permutation_sym|]; apply sort_versions_perm.
Qed.

Lemma version_eqb_spec a b : version_eqb a b = true <-> a = b.
Proof.
  unfold version_eqb. rewrite !andb_true_iff, !N.eqb_eq, !str_eqb_eq.
  destruct a, b; cbn. split; [intros [[[[-> ->] ->] ->] ->]; reflexivity|intros [= -> -> -> -> ->]; auto].
Qed.

(* The selected version is offered, allowed, and no offered allowed version
   has higher precedence. *)
Theorem select_version_max offered allowed v :
  select_version offered allowed = Some v ->
  In v offered /\ allowed v = true /\
  forall w, In w offered -> allowed w = true -> vlt v w = false.
Proof.
  unfold select_version, newest_allowed.
  change (fold_left (fun ret v0 => allowed_step allowed v0 ret) (rev (sort_versions offered)) None)
    with (scan allowed (rev (sort_versions offered)) None).
  set (l := rev (sort_versions offered)). intros H.
  assert (Hl : forall w, In w l <-> In w offered).
  { intros w. unfold l. rewrite <- in_rev. apply sort_versions_In. }
  destruct (scan_result allowed l None v H) as [E|(Hin & Ha)]; [discriminate|].
  split; [now apply Hl|]. split; [exact Ha|].
  intros w Hw Haw. destruct (scan_max allowed l None w (proj2 (Hl w) Hw) Haw) as (r' & Hs & Hge).
  rewrite H in Hs. now injection Hs as <-.
Qed.

(* Completeness: if some offered version is allowed, one is selected - 0.0.0
   and its pre-releases included. *)
Theorem select_version_complete offered allowed w :
  In w offered -> allowed w = true ->
  exists v, select_version offered allowed = Some v.
Proof.
  intros Hin Ha. unfold select_version, newest_allowed.
  change (fold_left (fun ret v0 => allowed_step allowed v0 ret) (rev (sort_versions offered)) None)
    with (scan allowed (rev (sort_versions offered)) None).
  set (l := rev (sort_versions offered)).
  assert (Hl : In w l) by (unfold l; rewrite <- in_rev; now apply sort_versions_In).
  destruct (scan_max allowed l None w Hl Ha) as (r' & Hs & _). eauto.
Qed.

(* ... and conversely nothing is selected only if nothing offered is allowed *)
Theorem select_version_none offered allowed :
  select_version offered allowed = None -> forall w, In w offered -> allowed w = false.
Proof.
  intros H w Hin. destruct (allowed w) eqn:Ha; [|reflexivity].
  destruct (select_version_complete offered allowed w Hin Ha) as (v & Hv). congruence.
Qed.

(* Listing order does not matter, up to build metadata. *)
Theorem select_version_perm offered offered' allowed v v' :
  Permutation offered offered' ->
  select_version offered allowed = Some v -> select_version offered' allowed = Some v' ->
  same v v' = true.
Proof.
  intros Hp H1 H2.
  apply select_version_max in H1 as (Hin1 & Ha1 & Hmax1).
  apply select_version_max in H2 as (Hin2 & Ha2 & Hmax2).
  apply not_lt_both_same.
  - apply Hmax1; [|exact Ha2]. eapply Permutation_in; [apply Permutation_sym; eauto|exact Hin2].
  - apply Hmax2; [|exact Ha1]. eapply Permutation_in; eauto.
Qed.

Theorem select_version_perm_some offered offered' allowed v :
  Permutation offered offered' ->
  select_version offered allowed = Some v -> exists v', select_version offered' allowed = Some v'.
Proof.
  intros Hp H1. apply select_version_max in H1 as (Hin1 & Ha1 & _).
  apply (select_version_complete offered' allowed v); [eapply Permutation_in; eauto|exact Ha1].
Qed.

(* An exact allowed set selects exactly that version (AddFinalRegistrySource). *)
Theorem select_version_exact offered x v :
  select_version offered (fun w => same w x) = Some v -> same v x = true.
Proof. intros H. now apply select_version_max in H as (_ & Ha & _). Qed.
