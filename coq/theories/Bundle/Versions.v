(* go-versions: Version precedence (LessThan / GreaterThan / Same), stable
   sort, List.NewestInSet.  Third-party code restated (validated by the
   "versions" correspondence stream); the selection logic built on it in
   sourcebundle/builder.go is modelled in Bundle/Builder.v. *)
From Slug Require Import Base.Str.

Record version := mkV { vmaj : N; vmin : N; vpat : N; vpre : str; vmeta : str }.

Definition unspecified : version := mkV 0 0 0 [] [].

Definition version_eqb (a b : version) : bool :=
  N.eqb (vmaj a) (vmaj b) && N.eqb (vmin a) (vmin b) && N.eqb (vpat a) (vpat b)
  && str_eqb (vpre a) (vpre b) && str_eqb (vmeta a) (vmeta b).

(* Version.Same: equal up to build metadata *)
Definition same (a b : version) : bool :=
  N.eqb (vmaj a) (vmaj b) && N.eqb (vmin a) (vmin b) && N.eqb (vpat a) (vpat b)
  && str_eqb (vpre a) (vpre b).

Definition is_digit (c : ascii) : bool :=
  let n := N_of_ascii c in N.leb 48 n && N.leb n 57.
Definition numeric (s : str) : bool := forallb is_digit s.

(* lessThanStr *)
Definition lt_str (s1 s2 : str) : bool :=
  match numeric s1, numeric s2 with
  | true, false => true
  | false, true => false
  | true, true =>
      if Nat.ltb (length s1) (length s2) then true
      else if Nat.ltb (length s2) (length s1) then false
      else str_ltb s1 s2
  | false, false => str_ltb s1 s2
  end.

(* VersionExtra.LessThan on the dot-separated parts *)
Fixpoint parts_lt (p1 p2 : list str) : bool :=
  match p1, p2 with
  | [_], _ :: _ :: _ => true
  | _ :: _ :: _, [_] => false
  | [a], [b] => lt_str a b
  | a :: r1, b :: r2 => if str_eqb a b then parts_lt r1 r2 else lt_str a b
  | _, _ => false
  end.

Definition dotc : ascii := "."%char.
Definition extra_lt (e o : str) : bool :=
  if str_eqb e o then false else parts_lt (split_on dotc e) (split_on dotc o).

(* Version.LessThan *)
Definition vlt (v o : version) : bool :=
  if negb (N.eqb (vmaj v) (vmaj o)) then N.ltb (vmaj v) (vmaj o)
  else if negb (N.eqb (vmin v) (vmin o)) then N.ltb (vmin v) (vmin o)
  else if negb (N.eqb (vpat v) (vpat o)) then N.ltb (vpat v) (vpat o)
  else if negb (str_eqb (vpre v) (vpre o)) then
    match vpre v, vpre o with
    | [], _ => false
    | _, [] => true
    | _, _ => extra_lt (vpre v) (vpre o)
    end
  else false.

(* Version.GreaterThan *)
Definition vgt (v o : version) : bool :=
  if negb (N.eqb (vmaj v) (vmaj o)) then N.ltb (vmaj o) (vmaj v)
  else if negb (N.eqb (vmin v) (vmin o)) then N.ltb (vmin o) (vmin v)
  else if negb (N.eqb (vpat v) (vpat o)) then N.ltb (vpat o) (vpat v)
  else if negb (str_eqb (vpre v) (vpre o)) then
    match vpre v, vpre o with
    | [], _ => true
    | _, [] => false
    | _, _ => negb (extra_lt (vpre v) (vpre o))
    end
  else false.

(* sort.Stable(List): stable insertion sort by LessThan *)
Fixpoint insert_stable (x : version) (l : list version) : list version :=
  match l with
  | [] => [x]
  | y :: r => if vlt y x then y :: insert_stable x r else x :: l
  end.
Definition sort_versions (l : list version) : list version :=
  fold_right (fun x acc => insert_stable x acc) [] l.
(* (elements are inserted from the right; a new one goes before the first
   element that is not strictly smaller, which keeps equal elements in their
   original order) *)

(* List.NewestInSet: scan from the end, keep the strictly greater allowed one *)
Definition newest_step (allowed : version -> bool) (v : version) (ret : version) : version :=
  if vgt v ret && allowed v then v else ret.
Definition newest_in_set' (l : list version) (allowed : version -> bool) : version :=
  fold_left (fun ret v => newest_step allowed v ret) (rev l) unspecified.

(* builder.go newestAllowedVersion: the same scan, but "none yet" is not a version *)
Definition allowed_step (allowed : version -> bool) (v : version) (ret : option version) : option version :=
  if (match ret with None => true | Some r => vgt v r end) && allowed v then Some v else ret.
Definition newest_allowed (l : list version) (allowed : version -> bool) : option version :=
  fold_left (fun ret v => allowed_step allowed v ret) (rev l) None.

(* builder.go extractVersionListFromResponse + newestAllowedVersion *)
Definition select_version (offered : list version) (allowed : version -> bool) : option version :=
  newest_allowed (sort_versions offered) allowed.
