(* Model of the package preparation of sourcebundle.Builder (what happens to
   a freshly fetched package directory W before it is given its final name):
   LoadPackageIgnoreRules, the filepath.Walk with packagePrepareWalkFn
   (ignore-driven removal; validation of every remaining entry by physical
   resolution, containment in W and file kind), and the reading of every
   remaining non-directory by dirhash.HashDir.  The file system is FS/FS.v
   (root = the root of the process); the builder runs as root. *)
From Slug Require Import Base.Str Base.PathAlg FS.FS Ignore.Rules Slug.Unpack Slug.Pack.

(* os.RemoveAll on a physical path: the entry and everything below it disappears;
   a path that does not exist is not an error *)
Fixpoint del (n : node) (p : path) {struct p} : node :=
  match p with
  | [] => n
  | x :: r =>
      match n with
      | Dir pm mt ks =>
          match r with
          | [] => Dir pm None (filter (fun kv => negb (str_eqb (fst kv) x)) ks)
          | _ => Dir pm mt (map (fun kv => if str_eqb (fst kv) x then (fst kv, del (snd kv) r) else kv) ks)
          end
      | _ => n
      end
  end.

Fixpoint is_prefix (a b : list str) : bool :=
  match a, b with
  | [], _ => true
  | x :: a', y :: b' => str_eqb x y &&& is_prefix a' b'
  | _ :: _, [] => false
  end.

Definition is_file (n : node) : bool := match n with File _ _ _ => true | _ => false end.

Section Prepare.
Variable rules : list rule.
Variable W : list str.     (* the physical path of the package's working directory *)

(* the second half of packagePrepareWalkFn: EvalSymlinks, IsLocal(Rel(root, real)), Lstat(real) *)
Definition validate (fs : node) (rel : list str) : bool :=
  match resolve fs true (W ++ rel) with
  | Ok ph => match get fs ph with
             | Some n => is_prefix W ph &&& (is_file n ||| is_dir n)
             | None => false
             end
  | Err _ => false
  end.

(* a link must stay inside the package by its own text as well: not absolute, and
   filepath.IsLocal(filepath.Join(filepath.Dir(relPath), target)) *)
Definition link_text_ok (rel : list str) (n : node) : bool :=
  match n with
  | Link t =>
      negb (is_rooted t) &&&
      is_local (match removelast rel with
                | [] => clean t
                | d => clean (join_rel d ++ slash :: t)
                end)
  | _ => true
  end.

Inductive fnres := FnOk (fs : node) | FnSkip (fs : node) | FnErr.

Definition entry_fn (fs : node) (rel : list str) (n : node) : fnres :=
  let p := join_rel rel in
  if fst (excludes rules p) then FnOk (del fs (W ++ rel))
  else if is_dir n &&& fst (excludes rules (p ++ [slash])) then FnSkip (del fs (W ++ rel))
  else if link_text_ok rel n &&& validate fs rel then FnOk fs else FnErr.

Inductive wres := WFail | WFuel | WDone (fs : node).

(* filepath.Walk below W: the names of a directory are read before the walk
   function sees the directory; every name is then Lstat-ed (a name that has
   disappeared meanwhile is an error the walk function returns) *)
Fixpoint pwalk (fuel : nat) (fs : node) (rel : list str) {struct fuel} : wres :=
  match fuel with
  | O => WFuel
  | S fuel' =>
      match get fs (W ++ rel) with
      | None => WFail
      | Some n =>
          let r := match rel with [] => FnOk fs | _ => entry_fn fs rel n end in
          match r with
          | FnErr => WFail
          | FnSkip fs' => WDone fs'
          | FnOk fs' =>
              if is_dir n then
                fold_left (fun acc name =>
                             match acc with
                             | WDone f => pwalk fuel' f (rel ++ [name])
                             | other => other
                             end) (readdir n) (WDone fs')
              else WDone fs'
          end
      end
  end.

(* dirhash.HashDir: every non-directory below W is opened (following links) and read;
   names containing a newline are refused *)
Fixpoint hash_ok (fuel : nat) (fs : node) (p : list str) (n : node) {struct fuel} : bool :=
  match fuel with
  | O => false
  | S fuel' =>
      match n with
      | Dir _ _ ks =>
          forallb (fun name => match kid name ks with
                               | Some c => negb (mem_char (ch 10) name) &&& hash_ok fuel' fs (p ++ [name]) c
                               | None => true
                               end) (readdir n)
      | _ => match read_file fs p with Some _ => true | None => false end
      end
  end.

Definition prepare (fuel : nat) (fs : node) : wres :=
  match pwalk fuel fs [] with
  | WDone fs' =>
      match get fs' W with
      | Some n => if hash_ok fuel fs' W n then WDone fs' else WFail
      | None => WFail
      end
  | other => other
  end.
End Prepare.

(* LoadPackageIgnoreRules(W): the package's own rule file, else the default rules;
   None = the rule file cannot be read (it is a directory, or a link leading nowhere useful) *)
Definition load_rules (fs : node) (W : list str) (flags : list bool) : option (list rule) :=
  match resolve fs true (W ++ [dotti]) with
  | Ok ph =>
      match get fs ph with
      | Some (File d _ _) => match fst (read_rules flags d) with POk rs => Some rs | PPanic => None end
      | Some _ => None
      | None => Some (default_rules flags)
      end
  | Err ENOENT => Some (default_rules flags)
  | Err _ => None
  end.

Definition prepare_package (fuel : nat) (fs : node) (W : list str) (flags : list bool) : wres :=
  match load_rules fs W flags with
  | None => WFail
  | Some rs => prepare rs W fuel fs
  end.
