(* Model of sourcebundle.Builder: the work-list state machine of
   AddRemoteSource / AddRegistrySource / AddFinalRegistrySource /
   resolvePending / findRegistryPackageSource / ensureRemotePackage / Close,
   driven by a scripted world (what fetcher, registry client and dependency
   finders return).  Package addresses are their printed strings; a package's
   prepared content is an abstract identity [content] (the directory name the
   real builder derives from the content hash). *)
From Slug Require Import Base.Str Base.PathAlg Addr.Resolve Bundle.Versions.

Definition pkg := str.        (* remote package address, printed *)
Definition rpkg := str.       (* registry package address, printed *)
Definition finder := N.       (* identity of a DependencyFinder value *)
Definition content := N.      (* identity of a prepared package tree *)
Definition setid := N.        (* identity of an allowed-versions set *)

Definition rsrc := (pkg * str)%type.                 (* remote source: package, sub-path *)
Definition rart := (rsrc * finder)%type.             (* remoteArtifact *)
Definition gart := ((rpkg * str) * setid * finder)%type.   (* registryArtifact *)

Inductive dep :=
| DRemote (s : rsrc) (f : finder)
| DRegistry (p : rpkg) (sub : str) (allowed : setid) (f : finder)
| DLocal (rel : str) (f : finder).

Inductive sev := SevError | SevWarning.
Record diag := mkDiag { d_sev : sev; d_summary : str; d_file : option str }.

Definition depr := (str * str)%type.  (* reason, link *)

Record world := {
  (* FetchSourcePackage + preparation + hashing: None = the package cannot be installed *)
  w_fetch : pkg -> option (content * option (str * str));
  (* ModulePackageVersions *)
  w_versions : rpkg -> option (list (version * option depr));
  (* ModulePackageSourceAddr *)
  w_source : rpkg -> version -> option rsrc;
  (* FindDependencies on the prepared content at a sub-path *)
  w_deps : content -> str -> finder -> list dep * list diag;
  (* versions.Set.Has as truth tables *)
  w_allowed : setid -> version -> bool;
}.

Inductive call :=
| CFetch (p : pkg)
| CVersions (p : rpkg)
| CSource (p : rpkg) (v : version)
| CAnalyze (a : rart).

Inductive event :=
| EVersionsStart (p : rpkg) | EVersionsSuccess (p : rpkg) | EVersionsFailure (p : rpkg) | EVersionsAlready (p : rpkg)
| ESourceStart (p : rpkg) (v : version) | ESourceSuccess (p : rpkg) (v : version)
| ESourceFailure (p : rpkg) (v : version) | ESourceAlready (p : rpkg) (v : version)
| EDownloadStart (p : pkg) | EDownloadSuccess (p : pkg) | EDownloadFailure (p : pkg) | EDownloadAlready (p : pkg)
| EDiagnostics (n : nat).

Record bstate := {
  pend_remote : list rart;      (* head = last appended (the Go slice's end) *)
  pend_registry : list gart;
  analyzed : list rart;
  dirs : list (pkg * content);
  metas : list (pkg * (str * str));
  resolved : list ((rpkg * version) * rsrc);
  deprec : list ((rpkg * version) * option depr);
  vcache : list (rpkg * list (version * option depr));
  closed : bool;                (* targetDir == "" *)
  calls : list call;            (* newest first *)
  trace : list event;           (* newest first *)
}.

Definition init_state : bstate :=
  {| pend_remote := []; pend_registry := []; analyzed := []; dirs := []; metas := [];
     resolved := []; deprec := []; vcache := []; closed := false; calls := []; trace := [] |}.

(* ---------- equality tests and association lists ---------- *)
Definition rsrc_eqb (a b : rsrc) : bool := str_eqb (fst a) (fst b) && str_eqb (snd a) (snd b).
Definition rart_eqb (a b : rart) : bool := rsrc_eqb (fst a) (fst b) && N.eqb (snd a) (snd b).
Definition pv_eqb (a b : rpkg * version) : bool := str_eqb (fst a) (fst b) && version_eqb (snd a) (snd b).

Fixpoint assoc {K V} (eqb : K -> K -> bool) (k : K) (l : list (K * V)) : option V :=
  match l with
  | [] => None
  | (k', v) :: r => if eqb k k' then Some v else assoc eqb k r
  end.

Definition mem {K} (eqb : K -> K -> bool) (k : K) (l : list K) : bool := existsb (eqb k) l.

(* ---------- state updates ---------- *)
Definition set_pend_remote (st : bstate) (x : list rart) : bstate :=
  {| pend_remote := x; pend_registry := pend_registry st; analyzed := analyzed st; dirs := dirs st;
     metas := metas st; resolved := resolved st; deprec := deprec st; vcache := vcache st;
     closed := closed st; calls := calls st; trace := trace st |}.
Definition set_pend_registry (st : bstate) (x : list gart) : bstate :=
  {| pend_remote := pend_remote st; pend_registry := x; analyzed := analyzed st; dirs := dirs st;
     metas := metas st; resolved := resolved st; deprec := deprec st; vcache := vcache st;
     closed := closed st; calls := calls st; trace := trace st |}.
Definition add_analyzed (st : bstate) (a : rart) : bstate :=
  {| pend_remote := pend_remote st; pend_registry := pend_registry st; analyzed := a :: analyzed st; dirs := dirs st;
     metas := metas st; resolved := resolved st; deprec := deprec st; vcache := vcache st;
     closed := closed st; calls := CAnalyze a :: calls st; trace := trace st |}.
Definition log_ev (st : bstate) (e : event) : bstate :=
  {| pend_remote := pend_remote st; pend_registry := pend_registry st; analyzed := analyzed st; dirs := dirs st;
     metas := metas st; resolved := resolved st; deprec := deprec st; vcache := vcache st;
     closed := closed st; calls := calls st; trace := e :: trace st |}.
Definition log_call (st : bstate) (c : call) : bstate :=
  {| pend_remote := pend_remote st; pend_registry := pend_registry st; analyzed := analyzed st; dirs := dirs st;
     metas := metas st; resolved := resolved st; deprec := deprec st; vcache := vcache st;
     closed := closed st; calls := c :: calls st; trace := trace st |}.
Definition set_closed (st : bstate) : bstate :=
  {| pend_remote := pend_remote st; pend_registry := pend_registry st; analyzed := analyzed st; dirs := dirs st;
     metas := metas st; resolved := resolved st; deprec := deprec st; vcache := vcache st;
     closed := true; calls := calls st; trace := trace st |}.
Definition add_dir (st : bstate) (p : pkg) (c : content) (m : option (str * str)) : bstate :=
  {| pend_remote := pend_remote st; pend_registry := pend_registry st; analyzed := analyzed st;
     dirs := (p, c) :: dirs st;
     metas := match m with Some x => (p, x) :: metas st | None => metas st end;
     resolved := resolved st; deprec := deprec st; vcache := vcache st;
     closed := closed st; calls := calls st; trace := trace st |}.
Definition add_meta (st : bstate) (p : pkg) (m : option (str * str)) : bstate :=
  {| pend_remote := pend_remote st; pend_registry := pend_registry st; analyzed := analyzed st;
     dirs := dirs st;
     metas := match m with Some x => (p, x) :: metas st | None => metas st end;
     resolved := resolved st; deprec := deprec st; vcache := vcache st;
     closed := closed st; calls := calls st; trace := trace st |}.
Definition add_vcache (st : bstate) (p : rpkg) (vs : list (version * option depr)) : bstate :=
  {| pend_remote := pend_remote st; pend_registry := pend_registry st; analyzed := analyzed st; dirs := dirs st;
     metas := metas st; resolved := resolved st; deprec := deprec st; vcache := (p, vs) :: vcache st;
     closed := closed st; calls := calls st; trace := trace st |}.
Definition add_resolved (st : bstate) (k : rpkg * version) (s : rsrc) (d : option depr) : bstate :=
  {| pend_remote := pend_remote st; pend_registry := pend_registry st; analyzed := analyzed st; dirs := dirs st;
     metas := metas st; resolved := (k, s) :: resolved st; deprec := (k, d) :: deprec st; vcache := vcache st;
     closed := closed st; calls := calls st; trace := trace st |}.

(* ---------- findRegistryPackageSource ---------- *)
(* deprecation of the first listed entry that is exactly the selected version *)
Fixpoint first_same (v : version) (l : list (version * option depr)) : option depr :=
  match l with
  | [] => None
  | (v', d) :: r => if version_eqb v v' then d else first_same v r
  end.

Definition find_registry_source (w : world) (st : bstate) (p : rpkg) (sub : str) (sid : setid)
  : bstate * option rsrc :=
  (* available versions: cached or requested *)
  let '(st, infos) :=
    match assoc str_eqb p (vcache st) with
    | Some infos => (log_ev st (EVersionsAlready p), Some infos)
    | None =>
        let st := log_call (log_ev st (EVersionsStart p)) (CVersions p) in
        match w_versions w p with
        | None => (log_ev st (EVersionsFailure p), None)
        | Some infos => (log_ev (add_vcache st p infos) (EVersionsSuccess p), Some infos)
        end
    end in
  match infos with
  | None => (st, None)
  | Some infos =>
      match select_version (map fst infos) (w_allowed w sid) with
      | None => (st, None)
      | Some v =>
          let '(st, real) :=
            match assoc pv_eqb (p, v) (resolved st) with
            | Some real => (log_ev st (ESourceAlready p v), Some real)
            | None =>
                let st := log_call (log_ev st (ESourceStart p v)) (CSource p v) in
                match w_source w p v with
                | None => (log_ev st (ESourceFailure p v), None)
                | Some real =>
                    (log_ev (add_resolved st (p, v) real (first_same v infos)) (ESourceSuccess p v), Some real)
                end
            end in
          match real with
          | None => (st, None)
          | Some (rp, rsub) =>
              match final_source_addr sub rp rsub with
              | Remote fp fsub => (st, Some (fp, fsub))
              | _ => (st, None) (* unreachable: final_source_addr always builds a Remote *)
              end
          end
      end
  end.

(* ---------- ensureRemotePackage ---------- *)
Definition ensure_remote_package (w : world) (st : bstate) (p : pkg) : bstate * option content :=
  match assoc str_eqb p (dirs st) with
  | Some c => (log_ev st (EDownloadAlready p), Some c)
  | None =>
      let st := log_call (log_ev st (EDownloadStart p)) (CFetch p) in
      match w_fetch w p with
      | None => (log_ev st (EDownloadFailure p), None)
      | Some (c, m) => (log_ev (add_dir st p c m) (EDownloadSuccess p), Some c)
      end
  end.

(* ---------- analysis of one artifact: Dependencies callbacks ---------- *)
Definition err_registry : diag := mkDiag SevError (s2l "Cannot resolve module registry package") None.
Definition err_install : diag := mkDiag SevError (s2l "Cannot install source package") None.
Definition err_relative : diag := mkDiag SevError (s2l "Invalid relative source address") None.

(* RemotePackage.SourceAddr(sub).String() at string level: the sub-path goes
   before the query string *)
Definition qmark : ascii := "?"%char.
Fixpoint cut_at (c : ascii) (s : str) : str * option str :=
  match s with
  | [] => ([], None)
  | x :: r => if Ascii.eqb x c then ([], Some r)
              else let '(a, b) := cut_at c r in (x :: a, b)
  end.
Definition sub_path_string (p : pkg) (sub : str) : str :=
  match sub with
  | [] => p
  | _ => match cut_at qmark p with
         | (a, Some q) => a ++ [slash; slash] ++ sub ++ qmark :: q
         | (a, None) => a ++ [slash; slash] ++ sub
         end
  end.

(* Diagnostics.inRemoteSourcePackage: file names that are valid sub-paths are
   rewritten as source addresses inside the analysed package *)
Definition in_remote_source_package (p : pkg) (d : diag) : diag :=
  match d_file d with
  | Some f => match normalize_subpath f with
              | Some n => mkDiag (d_sev d) (d_summary d) (Some (sub_path_string p n))
              | None => d
              end
  | None => d
  end.

Definition push_dep (base : rsrc) (acc : bstate * list diag) (d : dep) : bstate * list diag :=
  let '(st, ds) := acc in
  match d with
  | DRemote s f => (set_pend_remote st ((s, f) :: pend_remote st), ds)
  | DRegistry p sub sid f => (set_pend_registry st ((p, sub, sid, f) :: pend_registry st), ds)
  | DLocal rel f =>
      match join_sub_path (snd base) rel with
      | Some n => (set_pend_remote st (((fst base, n), f) :: pend_remote st), ds)
      | None => (st, ds ++ [err_relative])
      end
  end.

Definition has_errors (ds : list diag) : bool :=
  existsb (fun d => match d_sev d with SevError => true | SevWarning => false end) ds.

(* one iteration of the queue-draining loops.
   phase = true: the inner registry loop; false: the inner remote loop. *)
Inductive step_result :=
| Done (st : bstate) (ds : list diag)
| Next (phase : bool) (st : bstate) (ds : list diag).

Definition step (w : world) (phase : bool) (st : bstate) (ds : list diag) : step_result :=
  if phase then
    match pend_registry st with
    | [] => Next false st ds
    | (p, sub, sid, f) :: remain =>
        let st := set_pend_registry st remain in
        match find_registry_source w st p sub sid with
        | (st, None) => Next true st (ds ++ [err_registry])
        | (st, Some real) => Next true (set_pend_remote st ((real, f) :: pend_remote st)) ds
        end
    end
  else
    match pend_remote st with
    | [] => match pend_registry st with [] => Done st ds | _ => Next true st ds end
    | (src, f) :: remain =>
        let st := set_pend_remote st remain in
        match ensure_remote_package w st (fst src) with
        | (st, None) => Next false st (ds ++ [err_install])
        | (st, Some c) =>
            if mem rart_eqb (src, f) (analyzed st) then Next false st ds
            else
              let '(deps, more) := w_deps w c (snd src) f in
              let '(st, ds) := fold_left (push_dep src) deps (st, ds) in
              let st := add_analyzed st (src, f) in
              let st := match more with [] => st | _ => log_ev st (EDiagnostics (length more)) end in
              Next false st (ds ++ map (in_remote_source_package (fst src)) more)
        end
    end.

Fixpoint drain (fuel : nat) (w : world) (phase : bool) (st : bstate) (ds : list diag)
  : option (bstate * list diag) :=
  match fuel with
  | O => None
  | S fuel' =>
      match step w phase st ds with
      | Done st ds => Some (st, ds)
      | Next ph st ds => drain fuel' w ph st ds
      end
  end.

(* resolvePending: drain, then poison on error *)
Definition resolve_pending (fuel : nat) (w : world) (st : bstate) : option (bstate * list diag) :=
  match drain fuel w true st [] with
  | None => None
  | Some (st, ds) => Some (if has_errors ds then set_closed st else st, ds)
  end.

(* ---------- the public operations ---------- *)
Inductive op :=
| AddRemote (s : rsrc) (f : finder)
| AddRegistry (p : rpkg) (sub : str) (allowed : setid) (f : finder)
| Close.

Inductive outcome :=
| ODiags (ds : list diag)
| ORefused            (* the Go code panics: builder closed or poisoned *)
| OClosed             (* Close succeeded: manifest written, bundle opened *)
| OOutOfFuel.

Definition apply_op (fuel : nat) (w : world) (st : bstate) (o : op) : bstate * outcome :=
  if closed st then (st, ORefused) else
  match o with
  | AddRemote s f =>
      if mem rart_eqb (s, f) (analyzed st) then (st, ODiags [])
      else match resolve_pending fuel w (set_pend_remote st ((s, f) :: pend_remote st)) with
           | None => (st, OOutOfFuel)
           | Some (st', ds) => (st', ODiags ds)
           end
  | AddRegistry p sub sid f =>
      match resolve_pending fuel w (set_pend_registry st ((p, sub, sid, f) :: pend_registry st)) with
      | None => (st, OOutOfFuel)
      | Some (st', ds) => (st', ODiags ds)
      end
  | Close => (set_closed st, OClosed)
  end.

Fixpoint run_ops (fuel : nat) (w : world) (st : bstate) (ops : list op) : bstate * list outcome :=
  match ops with
  | [] => (st, [])
  | o :: r =>
      let '(st', out) := apply_op fuel w st o in
      let '(st'', outs) := run_ops fuel w st' r in
      (st'', out :: outs)
  end.
