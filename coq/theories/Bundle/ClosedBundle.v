(* C08, end to end on the models: from the builder's final state, through the
   manifest that Close writes and OpenDir reads, to the lookups of the bundle
   the caller gets: every source that was added or discovered is looked up at
   <root>/<directory of its package's content>/<sub-path>. *)
From Slug Require Import Base.Str Base.PathAlg Addr.Resolve Addr.Url Addr.Parse
  Bundle.Versions Bundle.Builder Bundle.BuilderProofs Bundle.BuilderTrace
  Bundle.Lookup Bundle.LookupProofs Bundle.ManifestRT.

(* the package table never holds a package twice (whatever fails) *)
Definition dirs_nodup (st : bstate) : Prop := NoDup (map fst (dirs st)).

Lemma dirs_nodup_run w fuel ops st st' outs :
  dirs_nodup st -> run_ops fuel w st ops = (st', outs) -> dirs_nodup st'.
Proof.
  apply (lift_run w dirs_nodup); try (intros; assumption).
  - intros s p sub sid H. unfold dirs_nodup in *.
    now rewrite (proj2 (find_registry_source_fetch w s p sub sid)).
  - intros s p H. unfold dirs_nodup, ensure_remote_package in *.
    destruct (assoc str_eqb p (dirs s)) eqn:Ea; [exact H|].
    destruct (w_fetch w p) as [[c m]|]; [|exact H]. cbn.
    constructor; [now apply assoc_none_not_in|exact H].
Qed.

Section Glue.
(* what a package string of the builder's tables denotes, and the directory
   name made from a content identity (in the code: from the dirhash) *)
Variable vof : pkg -> Parse.rpkg.
Variable dname : content -> str.
Hypothesis Hdname : forall c, all_ascii (dname c) = true /\ local_dir_ok (dname c) = true.

Definition dir_table (st : bstate) : list (Parse.rpkg * str) :=
  map (fun pc => (vof (fst pc), dname (snd pc))) (dirs st).
Definition meta_table (st : bstate) : list (Parse.rpkg * (str * str)) :=
  map (fun pm => (vof (fst pm), snd pm)) (metas st).

Lemma assoc_in {V} p (l : list (str * V)) v : assoc str_eqb p l = Some v -> In (p, v) l.
Proof.
  induction l as [|[k x] l IH]; cbn; [discriminate|].
  destruct (str_eqb_spec p k) as [->|Hne]; [intros [= ->]; now left|intros H; right; now apply IH].
Qed.

Theorem closed_bundle_lookups fuel w ops st outs root regs reg depr :
  run_ops fuel w init_state ops = (st, outs) ->
  forallb ok_outcome outs = true ->
  (* the package strings are printed forms of address values (C06) *)
  (forall p, In p (map fst (dirs st)) -> parse_remote_pkg p = Ok (vof p) /\ rpkg_string (vof p) = p) ->
  (* the registry section, whatever it holds, loads *)
  load_registry regs [] [] = Ok (reg, depr) ->
  exists b,
    open_dir root (mkManifest 1 (write_packages (dir_table st) (meta_table st)) regs) = Ok b /\
    forall a, reach w (roots_of ops) (IRem a) ->
      exists c, assoc str_eqb (fst (fst a)) (dirs st) = Some c /\
                local_path_remote b (vof (fst (fst a))) (snd (fst a)) = Some (join3 root (dname c) (snd (fst a))).
Proof.
  intros Hr Hok Hp Hreg.
  destruct (build_is_closure fuel w ops st outs Hr Hok) as (Hdone & Hsound & Hdirs & _).
  assert (Hnd0 : dirs_nodup st) by (apply (dirs_nodup_run w fuel ops init_state st outs); [constructor|exact Hr]).
  (* the table is a map *)
  assert (Hinj : forall p q, In p (map fst (dirs st)) -> In q (map fst (dirs st)) -> vof p = vof q -> p = q).
  { intros p q Hpi Hqi E. destruct (Hp p Hpi) as [_ A], (Hp q Hqi) as [_ B]. rewrite <- A, <- B. now rewrite E. }
  assert (Hnd : NoDup (map fst (dir_table st))).
  { unfold dir_table. rewrite map_map. cbn [fst].
    unfold dirs_nodup in Hnd0. revert Hnd0 Hinj. generalize (dirs st). intros l.
    induction l as [|[p c] l IH]; intros Hn Hi; [constructor|].
    cbn [map fst] in *. inversion Hn as [|? ? Hni Hn']; subst. constructor.
    - intros Hin. apply in_map_iff in Hin as ([q c'] & E & Hin). cbn [fst] in E.
      assert (q = p) by (apply Hi; [right; apply in_map_iff; exists (q, c'); auto|now left|exact E]).
      subst q. apply Hni. apply in_map_iff. exists (p, c'). auto.
    - apply IH; [exact Hn'|]. intros a b Ha Hb. apply Hi; now right. }
  assert (Hrecords : forall p d, In (p, d) (dir_table st) ->
            all_ascii d = true /\ local_dir_ok d = true /\ parse_remote_pkg (rpkg_string p) = Ok p).
  { intros p d Hin. unfold dir_table in Hin. apply in_map_iff in Hin as ([q c] & E & Hin). cbn [fst snd] in E.
    injection E as <- <-. destruct (Hdname c) as [A B]. split; [exact A|]. split; [exact B|].
    destruct (Hp q) as [C D]; [apply in_map_iff; exists (q, c); auto|]. now rewrite D. }
  destruct (reopen_written (dir_table st) (meta_table st) Hnd Hrecords) as (dirs' & meta' & El & Hdl & _).
  exists (mkBundle root dirs' meta' reg depr). split.
  - unfold open_dir. cbn [m_format m_packages m_registry N.eqb Pos.eqb negb]. rewrite El. cbn [rbind]. rewrite Hreg. reflexivity.
  - intros a Hreach.
    assert (Han : In a (analyzed st)).
    { specialize (Hdone (IRem a) Hreach). exact Hdone. }
    destruct (Hdirs a Han) as (c & m & Hc & _). exists c. split; [exact Hc|].
    unfold local_path_remote. cbn [b_dirs b_root]. rewrite Hdl.
    rewrite (load_all_in rpkg_eqb rpkg_eqb_spec (dir_table st) [] (vof (fst (fst a))) (dname c) Hnd); [reflexivity|].
    unfold dir_table. apply in_map_iff. exists (fst (fst a), c). split; [reflexivity|now apply assoc_in].
Qed.
End Glue.
