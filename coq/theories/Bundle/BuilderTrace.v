(* C14, the remaining clauses: the registry is asked once per package for its
   version list and once per selected version for its source address; the
   trace is well bracketed (every 'start' is followed at once by exactly one
   matching success or failure) and an 'already' event is only emitted for
   work that succeeded earlier. *)
From Slug Require Import Base.Str Base.PathAlg Addr.Resolve Bundle.Versions Bundle.VersionsProofs
  Bundle.Builder Bundle.BuilderProofs.

(* ---------- lifting a state invariant through step / drain / run_ops ---------- *)
Section Lift.
Variable w : world.
Variable I : bstate -> Prop.
Hypothesis I_pr : forall st l, I st -> I (set_pend_remote st l).
Hypothesis I_pg : forall st l, I st -> I (set_pend_registry st l).
Hypothesis I_cl : forall st, I st -> I (set_closed st).
Hypothesis I_an : forall st a, I st -> I (add_analyzed st a).
Hypothesis I_dg : forall st n, I st -> I (log_ev st (EDiagnostics n)).
Hypothesis I_frs : forall st p sub sid, I st -> I (fst (find_registry_source w st p sub sid)).
Hypothesis I_erp : forall st p, I st -> I (fst (ensure_remote_package w st p)).

Lemma lift_push src deps : forall st ds st' ds',
  fold_left (push_dep src) deps (st, ds) = (st', ds') -> I st -> I st'.
Proof.
  induction deps as [|d deps IH]; intros st ds st' ds' H Hi.
  - cbn in H. now injection H as <- <-.
  - cbn [fold_left] in H. destruct (push_dep src (st, ds) d) as [st1 ds1] eqn:E.
    eapply IH; [exact H|]. unfold push_dep in E. destruct d as [s f|p sub sid f|rel f].
    + injection E as <- <-. now apply I_pr.
    + injection E as <- <-. now apply I_pg.
    + destruct (join_sub_path (snd src) rel); injection E as <- <-; [now apply I_pr|exact Hi].
Qed.

Lemma lift_step phase st ds ph st' ds' :
  I st -> step w phase st ds = Next ph st' ds' -> I st'.
Proof.
  intros H Hstep. unfold step in Hstep. destruct phase.
  - destruct (pend_registry st) as [|[[[p sub] sid] f] remain].
    + now injection Hstep as <- <- <-.
    + pose proof (I_frs (set_pend_registry st remain) p sub sid (I_pg _ _ H)) as H1.
      destruct (find_registry_source w (set_pend_registry st remain) p sub sid) as [st1 r].
      cbn [fst] in H1. destruct r; injection Hstep as <- <- <-; [now apply I_pr|exact H1].
  - destruct (pend_remote st) as [|[src f] remain].
    + destruct (pend_registry st); [discriminate|]. now injection Hstep as <- <- <-.
    + pose proof (I_erp (set_pend_remote st remain) (fst src) (I_pr _ _ H)) as H1.
      destruct (ensure_remote_package w (set_pend_remote st remain) (fst src)) as [st1 r].
      cbn [fst] in H1.
      destruct r as [c|]; [|now injection Hstep as <- <- <-].
      destruct (mem rart_eqb (src, f) (analyzed st1)); [now injection Hstep as <- <- <-|].
      destruct (w_deps w c (snd src) f) as [deps more].
      destruct (fold_left (push_dep src) deps (st1, ds)) as [st2 ds2] eqn:Efold.
      pose proof (lift_push src deps _ _ _ _ Efold H1) as H2.
      destruct more; injection Hstep as <- <- <-; [now apply I_an|apply I_dg; now apply I_an].
Qed.

Lemma lift_drain fuel : forall phase st ds st' ds',
  I st -> drain fuel w phase st ds = Some (st', ds') -> I st'.
Proof.
  induction fuel as [|fuel IH]; intros phase st ds st' ds' H Hd; [discriminate|].
  cbn in Hd. destruct (step w phase st ds) as [st1 ds1|ph st1 ds1] eqn:Es.
  - injection Hd as <- <-. destruct (step_done _ _ _ _ _ _ Es) as (-> & _). exact H.
  - eapply IH; [eapply lift_step; eauto|exact Hd].
Qed.

Theorem lift_run fuel : forall ops st st' outs,
  I st -> run_ops fuel w st ops = (st', outs) -> I st'.
Proof.
  induction ops as [|o ops IH]; intros st st' outs H Hr.
  - cbn in Hr. now injection Hr as <- <-.
  - cbn in Hr. destruct (apply_op fuel w st o) as [st1 out] eqn:Ea.
    destruct (run_ops fuel w st1 ops) as [st2 outs2] eqn:Er. injection Hr as <- <-.
    eapply IH; [|exact Er].
    unfold apply_op in Ea. destruct (closed st); [now injection Ea as <- <-|].
    destruct o as [s f|p sub sid f|].
    + destruct (mem _ _ _); [now injection Ea as <- <-|].
      unfold resolve_pending in Ea.
      destruct (drain _ _ _ _ _) as [[st3 ds3]|] eqn:Ed; injection Ea as <- <-; [|exact H].
      assert (I st3) by (eapply lift_drain; [|exact Ed]; now apply I_pr).
      destruct (has_errors ds3); [now apply I_cl|assumption].
    + unfold resolve_pending in Ea.
      destruct (drain _ _ _ _ _) as [[st3 ds3]|] eqn:Ed; injection Ea as <- <-; [|exact H].
      assert (I st3) by (eapply lift_drain; [|exact Ed]; now apply I_pg).
      destruct (has_errors ds3); [now apply I_cl|assumption].
    + injection Ea as <- <-. now apply I_cl.
Qed.
End Lift.

(* ---------- association lists ---------- *)
Lemma assoc_none_not_in_gen {K V} (eqb : K -> K -> bool) (Heq : forall a b, eqb a b = true <-> a = b) k (l : list (K * V)) :
  assoc eqb k l = None -> ~ In k (map fst l).
Proof.
  induction l as [|[k' v] l IH]; cbn; [tauto|].
  destruct (eqb k k') eqn:E; [discriminate|].
  intros H [Hk|Hin]; [|now apply IH]. subst k'. assert (eqb k k = true) by now apply Heq. congruence.
Qed.

Lemma assoc_some_in_gen {K V} (eqb : K -> K -> bool) (Heq : forall a b, eqb a b = true <-> a = b) k (l : list (K * V)) v :
  assoc eqb k l = Some v -> In k (map fst l).
Proof.
  induction l as [|[k' v'] l IH]; cbn; [discriminate|].
  destruct (eqb k k') eqn:E; [apply Heq in E; subst; now left|]. intros H. right. now apply IH.
Qed.

(* ====================================================================== *)
(* once per registry package / per selected version                        *)
(* ====================================================================== *)
Definition is_versions (c : call) : bool := match c with CVersions _ => true | _ => false end.
Definition is_source (c : call) : bool := match c with CSource _ _ => true | _ => false end.
Definition versions_log (st : bstate) : list call := filter is_versions (calls st).
Definition source_log (st : bstate) : list call := filter is_source (calls st).

Definition registry_inv (st : bstate) : Prop :=
  NoDup (map fst (vcache st)) /\ versions_log st = map CVersions (map fst (vcache st)) /\
  NoDup (map fst (resolved st)) /\
  source_log st = map (fun k => CSource (fst k) (snd k)) (map fst (resolved st)).

Section Registry.
Variable w : world.
Hypothesis Hv : forall p, w_versions w p <> None.
Hypothesis Hs : forall p v, w_source w p v <> None.

Lemma frs_registry st p sub sid :
  registry_inv st -> registry_inv (fst (find_registry_source w st p sub sid)).
Proof.
  intros (N1 & L1 & N2 & L2). unfold find_registry_source.
  (* first half: the version list *)
  set (first := match assoc str_eqb p (vcache st) with
                | Some infos => (log_ev st (EVersionsAlready p), Some infos)
                | None => _ end).
  assert (Hfirst : registry_inv (fst first) /\ snd first <> None).
  { unfold first. destruct (assoc str_eqb p (vcache st)) as [infos|] eqn:Ea.
    - split; [|discriminate]. unfold registry_inv, versions_log, source_log. cbn. auto.
    - destruct (w_versions w p) as [infos|] eqn:Ew; [|exfalso; eapply Hv; eauto].
      split; [|discriminate]. unfold registry_inv, versions_log, source_log in *. cbn. repeat split; auto.
      + constructor; [now apply (assoc_none_not_in_gen str_eqb str_eqb_eq)|exact N1].
      + now rewrite L1. }
  destruct first as [st1 [infos|]]; [|now destruct Hfirst]. destruct Hfirst as [(M1 & K1 & M2 & K2) _]. cbn [fst] in *.
  destruct (select_version _ _) as [v|]; cbn [fst]; [|repeat split; auto].
  destruct (assoc pv_eqb (p, v) (resolved st1)) as [[rp rsub]|] eqn:Er.
  - assert (registry_inv (log_ev st1 (ESourceAlready p v))) by (unfold registry_inv, versions_log, source_log; cbn; auto).
    destruct (final_source_addr sub rp rsub); exact H.
  - destruct (w_source w p v) as [[rp rsub]|] eqn:Ew; [|exfalso; eapply Hs; eauto].
    assert (registry_inv (log_ev (add_resolved (log_call (log_ev st1 (ESourceStart p v)) (CSource p v)) (p, v) (rp, rsub) (first_same v infos)) (ESourceSuccess p v))).
    { unfold registry_inv, versions_log, source_log in *. cbn. repeat split; auto.
      - constructor; [now apply (assoc_none_not_in_gen pv_eqb pv_eqb_eq)|exact M2].
      - now rewrite K2. }
    destruct (final_source_addr sub rp rsub); exact H.
Qed.

Lemma erp_registry st p : registry_inv st -> registry_inv (fst (ensure_remote_package w st p)).
Proof.
  intros H. unfold ensure_remote_package. destruct (assoc str_eqb p (dirs st)); [exact H|].
  destruct (w_fetch w p) as [[c m]|]; exact H.
Qed.

(* Where the registry never fails, the version list of each registry package
   and the source address of each selected version are requested exactly once,
   however many sources mention them and in whatever order. *)
Theorem registry_once fuel ops st st' outs :
  registry_inv st -> run_ops fuel w st ops = (st', outs) -> registry_inv st'.
Proof.
  apply (lift_run w registry_inv); try (intros; assumption).
  - intros s p sub sid. apply frs_registry.
  - intros s p. apply erp_registry.
Qed.
End Registry.

Lemma registry_inv_init : registry_inv init_state.
Proof. repeat split; constructor. Qed.

(* ====================================================================== *)
(* the trace                                                               *)
(* ====================================================================== *)
(* newest first, as the state holds it *)
Inductive wf_trace : list event -> Prop :=
| wt_nil : wf_trace []
| wt_diag n tr : wf_trace tr -> wf_trace (EDiagnostics n :: tr)
| wt_vs p tr : wf_trace tr -> wf_trace (EVersionsSuccess p :: EVersionsStart p :: tr)
| wt_vf p tr : wf_trace tr -> wf_trace (EVersionsFailure p :: EVersionsStart p :: tr)
| wt_va p tr : wf_trace tr -> In (EVersionsSuccess p) tr -> wf_trace (EVersionsAlready p :: tr)
| wt_ss p v tr : wf_trace tr -> wf_trace (ESourceSuccess p v :: ESourceStart p v :: tr)
| wt_sf p v tr : wf_trace tr -> wf_trace (ESourceFailure p v :: ESourceStart p v :: tr)
| wt_sa p v tr : wf_trace tr -> In (ESourceSuccess p v) tr -> wf_trace (ESourceAlready p v :: tr)
| wt_ds p tr : wf_trace tr -> wf_trace (EDownloadSuccess p :: EDownloadStart p :: tr)
| wt_df p tr : wf_trace tr -> wf_trace (EDownloadFailure p :: EDownloadStart p :: tr)
| wt_da p tr : wf_trace tr -> In (EDownloadSuccess p) tr -> wf_trace (EDownloadAlready p :: tr).

Definition trace_inv (st : bstate) : Prop :=
  wf_trace (trace st) /\
  (forall p, In p (map fst (vcache st)) -> In (EVersionsSuccess p) (trace st)) /\
  (forall k, In k (map fst (resolved st)) -> In (ESourceSuccess (fst k) (snd k)) (trace st)) /\
  (forall p, In p (map fst (dirs st)) -> In (EDownloadSuccess p) (trace st)).

Section Trace.
Variable w : world.

Lemma frs_trace st p sub sid : trace_inv st -> trace_inv (fst (find_registry_source w st p sub sid)).
Proof.
  intros (W & V & R & D). unfold find_registry_source.
  set (first := match assoc str_eqb p (vcache st) with
                | Some infos => (log_ev st (EVersionsAlready p), Some infos)
                | None => _ end).
  assert (Hfirst : trace_inv (fst first)).
  { unfold first. destruct (assoc str_eqb p (vcache st)) as [infos|] eqn:Ea.
    - unfold trace_inv. cbn. repeat split; [|intros; right; auto ..].
      apply wt_va; [exact W|]. apply V. now apply (assoc_some_in_gen str_eqb str_eqb_eq) in Ea.
    - destruct (w_versions w p) as [infos|] eqn:Ew; unfold trace_inv; cbn.
      + repeat split; [now apply wt_vs| |intros; right; right; auto ..].
        intros q [<-|Hq]; [now left|right; right; auto].
      + repeat split; [now apply wt_vf|intros; right; right; auto ..]. }
  destruct first as [st1 [infos|]]; cbn [fst] in *; [|exact Hfirst].
  destruct Hfirst as (W1 & V1 & R1 & D1).
  destruct (select_version _ _) as [v|]; cbn [fst]; [|repeat split; auto].
  destruct (assoc pv_eqb (p, v) (resolved st1)) as [[rp rsub]|] eqn:Er.
  - assert (H : trace_inv (log_ev st1 (ESourceAlready p v))).
    { unfold trace_inv. cbn. repeat split; [|intros; right; auto ..].
      apply wt_sa; [exact W1|]. apply (R1 (p, v)). now apply (assoc_some_in_gen pv_eqb pv_eqb_eq) in Er. }
    destruct (final_source_addr sub rp rsub); exact H.
  - destruct (w_source w p v) as [[rp rsub]|] eqn:Ew.
    + assert (H : trace_inv (log_ev (add_resolved (log_call (log_ev st1 (ESourceStart p v)) (CSource p v)) (p, v) (rp, rsub) (first_same v infos)) (ESourceSuccess p v))).
      { unfold trace_inv. cbn. repeat split; [now apply wt_ss|intros; right; right; auto| |intros; right; right; auto].
        intros k [<-|Hk]; [now left|right; right; auto]. }
      destruct (final_source_addr sub rp rsub); exact H.
    + cbn [fst]. unfold trace_inv. cbn. repeat split; [now apply wt_sf|intros; right; right; auto ..].
Qed.

Lemma erp_trace st p : trace_inv st -> trace_inv (fst (ensure_remote_package w st p)).
Proof.
  intros (W & V & R & D). unfold ensure_remote_package.
  destruct (assoc str_eqb p (dirs st)) as [c|] eqn:Ea.
  - unfold trace_inv. cbn. repeat split; [|intros; right; auto ..].
    apply wt_da; [exact W|]. apply D. now apply (assoc_some_in_gen str_eqb str_eqb_eq) in Ea.
  - destruct (w_fetch w p) as [[c m]|]; unfold trace_inv; cbn.
    + repeat split; [now apply wt_ds|intros; right; right; auto ..|].
      intros q [<-|Hq]; [now left|right; right; auto].
    + repeat split; [now apply wt_df|intros; right; right; auto ..].
Qed.

(* In every run - failing calls, errors, any graph shape, any sequence of Add
   calls - the trace is well bracketed and every 'already' event refers to a
   success recorded earlier. *)
Theorem trace_well_formed fuel ops st st' outs :
  trace_inv st -> run_ops fuel w st ops = (st', outs) -> trace_inv st'.
Proof.
  apply (lift_run w trace_inv); try (intros; assumption).
  - intros s n (W & V & R & D). unfold trace_inv. cbn. repeat split; [now apply wt_diag|intros; right; auto ..].
  - intros s p sub sid. apply frs_trace.
  - intros s p. apply erp_trace.
Qed.
End Trace.

Lemma trace_inv_init : trace_inv init_state.
Proof. repeat split; try constructor; intros ? []. Qed.

(* what well-formedness says, read in time order: every start event is
   immediately followed by its own success or failure, and by nothing else *)
Lemma wf_trace_start_followed tr : wf_trace tr ->
  forall newer older e, tr = newer ++ e :: older ->
    match e with
    | EVersionsStart p => exists newer', newer = newer' ++ [EVersionsSuccess p] \/ newer = newer' ++ [EVersionsFailure p]
    | ESourceStart p v => exists newer', newer = newer' ++ [ESourceSuccess p v] \/ newer = newer' ++ [ESourceFailure p v]
    | EDownloadStart p => exists newer', newer = newer' ++ [EDownloadSuccess p] \/ newer = newer' ++ [EDownloadFailure p]
    | _ => True
    end.
Proof.
  induction 1 as [|n tr W IH|p tr W IH|p tr W IH|p tr W IH Hin|p v tr W IH|p v tr W IH|p v tr W IH Hin|p tr W IH|p tr W IH|p tr W IH Hin];
    intros newer older e E.
  - destruct newer; discriminate.
  - destruct newer as [|x newer]; [injection E as <- <-; exact I|]. injection E as <- E.
    specialize (IH _ _ _ E). destruct e; auto; destruct IH as (n' & [->| ->]); exists (EDiagnostics n :: n'); auto.
  - destruct newer as [|x [|y newer]]; [injection E as <- <-; exact I|injection E as <- <- <-; exists []; auto|].
    injection E as <- <- E. specialize (IH _ _ _ E).
    destruct e; auto; destruct IH as (n' & [->| ->]); exists (EVersionsSuccess p :: EVersionsStart p :: n'); auto.
  - destruct newer as [|x [|y newer]]; [injection E as <- <-; exact I|injection E as <- <- <-; exists []; auto|].
    injection E as <- <- E. specialize (IH _ _ _ E).
    destruct e; auto; destruct IH as (n' & [->| ->]); exists (EVersionsFailure p :: EVersionsStart p :: n'); auto.
  - destruct newer as [|x newer]; [injection E as <- <-; exact I|]. injection E as <- E.
    specialize (IH _ _ _ E). destruct e; auto; destruct IH as (n' & [->| ->]); exists (EVersionsAlready p :: n'); auto.
  - destruct newer as [|x [|y newer]]; [injection E as <- <-; exact I|injection E as <- <- <-; exists []; auto|].
    injection E as <- <- E. specialize (IH _ _ _ E).
    destruct e; auto; destruct IH as (n' & [->| ->]); exists (ESourceSuccess p v :: ESourceStart p v :: n'); auto.
  - destruct newer as [|x [|y newer]]; [injection E as <- <-; exact I|injection E as <- <- <-; exists []; auto|].
    injection E as <- <- E. specialize (IH _ _ _ E).
    destruct e; auto; destruct IH as (n' & [->| ->]); exists (ESourceFailure p v :: ESourceStart p v :: n'); auto.
  - destruct newer as [|x newer]; [injection E as <- <-; exact I|]. injection E as <- E.
    specialize (IH _ _ _ E). destruct e; auto; destruct IH as (n' & [->| ->]); exists (ESourceAlready p v :: n'); auto.
  - destruct newer as [|x [|y newer]]; [injection E as <- <-; exact I|injection E as <- <- <-; exists []; auto|].
    injection E as <- <- E. specialize (IH _ _ _ E).
    destruct e; auto; destruct IH as (n' & [->| ->]); exists (EDownloadSuccess p :: EDownloadStart p :: n'); auto.
  - destruct newer as [|x [|y newer]]; [injection E as <- <-; exact I|injection E as <- <- <-; exists []; auto|].
    injection E as <- <- E. specialize (IH _ _ _ E).
    destruct e; auto; destruct IH as (n' & [->| ->]); exists (EDownloadFailure p :: EDownloadStart p :: n'); auto.
  - destruct newer as [|x newer]; [injection E as <- <-; exact I|]. injection E as <- E.
    specialize (IH _ _ _ E). destruct e; auto; destruct IH as (n' & [->| ->]); exists (EDownloadAlready p :: n'); auto.
Qed.

(* ... and an 'already' event has its success among the older events *)
Lemma wf_trace_already tr : wf_trace tr ->
  forall newer older e, tr = newer ++ e :: older ->
    match e with
    | EVersionsAlready p => In (EVersionsSuccess p) older
    | ESourceAlready p v => In (ESourceSuccess p v) older
    | EDownloadAlready p => In (EDownloadSuccess p) older
    | _ => True
    end.
Proof.
  induction 1 as [|n tr W IH|p tr W IH|p tr W IH|p tr W IH Hin|p v tr W IH|p v tr W IH|p v tr W IH Hin|p tr W IH|p tr W IH|p tr W IH Hin];
    intros newer older e E.
  - destruct newer; discriminate.
  - destruct newer as [|x newer]; [injection E as <- <-; exact I|]. injection E as <- E. exact (IH _ _ _ E).
  - destruct newer as [|x [|y newer]]; [injection E as <- <-; exact I|injection E as <- <- <-; exact I|].
    injection E as <- <- E. exact (IH _ _ _ E).
  - destruct newer as [|x [|y newer]]; [injection E as <- <-; exact I|injection E as <- <- <-; exact I|].
    injection E as <- <- E. exact (IH _ _ _ E).
  - destruct newer as [|x newer]; [injection E as <- <-; exact Hin|]. injection E as <- E. exact (IH _ _ _ E).
  - destruct newer as [|x [|y newer]]; [injection E as <- <-; exact I|injection E as <- <- <-; exact I|].
    injection E as <- <- E. exact (IH _ _ _ E).
  - destruct newer as [|x [|y newer]]; [injection E as <- <-; exact I|injection E as <- <- <-; exact I|].
    injection E as <- <- E. exact (IH _ _ _ E).
  - destruct newer as [|x newer]; [injection E as <- <-; exact Hin|]. injection E as <- E. exact (IH _ _ _ E).
  - destruct newer as [|x [|y newer]]; [injection E as <- <-; exact I|injection E as <- <- <-; exact I|].
    injection E as <- <- E. exact (IH _ _ _ E).
  - destruct newer as [|x [|y newer]]; [injection E as <- <-; exact I|injection E as <- <- <-; exact I|].
    injection E as <- <- E. exact (IH _ _ _ E).
  - destruct newer as [|x newer]; [injection E as <- <-; exact Hin|]. injection E as <- E. exact (IH _ _ _ E).
Qed.

(* ====================================================================== *)
(* C17: the deprecation note recorded for a version                        *)
(* ====================================================================== *)
(* every note in the deprecation table is the one the registry's own listing
   attaches to exactly that version (the first entry of the listing that is
   that version, build metadata included), and the version was offered *)
Definition deprec_inv (w : world) (st : bstate) : Prop :=
  (forall p infos, assoc str_eqb p (vcache st) = Some infos -> w_versions w p = Some infos) /\
  (forall k d, In (k, d) (deprec st) ->
     exists infos, w_versions w (fst k) = Some infos /\ d = first_same (snd k) infos).

Section Deprec.
Variable w : world.

Lemma frs_deprec st p sub sid : deprec_inv w st -> deprec_inv w (fst (find_registry_source w st p sub sid)).
Proof.
  intros (V & Dp). unfold find_registry_source.
  set (first := match assoc str_eqb p (vcache st) with
                | Some infos => (log_ev st (EVersionsAlready p), Some infos)
                | None => _ end).
  assert (Hfirst : deprec_inv w (fst first) /\ (forall infos, snd first = Some infos -> w_versions w p = Some infos)).
  { unfold first. destruct (assoc str_eqb p (vcache st)) as [infos|] eqn:Ea.
    - split; [split; cbn; auto|]. cbn. intros i [= <-]. now apply V.
    - destruct (w_versions w p) as [infos|] eqn:Ew; cbn.
      + split; [|intros i [= <-]; reflexivity]. split; cbn; [|exact Dp].
        intros q i. destruct (str_eqb q p) eqn:Eq; [|apply V].
        apply str_eqb_eq in Eq. subst q. now intros [= <-].
      + split; [split; cbn; auto|discriminate]. }
  destruct first as [st1 [infos|]]; cbn [fst snd] in *; [|exact (proj1 Hfirst)].
  destruct Hfirst as ((V1 & D1) & Hinfos). specialize (Hinfos infos eq_refl).
  destruct (select_version _ _) as [v|]; cbn [fst]; [|split; auto].
  destruct (assoc pv_eqb (p, v) (resolved st1)) as [[rp rsub]|] eqn:Er.
  - assert (H : deprec_inv w (log_ev st1 (ESourceAlready p v))) by (split; cbn; auto).
    destruct (final_source_addr sub rp rsub); exact H.
  - destruct (w_source w p v) as [[rp rsub]|] eqn:Ew.
    + assert (H : deprec_inv w (log_ev (add_resolved (log_call (log_ev st1 (ESourceStart p v)) (CSource p v)) (p, v) (rp, rsub) (first_same v infos)) (ESourceSuccess p v))).
      { split; cbn; [exact V1|]. intros k d [[= <- <-]|Hin]; [exists infos; auto|now apply D1]. }
      destruct (final_source_addr sub rp rsub); exact H.
    + cbn [fst]. split; cbn; auto.
Qed.

Lemma erp_deprec st p : deprec_inv w st -> deprec_inv w (fst (ensure_remote_package w st p)).
Proof.
  intros H. unfold ensure_remote_package. destruct (assoc str_eqb p (dirs st)); [exact H|].
  destruct (w_fetch w p) as [[c m]|]; exact H.
Qed.

Theorem deprecation_recorded fuel ops st st' outs :
  deprec_inv w st -> run_ops fuel w st ops = (st', outs) -> deprec_inv w st'.
Proof.
  apply (lift_run w (deprec_inv w)); try (intros; assumption).
  - intros s p sub sid. apply frs_deprec.
  - intros s p. apply erp_deprec.
Qed.
End Deprec.

Lemma deprec_inv_init w : deprec_inv w init_state.
Proof. split; cbn; [discriminate|intros ? ? []]. Qed.

(* ====================================================================== *)
(* C08: the fetcher's metadata is retrievable unchanged                    *)
(* ====================================================================== *)
Definition metas_of (w : world) (ds : list (pkg * content)) : list (pkg * (str * str)) :=
  flat_map (fun pc => match w_fetch w (fst pc) with Some (_, Some m) => [(fst pc, m)] | _ => [] end) ds.

Definition meta_inv (w : world) (st : bstate) : Prop := metas st = metas_of w (dirs st).

Section Meta.
Variable w : world.

Lemma frs_meta st p sub sid : meta_inv w st -> meta_inv w (fst (find_registry_source w st p sub sid)).
Proof.
  intros H. unfold meta_inv in *.
  pose proof (find_registry_source_fetch w st p sub sid) as [_ Hd].
  assert (Hm : metas (fst (find_registry_source w st p sub sid)) = metas st).
  { unfold find_registry_source.
    destruct (assoc str_eqb p (vcache st)) as [infos|].
    - destruct (select_version _ _) as [v|]; cbn; [|reflexivity].
      destruct (assoc pv_eqb (p, v) (resolved st)) as [[rp rsub]|]; cbn.
      + destruct (final_source_addr sub rp rsub); reflexivity.
      + destruct (w_source w p v) as [[rp rsub]|]; cbn; [|reflexivity].
        destruct (final_source_addr sub rp rsub); reflexivity.
    - destruct (w_versions w p) as [infos|]; cbn; [|reflexivity].
      destruct (select_version _ _) as [v|]; cbn; [|reflexivity].
      destruct (assoc pv_eqb (p, v) (resolved st)) as [[rp rsub]|]; cbn.
      + destruct (final_source_addr sub rp rsub); reflexivity.
      + destruct (w_source w p v) as [[rp rsub]|]; cbn; [|reflexivity].
        destruct (final_source_addr sub rp rsub); reflexivity. }
  now rewrite Hm, Hd.
Qed.

Lemma erp_meta st p : meta_inv w st -> meta_inv w (fst (ensure_remote_package w st p)).
Proof.
  intros H. unfold ensure_remote_package, meta_inv in *.
  destruct (assoc str_eqb p (dirs st)); [exact H|].
  destruct (w_fetch w p) as [[c m]|] eqn:Ef; cbn; [|exact H].
  rewrite Ef. destruct m as [m|]; cbn; now rewrite H.
Qed.

(* the metadata table of the bundle is, for every fetched package, exactly what
   the fetcher returned with it - nothing lost, nothing invented, whatever the
   order of Add calls, the dependency graph, or failures elsewhere *)
Theorem metadata_recorded fuel ops st st' outs :
  meta_inv w st -> run_ops fuel w st ops = (st', outs) -> meta_inv w st'.
Proof.
  apply (lift_run w (meta_inv w)); try (intros; assumption).
  - intros s p sub sid. apply frs_meta.
  - intros s p. apply erp_meta.
Qed.
End Meta.

Lemma metas_of_in w ds p m :
  In (p, m) (metas_of w ds) <-> exists c c', In (p, c) ds /\ w_fetch w p = Some (c', Some m).
Proof.
  unfold metas_of. rewrite in_flat_map. split.
  - intros ([q c] & Hin & H). cbn [fst] in H.
    destruct (w_fetch w q) as [[c' [m'|]]|] eqn:Ef; try contradiction.
    destruct H as [[= <- <-]|[]]. exists c, c'. auto.
  - intros (c & c' & Hin & Ef). exists (p, c). split; [exact Hin|]. cbn [fst]. rewrite Ef. now left.
Qed.
