(* C09 / C18: SourceForLocalPath visits a Go map (package -> directory) in no fixed
   order.  Its choice among the packages stored in one directory - the shortest
   printed address, bytewise smallest among equally short ones - is the minimum of
   a strict total order, hence the same for every visiting order. *)
From Slug Require Import Base.Str Base.PathAlg Addr.Url Addr.Parse Bundle.VersionsProofs Bundle.Lookup.
From Coq Require Import Lia Permutation.

Lemma better_irrefl a : better a a = false.
Proof. unfold better. rewrite Nat.ltb_irrefl, Nat.eqb_refl. cbn. apply str_ltb_irrefl. Qed.

Lemma better_spec a b : better a b = true <-> length a < length b \/ (length a = length b /\ str_ltb a b = true).
Proof.
  unfold better. destruct (Nat.ltb_spec (length a) (length b)) as [H|H]; cbn.
  - split; [now left|reflexivity].
  - destruct (Nat.eqb_spec (length a) (length b)) as [E|E]; cbn.
    + split; [intros Hl; right; now split|intros [Hc|[_ Hl]]; [lia|exact Hl]].
    + split; [discriminate|intros [Hc|[Hc _]]; [lia|congruence]].
Qed.

Lemma better_trans a b c : better a b = true -> better b c = true -> better a c = true.
Proof.
  rewrite !better_spec. intros [H1|[H1 L1]] [H2|[H2 L2]]; try (left; lia).
  right. split; [lia|]. eapply str_ltb_trans; eassumption.
Qed.

Lemma better_total a b : a <> b -> better a b = true \/ better b a = true.
Proof.
  intros Hne. rewrite !better_spec.
  destruct (Nat.lt_trichotomy (length a) (length b)) as [H|[H|H]]; [left; now left| |right; now left].
  destruct (str_ltb_total a b Hne) as [Hl|Hl]; [left|right]; right; split; auto.
Qed.

Lemma better_asym a b : better a b = true -> better b a = false.
Proof.
  intros H. destruct (better b a) eqn:E; [|reflexivity].
  pose proof (better_trans _ _ _ H E) as Hc. rewrite better_irrefl in Hc. discriminate.
Qed.

(* the fold picks a text that occurs and that nothing beats *)
Lemma best_key_spec f l :
  let k := best_key f l in
  (k = f \/ exists p, In p l /\ k = rpkg_string p) /\
  better f k = false /\ (forall p, In p l -> better (rpkg_string p) k = false).
Proof.
  induction l as [|p l IH]; cbn zeta.
  - cbn. split; [now left|]. split; [apply better_irrefl|intros p []].
  - cbn [best_key fold_right]. fold (best_key f l). destruct IH as (Hin & Hf & Hmin).
    destruct (better (rpkg_string p) (best_key f l)) eqn:E.
    + split; [right; exists p; split; [now left|reflexivity]|]. split.
      * destruct (better f (rpkg_string p)) eqn:E2; [|reflexivity].
        rewrite (better_trans _ _ _ E2 E) in Hf. discriminate.
      * intros q [<-|Hq]; [apply better_irrefl|].
        destruct (better (rpkg_string q) (rpkg_string p)) eqn:E2; [|reflexivity].
        pose proof (Hmin q Hq) as Hm. rewrite (better_trans _ _ _ E2 E) in Hm. discriminate.
    + split; [destruct Hin as [H|(q & Hq & H)]; [now left|right; exists q; split; [now right|exact H]]|].
      split; [exact Hf|]. intros q [<-|Hq]; [exact E|now apply Hmin].
Qed.

(* a minimum of the texts of a non-empty list is unique *)
Lemma minimum_unique (l : list rpkg) k1 k2 :
  (exists p, In p l /\ k1 = rpkg_string p) -> (forall p, In p l -> better (rpkg_string p) k1 = false) ->
  (exists p, In p l /\ k2 = rpkg_string p) -> (forall p, In p l -> better (rpkg_string p) k2 = false) ->
  k1 = k2.
Proof.
  intros (p1 & H1 & ->) M1 (p2 & H2 & ->) M2.
  destruct (str_eq_dec (rpkg_string p1) (rpkg_string p2)) as [E|Hne]; [exact E|].
  destruct (better_total _ _ Hne) as [Hb|Hb]; [rewrite (M2 p1 H1) in Hb|rewrite (M1 p2 H2) in Hb]; discriminate.
Qed.

Lemma best_key_of_list c0 cs :
  let k := best_key (rpkg_string c0) (c0 :: cs) in
  (exists p, In p (c0 :: cs) /\ k = rpkg_string p) /\ (forall p, In p (c0 :: cs) -> better (rpkg_string p) k = false).
Proof.
  cbn zeta. destruct (best_key_spec (rpkg_string c0) (c0 :: cs)) as ([H|H] & _ & Hmin).
  - split; [exists c0; split; [now left|exact H]|exact Hmin].
  - split; assumption.
Qed.

(* the choice does not depend on the order in which the packages are visited *)
Theorem best_key_order_irrelevant c0 cs c0' cs' :
  Permutation (c0 :: cs) (c0' :: cs') ->
  best_key (rpkg_string c0) (c0 :: cs) = best_key (rpkg_string c0') (c0' :: cs').
Proof.
  intros Hp. destruct (best_key_of_list c0 cs) as [(p1 & I1 & E1) M1]. destruct (best_key_of_list c0' cs') as [(p2 & I2 & E2) M2].
  apply (minimum_unique (c0 :: cs)).
  - exists p1. auto.
  - exact M1.
  - exists p2. split; [eapply Permutation_in; [apply Permutation_sym; exact Hp|exact I2]|exact E2].
  - intros p Hin. apply M2. eapply Permutation_in; eassumption.
Qed.

Lemma Permutation_filter_ {A} (f : A -> bool) l l' : Permutation l l' -> Permutation (filter f l) (filter f l').
Proof.
  intros H. induction H as [|x l l' H IH|x y l|l l' l'' H1 IH1 H2 IH2]; cbn.
  - constructor.
  - destruct (f x); [now constructor|exact IH].
  - destruct (f x), (f y); try apply Permutation_refl. apply perm_swap.
  - eapply Permutation_trans; eassumption.
Qed.

(* SourceForLocalPath on two bundles that differ only in the order of the package map *)
Theorem reverse_lookup_order_irrelevant b b' path :
  b_root b = b_root b' -> Permutation (b_dirs b) (b_dirs b') ->
  match source_for_local_path b path, source_for_local_path b' path with
  | Some (d, sub, cs), Some (d', sub', cs') => d = d' /\ sub = sub' /\ Permutation cs cs'
  | None, None => True
  | _, _ => False
  end.
Proof.
  intros Hr Hp. unfold source_for_local_path. rewrite <- Hr.
  destruct (strip_prefix (comps (b_root b)) (comps path)) as [[|d rest]|]; try exact I.
  assert (Hc : Permutation (candidates b d) (candidates b' d)).
  { unfold candidates. apply Permutation_map, Permutation_filter_, Hp. }
  destruct (candidates b d) as [|c0 cs] eqn:E1, (candidates b' d) as [|c0' cs'] eqn:E2.
  - exact I.
  - apply Permutation_nil in Hc. discriminate.
  - apply Permutation_sym, Permutation_nil in Hc. discriminate.
  - split; [reflexivity|]. split; [reflexivity|].
    rewrite (best_key_order_irrelevant c0 cs c0' cs' Hc). now apply Permutation_filter_.
Qed.
