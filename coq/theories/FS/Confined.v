(* Physical containment of link resolution (C04, the positive half).
   If every symbolic link below a real directory D has a target that (a) never
   has ".." after a name and (b) read as text from the link's own directory
   (or from the root, when absolute) ends inside D, then the kernel's
   resolution of any path that starts inside D ends inside D, through any
   number of links.  KF-C04-1 (a -> ".", b -> "a/..") is exactly a target with
   ".." after a name. *)
From Slug Require Import Base.Str Base.PathAlg Base.PathLemmas FS.FS FS.FSProofs.
From Coq Require Import Lia.

(* ---------- the lexical position: the rooted normalisation machine ---------- *)
Definition lexpos (cur : path) (cs : list str) : path := rev (snd (nrun true (0, rev cur) cs)).

Lemma rev_removelast {A} (l : list A) : rev (removelast l) = tl (rev l).
Proof.
  destruct l as [|a l] using rev_ind; [reflexivity|].
  rewrite removelast_last, rev_app_distr. reflexivity.
Qed.

Lemma lexpos_nil cur : lexpos cur [] = cur.
Proof. unfold lexpos. cbn. apply rev_involutive. Qed.

Lemma lexpos_cons cur c r :
  lexpos cur (c :: r) =
  if is_empty c || is_dot c then lexpos cur r
  else if is_dotdot c then lexpos (removelast cur) r
  else lexpos (cur ++ [c]) r.
Proof.
  unfold lexpos, nrun. cbn [fold_left]. unfold nstep at 2.
  destruct (is_empty c || is_dot c); [reflexivity|].
  destruct (is_dotdot c).
  - rewrite rev_removelast. destruct (rev cur); reflexivity.
  - now rewrite rev_app_distr.
Qed.

Lemma lexpos_app cur a b : lexpos cur (a ++ b) = lexpos (lexpos cur a) b.
Proof.
  revert cur. induction a as [|c a IH]; intros cur; [now rewrite lexpos_nil|].
  cbn [app]. rewrite !lexpos_cons.
  destruct (is_empty c || is_dot c); [apply IH|]. destruct (is_dotdot c); apply IH.
Qed.

(* ---------- targets without ".." after a name ---------- *)
Definition no_dd (cs : list str) : bool := forallb (fun c => negb (is_dotdot c)) cs.

Fixpoint updown (cs : list str) : bool :=
  match cs with
  | [] => true
  | c :: r => if is_empty c || is_dot c || is_dotdot c then updown r else no_dd r
  end.

Lemma no_dd_updown cs : no_dd cs = true -> updown cs = true.
Proof.
  induction cs as [|c r IH]; [reflexivity|]. cbn. intros H. apply andb_true_iff in H as [H1 H2].
  destruct (is_empty c || is_dot c || is_dotdot c); auto.
Qed.

Lemma no_dd_app a b : no_dd (a ++ b) = no_dd a && no_dd b.
Proof. apply forallb_app. Qed.

Lemma updown_app a b : updown a = true -> no_dd b = true -> updown (a ++ b) = true.
Proof.
  induction a as [|c r IH]; intros Ha Hb; [now apply no_dd_updown|].
  cbn in *. destruct (is_empty c || is_dot c || is_dotdot c); [now apply IH|].
  now rewrite no_dd_app, Ha, Hb.
Qed.

(* names only: the lexical position just grows *)
Lemma lexpos_no_dd cs : no_dd cs = true -> forall cur, exists more, lexpos cur cs = cur ++ more.
Proof.
  induction cs as [|c r IH]; intros H cur; [exists []; now rewrite lexpos_nil, app_nil_r|].
  cbn in H. apply andb_true_iff in H as [H1 H2]. apply negb_true_iff in H1.
  rewrite lexpos_cons, H1. destruct (is_empty c || is_dot c); [now apply IH|].
  destruct (IH H2 (cur ++ [c])) as (more & ->). exists (c :: more). now rewrite <- app_assoc.
Qed.

(* ---------- the condition on the links below D ---------- *)
Section Confined.
Variable fs : node.
Variable D : path.

Definition inside (p : path) : Prop := exists rel, p = D ++ rel.

Definition good_link (q : path) (t : str) : Prop :=
  updown (split_on slash t) = true /\
  inside (lexpos (if is_rooted t then [] else D ++ removelast q) (split_on slash t)).

Definition confined : Prop :=
  forall q t, get fs (D ++ q) = Some (Link t) -> good_link q t.

Hypothesis Hconf : confined.
Hypothesis HD : rdir fs D.

(* the walk's invariant: at some point of the remaining components the lexical
   position is inside D, and no ".." comes after that point *)
Definition ahead (cur : path) (todo : list str) : Prop :=
  updown todo = true /\
  exists pre post, todo = pre ++ post /\ inside (lexpos cur pre) /\ no_dd post = true.

Lemma inside_snoc p c : inside p -> inside (p ++ [c]).
Proof. intros [rel ->]. exists (rel ++ [c]). now rewrite app_assoc. Qed.

Lemma inside_app p more : inside p -> inside (p ++ more).
Proof. intros [rel ->]. exists (rel ++ more). now rewrite app_assoc. Qed.

(* a position cur ++ [c] that leads, by names only, into D: it is a real
   directory on the way to D, or already inside *)
Lemma toward cur c more :
  inside (cur ++ c :: more) ->
  inside (cur ++ [c]) \/ (exists pm mt ks, get fs (cur ++ [c]) = Some (Dir pm mt ks)).
Proof.
  intros [rel E].
  destruct (Nat.le_gt_cases (length D) (length (cur ++ [c]))) as [Hle|Hgt].
  - left. exists (skipn (length D) (cur ++ [c])).
    assert (E' : (cur ++ [c]) ++ more = D ++ rel) by (rewrite <- app_assoc; exact E).
    assert (Hf : firstn (length D) (cur ++ [c]) = D).
    { apply (f_equal (firstn (length D))) in E'.
      rewrite firstn_app in E'. replace (length D - length (cur ++ [c])) with 0 in E' by lia.
      cbn [firstn] in E'. rewrite app_nil_r in E'. rewrite E'.
      rewrite firstn_app, Nat.sub_diag, firstn_all. cbn. now rewrite app_nil_r. }
    rewrite <- Hf at 1. symmetry. apply firstn_skipn.
  - right.
    assert (E' : (cur ++ [c]) ++ more = D ++ rel) by (rewrite <- app_assoc; exact E).
    assert (Hp : D = (cur ++ [c]) ++ skipn (length (cur ++ [c])) D).
    { apply (f_equal (firstn (length D))) in E'.
      rewrite firstn_app, firstn_all2 in E' by lia.
      rewrite (firstn_app (length D) D rel), Nat.sub_diag, firstn_all in E'. cbn [firstn] in E'. rewrite app_nil_r in E'.
      rewrite <- E' at 1.
      assert (Hsk : skipn (length (cur ++ [c])) D = firstn (length D - length (cur ++ [c])) more).
      { rewrite <- E' at 1. rewrite skipn_app, skipn_all, Nat.sub_diag. cbn [skipn app].
        reflexivity. }
      now rewrite Hsk. }
    rewrite Hp in HD. apply rdir_prefix in HD. exact (rdir_get fs _ HD).
Qed.

Theorem walk_confined fl : forall links todo cur ph,
  ahead cur todo -> walk links fs fl cur todo = Ok ph -> inside ph.
Proof.
  induction links as [links IHl] using lt_wf_ind.
  induction todo as [|c rest IH]; intros cur ph [Hud (pre & post & E & Hin & Hpost)] Hw.
  - rewrite walk_nil in Hw. injection Hw as <-.
    destruct pre; [|discriminate]. now rewrite lexpos_nil in Hin.
  - rewrite walk_cons in Hw.
    (* what the head of the list is for the invariant *)
    destruct pre as [|c' pre'].
    + (* the inside point is here: cur is inside, only names follow *)
      cbn [app] in E. subst post. rewrite lexpos_nil in Hin.
      cbn in Hpost. apply andb_true_iff in Hpost as [Hc Hrest]. apply negb_true_iff in Hc.
      rewrite Hc in Hw.
      destruct (is_empty c || is_dot c) eqn:Esk.
      { apply (IH cur ph); [|exact Hw]. split; [now apply no_dd_updown|].
        exists [], rest. rewrite lexpos_nil. auto. }
      cbn zeta in Hw.
      assert (Hhere : inside (cur ++ [c])) by now apply inside_snoc.
      assert (Hnext : ahead (cur ++ [c]) rest).
      { split; [now apply no_dd_updown|]. exists [], rest. rewrite lexpos_nil. auto. }
      destruct (get fs (cur ++ [c])) as [[d pm mt|pm mt ks|t|k]|] eqn:Eg.
      * destruct (is_nil rest); [now injection Hw as <-|discriminate].
      * exact (IH _ _ Hnext Hw).
      * destruct (is_nil rest && negb fl); [now injection Hw as <-|].
        destruct links as [|l]; [discriminate|]. destruct t as [|t0 tt]; [discriminate|].
        destruct Hhere as [q Eq]. rewrite Eq in Eg.
        destruct (Hconf q (t0 :: tt) Eg) as [Hup Hlex].
        assert (Hcur : D ++ removelast q = cur).
        { assert (q <> []).
          { intros ->. rewrite app_nil_r in Eq. destruct (rdir_get fs D HD) as (a & b & c0 & Hg).
            rewrite app_nil_r in Eg. congruence. }
          rewrite <- removelast_app by assumption. rewrite <- Eq. apply removelast_last. }
        rewrite Hcur in Hlex.
        eapply (IHl l (Nat.lt_succ_diag_r l)); [|exact Hw].
        split; [now apply updown_app|].
        exists (split_on slash (t0 :: tt)), rest. auto.
      * destruct (is_nil rest); [now injection Hw as <-|discriminate].
      * destruct (is_nil rest); [now injection Hw as <-|discriminate].
    + (* still on the way to the inside point *)
      cbn [app] in E. injection E as <- Erest. rewrite lexpos_cons in Hin.
      cbn [updown] in Hud.
      destruct (is_empty c || is_dot c) eqn:Esk.
      { cbn [orb] in Hud. apply (IH cur ph); [|exact Hw]. split; [exact Hud|]. exists pre', post. auto. }
      destruct (is_dotdot c) eqn:Edd.
      { rewrite orb_true_r in Hud. apply (IH (removelast cur) ph); [|exact Hw].
        split; [exact Hud|]. exists pre', post. auto. }
      cbn [orb] in Hud. cbn zeta in Hw.
      (* c is a name: nothing but names follows *)
      assert (Hpre : no_dd pre' = true) by (rewrite Erest, no_dd_app in Hud; now apply andb_true_iff in Hud).
      destruct (lexpos_no_dd pre' Hpre (cur ++ [c])) as (more & Emore). rewrite Emore in Hin.
      rewrite <- app_assoc in Hin. cbn [app] in Hin.
      assert (Hnext : ahead (cur ++ [c]) rest).
      { split; [now apply no_dd_updown|]. exists pre', post. rewrite Emore, <- app_assoc. cbn [app]. auto. }
      destruct (toward cur c more Hin) as [Hhere|(pm & mt & ks & Hg)].
      * (* already inside: as in the first case *)
        destruct (get fs (cur ++ [c])) as [[d pm mt|pm mt ks|t|k]|] eqn:Eg.
        -- destruct (is_nil rest); [now injection Hw as <-|discriminate].
        -- exact (IH _ _ Hnext Hw).
        -- destruct (is_nil rest && negb fl); [now injection Hw as <-|].
           destruct links as [|l]; [discriminate|]. destruct t as [|t0 tt]; [discriminate|].
           destruct Hhere as [q Eq]. rewrite Eq in Eg.
           destruct (Hconf q (t0 :: tt) Eg) as [Hup Hlex].
           assert (Hcur : D ++ removelast q = cur).
           { assert (q <> []).
             { intros ->. rewrite app_nil_r in Eq. destruct (rdir_get fs D HD) as (a & b & c0 & Hg).
               rewrite app_nil_r in Eg. congruence. }
             rewrite <- removelast_app by assumption. rewrite <- Eq. apply removelast_last. }
           rewrite Hcur in Hlex.
           eapply (IHl l (Nat.lt_succ_diag_r l)); [|exact Hw].
           split; [now apply updown_app|].
           exists (split_on slash (t0 :: tt)), rest. auto.
        -- destruct (is_nil rest); [now injection Hw as <-|discriminate].
        -- destruct (is_nil rest); [now injection Hw as <-|discriminate].
      * rewrite Hg in Hw. exact (IH _ _ Hnext Hw).
Qed.

(* following any path that starts with D's own components and goes on with names *)
Corollary resolve_confined fl l ph :
  forallb plainb D = true -> no_dd l = true ->
  resolve fs fl (D ++ l) = Ok ph -> inside ph.
Proof.
  intros HpD Hl Hr. unfold resolve in Hr. apply (walk_confined fl max_links (D ++ l) [] ph); [|exact Hr].
  assert (HnD : no_dd D = true).
  { clear - HpD. induction D as [|x d IH]; [reflexivity|]. cbn in *. apply andb_true_iff in HpD as [H1 H2].
    destruct (plain_flags x H1) as [_ ->]. cbn. now apply IH. }
  split; [apply no_dd_updown; now rewrite no_dd_app, HnD, Hl|].
  exists D, l. repeat split; [|exact Hl].
  destruct (lexpos_no_dd D HnD []) as (more & Em).
  (* lexpos [] D = D for plain components *)
  assert (HlD : forall cur, lexpos cur D = cur ++ D).
  { clear - HpD. induction D as [|x d IH]; intros cur; [now rewrite lexpos_nil, app_nil_r|].
    cbn in HpD. apply andb_true_iff in HpD as [H1 H2]. destruct (plain_flags x H1) as [F1 F2].
    rewrite lexpos_cons, F1, F2, IH by exact H2. now rewrite <- app_assoc. }
  rewrite HlD. exists []. now rewrite app_nil_r.
Qed.
End Confined.

(* ---------- which links a compatible write can leave ---------- *)
Lemma links_put : forall p n lp v t,
  (rdir n (removelast lp) \/ lp = []) -> compat (get n lp) v ->
  get (put n lp v) p = Some (Link t) ->
  get n p = Some (Link t) \/ (p = lp /\ v = Link t).
Proof.
  induction p as [|y q IH]; intros n lp v t Hr Hc Hg.
  - cbn in Hg. injection Hg as Hg. destruct lp as [|x r].
    + right. split; [reflexivity|exact Hg].
    + left. destruct n as [d pm mt|pm mt ks|t'|k]; cbn in Hg; try discriminate; cbn; now rewrite Hg.
  - destruct lp as [|x r].
    + cbn [put] in Hg. cbn [get] in Hc.
      destruct n as [d pm mt|pm mt ks|t'|k]; cbn in Hc.
      * destruct v; try contradiction. discriminate.
      * destruct v as [| pm' mt' ks' | |]; try contradiction. subst ks'. left. exact Hg.
      * subst v. discriminate.
      * subst v. discriminate.
    + destruct n as [d pm mt|pm mt ks|t'|k]; try (cbn in Hg; discriminate).
      rewrite put_cons in Hg. cbn [get] in Hg |- *.
      destruct (str_eq_dec y x) as [->|Hne].
      * rewrite kid_set_kid_same in Hg.
        destruct (kid x ks) as [c|] eqn:Ek.
        -- assert (Hr' : rdir c (removelast r) \/ r = []).
           { destruct r as [|x' r']; [now right|left].
             destruct Hr as [Hr|Hr]; [|discriminate].
             change (removelast (x :: x' :: r')) with (x :: removelast (x' :: r')) in Hr. cbn in Hr. now rewrite Ek in Hr. }
           assert (Hc' : compat (get c r) v) by (cbn in Hc; now rewrite Ek in Hc).
           destruct (IH c r v t Hr' Hc' Hg) as [H|[-> ->]]; [now left|right; auto].
        -- destruct r as [|x' r']; [|discriminate].
           cbn in Hc. rewrite Ek in Hc.
           destruct v as [d pm' mt'|pm' mt' ks'|t'|k']; cbn in Hc; try contradiction.
           ++ destruct q; cbn in Hg; discriminate.
           ++ subst ks'. destruct q; cbn in Hg; discriminate.
           ++ destruct q as [|z q']; [|cbn in Hg; discriminate]. cbn in Hg. injection Hg as ->. right. auto.
      * rewrite kid_set_kid_other in Hg by exact Hne. now left.
Qed.
