(* Algebra of the abstract file system: get/put, real-directory chains,
   link-free paths, lexical resolution. *)
From Slug Require Import Base.Str Base.PathAlg FS.FS.

(* ---------- children ---------- *)
Lemma kid_set_kid_same x f ks :
  kid x (set_kid x f ks) = match f (kid x ks) with Some v => Some v | None => kid x ks end.
Proof.
  induction ks as [|[k c] rest IH]; cbn.
  - destruct (f None) as [v|]; cbn; [now rewrite str_eqb_refl|reflexivity].
  - destruct (str_eqb k x) eqn:E.
    + destruct (f (Some c)) as [v|]; cbn; now rewrite E.
    + cbn. rewrite E. exact IH.
Qed.

Lemma kid_set_kid_other x y f ks : y <> x -> kid y (set_kid x f ks) = kid y ks.
Proof.
  intros Hne. induction ks as [|[k c] rest IH]; cbn.
  - destruct (f None) as [v|]; cbn; [|reflexivity].
    destruct (str_eqb_spec x y); [congruence|reflexivity].
  - destruct (str_eqb k x) eqn:E.
    + apply str_eqb_eq in E. subst k.
      destruct (f (Some c)) as [v|]; cbn; destruct (str_eqb_spec x y); congruence.
    + cbn. destruct (str_eqb k y); [reflexivity|exact IH].
Qed.

Lemma set_kid_ext x f g ks c :
  kid x ks = Some c -> f (Some c) = g (Some c) -> set_kid x f ks = set_kid x g ks.
Proof.
  intros Hk Hs. induction ks as [|[k c0] rest IH]; cbn in *; [discriminate|].
  destruct (str_eqb k x) eqn:E.
  - injection Hk as ->. now rewrite Hs.
  - f_equal. now apply IH.
Qed.

(* ---------- get ---------- *)
Lemma get_app n p q : get n (p ++ q) = match get n p with Some c => get c q | None => None end.
Proof.
  revert n; induction p as [|x r IH]; intros n; cbn; [reflexivity|].
  destruct n as [| pm mt ks | |]; try reflexivity.
  destruct (kid x ks); [apply IH|reflexivity].
Qed.

(* ---------- real directory chains ---------- *)
Fixpoint rdir (n : node) (p : path) : Prop :=
  match n with
  | Dir _ _ ks => match p with
                  | [] => True
                  | x :: r => match kid x ks with Some c => rdir c r | None => False end
                  end
  | _ => False
  end.

Lemma rdir_get n p : rdir n p -> exists pm mt ks, get n p = Some (Dir pm mt ks).
Proof.
  revert n; induction p as [|x r IH]; intros n H.
  - destruct n; cbn in H; try contradiction. cbn. eauto.
  - destruct n as [| pm mt ks | |]; cbn in H; try contradiction. cbn.
    destruct (kid x ks); [now apply IH|contradiction].
Qed.

Lemma rdir_app n p q : rdir n (p ++ q) <-> rdir n p /\ exists c, get n p = Some c /\ rdir c q.
Proof.
  revert n; induction p as [|x r IH]; intros n.
  - cbn [app get]. split.
    + intros H. split; [destruct n; cbn in *; auto; destruct q; contradiction|eauto].
    + intros [_ (c & [= <-] & H)]. exact H.
  - destruct n as [| pm mt ks | |]; cbn; try (split; [contradiction|intros [[] _]]).
    destruct (kid x ks) as [c|]; [apply IH|]. split; [contradiction|intros [[] _]].
Qed.

Lemma rdir_prefix n p q : rdir n (p ++ q) -> rdir n p.
Proof. intros H. now apply rdir_app in H as [H _]. Qed.

(* ---------- link-free paths ---------- *)
(* following p down from n, no node met is a symlink; beyond a missing name or
   a non-directory nothing is required *)
Fixpoint nolink (n : node) (p : path) : Prop :=
  match p with
  | [] => True
  | x :: r =>
      match n with
      | Dir _ _ ks => match kid x ks with
                      | None => True
                      | Some c => is_link c = false /\ nolink c r
                      end
      | _ => True
      end
  end.

Lemma rdir_nolink n p : rdir n p -> nolink n p.
Proof.
  revert n; induction p as [|x r IH]; intros n H; [exact I|].
  destruct n as [| pm mt ks | |]; cbn in *; try contradiction.
  destruct (kid x ks) as [c|]; [|contradiction]. split; [|now apply IH].
  destruct c; try reflexivity. destruct r; cbn in H; contradiction.
Qed.

Lemma nolink_prefix n p q : nolink n (p ++ q) -> nolink n p.
Proof.
  revert n; induction p as [|x r IH]; intros n H; [exact I|].
  destruct n as [| pm mt ks | |]; cbn in *; auto.
  destruct (kid x ks) as [c|]; [|exact I]. destruct H as [H1 H2]. split; [exact H1|now apply IH].
Qed.

(* ---------- put ---------- *)
Definition put_fun (r : path) (v : node) (put_c : node -> node) : option node -> option node :=
  fun oc => match oc with
            | Some c => Some (put_c c)
            | None => match r with [] => Some v | _ => None end
            end.

Lemma put_cons pm mt ks x r v :
  put (Dir pm mt ks) (x :: r) v =
  Dir pm (if match r, kid x ks with [], None => true | _, _ => false end then None else mt)
      (set_kid x (fun oc => match oc with
                            | Some c => Some (put c r v)
                            | None => match r with [] => Some v | _ => None end
                            end) ks).
Proof. reflexivity. Qed.

Lemma get_put_under n p v s : rdir n (removelast p) \/ p = [] ->
  get (put n p v) (p ++ s) = get v s.
Proof.
  revert n; induction p as [|x r IH]; intros n H; [reflexivity|].
  destruct H as [H|H]; [|discriminate].
  destruct n as [| pm mt ks | |]; try (destruct r; cbn in H; contradiction).
  rewrite put_cons. cbn [app get]. rewrite kid_set_kid_same.
  destruct r as [|y r'].
  - destruct (kid x ks); reflexivity.
  - change (removelast (x :: y :: r')) with (x :: removelast (y :: r')) in H. cbn in H.
    destruct (kid x ks) as [c|]; [|contradiction]. apply IH. now left.
Qed.

Lemma get_put_same n p v : rdir n (removelast p) \/ p = [] -> get (put n p v) p = Some v.
Proof. intros H. rewrite <- (app_nil_r p) at 2. now rewrite get_put_under. Qed.

(* composition: writing below an existing node *)
Lemma put_app n p s v c : get n p = Some c -> put n (p ++ s) v = put n p (put c s v).
Proof.
  revert n; induction p as [|x r IH]; intros n H.
  - cbn in *. now injection H as ->.
  - destruct n as [| pm mt ks | |]; try discriminate. cbn in H.
    destruct (kid x ks) as [c1|] eqn:Ek; [|discriminate].
    cbn [app]. rewrite !put_cons, Ek.
    replace (match r ++ s with [] => false | _ :: _ => false end) with false by (destruct (r ++ s); reflexivity).
    replace (match r with [] => false | _ :: _ => false end) with false by (destruct r; reflexivity).
    f_equal. apply (set_kid_ext x _ _ ks c1 Ek). f_equal. now apply IH.
Qed.

Lemma put_put_same n p a b : get n p <> None -> put (put n p a) p b = put n p b.
Proof.
  revert n; induction p as [|x r IH]; intros n H; [reflexivity|].
  destruct n as [| pm mt ks | |]; cbn in H; try congruence.
  destruct (kid x ks) as [c|] eqn:Ek; [|congruence].
  rewrite !put_cons, Ek, kid_set_kid_same, Ek.
  replace (match r with [] => false | _ :: _ => false end) with false by (destruct r; reflexivity).
  f_equal.
  (* the kids: x is present, so both sides rewrite the same child *)
  clear - Ek IH H. induction ks as [|[k c0] rest IHk]; cbn in *; [discriminate|].
  destruct (str_eqb k x) eqn:E.
  - injection Ek as ->. cbn. rewrite E. f_equal. f_equal. now apply IH.
  - cbn. rewrite E. f_equal. now apply IHk.
Qed.

(* ---------- compatible replacement ---------- *)
Definition compat (old : option node) (v : node) : Prop :=
  match old with
  | None => match v with File _ _ _ => True | Dir _ _ ks => ks = [] | Link _ => True | Special _ => False end
  | Some (File _ _ _) => match v with File _ _ _ => True | _ => False end
  | Some (Dir _ _ ks) => match v with Dir _ _ ks' => ks' = ks | _ => False end
  | Some (Link t) => v = Link t
  | Some (Special k) => v = Special k
  end.

Lemma rdir_put : forall q n p v, rdir n q -> compat (get n p) v -> rdir (put n p v) q.
Proof.
  induction q as [|y q' IH]; intros n p v H Hc.
  - destruct n as [| pm mt ks | |]; cbn in H; try contradiction.
    destruct p as [|x r]; [|rewrite put_cons; exact I].
    cbn in *. destruct v; try contradiction. exact I.
  - destruct n as [| pm mt ks | |]; cbn in H; try contradiction.
    destruct (kid y ks) as [c|] eqn:Ek; [|contradiction].
    destruct p as [|x r].
    + cbn in *. destruct v as [| pm' mt' ks' | |]; try contradiction. subst ks'. cbn. now rewrite Ek.
    + rewrite put_cons. cbn. destruct (str_eq_dec y x) as [->|Hne].
      * rewrite kid_set_kid_same, Ek. apply IH; [exact H|]. cbn in Hc. now rewrite Ek in Hc.
      * rewrite kid_set_kid_other by exact Hne. now rewrite Ek.
Qed.

Lemma is_link_put c r v : is_link c = false -> is_link v = false -> is_link (put c r v) = false.
Proof.
  intros Hc Hv. destruct r as [|x r]; [exact Hv|].
  destruct c; cbn; auto.
Qed.

Lemma nolink_put : forall q n p v,
  nolink n q -> compat (get n p) v -> is_link v = false -> nolink (put n p v) q.
Proof.
  induction q as [|y q' IH]; intros n p v H Hc Hv; [exact I|].
  destruct n as [d pm mt | pm mt ks | t | k].
  - destruct p as [|x r]; [|exact I]. cbn in Hc. destruct v; try contradiction. exact I.
  - destruct p as [|x r].
    + cbn in Hc. destruct v as [| pm' mt' ks' | |]; try contradiction. subst ks'. exact H.
    + rewrite put_cons. cbn in H |- *. destruct (str_eq_dec y x) as [->|Hne].
      * rewrite kid_set_kid_same. destruct (kid x ks) as [c|] eqn:Ek.
        -- destruct H as [H1 H2]. split; [now apply is_link_put|].
           apply IH; auto. cbn in Hc. now rewrite Ek in Hc.
        -- destruct r as [|x' r'].
           ++ split; [exact Hv|]. cbn in Hc. rewrite Ek in Hc.
              destruct v as [| pm' mt' ks' | |]; cbn in Hc, Hv; try contradiction; try discriminate.
              ** destruct q'; exact I.
              ** subst ks'. destruct q'; exact I.
           ++ rewrite ?Ek. exact I.
      * rewrite kid_set_kid_other by exact Hne. exact H.
  - destruct p as [|x r]; [|exact I]. cbn in Hc. subst v. discriminate.
  - destruct p as [|x r]; [|exact I]. cbn in Hc. subst v. exact I.
Qed.

(* ---------- resolution of link-free paths is lexical ---------- *)
Definition plainb (c : str) : bool := plain c.

Lemma walk_nil links fs fl cur : walk links fs fl cur [] = Ok cur.
Proof. destruct links; reflexivity. Qed.

Lemma walk_cons links fs fl cur c rest :
  walk links fs fl cur (c :: rest) =
  if is_empty c || is_dot c then walk links fs fl cur rest
  else if is_dotdot c then walk links fs fl (removelast cur) rest
  else
    let here := cur ++ [c] in
    match get fs here with
    | None => if is_nil rest then Ok here else Err ENOENT
    | Some (Link t) =>
        if is_nil rest && negb fl then Ok here
        else match links with
             | O => Err ELOOP
             | S l => match t with
                      | [] => Err ENOENT
                      | _ => walk l fs fl (if is_rooted t then [] else cur) (split_on slash t ++ rest)
                      end
             end
    | Some (Dir _ _ _) => walk links fs fl here rest
    | Some _ => if is_nil rest then Ok here else Err ENOTDIR
    end.
Proof. destruct links; reflexivity. Qed.

Lemma plain_flags c : plain c = true -> is_empty c || is_dot c = false /\ is_dotdot c = false.
Proof.
  unfold plain. rewrite !andb_true_iff, !negb_true_iff. intros [[H1 H2] H3].
  now rewrite H1, H2, H3.
Qed.

(* Walking a path none of whose existing components is a link, from a real
   directory: the answer, if any, is the lexical path, and all components but
   the last are directories.  With follow_last = false the last component may
   be a link. *)
Lemma walk_lexical fs fl : forall todo links cur c,
  get fs cur = Some c -> is_dir c = true ->
  forallb plainb todo = true ->
  (nolink c todo \/ (fl = false /\ nolink c (removelast todo))) ->
  forall ph, walk links fs fl cur todo = Ok ph ->
  ph = cur ++ todo /\ rdir c (removelast todo).
Proof.
  induction todo as [|x rest IH]; intros links cur c Hg Hd Hp Hn ph Hw.
  - rewrite walk_nil in Hw. injection Hw as <-. rewrite app_nil_r. split; [reflexivity|].
    destruct c; try discriminate. exact I.
  - cbn in Hp. apply andb_true_iff in Hp as [Hx Hp]. destruct (plain_flags x Hx) as [F1 F2].
    rewrite walk_cons, F1, F2 in Hw. cbn zeta in Hw.
    destruct c as [| pm mt ks | |]; try discriminate.
    rewrite get_app, Hg in Hw. cbn [get] in Hw.
    destruct (kid x ks) as [k|] eqn:Ek.
    + destruct rest as [|y rest'].
      * (* last component *)
        assert (Hres : ph = cur ++ [x]).
        { destruct k as [| | t |]; cbn [is_nil andb] in Hw; try (now injection Hw as <-).
          - rewrite walk_nil in Hw. now injection Hw as <-.
          - destruct Hn as [Hn|[-> _]].
            + cbn in Hn. rewrite Ek in Hn. destruct Hn as [Hl _]. discriminate.
            + cbn in Hw. now injection Hw as <-. }
        subst ph. split; [reflexivity|exact I].
      * (* more to come: x must be a real directory *)
        assert (Hk : is_link k = false /\ (nolink k (y :: rest') \/ (fl = false /\ nolink k (removelast (y :: rest'))))).
        { destruct Hn as [Hn|[Hf Hn]].
          - cbn in Hn. rewrite Ek in Hn. destruct Hn as [H1 H2]. auto.
          - change (removelast (x :: y :: rest')) with (x :: removelast (y :: rest')) in Hn.
            cbn in Hn. rewrite Ek in Hn. destruct Hn as [H1 H2]. auto. }
        destruct Hk as [Hkl Hkn].
        destruct k as [| pm' mt' ks' | t |]; cbn [is_nil] in Hw; try discriminate.
        assert (Hg' : get fs (cur ++ [x]) = Some (Dir pm' mt' ks')).
        { rewrite get_app, Hg. cbn. now rewrite Ek. }
        destruct (IH links (cur ++ [x]) _ Hg' eq_refl Hp Hkn ph Hw) as [-> Hr].
        split; [now rewrite <- app_assoc|].
        change (removelast (x :: y :: rest')) with (x :: removelast (y :: rest')). cbn. now rewrite Ek.
    + (* x does not exist *)
      destruct rest as [|y rest']; cbn [is_nil] in Hw; [|discriminate].
      injection Hw as <-. split; [reflexivity|exact I].
Qed.

Lemma rdir_snoc n pre x pm mt ks :
  rdir n pre -> get n (pre ++ [x]) = Some (Dir pm mt ks) -> rdir n (pre ++ [x]).
Proof.
  intros H Hg. apply rdir_app. split; [exact H|].
  destruct (rdir_get n pre H) as (pm' & mt' & ks' & Hp). exists (Dir pm' mt' ks'). split; [exact Hp|].
  rewrite get_app, Hp in Hg. cbn in Hg |- *. destruct (kid x ks') as [c|]; [|discriminate].
  injection Hg as ->. exact I.
Qed.

Lemma set_kid_same x f ks c : kid x ks = Some c -> f (Some c) = Some c -> set_kid x f ks = ks.
Proof.
  intros Hk Hf. induction ks as [|[k c0] rest IH]; cbn in *; [discriminate|].
  destruct (str_eqb k x) eqn:E.
  - injection Hk as ->. now rewrite Hf.
  - f_equal. now apply IH.
Qed.

Lemma put_get_same : forall p n c, get n p = Some c -> put n p c = n.
Proof.
  induction p as [|x r IH]; intros n c Hg; [cbn in *; congruence|].
  destruct n as [| pm mt ks | |]; try discriminate. cbn in Hg.
  destruct (kid x ks) as [k|] eqn:Ek; [|discriminate]. rewrite put_cons, Ek.
  replace (match r with [] => false | _ :: _ => false end) with false by (destruct r; reflexivity).
  f_equal. apply (set_kid_same x _ ks k Ek). f_equal. now apply IH.
Qed.
