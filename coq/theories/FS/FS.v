(* An abstract POSIX-like file system: a tree of nodes, the kernel's path
   resolution (symlinks spliced in, ".." physical, at most 40 link
   expansions), and the primitives go-slug calls, each resolving its argument
   the way the system call does.  Validated against the real kernel by the
   unpack/pack correspondence streams (every case runs in a chroot whose root
   is this model's root). *)
From Slug Require Import Base.Str Base.PathAlg.

Inductive node :=
| File (data : str) (perm : N) (mtime : option Z)   (* mtime None = set by the kernel to "now" *)
| Dir (perm : N) (mtime : option Z) (kids : list (str * node))
| Link (target : str)
| Special (kind : N).

Definition path := list str.   (* physical path: names from the root *)

Inductive ferr := ENOENT | ENOTDIR | EEXIST | EISDIR | ELOOP | EACCES | EOTHER.
Inductive res (A : Type) := Ok (a : A) | Err (e : ferr).
Arguments Ok {A} a.
Arguments Err {A} e.

Fixpoint kid (x : str) (kids : list (str * node)) : option node :=
  match kids with
  | [] => None
  | (k, c) :: r => if str_eqb k x then Some c else kid x r
  end.

Fixpoint get (n : node) (p : path) : option node :=
  match p with
  | [] => Some n
  | x :: r => match n with
              | Dir _ _ kids => match kid x kids with Some c => get c r | None => None end
              | _ => None
              end
  end.

(* update the child named x through f (f None = what to create when absent) *)
Fixpoint set_kid (x : str) (f : option node -> option node) (ks : list (str * node)) : list (str * node) :=
  match ks with
  | [] => match f None with Some v => [(x, v)] | None => [] end
  | (k, c) :: rest =>
      if str_eqb k x
      then match f (Some c) with Some v => (k, v) :: rest | None => (k, c) :: rest end
      else (k, c) :: set_kid x f rest
  end.

(* replace or insert the node at p; every proper prefix of p must be an
   existing directory, otherwise nothing changes.  Creating a new name in a
   directory sets that directory's mtime to "now". *)
Fixpoint put (n : node) (p : path) (v : node) {struct p} : node :=
  match p with
  | [] => v
  | x :: r =>
      match n with
      | Dir pm mt kids =>
          let fresh := match r, kid x kids with [], None => true | _, _ => false end in
          Dir pm (if fresh then None else mt)
            (set_kid x (fun oc => match oc with
                                  | Some c => Some (put c r v)
                                  | None => match r with [] => Some v | _ => None end
                                  end) kids)
      | _ => n
      end
  end.

Definition is_nil {A} (l : list A) : bool := match l with [] => true | _ => false end.

(* ---------- path resolution ---------- *)
(* [cur] is the physical path of the directory reached so far, [todo] the
   components still to be walked.  The result is the physical path of the
   object named; its last component may not exist. *)
Fixpoint walk (links : nat) (fs : node) (follow_last : bool) (cur : path) (todo : list str) {struct links} : res path :=
  (fix go (cur : path) (todo : list str) {struct todo} : res path :=
     match todo with
     | [] => Ok cur
     | c :: rest =>
         if is_empty c || is_dot c then go cur rest
         else if is_dotdot c then go (removelast cur) rest
         else
           let final := is_nil rest in
           let here := cur ++ [c] in
           match get fs here with
           | None => if final then Ok here else Err ENOENT
           | Some (Link t) =>
               if final && negb follow_last then Ok here
               else match links with
                    | O => Err ELOOP
                    | S l =>
                        match t with
                        | [] => Err ENOENT
                        | _ => walk l fs follow_last (if is_rooted t then [] else cur) (split_on slash t ++ rest)
                        end
                    end
           | Some (Dir _ _ _) => go here rest
           | Some _ => if final then Ok here else Err ENOTDIR
           end
     end) cur todo.

Definition max_links : nat := 40.

(* resolve an absolute path given by its components *)
Definition resolve (fs : node) (follow_last : bool) (p : list str) : res path :=
  walk max_links fs follow_last [] p.

(* components of a path string: what remains after dropping empty ones *)
Definition comps_of (p : str) : list str :=
  filter (fun c => negb (is_empty c)) (split_on slash p).
Definition join_abs (comps : list str) : str := slash :: join_with slash comps.

(* ---------- primitives (arguments: absolute paths as component lists) ---------- *)
Definition lstat (fs : node) (p : list str) : res node :=
  match resolve fs false p with
  | Err e => Err e
  | Ok ph => match get fs ph with Some n => Ok n | None => Err ENOENT end
  end.

Definition stat (fs : node) (p : list str) : res node :=
  match resolve fs true p with
  | Err e => Err e
  | Ok ph => match get fs ph with Some n => Ok n | None => Err ENOENT end
  end.

Definition is_dir (n : node) : bool := match n with Dir _ _ _ => true | _ => false end.
Definition is_link (n : node) : bool := match n with Link _ => true | _ => false end.

Definition umask_perm (perm : N) : N := N.land perm (N.lxor 511 18).  (* & ~022 *)

(* mkdir(2) *)
Definition mkdir (fs : node) (p : list str) (perm : N) : node * res unit :=
  match resolve fs false p with
  | Err e => (fs, Err e)
  | Ok ph =>
      match ph with
      | [] => (fs, Err EEXIST)
      | _ => match get fs ph with
             | Some _ => (fs, Err EEXIST)
             | None => (put fs ph (Dir (umask_perm perm) None []), Ok tt)
             end
      end
  end.

(* os.MkdirAll: components most recent first, so that the parent is a
   structural sub-term *)
Fixpoint mkdir_all_r (fs : node) (rcomps : list str) (perm : N) : node * res unit :=
  let p := rev rcomps in
  match stat fs p with
  | Ok n => if is_dir n then (fs, Ok tt) else (fs, Err ENOTDIR)
  | Err _ =>
      match rcomps with
      | [] => (fs, Err EOTHER)
      | _ :: parent =>
          match mkdir_all_r fs parent perm with
          | (fs1, Err e) => (fs1, Err e)
          | (fs1, Ok _) =>
              match mkdir fs1 p perm with
              | (fs2, Ok _) => (fs2, Ok tt)
              | (fs2, Err e) =>
                  match lstat fs2 p with
                  | Ok n => if is_dir n then (fs2, Ok tt) else (fs2, Err e)
                  | Err _ => (fs2, Err e)
                  end
              end
          end
      end
  end.

Definition mkdir_all (fs : node) (p : list str) (perm : N) : node * res unit :=
  mkdir_all_r fs (rev p) perm.

Definition owner_writable (perm : N) : bool := N.testbit perm 7.

(* open(O_RDWR|O_CREATE|O_TRUNC, 0666) followed by writing [data] and close *)
Definition create_write (is_root : bool) (fs : node) (p : list str) (data : str) : node * res unit :=
  match resolve fs true p with
  | Err e => (fs, Err e)
  | Ok ph =>
      match get fs ph with
      | None => match ph with
                | [] => (fs, Err EOTHER)
                | _ => (put fs ph (File data (umask_perm 438) None), Ok tt)
                end
      | Some (File _ perm _) =>
          if is_root || owner_writable perm then (put fs ph (File data perm None), Ok tt)
          else (fs, Err EACCES)
      | Some (Dir _ _ _) => (fs, Err EISDIR)
      | Some _ => (fs, Err EOTHER)
      end
  end.

(* symlink(2): never follows, fails on anything that exists *)
Definition symlink (fs : node) (target : str) (p : list str) : node * res unit :=
  match resolve fs false p with
  | Err e => (fs, Err e)
  | Ok ph =>
      match ph with
      | [] => (fs, Err EEXIST)
      | _ => match get fs ph with
             | Some _ => (fs, Err EEXIST)
             | None => match target with
                       | [] => (fs, Err ENOENT)
                       | _ => (put fs ph (Link target), Ok tt)
                       end
             end
      end
  end.

(* chmod(2): follows *)
Definition chmod (fs : node) (p : list str) (perm : N) : node * res unit :=
  match resolve fs true p with
  | Err e => (fs, Err e)
  | Ok ph =>
      match get fs ph with
      | Some (File d _ mt) => (put fs ph (File d perm mt), Ok tt)
      | Some (Dir _ mt kids) => (put fs ph (Dir perm mt kids), Ok tt)
      | Some _ => (fs, Ok tt)
      | None => (fs, Err ENOENT)
      end
  end.

(* utimensat without AT_SYMLINK_NOFOLLOW: follows *)
Definition chtimes (fs : node) (p : list str) (mtime : Z) : node * res unit :=
  match resolve fs true p with
  | Err e => (fs, Err e)
  | Ok ph =>
      match get fs ph with
      | Some (File d pm _) => (put fs ph (File d pm (Some mtime)), Ok tt)
      | Some (Dir pm _ kids) => (put fs ph (Dir pm (Some mtime) kids), Ok tt)
      | Some _ => (fs, Ok tt)
      | None => (fs, Err ENOENT)
      end
  end.
