(* Correspondence runner for the "prepare" stream: the file system of the
   chroot at the moment the package had been fetched into its working
   directory W, the state of the default-rule flags, and what became of the
   package: None = the build failed, Some tree = the package directory of the
   finished bundle. *)
From Slug Require Import Base.Str Base.PathAlg FS.FS Ignore.Rules Slug.Unpack Slug.Pack Bundle.Prepare Corr.RunUnpack.
Export Str FS Prepare.

Inductive pcase := CPrepare (fs : node) (W : list str) (flags : list bool) (final : option node).

Definition pcheck (c : pcase) : bool :=
  match c with
  | CPrepare fs W flags final =>
      match prepare_package 200 fs W flags, final with
      | WDone fs', Some t => match get fs' W with Some n => node_agree 64 n t | None => false end
      | WFail, None => true
      | _, _ => false
      end
  end.

Fixpoint pmismatches_from (i : N) (cs : list pcase) : list N :=
  match cs with
  | [] => []
  | c :: r => if pcheck c then pmismatches_from (i + 1) r else i :: pmismatches_from (i + 1) r
  end.
Definition mismatches := pmismatches_from 0.
Definition case := pcase.
