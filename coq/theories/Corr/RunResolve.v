(* Correspondence runner for the "resolve" stream: each case carries the
   inputs given to the implementation and what it returned; [check] evaluates
   the model on the same inputs and compares. *)
From Slug Require Import Base.Str Base.PathAlg Addr.Resolve.
Export Str Resolve.

Definition src_eqb (a b : src) : bool :=
  match a, b with
  | Local x, Local y => str_eqb x y
  | Registry p s, Registry p' s' => str_eqb p p' && str_eqb s s'
  | Remote p s, Remote p' s' => str_eqb p p' && str_eqb s s'
  | RegistryFinal p v s, RegistryFinal p' v' s' => str_eqb p p' && str_eqb v v' && str_eqb s s'
  | _, _ => false
  end.

Definition opt_eqb {A} (f : A -> A -> bool) (a b : option A) : bool :=
  match a, b with
  | Some x, Some y => f x y
  | None, None => true
  | _, _ => false
  end.

Inductive case :=
| CResolve (a b : src) (obs : option src)
| CFinalAddr (s rpkg rsub : str) (obs : src)
| CClean (s obs : str)
| CJoin2 (a b obs : str)
| CValidPath (s : str) (obs : bool)
| CValidSub (s : str) (obs : bool)
| CParseLocal (s : str) (obs : option str).

Definition check (c : case) : bool :=
  match c with
  | CResolve a b obs => opt_eqb src_eqb (resolve a b) obs
  | CFinalAddr s p r obs => src_eqb (final_source_addr s p r) obs
  | CClean s obs => str_eqb (clean s) obs
  | CJoin2 a b obs => str_eqb (join2 a b) obs
  | CValidPath s obs => Bool.eqb (valid_path s) obs
  | CValidSub s obs => Bool.eqb (match normalize_subpath s with Some _ => true | None => false end) obs
  | CParseLocal s obs => opt_eqb str_eqb (parse_local s) obs
  end.

Fixpoint mismatches_from (i : N) (cs : list case) : list N :=
  match cs with
  | [] => []
  | c :: r => if check c then mismatches_from (i + 1) r else i :: mismatches_from (i + 1) r
  end.
Definition mismatches := mismatches_from 0.
