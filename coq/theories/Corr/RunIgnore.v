(* Correspondence runner for the "ignore" stream. *)
From Slug Require Import Base.Str Ignore.Rules Ignore.Glob Ignore.GlobProofs Ignore.RulesProofs.
Export Str Rules.

Inductive case :=
| CRead (flags : list bool) (data : str) (obs : option (list rule)) (flags' : list bool)
| CExcl (rules : list rule) (path : str) (obs : bool * bool)
| CRuleOk (rules : list rule).

Definition rule_eqb (a b : rule) : bool :=
  str_eqb (r_val a) (r_val b) && Bool.eqb (r_neg a) (r_neg b) && Bool.eqb (r_negafter a) (r_negafter b).
Fixpoint list_eqb {A} (f : A -> A -> bool) (a b : list A) : bool :=
  match a, b with
  | [], [] => true
  | x :: a', y :: b' => f x y && list_eqb f a' b'
  | _, _ => false
  end.

Definition check (c : case) : bool :=
  match c with
  | CRead flags data obs flags' =>
      let '(r, fl) := read_rules flags data in
      list_eqb Bool.eqb fl flags' &&
      match r, obs with
      | PPanic, None => true
      | POk rs, Some os => list_eqb rule_eqb rs os
      | _, _ => false
      end
  | CExcl rules path (e, d) =>
      let '(e', d') := excludes rules path in Bool.eqb e e' && Bool.eqb d d'
  | CRuleOk rules => forallb rule_okb rules
  end.

Fixpoint mismatches_from (i : N) (cs : list case) : list N :=
  match cs with
  | [] => []
  | c :: r => if check c then mismatches_from (i + 1) r else i :: mismatches_from (i + 1) r
  end.
Definition mismatches := mismatches_from 0.
