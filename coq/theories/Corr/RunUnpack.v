(* Correspondence runner for the "unpack" stream: initial tree of the whole
   chroot, decoded entries, the result class and the final tree observed. *)
From Slug Require Import Base.Str Base.PathAlg FS.FS Slug.Unpack.
Export Str FS Unpack.

Inductive case :=
| CUnpack (is_root : bool) (init : node) (dst : str) (es : list entry) (r : ures) (final : node)
| CUnpackA (is_root : bool) (allow : list str) (init : node) (dst : str) (es : list entry) (r : ures) (final : node).

Definition ures_eqb (a b : ures) : bool :=
  match a, b with
  | ROk, ROk | RIllegal, RIllegal | RError, RError | RPanic, RPanic => true
  | _, _ => false
  end.

Definition hashc : ascii := "#"%char.

(* model mtime None = kernel-set: anything observed is accepted *)
Definition mtime_ok (m : option Z) (o : option Z) : bool :=
  match m, o with
  | None, _ => true
  | Some a, Some b => Z.eqb a b
  | Some _, None => false
  end.

(* observed file data longer than 64 bytes is given as "#<hash>": not compared *)
Definition data_ok (m o : str) : bool :=
  match o with c :: _ => if Ascii.eqb c hashc then true else str_eqb m o | [] => str_eqb m o end.

Fixpoint node_agree (fuel : nat) (m o : node) : bool :=
  match fuel with
  | O => false
  | S f =>
      match m, o with
      | File d p mt, File d' p' mt' => data_ok d d' && N.eqb p p' && mtime_ok mt mt'
      | Dir p mt ks, Dir p' mt' ks' =>
          N.eqb p p' && mtime_ok mt mt' && Nat.eqb (length ks) (length ks') &&
          forallb (fun kc : str * node =>
                     match kid (fst kc) ks' with
                     | Some c' => node_agree f (snd kc) c'
                     | None => false
                     end) ks
      | Link t, Link t' => str_eqb t t'
      | Special _, Special _ => true
      | _, _ => false
      end
  end.

Definition check (c : case) : bool :=
  match c with
  | CUnpack is_root init dst es r final =>
      let '(fs', r') := unpack is_root [] init dst es in
      ures_eqb r r' && node_agree 64 fs' final
  | CUnpackA is_root allow init dst es r final =>
      let '(fs', r') := unpack is_root allow init dst es in
      ures_eqb r r' && node_agree 64 fs' final
  end.

Fixpoint mismatches_from (i : N) (cs : list case) : list N :=
  match cs with
  | [] => []
  | c :: r => if check c then mismatches_from (i + 1) r else i :: mismatches_from (i + 1) r
  end.
Definition mismatches := mismatches_from 0.
