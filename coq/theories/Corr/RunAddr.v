(* Correspondence runner for the "addr" stream: each case carries an entry
   point, its input and what the implementation returned (all accessors of the
   accepted value, or rejection); [check] evaluates the model on the same input
   and compares every field.  A model answer Out (input outside the modelled
   domain) is only accepted when the harness declared the case out of domain. *)
From Slug Require Import Base.Str Base.PathAlg Addr.Resolve Addr.Url Addr.Parse Addr.RoundTrip Addr.RoundTripFinal.
Export Str Url Parse.

Inductive api := ApSource | ApFinal | ApRemote | ApRemotePkg | ApRegistry | ApRegistryPkg
               | ApFinalRegistry | ApLocal | ApMake (typ sub : str).

(* kind: 0 local, 1 remote, 2 remote package, 3 registry, 4 registry package, 5 final registry *)
Record obs := mkObs { o_kind : nat; o_str : str; o_sub : str; o_pkg : str; o_ver : str;
                      o_type : str; o_scheme : str; o_host : str; o_path : str; o_rawpath : str; o_query : str; o_frag : str }.

Definition obs_remote (k : nat) (p : rpkg) (sub : str) : obs :=
  let u := p_url p in
  mkObs k (match k with 1 => remote_string p sub | _ => rpkg_string p end) sub (rpkg_string p) []
        (p_type p) (u_scheme u) (u_host u) (u_path u) (u_rawpath u) (u_query u) (u_frag u).

Definition obs_addr (a : addr) : obs :=
  match a with
  | ALocal r => mkObs 0 r r [] [] [] [] [] [] [] [] []
  | ARemote p s => obs_remote 1 p s
  | ARegistry p s => mkObs 3 (registry_string p s) s (mpkg_string p) [] [] [] [] [] [] [] []
  | ARegistryFinal p v s => mkObs 5 (final_registry_string p v s) s (mpkg_string p) (version_string v) [] [] [] [] [] [] []
  end.

Definition rmap {A B} (f : A -> B) (x : res A) : res B :=
  match x with Ok a => Ok (f a) | Rej => Rej | Out => Out end.

Definition run_api (a : api) (s : str) : res obs :=
  match a with
  | ApSource => rmap obs_addr (parse_source s)
  | ApFinal => rmap obs_addr (parse_final_source s)
  | ApRemote => rmap (fun '(p, sub) => obs_remote 1 p sub) (parse_remote s)
  | ApRemotePkg => rmap (fun p => obs_remote 2 p []) (parse_remote_pkg s)
  | ApRegistry => rmap (fun '(p, sub) => obs_addr (ARegistry p sub)) (parse_registry s)
  | ApRegistryPkg => rmap (fun p => mkObs 4 (mpkg_string p) [] (mpkg_string p) [] [] [] [] [] [] [] []) (parse_registry_pkg s)
  | ApFinalRegistry => rmap (fun '(p, v, sub) => obs_addr (ARegistryFinal p v sub)) (parse_final_registry s)
  | ApLocal => match parse_local s with Some r => Ok (obs_addr (ALocal r)) | None => Rej end
  | ApMake typ sub =>
      (* the harness obtains the URL from url.Parse(s); a URL it cannot parse is no case *)
      match url_parse s with
      | Ok u => rmap (fun '(p, sub') => obs_remote 1 p sub') (make_remote_source typ u sub)
      | Rej => Out
      | Out => Out
      end
  end.

Definition obs_eqb (a b : obs) : bool :=
  Nat.eqb (o_kind a) (o_kind b) &&& str_eqb (o_str a) (o_str b) &&& str_eqb (o_sub a) (o_sub b)
  &&& str_eqb (o_pkg a) (o_pkg b) &&& str_eqb (o_ver a) (o_ver b) &&& str_eqb (o_type a) (o_type b)
  &&& str_eqb (o_scheme a) (o_scheme b) &&& str_eqb (o_host a) (o_host b) &&& str_eqb (o_path a) (o_path b) &&& str_eqb (o_rawpath a) (o_rawpath b)
  &&& str_eqb (o_query a) (o_query b) &&& str_eqb (o_frag a) (o_frag b).

(* a case: entry point, input, whether the harness considers it inside the
   model's domain, and the observation (None = rejected) *)
Inductive case := Case (a : api) (s : str) (in_dom : bool) (o : option obs).

(* every registry package value the parsers return is well formed in the sense the
   round-trip theorem (Addr/RoundTrip.v) assumes *)
Definition wf_check (a : api) (s : str) : bool :=
  match a with
  | ApRegistry => match parse_registry s with Ok (p, _) => wf_mpkgb p | _ => true end
  | ApRegistryPkg => match parse_registry_pkg s with Ok p => wf_mpkgb p | _ => true end
  | ApFinalRegistry => match parse_final_registry s with
                       | Ok (p, v, _) => wf_mpkgb p &&& wf_version v &&& negb (mem_char c_nl (m_host p))
                       | _ => true end
  | ApSource => match parse_source s with Ok (ARegistry p _) => wf_mpkgb p | _ => true end
  | ApFinal => match parse_final_source s with
               | Ok (ARegistryFinal p v _) => wf_mpkgb p &&& wf_version v &&& negb (mem_char c_nl (m_host p))
               | _ => true end
  | _ => true
  end.

Definition check (c : case) : bool :=
  wf_check (match c with Case a _ _ _ => a end) (match c with Case _ s _ _ => s end) &&&
  match c with
  | Case a s in_dom o =>
      match run_api a s, o with
      | Ok m, Some x => obs_eqb m x
      | Rej, None => true
      | Out, _ => negb in_dom
      | _, _ => false
      end
  end.

Fixpoint mismatches_from (i : N) (cs : list case) : list N :=
  match cs with
  | [] => []
  | c :: r => if check c then mismatches_from (i + 1) r else i :: mismatches_from (i + 1) r
  end.
Definition mismatches := mismatches_from 0.

(* round trip through the model itself, used by the harness-independent sanity examples *)
Definition reparse (o : obs) : res obs :=
  match o_kind o with
  | 0 => run_api ApLocal (o_str o)
  | 1 => run_api ApRemote (o_str o)
  | 2 => run_api ApRemotePkg (o_str o)
  | 3 => run_api ApRegistry (o_str o)
  | 4 => run_api ApRegistryPkg (o_str o)
  | _ => run_api ApFinalRegistry (o_str o)
  end.
