(* Correspondence runner for the "pack" stream. *)
From Slug Require Import Base.Str Base.PathAlg FS.FS Ignore.Rules Slug.Unpack Slug.Pack.
Export Str FS Rules Unpack Pack.

Inductive pobs :=
| OPOk (es : list pentry) (files : list str) (size : N)
| OPIllegal
| OPErr.

Inductive case :=
| CPack (fs : node) (opts : popts) (flags : list bool) (cwd : str) (src : str) (o : pobs) (flags' : list bool).

Definition pe_eqb (a b : pentry) : bool :=
  str_eqb (pe_name a) (pe_name b) && N.eqb (pe_type a) (pe_type b) && str_eqb (pe_link a) (pe_link b) &&
  (if N.eqb (pe_type a) ty_sym then true
   else N.eqb (pe_perm a) (pe_perm b) && (Z.eqb (pe_mtime a) 0 || Z.eqb (pe_mtime a) (pe_mtime b)) &&
        str_eqb (pe_body a) (pe_body b)).  (* model mtime 0 = kernel-set time of a node created without one *)

Fixpoint list_eqb {A} (f : A -> A -> bool) (a b : list A) : bool :=
  match a, b with
  | [], [] => true
  | x :: a', y :: b' => f x y && list_eqb f a' b'
  | _, _ => false
  end.

Definition check (c : case) : bool :=
  match c with
  | CPack fs opts flags cwd src o flags' =>
      let '(r, fl) := pack 4000 fs opts flags (comps_of cwd) src in
      list_eqb Bool.eqb fl flags' &&
      match r, o with
      | PackOk es files size, OPOk es' files' size' =>
          list_eqb pe_eqb es es' && list_eqb str_eqb files files' && N.eqb size size'
      | PackIllegal, OPIllegal => true
      | PackErr, OPErr => true
      | _, _ => false
      end
  end.

Fixpoint mismatches_from (i : N) (cs : list case) : list N :=
  match cs with
  | [] => []
  | c :: r => if check c then mismatches_from (i + 1) r else i :: mismatches_from (i + 1) r
  end.
Definition mismatches := mismatches_from 0.
