(* Correspondence runner for the "manifest" stream: a case is a manifest
   document (field-wise), the bundle root, what OpenDir made of it (the public
   accessors, sorted), and a list of lookups with their observed results. *)
From Slug Require Import Base.Str Base.PathAlg Addr.Resolve Addr.Url Addr.Parse Bundle.Lookup Bundle.ManifestRT.
Export Str Url Parse Lookup.

Inductive query :=
| QRemote (s : str) (obs : option str)            (* ParseRemoteSource(s) -> LocalPathForRemoteSource *)
| QFinal (s : str) (obs : option str)             (* ParseFinalSource(s) -> LocalPathForSource *)
| QReverse (p : str) (obs : option (str * str)).  (* SourceForLocalPath(p) -> (package text, sub-path) *)

(* what the accessors show: (package text, directory of its root, commit id, commit message),
   (registry package text, version text, source text, deprecation reason or "") *)
Record opened := mkOpened {
  o_pkgs : list (str * str * str * str);
  o_reg : list (str * str * str * str) }.

(* [written]: the document is one the real Close wrote (reopen stream): then the model of writeManifest,
   applied to the tables the model's OpenDir makes of it, must reproduce its package section, order included *)
Inductive case := Case (root : str) (m : manifest) (in_dom : bool) (written : bool) (o : option opened) (qs : list query).

Definition mpackage_eqb (a b : mpackage) : bool :=
  str_eqb (mp_source a) (mp_source b) &&& str_eqb (mp_local a) (mp_local b) &&&
  str_eqb (mp_commit a) (mp_commit b) &&& str_eqb (mp_message a) (mp_message b).

(* ---------- canonical listings of the model's bundle ---------- *)
Definition tup4_ltb (a b : str * str * str * str) : bool :=
  let '(a1, a2, a3, a4) := a in let '(b1, b2, b3, b4) := b in
  if str_eqb a1 b1 then
    if str_eqb a2 b2 then if str_eqb a3 b3 then str_ltb a4 b4 else str_ltb a3 b3
    else str_ltb a2 b2
  else str_ltb a1 b1.
Fixpoint ins4 (x : str * str * str * str) (l : list (str * str * str * str)) :=
  match l with
  | [] => [x]
  | y :: r => if tup4_ltb y x then y :: ins4 x r else x :: l
  end.
Definition sort4 (l : list (str * str * str * str)) := fold_right ins4 [] l.

Definition tup4_eqb (a b : str * str * str * str) : bool :=
  let '(a1, a2, a3, a4) := a in let '(b1, b2, b3, b4) := b in
  str_eqb a1 b1 &&& str_eqb a2 b2 &&& str_eqb a3 b3 &&& str_eqb a4 b4.
Fixpoint list_eqb {A} (f : A -> A -> bool) (a b : list A) : bool :=
  match a, b with
  | [], [] => true
  | x :: a', y :: b' => f x y &&& list_eqb f a' b'
  | _, _ => false
  end.

Definition listing_pkgs (b : bundle) : list (str * str * str * str) :=
  sort4 (map (fun '(p, d) =>
          let '(c, m) := match alookup rpkg_eqb p (b_meta b) with Some x => x | None => ([], []) end in
          (rpkg_string p, join3 (b_root b) d [], c, m)) (b_dirs b)).

Definition listing_reg (b : bundle) : list (str * str * str * str) :=
  sort4 (flat_map (fun '(p, vs) =>
          map (fun '(v, (rp, sub)) =>
            let reason := match alookup mpkg_eqb p (b_depr b) with
                          | Some ds => match alookup version_eqb v ds with
                                       | Some (Some d) => d_reason d
                                       | _ => []
                                       end
                          | None => []
                          end in
            (mpkg_string p, version_string v, remote_string rp sub, reason)) vs) (b_reg b)).

Definition opt_str_eqb (a b : option str) : bool :=
  match a, b with Some x, Some y => str_eqb x y | None, None => true | _, _ => false end.

(* a lookup agrees with the model; None when the model is outside its domain *)
Definition check_query (b : bundle) (q : query) : option bool :=
  match q with
  | QRemote s obs =>
      match parse_remote s with
      | Ok (p, sub) => Some (opt_str_eqb (local_path_remote b p sub) obs)
      | Rej => Some false   (* the harness only asks with addresses the implementation parsed *)
      | Out => None
      end
  | QFinal s obs =>
      match parse_final_source s with
      | Ok a => Some (opt_str_eqb (local_path_for b a) obs)
      | Rej => Some false
      | Out => None
      end
  | QReverse p obs =>
      match source_for_local_path b p, obs with
      | None, None => Some true
      | Some (d, sub, cands), Some (ptext, osub) =>
          Some (str_eqb sub osub &&& existsb (fun c => str_eqb (rpkg_string c) ptext) cands)
      | _, _ => Some false
      end
  end.

Definition check (c : case) : bool :=
  match c with
  | Case root m in_dom written o qs =>
      match open_dir root m, o with
      | Ok b, Some x =>
          list_eqb tup4_eqb (listing_pkgs b) (o_pkgs x) &&& list_eqb tup4_eqb (listing_reg b) (o_reg x)
          &&& (negb written ||| list_eqb mpackage_eqb (write_packages (b_dirs b) (b_meta b)) (m_packages m))
          &&& forallb (fun q => match check_query b q with Some r => r | None => negb in_dom end) qs
      | Rej, None => true
      | Out, _ => negb in_dom
      | _, _ => false
      end
  end.

Fixpoint mismatches_from (i : N) (cs : list case) : list N :=
  match cs with
  | [] => []
  | c :: r => if check c then mismatches_from (i + 1) r else i :: mismatches_from (i + 1) r
  end.
Definition mismatches := mismatches_from 0.
