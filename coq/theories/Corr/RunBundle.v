(* Correspondence runner for the "bundle" stream: a scripted world as tables,
   the operations performed, and what the real builder did. *)
From Slug Require Import Base.Str Base.PathAlg Addr.Resolve Bundle.Versions Bundle.Builder.
Export Str Versions Builder.

Definition pkgrow := (str * option (N * option (str * str)))%type.
Definition rpkgrow := (str * option (list (version * option (str * str))) * list (version * option (str * str)))%type.
Definition deprow := (N * str * N * list dep * list diag)%type.

Record wtable := mkWT {
  wt_pkgs : list pkgrow;
  wt_rpkgs : list rpkgrow;
  wt_deps : list deprow;
  wt_allowed : list (N * list version) }.

Definition world_of (t : wtable) : world :=
  {| w_fetch := fun p => match assoc str_eqb p (wt_pkgs t) with Some r => r | None => None end;
     w_versions := fun p =>
       match find (fun r : rpkgrow => str_eqb p (fst (fst r))) (wt_rpkgs t) with
       | Some (_, vs, _) => vs
       | None => None
       end;
     w_source := fun p v =>
       match find (fun r : rpkgrow => str_eqb p (fst (fst r))) (wt_rpkgs t) with
       | Some (_, _, ss) => match assoc version_eqb v ss with Some r => r | None => None end
       | None => None
       end;
     w_deps := fun c sub f =>
       match find (fun r : deprow => let '(c', s', f', _, _) := r in N.eqb c c' && str_eqb sub s' && N.eqb f f') (wt_deps t) with
       | Some (_, _, _, ds, gs) => (ds, gs)
       | None => ([], [])
       end;
     w_allowed := fun sid v =>
       match assoc N.eqb sid (wt_allowed t) with
       | Some vs => existsb (version_eqb v) vs
       | None => false
       end |}.

Inductive oout := OutDiags (ds : list diag) | OutRefused | OutClosed | OutOther.

Record obundle := mkOB {
  ob_dirs : list (str * N);                       (* package -> index of its directory name *)
  ob_metas : list (str * (str * str));
  ob_resolved : list ((str * version) * (str * str));
  ob_deprs : list ((str * version) * option (str * str)) }.

Record obs := mkObs {
  o_outcomes : list oout;
  o_bundle : option obundle;
  o_calls : list call;       (* in call order *)
  o_events : list event }.

Inductive case := CBuild (t : wtable) (ops : list op) (o : obs).

(* ---------- decidable equalities ---------- *)
Definition opt_eqb {A} (f : A -> A -> bool) (a b : option A) : bool :=
  match a, b with Some x, Some y => f x y | None, None => true | _, _ => false end.
Definition pair_eqb {A B} (f : A -> A -> bool) (g : B -> B -> bool) (a b : A * B) : bool :=
  f (fst a) (fst b) && g (snd a) (snd b).
Fixpoint list_eqb2 {A B} (f : A -> B -> bool) (a : list A) (b : list B) : bool :=
  match a, b with
  | [], [] => true
  | x :: a', y :: b' => f x y && list_eqb2 f a' b'
  | _, _ => false
  end.
Fixpoint list_eqb {A} (f : A -> A -> bool) (a b : list A) : bool :=
  match a, b with
  | [], [] => true
  | x :: a', y :: b' => f x y && list_eqb f a' b'
  | _, _ => false
  end.

Definition sev_eqb (a b : sev) : bool :=
  match a, b with SevError, SevError => true | SevWarning, SevWarning => true | _, _ => false end.
Definition diag_eqb (a b : diag) : bool :=
  sev_eqb (d_sev a) (d_sev b) && str_eqb (d_summary a) (d_summary b) && opt_eqb str_eqb (d_file a) (d_file b).

Definition call_eqb (a b : call) : bool :=
  match a, b with
  | CFetch p, CFetch q => str_eqb p q
  | CVersions p, CVersions q => str_eqb p q
  | CSource p v, CSource q u => str_eqb p q && version_eqb v u
  | CAnalyze x, CAnalyze y => rart_eqb x y
  | _, _ => false
  end.

Definition event_eqb (a b : event) : bool :=
  match a, b with
  | EVersionsStart p, EVersionsStart q | EVersionsSuccess p, EVersionsSuccess q
  | EVersionsFailure p, EVersionsFailure q | EVersionsAlready p, EVersionsAlready q
  | EDownloadStart p, EDownloadStart q | EDownloadSuccess p, EDownloadSuccess q
  | EDownloadFailure p, EDownloadFailure q | EDownloadAlready p, EDownloadAlready q => str_eqb p q
  | ESourceStart p v, ESourceStart q u | ESourceSuccess p v, ESourceSuccess q u
  | ESourceFailure p v, ESourceFailure q u | ESourceAlready p v, ESourceAlready q u => str_eqb p q && version_eqb v u
  | EDiagnostics n, EDiagnostics m => Nat.eqb n m
  | _, _ => false
  end.

Definition count {A} (f : A -> A -> bool) (x : A) (l : list A) : nat := length (filter (f x) l).
(* equal as multisets *)
Definition mset_eqb {A} (f : A -> A -> bool) (a b : list A) : bool :=
  Nat.eqb (length a) (length b) && forallb (fun x => Nat.eqb (count f x a) (count f x b)) a.

(* model outcome vs observed outcome *)
Definition outcome_eqb (m : outcome) (o : oout) : bool :=
  match m, o with
  | ODiags ds, OutDiags os => list_eqb diag_eqb ds os
  | ORefused, OutRefused => true
  | OClosed, OutClosed => true
  | _, _ => false
  end.

(* same partition: p and q share a model content iff they share an observed directory *)
Definition dirs_agree (m : list (pkg * content)) (o : list (str * N)) : bool :=
  Nat.eqb (length m) (length o) &&
  forallb (fun po : str * N =>
    match assoc str_eqb (fst po) m with
    | None => false
    | Some c =>
        forallb (fun qo : str * N =>
          match assoc str_eqb (fst qo) m with
          | None => false
          | Some c' => Bool.eqb (N.eqb c c') (N.eqb (snd po) (snd qo))
          end) o
    end) o.

Definition fuel : nat := 4000.

Definition check (c : case) : bool :=
  match c with
  | CBuild t ops o =>
      let w := world_of t in
      let '(st, outs) := run_ops fuel w init_state ops in
      list_eqb2 outcome_eqb outs (o_outcomes o)
      && mset_eqb call_eqb (calls st) (o_calls o)
      (* the trace is compared as an exact sequence: the model follows the code's traversal order *)
      && list_eqb event_eqb (rev (trace st)) (o_events o)
      && list_eqb call_eqb (rev (calls st)) (o_calls o)
      && match o_bundle o with
         | None => true
         | Some ob =>
             dirs_agree (dirs st) (ob_dirs ob)
             && mset_eqb (pair_eqb str_eqb (pair_eqb str_eqb str_eqb)) (metas st) (ob_metas ob)
             && mset_eqb (pair_eqb pv_eqb rsrc_eqb) (resolved st) (ob_resolved ob)
             && mset_eqb (pair_eqb pv_eqb (opt_eqb (pair_eqb str_eqb str_eqb))) (deprec st) (ob_deprs ob)
         end
  end.

(* which component disagrees: for diagnosing a mismatch *)
Definition explain (c : case) : list nat :=
  match c with
  | CBuild t ops o =>
      let w := world_of t in
      let '(st, outs) := run_ops fuel w init_state ops in
      (if list_eqb2 outcome_eqb outs (o_outcomes o) then [] else [1]) ++
      (if mset_eqb call_eqb (calls st) (o_calls o) then [] else [2]) ++
      (if list_eqb event_eqb (rev (trace st)) (o_events o) then [] else [3]) ++
      (if list_eqb call_eqb (rev (calls st)) (o_calls o) then [] else [4]) ++
      match o_bundle o with
      | None => []
      | Some ob =>
          (if dirs_agree (dirs st) (ob_dirs ob) then [] else [5]) ++
          (if mset_eqb (pair_eqb str_eqb (pair_eqb str_eqb str_eqb)) (metas st) (ob_metas ob) then [] else [6]) ++
          (if mset_eqb (pair_eqb pv_eqb rsrc_eqb) (resolved st) (ob_resolved ob) then [] else [7]) ++
          (if mset_eqb (pair_eqb pv_eqb (opt_eqb (pair_eqb str_eqb str_eqb))) (deprec st) (ob_deprs ob) then [] else [8])
      end
  end.

Fixpoint mismatches_from (i : N) (cs : list case) : list N :=
  match cs with
  | [] => []
  | c :: r => if check c then mismatches_from (i + 1) r else i :: mismatches_from (i + 1) r
  end.
Definition mismatches := mismatches_from 0.
