(* Correspondence runner for the "versions" stream: go-versions' precedence,
   stable sort and NewestInSet versus Bundle/Versions.v. *)
From Slug Require Import Base.Str Bundle.Versions.
Export Str Versions.

Inductive case :=
| CVlt (a b : version) (obs : bool)
| CVgt (a b : version) (obs : bool)
| CSame (a b : version) (obs : bool)
| CSort (l obs : list version)
| CNewest (l allowed : list version) (obs : version).

Fixpoint vlist_eqb (a b : list version) : bool :=
  match a, b with
  | [], [] => true
  | x :: a', y :: b' => version_eqb x y && vlist_eqb a' b'
  | _, _ => false
  end.

Definition check (c : case) : bool :=
  match c with
  | CVlt a b o => Bool.eqb (vlt a b) o
  | CVgt a b o => Bool.eqb (vgt a b) o
  | CSame a b o => Bool.eqb (same a b) o
  | CSort l o => vlist_eqb (sort_versions l) o
  | CNewest l al o =>
      version_eqb (newest_in_set' (sort_versions l) (fun v => existsb (version_eqb v) al)) o
  end.

Fixpoint mismatches_from (i : N) (cs : list case) : list N :=
  match cs with
  | [] => []
  | c :: r => if check c then mismatches_from (i + 1) r else i :: mismatches_from (i + 1) r
  end.
Definition mismatches := mismatches_from 0.
