(* Go's path.Clean / path.Join (= filepath.Clean/Join on Unix) and
   io/fs.ValidPath, restated over segment lists.  These are standard-library
   functions: the definitions here are *validated* against the real ones by
   the "path-alg" correspondence stream, not verified. *)
From Slug Require Import Base.Str.

Definition seg_dot : str := [dot].
Definition seg_dotdot : str := [dot; dot].

Definition is_dot (s : str) : bool := str_eqb s seg_dot.
Definition is_dotdot (s : str) : bool := str_eqb s seg_dotdot.

(* A "plain" segment: what survives cleaning as a name. *)
Definition plain (s : str) : bool :=
  negb (is_empty s) && negb (is_dot s) && negb (is_dotdot s).

(* Normalisation state: number of leading ".." and the names, most recent
   first. *)
Definition nstate := (nat * list str)%type.

Definition nstep (rooted : bool) (st : nstate) (seg : str) : nstate :=
  let (u, rn) := st in
  if is_empty seg || is_dot seg then st
  else if is_dotdot seg then
    match rn with
    | _ :: rn' => (u, rn')
    | [] => if rooted then (u, []) else (S u, [])
    end
  else (u, seg :: rn).

Definition nrun (rooted : bool) (st : nstate) (segs : list str) : nstate :=
  fold_left (nstep rooted) segs st.

Definition print_nf (rooted : bool) (st : nstate) : str :=
  let (u, rn) := st in
  let segs := repeat seg_dotdot u ++ rev rn in
  if rooted then slash :: join_with slash segs
  else match segs with [] => [dot] | _ => join_with slash segs end.

Definition is_rooted (s : str) : bool :=
  match s with c :: _ => Ascii.eqb c slash | [] => false end.

(* path.Clean *)
Definition clean (s : str) : str :=
  match s with
  | [] => [dot]
  | _ => let r := is_rooted s in print_nf r (nrun r (0, []) (split_on slash s))
  end.

(* path.Join(a, b) *)
Definition join2 (a b : str) : str :=
  match a, b with
  | [], [] => []
  | [], _ => clean b
  | _, _ => clean (a ++ slash :: b)
  end.

(* path.Dir for cleaned... general: everything up to the final slash, cleaned *)
Fixpoint last_slash_split (s : str) : option (str * str) :=
  (* Some (before-including-slash, after) at the LAST slash *)
  match s with
  | [] => None
  | c :: r =>
      match last_slash_split r with
      | Some (d, b) => Some (c :: d, b)
      | None => if Ascii.eqb c slash then Some ([c], r) else None
      end
  end.

Definition path_dir (s : str) : str :=
  match last_slash_split s with
  | Some (d, _) => clean d
  | None => [dot]
  end.

(* io/fs.ValidPath on valid UTF-8 input *)
Definition valid_path (s : str) : bool :=
  str_eqb s [dot] || forallb plain (split_on slash s).

(* filepath.IsLocal on Unix (lexical) *)
Definition is_local (s : str) : bool :=
  negb (is_rooted s) && negb (is_empty s) &&
  (let '(u, _) := nrun false (0, []) (split_on slash s) in Nat.eqb u 0).

(* ------------------------------------------------------------------ *)
(* Lemmas *)

Lemma plain_not_empty s : plain s = true -> s <> [].
Proof. unfold plain; destruct s; cbn; [discriminate|congruence]. Qed.

Lemma plain_cases s :
  plain s = true <-> (is_empty s = false /\ is_dot s = false /\ is_dotdot s = false).
Proof.
  unfold plain. rewrite !andb_true_iff, !negb_true_iff. tauto.
Qed.

Lemma nstep_plain r u rn seg : plain seg = true -> nstep r (u, rn) seg = (u, seg :: rn).
Proof.
  intros H. apply plain_cases in H as (H1 & H2 & H3).
  unfold nstep. now rewrite H1, H2, H3.
Qed.

Lemma nrun_app r st a b : nrun r st (a ++ b) = nrun r (nrun r st a) b.
Proof. unfold nrun. apply fold_left_app. Qed.

Lemma nrun_plain r u rn segs :
  forallb plain segs = true -> nrun r (u, rn) segs = (u, rev segs ++ rn).
Proof.
  revert rn; induction segs as [|g segs IH]; intros rn H; [reflexivity|].
  cbn in H. apply andb_true_iff in H as [Hg Hs].
  cbn [nrun fold_left]. rewrite nstep_plain by exact Hg.
  change (fold_left (nstep r) segs (u, g :: rn)) with (nrun r (u, g :: rn) segs).
  rewrite IH by exact Hs. cbn. now rewrite <- app_assoc.
Qed.

(* names kept in the state are always plain *)
Definition st_plain (st : nstate) : Prop := forallb plain (snd st) = true.

Lemma nstep_keeps_plain r st seg : st_plain st -> st_plain (nstep r st seg).
Proof.
  destruct st as [u rn]. unfold st_plain, nstep. cbn [snd].
  destruct (is_empty seg || is_dot seg) eqn:E1; [auto|].
  destruct (is_dotdot seg) eqn:E2.
  - destruct rn as [|x rn]; [destruct r; auto|]. cbn. intros H.
    apply andb_true_iff in H. tauto.
  - intros H. cbn. rewrite H, andb_true_r. unfold plain.
    apply orb_false_iff in E1 as [-> ->]. now rewrite E2.
Qed.

Lemma nrun_keeps_plain r segs st : st_plain st -> st_plain (nrun r st segs).
Proof.
  revert st; induction segs as [|g segs IH]; intros st H; [exact H|].
  cbn. apply IH. now apply nstep_keeps_plain.
Qed.

Lemma plain_no_slash_irrelevant : True. Proof. exact I. Qed.

(* A segment that came out of split_on has no slash. *)
Definition no_slash (s : str) : Prop := ~ In slash s.

Lemma dotdot_no_slash : no_slash seg_dotdot.
Proof. unfold no_slash, seg_dotdot, dot, slash. cbn. intros [H|[H|[]]]; discriminate. Qed.

(* ups of a non-rooted run never decrease, rooted runs never gain ups *)
Lemma nstep_rooted_ups st seg : fst (nstep true st seg) = fst st.
Proof.
  destruct st as [u rn]; unfold nstep.
  destruct (is_empty seg || is_dot seg); [reflexivity|].
  destruct (is_dotdot seg); [destruct rn; reflexivity|reflexivity].
Qed.

Lemma nrun_rooted_ups segs st : fst (nrun true st segs) = fst st.
Proof.
  revert st; induction segs as [|g segs IH]; intros st; [reflexivity|].
  cbn. change (fold_left (nstep true) segs (nstep true st g)) with (nrun true (nstep true st g) segs).
  rewrite IH. apply nstep_rooted_ups.
Qed.

(* valid_path characterisation *)
Lemma valid_path_plain s :
  valid_path s = true -> s <> [dot] -> forallb plain (split_on slash s) = true.
Proof.
  unfold valid_path. intros H Hn. apply orb_true_iff in H as [H|H]; [|exact H].
  apply str_eqb_eq in H. contradiction.
Qed.
