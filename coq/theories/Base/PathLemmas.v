(* Algebra of the normalisation machine of PathAlg: composition of
   normal forms, re-reading a printed normal form, idempotence of clean. *)
From Slug Require Import Base.Str Base.PathAlg.

(* ---------- split_on distributes over a separator ---------- *)
Lemma split_on_app c a b :
  split_on c (a ++ c :: b) = split_on c a ++ split_on c b.
Proof.
  induction a as [|x a IH]; cbn.
  - now rewrite Ascii.eqb_refl.
  - destruct (Ascii.eqb x c); [now rewrite IH|].
    rewrite IH. pose proof (split_on_nonempty c a).
    destruct (split_on c a); [congruence|reflexivity].
Qed.

(* ---------- well-formed states ---------- *)
Definition seg_ok (g : str) : bool := plain g && negb (mem_char slash g).
Definition st_ok (st : nstate) : Prop := forallb seg_ok (snd st) = true.

Lemma seg_ok_plain g : seg_ok g = true -> plain g = true.
Proof. unfold seg_ok. now intros H%andb_true_iff. Qed.

Lemma seg_ok_no_slash g : seg_ok g = true -> ~ In slash g.
Proof.
  unfold seg_ok. intros H%andb_true_iff. destruct H as [_ H].
  apply negb_true_iff in H. intros Hin. apply mem_char_In in Hin. congruence.
Qed.

Lemma forallb_seg_ok_plain l : forallb seg_ok l = true -> forallb plain l = true.
Proof.
  induction l as [|g l IH]; cbn; [auto|]. intros H%andb_true_iff.
  destruct H as [H1 H2]. rewrite (seg_ok_plain _ H1). auto.
Qed.

Definition segs_noslash (segs : list str) : Prop := forall g, In g segs -> ~ In slash g.

Lemma split_segs_noslash s : segs_noslash (split_on slash s).
Proof. intros g Hg. eapply split_on_segs_no_sep; eauto. Qed.

Lemma nstep_ok r st g : st_ok st -> ~ In slash g -> st_ok (nstep r st g).
Proof.
  destruct st as [u rn]. unfold st_ok, nstep; cbn [snd].
  destruct (is_empty g || is_dot g) eqn:E1; [auto|].
  destruct (is_dotdot g) eqn:E2.
  - destruct rn as [|x rn]; [destruct r; auto|]. cbn. now intros H%andb_true_iff.
  - intros H Hns. cbn. rewrite H, andb_true_r. unfold seg_ok, plain.
    apply orb_false_iff in E1 as [-> ->]. rewrite E2. cbn.
    apply negb_true_iff. destruct (mem_char slash g) eqn:E; [|reflexivity].
    apply mem_char_In in E. contradiction.
Qed.

Lemma nrun_ok r segs st : st_ok st -> segs_noslash segs -> st_ok (nrun r st segs).
Proof.
  revert st; induction segs as [|g segs IH]; intros st H Hs; [exact H|].
  cbn. apply IH.
  - apply nstep_ok; [exact H|apply Hs; now left].
  - intros x Hx. apply Hs. now right.
Qed.

(* ---------- composition of normal forms (non-rooted machine) ---------- *)
Definition ncomp (s1 s2 : nstate) : nstate :=
  let (u1, rn1) := s1 in
  let (u2, rn2) := s2 in
  if Nat.leb u2 (length rn1) then (u1, rn2 ++ skipn u2 rn1)
  else (u1 + (u2 - length rn1), rn2).

Lemma ncomp_id_r s : ncomp s (0, []) = s.
Proof. destruct s as [u rn]. reflexivity. Qed.

Lemma skipn_S_cons {A} n (l : list A) x l' :
  skipn n l = x :: l' -> skipn (S n) l = l'.
Proof.
  revert l; induction n as [|n IH]; intros l H; cbn in *.
  - now subst.
  - destruct l as [|y l]; [discriminate|]. cbn. destruct n; [cbn in H; now subst|].
    apply IH. exact H.
Qed.

Lemma skipn_nil_ge {A} n (l : list A) : skipn n l = [] -> length l <= n.
Proof.
  revert l; induction n as [|n IH]; intros l H; cbn in *.
  - subst; cbn; lia.
  - destruct l; cbn; [lia|]. apply IH in H. lia.
Qed.

Lemma skipn_cons_lt {A} n (l : list A) x l' : skipn n l = x :: l' -> n < length l.
Proof.
  revert l; induction n as [|n IH]; intros l H; cbn in *.
  - subst; cbn; lia.
  - destruct l; [discriminate|]. cbn. apply IH in H. lia.
Qed.

Lemma nstep_ncomp s1 s2 g :
  nstep false (ncomp s1 s2) g = ncomp s1 (nstep false s2 g).
Proof.
  destruct s1 as [u1 rn1], s2 as [u2 rn2]. unfold nstep at 2.
  destruct (is_empty g || is_dot g) eqn:E1.
  { unfold ncomp. destruct (Nat.leb u2 (length rn1)); unfold nstep; now rewrite E1. }
  destruct (is_dotdot g) eqn:E2.
  - destruct rn2 as [|x rn2].
    + (* second machine underflows: pops from the first *)
      unfold ncomp. destruct (Nat.leb_spec u2 (length rn1)) as [Hle|Hgt].
      * cbn [app]. unfold nstep. rewrite E1, E2.
        destruct (skipn u2 rn1) as [|y l] eqn:Es.
        -- apply skipn_nil_ge in Es.
           destruct (Nat.leb_spec (S u2) (length rn1)); [lia|].
           f_equal. lia.
        -- pose proof (skipn_cons_lt _ _ _ _ Es).
           destruct (Nat.leb_spec (S u2) (length rn1)); [|lia].
           cbn [app]. f_equal. symmetry. eapply skipn_S_cons; eauto.
      * unfold nstep. rewrite E1, E2.
        destruct (Nat.leb_spec (S u2) (length rn1)); [lia|]. f_equal. lia.
    + unfold ncomp. destruct (Nat.leb u2 (length rn1)); cbn [app]; unfold nstep; now rewrite E1, E2.
  - unfold ncomp. destruct (Nat.leb u2 (length rn1)); cbn [app]; unfold nstep; now rewrite E1, E2.
Qed.

Lemma nrun_snoc r st segs g : nrun r st (segs ++ [g]) = nstep r (nrun r st segs) g.
Proof. unfold nrun. now rewrite fold_left_app. Qed.

Theorem nrun_ncomp st segs :
  nrun false st segs = ncomp st (nrun false (0, []) segs).
Proof.
  induction segs as [|g segs IH] using rev_ind.
  - cbn. now rewrite ncomp_id_r.
  - rewrite !nrun_snoc, IH. apply nstep_ncomp.
Qed.

(* ---------- re-reading a printed normal form ---------- *)
Definition nf_segs (st : nstate) : list str := repeat seg_dotdot (fst st) ++ rev (snd st).

Lemma nrun_repeat_dotdot u0 n : nrun false (u0, []) (repeat seg_dotdot n) = (u0 + n, []).
Proof.
  revert u0; induction n as [|n IH]; intros u0; cbn.
  - f_equal; lia.
  - change (fold_left (nstep false) (repeat seg_dotdot n) (S u0, []))
      with (nrun false (S u0, []) (repeat seg_dotdot n)).
    rewrite IH. f_equal; lia.
Qed.

Lemma nrun_nf_segs st : st_ok st -> nrun false (0, []) (nf_segs st) = st.
Proof.
  destruct st as [u rn]. unfold st_ok, nf_segs; cbn [fst snd]. intros H.
  rewrite nrun_app, nrun_repeat_dotdot. cbn [Nat.add].
  rewrite nrun_plain.
  - now rewrite rev_involutive, app_nil_r.
  - rewrite forallb_forall. intros x Hx%in_rev.
    apply forallb_seg_ok_plain in H. rewrite forallb_forall in H. auto.
Qed.

Lemma nf_segs_noslash st : st_ok st -> segs_noslash (nf_segs st).
Proof.
  destruct st as [u rn]. unfold st_ok, nf_segs; cbn [fst snd]. intros H g Hg.
  apply in_app_or in Hg as [Hg|Hg].
  - apply repeat_spec in Hg. subst. apply dotdot_no_slash.
  - apply in_rev in Hg. rewrite forallb_forall in H. now apply seg_ok_no_slash, H.
Qed.

Lemma split_print_nf st :
  st_ok st -> nf_segs st <> [] ->
  split_on slash (print_nf false st) = nf_segs st.
Proof.
  intros Hok Hne. destruct st as [u rn]. unfold print_nf.
  change (repeat seg_dotdot u ++ rev rn) with (nf_segs (u, rn)) in *.
  destruct (nf_segs (u, rn)) as [|a l] eqn:E; [congruence|].
  rewrite <- E. apply split_join; [congruence|]. now apply nf_segs_noslash.
Qed.

(* denotation of a non-rooted path string *)
Definition den (s : str) : nstate := nrun false (0, []) (split_on slash s).

Lemma den_ok s : st_ok (den s).
Proof. apply nrun_ok; [reflexivity|apply split_segs_noslash]. Qed.

Lemma den_print st : st_ok st -> den (print_nf false st) = st.
Proof.
  intros Hok. unfold den.
  destruct (nf_segs st) as [|a l] eqn:E.
  - destruct st as [u rn]. unfold nf_segs in E; cbn [fst snd] in E.
    apply app_eq_nil in E as [E1 E2].
    assert (u = 0) by (destruct u; [reflexivity|discriminate]). subst u.
    assert (rn = []) by (destruct rn; [reflexivity|]; cbn in E2;
      apply app_eq_nil in E2 as [_ E2]; discriminate). subst rn.
    reflexivity.
  - rewrite split_print_nf by (auto; congruence). now apply nrun_nf_segs.
Qed.

Lemma print_nf_head st :
  st_ok st -> exists c rest, print_nf false st = c :: rest /\ c <> slash.
Proof.
  intros Hok. destruct st as [u rn]. unfold print_nf.
  destruct (repeat seg_dotdot u ++ rev rn) as [|a l] eqn:E.
  { exists dot, []. split; [reflexivity|discriminate]. }
  assert (Ha : In a (nf_segs (u, rn))) by (unfold nf_segs; cbn [fst snd]; rewrite E; now left).
  assert (Hns := nf_segs_noslash _ Hok a Ha).
  assert (Hne : a <> []).
  { unfold nf_segs in Ha; cbn [fst snd] in Ha. apply in_app_or in Ha as [Ha|Ha].
    - apply repeat_spec in Ha. subst. discriminate.
    - apply in_rev in Ha. unfold st_ok in Hok; cbn [snd] in Hok.
      rewrite forallb_forall in Hok. apply Hok, seg_ok_plain, plain_not_empty in Ha. exact Ha. }
  destruct a as [|c a]; [congruence|].
  assert (c <> slash) by (intros ->; apply Hns; now left).
  destruct l; cbn; eauto.
Qed.

Lemma print_nf_not_rooted st : st_ok st -> is_rooted (print_nf false st) = false.
Proof.
  intros Hok. destruct (print_nf_head st Hok) as (c & rest & -> & Hc).
  cbn. now apply Ascii.eqb_neq.
Qed.

Lemma print_nf_nonempty st : st_ok st -> print_nf false st <> [].
Proof.
  intros Hok. destruct (print_nf_head st Hok) as (c & rest & -> & Hc). discriminate.
Qed.

(* clean of a non-rooted, non-empty string prints its denotation *)
Lemma clean_den s : s <> [] -> is_rooted s = false -> clean s = print_nf false (den s).
Proof. intros Hne Hr. unfold clean, den. destruct s; [congruence|]. now rewrite Hr. Qed.

Lemma den_clean s : s <> [] -> is_rooted s = false -> den (clean s) = den s.
Proof. intros. rewrite clean_den by assumption. apply den_print, den_ok. Qed.

Theorem clean_idempotent_nonrooted s :
  s <> [] -> is_rooted s = false -> clean (clean s) = clean s.
Proof.
  intros Hne Hr.
  assert (Hc : clean s = print_nf false (den s)) by now apply clean_den.
  rewrite (clean_den (clean s)).
  - now rewrite den_clean.
  - rewrite Hc. apply print_nf_nonempty, den_ok.
  - rewrite Hc. apply print_nf_not_rooted, den_ok.
Qed.

(* the denotation of a concatenation *)
Lemma den_app a b :
  den (a ++ slash :: b) = nrun false (den a) (split_on slash b).
Proof. unfold den. now rewrite split_on_app, nrun_app. Qed.

Lemma den_dot_slash s : den (dot :: slash :: s) = den s.
Proof.
  change (dot :: slash :: s) with ([dot] ++ slash :: s). rewrite den_app. reflexivity.
Qed.
