(* Strings as lists of bytes (Go strings are byte sequences); basic string
   functions of Go's "strings" package in the fragment go-slug uses. *)
From Coq Require Export String Ascii List Bool Arith NArith ZArith Lia.
Export ListNotations.
Open Scope list_scope.

Definition str := list ascii.
Definition s2l (s : string) : str := list_ascii_of_string s.
Definition ch (n : N) : ascii := ascii_of_N n.

Definition slash : ascii := "/"%char.
Definition dot : ascii := "."%char.

Fixpoint str_eqb (a b : str) : bool :=
  match a, b with
  | [], [] => true
  | x :: a', y :: b' => Ascii.eqb x y && str_eqb a' b'
  | _, _ => false
  end.

Lemma str_eqb_spec a b : reflect (a = b) (str_eqb a b).
Proof.
  revert b; induction a as [|x a IH]; intros [|y b]; cbn; try (constructor; congruence).
  destruct (Ascii.eqb_spec x y) as [->|Hne]; cbn.
  - destruct (IH b) as [->|Hne]; constructor; congruence.
  - constructor; congruence.
Qed.

Lemma str_eqb_refl a : str_eqb a a = true.
Proof. destruct (str_eqb_spec a a); congruence. Qed.

Lemma str_eqb_eq a b : str_eqb a b = true <-> a = b.
Proof. destruct (str_eqb_spec a b); split; congruence. Qed.

Lemma str_eqb_neq a b : str_eqb a b = false <-> a <> b.
Proof. destruct (str_eqb_spec a b); split; congruence. Qed.

Lemma str_eq_dec (a b : str) : {a = b} + {a <> b}.
Proof. destruct (str_eqb_spec a b); auto. Qed.

(* strings.HasPrefix *)
Fixpoint has_prefix (s p : str) {struct p} : bool :=
  match p, s with
  | [], _ => true
  | y :: p', x :: s' => Ascii.eqb x y && has_prefix s' p'
  | _ :: _, [] => false
  end.

Lemma has_prefix_spec s p : has_prefix s p = true <-> exists r, s = p ++ r.
Proof.
  revert s; induction p as [|y p IH]; intros s; cbn.
  - split; [intros _; now exists s|reflexivity].
  - destruct s as [|x s]; cbn.
    + split; [discriminate|intros [r Hr]; discriminate].
    + rewrite andb_true_iff, IH. split.
      * intros [He [r ->]]. apply Ascii.eqb_eq in He; subst. eauto.
      * intros [r Hr]. injection Hr as -> ->. rewrite Ascii.eqb_refl. eauto.
Qed.

Definition has_suffix (s p : str) : bool := has_prefix (rev s) (rev p).

Lemma has_suffix_spec s p : has_suffix s p = true <-> exists r, s = r ++ p.
Proof.
  unfold has_suffix. rewrite has_prefix_spec. split; intros [r Hr].
  - exists (rev r). apply (f_equal (@rev ascii)) in Hr.
    rewrite rev_involutive, rev_app_distr, rev_involutive in Hr. exact Hr.
  - exists (rev r). subst. now rewrite rev_app_distr.
Qed.

(* strings.Split(s, string(c)) : never empty *)
Fixpoint split_on (c : ascii) (s : str) : list str :=
  match s with
  | [] => [[]]
  | x :: r =>
      if Ascii.eqb x c then [] :: split_on c r
      else match split_on c r with
           | [] => [[x]]
           | h :: t => (x :: h) :: t
           end
  end.

(* strings.Join(segs, string(c)) *)
Fixpoint join_with (c : ascii) (segs : list str) : str :=
  match segs with
  | [] => []
  | [a] => a
  | a :: rest => a ++ c :: join_with c rest
  end.

Lemma split_on_nonempty c s : split_on c s <> [].
Proof.
  induction s as [|x r IH]; cbn; [discriminate|].
  destruct (Ascii.eqb x c); [discriminate|].
  destruct (split_on c r); discriminate.
Qed.

Lemma join_split c s : join_with c (split_on c s) = s.
Proof.
  induction s as [|x r IH]; cbn; [reflexivity|].
  destruct (Ascii.eqb_spec x c) as [->|Hne].
  - pose proof (split_on_nonempty c r) as Hn.
    destruct (split_on c r) as [|h t] eqn:E; [congruence|].
    cbn [join_with]. cbn. now rewrite <- IH.
  - pose proof (split_on_nonempty c r) as Hn.
    destruct (split_on c r) as [|h t] eqn:E; [congruence|].
    rewrite <- IH. destruct t; reflexivity.
Qed.

Lemma split_on_no_sep c s : ~ In c s -> split_on c s = [s].
Proof.
  induction s as [|x r IH]; cbn; intros Hn; [reflexivity|].
  destruct (Ascii.eqb_spec x c) as [->|Hne]; [tauto|].
  rewrite IH by tauto. reflexivity.
Qed.

Lemma split_on_app_sep c a b :
  ~ In c a -> split_on c (a ++ c :: b) = a :: split_on c b.
Proof.
  induction a as [|x a IH]; cbn; intros Hn.
  - now rewrite Ascii.eqb_refl.
  - destruct (Ascii.eqb_spec x c) as [->|Hne]; [tauto|].
    rewrite IH by tauto. reflexivity.
Qed.

Lemma split_join c segs :
  segs <> [] -> (forall g, In g segs -> ~ In c g) ->
  split_on c (join_with c segs) = segs.
Proof.
  induction segs as [|a rest IH]; intros Hne Hall; [congruence|].
  destruct rest as [|b rest].
  - cbn. apply split_on_no_sep. apply Hall; now left.
  - change (join_with c (a :: b :: rest)) with (a ++ c :: join_with c (b :: rest)).
    rewrite split_on_app_sep by (apply Hall; now left).
    f_equal. apply IH; [discriminate|]. intros g Hg. apply Hall. now right.
Qed.

Lemma split_on_segs_no_sep c s g : In g (split_on c s) -> ~ In c g.
Proof.
  revert g; induction s as [|x r IH]; cbn; intros g Hg.
  - destruct Hg as [<-|[]]. tauto.
  - destruct (Ascii.eqb_spec x c) as [->|Hne].
    + destruct Hg as [<-|Hg]; [tauto|]. now apply IH.
    + pose proof (split_on_nonempty c r).
      destruct (split_on c r) as [|h t] eqn:E; [congruence|].
      destruct Hg as [<-|Hg].
      * intros [Hx|Hx]; [congruence|]. apply (IH h); [now left|exact Hx].
      * apply IH. now right.
Qed.

(* strings.Index(s, sub) as option nat *)
Fixpoint index_of (sub s : str) : option nat :=
  if has_prefix s sub then Some 0
  else match s with
       | [] => None
       | _ :: r => option_map S (index_of sub r)
       end.

Definition contains (s sub : str) : bool :=
  match index_of sub s with Some _ => true | None => false end.

Fixpoint index_byte (c : ascii) (s : str) : option nat :=
  match s with
  | [] => None
  | x :: r => if Ascii.eqb x c then Some 0 else option_map S (index_byte c r)
  end.

Definition mem_char (c : ascii) (s : str) : bool :=
  existsb (Ascii.eqb c) s.

Lemma mem_char_In c s : mem_char c s = true <-> In c s.
Proof.
  unfold mem_char. rewrite existsb_exists. split.
  - intros [x [Hin He]]. apply Ascii.eqb_eq in He. now subst.
  - intros H. exists c. split; [exact H|apply Ascii.eqb_refl].
Qed.

(* strings.TrimSpace for ASCII: space, \t \n \v \f \r *)
Definition is_space (a : ascii) : bool :=
  let n := N_of_ascii a in
  (N.eqb n 32 || (N.leb 9 n && N.leb n 13))%bool.

Fixpoint trim_left (s : str) : str :=
  match s with
  | x :: r => if is_space x then trim_left r else s
  | [] => []
  end.
Definition trim_space (s : str) : str := rev (trim_left (rev (trim_left s))).

(* strings.ToLower, ASCII only *)
Definition lower_char (a : ascii) : ascii :=
  let n := N_of_ascii a in
  if (N.leb 65 n && N.leb n 90)%bool then ascii_of_N (n + 32) else a.
Definition to_lower (s : str) : str := map lower_char s.

Definition str_ltb_char (a b : ascii) : bool := N.ltb (N_of_ascii a) (N_of_ascii b).
(* Go's string < : bytewise lexicographic *)
Fixpoint str_ltb (a b : str) : bool :=
  match a, b with
  | [], [] => false
  | [], _ :: _ => true
  | _ :: _, [] => false
  | x :: a', y :: b' =>
      if Ascii.eqb x y then str_ltb a' b' else str_ltb_char x y
  end.

Definition is_empty (s : str) : bool := match s with [] => true | _ => false end.

(* lazy boolean connectives: under call-by-value evaluation (vm_compute) the
   second operand of && / || is always computed; these are the same functions
   (see andl_spec, orl_spec) but only evaluate what is needed *)
Notation "a &&& b" := (if a then b else false) (at level 40, left associativity).
Notation "a ||| b" := (if a then true else b) (at level 50, left associativity).
Lemma andl_spec (a b : bool) : (a &&& b) = a && b. Proof. destruct a; reflexivity. Qed.
Lemma orl_spec (a b : bool) : (a ||| b) = a || b. Proof. destruct a; reflexivity. Qed.
