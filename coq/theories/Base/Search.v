(* First occurrences of "//" , "://" and single bytes in concatenations: the
   facts about strings.Index that the address printers rely on. *)
From Slug Require Import Base.Str.
From Coq Require Import Lia.

Definition colon_c : ascii := ":"%char.
Definition dslash : str := [slash; slash].
Definition css : str := [colon_c; slash; slash].

(* no "//" inside, and no '/' at the end *)
Fixpoint nds (a : str) : bool :=
  match a with
  | [] => true
  | c :: r => match r with
              | [] => negb (Ascii.eqb c slash)
              | d :: _ => negb (Ascii.eqb c slash && Ascii.eqb d slash) && nds r
              end
  end.

(* no ':' immediately followed by '/', and no ':' at the end *)
Fixpoint csf (a : str) : bool :=
  match a with
  | [] => true
  | c :: r => match r with
              | [] => negb (Ascii.eqb c colon_c)
              | d :: _ => negb (Ascii.eqb c colon_c && Ascii.eqb d slash) && csf r
              end
  end.

Lemma index_of_cons pat x r :
  index_of pat (x :: r) = if has_prefix (x :: r) pat then Some 0 else option_map S (index_of pat r).
Proof. reflexivity. Qed.

Lemma hp_dslash_cons c d r : has_prefix (c :: d :: r) dslash = Ascii.eqb c slash && Ascii.eqb d slash.
Proof. unfold dslash. cbn [has_prefix]. now rewrite andb_true_r. Qed.

Lemma hp_css_cons c d r : has_prefix (c :: d :: r) css = Ascii.eqb c colon_c && (Ascii.eqb d slash && has_prefix r [slash]).
Proof. reflexivity. Qed.

Lemma dslash_first a b : nds a = true -> index_of dslash (a ++ slash :: slash :: b) = Some (length a).
Proof.
  induction a as [|c r IH]; intros H; [reflexivity|].
  cbn [app]. rewrite index_of_cons. destruct r as [|d r'].
  - cbn in H. apply negb_true_iff in H. cbn [app]. rewrite hp_dslash_cons, H. reflexivity.
  - cbn [nds] in H. apply andb_true_iff in H as [H1 H2]. apply negb_true_iff in H1.
    change ((d :: r') ++ slash :: slash :: b) with (d :: (r' ++ slash :: slash :: b)) at 1.
    rewrite hp_dslash_cons, H1. rewrite (IH H2). reflexivity.
Qed.

Lemma dslash_none a : nds a = true -> index_of dslash a = None.
Proof.
  induction a as [|c r IH]; intros H; [reflexivity|].
  rewrite index_of_cons. destruct r as [|d r'].
  - cbn. destruct (Ascii.eqb c slash); reflexivity.
  - cbn [nds] in H. apply andb_true_iff in H as [H1 H2]. apply negb_true_iff in H1.
    rewrite hp_dslash_cons, H1. now rewrite (IH H2).
Qed.

Lemma css_first a b : csf a = true -> index_of css (a ++ colon_c :: slash :: slash :: b) = Some (length a).
Proof.
  induction a as [|c r IH]; intros H; [reflexivity|].
  cbn [app]. rewrite index_of_cons. destruct r as [|d r'].
  - cbn in H. apply negb_true_iff in H. cbn [app]. rewrite hp_css_cons, H. reflexivity.
  - cbn [csf] in H. apply andb_true_iff in H as [H1 H2]. apply negb_true_iff in H1.
    change ((d :: r') ++ colon_c :: slash :: slash :: b) with (d :: (r' ++ colon_c :: slash :: slash :: b)) at 1.
    rewrite hp_css_cons.
    replace (Ascii.eqb c colon_c && (Ascii.eqb d slash && _)) with false
      by (destruct (Ascii.eqb c colon_c), (Ascii.eqb d slash); cbn in *; congruence).
    rewrite (IH H2). reflexivity.
Qed.

Lemma css_none_of_dslash_none s : index_of dslash s = None -> index_of css s = None.
Proof.
  induction s as [|x r IH]; intros H; [reflexivity|].
  rewrite index_of_cons in *.
  destruct (has_prefix (x :: r) dslash) eqn:E; [discriminate|].
  destruct (index_of dslash r) eqn:Er; [discriminate|].
  rewrite (IH eq_refl).
  destruct (has_prefix (x :: r) css) eqn:E2; [|reflexivity].
  exfalso. unfold css in E2. cbn [has_prefix] in E2. apply andb_true_iff in E2 as [_ E2].
  destruct r as [|y r']; [discriminate|]. rewrite index_of_cons in Er.
  unfold dslash in Er. cbn [has_prefix] in *.
  destruct r' as [|z r'']; [rewrite andb_false_r in E2; discriminate|].
  cbn [has_prefix] in *. rewrite E2 in Er. discriminate.
Qed.

Lemma css_none_app a b :
  csf a = true -> index_of dslash b = None -> index_of css (a ++ slash :: slash :: b) = None.
Proof.
  intros Ha Hb. induction a as [|c r IH].
  - cbn [app]. rewrite index_of_cons, hp_css_cons. cbn [Ascii.eqb andb].
    replace (Ascii.eqb slash colon_c) with false by reflexivity. cbn [andb option_map].
    rewrite index_of_cons.
    assert (Hp : has_prefix (slash :: b) css = false) by reflexivity. rewrite Hp.
    now rewrite (css_none_of_dslash_none b Hb).
  - cbn [app]. rewrite index_of_cons. destruct r as [|d r'].
    + cbn in Ha. apply negb_true_iff in Ha. cbn [app]. rewrite hp_css_cons, Ha. cbn [andb].
      pose proof (IH eq_refl) as IH'. cbn [app] in IH'. now rewrite IH'.
    + cbn [csf] in Ha. apply andb_true_iff in Ha as [H1 H2]. apply negb_true_iff in H1.
      change ((d :: r') ++ slash :: slash :: b) with (d :: (r' ++ slash :: slash :: b)) at 1.
      rewrite hp_css_cons.
      replace (Ascii.eqb c colon_c && (Ascii.eqb d slash && _)) with false
        by (destruct (Ascii.eqb c colon_c), (Ascii.eqb d slash); cbn in *; congruence).
      now rewrite (IH H2).
Qed.

(* single bytes *)
Lemma index_byte_app c a b : ~ In c a -> index_byte c (a ++ c :: b) = Some (length a).
Proof.
  induction a as [|x a IH]; intros H; cbn.
  - now rewrite Ascii.eqb_refl.
  - destruct (Ascii.eqb_spec x c) as [->|_]; [exfalso; apply H; now left|].
    rewrite IH; [reflexivity|]. intros Hin. apply H. now right.
Qed.

Lemma index_byte_none c a : ~ In c a -> index_byte c a = None.
Proof.
  induction a as [|x a IH]; intros H; cbn; [reflexivity|].
  destruct (Ascii.eqb_spec x c) as [->|_]; [exfalso; apply H; now left|].
  rewrite IH; [reflexivity|]. intros Hin. apply H. now right.
Qed.

Lemma firstn_app_exact {A} (a b : list A) : firstn (length a) (a ++ b) = a.
Proof. rewrite firstn_app, Nat.sub_diag, firstn_all. cbn. now rewrite app_nil_r. Qed.

Lemma skipn_app_exact {A} (a b : list A) : skipn (length a) (a ++ b) = b.
Proof. rewrite skipn_app, Nat.sub_diag, skipn_all. reflexivity. Qed.

(* nds of strings assembled from slash-free, non-empty pieces *)
Lemma nds_noslash a : a <> [] -> ~ In slash a -> nds a = true.
Proof.
  induction a as [|c r IH]; intros Hne Hn; [congruence|].
  assert (Hc : Ascii.eqb c slash = false).
  { destruct (Ascii.eqb_spec c slash) as [->|]; [exfalso; apply Hn; now left|reflexivity]. }
  cbn [nds]. destruct r as [|d r']; [now rewrite Hc|].
  rewrite Hc. cbn [andb negb]. apply IH; [discriminate|]. intros H. apply Hn. now right.
Qed.

Definition starts_slash (b : str) : bool := match b with c :: _ => Ascii.eqb c slash | [] => false end.

Lemma nds_app_slash a b :
  nds a = true -> nds b = true -> b <> [] -> starts_slash b = false -> nds (a ++ slash :: b) = true.
Proof.
  intros Ha Hb Hne Hs.
  assert (Hbase : nds (slash :: b) = true).
  { destruct b as [|d r]; [congruence|]. cbn in Hs.
    change (nds (slash :: d :: r)) with (negb (Ascii.eqb slash slash && Ascii.eqb d slash) && nds (d :: r)).
    rewrite Hs, Hb. reflexivity. }
  induction a as [|c r IH]; [exact Hbase|].
  cbn [app]. destruct r as [|d r'].
  - cbn in Ha. apply negb_true_iff in Ha. cbn [app nds]. rewrite Ha. cbn [andb negb]. exact Hbase.
  - cbn [nds] in Ha. apply andb_true_iff in Ha as [H1 H2].
    change ((d :: r') ++ slash :: b) with (d :: (r' ++ slash :: b)) in *. cbn [nds].
    change (d :: r' ++ slash :: b) with ((d :: r') ++ slash :: b).
    rewrite H1. cbn [andb]. now apply IH.
Qed.

Lemma csf_nocolon a : ~ In colon_c a -> csf a = true.
Proof.
  induction a as [|c r IH]; intros Hn; [reflexivity|].
  assert (Hc : Ascii.eqb c colon_c = false).
  { destruct (Ascii.eqb_spec c colon_c) as [->|]; [exfalso; apply Hn; now left|reflexivity]. }
  cbn [csf]. destruct r as [|d r']; [now rewrite Hc|].
  rewrite Hc. cbn [andb negb]. apply IH. intros H. apply Hn. now right.
Qed.

(* a ++ "/" ++ b where b has no colon: csf is decided by a *)
Lemma csf_app_slash_nocolon a b :
  csf a = true -> ~ In colon_c b -> csf (a ++ slash :: b) = true.
Proof.
  intros Ha Hb.
  assert (Hbase : csf (slash :: b) = true).
  { apply csf_nocolon. intros [H|H]; [discriminate|contradiction]. }
  induction a as [|c r IH]; [exact Hbase|].
  cbn [app]. destruct r as [|d r'].
  - cbn in Ha. apply negb_true_iff in Ha. cbn [app csf]. rewrite Ha. cbn [andb negb]. exact Hbase.
  - cbn [csf] in Ha. apply andb_true_iff in Ha as [H1 H2].
    change ((d :: r') ++ slash :: b) with (d :: (r' ++ slash :: b)) in *. cbn [csf].
    change (d :: r' ++ slash :: b) with ((d :: r') ++ slash :: b).
    rewrite H1. cbn [andb]. now apply IH.
Qed.
