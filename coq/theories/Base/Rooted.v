(* Components of rooted (absolute) paths: cleaning a rooted path yields "/" followed by the
   names the normalisation machine has left on its stack. *)
From Slug Require Import Base.Str Base.PathAlg Base.PathLemmas.

Definition rcomps (p : str) : list str :=
  filter (fun g => negb (is_empty g)) (split_on slash (clean p)).

(* ---------- components of rooted paths ---------- *)
Definition rstack (p : str) : list str := snd (nrun true (0, []) (split_on slash p)).

Lemma rstack_ok p : st_ok (0, rstack p).
Proof.
  unfold rstack. pose proof (nrun_ok true (split_on slash p) (0, []) eq_refl (split_segs_noslash p)) as H.
  exact H.
Qed.

Lemma clean_rooted p : is_rooted p = true -> clean p = slash :: join_with slash (rev (rstack p)).
Proof.
  intros Hr. unfold clean. destruct p as [|c p]; [discriminate|]. rewrite Hr.
  unfold rstack. pose proof (nrun_rooted_ups (split_on slash (c :: p)) (0, [])) as Hu.
  destruct (nrun true (0, []) (split_on slash (c :: p))) as [u rn]. cbn in Hu. subst u. reflexivity.
Qed.

Lemma seg_ok_nonempty g : seg_ok g = true -> is_empty g = false.
Proof. intros H. apply seg_ok_plain, plain_cases in H. tauto. Qed.

Lemma filter_nonempty_ok l : forallb seg_ok l = true -> filter (fun g => negb (is_empty g)) l = l.
Proof.
  induction l as [|g l IH]; [reflexivity|]. cbn. intros H. apply andb_true_iff in H as [Hg Hl].
  rewrite (seg_ok_nonempty _ Hg). cbn. now rewrite IH.
Qed.

Lemma forallb_seg_ok_rev l : forallb seg_ok (rev l) = forallb seg_ok l.
Proof.
  induction l as [|x l IH]; [reflexivity|]. cbn.
  rewrite forallb_app, IH. cbn. rewrite andb_true_r. apply andb_comm.
Qed.

Lemma split_rooted_print rn :
  forallb seg_ok rn = true ->
  filter (fun g => negb (is_empty g)) (split_on slash (slash :: join_with slash (rev rn))) = rev rn.
Proof.
  intros H. cbn [split_on]. rewrite Ascii.eqb_refl. cbn [filter is_empty negb].
  destruct rn as [|g rn]; [reflexivity|].
  rewrite split_join.
  - apply filter_nonempty_ok. now rewrite forallb_seg_ok_rev.
  - cbn. destruct (rev rn); discriminate.
  - intros x Hx. apply seg_ok_no_slash. rewrite <- forallb_seg_ok_rev in H.
    rewrite forallb_forall in H. now apply H.
Qed.

Theorem rcomps_rooted p : is_rooted p = true -> rcomps p = rev (rstack p).
Proof.
  intros Hr. unfold rcomps. rewrite clean_rooted by exact Hr.
  apply split_rooted_print. apply (rstack_ok p).
Qed.

(* running the rooted machine over root ++ "/" ++ rel *)
Lemma rstack_app root rel :
  rstack (root ++ slash :: rel) = snd (nrun true (0, rstack root) (split_on slash rel)).
Proof.
  unfold rstack. rewrite split_on_app, nrun_app.
  pose proof (nrun_rooted_ups (split_on slash root) (0, [])) as Hu.
  destruct (nrun true (0, []) (split_on slash root)) as [u rn]. cbn in Hu. now subst u.
Qed.

Lemma rstack_app_plain root segs :
  segs <> [] -> forallb seg_ok segs = true ->
  rstack (root ++ slash :: join_with slash segs) = rev segs ++ rstack root.
Proof.
  intros Hne Hs. rewrite rstack_app, split_join; [|exact Hne|].
  - rewrite nrun_plain by now apply forallb_seg_ok_plain. reflexivity.
  - intros g Hg. apply seg_ok_no_slash. rewrite forallb_forall in Hs. now apply Hs.
Qed.


(* ---------- a relative path that never climbs above where it starts ---------- *)
Lemma nstep_false_ups st g : fst st <= fst (nstep false st g).
Proof.
  destruct st as [u rn]. unfold nstep. destruct (is_empty g || is_dot g); [cbn; lia|].
  destruct (is_dotdot g); [destruct rn; cbn; lia|cbn; lia].
Qed.

Lemma nrun_false_ups segs : forall st, fst st <= fst (nrun false st segs).
Proof.
  induction segs as [|g segs IH]; intros st; [cbn; lia|].
  cbn [nrun fold_left]. change (fold_left (nstep false) segs ?s) with (nrun false s segs).
  pose proof (nstep_false_ups st g). pose proof (IH (nstep false st g)). lia.
Qed.

(* ... behaves the same on top of any base, in rooted mode too *)
Lemma nstep_base st base g :
  fst (nstep false (0, st) g) = 0 ->
  nstep true (0, st ++ base) g = (0, snd (nstep false (0, st) g) ++ base).
Proof.
  unfold nstep. destruct (is_empty g || is_dot g); [reflexivity|].
  destruct (is_dotdot g); [|reflexivity].
  destruct st as [|s0 st']; [discriminate|reflexivity].
Qed.

Lemma nrun_base segs : forall st base,
  fst (nrun false (0, st) segs) = 0 ->
  nrun true (0, st ++ base) segs = (0, snd (nrun false (0, st) segs) ++ base).
Proof.
  induction segs as [|g segs IH]; intros st base H; [reflexivity|].
  cbn [nrun fold_left] in *. change (fold_left (nstep ?r) segs ?s) with (nrun r s segs) in *.
  pose proof (nrun_false_ups segs (nstep false (0, st) g)) as Hm.
  assert (H0 : fst (nstep false (0, st) g) = 0) by lia.
  rewrite (nstep_base st base g H0).
  destruct (nstep false (0, st) g) as [u st1]. cbn [fst snd] in *. subst u. now apply IH.
Qed.
