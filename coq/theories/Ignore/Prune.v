(* The ignore-related part of the Pack walk over an abstract tree: with and
   without pruning (filepath.SkipDir on a dominating directory match). *)
From Slug Require Import Base.Str Ignore.Rules Ignore.Glob Ignore.GlobProofs Ignore.RulesProofs.

Inductive tree := TFile (name : str) | TDir (name : str) (kids : list tree).

Definition child_path (prefix name : str) : str :=
  match prefix with [] => name | _ => prefix ++ slash :: name end.

(* entries shipped for a subtree; [prune] = honour Dominating with SkipDir *)
Fixpoint walk (prune : bool) (rules : list rule) (prefix : str) (t : tree) : list str :=
  match t with
  | TFile n =>
      let p := child_path prefix n in
      if fst (excludes rules p) then [] else [p]
  | TDir n kids =>
      let p := child_path prefix n in
      if fst (excludes rules p) then flat_map (walk prune rules p) kids
      else
        let '(e, d) := excludes rules (p ++ [slash]) in
        if e then (if prune && d then [] else flat_map (walk prune rules p) kids)
        else (p ++ [slash]) :: flat_map (walk prune rules p) kids
  end.

(* names as a file system has them: non-empty, no '/', and here no newline *)
Fixpoint tree_ok (t : tree) : Prop :=
  match t with
  | TFile n => n <> [] /\ nonl n
  | TDir n kids => n <> [] /\ nonl n /\ (fix all (l : list tree) : Prop :=
                     match l with [] => True | k :: r => tree_ok k /\ all r end) kids
  end.

Fixpoint all_ok (l : list tree) : Prop :=
  match l with [] => True | k :: r => tree_ok k /\ all_ok r end.

Lemma tree_ok_dir n kids : tree_ok (TDir n kids) <-> n <> [] /\ nonl n /\ all_ok kids.
Proof.
  cbn. assert (H : (fix all (l : list tree) : Prop := match l with [] => True | k :: r => tree_ok k /\ all r end) kids = all_ok kids).
  { induction kids as [|k kids IH]; cbn; [reflexivity|]. now rewrite IH. }
  rewrite H. tauto.
Qed.

(* induction principle that reaches the children *)
Lemma tree_ind2 (P : tree -> Prop) :
  (forall n, P (TFile n)) ->
  (forall n kids, Forall P kids -> P (TDir n kids)) ->
  forall t, P t.
Proof.
  intros Hf Hd. fix IH 1. intros [n|n kids]; [apply Hf|].
  apply Hd. induction kids as [|k kids IHk]; constructor; [apply IH|exact IHk].
Qed.

Lemma child_path_nonempty prefix n : prefix <> [] -> child_path prefix n = prefix ++ slash :: n.
Proof. destruct prefix; [congruence|reflexivity]. Qed.

Lemma slash_not_nl : slash <> nl.
Proof. discriminate. Qed.

(* everything below a directory whose whole subtree is excluded ships nothing *)
Lemma walk_all_excluded rules : forall t prefix,
  prefix <> [] -> tree_ok t ->
  (forall q, nonl q -> fst (excludes rules (prefix ++ slash :: q)) = true) ->
  walk false rules prefix t = [].
Proof.
  induction t as [n|n kids IH] using tree_ind2; intros prefix Hp Hok Hall.
  - cbn [walk]. rewrite child_path_nonempty by exact Hp. cbn in Hok. destruct Hok as [_ Hn].
    now rewrite Hall.
  - cbn [walk]. rewrite child_path_nonempty by exact Hp.
    apply tree_ok_dir in Hok as (Hne & Hn & Hkids).
    rewrite Hall by exact Hn.
    set (p := prefix ++ slash :: n).
    assert (Hp' : p <> []) by (unfold p; destruct prefix; discriminate).
    assert (Hall' : forall q, nonl q -> fst (excludes rules (p ++ slash :: q)) = true).
    { intros q Hq. unfold p. rewrite <- app_assoc. cbn [app].
      apply Hall. intros Hin. apply in_app_or in Hin as [Hin|[E|Hin]]; [now apply Hn| |now apply Hq].
      now apply slash_not_nl. }
    clear - IH Hkids Hp' Hall'. induction kids as [|k kids IHk]; [reflexivity|].
    cbn [flat_map]. inversion IH as [|? ? Hk Hks]; subst. destruct Hkids as [Hk1 Hk2].
    rewrite (Hk p Hp' Hk1 Hall'). cbn. now apply IHk.
Qed.

(* Pruning never changes what ships. *)
Theorem prune_eq_filter rules :
  flags_sound rules -> (forall r, In r rules -> rule_ok r) ->
  forall t prefix, tree_ok t -> walk true rules prefix t = walk false rules prefix t.
Proof.
  intros Hfs Hok. induction t as [n|n kids IH] using tree_ind2; intros prefix Ht; [reflexivity|].
  cbn [walk]. apply tree_ok_dir in Ht as (Hne & Hn & Hkids).
  set (p := child_path prefix n).
  assert (Hp : p <> []).
  { unfold p, child_path. destruct prefix; [exact Hne|discriminate]. }
  assert (Hkidseq : flat_map (walk true rules p) kids = flat_map (walk false rules p) kids).
  { clear - IH Hkids. induction kids as [|k kids IHk]; [reflexivity|].
    cbn [flat_map]. inversion IH as [|? ? Hk Hks]; subst. destruct Hkids as [Hk1 Hk2].
    rewrite (Hk p Hk1). f_equal. now apply IHk. }
  destruct (fst (excludes rules p)); [exact Hkidseq|].
  destruct (excludes rules (p ++ [slash])) as [e d] eqn:Ed.
  destruct e; [|now rewrite Hkidseq].
  destruct d; cbn [andb]; [|exact Hkidseq].
  (* pruned: the unpruned walk finds nothing either *)
  symmetry.
  assert (Hall : forall q, nonl q -> fst (excludes rules (p ++ slash :: q)) = true).
  { intros q Hq. change (p ++ slash :: q) with (p ++ [slash] ++ q). rewrite app_assoc.
    now apply (dominating_sound rules (p ++ [slash]) Hfs Hok Ed). }
  clear - Hkids Hp Hall. induction kids as [|k kids IHk]; [reflexivity|].
  cbn [flat_map]. destruct Hkids as [Hk1 Hk2].
  rewrite (walk_all_excluded rules k p Hp Hk1 Hall). cbn. now apply IHk.
Qed.

(* The unpruned walk does not look at the negations-after flags at all. *)
Definition same_but_flags (a b : list rule) : Prop :=
  map r_val a = map r_val b /\ map r_neg a = map r_neg b.

Lemma excludes_fst_flags a : forall b p acc acc',
  same_but_flags a b -> fst acc = fst acc' ->
  fst (fold_left (excl_step p) a acc) = fst (fold_left (excl_step p) b acc').
Proof.
  induction a as [|x a IH]; intros [|y b] p acc acc' [Hv Hn] Hacc; try discriminate; [exact Hacc|].
  cbn in Hv, Hn. injection Hv as Hv1 Hv2. injection Hn as Hn1 Hn2.
  cbn [fold_left]. apply IH; [split; assumption|].
  unfold excl_step, rule_match. rewrite Hv1. destruct (tmatch _ _); [cbn; now rewrite Hn1|exact Hacc].
Qed.

Lemma walk_false_flags a b : same_but_flags a b ->
  forall t prefix, walk false a prefix t = walk false b prefix t.
Proof.
  intros Hs. assert (He : forall p, fst (excludes a p) = fst (excludes b p)).
  { intros p. unfold excludes. now apply excludes_fst_flags. }
  induction t as [n|n kids IH] using tree_ind2; intros prefix; cbn [walk].
  - now rewrite He.
  - set (p := child_path prefix n).
    assert (Hk : flat_map (walk false a p) kids = flat_map (walk false b p) kids).
    { clear - IH. induction kids as [|k kids IHk]; [reflexivity|].
      cbn [flat_map]. inversion IH; subst. f_equal; auto. }
    rewrite He. destruct (fst (excludes b p)); [exact Hk|].
    pose proof (He (p ++ [slash])) as He2.
    destruct (excludes a (p ++ [slash])) as [e d], (excludes b (p ++ [slash])) as [e' d'].
    cbn in He2. subst e'. cbn [andb]. destruct e; now rewrite Hk.
Qed.

(* History independence (C16): whatever reachable state the shared default
   flags were in when the rule file was parsed, Pack ships the same entries. *)
Theorem walk_history_independent a b :
  same_but_flags a b ->
  flags_sound a -> flags_sound b ->
  (forall r, In r a -> rule_ok r) -> (forall r, In r b -> rule_ok r) ->
  forall t prefix, tree_ok t -> walk true a prefix t = walk true b prefix t.
Proof.
  intros Hs Fa Fb Oa Ob t prefix Ht.
  rewrite (prune_eq_filter a Fa Oa t prefix Ht), (prune_eq_filter b Fb Ob t prefix Ht).
  now apply walk_false_flags.
Qed.
