(* The built-in rules: with no rule file, a path is excluded iff it lies under
   a .git directory, or under a .terraform directory but not under
   .terraform/modules.  Derived through compile_correct. *)
From Slug Require Import Base.Str Ignore.Rules Ignore.Glob Ignore.GlobProofs Ignore.RulesProofs.

Definition lits (s : str) : list atom := map ALit s.

Lemma amatch_lits name g : amatch (lits name) g = str_eqb g name.
Proof.
  revert g; induction name as [|c name IH]; intros [|x g]; cbn; try reflexivity.
  now rewrite IH.
Qed.

Definition name_git : str := s2l ".git".
Definition name_tf : str := s2l ".terraform".
Definition name_mod : str := s2l "modules".

Definition pat_git : list gseg := [GDouble; GSeg (lits name_git); GDouble].
Definition pat_tf : list gseg := [GDouble; GSeg (lits name_tf); GDouble].
Definition pat_mod : list gseg := [GDouble; GSeg (lits name_tf); GSeg (lits name_mod); GDouble].

Lemma default_vals_written :
  default_vals = [(pat_text pat_tf, false); (pat_text pat_mod, true); (pat_text pat_git, false)].
Proof. reflexivity. Qed.

(* "some segment named d, with at least one more segment after it" *)
Definition under (d : list str) (segs : list str) : Prop :=
  exists pre post, segs = pre ++ d ++ post /\ post <> [].

Lemma gmatch_under_1 name segs :
  gmatch [GDouble; GSeg (lits name); GDouble] segs = true <-> under [name] segs.
Proof.
  change (gmatch [GDouble; GSeg (lits name); GDouble]) with (skip_go (gmatch [GSeg (lits name); GDouble])).
  rewrite skip_go_spec. split.
  - intros (a & b & -> & H). destruct b as [|g b]; [discriminate|]. rewrite GE1 in H.
    apply andb_true_iff in H as [Hg Hb]. rewrite amatch_lits in Hg. apply str_eqb_eq in Hg. subst g.
    exists a, b. split; [reflexivity|]. destruct b; [discriminate|discriminate].
  - intros (pre & post & -> & Hp). exists pre, (name :: post). split; [reflexivity|].
    rewrite GE1, amatch_lits, str_eqb_refl. destruct post; [congruence|reflexivity].
Qed.

Lemma gmatch_under_2 n1 n2 segs :
  gmatch [GDouble; GSeg (lits n1); GSeg (lits n2); GDouble] segs = true <-> under [n1; n2] segs.
Proof.
  change (gmatch [GDouble; GSeg (lits n1); GSeg (lits n2); GDouble])
    with (skip_go (gmatch [GSeg (lits n1); GSeg (lits n2); GDouble])).
  rewrite skip_go_spec. split.
  - intros (a & b & -> & H). destruct b as [|g b]; [discriminate|]. rewrite GE1 in H.
    apply andb_true_iff in H as [Hg Hb]. rewrite amatch_lits in Hg. apply str_eqb_eq in Hg. subst g.
    destruct b as [|g b]; [discriminate|]. rewrite GE1 in Hb.
    apply andb_true_iff in Hb as [Hg Hb]. rewrite amatch_lits in Hg. apply str_eqb_eq in Hg. subst g.
    exists a, b. split; [reflexivity|]. destruct b; [discriminate|discriminate].
  - intros (pre & post & -> & Hp). exists pre, (n1 :: n2 :: post). split; [reflexivity|].
    rewrite !GE1, !amatch_lits, !str_eqb_refl. destruct post; [congruence|reflexivity].
Qed.

Lemma pats_ok : pat_ok pat_git = true /\ pat_ok pat_tf = true /\ pat_ok pat_mod = true.
Proof. repeat split; reflexivity. Qed.

Theorem defaults_spec flags path :
  length flags = 3 -> nonl path ->
  let segs := split_on slash path in
  fst (excludes (default_rules flags) path) = true <->
  (under [name_git] segs \/ (under [name_tf] segs /\ ~ under [name_tf; name_mod] segs)).
Proof.
  intros Hlen Hnl segs. destruct flags as [|f0 [|f1 [|f2 [|? ?]]]]; try discriminate.
  destruct pats_ok as (Og & Ot & Om).
  unfold excludes, default_rules. cbn [combine default_vals map fold_left fst snd].
  unfold excl_step, rule_match. cbn [r_val r_neg r_negafter].
  change (s2l "**/.terraform/**") with (pat_text pat_tf).
  change (s2l "**/.terraform/modules/**") with (pat_text pat_mod).
  change (s2l "**/.git/**") with (pat_text pat_git).
  rewrite !compile_correct by assumption. fold segs.
  pose proof (gmatch_under_1 name_git segs) as Hg.
  pose proof (gmatch_under_1 name_tf segs) as Ht.
  pose proof (gmatch_under_2 name_tf name_mod segs) as Hm.
  fold pat_git in Hg. fold pat_tf in Ht. fold pat_mod in Hm.
  destruct (gmatch pat_tf segs), (gmatch pat_mod segs), (gmatch pat_git segs); cbn;
    intuition (try discriminate; try congruence).
Qed.
