(* Model of internal/ignorefiles: readRules (with the package-level default
   rule flags threaded as explicit state), rule.compile as a tokenizer into the
   regular-expression shapes it emits, matching of those shapes, and
   Ruleset.Excludes. *)
From Slug Require Import Base.Str.

Record rule := mkRule { r_val : str; r_neg : bool; r_negafter : bool }.

Inductive pres (A : Type) := POk (a : A) | PPanic.
Arguments POk {A} a.
Arguments PPanic {A}.

Definition star : ascii := "*"%char.
Definition qmark : ascii := "?"%char.
Definition bang : ascii := "!"%char.
Definition hash : ascii := "#"%char.
Definition nl : ascii := ch 10.
Definition cr : ascii := ch 13.
Definition dollar : ascii := "$"%char.
Definition bslash : ascii := "\"%char.

(* ---------- bufio.ScanLines ---------- *)
Definition drop_cr (l : str) : str :=
  match rev l with
  | c :: r => if Ascii.eqb c cr then rev r else l
  | [] => l
  end.
Definition scan_lines (data : str) : list str :=
  let ls := split_on nl data in
  let ls := match rev ls with
            | [] :: r => rev r      (* no empty final line after a trailing newline / for empty input *)
            | _ => ls
            end in
  map drop_cr ls.

(* ---------- readRules ---------- *)
(* the default rules: values are fixed, flags are package-level mutable state *)
Definition dstar2 : str := [star; star].
Definition default_vals : list (str * bool) :=
  [ (s2l "**/.terraform/**", false); (s2l "**/.terraform/modules/**", true); (s2l "**/.git/**", false) ].
Definition pristine_flags : list bool := [true; false; false].

Definition default_rules (flags : list bool) : list rule :=
  map (fun vf => mkRule (fst (fst vf)) (snd (fst vf)) (snd vf)) (combine default_vals flags).

(* mark rules from the end of [rs] backwards until an already marked one:
   [rs] is given most-recent-first *)
Fixpoint mark_back (rs : list rule) : list rule :=
  match rs with
  | [] => []
  | r :: rest => if r_negafter r then rs
                 else mkRule (r_val r) (r_neg r) true :: mark_back rest
  end.

Definition last_char (s : str) : option ascii :=
  match rev s with c :: _ => Some c | [] => None end.

(* one line; [rs] most recent first; [shared] = no rule appended yet, so writes
   still hit the package-level array *)
Definition read_line (rs : list rule) (line : str) : pres (list rule) :=
  match line with
  | [] => POk rs
  | _ =>
      let p := trim_space line in
      match p with
      | [] => POk rs                                  (* blank once trimmed: skipped *)
      | c0 :: rest0 =>
          if Ascii.eqb c0 hash then POk rs
          else if Ascii.eqb c0 bang && is_empty rest0 then POk rs   (* a lone "!" *)
          else
            let '(neg, p, rs) :=
              if Ascii.eqb c0 bang then (true, rest0, mark_back rs) else (false, p, rs) in
            match last_char p with
            | None => PPanic                          (* unreachable: p is non-empty here *)
            | Some lc =>
                let p := if Ascii.eqb lc slash then p ++ dstar2 else p in
                let p := match p with
                         | c :: r => if Ascii.eqb c slash then r else dstar2 ++ slash :: p
                         | [] => p
                         end in
                POk (mkRule p neg false :: rs)
            end
      end
  end.

Fixpoint read_lines (rs : list rule) (lines : list str) : pres (list rule) :=
  match lines with
  | [] => POk rs
  | l :: more => match read_line rs l with
                 | PPanic => PPanic
                 | POk rs' => read_lines rs' more
                 end
  end.

(* the first non-skipped line decides whether the shared default flags change:
   they change exactly when marking happens before the first append *)
Fixpoint first_effective (lines : list str) : option str :=
  match lines with
  | [] => None
  | l :: more =>
      match trim_space l with
      | [] => first_effective more
      | c :: r => if Ascii.eqb c hash then first_effective more
                  else if Ascii.eqb c bang && is_empty r then first_effective more
                  else Some (trim_space l)
      end
  end.

Definition flags_after (flags : list bool) (lines : list str) : list bool :=
  match first_effective lines with
  | Some (c :: _) => if Ascii.eqb c bang
                     then map r_negafter (rev (mark_back (rev (default_rules flags))))
                     else flags
  | _ => flags
  end.

(* readRules: result rules in file order, and the default flags afterwards *)
Definition read_rules (flags : list bool) (data : str) : pres (list rule) * list bool :=
  let lines := scan_lines data in
  match read_lines (rev (default_rules flags)) lines with
  | PPanic => (PPanic, flags_after flags lines)
  | POk rs => (POk (rev rs), flags_after flags lines)
  end.

(* ---------- rule.compile: pattern -> regular expression, as tokens ---------- *)
Inductive tok :=
| TLit (c : ascii)      (* the character itself *)
| TEsc (c : ascii)      (* "\" followed by c, or an escaped '.' / '$' *)
| TStar                 (* [^/]*  *)
| TQ                    (* [^/]   *)
| TDSS                  (* (.*/)? *)
| TDSE                  (* .*     *)
| TBslashEnd.           (* a trailing "\" : escapes the final "$" of the expression *)

(* characters the translation escapes: they match themselves *)
Definition escaped_chars : str := s2l ".$+()|{}^".

Fixpoint tokenize (s : str) : list tok :=
  match s with
  | [] => []
  | c :: r =>
      if Ascii.eqb c star then
        match r with
        | c2 :: r2 =>
            if Ascii.eqb c2 star then
              (* some flavour of "**": eat a following "/" *)
              match r2 with
              | c3 :: r3 =>
                  if Ascii.eqb c3 slash
                  then match r3 with [] => [TDSE] | _ => TDSS :: tokenize r3 end
                  else TDSS :: tokenize r2
              | [] => [TDSE]
              end
            else TStar :: tokenize r
        | [] => [TStar]
        end
      else if Ascii.eqb c qmark then TQ :: tokenize r
      else if existsb (Ascii.eqb c) escaped_chars then TEsc c :: tokenize r
      else if Ascii.eqb c bslash then
        match r with
        | c2 :: r2 => TEsc c2 :: tokenize r2
        | [] => [TBslashEnd]
        end
      else TLit c :: tokenize r
  end.

(* is the generated expression inside the fragment the model interprets?
   (no character that Go's regexp would read as an operator or class) *)
Definition is_alnum (c : ascii) : bool :=
  let n := N_of_ascii c in
  (N.leb 48 n && N.leb n 57) || (N.leb 65 n && N.leb n 90) || (N.leb 97 n && N.leb n 122).
Definition regexp_active (c : ascii) : bool :=
  existsb (Ascii.eqb c) (s2l "[]*?\").
Definition tok_in_model (t : tok) : bool :=
  match t with
  | TLit c => negb (regexp_active c) && N.ltb (N_of_ascii c) 128
  | TEsc c => negb (is_alnum c) && N.ltb (N_of_ascii c) 128
  | TBslashEnd => false
  | _ => true
  end.
Definition in_model (ts : list tok) : bool := forallb tok_in_model ts.

(* ---------- matching "^" tokens "$" against a whole string ---------- *)
(* [^/]* then f *)
Fixpoint star_go (f : str -> bool) (s : str) : bool :=
  f s ||| match s with x :: r => negb (Ascii.eqb x slash) &&& star_go f r | [] => false end.
(* .* then "/" then f   (the expressions are compiled with the s flag: "." matches every byte) *)
Fixpoint dss_go (f : str -> bool) (s : str) : bool :=
  match s with
  | [] => false
  | x :: r => (Ascii.eqb x slash &&& f r) ||| dss_go f r
  end.
(* .* then f *)
Fixpoint dse_go (f : str -> bool) (s : str) : bool :=
  f s ||| match s with x :: r => dse_go f r | [] => false end.

Fixpoint tmatch (ts : list tok) : str -> bool :=
  match ts with
  | [] => fun s => is_empty s
  | TLit c :: ts' | TEsc c :: ts' =>
      fun s => match s with x :: r => Ascii.eqb x c &&& tmatch ts' r | [] => false end
  | TQ :: ts' =>
      fun s => match s with x :: r => negb (Ascii.eqb x slash) &&& tmatch ts' r | [] => false end
  | TStar :: ts' => star_go (tmatch ts')
  | TDSS :: ts' => fun s => tmatch ts' s ||| dss_go (tmatch ts') s
  | TDSE :: ts' => dse_go (tmatch ts')
  | TBslashEnd :: _ => fun _ => false
  end.

Definition rule_match (r : rule) (path : str) : bool := tmatch (tokenize (r_val r)) path.

(* ---------- Ruleset.Excludes ---------- *)
Definition excl_step (path : str) (acc : bool * bool) (r : rule) : bool * bool :=
  if rule_match r path
  then let found := negb (r_neg r) in
       (found, found && negb (r_negafter r) && has_suffix (r_val r) dstar2)
  else acc.

Definition excludes (rules : list rule) (path : str) : bool * bool :=
  fold_left (excl_step path) rules (false, false).

Definition rules_in_model (rules : list rule) : bool :=
  forallb (fun r => in_model (tokenize (r_val r))) rules.
