(* What a line of a rule file means (C03): readRules turns a line of the
   documented language - optional '!', optional leading '/', a pattern of
   segments, optional trailing '/' - into the rule whose value is the written
   form of the pattern with a "**" segment in front unless the line is anchored
   and a "**" segment behind when the line names a directory; with
   compile_correct the rule then matches exactly the paths the segment-wise
   specification of that pattern matches. *)
From Slug Require Import Base.Str Ignore.Rules Ignore.Glob Ignore.GlobProofs Ignore.RulesProofs.

Definition body (anch dirf : bool) (pat : list gseg) : str :=
  (if anch then [slash] else []) ++ pat_text pat ++ (if dirf then [slash] else []).

Definition full_pat (anch dirf : bool) (pat : list gseg) : list gseg :=
  (if anch then [] else [GDouble]) ++ pat ++ (if dirf then [GDouble] else []).

(* ---------- the text of a well-formed pattern ---------- *)
Lemma atoms_noslash atoms : atoms_ok atoms = true -> noslash (flat_map atom_char atoms).
Proof.
  induction atoms as [|a atoms IH]; cbn; [intros _ []|].
  destruct a as [c| |]; cbn.
  - intros H. apply andb_true_iff in H as [Hc Ha]. intros [E|Hin]; [|now apply IH].
    subst c. unfold lit_ok in Hc. rewrite Ascii.eqb_refl in Hc. discriminate.
  - intros Ha [E|Hin]; [revert E; unfold qmark, slash; discriminate|now apply IH].
  - intros Ha [E|Hin]; [revert E; unfold star, slash; discriminate|].
    apply IH; [|exact Hin]. destruct atoms as [|[]]; auto. discriminate.
Qed.

Lemma seg_text_noslash g : gseg_ok g = true -> noslash (seg_text g).
Proof.
  destruct g as [atoms|]; cbn.
  - intros H. apply andb_true_iff in H as [_ H]. now apply atoms_noslash.
  - intros _ [E|[E|[]]]; revert E; unfold star, slash; discriminate.
Qed.

Lemma pat_text_head pat : pat_ok pat = true ->
  exists c r, pat_text pat = c :: r /\ Ascii.eqb c slash = false.
Proof.
  unfold pat_ok. destruct pat as [|g pat]; [discriminate|]. cbn [is_nil negb andb forallb].
  intros H. apply andb_true_iff in H as [Hg _].
  destruct (seg_text_nonempty g Hg) as (c & r & E).
  assert (Hc : Ascii.eqb c slash = false).
  { apply Ascii.eqb_neq. intros ->. apply (seg_text_noslash g Hg). rewrite E. now left. }
  destruct pat as [|g2 pat].
  - exists c, r. unfold pat_text. cbn. rewrite E. auto.
  - rewrite pat_text_cons2, E. cbn. eauto.
Qed.

Lemma last_char_app s t : t <> [] -> last_char (s ++ t) = last_char t.
Proof.
  intros Ht. unfold last_char. rewrite rev_app_distr.
  destruct (rev t) as [|c r] eqn:E; [|reflexivity].
  apply (f_equal (@rev ascii)) in E. rewrite rev_involutive in E. contradiction.
Qed.

Lemma last_char_noslash t : t <> [] -> noslash t -> exists c, last_char t = Some c /\ Ascii.eqb c slash = false.
Proof.
  intros Ht Hn. unfold last_char. destruct (rev t) as [|c r] eqn:E.
  - apply (f_equal (@rev ascii)) in E. rewrite rev_involutive in E. contradiction.
  - exists c. split; [reflexivity|]. apply Ascii.eqb_neq. intros ->. apply Hn.
    apply in_rev. rewrite E. now left.
Qed.

Lemma pat_text_snoc init g : init <> [] -> pat_text (init ++ [g]) = pat_text init ++ slash :: seg_text g.
Proof.
  intros Hi. unfold pat_text. rewrite map_app. cbn [map].
  rewrite join_app; [reflexivity| |discriminate]. destruct init; [congruence|discriminate].
Qed.

Lemma pat_text_last pat : pat_ok pat = true ->
  exists c, last_char (pat_text pat) = Some c /\ Ascii.eqb c slash = false.
Proof.
  intros Hok. unfold pat_ok in Hok. apply andb_true_iff in Hok as [Hne Hall].
  destruct pat as [|g0 pat0]; [discriminate|]. clear Hne.
  destruct (exists_last (l := g0 :: pat0) ltac:(discriminate)) as (init & g & E). rewrite E in *.
  rewrite forallb_app in Hall. apply andb_true_iff in Hall as [_ Hg]. cbn in Hg. rewrite andb_true_r in Hg.
  destruct (seg_text_nonempty g Hg) as (c & r & Eg).
  assert (Hne : seg_text g <> []) by (rewrite Eg; discriminate).
  destruct init as [|i0 init].
  - cbn [app]. unfold pat_text. cbn. now apply last_char_noslash; [|apply seg_text_noslash].
  - rewrite pat_text_snoc by discriminate.
    change (pat_text (i0 :: init) ++ slash :: seg_text g) with (pat_text (i0 :: init) ++ [slash] ++ seg_text g).
    rewrite app_assoc, last_char_app by exact Hne. now apply last_char_noslash; [|apply seg_text_noslash].
Qed.

Lemma pat_text_double_front pat : pat <> [] -> pat_text (GDouble :: pat) = dstar2 ++ slash :: pat_text pat.
Proof. destruct pat; [congruence|reflexivity]. Qed.

Lemma full_pat_ok anch dirf pat : pat_ok pat = true -> pat_ok (full_pat anch dirf pat) = true.
Proof.
  unfold pat_ok, full_pat. intros H. apply andb_true_iff in H as [Hne Hall].
  apply andb_true_iff. split.
  - destruct anch; [|reflexivity]. destruct pat; [discriminate|reflexivity].
  - rewrite !forallb_app, Hall. destruct anch, dirf; reflexivity.
Qed.

Lemma head_nonslash (s : str) c r : s = c :: r -> Ascii.eqb c slash = false ->
  match s with
  | c' :: r' => if Ascii.eqb c' slash then r' else dstar2 ++ slash :: s
  | [] => s
  end = dstar2 ++ slash :: s.
Proof. intros -> H. now rewrite H. Qed.

(* ---------- the line ---------- *)
Theorem read_line_documented rs line (neg anch dirf : bool) pat :
  pat_ok pat = true -> line <> [] ->
  trim_space line = (if neg then [bang] else []) ++ body anch dirf pat ->
  (* an unanchored, non-negated pattern does not start with '#' or '!': those lines are comments / negations *)
  (neg = false -> anch = false ->
     forall c r, pat_text pat = c :: r -> Ascii.eqb c hash = false /\ Ascii.eqb c bang = false) ->
  read_line rs line
  = POk (mkRule (pat_text (full_pat anch dirf pat)) neg false :: (if neg then mark_back rs else rs)).
Proof.
  intros Hok Hline Htrim Hfirst.
  destruct (pat_text_head pat Hok) as (c1 & r1 & E1 & Hc1).
  destruct (pat_text_last pat Hok) as (cl & El & Hcl).
  assert (Hpne : pat <> []) by (intros ->; discriminate).
  (* the common tail: from the body to the rule value *)
  assert (Htail : forall (p : str), p = body anch dirf pat ->
     match last_char p with
     | None => PPanic
     | Some lc =>
         let p := if Ascii.eqb lc slash then p ++ dstar2 else p in
         let p := match p with
                  | c :: r => if Ascii.eqb c slash then r else dstar2 ++ slash :: p
                  | [] => p
                  end in
         POk (mkRule p neg false :: (if neg then mark_back rs else rs))
     end = POk (mkRule (pat_text (full_pat anch dirf pat)) neg false :: (if neg then mark_back rs else rs))).
  { intros p ->. unfold body, full_pat. destruct anch, dirf; cbn [app].
    - (* "/pat/" *)
      change (slash :: pat_text pat ++ [slash]) with ((slash :: pat_text pat) ++ [slash]).
      rewrite last_char_app by discriminate. cbn [last_char rev app]. rewrite Ascii.eqb_refl. cbv zeta.
      cbn [app]. rewrite Ascii.eqb_refl. rewrite pat_text_snoc by exact Hpne.
      rewrite <- app_assoc. reflexivity.
    - (* "/pat" *)
      rewrite app_nil_r.
      change (slash :: pat_text pat) with ([slash] ++ pat_text pat).
      rewrite last_char_app by (rewrite E1; discriminate). rewrite El, Hcl. cbv zeta.
      cbn [app]. rewrite Ascii.eqb_refl. now rewrite app_nil_r.
    - (* "pat/" *)
      rewrite last_char_app by discriminate. cbn [last_char rev app]. rewrite Ascii.eqb_refl. cbv zeta.
      rewrite pat_text_double_front by (destruct pat; [congruence|discriminate]).
      rewrite pat_text_snoc by exact Hpne.
      destruct (pat_text pat) as [|c r] eqn:Ep; [discriminate|]. injection E1 as -> ->.
      cbn [app]. rewrite Hc1. rewrite <- !app_assoc. reflexivity.
    - (* "pat" *)
      rewrite !app_nil_r. rewrite El, Hcl. cbv zeta.
      rewrite pat_text_double_front by exact Hpne.
      destruct (pat_text pat) as [|c r] eqn:Ep; [discriminate|]. injection E1 as -> ->. now rewrite Hc1. }
  unfold read_line. destruct line as [|l0 lr]; [congruence|]. rewrite Htrim.
  destruct neg; cbn [app].
  - (* "!..." *)
    change (Ascii.eqb bang hash) with false. cbv iota. rewrite Ascii.eqb_refl.
    assert (Hbne : is_empty (body anch dirf pat) = false).
    { unfold body. destruct anch; [reflexivity|]. cbn [app]. now rewrite E1. }
    rewrite Hbne. cbn [andb]. exact (Htail _ eq_refl).
  - assert (Hb0 : exists c0 rest0, body anch dirf pat = c0 :: rest0 /\
                    Ascii.eqb c0 hash = false /\ Ascii.eqb c0 bang = false).
    { clear Htail. unfold body. destruct anch; cbn [app].
      - eexists _, _. split; [reflexivity|]. split; reflexivity.
      - specialize (Hfirst eq_refl eq_refl c1 r1 E1). rewrite E1. cbn [app]. eexists _, _. split; [reflexivity|exact Hfirst]. }
    destruct Hb0 as (c0 & rest0 & Eb & Hh & Hb).
    specialize (Htail _ eq_refl). rewrite Eb in Htail |- *. rewrite Hh, Hb. cbn [andb]. exact Htail.
Qed.

(* the rule such a line yields matches a path iff the segment-wise specification
   of the full pattern does: a leading "**" segment (zero or more directories)
   unless anchored, a trailing "**" segment (one or more segments below) for the
   directory form *)
Theorem line_rule_matches anch dirf pat neg path :
  pat_ok pat = true ->
  rule_match (mkRule (pat_text (full_pat anch dirf pat)) neg false) path
  = gmatch (full_pat anch dirf pat) (split_on slash path).
Proof.
  intros Hok. unfold rule_match. cbn [r_val].
  apply compile_correct_all. now apply full_pat_ok.
Qed.

(* "at any depth" and "everything below", spelled out *)
Lemma gmatch_unanchored pat segs : pat <> [] ->
  gmatch (GDouble :: pat) segs = true <-> exists above rest, segs = above ++ rest /\ gmatch pat rest = true.
Proof.
  intros Hne. destruct pat as [|g pat]; [congruence|].
  change (gmatch (GDouble :: g :: pat)) with (skip_go (gmatch (g :: pat))). apply skip_go_spec.
Qed.
