(* The documented rule language as an independent, segment-wise specification:
   a pattern is a list of segment patterns; '*' and '?' never cross a '/';
   a "**" segment that is followed by more pattern absorbs zero or more whole
   path segments, a final "**" absorbs one or more. *)
From Slug Require Import Base.Str Ignore.Rules.

Inductive atom := ALit (c : ascii) | AAny1 | AAnyMany.
Inductive gseg := GSeg (atoms : list atom) | GDouble.

(* one segment (the segment string contains no '/') *)
Fixpoint many_go (f : str -> bool) (s : str) : bool :=
  f s || match s with _ :: r => many_go f r | [] => false end.

Fixpoint amatch (atoms : list atom) : str -> bool :=
  match atoms with
  | [] => fun s => is_empty s
  | ALit c :: r => fun s => match s with x :: s' => Ascii.eqb x c && amatch r s' | [] => false end
  | AAny1 :: r => fun s => match s with _ :: s' => amatch r s' | [] => false end
  | AAnyMany :: r => many_go (amatch r)
  end.

Definition is_nil {A} (l : list A) : bool := match l with [] => true | _ => false end.

(* zero or more whole segments, then f *)
Fixpoint skip_go (f : list str -> bool) (segs : list str) : bool :=
  f segs || match segs with _ :: r => skip_go f r | [] => false end.

Fixpoint gmatch (pat : list gseg) : list str -> bool :=
  match pat with
  | [] => fun segs => is_nil segs
  | GSeg atoms :: r =>
      fun segs => match segs with g :: segs' => amatch atoms g && gmatch r segs' | [] => false end
  | GDouble :: r =>
      match r with
      | [] => fun segs => negb (is_nil segs)
      | _ => skip_go (gmatch r)
      end
  end.

(* ---------- how such a pattern is written, and what rule.compile makes of it ---------- *)
Definition atom_char (a : atom) : str :=
  match a with ALit c => [c] | AAny1 => [qmark] | AAnyMany => [star] end.
Definition seg_text (g : gseg) : str :=
  match g with GSeg atoms => flat_map atom_char atoms | GDouble => dstar2 end.
Definition pat_text (pat : list gseg) : str := join_with slash (map seg_text pat).

Definition atom_tok (a : atom) : tok :=
  match a with
  | ALit c => if existsb (Ascii.eqb c) escaped_chars then TEsc c else TLit c
  | AAny1 => TQ
  | AAnyMany => TStar
  end.

Fixpoint flatten (pat : list gseg) : list tok :=
  match pat with
  | [] => []
  | [GSeg atoms] => map atom_tok atoms
  | [GDouble] => [TDSE]
  | GSeg atoms :: r => map atom_tok atoms ++ TLit slash :: flatten r
  | GDouble :: r => TDSS :: flatten r
  end.

(* well-formed patterns: literals are ordinary characters, no two '*' in a row
   inside a segment *)
Definition lit_ok (c : ascii) : bool :=
  negb (Ascii.eqb c slash) && negb (Ascii.eqb c star) && negb (Ascii.eqb c qmark) && negb (Ascii.eqb c bslash).
Fixpoint atoms_ok (atoms : list atom) : bool :=
  match atoms with
  | [] => true
  | ALit c :: r => lit_ok c && atoms_ok r
  | AAny1 :: r => atoms_ok r
  | AAnyMany :: r => match r with AAnyMany :: _ => false | _ => atoms_ok r end
  end.
Definition gseg_ok (g : gseg) : bool :=
  match g with GSeg atoms => negb (is_nil atoms) && atoms_ok atoms | GDouble => true end.
Definition pat_ok (pat : list gseg) : bool := negb (is_nil pat) && forallb gseg_ok pat.
