(* rule.compile + regexp matching (Rules.tmatch) implements the segment-wise
   specification (Glob.gmatch). *)
From Slug Require Import Base.Str Ignore.Rules Ignore.Glob.

Definition noslash (s : str) : Prop := ~ In slash s.
Definition nonl (s : str) : Prop := ~ In nl s.

(* ---------- characterisation of the three loops ---------- *)
Lemma star_go_spec f s :
  star_go f s = true <-> exists a b, s = a ++ b /\ noslash a /\ f b = true.
Proof.
  induction s as [|x r IH]; cbn; rewrite ?orl_spec, ?andl_spec.
  - rewrite orb_false_r. split.
    + intros H. exists [], []. repeat split; auto. intros [].
    + intros (a & b & E & _ & H). symmetry in E. apply app_eq_nil in E as [-> ->]. exact H.
  - rewrite orb_true_iff, andb_true_iff, negb_true_iff, IH. split.
    + intros [H|[Hx (a & b & -> & Ha & Hb)]].
      * exists [], (x :: r). repeat split; auto. intros [].
      * exists (x :: a), b. repeat split; auto. intros [E|Hin]; [|now apply Ha].
        subst x. now rewrite Ascii.eqb_refl in Hx.
    + intros (a & b & E & Ha & Hb). destruct a as [|y a]; cbn in E.
      * left. now subst b.
      * injection E as -> ->. right. split.
        -- apply Ascii.eqb_neq. intros ->. apply Ha. now left.
        -- exists a, b. repeat split; auto. intros Hin. apply Ha. now right.
Qed.

Lemma dse_go_spec f s :
  dse_go f s = true <-> exists a b, s = a ++ b /\ f b = true.
Proof.
  induction s as [|x r IH]; cbn; rewrite ?orl_spec.
  - rewrite orb_false_r. split.
    + intros H. exists [], []. auto.
    + intros (a & b & E & H). symmetry in E. apply app_eq_nil in E as [-> ->]. exact H.
  - rewrite orb_true_iff, IH. split.
    + intros [H|(a & b & -> & Hb)]; [exists [], (x :: r); auto|exists (x :: a), b; auto].
    + intros (a & b & E & Hb). destruct a as [|y a]; cbn in E; [left; now subst b|].
      injection E as -> ->. right. eauto.
Qed.

Lemma dss_go_spec f s :
  dss_go f s = true <-> exists a b, s = a ++ slash :: b /\ f b = true.
Proof.
  induction s as [|x r IH]; cbn; rewrite ?orl_spec, ?andl_spec.
  - split; [discriminate|]. intros (a & b & E & _). destruct a; discriminate.
  - rewrite orb_true_iff, andb_true_iff, IH. split.
    + intros [[Hx Hf]|(a & b & -> & Hb)].
      * apply Ascii.eqb_eq in Hx. subst x. exists [], r. auto.
      * exists (x :: a), b. auto.
    + intros (a & b & E & Hb). destruct a as [|y a]; cbn in E.
      * injection E as -> ->. left. split; [apply Ascii.eqb_refl|exact Hb].
      * injection E as -> ->. right. eauto.
Qed.

Lemma many_go_spec f s : many_go f s = true <-> exists a b, s = a ++ b /\ f b = true.
Proof.
  induction s as [|x r IH]; cbn.
  - rewrite orb_false_r. split.
    + intros H. exists [], []. auto.
    + intros (a & b & E & H). symmetry in E. apply app_eq_nil in E as [-> ->]. exact H.
  - rewrite orb_true_iff, IH. split.
    + intros [H|(a & b & -> & Hb)]; [exists [], (x :: r); auto|exists (x :: a), b; auto].
    + intros (a & b & E & Hb). destruct a as [|y a]; cbn in E; [left; now subst b|].
      injection E as -> ->. right. eauto.
Qed.

Lemma skip_go_spec f segs :
  skip_go f segs = true <-> exists a b, segs = a ++ b /\ f b = true.
Proof.
  induction segs as [|x r IH]; cbn.
  - rewrite orb_false_r. split.
    + intros H. exists [], []. auto.
    + intros (a & b & E & H). symmetry in E. apply app_eq_nil in E as [-> ->]. exact H.
  - rewrite orb_true_iff, IH. split.
    + intros [H|(a & b & -> & Hb)]; [exists [], (x :: r); auto|exists (x :: a), b; auto].
    + intros (a & b & E & Hb). destruct a as [|y a]; cbn in E; [left; now subst b|].
      injection E as -> ->. right. eauto.
Qed.

(* ---------- one segment ---------- *)
Lemma noslash_app a b : noslash (a ++ b) <-> noslash a /\ noslash b.
Proof. unfold noslash. rewrite in_app_iff. tauto. Qed.

Lemma atom_tok_cases a :
  (exists c, a = ALit c /\ (atom_tok a = TLit c \/ atom_tok a = TEsc c)) \/
  (a = AAny1 /\ atom_tok a = TQ) \/ (a = AAnyMany /\ atom_tok a = TStar).
Proof.
  destruct a as [c| |].
  - left. exists c. split; [reflexivity|]. unfold atom_tok. destruct (existsb (Ascii.eqb c) escaped_chars); auto.
  - right. left. split; reflexivity.
  - right. right. split; reflexivity.
Qed.

Lemma bool_iff (a b : bool) : (a = true <-> b = true) -> a = b.
Proof.
  destruct a, b; intros [H1 H2]; try reflexivity.
  - symmetry. now apply H1.
  - now apply H2.
Qed.

Definition lits_ok (atoms : list atom) : Prop :=
  forall c, In (ALit c) atoms -> c <> slash.

(* The tokens of one segment consume a slash-free stretch that the segment
   pattern matches; the continuation sees the rest. *)
Lemma seg_tokens atoms : lits_ok atoms -> forall kt s,
  tmatch (map atom_tok atoms ++ kt) s = true <->
  exists g rest, s = g ++ rest /\ noslash g /\ amatch atoms g = true /\ tmatch kt rest = true.
Proof.
  induction atoms as [|a atoms IH]; intros Hl kt s.
  - cbn. split.
    + intros H. exists [], s. repeat split; auto. intros [].
    + intros (g & rest & -> & _ & Hg & Hk). destruct g; [exact Hk|discriminate].
  - assert (Hl' : lits_ok atoms) by (intros c Hc; apply Hl; now right).
    specialize (IH Hl').
    destruct (atom_tok_cases a) as [(c & -> & Ht)|[[-> Ht]|[-> Ht]]].
    + assert (Hc : c <> slash) by (apply Hl; now left).
      assert (Hgoal : (match s with x :: r => Ascii.eqb x c &&& tmatch (map atom_tok atoms ++ kt) r | [] => false end) = true <->
        exists g rest, s = g ++ rest /\ noslash g /\ amatch (ALit c :: atoms) g = true /\ tmatch kt rest = true).
      { destruct s as [|x s'].
        - split; [discriminate|]. intros (g & rest & E & _ & Hg & _). destruct g; [discriminate|discriminate].
        - rewrite andl_spec, andb_true_iff, IH. split.
          + intros [Hx (g & rest & -> & Hn & Hg & Hk)]. apply Ascii.eqb_eq in Hx. subst x.
            exists (c :: g), rest. repeat split; auto.
            * intros [E|Hin]; [congruence|now apply Hn].
            * cbn. now rewrite Ascii.eqb_refl.
          + intros (g & rest & E & Hn & Hg & Hk). destruct g as [|y g]; [discriminate|].
            cbn in E. injection E as -> ->. cbn in Hg. apply andb_true_iff in Hg as [Hx Hg].
            split; [exact Hx|]. exists g, rest. repeat split; auto. intros Hin. apply Hn. now right. }
      cbn [map app]. destruct Ht as [-> | ->]; exact Hgoal.
    + cbn [map app]. rewrite Ht. cbn [tmatch]. destruct s as [|x s'].
      * split; [discriminate|]. intros (g & rest & E & _ & Hg & _). destruct g; discriminate.
      * rewrite andl_spec, andb_true_iff, negb_true_iff, IH. split.
        -- intros [Hx (g & rest & -> & Hn & Hg & Hk)].
           exists (x :: g), rest. repeat split; auto.
           intros [E|Hin]; [subst x; now rewrite Ascii.eqb_refl in Hx|now apply Hn].
        -- intros (g & rest & E & Hn & Hg & Hk). destruct g as [|y g]; [discriminate|].
           cbn in E. injection E as -> ->. cbn in Hg. split.
           ++ apply Ascii.eqb_neq. intros ->. apply Hn. now left.
           ++ exists g, rest. repeat split; auto. intros Hin. apply Hn. now right.
    + cbn [map app]. rewrite Ht. cbn [tmatch]. rewrite star_go_spec. split.
      * intros (a & b & -> & Ha & Hb). apply IH in Hb as (g & rest & -> & Hn & Hg & Hk).
        exists (a ++ g), rest. repeat split; auto.
        -- now rewrite app_assoc.
        -- apply noslash_app. auto.
        -- cbn. apply many_go_spec. eauto.
      * intros (g & rest & -> & Hn & Hg & Hk). cbn in Hg. apply many_go_spec in Hg as (a & b & -> & Hb).
        apply noslash_app in Hn as [Hna Hnb].
        exists a, (b ++ rest). repeat split; auto.
        -- now rewrite app_assoc.
        -- apply IH. exists b, rest. auto.
Qed.

Lemma app_slash_inj g g' r r' :
  noslash g -> noslash g' -> g ++ slash :: r = g' ++ slash :: r' -> g = g' /\ r = r'.
Proof.
  revert g'. induction g as [|x g IH]; intros [|y g'] Hn Hn' E; cbn in E.
  - injection E as ->. auto.
  - injection E as <- _. exfalso. apply Hn'. now left.
  - injection E as -> _. exfalso. apply Hn. now left.
  - injection E as -> E. destruct (IH g') as [-> ->]; auto.
    + intros H. apply Hn. now right.
    + intros H. apply Hn'. now right.
Qed.

Lemma seg_last atoms g : lits_ok atoms -> noslash g ->
  tmatch (map atom_tok atoms) g = amatch atoms g.
Proof.
  intros Hl Hn. apply bool_iff. rewrite <- (app_nil_r (map atom_tok atoms)), seg_tokens by exact Hl.
  split.
  - intros (g' & rest & -> & _ & Hg & Hk). cbn in Hk. destruct rest; [|discriminate]. now rewrite app_nil_r.
  - intros H. exists g, []. rewrite app_nil_r. auto.
Qed.

Lemma seg_last_more atoms g rest : lits_ok atoms ->
  tmatch (map atom_tok atoms) (g ++ slash :: rest) = false.
Proof.
  intros Hl. destruct (tmatch _ _) eqn:E; [|reflexivity].
  rewrite <- (app_nil_r (map atom_tok atoms)) in E. apply seg_tokens in E; [|exact Hl].
  destruct E as (g' & rest' & E & Hn & _ & Hk). cbn in Hk. destruct rest'; [|discriminate].
  rewrite app_nil_r in E. subst g'. exfalso. apply Hn. apply in_or_app. right. now left.
Qed.

Lemma seg_mid atoms kt g rest : lits_ok atoms -> noslash g ->
  tmatch (map atom_tok atoms ++ TLit slash :: kt) (g ++ slash :: rest) = amatch atoms g && tmatch kt rest.
Proof.
  intros Hl Hn. apply bool_iff. rewrite seg_tokens by exact Hl. rewrite andb_true_iff. split.
  - intros (g' & rest' & E & Hn' & Hg & Hk). cbn in Hk. destruct rest' as [|x rest']; [discriminate|].
    apply andb_true_iff in Hk as [Hx Hk]. apply Ascii.eqb_eq in Hx. subst x.
    destruct (app_slash_inj _ _ _ _ Hn Hn' E) as [-> ->]. auto.
  - intros [Hg Hk]. exists g, (slash :: rest). repeat split; auto; cbn; now rewrite ?Ascii.eqb_refl.
Qed.

Lemma seg_mid_short atoms kt g : lits_ok atoms -> noslash g ->
  tmatch (map atom_tok atoms ++ TLit slash :: kt) g = false.
Proof.
  intros Hl Hn. destruct (tmatch _ _) eqn:E; [|reflexivity].
  apply seg_tokens in E; [|exact Hl]. destruct E as (g' & rest' & -> & _ & _ & Hk).
  cbn in Hk. destruct rest' as [|x rest']; [discriminate|].
  apply andb_true_iff in Hk as [Hx _]. apply Ascii.eqb_eq in Hx. subst x.
  exfalso. apply Hn. apply in_or_app. right. now left.
Qed.

(* ---------- segment lists and their joined strings ---------- *)
Lemma join_cons2 g g2 r : join_with slash (g :: g2 :: r) = g ++ slash :: join_with slash (g2 :: r).
Proof. reflexivity. Qed.

Lemma join_app s1 s2 : s1 <> [] -> s2 <> [] ->
  join_with slash (s1 ++ s2) = join_with slash s1 ++ slash :: join_with slash s2.
Proof.
  induction s1 as [|g s1 IH]; intros H1 H2; [congruence|].
  destruct s1 as [|g2 s1].
  - destruct s2 as [|h s2]; [congruence|]. reflexivity.
  - change ((g :: g2 :: s1) ++ s2) with (g :: g2 :: (s1 ++ s2)).
    rewrite !join_cons2. change (g2 :: s1 ++ s2) with ((g2 :: s1) ++ s2).
    rewrite IH by (auto; discriminate). now rewrite <- app_assoc.
Qed.

Lemma slash_split_cases g J a b : noslash g ->
  a ++ slash :: b = g ++ slash :: J ->
  (a = g /\ b = J) \/ exists a', a = g ++ slash :: a' /\ a' ++ slash :: b = J.
Proof.
  revert a. induction g as [|x g IH]; intros a Hn E.
  - destruct a as [|y a]; cbn in E.
    + injection E as ->. now left.
    + injection E as -> E. right. exists a. auto.
  - destruct a as [|y a]; cbn in E.
    + injection E as <- _. exfalso. apply Hn. now left.
    + injection E as -> E. assert (Hn' : noslash g) by (intros H; apply Hn; now right).
      destruct (IH a Hn' E) as [[-> ->]|(a' & -> & E')]; [now left|right].
      exists a'. split; [reflexivity|exact E'].
Qed.

Definition segs_noslash (segs : list str) : Prop := forall g, In g segs -> noslash g.
Definition segs_nonl (segs : list str) : Prop := forall g, In g segs -> nonl g.

Lemma join_split_at segs : segs_noslash segs -> segs <> [] -> forall a b,
  join_with slash segs = a ++ slash :: b <->
  exists s1 s2, segs = s1 ++ s2 /\ s1 <> [] /\ s2 <> [] /\
                a = join_with slash s1 /\ b = join_with slash s2.
Proof.
  induction segs as [|g segs IH]; intros Hn Hne a b; [congruence|].
  destruct segs as [|g2 segs].
  - cbn [join_with]. split.
    + intros E. exfalso. apply (Hn g); [now left|]. rewrite E. apply in_or_app. right. now left.
    + intros (s1 & s2 & E & H1 & H2 & _). destruct s1 as [|x s1]; [congruence|].
      destruct s1; [|discriminate]. cbn in E. injection E as _ E. subst s2. congruence.
  - rewrite join_cons2. assert (Hg : noslash g) by (apply Hn; now left).
    assert (Hn' : segs_noslash (g2 :: segs)) by (intros x Hx; apply Hn; now right).
    split.
    + intros E. symmetry in E. destruct (slash_split_cases g _ a b Hg E) as [[-> ->]|(a' & -> & E')].
      * exists [g], (g2 :: segs). repeat split; auto; discriminate.
      * symmetry in E'. apply IH in E' as (s1 & s2 & Es & H1 & H2 & -> & ->); [|exact Hn'|discriminate].
        exists (g :: s1), s2. rewrite Es. repeat split; auto; [discriminate|].
        destruct s1 as [|x s1]; [congruence|]. reflexivity.
    + intros (s1 & s2 & E & H1 & H2 & -> & ->).
      rewrite <- join_cons2, E. now apply join_app.
Qed.

Lemma join_nonl segs : segs_nonl segs -> nonl (join_with slash segs).
Proof.
  induction segs as [|g segs IH]; intros H; [intros []|].
  destruct segs as [|g2 segs]; [apply H; now left|].
  rewrite join_cons2. intros Hin. apply in_app_or in Hin as [Hin|[E|Hin]].
  - apply (H g); [now left|exact Hin].
  - discriminate.
  - apply IH; [intros x Hx; apply H; now right|exact Hin].
Qed.

(* ---------- the specification and the implementation agree ---------- *)
Lemma gmatch_nil pat : pat <> [] -> gmatch pat [] = false.
Proof.
  induction pat as [|g pat IH]; intros H; [congruence|].
  destruct g as [atoms|]; [reflexivity|].
  destruct pat as [|g2 pat]; [reflexivity|].
  change (gmatch (GDouble :: g2 :: pat) []) with (skip_go (gmatch (g2 :: pat)) []).
  cbn [skip_go]. rewrite IH by discriminate. reflexivity.
Qed.

Lemma GE1 atoms r g segs : gmatch (GSeg atoms :: r) (g :: segs) = amatch atoms g && gmatch r segs.
Proof. reflexivity. Qed.

Definition pat_lits_ok (pat : list gseg) : Prop :=
  forall atoms, In (GSeg atoms) pat -> lits_ok atoms.

Theorem flatten_correct pat : pat <> [] -> pat_lits_ok pat ->
  forall segs, segs <> [] -> segs_noslash segs ->
  tmatch (flatten pat) (join_with slash segs) = gmatch pat segs.
Proof.
  induction pat as [|g pat IH]; intros Hne Hl segs Hs Hns; [congruence|].
  assert (Hl' : pat_lits_ok pat) by (intros a Ha; apply Hl; now right).
  destruct g as [atoms|].
  - assert (Ha : lits_ok atoms) by (apply Hl; now left).
    destruct segs as [|s segs]; [congruence|].
    assert (Hsn : noslash s) by (apply Hns; now left).
    destruct pat as [|g2 pat].
    + (* last pattern segment *)
      cbn [flatten gmatch]. destruct segs as [|s2 segs].
      * cbn [join_with]. rewrite seg_last by assumption. cbn. now rewrite andb_true_r.
      * rewrite join_cons2, seg_last_more by assumption. cbn. now rewrite andb_false_r.
    + change (flatten (GSeg atoms :: g2 :: pat)) with (map atom_tok atoms ++ TLit slash :: flatten (g2 :: pat)).
      rewrite GE1. destruct segs as [|s2 segs].
      * cbn [join_with]. rewrite seg_mid_short by assumption.
        rewrite gmatch_nil by discriminate. now rewrite andb_false_r.
      * rewrite join_cons2, seg_mid by assumption. f_equal.
        apply IH; auto; try discriminate.
        intros x Hx. apply Hns. now right.
  - destruct pat as [|g2 pat].
    + (* final "**" *)
      cbn [flatten gmatch tmatch]. destruct segs as [|s segs]; [congruence|]. cbn [is_nil negb].
      apply dse_go_spec. exists (join_with slash (s :: segs)), []. rewrite app_nil_r.
      auto.
    + change (flatten (GDouble :: g2 :: pat)) with (TDSS :: flatten (g2 :: pat)).
      change (gmatch (GDouble :: g2 :: pat)) with (skip_go (gmatch (g2 :: pat))).
      cbn [tmatch]. apply bool_iff.
      rewrite orl_spec, orb_true_iff, dss_go_spec, skip_go_spec. split.
      * intros [H|(a & b & E & Hb)].
        -- exists [], segs. split; [reflexivity|]. rewrite <- IH; auto. discriminate.
        -- apply join_split_at in E as (s1 & s2 & -> & H1 & H2 & -> & ->); auto.
           exists s1, s2. split; [reflexivity|]. rewrite <- IH; auto; try discriminate.
           intros x Hx. apply Hns. apply in_or_app. now right.
      * intros (s1 & s2 & E & Hm).
        destruct s2 as [|y s2]; [rewrite gmatch_nil in Hm by discriminate; discriminate|].
        destruct s1 as [|x s1].
        -- left. cbn in E. subst segs. rewrite IH; auto; discriminate.
        -- right. exists (join_with slash (x :: s1)), (join_with slash (y :: s2)).
           assert (Hns2 : segs_noslash (y :: s2)) by (intros z Hz; apply Hns; subst segs; apply in_or_app; now right).
           split.
           ++ subst segs. apply join_app; discriminate.
           ++ rewrite IH; auto; discriminate.
Qed.

(* ---------- the tokenizer on written patterns ---------- *)
Lemma TK_plain c r :
  Ascii.eqb c star = false -> Ascii.eqb c qmark = false -> Ascii.eqb c bslash = false ->
  tokenize (c :: r) =
  (if existsb (Ascii.eqb c) escaped_chars then TEsc c else TLit c) :: tokenize r.
Proof.
  intros H1 H2 H3. cbn [tokenize]. rewrite H1, H2.
  destruct (existsb (Ascii.eqb c) escaped_chars); [reflexivity|]. now rewrite H3.
Qed.

Lemma TK_slash r : tokenize (slash :: r) = TLit slash :: tokenize r.
Proof. reflexivity. Qed.
Lemma TK_q r : tokenize (qmark :: r) = TQ :: tokenize r.
Proof. reflexivity. Qed.
Lemma TK_star_end : tokenize [star] = [TStar].
Proof. reflexivity. Qed.
Lemma TK_star_other c r : Ascii.eqb c star = false -> tokenize (star :: c :: r) = TStar :: tokenize (c :: r).
Proof. intros H. cbn [tokenize]. change (Ascii.eqb star star) with true. cbn iota. now rewrite H. Qed.
Lemma TK_dstar_end : tokenize dstar2 = [TDSE].
Proof. reflexivity. Qed.
Lemma TK_dstar_slash c r : tokenize (star :: star :: slash :: c :: r) = TDSS :: tokenize (c :: r).
Proof. reflexivity. Qed.

Lemma lit_ok_spec c : lit_ok c = true ->
  Ascii.eqb c slash = false /\ Ascii.eqb c star = false /\ Ascii.eqb c qmark = false /\ Ascii.eqb c bslash = false.
Proof. unfold lit_ok. rewrite !andb_true_iff, !negb_true_iff. tauto. Qed.

Lemma tokenize_segment atoms : atoms_ok atoms = true -> forall rest,
  (rest = [] \/ exists r', rest = slash :: r') ->
  tokenize (flat_map atom_char atoms ++ rest) = map atom_tok atoms ++ tokenize rest.
Proof.
  induction atoms as [|a atoms IH]; intros Hok rest Hrest; [reflexivity|].
  destruct a as [c| |].
  - cbn in Hok. apply andb_true_iff in Hok as [Hc Hok].
    destruct (lit_ok_spec c Hc) as (_ & H1 & H2 & H3).
    cbn [flat_map atom_char app map]. rewrite TK_plain by assumption.
    unfold atom_tok. now rewrite IH.
  - cbn in Hok. cbn [flat_map atom_char app map atom_tok]. rewrite TK_q. now rewrite IH.
  - cbn [flat_map atom_char app map atom_tok].
    assert (Hok' : atoms_ok atoms = true) by (cbn in Hok; destruct atoms as [|[]]; auto; discriminate).
    destruct atoms as [|a2 atoms].
    + cbn [flat_map app map]. destruct Hrest as [->|(r' & ->)]; [reflexivity|].
      rewrite TK_star_other by reflexivity. reflexivity.
    + assert (Hnext : exists c r, flat_map atom_char (a2 :: atoms) ++ rest = c :: r /\ Ascii.eqb c star = false).
      { destruct a2 as [c| |]; cbn.
        - cbn in Hok. apply andb_true_iff in Hok as [Hc _]. destruct (lit_ok_spec c Hc) as (_ & H1 & _). eauto.
        - eauto.
        - cbn in Hok. discriminate. }
      destruct Hnext as (c & r & E & Hc).
      rewrite E, TK_star_other by exact Hc. rewrite <- E, IH by assumption. reflexivity.
Qed.

Lemma pat_text_cons2 g g2 r : pat_text (g :: g2 :: r) = seg_text g ++ slash :: pat_text (g2 :: r).
Proof. reflexivity. Qed.

Lemma seg_text_nonempty g : gseg_ok g = true -> exists c r, seg_text g = c :: r.
Proof.
  destruct g as [atoms|]; cbn; [|intros _; unfold dstar2; eauto].
  destruct atoms as [|a atoms]; [discriminate|]. intros _. destruct a; cbn; eauto.
Qed.

Lemma pat_text_nonempty pat : pat_ok pat = true -> exists c r, pat_text pat = c :: r.
Proof.
  unfold pat_ok. destruct pat as [|g pat]; [discriminate|]. cbn [is_nil negb andb forallb].
  intros H. apply andb_true_iff in H as [Hg _].
  destruct (seg_text_nonempty g Hg) as (c & r & E).
  destruct pat as [|g2 pat]; [cbn; eauto|]. rewrite pat_text_cons2, E. cbn. eauto.
Qed.

(* what rule.compile makes of a written pattern *)
Theorem tokenize_pat_text pat : pat_ok pat = true -> tokenize (pat_text pat) = flatten pat.
Proof.
  induction pat as [|g pat IH]; intros Hok; [discriminate|].
  unfold pat_ok in Hok. cbn [is_nil negb andb forallb] in Hok. apply andb_true_iff in Hok as [Hg Hrest].
  destruct pat as [|g2 pat].
  - destruct g as [atoms|]; [|reflexivity].
    cbn in Hg. apply andb_true_iff in Hg as [_ Hg].
    cbn [pat_text map join_with seg_text flatten].
    rewrite <- (app_nil_r (flat_map atom_char atoms)), tokenize_segment by auto. cbn. now rewrite app_nil_r.
  - assert (Hok2 : pat_ok (g2 :: pat) = true) by (unfold pat_ok; cbn [is_nil negb andb]; exact Hrest).
    rewrite pat_text_cons2. destruct g as [atoms|].
    + cbn in Hg. apply andb_true_iff in Hg as [_ Hg].
      change (flatten (GSeg atoms :: g2 :: pat)) with (map atom_tok atoms ++ TLit slash :: flatten (g2 :: pat)).
      cbn [seg_text]. rewrite tokenize_segment by eauto. rewrite TK_slash, IH by exact Hok2. reflexivity.
    + change (flatten (GDouble :: g2 :: pat)) with (TDSS :: flatten (g2 :: pat)).
      destruct (pat_text_nonempty _ Hok2) as (c & r & E). cbn [seg_text]. rewrite E.
      change (dstar2 ++ slash :: c :: r) with (star :: star :: slash :: c :: r).
      rewrite TK_dstar_slash, <- E, IH by exact Hok2. reflexivity.
Qed.

Lemma atoms_ok_lits atoms : atoms_ok atoms = true -> lits_ok atoms.
Proof.
  induction atoms as [|a atoms IH]; intros Hok c Hin; [contradiction|].
  destruct Hin as [->|Hin].
  - cbn in Hok. apply andb_true_iff in Hok as [Hc _]. destruct (lit_ok_spec c Hc) as (H & _).
    now apply Ascii.eqb_neq.
  - apply IH; [|exact Hin]. destruct a as [c'| |]; cbn in Hok.
    + now apply andb_true_iff in Hok as [_ ?].
    + exact Hok.
    + destruct atoms as [|[]]; auto; discriminate.
Qed.

(* compile_correct: a rule whose value is a written well-formed pattern matches
   a path exactly when the segment-wise specification says so *)
Theorem compile_correct_all pat path :
  pat_ok pat = true ->
  tmatch (tokenize (pat_text pat)) path = gmatch pat (split_on slash path).
Proof.
  intros Hok. rewrite tokenize_pat_text by exact Hok.
  rewrite <- (join_split slash path) at 1.
  unfold pat_ok in Hok. apply andb_true_iff in Hok as [Hne Hall].
  apply flatten_correct.
  - destruct pat; [discriminate|discriminate].
  - intros atoms Hin. rewrite forallb_forall in Hall. specialize (Hall _ Hin). cbn in Hall.
    apply andb_true_iff in Hall as [_ Hall]. now apply atoms_ok_lits.
  - apply split_on_nonempty.
  - intros g Hg. eapply split_on_segs_no_sep; eauto.
Qed.

(* the statement as it was when "." did not match a newline (kept for its users) *)
Theorem compile_correct pat path :
  pat_ok pat = true -> nonl path ->
  tmatch (tokenize (pat_text pat)) path = gmatch pat (split_on slash path).
Proof. intros Hok _. now apply compile_correct_all. Qed.
